(* OptimizePipeline (C02): ONE composition theorem for optimize_graph — the passes of _OPTIMIZER_PASSES run in the order of
   the table translated from the source (gen/GenOptPasses.v: label, function that runs, runs on function bodies?) on one
   common annotated graph [ograph]; every verified pass model is plugged in (its own graph type is a projection of the common
   one), every pass not yet modelled enters through an explicit hypothesis [pass_ok] ("refines and keeps the graph
   admissible").  The theorem: for every graph admissible when optimisation starts, the pipeline refines it. *)
From Coq Require Import ZArith String List Bool Arith Lia.
From J2O Require Import PyLib Tensor Graph Redirect Preserve Reshape ElemCommute ChainSim ReshapePairPass ChainFacts C02Opt ElemSem
  ElemBroadcast TransposePairPass TransposeRegion TransposeAddForestPass TransposeAddForestSound TransposeReducePass
  TransposeReduceSound IdReshapePass OrphanPass OptGraph PropagateShapes SwishPass DropoutPass RefreshSound DcePass TransposeRefresh.
From J2O Require Annot Onnx.
From J2OGen Require GenShapes.
From J2OGen Require Import GenCast GenOpt GenOptPasses.
Import ListNotations.

(* ================================================================ the composition, for any state / value domain *)
Section Compose.
  Variable V : Type.
  Variable veq : V -> V -> Prop.
  Hypothesis veq_refl : forall a, veq a a.
  Hypothesis veq_trans : forall a b c, veq a b -> veq b c -> veq a c.
  Variable sem : string -> list nat -> list V -> option (list V).
  Variable G : Type.                              (* the annotated graph the passes work on *)
  Variable gr : G -> graph.
  Variable padm : G -> env V -> Prop.             (* admissible: what the passes may rely on *)
  Variable ext : G -> env V -> env V -> Prop.     (* [ext g e0 e]: e is e0 plus the initializers the passes created so far *)

  (* a pass is fine on the graphs satisfying [guard]: it keeps admissibility and the environment relation, and the rewritten
     graph runs whenever the given one does, with equivalent outputs *)
  Definition pass_ok_on (guard : G -> Prop) (P : G -> G) : Prop :=
    forall g e0 e, guard g -> padm g e -> ext g e0 e -> forall o, run V sem (gr g) e = Some o ->
      exists e' o', ext (P g) e0 e' /\ padm (P g) e' /\ run V sem (gr (P g)) e' = Some o' /\ Forall2 veq o o'.

  Lemma Forall2_veq_refl o : Forall2 veq o o.
  Proof. induction o; constructor; auto. Qed.
  Lemma Forall2_veq_trans o1 o2 o3 : Forall2 veq o1 o2 -> Forall2 veq o2 o3 -> Forall2 veq o1 o3.
  Proof. intro H. revert o3. induction H as [|x y l l' Hxy _ IH]; intros o3 H3; inversion H3; subst; constructor; eauto. Qed.

  Variable impl : string -> G -> G.
  Variable guard : string -> G -> Prop.
  Fixpoint run_passes (names : list string) (g : G) : G :=
    match names with [] => g | n :: r => run_passes r (impl n g) end.
  Fixpoint guards_along (names : list string) (g : G) : Prop :=
    match names with [] => True | n :: r => guard n g /\ guards_along r (impl n g) end.

  Theorem compose_sound : forall names, (forall n, In n names -> pass_ok_on (guard n) (impl n)) ->
    forall g e0 e, guards_along names g -> padm g e -> ext g e0 e -> forall o, run V sem (gr g) e = Some o ->
      exists e' o', ext (run_passes names g) e0 e' /\ padm (run_passes names g) e' /\
                    run V sem (gr (run_passes names g)) e' = Some o' /\ Forall2 veq o o'.
  Proof.
    induction names as [|n r IH]; intros Hok g e0 e Hg Hadm Hext o Hrun; simpl.
    - exists e, o. repeat split; auto. apply Forall2_veq_refl.
    - destruct Hg as [Hg1 Hg2].
      destruct (Hok n (or_introl eq_refl) g e0 e Hg1 Hadm Hext o Hrun) as (e1 & o1 & Hext1 & Hadm1 & Hrun1 & Ho1).
      destruct (IH (fun m Hm => Hok m (or_intror Hm)) (impl n g) e0 e1 Hg2 Hadm1 Hext1 o1 Hrun1) as (e' & o' & He' & Ha' & Hr' & Ho').
      exists e', o'. repeat split; auto. eapply Forall2_veq_trans; eauto.
  Qed.

  (* a while-changed loop of single rewrites *)
  Section Loop.
    Variable step : G -> option G.
    Variable lguard : nat -> G -> Prop.       (* what is asked of the graph with [k] iterations to go *)
    Fixpoint loop (fuel : nat) (g : G) : G :=
      match fuel with O => g | S k => match step g with Some g' => loop k g' | None => g end end.
    Hypothesis step_ok : forall k g g' e0 e, lguard (S k) g -> padm g e -> ext g e0 e -> step g = Some g' ->
      forall o, run V sem (gr g) e = Some o ->
      lguard k g' /\ exists e' o', ext g' e0 e' /\ padm g' e' /\ run V sem (gr g') e' = Some o' /\ Forall2 veq o o'.
    Theorem loop_ok fuel : pass_ok_on (lguard fuel) (loop fuel).
    Proof.
      induction fuel as [|k IH]; intros g e0 e Hg Hadm Hext o Hrun; simpl.
      - exists e, o. repeat split; auto. apply Forall2_veq_refl.
      - destruct (step g) as [g'|] eqn:Es.
        + destruct (step_ok k g g' e0 e Hg Hadm Hext Es o Hrun) as (Hg' & e1 & o1 & Hext1 & Hadm1 & Hrun1 & Ho1).
          destruct (IH g' e0 e1 Hg' Hadm1 Hext1 o1 Hrun1) as (e' & o' & He' & Ha' & Hr' & Ho').
          exists e', o'. repeat split; auto. eapply Forall2_veq_trans; eauto.
        + exists e, o. repeat split; auto. apply Forall2_veq_refl.
    Qed.
  End Loop.
End Compose.

(* ---- one rewrite of each verified pass on the common graph: decide on the view, put the result back *)
(* remove_redundant_transpose_reduce_ir: besides the rewrite of TransposeReducePass.apply_tr, the reducer's output takes the
   declared shape and dtype of T2's output (_copy_shape_dtype, in the form "copy, and clear when T2's output has none": see
   the stale-annotation finding) and the created initializer is declared as the int64 vector it is *)
Definition o_step_R (g : ograph) : option ograph :=
  match first_some (decide_tr (projR g)) (o_nodes g) with
  | None => None
  | Some a =>
      let gx := apply_tr (projR g) a in
      let fresh := S (max_name (projR g)) in
      match out1 (ra_red a), out1 (ra_T2 a) with
      | Some ro, Some t2o =>
          let sh1 := tr_shape_upd (o_shape g) a in
          let dt1 := updf (o_dtype g) ro (match o_dtype g t2o with Some c => Some c | None => o_dtype g ro end) in
          Some (match ra_axes a with
                | AxInput l => mkOG (rt_nodes gx) (rt_outputs gx) (updf dt1 fresh (Some 7%Z)) (updf sh1 fresh (Some [DInt (length l)]))
                                    (updf (o_scalar g) fresh (Nat.eqb (length l) 1)) (updf (o_crank g) fresh (Some 1)) (rt_const gx)
                                    (updf (o_bool g) fresh None)
                                    (match o_fc g with Some f => if Nat.eqb f fresh then None else Some f | None => None end)
                | _ => mkOG (rt_nodes gx) (rt_outputs gx) dt1 sh1 (o_scalar g) (o_crank g) (rt_const gx) (o_bool g) (o_fc g)
                end)
      | _, _ => None
      end
  end.

Definition mergeP (g : ograph) (gx : pgraph) : ograph :=
  mkOG (pg_nodes gx) (pg_outputs gx) (o_dtype g) (pg_shape gx) (pg_scalar gx) (pg_crank gx) (o_const g) (o_bool g) (o_fc g).
Definition o_step_P (g : ograph) : option ograph := option_map (mergeP g) (reshape_pair_step (projP g)).
Definition mergeI (g : ograph) (gx : rgraph) : ograph :=
  mkOG (rg_nodes gx) (rg_outputs gx) (o_dtype g) (o_shape g) (o_scalar g) (o_crank g) (o_const g) (o_bool g) (o_fc g).
Definition o_step_I (g : ograph) : option ograph := option_map (mergeI g) (idreshape_step (projI g)).
Definition o_pass_O (fuel : nat) (g : ograph) : ograph :=
  let gx := orphan_pass fuel (o_graph g) in
  mkOG (g_nodes gx) (g_outputs gx) (o_dtype g) (o_shape g) (o_scalar g) (o_crank g) (o_const g) (o_bool g) (o_fc g).

(* the views commute with the rewrites: the loops on the common graph are the tied models on the views *)
Lemma apply_taction_scalar g act : tg_scalar (apply_taction g act) = tg_scalar g.
Proof.
  destruct act; cbn [apply_taction]; unfold apply_add, apply_forest, apply_dag, apply_chain, apply_region;
  repeat match goal with |- context [match ?x with _ => _ end] => destruct x end; reflexivity.
Qed.
Lemma transpose_pair_step_scalar g g' : transpose_pair_step g = Some g' -> tg_scalar g' = tg_scalar g.
Proof. unfold transpose_pair_step. destruct (decide_step g); [|discriminate]. intro H. injection H as <-. apply apply_taction_scalar. Qed.
Lemma addforest_step_scalar g g' : addforest_step g = Some g' -> tg_scalar g' = tg_scalar g.
Proof. unfold addforest_step. destruct (first_some _ _); [|discriminate]. intro H. injection H as <-. reflexivity. Qed.

Lemma projP_mergeP g gx : projP (mergeP g gx) = gx.
Proof. destruct gx. reflexivity. Qed.

(* the plain (un-normalised) readings the reshape pass uses follow from the normalised ones: the operator names of the
   tables are not in the "ai.onnx::" form *)
Lemma pw_ops_norm op : str_in op (pw_ops ++ ["CastLike"%string]) = true -> op_type op = op.
Proof.
  intro H. apply str_in_In in H.
  assert (Hall : forallb (fun o => String.eqb (op_type o) o) (pw_ops ++ ["CastLike"%string]) = true) by (vm_compute; reflexivity).
  rewrite forallb_forall in Hall. apply String.eqb_eq. now apply Hall.
Qed.

(* ---- which entries of the table are verified models, which remain hypotheses *)
Definition VERIFIED_RUNNERS : list string :=
  ["remove_redundant_transpose_reduce_ir"; "remove_redundant_transpose_add_forests_ir"; "remove_redundant_transpose_pairs_ir";
   "remove_redundant_reshape_pairs_ir"; "remove_identity_reshapes_ir"; "remove_orphan_transposes_ir";
   "propagate_unary_shapes_ir"; "prune_unused_graph_inputs_ir"; "rewrite_mul_sigmoid_as_swish_ir";
   "inline_dropout_training_mode_constants_ir"; "propagate_elementwise_shapes_ir"; "remove_dead_nodes_ir"]%string.
Definition UNMODELLED_RUNNERS : list string :=
  ["_run_name_fix_pass"; "_run_common_subexpression_elimination_pass";
   "_run_lift_constants_to_initializers_pass"; "rewrite_mul_rsqrt_as_div_ir";
   "remove_redundant_casts_ir"]%string.
(* exactly the functions of the translated table that are not verified models (a pass added to, or removed from,
   _OPTIMIZER_PASSES breaks this) *)
Lemma unmodelled_exact :
  nodup string_dec (filter (fun r => negb (str_in r VERIFIED_RUNNERS)) (map (fun r => fst (snd r)) OPTIMIZER_PASS_TABLE)) = UNMODELLED_RUNNERS.
Proof. vm_compute. reflexivity. Qed.
Lemma table_labels : map fst OPTIMIZER_PASS_TABLE = OPTIMIZER_PASS_NAMES.
Proof. reflexivity. Qed.

Section PSound.
  Variable A : Type.
  Notation V := (tensor A).
  Variable sem : string -> list nat -> list V -> option (list V).
  Hypothesis sem_proper : forall op ats vs vs' o, Forall2 teq vs vs' -> sem op ats vs = Some o ->
    exists o', sem op ats vs' = Some o' /\ Forall2 teq o o'.
  (* ---- the union of the semantic hypotheses of the verified passes *)
  Hypothesis Htr : sem_transpose_spec A sem op_type.
  Hypothesis Hrs : sem_reshape_spec A sem.
  Variable F : string -> list nat -> list A -> A.
  Hypothesis Hpw : sem_pointwise_spec_g A sem op_type F.
  Variable Fcl : list nat -> V -> A -> A.
  Hypothesis Hcl : sem_castlike_spec_n A sem op_type Fcl.
  Hypothesis Hcl_type : castlike_type_only A Fcl.
  Hypothesis Hacc : sem_accepts_spec_g A sem op_type.
  Variable reduce : list nat -> V -> V.
  Hypothesis Hred : reduce_laws A reduce.
  Variable denoteZ : V -> option (list Z).
  Hypothesis denote_teq : forall v v', teq v v' -> denoteZ v = denoteZ v'.
  Hypothesis Hrm : sem_reducemean_spec A sem op_type denoteZ reduce.
  Variable mkZ : list Z -> V.
  Hypothesis denote_mkZ : forall l, denoteZ (mkZ l) = Some l.
  Hypothesis mkZ_shape : forall l, shape (mkZ l) = [length l].
  Hypothesis Hreshape : forall ats vs o, sem "Reshape"%string ats vs = Some o ->
    exists x sv, vs = [x; sv] /\ forall tgt, denoteZ sv = Some tgt -> Forall (fun d => (0 <= d)%Z) tgt -> o = [reshape (map Z.to_nat tgt) x].

  (* the operators C08 lists with the shape rule "same shape as the first input" (Annot.first_input_shape_ops) obey it *)
  Hypothesis Hsame : forall op ats vs o, Onnx.str_mem op Annot.first_input_shape_ops = true -> sem op ats vs = Some o ->
    exists x xs y ys, vs = x :: xs /\ o = y :: ys /\ shape y = shape x.

  (* scalar booleans (Dropout's training_mode): [denoteB v = Some b] — v is a one-element BOOL tensor holding b *)
  Variable denoteB : V -> option bool.
  Hypothesis denoteB_teq : forall v v', teq v v' -> denoteB v = denoteB v'.
  Hypothesis denoteB_inj : forall v w b, denoteB v = Some b -> denoteB w = Some b -> shape v = [] -> shape w = [] -> teq v w.
  Variable mkB : bool -> V.
  Hypothesis mkB_ok : forall b, denoteB (mkB b) = Some b /\ shape (mkB b) = [].
  Hypothesis Hnot : forall op ats vs o, op_type op = "Not"%string -> sem op ats vs = Some o ->
    exists c n, vs = [c] /\ o = [n] /\ shape n = shape c /\ forall b, denoteB c = Some b -> denoteB n = Some (negb b).
  (* ONNX Dropout: training_mode is a scalar *)
  Hypothesis Hdrop_tm : forall op ats x r t rest o, op_type op = "Dropout"%string -> sem op ats (x :: r :: t :: rest) = Some o -> shape t = [].

  (* Swish(x) is x * Sigmoid(x) *)
  Hypothesis Hswish : forall opS atsS opM atsM x s m, op_type opS = "Sigmoid"%string -> op_type opM = "Mul"%string ->
    sem opS atsS [x] = Some [s] -> (sem opM atsM [x; s] = Some [m] \/ sem opM atsM [s; x] = Some [m]) ->
    exists w, sem "Swish"%string [] [x] = Some [w] /\ teq m w.

  Notation evalg := (eval V sem).
  Notation rung := (run V sem).
  Definition denotes (v : V) (l : list Z) : Prop := denoteZ v = Some l.

  (* derived readings *)
  Let Hpwa : sem_pointwise_spec_a A sem op_type F := spec_g_a A sem op_type F Hpw.
  Let Hacca : sem_accepts_spec_a A sem op_type := accepts_g_a A sem op_type Hacc.
  Lemma Hpw_plain : sem_pointwise_spec A sem F.
  Proof.
    intros op ats vs o Hop Hs Hok.
    assert (Hn : op_type op = op) by (apply pw_ops_norm; apply str_in_In; apply in_or_app; left; now apply str_in_In).
    assert (Hop' : str_in (op_type op) pw_ops_all = true) by (rewrite Hn; now apply pw_ops_sub).
    destruct (Hpwa op ats vs o Hop' Hs Hok) as (y & Hy & Ht). exists y. split; auto. now rewrite Hn in Ht.
  Qed.
  Lemma Hcl_plain : sem_castlike_spec A sem Fcl.
  Proof. intros ats vs o Hs. apply (Hcl "CastLike"%string ats vs o); auto. Qed.
  Lemma Hacc_plain : sem_accepts_spec A sem.
  Proof.
    intros op ats vs vs' Hop Hs Hse Hor.
    assert (Hn : op_type op = op) by (now apply pw_ops_norm).
    apply (accepts_a_n A sem op_type Hacca op ats vs vs'); auto; rewrite Hn; auto.
  Qed.

  (* ---- admissible: SSA; the declared dims are true of every successful run; the constant payloads the passes resolve
          belong to names the ENVIRONMENT defines (initializers, graph inputs with a constant value) and are true of it *)
  Definition shape_ok (sh : name -> option (list dim)) (ns : list node) (e : env V) : Prop :=
    exists sigma, forall ef x ds v, evalg ns e = Some ef -> sh x = Some ds -> ef x = Some v -> Forall2 (dim_ok sigma) ds (shape v).
  Record padm (g : ograph) (e : env V) : Prop := {
    pa_ssa : ssa V (o_nodes g) e;
    pa_shape : shape_ok (o_shape g) (o_nodes g) e;
    pa_scalar : forall x, o_scalar g x = true -> exists v, e x = Some v /\ all1 (shape v) = true;
    pa_crank : forall x r, o_crank g x = Some r -> exists v, e x = Some v /\ length (shape v) = r;
    pa_const : forall x l, o_const g x = Some l -> exists v, e x = Some v /\ denoteZ v = Some l;
    pa_bool : forall x b, o_bool g x = Some b -> exists v, e x = Some v /\ denoteB v = Some b;
    pa_fc : forall x, o_fc g = Some x -> exists v, e x = Some v /\ denoteB v = Some false /\ shape v = [] }.
  (* the final environment differs from the given one only at names whose value the graph's constant annotations state
     (the initializers the passes created: re-mapped axes, false_const) *)
  Definition pext (g : ograph) (e0 e : env V) : Prop :=
    forall x, e x = e0 x \/ (exists l v, o_const g x = Some l /\ e x = Some v /\ denoteZ v = Some l) \/
              (exists b v, o_bool g x = Some b /\ e x = Some v /\ denoteB v = Some b).

  Lemma env_final ns (e ef : env V) x v : ssa V ns e -> evalg ns e = Some ef -> e x = Some v -> ef x = Some v.
  Proof.
    intros Hssa Hev Hx. apply (eval_mono V sem ns e ef x v Hev Hx). intro Hin. rewrite (proj2 Hssa x Hin) in Hx. discriminate.
  Qed.
  Lemma env_defined_not_def ns (e : env V) x v y n : ssa V ns e -> e x = Some v -> In n ns -> In y (n_outs n) -> x <> y.
  Proof.
    intros Hssa Hx Hn Hy ->. assert (Hin : In y (defs ns)) by (unfold defs; apply in_flat_map; eauto). rewrite (proj2 Hssa y Hin) in Hx. discriminate.
  Qed.

  Lemma padm_radm g e : padm g e -> radm A sem denoteZ (projR g) e.
  Proof.
    intros [Hssa _ _ _ Hc _ _]. split; cbn [projR rt_nodes rt_const].
    - exact Hssa.
    - intros ef x l v Hev _ Hcx Hx. destruct (Hc x l Hcx) as (v0 & E0 & Hd). rewrite (env_final _ _ _ _ _ Hssa Hev E0) in Hx. congruence.
    - intros n y Hn _ Hy. destruct (o_const g y) as [l|] eqn:Ec; [|reflexivity]. destruct (Hc y l Ec) as (v0 & E0 & _).
      destruct (env_defined_not_def _ _ _ _ _ _ Hssa E0 Hn Hy eq_refl).
  Qed.
  Lemma padm_tadm g e : padm g e -> tadmissible A sem (projT g) e.
  Proof.
    intros [Hssa _ Hs _ _ _ _]. split; cbn [projT tg_nodes tg_scalar]; [exact Hssa|].
    intros ef x v Hev Hsx Hx. destruct (Hs x Hsx) as (v0 & E0 & H1). rewrite (env_final _ _ _ _ _ Hssa Hev E0) in Hx. congruence.
  Qed.
  Lemma padm_padm g e : padm g e -> ReshapePairPass.admissible A sem (projP g) e.
  Proof.
    intros [Hssa Hsh Hs Hcr _ _ _]. split; cbn [projP pg_nodes pg_shape pg_scalar pg_crank].
    - exact Hssa.
    - exact Hsh.
    - intros ef x v Hev Hsx Hx. destruct (Hs x Hsx) as (v0 & E0 & H1). rewrite (env_final _ _ _ _ _ Hssa Hev E0) in Hx. congruence.
    - intros ef x r v Hev Hcx Hx. destruct (Hcr x r Hcx) as (v0 & E0 & H1). rewrite (env_final _ _ _ _ _ Hssa Hev E0) in Hx. congruence.
    - intros n y Hn _ Hy. destruct (o_crank g y) as [r|] eqn:Ec; [|reflexivity]. destruct (Hcr y r Ec) as (v0 & E0 & _).
      destruct (env_defined_not_def _ _ _ _ _ _ Hssa E0 Hn Hy eq_refl).
  Qed.
  Lemma concrete_spec sigma : forall ds s sh, concrete ds = Some s -> Forall2 (dim_ok sigma) ds sh -> sh = s.
  Proof.
    unfold concrete. induction ds as [|d ds IH]; simpl; intros s sh Hc H2.
    - injection Hc as <-. now inversion H2.
    - destruct d as [n| |]; try discriminate. destruct (mapM _ ds) as [s0|] eqn:E; [|discriminate]. injection Hc as <-.
      inversion H2 as [|? k ? sh0 Hd Hr]; subst. simpl in Hd. subst k. f_equal. now apply IH.
  Qed.
  Lemma padm_iadm g e : padm g e -> IdReshapePass.admissible A sem denotes (projI g) e.
  Proof.
    intros [Hssa [sigma Hsh] _ _ Hc _ _]. split; cbn [projI rg_nodes rg_shape rg_const].
    - exact Hssa.
    - intros ef x s a Hev Hs Hx. destruct (o_shape g x) as [ds|] eqn:Eds; [|discriminate].
      exact (concrete_spec sigma ds s (shape a) Hs (Hsh ef x ds a Hev Eds Hx)).
    - intros ef x l a Hev Hcx Hx. destruct (Hc x l Hcx) as (v0 & E0 & Hd). rewrite (env_final _ _ _ _ _ Hssa Hev E0) in Hx.
      unfold denotes. congruence.
  Qed.

  Lemma run_eval g e o : rung g e = Some o -> exists ef, evalg (g_nodes g) e = Some ef.
  Proof. unfold run. destruct (evalg (g_nodes g) e); [eauto | discriminate]. Qed.

  Lemma pext_const g g' e0 e : o_const g' = o_const g -> o_bool g' = o_bool g -> pext g e0 e -> pext g' e0 e.
  Proof. unfold pext. intros -> ->. auto. Qed.

  (* ================================================================ remove_redundant_transpose_reduce_ir *)
  (* Composed here for the folds whose axes are an ATTRIBUTE (or absent).  When the axes are an input the pass inserts a
     Constant node: that case is proved for the pass on its own (TransposeReduceSound.tr_step_sound, plain refinement), but
     the common admissibility of the pipeline keeps its constant payloads in the environment, so a constant DEFINED BY A NODE
     is outside it; [axes_attr_along] is the computational side condition. *)
  Fixpoint axes_attr_along (fuel : nat) (g : rgraphT) : bool :=
    match fuel with
    | O => true
    | S k => match first_some (decide_tr g) (rt_nodes g) with
             | Some a => match ra_axes a with AxInput _ => false | _ => axes_attr_along k (apply_tr g a) end
             | None => true
             end
    end.

  Lemma apply_tr_attr g a : (forall l, ra_axes a <> AxInput l) -> apply_tr g a = apply_tr_env g a.
  Proof.
    intro H. unfold apply_tr. destruct (first_in (ra_T1 a)); [|reflexivity]. destruct (out1 (ra_red a)); [|reflexivity].
    destruct (out1 (ra_T2 a)); [|reflexivity]. destruct (ra_axes a) as [|l|l]; try reflexivity. destruct (H l eq_refl).
  Qed.

  Lemma step_ok_R k g g' e0 e : axes_attr_along (S k) (projR g) = true -> padm g e -> pext g e0 e -> o_step_R g = Some g' ->
    forall o, rung (o_graph g) e = Some o ->
    axes_attr_along k (projR g') = true /\
    exists e' o', pext g' e0 e' /\ padm g' e' /\ rung (o_graph g') e' = Some o' /\ Forall2 teq o o'.
  Proof.
    intros Hguard Hadm Hext Hstep o Hrun. unfold o_step_R in Hstep. cbn [axes_attr_along] in Hguard. cbn [projR rt_nodes] in Hguard.
    destruct (first_some (decide_tr (projR g)) (o_nodes g)) as [a|] eqn:Efs; [|discriminate].
    assert (Hattr : forall l, ra_axes a <> AxInput l) by (intros l E; rewrite E in Hguard; discriminate).
    destruct (first_some_spec _ _ _ Efs) as (T2 & HT2in & Hdec).
    destruct (run_eval _ _ _ Hrun) as [ef Hev]. cbn [o_graph g_nodes] in Hev.
    pose proof (padm_radm g e Hadm) as Hradm.
    destruct (transpose_reduce_action_sound A sem sem_proper Htr reduce Hred denoteZ denote_teq Hrm mkZ denote_mkZ
                (projR g) T2 a e ef Hradm HT2in Hdec Hev) as [Hradm' Hr].
    destruct (transpose_reduce_action_frame A sem sem_proper Htr reduce Hred denoteZ denote_teq Hrm mkZ denote_mkZ
                (projR g) T2 a e ef Hradm HT2in Hdec Hev) as (ro & t2o & Hro & Ht2o & Hframe).
    rewrite Hro, Ht2o in Hstep. rewrite (apply_tr_attr (projR g) a Hattr) in Hstep, Hguard.
    assert (He1 : ext_env A mkZ (projR g) a e = e) by (unfold ext_env; destruct (ra_axes a) as [|l|l]; try reflexivity; destruct (Hattr l eq_refl)).
    rewrite He1 in *.
    destruct (Hr o Hrun) as (o' & Hrun' & Ho').
    set (gx := apply_tr_env (projR g) a) in *.
    pose proof (ra_ssa _ _ _ _ _ Hradm') as Hssa'.
    assert (Hconst_same : forall x, rt_const gx x = o_const g x).
    { intro x. unfold gx. rewrite apply_tr_const; [reflexivity|]. intros l El. destruct (Hattr l El). }
    assert (Hnext_same : rt_next gx = 0).
    { unfold gx, apply_tr_env. destruct (first_in (ra_T1 a)); [|reflexivity]. destruct (out1 (ra_red a)); [|reflexivity].
      destruct (out1 (ra_T2 a)); [|reflexivity]. cbn [rt_next]. destruct (ra_axes a) as [|l|l]; try reflexivity. destruct (Hattr l eq_refl). }
    destruct Hadm as [Hssa [sigma Hsh] Hsc Hcr Hco Hbo Hfc].
    assert (Hpadm : forall dt, padm (mkOG (rt_nodes gx) (rt_outputs gx) dt (tr_shape_upd (o_shape g) a) (o_scalar g) (o_crank g) (rt_const gx) (o_bool g) (o_fc g)) e).
    { intro dt. split; cbn [o_nodes o_shape o_scalar o_crank o_const o_bool o_fc]; auto.
      - exists sigma. intros ef' y ds a' Hev' Hds Hy. unfold tr_shape_upd in Hds. rewrite Hro, Ht2o in Hds.
        destruct (Hframe ef' y a' Hev' Hy) as [(_ & l & El & _)|[(-> & v & Ev & Hv)|(Hne & v & Ev & Hv)]].
        + destruct (Hattr l El).
        + rewrite Nat.eqb_refl in Hds. rewrite <- (proj1 Hv). exact (Hsh ef t2o ds v Hev Hds Ev).
        + destruct (Nat.eqb_spec y ro); [contradiction|]. rewrite <- (proj1 Hv). exact (Hsh ef y ds v Hev Hds Ev).
      - intros x l Hx. rewrite Hconst_same in Hx. auto. }
    assert (Hshape : exists g1, g' = g1 /\ o_nodes g1 = rt_nodes gx /\ o_outputs g1 = rt_outputs gx /\ o_const g1 = rt_const gx /\ o_bool g1 = o_bool g /\
                                o_scalar g1 = o_scalar g /\ padm g1 e).
    { destruct (ra_axes a) as [|l|l] eqn:Eax; [| |destruct (Hattr l eq_refl)]; injection Hstep as <-; eexists; (split; [reflexivity|]); cbn [o_nodes o_outputs o_const o_bool o_scalar];
        repeat split; auto; apply Hpadm. }
    destruct Hshape as (g1 & -> & En & Eo & Ec & Eb & Es & Hp1).
    split.
    - unfold projR. rewrite En, Eo, Ec. replace (mkRT (rt_nodes gx) (rt_outputs gx) (rt_const gx) 0) with gx;
        [destruct (ra_axes a) as [|l|l]; [exact Hguard | exact Hguard | destruct (Hattr l eq_refl)]|].
      clearbody gx. destruct gx as [n1 o1 c1 k1]. cbn [rt_next] in Hnext_same. subst k1. reflexivity.
    - exists e, o'. split; [|split; [exact Hp1|split; [|exact Ho']]].
      + intro x. rewrite Ec, Eb, Hconst_same. apply Hext.
      + unfold run, o_graph in *. rewrite En, Eo. exact Hrun'.
  Qed.

  (* ================================================================ the two Transpose fold passes *)
  (* Their value-level soundness is TransposeRegion.v / TransposeAddForestSound.v.  The declared dims after a fold are the
     rewired refresh of TransposeRefresh.v; they are TRUE (refresh_members_true below) given that the fold changes no value
     outside the members it moves and that those members are elementwise: [frame_F]
     (TransposeAddForestSound.addforest_step_frame) and [frame_T] (TransposeRegion.transpose_pair_action_frame), both proved. *)
  Definition frame_spec (ns' : list node) (changed : list name) (e ef : env V) : Prop :=
    (exists ef', evalg ns' e = Some ef' /\ forall x w, ef' x = Some w -> exists v, ef x = Some v /\ (In x changed \/ teq v w)) /\
    (forall n y, In n ns' -> In y (n_outs n) -> In y changed -> is_elem n = true /\ n_caps n = []) /\
    (forall y, In y changed -> In y (defs ns')).
  Lemma o_refresh_rw_frame g n : o_nodes (o_refresh_rw g n) = o_nodes g /\ o_outputs (o_refresh_rw g n) = o_outputs g /\
    o_scalar (o_refresh_rw g n) = o_scalar g /\ o_crank (o_refresh_rw g n) = o_crank g /\ o_const (o_refresh_rw g n) = o_const g /\
    o_bool (o_refresh_rw g n) = o_bool g /\ o_fc (o_refresh_rw g n) = o_fc g.
  Proof. unfold o_refresh_rw. repeat split. Qed.

  (* the declared dims of a pgraph after ReshapePairPass.refresh: only the first output's entry may change *)
  Lemma refresh_other gp n x : (forall y r, n_outs n = y :: r -> x <> y) -> pg_shape (refresh gp n) x = pg_shape gp x.
  Proof.
    intro H. unfold refresh. destruct (n_outs n) as [|y r] eqn:Eo; [reflexivity|]. specialize (H y r eq_refl).
    assert (Hput : forall os, pg_shape (put_shape gp y os) x = pg_shape gp x).
    { intro os. cbn [put_shape pg_shape]. destruct (Nat.eqb_spec x y); [contradiction | reflexivity]. }
    unfold set_shape, clear_shape. destruct (String.eqb (n_op n) "CastLike").
    - destruct (n_ins n); [reflexivity|]. destruct (pg_shape gp n0); apply Hput.
    - destruct (shape_source gp (n_ins n)); [|apply Hput]. destruct (mapM (pg_shape gp) (n_ins n)); [|apply Hput].
      destruct (broadcast_dims l); apply Hput.
  Qed.

  Section RefreshTrue.
    Variables (ns' : list node) (e ef' : env V) (sigma : string -> nat) (changed : list name).
    Hypothesis Hssa' : ssa V ns' e.
    Hypothesis Hev' : evalg ns' e = Some ef'.
    Hypothesis Helem : forall n y, In n ns' -> In y (n_outs n) -> In y changed -> is_elem n = true /\ n_caps n = [].
    Definition sh_true (sh : name -> option (list dim)) (P : name -> Prop) : Prop :=
      forall x ds v, P x -> sh x = Some ds -> ef' x = Some v -> Forall2 (dim_ok sigma) ds (shape v).

    (* one refresh of a member all of whose operands have true declared dims *)
    Lemma refresh_one_true (g : ograph) n (P : name -> Prop) : o_nodes g = ns' -> In n ns' -> (exists y, In y (n_outs n) /\ In y changed) ->
      sh_true (o_shape g) P -> (forall x, In x (n_ins n) -> P x) ->
      sh_true (o_shape (o_refresh_rw g n)) (fun x => P x \/ In x (n_outs n)).
    Proof.
      intros Hns Hn (y0 & Hy0 & Hch) Htrue Hops.
      destruct (Helem n y0 Hn Hy0 Hch) as [Hel Hcaps].
      destruct (eval_consistent V sem _ _ _ n Hssa' Hev' Hn) as (vs & oo & Hl & Hs & Hlo).
      unfold n_uses in Hl. rewrite Hcaps, app_nil_r in Hl.
      (* the node has one output, whose value has the shape the operator's rule gives *)
      assert (Hone : exists y yv, n_outs n = [y] /\ ef' y = Some yv /\
                 ((nop n = "CastLike"%string /\ exists x t, vs = [x; t] /\ shape yv = shape x) \/
                  (nop n <> "CastLike"%string /\ bcast_ok vs /\ shape yv = bshape vs))).
      { assert (Hout1 : forall yv, oo = [yv] -> exists y, n_outs n = [y] /\ ef' y = Some yv).
        { intros yv ->. destruct (n_outs n) as [|y [|y2 r]]; simpl in Hlo; try discriminate.
          - destruct (ef' y) eqn:E; [|discriminate]. injection Hlo as ->. eauto.
          - destruct (ef' y); [|discriminate]. destruct (ef' y2); [|discriminate]. destruct (lookups V ef' r); discriminate. }
        destruct (elem_in_pw_all _ Hel) as [Hop|Hop].
        - destruct (Hcl _ _ _ _ Hop Hs) as (x & t & yv & -> & -> & Hyv). destruct (Hout1 yv eq_refl) as (y & Ho & Ey).
          exists y, yv. split; [exact Ho|]. split; [exact Ey|]. left. split; [exact Hop|]. exists x, t. split; [reflexivity|]. exact (proj1 Hyv).
        - destruct (Hpw _ _ _ _ Hop Hs) as (Hbok & yv & -> & Hyv). destruct (Hout1 yv eq_refl) as (y & Ho & Ey).
          exists y, yv. split; [exact Ho|]. split; [exact Ey|]. right. split.
          + intro E. unfold nop in Hop. unfold nop in E. rewrite E in Hop. vm_compute in Hop. discriminate.
          + split; [exact Hbok | exact (proj1 Hyv)]. }
      destruct Hone as (y & yv & Ho & Ey & Hrule).
      intros x ds v Hx Hds Hv.
      destruct (Nat.eq_dec x y) as [->|Hne].
      2:{ (* another name: its entry is untouched *)
          assert (Hsm2 : o_shape (o_refresh_rw g n) x = o_shape g x).
          { unfold o_refresh_rw. cbn [o_shape]. apply refresh_other. cbn [n_outs]. intros y1 r1 E. rewrite Ho in E. injection E as <- _. exact Hne. }
          rewrite Hsm2 in Hds. destruct Hx as [Hx|Hx]; [exact (Htrue x ds v Hx Hds Hv)|]. rewrite Ho in Hx. destruct Hx as [E|[]]. congruence. }
      rewrite Ey in Hv. injection Hv as <-.
      unfold o_refresh_rw in Hds. cbn [o_shape] in Hds. unfold refresh in Hds. cbn [n_outs n_op n_ins] in Hds. rewrite Ho in Hds.
      fold (nop n) in Hds.
      assert (Hput : forall os ds0, pg_shape (put_shape (projP g) y os) y = Some ds0 -> os = Some ds0).
      { intros os ds0 H. cbn [put_shape pg_shape] in H. now rewrite Nat.eqb_refl in H. }
      unfold set_shape, clear_shape in Hds.
      destruct Hrule as [(Hop & x0 & t0 & -> & Hsh)|(Hop & Hbok & Hsh)].
      - assert (Hcl1 : String.eqb (nop n) "CastLike" = true) by (rewrite Hop; apply String.eqb_refl). rewrite Hcl1 in Hds.
        destruct (n_ins n) as [|i0 ir] eqn:Ei; [simpl in Hl; discriminate|]. simpl in Hl. destruct (ef' i0) as [v0|] eqn:E0; [|discriminate].
        destruct (lookups V ef' ir); [|discriminate]. injection Hl as <- _.
        cbn [projP pg_shape] in Hds. destruct (o_shape g i0) as [s0|] eqn:Es0.
        + apply Hput in Hds. injection Hds as <-. rewrite Hsh. apply (Htrue i0 s0 v0); auto. apply Hops. now left.
        + apply Hput in Hds. discriminate.
      - assert (Hcl0 : String.eqb (nop n) "CastLike" = false) by (now apply String.eqb_neq). rewrite Hcl0 in Hds.
        destruct (shape_source (projP g) (n_ins n)); [|apply Hput in Hds; discriminate].
        cbn [projP pg_shape] in Hds. destruct (mapM (o_shape g) (n_ins n)) as [cands|] eqn:Em; [|apply Hput in Hds; discriminate].
        destruct (broadcast_dims cands) as [m|] eqn:Eb; [|apply Hput in Hds; discriminate]. apply Hput in Hds. injection Hds as <-.
        rewrite Hsh. apply (broadcast_dims_bshape A sigma cands vs m); auto.
        clear - Em Hl Htrue Hops. revert cands vs Em Hl Hops. induction (n_ins n) as [|x r IH]; simpl; intros cands vs Em Hl Hops.
        + injection Em as <-. injection Hl as <-. constructor.
        + destruct (o_shape g x) as [ds|] eqn:Es; [|discriminate]. destruct (mapM (o_shape g) r) as [cr|]; [|discriminate]. injection Em as <-.
          destruct (ef' x) as [v|] eqn:Ex; [|discriminate]. destruct (lookups V ef' r) as [vr|]; [|discriminate]. injection Hl as <-.
          constructor; [apply (Htrue x ds v); auto|]. apply IH; auto.
    Qed.

    Hypothesis Hchdef : forall y, In y changed -> In y (defs ns').
    Definition rf_step (g1 : ograph) (n : node) : ograph :=
      if existsb (fun y => existsb (Nat.eqb y) changed) (n_outs n) then o_refresh_rw g1 n else g1.

    Lemma def_before_use pre n post x : ns' = pre ++ n :: post -> In x (n_ins n) -> In x (defs ns') -> In x (defs pre).
    Proof.
      intros Hsplit Hx Hd. pose proof Hev' as Hev2. rewrite Hsplit, eval_app in Hev2. destruct (evalg pre e) as [em|] eqn:Epre; [|discriminate].
      cbn [eval] in Hev2. destruct (step V sem em n) as [e1|] eqn:Es; [|discriminate].
      assert (Hdef : em x <> None) by (apply (step_reads A sem em n e1 x Es); unfold n_uses; apply in_or_app; now left).
      destruct (eval_dom V sem pre e em x Epre Hdef) as [He|Hp]; [|exact Hp]. rewrite (proj2 Hssa' x Hd) in He. congruence.
    Qed.

    Lemma refresh_fold_true : forall post pre g1, ns' = pre ++ post -> o_nodes g1 = ns' ->
      sh_true (o_shape g1) (fun x => ~ In x changed \/ In x (defs pre)) ->
      sh_true (o_shape (fold_left rf_step post g1)) (fun _ => True) /\ o_nodes (fold_left rf_step post g1) = ns'.
    Proof.
      induction post as [|n post IH]; intros pre g1 Hsplit Hns Htrue; cbn [fold_left].
      - split; [|exact Hns]. rewrite app_nil_r in Hsplit. subst pre. intros x ds v _ Hds Hv. apply (Htrue x ds v); auto.
        destruct (in_dec Nat.eq_dec x changed) as [Hc|Hc]; [right; now apply Hchdef | now left].
      - assert (Hn : In n ns') by (rewrite Hsplit; apply in_or_app; right; now left).
        assert (Hsplit' : ns' = (pre ++ [n]) ++ post) by (rewrite <- app_assoc; exact Hsplit).
        assert (Hdefs' : forall x, In x (defs (pre ++ [n])) <-> In x (defs pre) \/ In x (n_outs n)).
        { intro x. unfold defs. rewrite flat_map_app. cbn [flat_map]. rewrite app_nil_r. rewrite in_app_iff. tauto. }
        destruct (existsb (fun y => existsb (Nat.eqb y) changed) (n_outs n)) eqn:Em;
          [assert (Erf : rf_step g1 n = o_refresh_rw g1 n) by (unfold rf_step; now rewrite Em) | assert (Erf : rf_step g1 n = g1) by (unfold rf_step; now rewrite Em)]; rewrite Erf.
        + apply existsb_exists in Em as (y & Hy & Hyc). apply existsb_exists in Hyc as (y' & Hy' & E). apply Nat.eqb_eq in E. subst y'.
          apply (IH (pre ++ [n]) (o_refresh_rw g1 n) Hsplit'); [rewrite (proj1 (o_refresh_rw_frame g1 n)); exact Hns |].
          assert (Hr : sh_true (o_shape (o_refresh_rw g1 n)) (fun x => (~ In x changed \/ In x (defs pre)) \/ In x (n_outs n))).
          { apply refresh_one_true; auto; [eauto|]. intros x Hx. destruct (in_dec Nat.eq_dec x changed) as [Hc|Hc]; [right | now left].
            exact (def_before_use pre n post x Hsplit Hx (Hchdef x Hc)). }
          intros x ds v Hx. apply Hr. destruct Hx as [Hx|Hx]; [left; now left|]. apply Hdefs' in Hx as [Hx|Hx]; [left; now right | now right].
        + apply (IH (pre ++ [n]) g1 Hsplit' Hns). intros x ds v Hx. apply Htrue. destruct Hx as [Hx|Hx]; [now left|].
          apply Hdefs' in Hx as [Hx|Hx]; [now right|]. left. intro Hc.
          assert (existsb (fun y => existsb (Nat.eqb y) changed) (n_outs n) = true).
          { apply existsb_exists. exists x. split; auto. apply existsb_exists. exists x. split; auto. apply Nat.eqb_refl. }
          congruence.
    Qed.
  End RefreshTrue.
  Lemma rf_fold_frame outs : forall l g,
    let g2 := fold_left (fun g1 n => if existsb (fun y => existsb (Nat.eqb y) outs) (n_outs n) then o_refresh_rw g1 n else g1) l g in
    o_nodes g2 = o_nodes g /\ o_outputs g2 = o_outputs g /\ o_scalar g2 = o_scalar g /\ o_crank g2 = o_crank g /\ o_const g2 = o_const g /\
    o_bool g2 = o_bool g /\ o_fc g2 = o_fc g.
  Proof.
    induction l as [|n l IH]; intro g; cbn [fold_left]; [repeat split|].
    destruct (existsb (fun y => existsb (Nat.eqb y) outs) (n_outs n)).
    - destruct (IH (o_refresh_rw g n)) as (H1 & H2 & H3 & H4 & H5 & H6 & H7). pose proof (o_refresh_rw_frame g n) as (F1 & F2 & F3 & F4 & F5 & F6 & F7).
      repeat split; congruence.
    - apply IH.
  Qed.
  Lemma o_refresh_members_frame outs g : let g2 := o_refresh_members outs g in
    o_nodes g2 = o_nodes g /\ o_outputs g2 = o_outputs g /\ o_scalar g2 = o_scalar g /\ o_crank g2 = o_crank g /\ o_const g2 = o_const g /\
    o_bool g2 = o_bool g /\ o_fc g2 = o_fc g.
  Proof. exact (rf_fold_frame outs (o_nodes g) g). Qed.

  (* a fold on the common graph: the value-level result [gx] with the members refreshed *)
  Lemma refreshed_padm g e ef gx changed : padm g e -> evalg (o_nodes g) e = Some ef -> tadmissible A sem gx e -> tg_scalar gx = o_scalar g ->
    frame_spec (tg_nodes gx) changed e ef ->
    padm (o_refresh_members changed (mkOG (tg_nodes gx) (tg_outputs gx) (o_dtype g) (o_shape g) (tg_scalar gx) (o_crank g) (o_const g) (o_bool g) (o_fc g))) e.
  Proof.
    intros Hadm Hev Ht Hs ((ef' & Hev' & Hrel) & Helem & Hchdef).
    set (g0 := mkOG (tg_nodes gx) (tg_outputs gx) (o_dtype g) (o_shape g) (tg_scalar gx) (o_crank g) (o_const g) (o_bool g) (o_fc g)).
    pose proof (o_refresh_members_frame changed g0) as (F1 & F2 & F3 & F4 & F5 & F6 & F7).
    destruct Hadm as [Hssa [sigma Hsh] Hsc Hcr Hco Hbo Hfc]. pose proof (tadm_ssa _ _ _ _ Ht) as Hssa'.
    split; rewrite ?F1, ?F3, ?F4, ?F5, ?F6, ?F7; cbn [g0 o_nodes o_scalar o_crank o_const o_bool o_fc]; auto.
    - exists sigma. intros ef2 x ds v Hev2 Hds Hv. rewrite Hev' in Hev2. injection Hev2 as <-.
      assert (H0 : sh_true ef' sigma (o_shape g0) (fun x => ~ In x changed \/ In x (defs []))).
      { intros x0 ds0 v0 [Hx|[]] Hds0 Hv0. destruct (Hrel x0 v0 Hv0) as (v1 & Ev1 & [Hc|Hteq]); [contradiction|].
        rewrite <- (proj1 Hteq). exact (Hsh ef x0 ds0 v1 Hev Hds0 Ev1). }
      destruct (refresh_fold_true (tg_nodes gx) e ef' sigma changed Hssa' Hev' Helem Hchdef (tg_nodes gx) [] g0 eq_refl eq_refl H0) as [Htrue _].
      exact (Htrue x ds v I Hds Hv).
    - rewrite Hs. exact Hsc.
  Qed.

  Lemma frame_F g f e ef : padm g e -> evalg (o_nodes g) e = Some ef ->
    first_some (decide_addforest (projT g)) (o_nodes g) = Some f -> frame_spec (tg_nodes (apply_forest (projT g) f)) (map out_of (f_es f)) e ef.
  Proof.
    intros Hadm Hev Efs.
    exact (addforest_step_frame A sem sem_proper Htr F Hpw Fcl Hcl Hcl_type Hacc (projT g) f e ef (padm_tadm g e Hadm) Hev Efs).
  Qed.

  Lemma step_ok_F g g' e0 e : padm g e -> pext g e0 e -> o_step_F g = Some g' -> forall o, rung (o_graph g) e = Some o ->
    exists e' o', pext g' e0 e' /\ padm g' e' /\ rung (o_graph g') e' = Some o' /\ Forall2 teq o o'.
  Proof.
    intros Hadm Hext Hstep o Hrun. unfold o_step_F in Hstep.
    destruct (first_some (decide_addforest (projT g)) (o_nodes g)) as [f|] eqn:Efs; [|discriminate]. injection Hstep as <-.
    destruct (run_eval _ _ _ Hrun) as [ef Hev]. cbn [o_graph g_nodes] in Hev.
    pose proof (padm_tadm g e Hadm) as Ht.
    assert (Es : addforest_step (projT g) = Some (apply_forest (projT g) f)) by (unfold addforest_step; cbn [projT tg_nodes]; now rewrite Efs).
    pose proof (addforest_step_sound A sem sem_proper Htr F Hpw Fcl Hcl Hcl_type Hacc (projT g) _ e Ht Es) as Href.
    pose proof (addforest_step_admissible A sem sem_proper Htr F Hpw Fcl Hcl Hcl_type Hacc (projT g) _ e ef Ht Hev Es) as Ht'.
    destruct (Href o Hrun) as (o' & Hrun' & Ho').
    set (gx := apply_forest (projT g) f) in *.
    set (g0 := mkOG (tg_nodes gx) (tg_outputs gx) (o_dtype g) (o_shape g) (tg_scalar gx) (o_crank g) (o_const g) (o_bool g) (o_fc g)).
    pose proof (o_refresh_members_frame (map out_of (f_es f)) g0) as (F1 & F2 & _ & _ & F5 & F6 & _).
    exists e, o'. split; [apply (pext_const g); [exact F5 | exact F6 | exact Hext]|]. split; [|split; [|exact Ho']].
    - apply (refreshed_padm g e ef gx); auto. exact (frame_F g f e ef Hadm Hev Efs).
    - change (rung (o_graph (o_refresh_members (map out_of (f_es f)) g0)) e = Some o').
      assert (Hgr : o_graph (o_refresh_members (map out_of (f_es f)) g0) = tg_graph gx) by (unfold o_graph, tg_graph; rewrite F1, F2; reflexivity).
      rewrite Hgr. exact Hrun'.
  Qed.

  Lemma frame_T g act e ef : padm g e -> evalg (o_nodes g) e = Some ef -> decide_step (projT g) = Some act ->
    proved_kind_all (projT g) act = true -> frame_spec (tg_nodes (apply_taction (projT g) act)) (refreshed_outs true act) e ef.
  Proof.
    intros Hadm Hev Hd Hk.
    pose proof (transpose_pair_action_frame A sem sem_proper Htr F Hpw Fcl Hcl Hcl_type Hacc (projT g) act e ef (padm_tadm g e Hadm) Hev Hd Hk) as H.
    replace (refreshed_outs true act) with (changed_of act) by (destruct act; reflexivity). exact H.
  Qed.

  Lemma step_ok_T k g g' e0 e : kinds_along (S k) (projT g) = true -> padm g e -> pext g e0 e -> o_step_T true g = Some g' ->
    forall o, rung (o_graph g) e = Some o ->
    kinds_along k (projT g') = true /\
    exists e' o', pext g' e0 e' /\ padm g' e' /\ rung (o_graph g') e' = Some o' /\ Forall2 teq o o'.
  Proof.
    intros Hk Hadm Hext Hstep o Hrun. unfold o_step_T in Hstep.
    destruct (decide_step (projT g)) as [act|] eqn:Ed; [|discriminate]. injection Hstep as <-.
    destruct (run_eval _ _ _ Hrun) as [ef Hev]. cbn [o_graph g_nodes] in Hev.
    pose proof (padm_tadm g e Hadm) as Ht.
    cbn [kinds_along] in Hk. rewrite Ed in Hk. apply andb_prop in Hk as [Hk1 Hk2].
    pose proof (transpose_pair_action_sound_all A sem sem_proper Htr F Hpw Fcl Hcl Hcl_type Hacc (projT g) act e Ht Ed Hk1) as Href.
    pose proof (transpose_pair_action_admissible A sem sem_proper Htr F Hpw Fcl Hcl Hcl_type Hacc (projT g) act e ef Ht Hev Ed Hk1) as Ht'.
    destruct (Href o Hrun) as (o' & Hrun' & Ho').
    set (gx := apply_taction (projT g) act) in *.
    set (g0 := mkOG (tg_nodes gx) (tg_outputs gx) (o_dtype g) (o_shape g) (tg_scalar gx) (o_crank g) (o_const g) (o_bool g) (o_fc g)).
    pose proof (o_refresh_members_frame (refreshed_outs true act) g0) as (F1 & F2 & F3 & _ & F5 & F6 & _).
    split.
    - change (kinds_along k (projT (o_refresh_members (refreshed_outs true act) g0)) = true).
      assert (Hpr : projT (o_refresh_members (refreshed_outs true act) g0) = gx) by (unfold projT; rewrite F1, F2, F3; unfold g0; cbn [o_nodes o_outputs o_scalar]; destruct gx; reflexivity).
      rewrite Hpr. exact Hk2.
    - exists e, o'. split; [apply (pext_const g); [exact F5 | exact F6 | exact Hext]|]. split; [|split; [|exact Ho']].
      + apply (refreshed_padm g e ef gx); auto; [apply apply_taction_scalar | exact (frame_T g act e ef Hadm Hev Ed Hk1)].
      + change (rung (o_graph (o_refresh_members (refreshed_outs true act) g0)) e = Some o').
        assert (Hgr : o_graph (o_refresh_members (refreshed_outs true act) g0) = tg_graph gx) by (unfold o_graph, tg_graph; rewrite F1, F2; reflexivity).
        rewrite Hgr. exact Hrun'.
  Qed.

  (* ================================================================ remove_redundant_reshape_pairs_ir *)
  Lemma reshape_pair_step_flags g g' : reshape_pair_step g = Some g' -> pg_scalar g' = pg_scalar g /\ pg_crank g' = pg_crank g.
  Proof.
    unfold reshape_pair_step, reshape_pair_step_gen. destruct (first_action_gen true g (pg_nodes g)); [|discriminate].
    intro H. injection H as <-. split; reflexivity.
  Qed.

  Lemma step_ok_P g g' e0 e : padm g e -> pext g e0 e -> o_step_P g = Some g' -> forall o, rung (o_graph g) e = Some o ->
    exists e' o', pext g' e0 e' /\ padm g' e' /\ rung (o_graph g') e' = Some o' /\ Forall2 teq o o'.
  Proof.
    intros Hadm Hext Hstep o Hrun. unfold o_step_P in Hstep.
    destruct (reshape_pair_step (projP g)) as [gx|] eqn:Es; [|discriminate]. injection Hstep as <-.
    destruct (run_eval _ _ _ Hrun) as [ef Hev]. cbn [o_graph g_nodes] in Hev.
    pose proof (padm_padm g e Hadm) as Hp.
    pose proof (reshape_pair_step_sound A sem sem_proper Hrs F Hpw_plain Fcl Hcl_plain Hcl_type Hacc_plain (projP g) gx e Hp Es) as Href.
    pose proof (reshape_pair_step_admissible A sem sem_proper Hrs F Hpw_plain Fcl Hcl_plain Hcl_type Hacc_plain (projP g) gx e ef Hp Hev Es) as Hp'.
    destruct (Href o Hrun) as (o' & Hrun' & Ho'). destruct (reshape_pair_step_flags _ _ Es) as [Hfs Hfk].
    exists e, o'. split; [apply (pext_const g); [reflexivity | reflexivity | exact Hext]|]. split; [|split; [exact Hrun' | exact Ho']].
    destruct Hadm as [_ _ Hsc Hcr Hco Hbo Hfc]. split; cbn [mergeP o_nodes o_shape o_scalar o_crank o_const o_bool o_fc].
    - exact (ReshapePairPass.adm_ssa _ _ _ _ Hp').
    - exact (ReshapePairPass.adm_shape _ _ _ _ Hp').
    - rewrite Hfs. exact Hsc.
    - rewrite Hfk. exact Hcr.
    - exact Hco.
    - exact Hbo.
    - exact Hfc.
  Qed.

  (* ================================================================ remove_identity_reshapes_ir *)
  Lemma denotes_proper a a' l : teq a a' -> denotes a l -> denotes a' l.
  Proof. unfold denotes. intros Ht H. now rewrite <- (denote_teq _ _ Ht). Qed.

  Lemma step_ok_I g g' e0 e : padm g e -> pext g e0 e -> o_step_I g = Some g' -> forall o, rung (o_graph g) e = Some o ->
    exists e' o', pext g' e0 e' /\ padm g' e' /\ rung (o_graph g') e' = Some o' /\ Forall2 teq o o'.
  Proof.
    intros Hadm Hext Hstep o Hrun. unfold o_step_I in Hstep.
    destruct (idreshape_step (projI g)) as [gx|] eqn:Es; [|discriminate]. injection Hstep as <-.
    destruct (run_eval _ _ _ Hrun) as [ef Hev]. cbn [o_graph g_nodes] in Hev.
    pose proof (padm_iadm g e Hadm) as Hi.
    pose proof (idreshape_step_sound A sem sem_proper denotes Hreshape (projI g) gx e Hi Es) as Href.
    destruct (Href o Hrun) as (o' & Hrun' & Ho').
    exists e, o'. split; [apply (pext_const g); [reflexivity | reflexivity | exact Hext]|]. split; [|split; [exact Hrun' | exact Ho']].
    (* the values of the rewritten run *)
    destruct (IdReshapePass.step_inv _ _ Es) as (n & dst & data & Hn & Hd & ->).
    destruct (IdReshapePass.decide_spec _ _ _ _ Hd) as (_ & Houts & Hne & shp & insr & tgt & s & Hins & _).
    pose proof (IdReshapePass.adm_ssa _ _ _ _ _ Hi) as Hssa.
    assert (Hav : avail_before V sem (rg_nodes (projI g)) e data dst).
    { eapply (avail_from_producer V sem (rg_nodes (projI g)) e n data dst); eauto.
      - unfold n_uses. rewrite Hins. now left.
      - rewrite Houts. now left. }
    destruct (redirect_remove_env V teq (@teq_refl A) (@teq_sym A) (@teq_trans A) sem sem_proper (rg_graph (projI g)) e dst data ef Hssa Hne
                (fun a Ha => IdReshapePass.reshape_value A sem denotes Hreshape (projI g) e n dst data ef a Hi Hn Hd Hev Ha) Hav Hev) as (ef' & Hev' & Hrel).
    assert (Hex : existsb (node_is dst) (rg_nodes (projI g)) = true).
    { apply existsb_exists. exists n. split; auto. unfold node_is. rewrite Houts. apply Nat.eqb_refl. }
    pose proof (redirect_remove_o_undefined V sem (rg_graph (projI g)) e dst data ef' Hssa Hex Hev') as Hundef.
    destruct Hadm as [_ [sigma Hsh] Hsc Hcr Hco Hbo Hfc]. split; cbn [mergeI rg_nodes o_nodes o_shape o_scalar o_crank o_const o_bool o_fc]; auto.
    - exact (redirect_remove_ssa V (rg_graph (projI g)) e dst data Hssa).
    - exists sigma. intros ef2 x ds a' Hev2 Hds Hx. rewrite Hev' in Hev2. injection Hev2 as <-.
      destruct (Nat.eq_dec x dst) as [->|Hxd]; [congruence|].
      destruct (Hrel x a' Hxd Hx) as (a0 & Ha0 & [Hs _]). rewrite <- Hs. exact (Hsh ef x ds a0 Hev Hds Ha0).
  Qed.

  (* ================================================================ remove_orphan_transposes_ir *)
  Lemma upds_agree dead (e e' : env V) xs vs : agree_except V dead e e' -> agree_except V dead (upds V e xs vs) (upds V e' xs vs).
  Proof.
    revert e e' vs. induction xs as [|x xr IH]; intros e e' [|v vr] Ha; simpl; auto. apply IH. intros y Hy. unfold upd. destruct (Nat.eqb y x); auto.
  Qed.
  Lemma upds_agree_dead dead (e e' : env V) xs vs : agree_except V dead e e' -> (forall x, In x xs -> In x dead) -> agree_except V dead (upds V e xs vs) e'.
  Proof.
    revert e vs. induction xs as [|x xr IH]; intros e [|v vr] Ha Hd; simpl; auto. apply IH; [|intros; apply Hd; now right].
    intros y Hy. unfold upd. destruct (Nat.eqb_spec y x) as [->|_]; [exfalso; apply Hy; apply Hd; now left | auto].
  Qed.

  Lemma filter_dead_env (dead : node -> bool) D : forall ns (e e' ef : env V), agree_except V D e e' ->
    (forall n x, In n ns -> dead n = false -> In x (n_uses n) -> ~ In x D) ->
    (forall n y, In n ns -> dead n = true -> In y (n_outs n) -> In y D) ->
    evalg ns e = Some ef -> exists ef', evalg (filter (fun n => negb (dead n)) ns) e' = Some ef' /\ agree_except V D ef ef'.
  Proof.
    induction ns as [|n r IH]; intros e e' ef Ha Hu Hd Hev; simpl in *.
    - injection Hev as <-. eauto.
    - destruct (step V sem e n) as [e1|] eqn:Es; [|discriminate].
      assert (Hu' : forall m x, In m r -> dead m = false -> In x (n_uses m) -> ~ In x D) by (intros m x Hm; apply Hu; now right).
      assert (Hd' : forall m y, In m r -> dead m = true -> In y (n_outs m) -> In y D) by (intros m y Hm; apply Hd; now right).
      destruct (dead n) eqn:Edn; simpl.
      + apply (IH e1 e' ef); auto. unfold step in Es. destruct (lookups V e (n_uses n)); [|discriminate]. destruct (sem _ _ _); [|discriminate].
        destruct (Nat.eqb _ _); [|discriminate]. injection Es as <-. apply upds_agree_dead; auto. intros x Hx. apply (Hd n x); auto.
      + unfold step in *. rewrite <- (lookups_agree V D e e' (n_uses n) Ha) by (intros x Hx; apply (Hu n x); auto).
        destruct (lookups V e (n_uses n)) as [vs|]; [|discriminate]. destruct (sem (n_op n) (n_attrs n) vs) as [o|]; [|discriminate].
        destruct (Nat.eqb _ _); [|discriminate]. injection Es as <-. apply (IH _ _ ef (upds_agree D e e' (n_outs n) o Ha)); auto.
  Qed.

  Lemma ssa_filter (k : node -> bool) ns (e : env V) : ssa V ns e -> ssa V (filter k ns) e.
  Proof.
    intros [Hnd Hf]. split.
    - clear Hf. unfold defs in *. induction ns as [|n r IH]; simpl in *; [constructor|].
      assert (Hr : NoDup (flat_map n_outs r)) by (eapply NoDup_app_r; eauto).
      destruct (k n); [|auto]. simpl. 
      assert (Hincl : forall y, In y (flat_map n_outs (filter k r)) -> In y (flat_map n_outs r)).
      { intros y Hy. apply in_flat_map in Hy as (m & Hm & Hy). apply filter_In in Hm as [Hm _]. apply in_flat_map. eauto. }
      revert Hnd. generalize (n_outs n) as l. induction l as [|a l IHl]; simpl; intro H; [now apply IH|].
      inversion H as [|? ? Hni Hnd']; subst. constructor; [|now apply IHl].
      intro Hin. apply Hni. apply in_app_or in Hin as [Hin|Hin]; apply in_or_app; [now left | right; now apply Hincl].
    - intros y Hy. apply Hf. unfold defs in *. apply in_flat_map in Hy as (m & Hm & Hy). apply filter_In in Hm as [Hm _]. apply in_flat_map. eauto.
  Qed.

  (* one sweep keeps every surviving value *)
  Lemma orphan_sweep_env gr0 (e ef : env V) : ssa V (g_nodes gr0) e -> evalg (g_nodes gr0) e = Some ef ->
    exists ef', evalg (g_nodes (orphan_sweep gr0)) e = Some ef' /\ forall y a', ef' y = Some a' -> ef y = Some a'.
  Proof.
    intros Hssa Hev. set (D := flat_map n_outs (filter (is_orphan gr0) (g_nodes gr0))).
    assert (Hu : forall n x, In n (g_nodes gr0) -> is_orphan gr0 n = false -> In x (n_uses n) -> ~ In x D).
    { intros n x Hn _ Hx Hin. unfold D in Hin. apply in_flat_map in Hin as (m & Hm & Hxm). apply filter_In in Hm as [Hm Hom].
      unfold is_orphan in Hom. apply andb_prop in Hom as [_ Hom]. rewrite forallb_forall in Hom. specialize (Hom x Hxm).
      apply negb_true_iff in Hom. destruct (mentioned_false _ _ m x Hom) as [_ Hno]. exact (Hno n Hn Hx). }
    assert (Hd : forall n y, In n (g_nodes gr0) -> is_orphan gr0 n = true -> In y (n_outs n) -> In y D).
    { intros n y Hn Ho Hy. unfold D. apply in_flat_map. exists n. split; auto. apply filter_In. auto. }
    destruct (filter_dead_env (is_orphan gr0) D (g_nodes gr0) e e ef (fun y _ => eq_refl) Hu Hd Hev) as (ef' & Hev' & Hag).
    exists ef'. split; [exact Hev'|]. intros y a' Hy. destruct (in_dec Nat.eq_dec y D) as [HD|HD]; [|now rewrite (Hag y HD)].
    exfalso. unfold D in HD. apply in_flat_map in HD as (m & Hm & Hym). apply filter_In in Hm as [Hm Hom].
    assert (Hnone : ef' y = None).
    { apply (eval_undefined V sem _ e ef' y Hev').
      - apply (proj2 Hssa). unfold defs. apply in_flat_map. eauto.
      - cbn [orphan_sweep g_nodes]. unfold defs. intro Hin. apply in_flat_map in Hin as (n & Hn & Hyn). apply filter_In in Hn as [Hn Hkn].
        rewrite (defs_unique (g_nodes gr0) n m y (proj1 Hssa) Hn Hm Hyn Hym) in Hkn. rewrite Hom in Hkn. discriminate. }
    congruence.
  Qed.

  Lemma orphan_pass_env : forall fuel gr0 (e ef : env V), ssa V (g_nodes gr0) e -> evalg (g_nodes gr0) e = Some ef ->
    ssa V (g_nodes (orphan_pass fuel gr0)) e /\
    exists ef', evalg (g_nodes (orphan_pass fuel gr0)) e = Some ef' /\ forall y a', ef' y = Some a' -> ef y = Some a'.
  Proof.
    induction fuel as [|k IH]; intros gr0 e ef Hssa Hev; simpl; [split; eauto|].
    destruct (Nat.eqb _ _); [split; eauto|].
    destruct (orphan_sweep_env gr0 e ef Hssa Hev) as (ef1 & Hev1 & H1).
    assert (Hssa1 : ssa V (g_nodes (orphan_sweep gr0)) e) by (apply ssa_filter; exact Hssa).
    destruct (IH (orphan_sweep gr0) e ef1 Hssa1 Hev1) as (Hssa2 & ef2 & Hev2 & H2). split; [exact Hssa2|]. exists ef2. split; auto.
  Qed.

  Lemma pass_ok_O fuel : pass_ok_on V teq sem ograph o_graph padm pext (fun _ => True) (o_pass_O fuel).
  Proof.
    intros g e0 e _ Hadm Hext o Hrun.
    destruct (run_eval _ _ _ Hrun) as [ef Hev]. cbn [o_graph g_nodes] in Hev.
    destruct (orphan_pass_sound V teq (@teq_refl A) (@teq_trans A) sem fuel (o_graph g) e o Hrun) as (o' & Hrun' & Ho').
    exists e, o'. split; [apply (pext_const g); [reflexivity | reflexivity | exact Hext]|]. split; [|split; [|exact Ho']].
    - destruct Hadm as [Hssa [sigma Hsh] Hsc Hcr Hco Hbo Hfc].
      destruct (orphan_pass_env fuel (o_graph g) e ef Hssa Hev) as (Hssa' & ef' & Hev' & Hrel).
      split; cbn [o_pass_O o_nodes o_shape o_scalar o_crank o_const o_bool o_fc]; auto.
      exists sigma. intros ef2 x ds a' Hev2 Hds Hx. rewrite Hev' in Hev2. injection Hev2 as <-.
      exact (Hsh ef x ds a' Hev Hds (Hrel x a' Hx)).
    - unfold o_pass_O, o_graph. cbn [o_nodes o_outputs]. destruct (orphan_pass fuel _); exact Hrun'.
  Qed.

  (* ================================================================ propagate_unary_shapes_ir (annotations only) *)
  Lemma unary_table_same_shape op : str_in op UNARY_DATAFLOW_OPS = true -> Onnx.str_mem op Annot.first_input_shape_ops = true.
  Proof.
    intro H. apply str_in_In in H. pose proof Annot.unary_dataflow_ops_same_shape as Hall. rewrite forallb_forall in Hall.
    apply Hall. exact H.
  Qed.

  Lemma unary_prop_node_ok g e n : In n (o_nodes g) -> padm g e -> padm (unary_prop_node g n) e.
  Proof.
    intros Hn Hadm. pose proof (unary_prop_node_frame g n) as (En & Eo & Es & Ec & Ek & Eb & Efc).
    destruct Hadm as [Hssa [sigma Hsh] Hsc Hcr Hco Hbo Hfc]. split; rewrite ?En, ?Es, ?Ec, ?Ek, ?Eb, ?Efc; auto.
    exists sigma. intros ef y ds v Hev Hds Hy. unfold unary_prop_node in Hds.
    destruct (str_in (n_op n) UNARY_DATAFLOW_OPS) eqn:Eop; [|eauto].
    destruct (n_ins n) as [|x xr] eqn:Ei; [eauto|]. destruct (n_outs n) as [|y0 yr] eqn:Eoo; [eauto|].
    cbn [o_shape] in Hds. unfold updf in Hds. destruct (Nat.eqb_spec y y0) as [->|Hne]; [|eauto].
    unfold copy_ann in Hds. destruct (o_shape g x) as [s|] eqn:Esx; [|eauto]. injection Hds as <-.
    (* the value of the first output has the shape of the first input *)
    destruct (eval_consistent V sem _ _ _ n Hssa Hev Hn) as (vs & oo & Hl & Hs & Hlo).
    destruct (Hsame _ _ _ _ (unary_table_same_shape _ Eop) Hs) as (vx & vxs & vy & vys & -> & -> & Hshape).
    unfold n_uses in Hl. rewrite Ei in Hl. simpl in Hl. destruct (ef x) as [vx'|] eqn:Ex; [|discriminate].
    destruct (lookups V ef (xr ++ n_caps n)); [|discriminate]. injection Hl as -> _.
    rewrite Eoo in Hlo. simpl in Hlo. rewrite Hy in Hlo. destruct (lookups V ef yr); [|discriminate]. injection Hlo as -> _.
    rewrite Hshape. exact (Hsh ef x s vx Hev Esx Ex).
  Qed.

  Lemma pass_ok_unary : pass_ok_on V teq sem ograph o_graph padm pext (fun _ => True) o_pass_unary.
  Proof.
    intros g e0 e _ Hadm Hext o Hrun. unfold o_pass_unary.
    assert (Hgen : forall ns g1, (forall n, In n ns -> In n (o_nodes g)) -> o_nodes g1 = o_nodes g -> o_outputs g1 = o_outputs g -> o_const g1 = o_const g ->
              o_bool g1 = o_bool g -> padm g1 e -> let g2 := fold_left unary_prop_node ns g1 in
              o_nodes g2 = o_nodes g /\ o_outputs g2 = o_outputs g /\ o_const g2 = o_const g /\ o_bool g2 = o_bool g /\ padm g2 e).
    { induction ns as [|n r IH]; intros g1 Hsub E1 E2 E3 E4 Ha; simpl; [auto|].
      pose proof (unary_prop_node_frame g1 n) as (En & Eo & _ & _ & Ek & Eb & _).
      apply IH; [intros m Hm; apply Hsub; now right | congruence | congruence | congruence | congruence |].
      apply unary_prop_node_ok; auto. rewrite E1. apply Hsub. now left. }
    destruct (Hgen (o_nodes g) g (fun n H => H) eq_refl eq_refl eq_refl eq_refl Hadm) as (E1 & E2 & E3 & E4 & Ha).
    exists e, o. split; [apply (pext_const g); auto|]. split; [exact Ha|]. split; [|apply Forall2_veq_refl; apply teq_refl].
    unfold o_graph. rewrite E1, E2. exact Hrun.
  Qed.

  (* ================================================================ propagate_elementwise_shapes_ir (annotations only) *)
  Lemma binary_table_pw op : str_in op ELEMENTWISE_BINARY_OPS = true -> op_type op = op /\ str_in op pw_ops_all = true.
  Proof.
    intro H. apply str_in_In in H.
    assert (Hall : forallb (fun o => String.eqb (op_type o) o && str_in o pw_ops_all) ELEMENTWISE_BINARY_OPS = true) by (vm_compute; reflexivity).
    rewrite forallb_forall in Hall. specialize (Hall op H). apply andb_prop in Hall as [H1 H2]. apply String.eqb_eq in H1. auto.
  Qed.

  Lemma cands_true sigma (sh : name -> option (list dim)) (ef : env V) :
    (forall x ds v, sh x = Some ds -> ef x = Some v -> Forall2 (dim_ok sigma) ds (shape v)) ->
    forall ins cands vs, mapM sh ins = Some cands -> lookups V ef ins = Some vs ->
    Forall2 (fun ds v => Forall2 (dim_ok sigma) ds (shape v)) cands vs.
  Proof.
    intros Hsh. induction ins as [|x r IH]; simpl; intros cands vs Hm Hl.
    - injection Hm as <-. injection Hl as <-. constructor.
    - destruct (sh x) as [ds|] eqn:Es; [|discriminate]. destruct (mapM sh r) as [cr|]; [|discriminate]. injection Hm as <-.
      destruct (ef x) as [v|] eqn:Ex; [|discriminate]. destruct (lookups V ef r) as [vr|]; [|discriminate]. injection Hl as <-.
      constructor; eauto.
  Qed.

  Lemma elem_prop_node_ok g e n : In n (o_nodes g) -> padm g e -> padm (elem_prop_node g n) e.
  Proof.
    intros Hn Hadm. pose proof (elem_prop_node_frame g n) as (En & Eo & Es & Ec & Ek & Eb & Efc).
    destruct Hadm as [Hssa [sigma Hsh] Hsc Hcr Hco Hbo Hfc]. split; rewrite ?En, ?Es, ?Ec, ?Ek, ?Eb, ?Efc; auto.
    exists sigma. intros ef y ds v Hev Hds Hy. unfold elem_prop_node in Hds.
    destruct (str_in (n_op n) ELEMENTWISE_BINARY_OPS) eqn:Eop; [|eauto].
    destruct (n_outs n) as [|y0 yr] eqn:Eoo; [eauto|]. destruct (n_caps n) eqn:Ecaps; [|eauto].
    destruct (shape_source (projP g) (n_ins n)); [|eauto]. destruct (mapM (o_shape g) (n_ins n)) as [cands|] eqn:Em; [|eauto].
    destruct (broadcast_dims cands) as [m|] eqn:Ebd; [|eauto].
    cbn [o_shape] in Hds. unfold updf in Hds. destruct (Nat.eqb_spec y y0) as [->|Hne]; [|eauto]. injection Hds as <-.
    destruct (eval_consistent V sem _ _ _ n Hssa Hev Hn) as (vs & oo & Hl & Hs & Hlo).
    destruct (binary_table_pw _ Eop) as [Hnorm Hpwall].
    assert (Hop' : str_in (op_type (n_op n)) pw_ops_all = true) by (now rewrite Hnorm).
    destruct (Hpw _ _ _ _ Hop' Hs) as (Hbok & yv & -> & Hyv).
    unfold n_uses in Hl. rewrite Ecaps, app_nil_r in Hl.
    rewrite Eoo in Hlo. simpl in Hlo. rewrite Hy in Hlo. destruct (lookups V ef yr) as [[|? ?]|]; try discriminate. injection Hlo as ->.
    rewrite (proj1 Hyv). cbn [pwg shape].
    apply (broadcast_dims_bshape A sigma cands vs m); auto.
    apply (cands_true sigma (o_shape g) ef (fun x ds0 v0 H1 H2 => Hsh ef x ds0 v0 Hev H1 H2) (n_ins n)); auto.
  Qed.

  Lemma pass_ok_elem : pass_ok_on V teq sem ograph o_graph padm pext (fun _ => True) o_pass_elem.
  Proof.
    intros g e0 e _ Hadm Hext o Hrun. unfold o_pass_elem.
    assert (Hgen : forall ns g1, (forall n, In n ns -> In n (o_nodes g)) -> o_nodes g1 = o_nodes g -> o_outputs g1 = o_outputs g -> o_const g1 = o_const g ->
              o_bool g1 = o_bool g -> padm g1 e -> let g2 := fold_left elem_prop_node ns g1 in
              o_nodes g2 = o_nodes g /\ o_outputs g2 = o_outputs g /\ o_const g2 = o_const g /\ o_bool g2 = o_bool g /\ padm g2 e).
    { induction ns as [|n r IH]; intros g1 Hsub E1 E2 E3 E4 Ha; simpl; [auto|].
      pose proof (elem_prop_node_frame g1 n) as (En & Eo & _ & _ & Ek & Eb & _).
      apply IH; [intros m Hm; apply Hsub; now right | congruence | congruence | congruence | congruence |].
      apply elem_prop_node_ok; auto. rewrite E1. apply Hsub. now left. }
    destruct (Hgen (o_nodes g) g (fun n H => H) eq_refl eq_refl eq_refl eq_refl Hadm) as (E1 & E2 & E3 & E4 & Ha).
    exists e, o. split; [apply (pext_const g); auto|]. split; [exact Ha|]. split; [|apply Forall2_veq_refl; apply teq_refl].
    unfold o_graph. rewrite E1, E2. exact Hrun.
  Qed.

  (* ================================================================ rewrite_mul_sigmoid_as_swish_ir *)
  (* a rewrite that keeps the annotations and every surviving value (up to teq) keeps the graph admissible *)
  Lemma padm_reframe g e ef ns' outs' : padm g e -> evalg (o_nodes g) e = Some ef -> ssa V ns' e ->
    (forall ef' y a', evalg ns' e = Some ef' -> ef' y = Some a' -> exists a, ef y = Some a /\ teq a a') ->
    padm (mkOG ns' outs' (o_dtype g) (o_shape g) (o_scalar g) (o_crank g) (o_const g) (o_bool g) (o_fc g)) e.
  Proof.
    intros [Hssa [sigma Hsh] Hsc Hcr Hco Hbo Hfc] Hev Hssa' Hrel. split; cbn [o_nodes o_shape o_scalar o_crank o_const o_bool o_fc]; auto.
    exists sigma. intros ef' y ds a' Hev' Hds Hy. destruct (Hrel ef' y a' Hev' Hy) as (a & Ea & Ht). rewrite <- (proj1 Ht). exact (Hsh ef y ds a Hev Hds Ea).
  Qed.

  (* removing nodes none of whose outputs is a graph output or read by a node *)
  Lemma dead_filter_ok (dead : node -> bool) ns outs (e ef : env V) : ssa V ns e -> evalg ns e = Some ef ->
    (forall n, In n ns -> dead n = true -> forall o, In o (n_outs n) -> ~ In o outs /\ forall m, In m ns -> ~ In o (n_uses m)) ->
    ssa V (filter (fun n => negb (dead n)) ns) e /\
    (exists ef', evalg (filter (fun n => negb (dead n)) ns) e = Some ef' /\ forall y a', ef' y = Some a' -> ef y = Some a') /\
    refines V teq sem (mkGraph ns outs) (mkGraph (filter (fun n => negb (dead n)) ns) outs) e.
  Proof.
    intros Hssa Hev Hdead. split; [apply ssa_filter; exact Hssa|]. split.
    - set (D := flat_map n_outs (filter dead ns)).
      assert (Hu : forall n x, In n ns -> dead n = false -> In x (n_uses n) -> ~ In x D).
      { intros n x Hn _ Hx Hin. unfold D in Hin. apply in_flat_map in Hin as (m & Hm & Hxm). apply filter_In in Hm as [Hm Hdm].
        destruct (Hdead m Hm Hdm x Hxm) as [_ Hno]. exact (Hno n Hn Hx). }
      assert (Hd : forall n y, In n ns -> dead n = true -> In y (n_outs n) -> In y D).
      { intros n y Hn Ho Hy. unfold D. apply in_flat_map. exists n. split; auto. apply filter_In. auto. }
      destruct (filter_dead_env dead D ns e e ef (fun y _ => eq_refl) Hu Hd Hev) as (ef' & Hev' & Hag).
      exists ef'. split; [exact Hev'|]. intros y a' Hy. destruct (in_dec Nat.eq_dec y D) as [HD|HD]; [|now rewrite (Hag y HD)].
      exfalso. unfold D in HD. apply in_flat_map in HD as (m & Hm & Hym). apply filter_In in Hm as [Hm Hdm].
      assert (Hnone : ef' y = None).
      { apply (eval_undefined V sem _ e ef' y Hev').
        - apply (proj2 Hssa). unfold defs. apply in_flat_map. eauto.
        - unfold defs. intro Hin. apply in_flat_map in Hin as (n & Hn & Hyn). apply filter_In in Hn as [Hn Hkn].
          rewrite (defs_unique ns n m y (proj1 Hssa) Hn Hm Hyn Hym) in Hkn. rewrite Hdm in Hkn. discriminate. }
      congruence.
    - change ns with ([] ++ ns) at 1. change (filter (fun n => negb (dead n)) ns) with ([] ++ filter (fun n => negb (dead n)) ns).
      apply (filter_dead_sound V teq (@teq_refl A) (@teq_trans A) sem dead outs e ns []). exact Hdead.
  Qed.

  Lemma rel_list_id_teq xs (vs ws : list V) : rel_list V (fun _ => teq) xs vs ws -> Forall2 teq vs ws.
  Proof. induction 1; constructor; auto. Qed.
  Lemma teq_rel_list_id : forall ys (o o' : list V), length o = length ys -> Forall2 teq o o' -> rel_list V (fun _ => teq) ys o o'.
  Proof.
    induction ys as [|y ys IH]; intros o o' Hl H.
    - destruct o; [|discriminate]. inversion H; subst. constructor.
    - destruct o as [|v o]; [discriminate|]. inversion H as [|? w ? o2 Hvw Hr]; subst. constructor; auto.
  Qed.

  Lemma decide_swish_facts gr0 n x sg out : decide_swish gr0 n = Some (x, sg, out) ->
    op_type (n_op n) = "Mul"%string /\ n_outs n = [out] /\ n_caps n = [] /\
    exists so, n_outs sg = [so] /\ n_caps sg = [] /\ In sg (g_nodes gr0) /\ op_type (n_op sg) = "Sigmoid"%string /\ n_ins sg = [x] /\
      (n_ins n = [so; x] \/ n_ins n = [x; so]).
  Proof.
    unfold decide_swish. destruct (is_op "Mul" n) eqn:Em; [|discriminate]. cbn [negb].
    destruct (n_ins n) as [|a [|b [|]]] eqn:Ei; try discriminate. intro H.
    assert (Hside : forall so pt r, match_side (g_nodes gr0) so pt = Some r ->
              In (snd r) (g_nodes gr0) /\ In so (n_outs (snd r)) /\ op_type (n_op (snd r)) = "Sigmoid"%string /\ n_ins (snd r) = [fst r] /\ fst r = pt).
    { intros so pt r Hm. unfold match_side in Hm. destruct (producer (g_nodes gr0) so) as [sg0|] eqn:Ep; [|discriminate].
      destruct (is_op "Sigmoid" sg0) eqn:Es; [|discriminate]. destruct (n_ins sg0) as [|si [|]] eqn:Eis; try discriminate.
      destruct (Nat.eqb_spec si pt) as [->|]; [|discriminate]. injection Hm as <-. cbn [fst snd].
      destruct (producer_spec _ _ _ Ep) as [H1 H2]. unfold is_op, nop in Es. apply String.eqb_eq in Es. auto. }
    unfold is_op, nop in Em. apply String.eqb_eq in Em.
        destruct (match_side (g_nodes gr0) a b) as [[x1 sg1]|] eqn:E1.
        - destruct (Hside a b (x1, sg1) E1) as (H1 & H2 & H3 & H4 & H5). cbn [fst snd] in *.
          destruct (n_outs n) as [|o1 [|]] eqn:Eo; try discriminate. destruct (n_caps n) eqn:Ec; [|discriminate].
          destruct (n_outs sg1) as [|s1 [|]] eqn:Eos; try discriminate. destruct (n_caps sg1) eqn:Ecs; [|discriminate].
          injection H as <- <- <-. split; [exact Em|]. split; [reflexivity|]. split; [reflexivity|]. exists s1. rewrite Eos, Ecs.
          destruct H2 as [<-|[]]. subst b. repeat split; auto.
        - destruct (match_side (g_nodes gr0) b a) as [[x1 sg1]|] eqn:E2; [|discriminate].
          destruct (Hside b a (x1, sg1) E2) as (H1 & H2 & H3 & H4 & H5). cbn [fst snd] in *.
          destruct (n_outs n) as [|o1 [|]] eqn:Eo; try discriminate. destruct (n_caps n) eqn:Ec; [|discriminate].
          destruct (n_outs sg1) as [|s1 [|]] eqn:Eos; try discriminate. destruct (n_caps sg1) eqn:Ecs; [|discriminate].
          injection H as <- <- <-. split; [exact Em|]. split; [reflexivity|]. split; [reflexivity|]. exists s1. rewrite Eos, Ecs.
          destruct H2 as [<-|[]]. subst a. repeat split; auto.
  Qed.

  Lemma first_swish_in gr0 : forall ns n d, first_swish gr0 ns = Some (n, d) -> In n ns /\ decide_swish gr0 n = Some d.
  Proof.
    induction ns as [|m r IH]; simpl; intros n d H; [discriminate|]. destruct (decide_swish gr0 m) as [d0|] eqn:E.
    - injection H as <- <-. auto.
    - destruct (IH n d H). auto.
  Qed.

  Definition o_of_graph (g : ograph) (gx : graph) : ograph :=
    mkOG (g_nodes gx) (g_outputs gx) (o_dtype g) (o_shape g) (o_scalar g) (o_crank g) (o_const g) (o_bool g) (o_fc g).
  Definition o_step_swish (g : ograph) : option ograph := option_map (o_of_graph g) (swish_step (o_graph g)).

  (* the in-place replacement Mul -> Swish keeps every value *)
  Lemma swish_replace_ok g e ef n x sg out : padm g e -> evalg (o_nodes g) e = Some ef -> In n (o_nodes g) ->
    decide_swish (o_graph g) n = Some (x, sg, out) ->
    let ns1 := map (fun m => if node_eqb m n then swish_node x out else m) (o_nodes g) in
    ssa V ns1 e /\ exists ef', evalg ns1 e = Some ef' /\ rinv V (fun y => y) (fun _ => teq) ef ef'.
  Proof.
    intros Hadm Hev Hn Hd ns1. pose proof (pa_ssa _ _ Hadm) as Hssa.
    destruct (decide_swish_facts _ _ _ _ _ Hd) as (HopM & Hon & Hcn & so & Hos & Hcs & Hsgin & HopS & His & Hins).
    cbn [o_graph g_nodes] in Hsgin.
    set (tr := fun m => if node_eqb m n then swish_node x out else m).
    assert (Hns1 : ns1 = map tr (filter (fun _ => true) (o_nodes g))).
    { unfold ns1. f_equal. symmetry. apply filter_all. auto. }
    assert (Htr_outs : forall m, n_outs (tr m) = n_outs m).
    { intro m. unfold tr. destruct (node_eqb m n) eqn:E; [|reflexivity]. apply node_eqb_eq in E. subst m. now rewrite Hon. }
    split; [rewrite Hns1; apply (ssa_sim V (fun _ => true) tr (o_nodes g) e Htr_outs Hssa)|].
    rewrite Hns1.
    apply (sim_env V sem (rinv V (fun y => y) (fun _ => teq)) (fun _ => true) tr (o_nodes g) e ef Hssa).
    - split; [|auto]. intros y v Hy. exists v. split; [exact Hy | apply teq_refl].
    - exact Hev.
    - intros pre m post em em' e1 Hsplit Hpre Hle Hi Hs Hle1. cbv beta.
      destruct (fresh_at V sem _ _ _ _ _ _ Hssa Hsplit Hpre) as [Hfr HndO].
      assert (Hm : In m (o_nodes g)) by (rewrite Hsplit; apply in_or_app; right; now left).
      unfold tr. destruct (node_eqb m n) eqn:Emn.
      + apply node_eqb_eq in Emn. subst m.
        apply (rinv_kept_step_gen2 V teq sem (fun y => y) (fun _ => teq) em em' n (swish_node x out) e1 Hi Hs);
          [unfold swish_node; cbn [n_outs]; now rewrite Hon | reflexivity | exact Hfr | exact HndO |].
        intros vs o Hl Hsem Hlen.
        (* the value of the Sigmoid in the final environment *)
        destruct (eval_consistent V sem _ _ _ sg Hssa Hev Hsgin) as (vss & oos & Hls & Hss & Hlos).
        unfold n_uses in Hls. rewrite His, Hcs in Hls. simpl in Hls. destruct (ef x) as [vx|] eqn:Ex; [|discriminate]. injection Hls as <-.
        rewrite Hos in Hlos. simpl in Hlos. destruct (ef so) as [vso|] eqn:Eso; [|discriminate]. injection Hlos as <-.
        unfold n_uses in Hl. rewrite Hcn, app_nil_r in Hl. rewrite Hon in Hlen.
        destruct o as [|mv [|]]; try discriminate.
        assert (Hvals : exists wx, em x = Some vx /\ (sem (n_op n) (n_attrs n) [vx; vso] = Some [mv] \/ sem (n_op n) (n_attrs n) [vso; vx] = Some [mv]) /\ wx = vx).
        { destruct Hins as [Hi0|Hi0]; rewrite Hi0 in Hl; simpl in Hl;
            [destruct (em so) as [v1|] eqn:E1; [|discriminate]; destruct (em x) as [v2|] eqn:E2; [|discriminate]
            |destruct (em x) as [v2|] eqn:E2; [|discriminate]; destruct (em so) as [v1|] eqn:E1; [|discriminate]];
            injection Hl as <-; pose proof (Hle _ _ E1) as F1; pose proof (Hle _ _ E2) as F2;
            assert (v1 = vso) by congruence; assert (v2 = vx) by congruence; subst v1 v2; exists vx; split; auto. }
        destruct Hvals as (_ & Emx & Hmul & _).
        destruct (Hswish _ _ _ _ vx vso mv HopS HopM Hss Hmul) as (w & Hw & Hmw).
        destruct (proj1 Hi x vx Emx) as (wx & Ewx & Hxw).
        destruct (sem_proper _ _ [vx] [wx] [w] (Forall2_cons _ _ Hxw (Forall2_nil _)) Hw) as (o' & Ho' & Hoo').
        inversion Hoo' as [|? w' ? r1 Hww' Hr1]; subst. inversion Hr1; subst.
        exists [wx], [w']. split; [unfold n_uses; cbn [swish_node n_ins n_caps app lookups]; now rewrite Ewx|].
        split; [exact Ho'|]. rewrite Hon. constructor; [eapply teq_trans; eauto | constructor].
      + apply (rinv_kept_step_gen V teq sem (fun y => y) (fun _ => teq) em em' m m e1 Hi Hs); auto.
        intros vs o Hl Hsem Hlen. destruct (rinv_lookups V (fun y => y) (fun _ => teq) em em' _ _ Hi Hl) as (vs' & Hl' & Hrl).
        rewrite map_id in Hl'. destruct (sem_proper _ _ _ _ _ (rel_list_id_teq _ _ _ Hrl) Hsem) as (o' & Ho' & Hoo').
        exists vs', o'. split; [exact Hl'|]. split; [exact Ho'|]. now apply teq_rel_list_id.
  Qed.

  Lemma step_ok_swish g g' e0 e : padm g e -> pext g e0 e -> o_step_swish g = Some g' -> forall o, rung (o_graph g) e = Some o ->
    exists e' o', pext g' e0 e' /\ padm g' e' /\ rung (o_graph g') e' = Some o' /\ Forall2 teq o o'.
  Proof.
    intros Hadm Hext Hstep o Hrun. unfold o_step_swish in Hstep.
    destruct (swish_step (o_graph g)) as [gx|] eqn:Es; [|discriminate]. injection Hstep as <-.
    unfold swish_step in Es. destruct (first_swish (o_graph g) (g_nodes (o_graph g))) as [[n [[x sg] out]]|] eqn:Ef; [|discriminate].
    injection Es as <-. destruct (first_swish_in _ _ _ _ Ef) as [Hn Hd]. cbn [o_graph g_nodes] in Hn.
    destruct (run_eval _ _ _ Hrun) as [ef Hev]. cbn [o_graph g_nodes] in Hev.
    destruct (swish_replace_ok g e ef n x sg out Hadm Hev Hn Hd) as (Hssa1 & ef1 & Hev1 & Hi1).
    set (ns1 := map (fun m => if node_eqb m n then swish_node x out else m) (o_nodes g)) in *.
    (* outputs of the intermediate graph *)
    assert (Hrun1 : exists o1, rung (mkGraph ns1 (o_outputs g)) e = Some o1 /\ Forall2 teq o o1).
    { unfold run in *. cbn [o_graph g_nodes g_outputs] in *. rewrite Hev in Hrun. rewrite Hev1.
      destruct (rinv_lookups V (fun y => y) (fun _ => teq) ef ef1 _ _ Hi1 Hrun) as (o1 & Hl1 & Hrl). rewrite map_id in Hl1.
      exists o1. split; [exact Hl1 | exact (rel_list_id_teq _ _ _ Hrl)]. }
    destruct Hrun1 as (o1 & Hrun1 & Ho1).
    assert (Hrel1 : forall ef' y a', evalg ns1 e = Some ef' -> ef' y = Some a' -> exists a, ef y = Some a /\ teq a a').
    { intros ef' y a' Hev' Hy. rewrite Hev1 in Hev'. injection Hev' as <-.
      assert (Hdne : ef y <> None) by (apply (proj2 Hi1); congruence). destruct (ef y) as [a|] eqn:Ea; [|congruence].
      destruct (proj1 Hi1 y a Ea) as (w & Ew & Hr). exists a. split; auto. congruence. }
    unfold apply_swish. cbn [o_graph g_nodes g_outputs]. fold ns1.
    destruct (forallb (fun o0 => negb (mentioned ns1 (o_outputs g) sg o0)) (n_outs sg)) eqn:Edead.
    - (* the Sigmoid is removed as well *)
      destruct (dead_filter_ok (fun m => node_eqb m sg) ns1 (o_outputs g) e ef1 Hssa1 Hev1) as (Hssa2 & (ef2 & Hev2 & Hrel2) & Href2).
      { intros m Hm Hdm o0 Ho0. apply node_eqb_eq in Hdm. subst m. rewrite forallb_forall in Edead. specialize (Edead o0 Ho0).
        apply negb_true_iff in Edead. exact (mentioned_false _ _ _ _ Edead). }
      destruct (Href2 o1 Hrun1) as (o2 & Hrun2 & Ho2).
      exists e, o2. split; [apply (pext_const g); [reflexivity | reflexivity | exact Hext]|]. split; [|split; [exact Hrun2|]].
      + apply (padm_reframe g e ef _ _ Hadm Hev Hssa2). intros ef' y a' Hev' Hy. rewrite Hev2 in Hev'. injection Hev' as <-.
        exact (Hrel1 ef1 y a' Hev1 (Hrel2 y a' Hy)).
      + eapply (Forall2_veq_trans V teq (@teq_trans A)); eauto.
    - exists e, o1. split; [apply (pext_const g); [reflexivity | reflexivity | exact Hext]|]. split; [|split; [exact Hrun1 | exact Ho1]].
      exact (padm_reframe g e ef _ _ Hadm Hev Hssa1 Hrel1).
  Qed.

  (* ================================================================ inline_dropout_training_mode_constants_ir *)
  Section Dropout.
    Variables (e0 : env V) (o : list V).
    (* what is carried through the sweep *)
    Definition dgood (g : ograph) (e : env V) : Prop :=
      padm g e /\ pext g e0 e /\ exists o', rung (o_graph g) e = Some o' /\ Forall2 teq o o'.

    Lemma drop_decide_facts g n nt : drop_decide g n = Some nt ->
      op_type (n_op n) = "Dropout"%string /\ exists d0 r0 rest p c crest,
        n_ins n = d0 :: r0 :: nt :: rest /\ In p (o_nodes g) /\ op_type (n_op p) = "Not"%string /\ n_ins p = c :: crest /\ n_outs p = [nt] /\
        o_bool g c = Some true.
    Proof.
      unfold drop_decide. destruct (is_op "Dropout" n) eqn:Ed; [|discriminate]. cbn [negb].
      destruct (n_ins n) as [|d0 [|r0 [|tm rest]]] eqn:Ei; try discriminate.
      destruct (producer (o_nodes g) tm) as [p|] eqn:Ep; [|discriminate]. destruct (is_op "Not" p) eqn:En; [|discriminate]. cbn [negb].
      destruct (n_ins p) as [|c crest] eqn:Eip; [discriminate|]. destruct (n_outs p) as [|nt0 [|]] eqn:Eop; try discriminate.
      destruct (o_bool g c) as [[|]|] eqn:Eb; try discriminate. destruct (existsb _ _); [discriminate|]. intro H. injection H as <-.
      destruct (producer_spec _ _ _ Ep) as [Hp Htm]. rewrite Eop in Htm. destruct Htm as [->|[]].
      unfold is_op, nop in Ed, En. apply String.eqb_eq in Ed, En. split; [exact Ed|].
      exists d0, r0, rest, p, c, crest. repeat split; auto.
    Qed.

    Lemma drop_apply_good g e n nt : dgood g e -> In n (o_nodes g) -> drop_decide g n = Some nt -> exists e', dgood (drop_apply g nt) e'.
    Proof.
      intros (Hadm & Hext & o1 & Hrun & Ho1) Hn Hd.
      destruct (drop_decide_facts g n nt Hd) as (HopD & d0 & r0 & rest & p & c & crest & Hin & Hp & HopN & Hip & Hop & Hbc).
      set (fc := fc_name g).
      (* the environment with the false constant *)
      set (e1 := match o_fc g with Some _ => e | None => upd V e fc (mkB false) end).
      assert (Hfc_fresh : o_fc g = None -> max_name (projR g) < fc) by (intro E; unfold fc, fc_name; rewrite E; lia).
      assert (He1fc : exists vf, e1 fc = Some vf /\ denoteB vf = Some false /\ shape vf = []).
      { unfold e1, fc, fc_name. destruct (o_fc g) as [f|] eqn:Ef.
        - exact (pa_fc _ _ Hadm f Ef).
        - exists (mkB false). unfold upd. rewrite Nat.eqb_refl. destruct (mkB_ok false). auto. }
      destruct He1fc as (vf & Evf & Hdf & Hsf).
      assert (He1_other : forall x, x <> fc -> e1 x = e x).
      { intros x Hx. unfold e1. destruct (o_fc g); auto. unfold upd. destruct (Nat.eqb_spec x fc); [contradiction | reflexivity]. }
      destruct (run_eval _ _ _ Hrun) as [ef Hev]. cbn [o_graph g_nodes] in Hev.
      pose proof (pa_ssa _ _ Hadm) as Hssa.
      (* the old graph runs in e1 as well, with the same values *)
      assert (Hrun_e1 : exists ef1, evalg (o_nodes g) e1 = Some ef1 /\ (forall x, x <> fc -> ef1 x = ef x) /\ ssa V (o_nodes g) e1 /\
                                   rung (o_graph g) e1 = Some o1 /\ (o_fc g <> None -> ef1 = ef)).
      { unfold e1. destruct (o_fc g) as [f|] eqn:Ef.
        - exists ef. split; [exact Hev|]. split; [reflexivity|]. split; [exact Hssa|]. split; [exact Hrun | reflexivity].
        - specialize (Hfc_fresh eq_refl).
          destruct (eval_agree V sem [fc] (o_nodes g) e _ ef (agree_upd A e fc (mkB false)) (unmentioned_uses (projR g) fc Hfc_fresh) Hev) as (ef1 & Hev1 & Hag).
          exists ef1. split; [exact Hev1|]. split; [intros x Hx; symmetry; apply Hag; intros [E|[]]; congruence|]. split.
          + split; [exact (proj1 Hssa)|]. intros y Hy. unfold upd. destruct (Nat.eqb_spec y fc) as [->|_]; [|exact (proj2 Hssa y Hy)]. exfalso.
            unfold defs in Hy. apply in_flat_map in Hy as (m & Hm & Hym).
            assert (Hb : fc <= max_name (projR g)) by (apply max_name_ge; right; exists m; split; auto; apply in_or_app; right; apply in_or_app; now right). lia.
          + split; [|congruence].
            unfold run in *. cbn [o_graph g_nodes g_outputs] in *. rewrite Hev in Hrun. rewrite Hev1. rewrite <- Hrun. symmetry.
            apply (lookups_agree V [fc] ef ef1 _ Hag). intros y Hy [E|[]]. subst y.
            assert (Hb : fc <= max_name (projR g)) by (apply max_name_ge; now left). lia. }
      destruct Hrun_e1 as (ef1 & Hev1 & Hsm & Hssa1 & Hrun1 & Hsame_fc).
      (* the value of the Not's output is the scalar False *)
      assert (Hfc_ne : nt <> fc).
      { intro E. assert (Hin_defs : In nt (defs (o_nodes g))) by (unfold defs; apply in_flat_map; exists p; split; auto; rewrite Hop; now left).
        pose proof (proj2 Hssa1 nt Hin_defs) as H0. rewrite E in H0. congruence. }
      assert (Hnt_val : forall a, ef1 nt = Some a -> teq a vf).
      { intros a Ea.
        destruct (eval_consistent V sem _ _ _ p Hssa1 Hev1 Hp) as (vsp & op & Hlp & Hsp & Hlop).
        destruct (Hnot _ _ _ _ HopN Hsp) as (vc & vn & -> & -> & Hshn & Hbn).
        unfold n_uses in Hlp. rewrite Hip in Hlp. simpl in Hlp. destruct (ef1 c) as [vc'|] eqn:Ec; [|discriminate].
        destruct (lookups V ef1 (crest ++ n_caps p)) as [[|? ?]|]; try discriminate. injection Hlp as ->.
        rewrite Hop in Hlop. simpl in Hlop. rewrite Ea in Hlop. injection Hlop as <-.
        destruct (pa_bool _ _ Hadm c true Hbc) as (vc0 & Ec0 & Hdc0).
        assert (Hcne : c <> fc).
        { intro E. unfold fc, fc_name in E. destruct (o_fc g) as [f|] eqn:Ef.
          - subst c. destruct (pa_fc _ _ Hadm f Ef) as (v1 & E1 & D1 & _). congruence.
          - assert (Hb : c <= max_name (projR g)) by (apply max_name_ge; right; exists p; split; auto; apply in_or_app; left; rewrite Hip; now left). lia. }
        assert (Hvc : vc = vc0).
        { pose proof (env_final _ _ _ _ _ Hssa Hev Ec0) as E1. rewrite <- (Hsm c Hcne) in E1. congruence. }
        subst vc0. specialize (Hbn true Hdc0). simpl in Hbn.
        (* its shape: the Dropout reads it as training_mode *)
        destruct (eval_consistent V sem _ _ _ n Hssa1 Hev1 Hn) as (vsn & on & Hln & Hsn & _).
        unfold n_uses in Hln. rewrite Hin in Hln. simpl in Hln.
        destruct (ef1 d0) as [vd|]; [|discriminate]. destruct (ef1 r0) as [vr|]; [|discriminate]. rewrite Ea in Hln.
        destruct (lookups V ef1 (rest ++ n_caps n)) as [vrest|]; [|discriminate]. injection Hln as <-.
        pose proof (Hdrop_tm _ _ _ _ _ _ _ HopD Hsn) as Hsh.
        apply (denoteB_inj a vf false); auto. }
      (* redirect every use *)
      assert (Hinv : forall pre post em, o_nodes g = pre ++ post -> evalg pre e1 = Some em -> inv V teq nt fc em).
      { intros pre post em Hsplit Hpre a Ea. exists vf. split.
        - apply (eval_mono V sem pre e1 em fc vf Hpre Evf). intro Hin_pre.
          assert (Hdf0 : In fc (defs (o_nodes g))) by (rewrite Hsplit; unfold defs in *; rewrite flat_map_app; apply in_or_app; now left).
          rewrite (proj2 Hssa1 fc Hdf0) in Evf. discriminate.
        - apply Hnt_val. assert (Hpost : exists efx, evalg post em = Some efx /\ efx = ef1).
          { rewrite Hsplit, eval_app, Hpre in Hev1. eauto. }
          destruct Hpost as (efx & Hpost & ->).
          apply (prefix_le_final V sem pre post e1 em ef1); auto. now rewrite <- Hsplit. }
      pose proof (replace_all_uses_sound V teq (@teq_refl A) (@teq_sym A) (@teq_trans A) sem sem_proper nt fc (o_graph g) e1 Hinv) as Href.
      destruct (Href o1 Hrun1) as (o2 & Hrun2 & Ho2).
      destruct (eval_subst V teq (@teq_sym A) (@teq_trans A) sem sem_proper nt fc (o_nodes g) e1 e1 ef1 (env_le_refl V teq (@teq_refl A) e1) Hinv Hev1)
        as (ef2 & Hev2 & Hle2).
      set (ns2 := map (subst_node nt fc) (o_nodes g)) in *.
      assert (Hssa2 : ssa V ns2 e1) by (unfold ns2, ssa; rewrite defs_subst; exact Hssa1).
      (* every value of the new run is a value of the old one *)
      assert (Hback : forall y a', ef2 y = Some a' -> exists a, ef1 y = Some a /\ teq a a').
      { intros y a' Hy. assert (Hdy : ef1 y <> None).
        { destruct (eval_dom V sem ns2 e1 ef2 y Hev2) as [He|Hdef]; [congruence | |].
          - destruct (e1 y) as [v|] eqn:E1; [|congruence]. rewrite (env_final _ _ _ _ _ Hssa1 Hev1 E1). discriminate.
          - unfold ns2 in Hdef. rewrite defs_subst in Hdef. exact (eval_defs_defined V sem _ _ _ _ Hssa1 Hev1 Hdef). }
        destruct (ef1 y) as [a|] eqn:Ea; [|congruence]. destruct (Hle2 y a Ea) as (a2 & Ea2 & Ht). exists a. split; auto. congruence. }
      exists e1. unfold drop_apply. fold fc. cbn [replace_all_uses o_graph g_nodes g_outputs]. fold ns2.
      destruct Hadm as [_ [sigma Hsh] Hsc Hcr Hco Hbo Hfco].
      assert (Hshape_old : forall y ds a', ef2 y = Some a' -> o_shape g y = Some ds -> y <> fc \/ o_fc g <> None -> Forall2 (dim_ok sigma) ds (shape a')).
      { intros y ds a' Hy Hds Hor. destruct (Hback y a' Hy) as (a & Ea & Ht). rewrite <- (proj1 Ht).
        assert (Hyfc : y = fc -> o_fc g <> None) by (intro E; destruct Hor; [contradiction | auto]).
        destruct (Nat.eq_dec y fc) as [E|Hne].
        - (* the existing false_const: its value is the environment's in both runs *)
          specialize (Hyfc E). subst y. apply (Hsh ef fc ds a Hev Hds). rewrite <- (Hsame_fc Hyfc). exact Ea.
        - apply (Hsh ef y ds a Hev Hds). rewrite <- (Hsm y Hne). exact Ea. }
      unfold dgood. destruct (o_fc g) as [f|] eqn:Ef.
      - (* the initializer exists already *)
        assert (e1 = e) by reflexivity. split; [|split].
        + split; cbn [o_nodes o_shape o_scalar o_crank o_const o_bool o_fc]; auto.
          exists sigma. intros ef' y ds a' Hev' Hds Hy. rewrite Hev2 in Hev'. injection Hev' as <-. apply (Hshape_old y ds a' Hy Hds). right. discriminate.
        + apply (pext_const g); [reflexivity | reflexivity | exact Hext].
        + exists o2. split; [exact Hrun2|]. eapply (Forall2_veq_trans V teq (@teq_trans A)); eauto.
      - (* a new initializer *)
        assert (He1f : e1 fc = Some (mkB false)) by (unfold e1, upd; now rewrite Nat.eqb_refl).
        destruct (mkB_ok false) as [HdB HsB]. clearbody fc.
        split; [|split].
        + split; cbn [o_nodes o_shape o_scalar o_crank o_const o_bool o_fc].
          * exact Hssa2.
          * exists sigma. intros ef' y ds a' Hev' Hds Hy. rewrite Hev2 in Hev'. injection Hev' as <-. unfold updf in Hds.
            destruct (Nat.eqb_spec y fc) as [->|Hne].
            -- injection Hds as <-. assert (Hef2 : ef2 fc = Some (mkB false)).
               { apply (eval_mono V sem ns2 e1 ef2 fc _ Hev2 He1f). intro Hin2. rewrite (proj2 Hssa2 fc Hin2) in He1f. discriminate. }
               assert (a' = mkB false) by congruence. subst a'. rewrite HsB. constructor.
            -- apply (Hshape_old y ds a' Hy Hds). now left.
          * intros x Hx. unfold updf in Hx. destruct (Nat.eq_dec x fc) as [Ex|Hne].
            -- subst x. exists (mkB false). split; auto. now rewrite HsB.
            -- destruct (Nat.eqb_spec x fc); [contradiction|]. rewrite (He1_other x Hne). auto.
          * intros x r Hx. unfold updf in Hx. destruct (Nat.eq_dec x fc) as [Ex|Hne].
            -- subst x. rewrite Nat.eqb_refl in Hx. injection Hx as <-. exists (mkB false). split; auto. now rewrite HsB.
            -- destruct (Nat.eqb_spec x fc); [contradiction|]. rewrite (He1_other x Hne). auto.
          * intros x l Hx. unfold updf in Hx. destruct (Nat.eq_dec x fc) as [Ex|Hne].
            -- subst x. rewrite Nat.eqb_refl in Hx. discriminate.
            -- destruct (Nat.eqb_spec x fc); [contradiction|]. rewrite (He1_other x Hne). auto.
          * intros x b Hx. unfold updf in Hx. destruct (Nat.eq_dec x fc) as [Ex|Hne].
            -- subst x. rewrite Nat.eqb_refl in Hx. injection Hx as <-. exists (mkB false). auto.
            -- destruct (Nat.eqb_spec x fc); [contradiction|]. rewrite (He1_other x Hne). auto.
          * intros x Hx. injection Hx as <-. exists (mkB false). auto.
        + intro x. cbn [o_const o_bool]. unfold updf. destruct (Nat.eq_dec x fc) as [Ex|Hne].
          * subst x. rewrite Nat.eqb_refl. right. right. exists false, (mkB false). auto.
          * destruct (Nat.eqb_spec x fc); [contradiction|]. rewrite (He1_other x Hne). apply Hext.
        + exists o2. split; [exact Hrun2|]. eapply (Forall2_veq_trans V teq (@teq_trans A)); eauto.
    Qed.

    Lemma drop_sweep_good : forall idxs g dels e, dgood g e ->
      exists e', dgood (fst (fold_left drop_at idxs (g, dels))) e'.
    Proof.
      induction idxs as [|i r IH]; intros g dels e Hg; simpl; [eauto|].
      destruct (nth_error (o_nodes g) i) as [n|] eqn:En; [|eauto].
      destruct (drop_decide g n) as [nt|] eqn:Ed; [|eauto].
      destruct (drop_apply_good g e n nt Hg (nth_error_In _ _ En) Ed) as (e1 & Hg1). eauto.
    Qed.

    Lemma drop_cleanup_good g dels e : dgood g e -> dgood (drop_cleanup g dels) e.
    Proof.
      intros (Hadm & Hext & o1 & Hrun & Ho1).
      destruct (run_eval _ _ _ Hrun) as [ef Hev]. cbn [o_graph g_nodes] in Hev.
      set (dead := fun m => existsb (fun d => existsb (Nat.eqb d) (n_outs m)) dels &&
                           forallb (fun o0 => negb (mentioned (o_nodes g) (o_outputs g) m o0)) (n_outs m)).
      destruct (dead_filter_ok dead (o_nodes g) (o_outputs g) e ef (pa_ssa _ _ Hadm) Hev) as (Hssa2 & (ef2 & Hev2 & Hrel2) & Href2).
      { intros m Hm Hdm o0 Ho0. unfold dead in Hdm. apply andb_prop in Hdm as [_ Hdm]. rewrite forallb_forall in Hdm. specialize (Hdm o0 Ho0).
        apply negb_true_iff in Hdm. exact (mentioned_false _ _ _ _ Hdm). }
      destruct (Href2 o1 Hrun) as (o2 & Hrun2 & Ho2).
      split; [|split].
      - unfold drop_cleanup. fold dead. apply (padm_reframe g e ef _ _ Hadm Hev Hssa2). intros ef' y a' Hev' Hy. rewrite Hev2 in Hev'. injection Hev' as <-.
        exists a'. split; [exact (Hrel2 y a' Hy) | apply teq_refl].
      - apply (pext_const g); [reflexivity | reflexivity | exact Hext].
      - exists o2. split; [exact Hrun2|]. eapply (Forall2_veq_trans V teq (@teq_trans A)); eauto.
    Qed.
  End Dropout.

  Lemma pass_ok_dropout : pass_ok_on V teq sem ograph o_graph padm pext (fun _ => True) o_pass_dropout.
  Proof.
    intros g e0 e _ Hadm Hext o Hrun.
    assert (Hg : dgood e0 o g e).
    { split; [exact Hadm|]. split; [exact Hext|]. exists o. split; [exact Hrun | apply (Forall2_veq_refl V teq (@teq_refl A))]. }
    destruct (drop_sweep_good e0 o (seq 0 (length (o_nodes g))) g [] e Hg) as (e1 & Hg1).
    unfold o_pass_dropout. destruct (fold_left drop_at (seq 0 (length (o_nodes g))) (g, [])) as [g1 dels] eqn:Ef. cbn [fst] in Hg1.
    destruct dels as [|d dr].
    - destruct Hg1 as (Ha & Hx & o' & Hr & Ho). exists e1, o'. auto.
    - destruct (drop_cleanup_good e0 o g1 (d :: dr) e1 Hg1) as (Ha & Hx & o' & Hr & Ho). exists e1, o'. auto.
  Qed.

  (* ================================================================ remove_dead_nodes_ir (restricted: see DcePass.v) *)
  Definition o_pass_dce (g : ograph) : ograph := o_of_graph g (dce_pass (o_graph g)).

  Lemma filter_remove_mid (n : node) : forall pre post, ~ In n pre -> ~ In n post ->
    filter (fun m => negb (node_eqb m n)) (pre ++ n :: post) = pre ++ post.
  Proof.
    intros pre post Hp Hq. rewrite filter_app. cbn [filter]. rewrite node_eqb_refl. cbn [negb].
    assert (Hall : forall l, ~ In n l -> filter (fun m => negb (node_eqb m n)) l = l).
    { induction l as [|m l IH]; intro H; [reflexivity|]. cbn [filter]. destruct (node_eqb m n) eqn:E.
      - apply node_eqb_eq in E. subst m. exfalso. apply H. now left.
      - cbn [negb]. f_equal. apply IH. intro Hin. apply H. now right. }
    now rewrite (Hall pre Hp), (Hall post Hq).
  Qed.

  Lemma dce_go_ok outs (e : env V) : forall todo_rev kept ef0, Forall (fun n => single_out n = true) (rev todo_rev ++ kept) ->
    ssa V (rev todo_rev ++ kept) e -> evalg (rev todo_rev ++ kept) e = Some ef0 ->
    ssa V (dce_go outs todo_rev kept) e /\
    (exists ef', evalg (dce_go outs todo_rev kept) e = Some ef' /\ forall y a', ef' y = Some a' -> ef0 y = Some a') /\
    refines V teq sem (mkGraph (rev todo_rev ++ kept) outs) (mkGraph (dce_go outs todo_rev kept) outs) e.
  Proof.
    induction todo_rev as [|n r IH]; intros kept ef0 Hsingle Hssa Hev; cbn [dce_go].
    - cbn [rev app] in *. split; [exact Hssa|]. split; [eauto|]. apply (refines_refl V teq (@teq_refl A) sem).
    - cbn [rev] in *. rewrite <- app_assoc in *. cbn [app] in *.
      destruct (forallb (fun o0 => negb (mentioned (rev r ++ kept) outs n o0)) (n_outs n)) eqn:Edead.
      + (* n goes *)
        assert (Hn_in : In n (rev r ++ n :: kept)) by (apply in_or_app; right; now left).
        assert (Hout : exists y, n_outs n = [y]).
        { rewrite Forall_forall in Hsingle. specialize (Hsingle n Hn_in). unfold single_out in Hsingle. destruct (n_outs n) as [|y [|]]; try discriminate. eauto. }
        destruct Hout as [y Hy].
        assert (Hnn : ~ In n (rev r) /\ ~ In n kept).
        { pose proof (proj1 Hssa) as Hnd. unfold defs in Hnd. rewrite flat_map_app in Hnd. cbn [flat_map] in Hnd. rewrite Hy in Hnd. cbn [app] in Hnd.
          apply NoDup_remove_2 in Hnd. split; intro Hin; apply Hnd; apply in_or_app; [left | right]; apply in_flat_map; exists n; (split; [exact Hin | rewrite Hy; now left]). }
        destruct Hnn as [Hnr Hnk].
        destruct (dead_filter_ok (fun m => node_eqb m n) (rev r ++ n :: kept) outs e ef0 Hssa Hev) as (Hssa2 & (ef2 & Hev2 & Hrel2) & Href2).
        { intros m Hm Hdm o0 Ho0. apply node_eqb_eq in Hdm. subst m. rewrite forallb_forall in Edead. specialize (Edead o0 Ho0).
          apply negb_true_iff in Edead. destruct (mentioned_false _ _ _ _ Edead) as [H1 H2]. split; [exact H1|].
          intros m Hm2 Hin. apply in_app_or in Hm2 as [Hm2|[<-|Hm2]].
          - apply (H2 m); auto. apply in_or_app. now left.
          - exact (use_ne_def A sem _ e ef0 n o0 o0 Hssa Hev Hn_in Hin Ho0 eq_refl).
          - apply (H2 m); auto. apply in_or_app. now right. }
        rewrite (filter_remove_mid n (rev r) kept Hnr Hnk) in *.
        assert (Hsingle2 : Forall (fun m => single_out m = true) (rev r ++ kept)).
        { rewrite Forall_forall in *. intros m Hm. apply Hsingle. apply in_app_or in Hm as [Hm|Hm]; apply in_or_app; [now left | right; now right]. }
        destruct (IH kept ef2 Hsingle2 Hssa2 Hev2) as (Hssa3 & (ef3 & Hev3 & Hrel3) & Href3).
        split; [exact Hssa3|]. split; [exists ef3; split; auto|].
        eapply (refines_trans V teq (@teq_trans A) sem); eauto.
      + (* n stays *)
        change (rev r ++ n :: kept) with (rev r ++ (n :: kept)) in *. exact (IH (n :: kept) ef0 Hsingle Hssa Hev).
  Qed.

  Lemma pass_ok_dce : pass_ok_on V teq sem ograph o_graph padm pext (fun g => dce_guard (o_graph g) = true) o_pass_dce.
  Proof.
    intros g e0 e Hguard Hadm Hext o Hrun. unfold o_pass_dce, dce_pass. rewrite Hguard.
    destruct (run_eval _ _ _ Hrun) as [ef Hev]. cbn [o_graph g_nodes g_outputs] in *.
    assert (Hs : Forall (fun n => single_out n = true) (rev (rev (o_nodes g)) ++ [])).
    { rewrite rev_involutive, app_nil_r. unfold dce_guard in Hguard. cbn [g_nodes] in Hguard. apply Forall_forall. rewrite forallb_forall in Hguard. exact Hguard. }
    destruct (dce_go_ok (o_outputs g) e (rev (o_nodes g)) [] ef Hs) as (Hssa2 & (ef2 & Hev2 & Hrel2) & Href2).
    { rewrite rev_involutive, app_nil_r. exact (pa_ssa _ _ Hadm). }
    { rewrite rev_involutive, app_nil_r. exact Hev. }
    rewrite rev_involutive, app_nil_r in Href2.
    destruct (Href2 o Hrun) as (o' & Hrun' & Ho').
    exists e, o'. split; [apply (pext_const g); [reflexivity | reflexivity | exact Hext]|]. split; [|split; [exact Hrun' | exact Ho']].
    unfold o_of_graph. cbn [g_nodes g_outputs]. apply (padm_reframe g e ef _ _ Hadm Hev Hssa2).
    intros ef' y a' Hev' Hy. rewrite Hev2 in Hev'. injection Hev' as <-. exists a'. split; [exact (Hrel2 y a' Hy) | apply teq_refl].
  Qed.

  Lemma pass_ok_id : pass_ok_on V teq sem ograph o_graph padm pext (fun _ => True) (fun g => g).
  Proof. intros g e0 e _ Hadm Hext o Hrun. exists e, o. split; [exact Hext|]. split; [exact Hadm|]. split; [exact Hrun|]. apply (Forall2_veq_refl V teq (@teq_refl A)). Qed.

  (* ================================================================ the passes as loops on the common graph *)
  Notation pass_ok := (pass_ok_on V teq sem ograph o_graph padm pext).
  Variable fuel : nat.

  Lemma pass_ok_R : pass_ok (fun g => axes_attr_along fuel (projR g) = true) (loop ograph o_step_R fuel).
  Proof.
    apply (loop_ok V teq (@teq_refl A) (@teq_trans A) sem ograph o_graph padm pext o_step_R (fun k g => axes_attr_along k (projR g) = true)).
    intros k g g' e0 e Hk Hadm Hext Hs o Hrun. exact (step_ok_R k g g' e0 e Hk Hadm Hext Hs o Hrun).
  Qed.
  Lemma pass_ok_F : pass_ok (fun _ => True) (loop ograph o_step_F fuel).
  Proof.
    apply (loop_ok V teq (@teq_refl A) (@teq_trans A) sem ograph o_graph padm pext o_step_F (fun _ _ => True)).
    intros k g g' e0 e _ Hadm Hext Hs o Hrun. split; [exact I|]. exact (step_ok_F g g' e0 e Hadm Hext Hs o Hrun).
  Qed.
  Lemma pass_ok_T : pass_ok (fun g => kinds_along fuel (projT g) = true) (loop ograph (o_step_T true) fuel).
  Proof.
    apply (loop_ok V teq (@teq_refl A) (@teq_trans A) sem ograph o_graph padm pext (o_step_T true) (fun k g => kinds_along k (projT g) = true)).
    intros k g g' e0 e Hk Hadm Hext Hs o Hrun. exact (step_ok_T k g g' e0 e Hk Hadm Hext Hs o Hrun).
  Qed.
  Lemma pass_ok_P : pass_ok (fun _ => True) (loop ograph o_step_P fuel).
  Proof.
    apply (loop_ok V teq (@teq_refl A) (@teq_trans A) sem ograph o_graph padm pext o_step_P (fun _ _ => True)).
    intros k g g' e0 e _ Hadm Hext Hs o Hrun. split; [exact I|]. exact (step_ok_P g g' e0 e Hadm Hext Hs o Hrun).
  Qed.
  Lemma pass_ok_I : pass_ok (fun _ => True) (loop ograph o_step_I fuel).
  Proof.
    apply (loop_ok V teq (@teq_refl A) (@teq_trans A) sem ograph o_graph padm pext o_step_I (fun _ _ => True)).
    intros k g g' e0 e _ Hadm Hext Hs o Hrun. split; [exact I|]. exact (step_ok_I g g' e0 e Hadm Hext Hs o Hrun).
  Qed.

  Variable opset : nat.      (* the graph's default-domain opset (the Swish rewrite is only done from opset 24 on) *)
  Definition o_pass_swish (g : ograph) : ograph := if Nat.leb 24 opset then loop ograph o_step_swish fuel g else g.
  Lemma pass_ok_swish : pass_ok (fun _ => True) o_pass_swish.
  Proof.
    unfold o_pass_swish. destruct (Nat.leb 24 opset); [|exact pass_ok_id].
    apply (loop_ok V teq (@teq_refl A) (@teq_trans A) sem ograph o_graph padm pext o_step_swish (fun _ _ => True)).
    intros k g g' e0 e _ Hadm Hext Hs o Hrun. split; [exact I|]. exact (step_ok_swish g g' e0 e Hadm Hext Hs o Hrun).
  Qed.

  (* ================================================================ the table of optimize_graph *)
  (* the passes not (yet) modelled, by the name of the function that runs them *)
  Variable U : string -> ograph -> ograph.

  Definition impl_fn (runner : string) : ograph -> ograph :=
    if String.eqb runner "remove_redundant_transpose_reduce_ir" then loop ograph o_step_R fuel
    else if String.eqb runner "remove_redundant_transpose_add_forests_ir" then loop ograph o_step_F fuel
    else if String.eqb runner "remove_redundant_transpose_pairs_ir" then loop ograph (o_step_T true) fuel
    else if String.eqb runner "remove_redundant_reshape_pairs_ir" then loop ograph o_step_P fuel
    else if String.eqb runner "remove_identity_reshapes_ir" then loop ograph o_step_I fuel
    else if String.eqb runner "remove_orphan_transposes_ir" then o_pass_O fuel
    else if String.eqb runner "propagate_unary_shapes_ir" then o_pass_unary
    else if String.eqb runner "propagate_elementwise_shapes_ir" then o_pass_elem
    else if String.eqb runner "rewrite_mul_sigmoid_as_swish_ir" then o_pass_swish
    else if String.eqb runner "inline_dropout_training_mode_constants_ir" then o_pass_dropout
    else if String.eqb runner "remove_dead_nodes_ir" then o_pass_dce
    (* prune_unused_graph_inputs_ir rewrites graph.inputs only (the INTERFACE: property C05, Interface.prune); nodes, graph
       outputs, initializers and annotations — all of [ograph] — are untouched, and the environment of a run is a function
       of names, so dropping an unused input does not change any run *)
    else if String.eqb runner "prune_unused_graph_inputs_ir" then (fun g => g)
    else U runner.
  (* the computational side conditions: every action the Transpose-pair pass takes is of a proved kind; every fold of the
     Transpose-reduce pass has its axes as an attribute (see step_ok_R) *)
  Definition guard_fn (runner : string) (g : ograph) : Prop :=
    if String.eqb runner "remove_redundant_transpose_pairs_ir" then kinds_along fuel (projT g) = true
    else if String.eqb runner "remove_redundant_transpose_reduce_ir" then axes_attr_along fuel (projR g) = true
    else if String.eqb runner "remove_dead_nodes_ir" then dce_guard (o_graph g) = true
    else True.

  Definition top_runners : list string := map (fun r => fst (snd r)) OPTIMIZER_PASS_TABLE.
  Definition body_runners : list string := map (fun r => fst (snd r)) (filter (fun r => snd (snd r)) OPTIMIZER_PASS_TABLE).

  Hypothesis U_ok : Forall (fun r => pass_ok (fun _ => True) (U r)) UNMODELLED_RUNNERS.

  Lemma impl_ok r : In r top_runners -> pass_ok (guard_fn r) (impl_fn r).
  Proof.
    intro Hin. rewrite Forall_forall in U_ok.
    assert (Hu : In r UNMODELLED_RUNNERS -> pass_ok (guard_fn r) (impl_fn r)).
    { intro Hr. pose proof (U_ok r Hr) as Hok. unfold UNMODELLED_RUNNERS in Hr. simpl in Hr.
      repeat (destruct Hr as [<-|Hr]; [exact Hok|]). destruct Hr. }
    unfold top_runners, OPTIMIZER_PASS_TABLE in Hin. simpl in Hin.
    repeat (destruct Hin as [<-|Hin];
            [first [ exact pass_ok_R | exact pass_ok_F | exact pass_ok_T | exact pass_ok_P | exact pass_ok_I | exact (pass_ok_O fuel) | exact pass_ok_unary | exact pass_ok_id | exact pass_ok_swish | exact pass_ok_dropout | exact pass_ok_elem | exact pass_ok_dce
                   | apply Hu; unfold UNMODELLED_RUNNERS; simpl; tauto ]|]).
    destruct Hin.
  Qed.

  Lemma body_runners_sub r : In r body_runners -> In r top_runners.
  Proof.
    unfold body_runners, top_runners. intro H. apply in_map_iff in H as (x & <- & Hx). apply filter_In in Hx as [Hx _]. apply in_map_iff. eauto.
  Qed.

  Lemma pext_refl g e : pext g e e.
  Proof. intro x. now left. Qed.

  (* THE PIPELINE on the top graph: the passes in the order of the translated table *)
  Theorem optimize_pipeline_sound g e : guards_along ograph impl_fn guard_fn top_runners g -> padm g e ->
    forall o, rung (o_graph g) e = Some o ->
    exists e' o', pext (run_passes ograph impl_fn top_runners g) e e' /\ padm (run_passes ograph impl_fn top_runners g) e' /\
                  rung (o_graph (run_passes ograph impl_fn top_runners g)) e' = Some o' /\ Forall2 teq o o'.
  Proof.
    intros Hg Hadm o Hrun.
    exact (compose_sound V teq (@teq_refl A) (@teq_trans A) sem ograph o_graph padm pext impl_fn guard_fn top_runners
             (fun n Hn => impl_ok n Hn) g e e Hg Hadm (pext_refl g e) o Hrun).
  Qed.

  (* ... and on a function body: the same passes, those with function_bodies=False (and the model passes) skipped *)
  Theorem optimize_pipeline_sound_function_bodies g e : guards_along ograph impl_fn guard_fn body_runners g -> padm g e ->
    forall o, rung (o_graph g) e = Some o ->
    exists e' o', pext (run_passes ograph impl_fn body_runners g) e e' /\ padm (run_passes ograph impl_fn body_runners g) e' /\
                  rung (o_graph (run_passes ograph impl_fn body_runners g)) e' = Some o' /\ Forall2 teq o o'.
  Proof.
    intros Hg Hadm o Hrun.
    exact (compose_sound V teq (@teq_refl A) (@teq_trans A) sem ograph o_graph padm pext impl_fn guard_fn body_runners
             (fun n Hn => impl_ok n (body_runners_sub n Hn)) g e e Hg Hadm (pext_refl g e) o Hrun).
  Qed.
End PSound.

(* ================================================================ the statements with the hypotheses packaged *)
(* the union of the semantic hypotheses of the verified passes *)
Definition opt_world (A : Type) (sem : string -> list nat -> list (tensor A) -> option (list (tensor A)))
  (F : string -> list nat -> list A -> A) (Fcl : list nat -> tensor A -> A -> A) (reduce : list nat -> tensor A -> tensor A)
  (denoteZ : tensor A -> option (list Z)) (mkZ : list Z -> tensor A)
  (denoteB : tensor A -> option bool) (mkB : bool -> tensor A) : Prop :=
  (forall op ats vs vs' o, Forall2 teq vs vs' -> sem op ats vs = Some o -> exists o', sem op ats vs' = Some o' /\ Forall2 teq o o') /\
  sem_transpose_spec A sem op_type /\ sem_reshape_spec A sem /\
  sem_pointwise_spec_g A sem op_type F /\ sem_castlike_spec_n A sem op_type Fcl /\ castlike_type_only A Fcl /\
  sem_accepts_spec_g A sem op_type /\
  reduce_laws A reduce /\ (forall v v', teq v v' -> denoteZ v = denoteZ v') /\ sem_reducemean_spec A sem op_type denoteZ reduce /\
  (forall l, denoteZ (mkZ l) = Some l) /\ (forall l, shape (mkZ l) = [length l]) /\
  (forall ats vs o, sem "Reshape"%string ats vs = Some o ->
     exists x sv, vs = [x; sv] /\ forall tgt, denoteZ sv = Some tgt -> Forall (fun d => (0 <= d)%Z) tgt -> o = [reshape (map Z.to_nat tgt) x]) /\
  (forall op ats vs o, Onnx.str_mem op Annot.first_input_shape_ops = true -> sem op ats vs = Some o ->
     exists x xs y ys, vs = x :: xs /\ o = y :: ys /\ shape y = shape x) /\
  (forall opS atsS opM atsM x s m, op_type opS = "Sigmoid"%string -> op_type opM = "Mul"%string ->
     sem opS atsS [x] = Some [s] -> (sem opM atsM [x; s] = Some [m] \/ sem opM atsM [s; x] = Some [m]) ->
     exists w, sem "Swish"%string [] [x] = Some [w] /\ teq m w) /\
  (forall v v', teq v v' -> denoteB v = denoteB v') /\
  (forall v w b, denoteB v = Some b -> denoteB w = Some b -> shape v = [] -> shape w = [] -> teq v w) /\
  (forall b, denoteB (mkB b) = Some b /\ shape (mkB b) = []) /\
  (forall op ats vs o, op_type op = "Not"%string -> sem op ats vs = Some o ->
     exists c n, vs = [c] /\ o = [n] /\ shape n = shape c /\ forall b, denoteB c = Some b -> denoteB n = Some (negb b)) /\
  (forall op ats x r t rest o, op_type op = "Dropout"%string -> sem op ats (x :: r :: t :: rest) = Some o -> shape t = []).

(* every pass of the table that is not a verified model refines and keeps the graph admissible *)
Definition unmodelled_ok (A : Type) sem denoteZ denoteB (U : string -> ograph -> ograph) : Prop :=
  Forall (fun r => pass_ok_on (tensor A) teq sem ograph o_graph (padm A sem denoteZ denoteB) (pext A denoteZ denoteB) (fun _ => True) (U r)) UNMODELLED_RUNNERS.

Definition optimize_top fuel opset U : ograph -> ograph := run_passes ograph (impl_fn fuel opset U) top_runners.
Definition optimize_body fuel opset U : ograph -> ograph := run_passes ograph (impl_fn fuel opset U) body_runners.
Definition kinds_ok_top fuel opset U : ograph -> Prop := guards_along ograph (impl_fn fuel opset U) (guard_fn fuel) top_runners.
Definition kinds_ok_body fuel opset U : ograph -> Prop := guards_along ograph (impl_fn fuel opset U) (guard_fn fuel) body_runners.

Theorem optimize_graph_sound (A : Type) sem F Fcl reduce denoteZ mkZ denoteB mkB : opt_world A sem F Fcl reduce denoteZ mkZ denoteB mkB ->
  forall fuel opset U, unmodelled_ok A sem denoteZ denoteB U ->
  forall g e, kinds_ok_top fuel opset U g -> padm A sem denoteZ denoteB g e ->
  forall o, run (tensor A) sem (o_graph g) e = Some o ->
  exists e' o', pext A denoteZ denoteB (optimize_top fuel opset U g) e e' /\ padm A sem denoteZ denoteB (optimize_top fuel opset U g) e' /\
                run (tensor A) sem (o_graph (optimize_top fuel opset U g)) e' = Some o' /\ Forall2 teq o o'.
Proof.
  intros (H1 & H2 & H3 & H4 & H5 & H6 & H7 & H8 & H9 & H10 & H11 & H12 & H13 & H14 & H15 & H16 & H17 & H18 & H19 & H20) fuel opset U HU.
  eapply optimize_pipeline_sound; eassumption.
Qed.

Theorem optimize_graph_sound_function_bodies (A : Type) sem F Fcl reduce denoteZ mkZ denoteB mkB : opt_world A sem F Fcl reduce denoteZ mkZ denoteB mkB ->
  forall fuel opset U, unmodelled_ok A sem denoteZ denoteB U ->
  forall g e, kinds_ok_body fuel opset U g -> padm A sem denoteZ denoteB g e ->
  forall o, run (tensor A) sem (o_graph g) e = Some o ->
  exists e' o', pext A denoteZ denoteB (optimize_body fuel opset U g) e e' /\ padm A sem denoteZ denoteB (optimize_body fuel opset U g) e' /\
                run (tensor A) sem (o_graph (optimize_body fuel opset U g)) e' = Some o' /\ Forall2 teq o o'.
Proof.
  intros (H1 & H2 & H3 & H4 & H5 & H6 & H7 & H8 & H9 & H10 & H11 & H12 & H13 & H14 & H15 & H16 & H17 & H18 & H19 & H20) fuel opset U HU.
  eapply optimize_pipeline_sound_function_bodies; eassumption.
Qed.

(* the two orders, as computed from the translated table (a reordering of _OPTIMIZER_PASSES changes these) *)
Example top_order : top_runners =
  ["_run_name_fix_pass"; "remove_redundant_casts_ir"; "remove_redundant_transpose_reduce_ir"; "remove_redundant_transpose_add_forests_ir";
   "remove_redundant_transpose_pairs_ir"; "remove_redundant_reshape_pairs_ir"; "remove_identity_reshapes_ir";
   "_run_common_subexpression_elimination_pass"; "_run_lift_constants_to_initializers_pass"; "rewrite_mul_sigmoid_as_swish_ir";
   "rewrite_mul_rsqrt_as_div_ir"; "inline_dropout_training_mode_constants_ir"; "propagate_elementwise_shapes_ir";
   "propagate_unary_shapes_ir"; "remove_redundant_casts_ir"; "remove_dead_nodes_ir"; "remove_orphan_transposes_ir";
   "prune_unused_graph_inputs_ir"]%string.
Proof. reflexivity. Qed.
Example body_order : body_runners =
  ["remove_redundant_casts_ir"; "remove_redundant_transpose_reduce_ir"; "remove_redundant_transpose_add_forests_ir";
   "remove_redundant_transpose_pairs_ir"; "remove_redundant_reshape_pairs_ir"; "remove_identity_reshapes_ir";
   "rewrite_mul_sigmoid_as_swish_ir"; "rewrite_mul_rsqrt_as_div_ir"; "inline_dropout_training_mode_constants_ir";
   "propagate_elementwise_shapes_ir"; "propagate_unary_shapes_ir"; "remove_redundant_casts_ir"; "remove_orphan_transposes_ir"]%string.
Proof. reflexivity. Qed.

(* non-vacuity: with the unmodelled passes as the identity, the pipeline folds Transpose -> ReduceMean -> Transpose and then
   removes the identity Reshape behind it *)
Example pipeline_runs :
  let g := mkOG [mkNode "Transpose" [1; 1; 0] [1] [] [2]; mkNode "ReduceMean" [2; 1; 2] [2] [] [3]; mkNode "Transpose" [1; 1; 0] [3] [] [4];
                 mkNode "Reshape" [] [4; 9] [] [5]] [5]
                (fun _ => None) (fun x => if Nat.eqb x 4 then Some [DInt 1; DInt 3] else None) (fun _ => false) (fun _ => None)
                (fun x => if Nat.eqb x 9 then Some [1%Z; 3%Z] else None) (fun _ => None) None in
  o_nodes (optimize_top 5 24 (fun _ g => g) g)
  = [mkNode "ReduceMean" [2; 1; 0] [1] [] [3]] /\
  o_outputs (optimize_top 5 24 (fun _ g => g) g) = [3].
Proof. vm_compute. split; reflexivity. Qed.
