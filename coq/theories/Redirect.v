(* Redirect (C02): the rewrite shape shared by most optimizer passes, generic in the value domain:
     ir.convenience.replace_all_uses_with(o, x, replace_graph_outputs=True); graph.remove(producer of o)
   is sound for EVERY SSA graph as soon as, in the final environment of the original run, the value of
   [o] is equivalent to the value of [x], and [x] is available whenever [o] is.  A pass is then verified
   by (1) a faithful model of its decision, (2) one semantic lemma "the decision implies o == x". *)
From Coq Require Import String List Bool Arith Lia.
From J2O Require Import Graph.
Import ListNotations.

Fixpoint remove_first (k : node -> bool) (ns : list node) : list node :=
  match ns with [] => [] | n :: r => if k n then r else n :: remove_first k r end.
Definition node_is (o : name) (n : node) : bool := match n_outs n with [y] => Nat.eqb y o | _ => false end.

Definition redirect_remove (o x : name) (g : graph) : graph :=
  mkGraph (remove_first (node_is o) (map (subst_node o x) (g_nodes g))) (map (rn o x) (g_outputs g)).

Lemma rn_neq old new y : new <> old -> rn old new y <> old.
Proof. intro H. unfold rn. destruct (Nat.eqb_spec y old); congruence. Qed.

Lemma remove_first_split k pre n post : k n = true -> (forall m, In m pre -> k m = false) ->
  remove_first k (pre ++ n :: post) = pre ++ post.
Proof.
  intros Hk Hp. induction pre as [|m pre IH]; simpl; [now rewrite Hk|].
  rewrite (Hp m) by now left. f_equal. apply IH. intros; apply Hp; now right.
Qed.

Lemma remove_first_none k ns : (forall m, In m ns -> k m = false) -> remove_first k ns = ns.
Proof. induction ns as [|m r IH]; simpl; intro H; auto. rewrite (H m) by now left. f_equal. apply IH. intros; apply H; now right. Qed.

Lemma In_remove_first k ns m : In m (remove_first k ns) -> In m ns.
Proof. induction ns as [|n r IH]; simpl; [tauto|]. destruct (k n); [now right|]. intros [->|H]; [now left | right; auto]. Qed.

Lemma node_is_outs o m : node_is o m = true -> n_outs m = [o].
Proof. unfold node_is. destruct (n_outs m) as [|y [|]]; try discriminate. intro H. apply Nat.eqb_eq in H. now subst. Qed.

Lemma defs_subst old new ns : defs (map (subst_node old new) ns) = defs ns.
Proof. unfold defs. induction ns as [|n r IH]; simpl; auto. now rewrite IH. Qed.

Lemma uses_subst_neq old new ns m y : new <> old -> In m (map (subst_node old new) ns) -> In y (n_uses m) -> y <> old.
Proof.
  intros Hne Hm Hy. apply in_map_iff in Hm as (m0 & <- & _). rewrite n_uses_subst in Hy.
  apply in_map_iff in Hy as (y0 & <- & _). now apply rn_neq.
Qed.

Lemma outs_subst_neq old new outs y : new <> old -> In y (map (rn old new) outs) -> y <> old.
Proof. intros Hne Hy. apply in_map_iff in Hy as (y0 & <- & _). now apply rn_neq. Qed.

Lemma NoDup_defs_remove_first k ns : NoDup (defs ns) -> NoDup (defs (remove_first k ns)).
Proof.
  unfold defs. induction ns as [|n r IH]; simpl; intro H; auto.
  destruct (k n); [eapply NoDup_app_r; eauto|]. simpl.
  assert (Hincl : forall y, In y (flat_map n_outs (remove_first k r)) -> In y (flat_map n_outs r)).
  { intros y Hy. apply in_flat_map in Hy as (m & Hm & Hy). apply in_flat_map. exists m. split; auto. now apply (In_remove_first k r m). }
  revert H. generalize (n_outs n) as l. induction l as [|a l IHl]; simpl; intro H; [apply IH; exact H|].
  inversion H as [|? ? Hni Hnd]; subst. constructor; [|now apply IHl].
  intro Hin. apply Hni. apply in_app_or in Hin as [Hin|Hin]; apply in_or_app; [now left | right; now apply Hincl].
Qed.

Lemma defs_remove_first_incl k ns y : In y (defs (remove_first k ns)) -> In y (defs ns).
Proof.
  unfold defs. intro Hy. apply in_flat_map in Hy as (m & Hm & Hy). apply in_flat_map. exists m. split; auto.
  now apply (In_remove_first k ns m).
Qed.

Section Redirect.
  Variable V : Type.
  Variable veq : V -> V -> Prop.
  Hypothesis veq_refl : forall a, veq a a.
  Hypothesis veq_sym : forall a b, veq a b -> veq b a.
  Hypothesis veq_trans : forall a b c, veq a b -> veq b c -> veq a c.
  Variable sem : string -> list nat -> list V -> option (list V).
  Hypothesis sem_proper : forall op ats vs vs' o, Forall2 veq vs vs' -> sem op ats vs = Some o ->
    exists o', sem op ats vs' = Some o' /\ Forall2 veq o o'.
  Notation refinesg := (refines V veq sem).
  Notation evalg := (eval V sem).

  Lemma refines_refl g e : refinesg g g e.
  Proof. intros out Hrun. exists out. split; auto. clear - veq_refl. induction out; constructor; auto. Qed.

  (* removing the node that defines [o] from a graph in which nothing mentions [o] any more *)
  Lemma remove_unmentioned ns outs o e :
    NoDup (defs ns) ->
    (forall m y, In m ns -> In y (n_uses m) -> y <> o) -> (forall y, In y outs -> y <> o) ->
    refinesg (mkGraph ns outs) (mkGraph (remove_first (node_is o) ns) outs) e.
  Proof.
    intros Hnd Huses Houts.
    destruct (existsb (node_is o) ns) eqn:Ex.
    - apply existsb_exists in Ex as (n & Hin & Hk).
      assert (Hsplit : exists pre post n0, ns = pre ++ n0 :: post /\ node_is o n0 = true /\ forall m, In m pre -> node_is o m = false).
      { clear - Hin Hk. induction ns as [|m r IH]; [contradiction|].
        destruct (node_is o m) eqn:Em.
        - exists [], r, m. repeat split; auto. intros ? [].
        - destruct Hin as [->|Hin]; [congruence|]. destruct (IH Hin) as (pre & post & n0 & -> & Hn0 & Hp).
          exists (m :: pre), post, n0. repeat split; auto. intros m' [<-|H]; auto. }
      destruct Hsplit as (pre & post & n0 & -> & Hn0 & Hp).
      rewrite (remove_first_split _ _ _ _ Hn0 Hp).
      pose proof (node_is_outs _ _ Hn0) as Ho.
      apply (remove_node_sound V veq veq_refl sem pre n0 post outs e).
      + intros m y Hm Hy. rewrite Ho. intros [E|[]].
        assert (Hm' : In m (pre ++ n0 :: post)) by (apply in_or_app; right; now right).
        apply (Huses m y Hm' Hy). now symmetry.
      + intros y Hy. rewrite Ho. intros [E|[]]. apply (Houts y Hy). now symmetry.
    - assert (Hnone : forall m, In m ns -> node_is o m = false).
      { intros m Hm. destruct (node_is o m) eqn:E; auto.
        assert (existsb (node_is o) ns = true) by (apply existsb_exists; eauto). congruence. }
      rewrite (remove_first_none _ _ Hnone). apply refines_refl.
  Qed.

  (* THE generic rewrite: redirect every use of o (node inputs, nested captures, graph outputs) to x, then
     delete o's producer *)
  Theorem redirect_remove_sound g e o x :
    ssa V (g_nodes g) e -> x <> o ->
    (forall ef a, evalg (g_nodes g) e = Some ef -> ef o = Some a -> exists b, ef x = Some b /\ veq a b) ->
    avail_before V sem (g_nodes g) e x o ->
    refinesg g (redirect_remove o x g) e.
  Proof.
    intros Hssa Hne Hfin Hav.
    eapply (refines_trans V veq veq_trans sem).
    - intros out Hrun.
      assert (Hev : exists ef, evalg (g_nodes g) e = Some ef).
      { unfold run in Hrun. destruct (evalg (g_nodes g) e); [eauto|discriminate]. }
      destruct Hev as [ef Hev].
      refine (replace_all_uses_sound V veq veq_refl veq_sym veq_trans sem sem_proper o x g e _ out Hrun).
      apply (prefix_inv_from_final V veq sem o x (g_nodes g) e ef Hssa Hev); auto.
      intros a Ha. eapply Hfin; eauto.
    - unfold redirect_remove, replace_all_uses. apply remove_unmentioned.
      + rewrite defs_subst. exact (proj1 Hssa).
      + intros m y Hm Hy. exact (uses_subst_neq o x (g_nodes g) m y Hne Hm Hy).
      + intros y Hy. exact (outs_subst_neq o x (g_outputs g) y Hne Hy).
  Qed.

  (* common case: x is read by o's producer *)
  Corollary redirect_remove_producer_sound g e n o x :
    ssa V (g_nodes g) e -> x <> o -> In n (g_nodes g) -> In x (n_uses n) -> In o (n_outs n) ->
    (forall ef a, evalg (g_nodes g) e = Some ef -> ef o = Some a -> exists b, ef x = Some b /\ veq a b) ->
    refinesg g (redirect_remove o x g) e.
  Proof.
    intros Hssa Hne Hn Hx Ho Hfin. apply redirect_remove_sound; auto.
    eapply avail_from_producer; eauto.
  Qed.

  (* SSA is preserved by the rewrite, so passes iterate *)
  Lemma redirect_remove_ssa g e o x : ssa V (g_nodes g) e -> ssa V (g_nodes (redirect_remove o x g)) e.
  Proof.
    intros [Hnd Hfree]. split; simpl.
    - apply NoDup_defs_remove_first. rewrite defs_subst. exact Hnd.
    - intros y Hy. apply Hfree. apply defs_remove_first_incl in Hy. now rewrite defs_subst in Hy.
  Qed.
End Redirect.
