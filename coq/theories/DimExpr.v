(* C04: JAX dimension expressions, their lowering to ONNX int64 arithmetic by
   jax2onnx/converter/lower_dimexpr.py (LowerDimExpr, including its cache keyed by printed forms)
   and by jax2onnx/plugins/jax/core/dim_as_value.py (DimAsValuePlugin's three routes).

   Model conventions
   * jax._src.export.shape_poly: _DimExpr = sum of coeff * term (list of (term, coeff), as stored in
     `_sorted_terms`), _DimTerm = product of factor ^ power (`_factors`, power >= 1),
     _DimFactor = variable | operation(floordiv|mod|max|min) applied to two _DimExpr operands.
     A `term` lists its factors in the order `str(term)` prints them (`sorted(self._factors)`);
     JAX stores `_factors` in the reverse (descending) order and that stored order is the one
     `_lower_term` multiplies in (`lower_factors` below recurses to the tail first).  The harness
     checks stored = reverse(printed) on every expression.
   * printed forms (`str(...)`) are modelled as TOKEN lists: identifiers and integers are atomic
     tokens.  Two Python strings built by the `__str__` methods are equal iff their token lists are
     (spacing is a function of the neighbouring tokens; the harness ties `show` to Python's `str`).
   * the emitted ONNX graph is a list of nodes over int64 values of shape (1,); `vals` evaluates it
     in Z (ideal), `vals64` with two's-complement wrap-around; they agree when no node overflows. *)
From Coq Require Import ZArith String List Bool Lia Arith.
Import ListNotations.
Local Open Scope Z_scope.

Ltac Zify.zify_post_hook ::= Z.to_euclidean_division_equations.

(* ================================================================== 1. expressions *)
Definition sym := string.
Inductive dimop := OFloordiv | OMod | OMax | OMin.

Inductive factor :=
| FVar (s : sym)
| FOp (o : dimop) (a b : list (list (factor * positive) * Z)).
Definition term := list (factor * positive).
Definition expr := list (term * Z).

(* JAX's integer semantics (_DimFactor.evaluate): Python divmod: floor division, remainder with the
   sign of the divisor; max/min. *)
Definition apply_op (o : dimop) (x y : Z) : Z :=
  match o with OFloordiv => x / y | OMod => x mod y | OMax => Z.max x y | OMin => Z.min x y end.

Definition denote_term_with (df : factor -> Z) (t : term) : Z :=
  fold_right (fun fp acc => df (fst fp) ^ Zpos (snd fp) * acc) 1 t.
Definition denote_expr_with (df : factor -> Z) (e : expr) : Z :=
  fold_right (fun tc acc => denote_term_with df (fst tc) * snd tc + acc) 0 e.

Fixpoint denote_f (rho : sym -> Z) (f : factor) : Z :=
  match f with
  | FVar s => rho s
  | FOp o a b => apply_op o (denote_expr_with (denote_f rho) a) (denote_expr_with (denote_f rho) b)
  end.
Definition denote_term rho := denote_term_with (denote_f rho).
Definition denote rho : expr -> Z := denote_expr_with (denote_f rho).

(* nested induction principle *)
Section FactorInd.
  Variable P : factor -> Prop.
  Definition term_all (t : term) := Forall (fun fp => P (fst fp)) t.
  Definition expr_all (e : expr) := Forall (fun tc => term_all (fst tc)) e.
  Hypothesis Hv : forall s, P (FVar s).
  Hypothesis Ho : forall o a b, expr_all a -> expr_all b -> P (FOp o a b).
  Fixpoint factor_ind2 (f : factor) : P f :=
    match f with
    | FVar s => Hv s
    | FOp o a b =>
      let ta := fix ta (t : term) : term_all t :=
        match t with
        | [] => Forall_nil _
        | fp :: r => Forall_cons fp (factor_ind2 (fst fp)) (ta r)
        end in
      let ea := fix ea (e : expr) : expr_all e :=
        match e with
        | [] => Forall_nil _
        | tc :: r => Forall_cons tc (ta (fst tc)) (ea r)
        end in
      Ho o a b (ea a) (ea b)
    end.
End FactorInd.

(* ================================================================== 2. printed forms *)
Inductive tok :=
| TId (s : string) | TNum (z : Z) | TOp (o : dimop)
| TLP | TRP | TComma | TPlus | TMinus | TStar | TCaret | THash.

Definition print_term_with (pf : factor -> list tok) : term -> list tok :=
  fix pt (t : term) : list tok :=
    match t with
    | [] => []
    | fp :: r =>
      let me := pf (fst fp) ++ (if (snd fp =? 1)%positive then [] else [TCaret; TNum (Zpos (snd fp))]) in
      match r with [] => me | _ => me ++ TStar :: pt r end
    end.

(* _DimExpr.__str__._one_term, with the leading "+ " stripped for the first term *)
Definition print_tc_with (pf : factor -> list tok) (first : bool) (tc : term * Z) : list tok :=
  let '(t, c) := tc in
  match t with
  | [] => if c =? 0 then [TNum 0]
          else (if 0 <? c then (if first then [] else [TPlus]) else [TMinus]) ++ [TNum (Z.abs c)]
  | _ => (if 0 <? c then (if first then [] else [TPlus]) else [TMinus]) ++
         (if Z.abs c =? 1 then print_term_with pf t else TNum (Z.abs c) :: TStar :: print_term_with pf t)
  end.

Definition print_rest_with (pf : factor -> list tok) : expr -> list tok :=
  fix pr (e : expr) : list tok :=
    match e with [] => [] | tc :: r => print_tc_with pf false tc ++ pr r end.
Definition print_expr_with (pf : factor -> list tok) (e : expr) : list tok :=
  match e with [] => [] | tc :: r => print_tc_with pf true tc ++ print_rest_with pf r end.

Fixpoint print_f (f : factor) : list tok :=
  match f with
  | FVar s => [TId s]
  | FOp o a b => TOp o :: TLP :: print_expr_with print_f a ++ TComma :: print_expr_with print_f b ++ [TRP]
  end.
Definition print_term := print_term_with print_f.
Definition print_expr := print_expr_with print_f.

(* ================================================================== 3. the ONNX side *)
Inductive binop := BAdd | BSub | BMul | BDiv | BMod | BPow | BMax | BMin.
Inductive onode :=
| NDim (src : nat) (axis : nat)     (* LowerDimExpr._get_dim_value: Shape(src, start=axis, end=axis+1) *)
| NDimG (src : nat) (axis : nat)    (* DimAsValuePlugin origin route: Gather(Shape(src), [axis]) *)
| NConst (z : Z)                    (* int64 initializer [z] *)
| NBin (op : binop) (a b : nat).    (* value ids = positions in the node list *)

(* ONNX int64: Div truncates toward zero; Mod with fmod=0 takes the sign of the divisor;
   Pow with a non-negative exponent; all in ideal integers here *)
Definition eval_bin (op : binop) (x y : Z) : Z :=
  match op with
  | BAdd => x + y | BSub => x - y | BMul => x * y
  | BDiv => Z.quot x y | BMod => x mod y | BPow => x ^ y
  | BMax => Z.max x y | BMin => Z.min x y
  end.

Definition wrap64 (z : Z) : Z := (z + 2 ^ 63) mod 2 ^ 64 - 2 ^ 63.
Definition in64 (z : Z) : Prop := - 2 ^ 63 <= z < 2 ^ 63.
Definition in64b (z : Z) : bool := (- 2 ^ 63 <=? z) && (z <? 2 ^ 63).

Section Eval.
  Variable shapes : nat -> list Z.          (* run-time shape of each shape source *)
  Definition eval_node (acc : list Z) (n : onode) : Z :=
    match n with
    | NDim i ax | NDimG i ax => nth ax (shapes i) 0
    | NConst z => z
    | NBin op a b => eval_bin op (nth a acc 0) (nth b acc 0)
    end.
  Definition vals (ns : list onode) : list Z :=
    fold_left (fun acc n => acc ++ [eval_node acc n]) ns [].
  Definition vals64 (ns : list onode) : list Z :=
    fold_left (fun acc n => acc ++ [wrap64 (eval_node acc n)]) ns [].
End Eval.

(* ================================================================== 4. cache keys *)
Inductive kind := KDim | KOp | KFactor | KTerm | KTc | KExpr.
Inductive key :=
| KInt (z : Z)                                  (* a Python int used as dict key *)
| KStr (ns : option kind) (t : list tok).       (* a Python str; ns = Some k for namespaced keys *)

Record config := { ns_keys : bool;      (* cache keys carry the node kind *)
                   floor_div : bool }.  (* floordiv lowered with floor semantics *)
Definition cfg_current := {| ns_keys := false; floor_div := false |}.
Definition cfg_fixed := {| ns_keys := true; floor_div := true |}.

(* what the cache stores: one entry per node kind of the lowering *)
Inductive cnode :=
| CVar (s : sym)                 (* _get_dim_value(name)           key  name                  *)
| CInt (z : Z)                   (* _get_scalar(z)                 key  z (int)               *)
| COp (o : dimop) (a b : expr)   (* _lower_op(name, operands)      key  f"{name}#{operands}"  *)
| CFp (f : factor) (p : positive)(* _lower_factor((f, p))          key  str((f, p))           *)
| CTerm (t : term)               (* _lower_term(t)                 key  str(t)                *)
| CTc (t : term) (c : Z)         (* _lower_term_with_mult((t, c))  key  str((t, c))           *)
| CExpr (e : expr).              (* _lower_expr(e)                 key  str(e)                *)

Definition mk (cfg : config) (k : kind) (t : list tok) : key :=
  KStr (if ns_keys cfg then Some k else None) t.

Definition ckey (cfg : config) (n : cnode) : key :=
  match n with
  | CVar s => mk cfg KDim [TId s]
  | CInt z => KInt z
  | COp o a b => mk cfg KOp (TOp o :: THash :: TLP :: print_expr a ++ TComma :: print_expr b ++ [TRP])
  | CFp f p => mk cfg KFactor (TLP :: print_f f ++ [TComma; TNum (Zpos p); TRP])
  | CTerm t => mk cfg KTerm (print_term t)
  | CTc t c => mk cfg KTc (TLP :: print_term t ++ [TComma; TNum c; TRP])
  | CExpr e => mk cfg KExpr (print_expr e)
  end.

Definition cdenote (rho : sym -> Z) (n : cnode) : Z :=
  match n with
  | CVar s => rho s
  | CInt z => z
  | COp o a b => apply_op o (denote rho a) (denote rho b)
  | CFp f p => denote_f rho f ^ Zpos p
  | CTerm t => denote_term rho t
  | CTc t c => denote_term rho t * c
  | CExpr e => denote rho e
  end.

(* decidable equality of keys *)
Definition dimop_eqb (a b : dimop) : bool :=
  match a, b with OFloordiv, OFloordiv | OMod, OMod | OMax, OMax | OMin, OMin => true | _, _ => false end.
Definition tok_eqb (a b : tok) : bool :=
  match a, b with
  | TId s, TId s' => String.eqb s s'
  | TNum z, TNum z' => z =? z'
  | TOp o, TOp o' => dimop_eqb o o'
  | TLP, TLP | TRP, TRP | TComma, TComma | TPlus, TPlus | TMinus, TMinus
  | TStar, TStar | TCaret, TCaret | THash, THash => true
  | _, _ => false
  end.
Fixpoint toks_eqb (a b : list tok) : bool :=
  match a, b with
  | [], [] => true
  | x :: a', y :: b' => tok_eqb x y && toks_eqb a' b'
  | _, _ => false
  end.
Definition kind_eqb (a b : kind) : bool :=
  match a, b with
  | KDim, KDim | KOp, KOp | KFactor, KFactor | KTerm, KTerm | KTc, KTc | KExpr, KExpr => true
  | _, _ => false
  end.
Definition key_eqb (a b : key) : bool :=
  match a, b with
  | KInt z, KInt z' => z =? z'
  | KStr None t, KStr None t' => toks_eqb t t'
  | KStr (Some k) t, KStr (Some k') t' => kind_eqb k k' && toks_eqb t t'
  | _, _ => false
  end.

Lemma dimop_eqb_eq a b : dimop_eqb a b = true <-> a = b.
Proof. destruct a, b; simpl; split; congruence. Qed.
Lemma tok_eqb_eq a b : tok_eqb a b = true <-> a = b.
Proof.
  destruct a, b; simpl; split; intro H; try congruence; try reflexivity.
  - apply String.eqb_eq in H. congruence.
  - apply String.eqb_eq. congruence.
  - apply Z.eqb_eq in H. congruence.
  - apply Z.eqb_eq. congruence.
  - apply dimop_eqb_eq in H. congruence.
  - apply dimop_eqb_eq. congruence.
Qed.
Lemma toks_eqb_eq a : forall b, toks_eqb a b = true <-> a = b.
Proof.
  induction a as [|x a IH]; destruct b as [|y b]; simpl; split; intro H; try congruence; try reflexivity.
  - apply andb_true_iff in H as [H1 H2]. apply tok_eqb_eq in H1. apply IH in H2. congruence.
  - inversion H; subst. apply andb_true_iff. split; [now apply tok_eqb_eq | now apply IH].
Qed.
Lemma kind_eqb_eq a b : kind_eqb a b = true <-> a = b.
Proof. destruct a, b; simpl; split; congruence. Qed.
Lemma key_eqb_eq a b : key_eqb a b = true <-> a = b.
Proof.
  destruct a as [z|[k|] t], b as [z'|[k'|] t']; simpl; split; intro H; try congruence.
  - apply Z.eqb_eq in H. congruence.
  - apply Z.eqb_eq. congruence.
  - apply andb_true_iff in H as [H1 H2]. apply kind_eqb_eq in H1. apply toks_eqb_eq in H2. congruence.
  - inversion H; subst. apply andb_true_iff. split; [now apply kind_eqb_eq | now apply toks_eqb_eq].
  - apply toks_eqb_eq in H. congruence.
  - inversion H; subst. now apply toks_eqb_eq.
Qed.

(* ================================================================== 5. the lowering *)
Record lstate := { nodes : list onode; cache : list (key * nat) }.
Definition st0 : lstate := {| nodes := []; cache := [] |}.
Definition M (A : Type) := lstate -> option (A * lstate).
Definition ret {A} (x : A) : M A := fun st => Some (x, st).
Definition bind {A B} (m : M A) (f : A -> M B) : M B :=
  fun st => match m st with Some (x, st') => f x st' | None => None end.
Definition fail {A} : M A := fun _ => None.

Fixpoint lookup (k : key) (c : list (key * nat)) : option nat :=
  match c with [] => None | (k', v) :: r => if key_eqb k k' then Some v else lookup k r end.

Definition emit (n : onode) : M nat :=
  fun st => Some (length (nodes st), {| nodes := nodes st ++ [n]; cache := cache st |}).

(* `if key in self.compute_cache: return self.compute_cache[key]` ... `self.compute_cache[key] = v` *)
Definition cached (k : key) (m : M nat) : M nat :=
  fun st => match lookup k (cache st) with
            | Some v => Some (v, st)
            | None => match m st with
                      | Some (v, st') => Some (v, {| nodes := nodes st'; cache := (k, v) :: cache st' |})
                      | None => None
                      end
            end.

(* symbolic dimension origins: `_sym_origin_str[str(dim)] = (value, axis)` *)
Definition origins := list (list tok * (nat * nat)).
Fixpoint origin_of (og : origins) (t : list tok) : option (nat * nat) :=
  match og with [] => None | (t', o) :: r => if toks_eqb t t' then Some o else origin_of r t end.

Section Lower.
  Variable cfg : config.
  Variable og : origins.

  Definition get_scalar (z : Z) : M nat := cached (KInt z) (emit (NConst z)).

  Definition get_dim (s : sym) : M nat :=
    cached (ckey cfg (CVar s))
      (match origin_of og [TId s] with Some (i, ax) => emit (NDim i ax) | None => fail end).

  Definition convert_op (o : dimop) (va vb : nat) : M nat :=
    match o with
    | OFloordiv =>
      if floor_div cfg
      then bind (emit (NBin BMod va vb)) (fun m => bind (emit (NBin BSub va m)) (fun s => emit (NBin BDiv s vb)))
      else emit (NBin BDiv va vb)
    | OMod => emit (NBin BMod va vb)
    | OMax => emit (NBin BMax va vb)
    | OMin => emit (NBin BMin va vb)
    end.

  Section WithFactor.
    Variable lf : factor -> M nat.       (* _lower_factor's dispatch on var / operation *)

    Definition lower_fp (fp : factor * positive) : M nat :=
      cached (ckey cfg (CFp (fst fp) (snd fp)))
        (bind (lf (fst fp)) (fun v =>
           if (snd fp =? 1)%positive then ret v
           else bind (get_scalar (Zpos (snd fp))) (fun c => emit (NBin BPow v c)))).

    (* `for factor in term._factors` runs over the STORED order, which is the reverse of the order
       in which `str(term)` prints (`sorted(self._factors)`); `term` lists are in printed order *)
    Fixpoint lower_factors (l : term) : M (option nat) :=
      match l with
      | [] => ret None
      | fp :: r =>
        bind (lower_factors r) (fun acc =>
        bind (lower_fp fp) (fun v =>
          match acc with
          | None => ret (Some v)
          | Some a => bind (emit (NBin BMul a v)) (fun x => ret (Some x))
          end))
      end.

    Definition lower_term (t : term) : M nat :=
      cached (ckey cfg (CTerm t))
        (bind (lower_factors t) (fun o => match o with None => get_scalar 1 | Some v => ret v end)).

    Definition lower_tc (tc : term * Z) : M nat :=
      cached (ckey cfg (CTc (fst tc) (snd tc)))
        (match fst tc with
         | [] => get_scalar (snd tc)
         | _ => bind (lower_term (fst tc)) (fun v =>
                  if snd tc =? 1 then ret v
                  else bind (get_scalar (snd tc)) (fun c => emit (NBin BMul v c)))
         end).

    Fixpoint lower_tcs (acc : nat) (l : expr) : M nat :=
      match l with
      | [] => ret acc
      | tc :: r => bind (lower_tc tc) (fun v => bind (emit (NBin BAdd acc v)) (fun acc' => lower_tcs acc' r))
      end.

    Definition lower_expr (e : expr) : M nat :=
      cached (ckey cfg (CExpr e))
        (match e with
         | [] => fail                        (* terms[0] raises IndexError *)
         | tc :: r => bind (lower_tc tc) (fun v => lower_tcs v r)
         end).
  End WithFactor.

  Fixpoint lower_f (f : factor) : M nat :=
    match f with
    | FVar s => get_dim s
    | FOp o a b =>
      cached (ckey cfg (COp o a b))
        (bind (lower_expr lower_f a) (fun va => bind (lower_expr lower_f b) (fun vb => convert_op o va vb)))
    end.

  Definition lower (e : expr) : M nat := lower_expr lower_f e.

  (* LowerDimExpr.__call__ on several expressions shares the cache *)
  Fixpoint lower_many (es : list expr) : M (list nat) :=
    match es with
    | [] => ret []
    | e :: r => bind (lower e) (fun v => bind (lower_many r) (fun vs => ret (v :: vs)))
    end.

  (* DimAsValuePlugin.lower: origin (Shape -> Gather), constant, lowerer; the trailing
     Reshape to a scalar does not change the value *)
  Definition const_value (e : expr) : option Z :=
    match print_expr e with [TNum c] => Some c | _ => None end.
  Definition dim_as_value (e : expr) : M nat :=
    match origin_of og (print_expr e) with
    | Some (i, ax) => emit (NDimG i ax)
    | None => match const_value e with
              | Some c => emit (NConst c)
              | None => lower e
              end
    end.
End Lower.

(* ================================================================== 6. arithmetic facts *)
Definition trunc_is_floor (a b : Z) : Prop := a mod b = 0 \/ 0 < a * b.
Lemma quot_eq_div_iff a b : b <> 0 -> (Z.quot a b = a / b <-> trunc_is_floor a b).
Proof.
  intro Hb. unfold trunc_is_floor. split.
  - intro E. timeout 20 nia.
  - intros [E|E]; timeout 20 nia.
Qed.
Definition trunc_is_floorb (a b : Z) : bool := (a mod b =? 0) || (0 <? a * b).
Lemma trunc_is_floorb_true a b : trunc_is_floorb a b = true <-> trunc_is_floor a b.
Proof. unfold trunc_is_floorb, trunc_is_floor. rewrite orb_true_iff, Z.eqb_eq, Z.ltb_lt. tauto. Qed.
(* the repaired lowering of floordiv: Div(Sub(a, Mod(a, b)), b) is floor division *)
Lemma floor_via_mod a b : b <> 0 -> Z.quot (a - a mod b) b = a / b.
Proof. intro Hb. timeout 20 nia. Qed.
Lemma wrap64_id z : in64 z -> wrap64 z = z.
Proof.
  unfold in64, wrap64. intro H. change (2 ^ 64) with (2 * 2 ^ 63).
  rewrite Z.mod_small by lia. lia.
Qed.
Lemma in64b_true z : in64b z = true <-> in64 z.
Proof. unfold in64b, in64. rewrite andb_true_iff, Z.leb_le, Z.ltb_lt. tauto. Qed.

(* ================================================================== 7. evaluation of node lists *)
Section EvalFacts.
  Variable shapes : nat -> list Z.

  Lemma vals_snoc ns n : vals shapes (ns ++ [n]) = vals shapes ns ++ [eval_node shapes (vals shapes ns) n].
  Proof. unfold vals. now rewrite fold_left_app. Qed.
  Lemma vals64_snoc ns n : vals64 shapes (ns ++ [n]) = vals64 shapes ns ++ [wrap64 (eval_node shapes (vals64 shapes ns) n)].
  Proof. unfold vals64. now rewrite fold_left_app. Qed.
  Lemma vals_length ns : length (vals shapes ns) = length ns.
  Proof.
    induction ns as [|n ns IH] using rev_ind; [reflexivity|].
    rewrite vals_snoc, !app_length, IH. reflexivity.
  Qed.
  Lemma vals_app_nth ns ms v : (v < length ns)%nat -> nth v (vals shapes (ns ++ ms)) 0 = nth v (vals shapes ns) 0.
  Proof.
    intro Hv. induction ms as [|m ms IH] using rev_ind.
    - now rewrite app_nil_r.
    - rewrite app_assoc, vals_snoc, app_nth1; [exact IH|].
      rewrite vals_length, app_length. lia.
  Qed.
  Lemma vals_nth_snoc ns n : nth (length ns) (vals shapes (ns ++ [n])) 0 = eval_node shapes (vals shapes ns) n.
  Proof. rewrite vals_snoc, app_nth2; rewrite vals_length; [|lia]. now rewrite Nat.sub_diag. Qed.

  (* wrap-around evaluation agrees with the ideal one as long as no node value leaves int64 *)
  Lemma vals64_eq ns : Forall in64 (vals shapes ns) -> vals64 shapes ns = vals shapes ns.
  Proof.
    induction ns as [|n ns IH] using rev_ind; [reflexivity|].
    rewrite vals_snoc, vals64_snoc. intro H. apply Forall_app in H as [H1 H2].
    rewrite IH by exact H1. f_equal. f_equal. apply wrap64_id. now inversion H2.
  Qed.
End EvalFacts.

(* ================================================================== 8. printing is injective *)
Definition hd_ok (bad : tok -> bool) (r : list tok) : Prop :=
  match r with [] => True | x :: _ => bad x = false end.
Definition bad_fp (x : tok) : bool := match x with TCaret => true | _ => false end.
Definition bad_term (x : tok) : bool :=
  match x with TStar | TCaret | TId _ | TOp _ => true | _ => false end.
Definition closer (r : list tok) : Prop :=
  match r with [] => True | TComma :: _ => True | TRP :: _ => True | _ => False end.

Lemma closer_term r : closer r -> hd_ok bad_term r.
Proof. destruct r as [|[] r]; simpl; intuition. Qed.
Lemma hd_term_fp r : hd_ok bad_term r -> hd_ok bad_fp r.
Proof. destruct r as [|[] r]; simpl; intuition; discriminate. Qed.

Definition pow_suffix (p : positive) : list tok :=
  if (p =? 1)%positive then [] else [TCaret; TNum (Zpos p)].
Definition print_fp (fp : factor * positive) : list tok := print_f (fst fp) ++ pow_suffix (snd fp).
Definition star_rest (r : term) : list tok := match r with [] => [] | _ => TStar :: print_term r end.

Lemma print_term_cons fp r : print_term (fp :: r) = print_fp fp ++ star_rest r.
Proof. unfold print_term, print_fp, star_rest, pow_suffix. simpl. destruct r; [now rewrite app_nil_r|reflexivity]. Qed.

Lemma print_f_head f : exists x l, print_f f = x :: l /\ bad_term x = true /\ x <> TStar /\ x <> TCaret.
Proof. destruct f; simpl; eexists; eexists; (split; [reflexivity|]); repeat split; discriminate. Qed.

Definition Pinj (f : factor) : Prop :=
  forall f2 r1 r2, print_f f ++ r1 = print_f f2 ++ r2 -> f = f2 /\ r1 = r2.

Lemma print_fp_inj fp1 : Pinj (fst fp1) -> forall fp2 r1 r2, hd_ok bad_fp r1 -> hd_ok bad_fp r2 ->
  print_fp fp1 ++ r1 = print_fp fp2 ++ r2 -> fp1 = fp2 /\ r1 = r2.
Proof.
  destruct fp1 as [f1 p1]. intros HP [f2 p2] r1 r2 H1 H2. unfold print_fp; simpl in *.
  rewrite <- !app_assoc. intro E. apply HP in E as [-> E]. unfold pow_suffix in E.
  destruct (p1 =? 1)%positive eqn:E1; destruct (p2 =? 1)%positive eqn:E2; simpl in E.
  - apply Pos.eqb_eq in E1, E2. subst. auto.
  - subst r1. simpl in H1. discriminate.
  - subst r2. simpl in H2. discriminate.
  - injection E as E E'. subst. auto.
Qed.

Lemma print_term_inj t1 : term_all Pinj t1 -> forall t2 r1 r2, hd_ok bad_term r1 -> hd_ok bad_term r2 ->
  print_term t1 ++ r1 = print_term t2 ++ r2 -> t1 = t2 /\ r1 = r2.
Proof.
  induction 1 as [|fp1 t1 HP Hr IH]; intros [|fp2 t2] r1 r2 H1 H2.
  - simpl. auto.
  - rewrite print_term_cons. unfold print_fp. destruct (print_f_head (fst fp2)) as (x & l & -> & B & _).
    simpl. intros ->. simpl in H1. congruence.
  - rewrite print_term_cons. unfold print_fp. destruct (print_f_head (fst fp1)) as (x & l & -> & B & _).
    simpl. intros <-. simpl in H2. congruence.
  - rewrite !print_term_cons, <- !app_assoc. intro E.
    assert (G : forall (t : term) r, hd_ok bad_term r -> hd_ok bad_fp (star_rest t ++ r)).
    { intros [|? ?] r Hr'; simpl; [now apply hd_term_fp|reflexivity]. }
    apply (print_fp_inj fp1 HP) in E as [-> E]; auto.
    destruct t1 as [|a t1]; destruct t2 as [|b t2]; unfold star_rest in E; cbn [app] in E.
    + auto.
    + subst r1. simpl in H1. discriminate.
    + subst r2. simpl in H2. discriminate.
    + assert (E' : print_term (a :: t1) ++ r1 = print_term (b :: t2) ++ r2) by (injection E; intro h; exact h).
      apply IH in E' as [E' ->]; auto. now rewrite E'.
Qed.

(* one (term, coeff) pair *)
Notation print_tc := (print_tc_with print_f).
Definition sign_toks (first : bool) (c : Z) : list tok :=
  if 0 <? c then (if first then [] else [TPlus]) else [TMinus].
Definition const_body (first : bool) (c : Z) : list tok :=
  if c =? 0 then [TNum 0] else sign_toks first c ++ [TNum (Z.abs c)].
Definition nc_body (first : bool) (c : Z) (P : list tok) : list tok :=
  sign_toks first c ++ (if Z.abs c =? 1 then P else TNum (Z.abs c) :: TStar :: P).
Definition starts_bad (P : list tok) : Prop := exists x l, P = x :: l /\ bad_term x = true.

Lemma print_tc_const first c : print_tc first ([], c) = const_body first c.
Proof. reflexivity. Qed.
Lemma print_tc_nc first fp t c : print_tc first (fp :: t, c) = nc_body first c (print_term (fp :: t)).
Proof. reflexivity. Qed.
Lemma print_term_starts fp t : starts_bad (print_term (fp :: t)).
Proof.
  rewrite print_term_cons. unfold print_fp. destruct (print_f_head (fst fp)) as (x & l & -> & B & _).
  exists x. eexists. split; [reflexivity|exact B].
Qed.

Lemma const_inj first c1 c2 r1 r2 : hd_ok bad_term r1 -> hd_ok bad_term r2 ->
  const_body first c1 ++ r1 = const_body first c2 ++ r2 -> c1 = c2 /\ r1 = r2.
Proof.
  unfold const_body, sign_toks. intros H1 H2.
  destruct (c1 =? 0) eqn:Z1; destruct (c2 =? 0) eqn:Z2;
  destruct (0 <? c1) eqn:S1; destruct (0 <? c2) eqn:S2; destruct first; simpl; intro E;
  injection E; intros; subst; try discriminate; split; auto; lia.
Qed.

Lemma const_nc_absurd first c1 c2 P r1 r2 : starts_bad P -> hd_ok bad_term r1 ->
  const_body first c1 ++ r1 = nc_body first c2 P ++ r2 -> False.
Proof.
  unfold const_body, nc_body, sign_toks. intros (x & l & -> & B) H1.
  destruct (c1 =? 0) eqn:Z1; destruct (0 <? c1) eqn:S1; destruct (0 <? c2) eqn:S2;
  destruct (Z.abs c2 =? 1) eqn:A2; destruct first; simpl; intro E;
  injection E; intros; subst; simpl in *; try discriminate; try congruence; try lia.
Qed.

Lemma nc_inj first c1 c2 P1 P2 r1 r2 : starts_bad P1 -> starts_bad P2 ->
  nc_body first c1 P1 ++ r1 = nc_body first c2 P2 ++ r2 -> c1 = c2 /\ P1 ++ r1 = P2 ++ r2.
Proof.
  unfold nc_body, sign_toks. intros (x1 & l1 & -> & B1) (x2 & l2 & -> & B2).
  destruct (0 <? c1) eqn:S1; destruct (0 <? c2) eqn:S2;
  destruct (Z.abs c1 =? 1) eqn:A1; destruct (Z.abs c2 =? 1) eqn:A2; destruct first; simpl; intro E;
  injection E; intros; subst; simpl in *; try discriminate; split; try congruence; lia.
Qed.

Lemma print_tc_inj tc1 : term_all Pinj (fst tc1) -> forall first tc2 r1 r2,
  hd_ok bad_term r1 -> hd_ok bad_term r2 ->
  print_tc first tc1 ++ r1 = print_tc first tc2 ++ r2 -> tc1 = tc2 /\ r1 = r2.
Proof.
  destruct tc1 as [t1 c1]. cbn [fst]. intros HP first [t2 c2] r1 r2 H1 H2.
  destruct t1 as [|fa t1]; destruct t2 as [|fb t2].
  - rewrite !print_tc_const. intro E. apply const_inj in E as [-> ->]; auto.
  - rewrite print_tc_const, print_tc_nc. intro E. exfalso.
    eapply const_nc_absurd; [apply print_term_starts | exact H1 | exact E].
  - rewrite print_tc_const, print_tc_nc. intro E. exfalso. symmetry in E.
    eapply const_nc_absurd; [apply print_term_starts | exact H2 | exact E].
  - rewrite !print_tc_nc. intro E. apply nc_inj in E as [-> E]; try apply print_term_starts.
    apply print_term_inj in E as [-> ->]; auto.
Qed.

Notation print_rest := (print_rest_with print_f).
Lemma print_rest_cons tc r : print_rest (tc :: r) = print_tc false tc ++ print_rest r.
Proof. reflexivity. Qed.
Lemma print_expr_cons tc r : print_expr (tc :: r) = print_tc true tc ++ print_rest r.
Proof. reflexivity. Qed.

(* a printed (term, coeff) is never empty and never starts like a closer; after the first
   position it starts with + - or a number *)
Lemma print_tc_head first tc : exists x l, print_tc first tc = x :: l /\
  x <> TComma /\ x <> TRP /\ (first = false -> bad_term x = false).
Proof.
  destruct tc as [[|fp t] c].
  - rewrite print_tc_const. unfold const_body, sign_toks.
    destruct (c =? 0); destruct (0 <? c); destruct first; simpl; eexists; eexists;
      (split; [reflexivity|]); repeat split; try discriminate; auto.
  - rewrite print_tc_nc. destruct (print_term_starts fp t) as (x & l & -> & B).
    unfold nc_body, sign_toks.
    destruct (0 <? c); destruct (Z.abs c =? 1); destruct first; simpl; eexists; eexists;
      (split; [reflexivity|]); repeat split; try discriminate; auto;
      try (intro; subst; discriminate).
Qed.

Lemma rest_hd_ok e r : closer r -> hd_ok bad_term (print_rest e ++ r).
Proof.
  intro Hc. destruct e as [|tc e]; [now apply closer_term|].
  rewrite print_rest_cons. destruct (print_tc_head false tc) as (x & l & -> & _ & _ & B). simpl. auto.
Qed.

Lemma print_rest_inj e1 : expr_all Pinj e1 -> forall e2 r1 r2, closer r1 -> closer r2 ->
  print_rest e1 ++ r1 = print_rest e2 ++ r2 -> e1 = e2 /\ r1 = r2.
Proof.
  induction 1 as [|tc1 e1 HP Hr IH]; intros [|tc2 e2] r1 r2 H1 H2.
  - simpl. auto.
  - rewrite print_rest_cons. destruct (print_tc_head false tc2) as (x & l & -> & N1 & N2 & _).
    simpl. intros ->. exfalso. destruct x; simpl in H1; try contradiction; congruence.
  - rewrite print_rest_cons. destruct (print_tc_head false tc1) as (x & l & -> & N1 & N2 & _).
    simpl. intros <-. exfalso. destruct x; simpl in H2; try contradiction; congruence.
  - rewrite !print_rest_cons, <- !app_assoc. intro E.
    apply (print_tc_inj tc1 HP) in E as [-> E]; try (apply rest_hd_ok; assumption).
    apply IH in E as [-> ->]; auto.
Qed.

Lemma print_expr_inj_gen e1 : expr_all Pinj e1 -> forall e2 r1 r2, closer r1 -> closer r2 ->
  print_expr e1 ++ r1 = print_expr e2 ++ r2 -> e1 = e2 /\ r1 = r2.
Proof.
  intros HP [|tc2 e2] r1 r2 H1 H2; destruct e1 as [|tc1 e1].
  - simpl. auto.
  - rewrite print_expr_cons. destruct (print_tc_head true tc1) as (x & l & -> & N1 & N2 & _).
    simpl. intros <-. exfalso. destruct x; simpl in H2; try contradiction; congruence.
  - rewrite print_expr_cons. destruct (print_tc_head true tc2) as (x & l & -> & N1 & N2 & _).
    simpl. intros ->. exfalso. destruct x; simpl in H1; try contradiction; congruence.
  - rewrite !print_expr_cons, <- !app_assoc. intro E. inversion HP as [|? ? HP1 HPr]; subst.
    apply (print_tc_inj tc1 HP1) in E as [-> E]; try (apply rest_hd_ok; assumption).
    apply (print_rest_inj e1 HPr) in E as [-> ->]; auto.
Qed.

Lemma print_f_inj_gen : forall f, Pinj f.
Proof.
  apply factor_ind2.
  - intros s [s2|o2 a2 b2] r1 r2; simpl; intro E; [|discriminate]. injection E as -> ->. auto.
  - intros o a b Ha Hb [s2|o2 a2 b2] r1 r2; cbn [print_f]; [simpl; discriminate|].
    cbn [app]. intro E. injection E as -> E. rewrite <- !app_assoc in E. cbn [app] in E.
    apply (print_expr_inj_gen a Ha) in E as [-> E]; simpl; auto.
    injection E as E. rewrite <- !app_assoc in E. cbn [app] in E.
    apply (print_expr_inj_gen b Hb) in E as [-> E]; simpl; auto.
    injection E as ->. auto.
Qed.

Lemma all_Pinj_term (t : term) : term_all Pinj t.
Proof. apply Forall_forall. intros fp _. apply print_f_inj_gen. Qed.
Lemma all_Pinj_expr (e : expr) : expr_all Pinj e.
Proof. apply Forall_forall. intros tc _. apply all_Pinj_term. Qed.

Theorem print_f_inj f1 f2 : print_f f1 = print_f f2 -> f1 = f2.
Proof.
  intro E. destruct (print_f_inj_gen f1 f2 [] []) as [H _]; [now rewrite E|exact H].
Qed.
Theorem print_term_injective t1 t2 : print_term t1 = print_term t2 -> t1 = t2.
Proof.
  intro E. destruct (print_term_inj t1 (all_Pinj_term t1) t2 [] []) as [H _]; simpl; auto. now rewrite E.
Qed.
Theorem print_expr_injective e1 e2 : print_expr e1 = print_expr e2 -> e1 = e2.
Proof.
  intro E. destruct (print_expr_inj_gen e1 (all_Pinj_expr e1) e2 [] []) as [H _]; simpl; auto. now rewrite E.
Qed.

(* ================================================================== 9. sub-nodes of an expression *)
Definition sub_fp (nf : factor -> list cnode) (fp : factor * positive) : list cnode :=
  CFp (fst fp) (snd fp) :: CInt (Zpos (snd fp)) :: nf (fst fp).
Definition sub_term nf (t : term) : list cnode := CTerm t :: CInt 1 :: flat_map (sub_fp nf) t.
Definition sub_tc nf (tc : term * Z) : list cnode := CTc (fst tc) (snd tc) :: CInt (snd tc) :: sub_term nf (fst tc).
Definition sub_expr nf (e : expr) : list cnode := CExpr e :: flat_map (sub_tc nf) e.
Fixpoint sub_f (f : factor) : list cnode :=
  match f with
  | FVar s => [CVar s]
  | FOp o a b => COp o a b :: sub_expr sub_f a ++ sub_expr sub_f b
  end.
Definition subnodes (e : expr) : list cnode := sub_expr sub_f e.

(* ================================================================== 10. correctness of the lowering,
   generic in the configuration, relative to a universe U of cache nodes on which keys are injective *)
Section Correct.
  Variable cfg : config.
  Variable og : origins.
  Variable rho : sym -> Z.
  Variable shapes : nat -> list Z.
  Variable U : cnode -> Prop.

  Definition goodn (ns : list onode) (v : nat) (d : Z) : Prop :=
    (v < length ns)%nat /\ nth v (vals shapes ns) 0 = d.
  Definition good (st : lstate) := goodn (nodes st).
  Definition ext (st st' : lstate) : Prop := exists ms, nodes st' = nodes st ++ ms.
  (* "every cached value denotes the node its key was built from" *)
  Definition cache_ok (st : lstate) : Prop :=
    forall k v, lookup k (cache st) = Some v ->
      exists n, U n /\ ckey cfg n = k /\ good st v (cdenote rho n).
  Definition key_inj : Prop :=
    forall n1 n2, U n1 -> U n2 -> ckey cfg n1 = ckey cfg n2 -> cdenote rho n1 = cdenote rho n2.
  (* JAX raises on division by zero; truncation must agree with floor when Div is used directly *)
  Definition op_ok (n : cnode) : Prop :=
    match n with
    | COp OFloordiv a b =>
      denote rho b <> 0 /\ (floor_div cfg = false -> trunc_is_floor (denote rho a) (denote rho b))
    | COp OMod a b => denote rho b <> 0
    | _ => True
    end.
  Definition origins_ok : Prop :=
    forall e i ax, origin_of og (print_expr e) = Some (i, ax) -> nth ax (shapes i) 0 = denote rho e.

  Hypothesis Hinj : key_inj.
  Hypothesis Hog : origins_ok.

  Definition spec (m : M nat) (d : Z) : Prop :=
    forall st v st', cache_ok st -> m st = Some (v, st') -> cache_ok st' /\ ext st st' /\ good st' v d.

  Lemma ext_refl st : ext st st. Proof. exists []. now rewrite app_nil_r. Qed.
  Lemma ext_trans a b c : ext a b -> ext b c -> ext a c.
  Proof. intros [m1 H1] [m2 H2]. exists (m1 ++ m2). now rewrite H2, H1, app_assoc. Qed.
  Lemma good_ext st st' v d : good st v d -> ext st st' -> good st' v d.
  Proof.
    intros [Hl Hv] [ms E]. unfold good, goodn. rewrite E, app_length. split; [lia|].
    now rewrite vals_app_nth.
  Qed.
  Lemma cache_ok_ext st st' : cache_ok st -> ext st st' -> cache st' = cache st -> cache_ok st'.
  Proof.
    intros H E C k v L. rewrite C in L. destruct (H k v L) as (n & Un & Kn & G).
    exists n. split; [exact Un|]. split; [exact Kn|]. eapply good_ext; eauto.
  Qed.

  Lemma emit_spec n st v st' : cache_ok st -> emit n st = Some (v, st') ->
    cache_ok st' /\ ext st st' /\ good st' v (eval_node shapes (vals shapes (nodes st)) n).
  Proof.
    unfold emit. intros H E. injection E as <- <-.
    assert (X : ext st {| nodes := nodes st ++ [n]; cache := cache st |}) by (exists [n]; reflexivity).
    split; [eapply cache_ok_ext; eauto|]. split; [exact X|].
    unfold good, goodn; simpl. rewrite app_length; simpl. split; [lia|]. apply vals_nth_snoc.
  Qed.

  Lemma cached_spec n m : U n -> spec m (cdenote rho n) -> spec (cached (ckey cfg n) m) (cdenote rho n).
  Proof.
    intros Un Hm st v st' Hc. unfold cached. destruct (lookup (ckey cfg n) (cache st)) as [v0|] eqn:L.
    - intro E. injection E as <- <-. split; [exact Hc|]. split; [apply ext_refl|].
      destruct (Hc _ _ L) as (n' & Un' & Kn' & G). now rewrite <- (Hinj n' n Un' Un Kn').
    - destruct (m st) as [[v1 st1]|] eqn:Em; [|discriminate]. intro E. injection E as <- <-.
      destruct (Hm _ _ _ Hc Em) as (Hc1 & X1 & G1).
      split; [|split; [destruct X1 as [ms E1]; exists ms; exact E1 | exact G1]].
      intros k v L'. simpl in L'. destruct (key_eqb k (ckey cfg n)) eqn:Ek.
      + injection L' as <-. apply key_eqb_eq in Ek. exists n. split; [exact Un|]. split; [now symmetry|exact G1].
      + destruct (Hc1 _ _ L') as (n' & ? & ? & ?). exists n'. split; [assumption|]. split; assumption.
  Qed.

  Lemma get_scalar_spec z : U (CInt z) -> spec (get_scalar z) z.
  Proof.
    intro Uz. apply (cached_spec (CInt z) _ Uz). intros st v st' Hc E.
    apply (emit_spec _ _ _ _ Hc E).
  Qed.

  Lemma get_dim_spec s : U (CVar s) -> spec (get_dim cfg og s) (rho s).
  Proof.
    intro Us. apply (cached_spec (CVar s) _ Us). intros st v st' Hc E.
    destruct (origin_of og [TId s]) as [[i ax]|] eqn:O; [|discriminate].
    destruct (emit_spec _ _ _ _ Hc E) as (A & B & C). split; [exact A|]. split; [exact B|].
    destruct C as [C0 C]. split; [exact C0|]. rewrite C. simpl.
    rewrite (Hog [([(FVar s, 1%positive)], 1)] i ax O).
    unfold denote. cbv [denote_expr_with denote_term_with fold_right fst snd denote_f].
    rewrite Z.pow_1_r. lia.
  Qed.

  Lemma emit_bin op a b da db st v st' :
    cache_ok st -> good st a da -> good st b db -> emit (NBin op a b) st = Some (v, st') ->
    cache_ok st' /\ ext st st' /\ good st' v (eval_bin op da db).
  Proof.
    intros Hc [_ Ga] [_ Gb] E. destruct (emit_spec _ _ _ _ Hc E) as (A & B & C).
    split; [exact A|]. split; [exact B|]. destruct C as [C0 C]. split; [exact C0|]. rewrite C. simpl.
    now rewrite Ga, Gb.
  Qed.

  Lemma convert_op_spec o a b va vb st v st' :
    op_ok (COp o a b) -> cache_ok st -> good st va (denote rho a) -> good st vb (denote rho b) ->
    convert_op cfg o va vb st = Some (v, st') ->
    cache_ok st' /\ ext st st' /\ good st' v (apply_op o (denote rho a) (denote rho b)).
  Proof.
    intros Hok Hc Ga Gb. destruct o; simpl; try (intro E; exact (emit_bin _ _ _ _ _ _ _ _ Hc Ga Gb E)).
    destruct Hok as [Hb Htr]. destruct (floor_div cfg) eqn:Efd.
    - unfold bind. destruct (emit (NBin BMod va vb) st) as [[m st1]|] eqn:E1; [|discriminate].
      destruct (emit_bin _ _ _ _ _ _ _ _ Hc Ga Gb E1) as (C1 & X1 & G1).
      destruct (emit (NBin BSub va m) st1) as [[s st2]|] eqn:E2; [|discriminate].
      destruct (emit_bin _ _ _ _ _ _ _ _ C1 (good_ext _ _ _ _ Ga X1) G1 E2) as (C2 & X2 & G2).
      intro E3.
      destruct (emit_bin _ _ _ _ _ _ _ _ C2 G2 (good_ext _ _ _ _ Gb (ext_trans _ _ _ X1 X2)) E3) as (C3 & X3 & G3).
      split; [exact C3|]. split; [eauto using ext_trans|].
      simpl in G3. now rewrite floor_via_mod in G3.
    - intro E. destruct (emit_bin _ _ _ _ _ _ _ _ Hc Ga Gb E) as (C1 & X1 & G1).
      split; [exact C1|]. split; [exact X1|]. destruct G1 as [G0 G1]. split; [exact G0|]. rewrite G1. simpl.
      apply quot_eq_div_iff; auto.
  Qed.

  Section WithFactor.
    Variable lf : factor -> M nat.
    Definition fp_hyp (fp : factor * positive) : Prop :=
      spec (lf (fst fp)) (denote_f rho (fst fp)) /\ U (CFp (fst fp) (snd fp)) /\ U (CInt (Zpos (snd fp))).
    Definition term_hyp (t : term) : Prop := Forall fp_hyp t /\ U (CTerm t) /\ U (CInt 1).
    Definition tc_hyp (tc : term * Z) : Prop :=
      term_hyp (fst tc) /\ U (CTc (fst tc) (snd tc)) /\ U (CInt (snd tc)).
    Definition expr_hyp (e : expr) : Prop := Forall tc_hyp e /\ U (CExpr e).

    Lemma lower_fp_spec fp : fp_hyp fp -> spec (lower_fp cfg lf fp) (denote_f rho (fst fp) ^ Zpos (snd fp)).
    Proof.
      intros (Hf & U1 & U2). apply (cached_spec (CFp (fst fp) (snd fp)) _ U1).
      intros st v st' Hc. unfold bind. destruct (lf (fst fp) st) as [[v1 st1]|] eqn:E1; [|discriminate].
      destruct (Hf _ _ _ Hc E1) as (C1 & X1 & G1). cbn [cdenote].
      destruct (snd fp =? 1)%positive eqn:Ep.
      - apply Pos.eqb_eq in Ep. rewrite Ep. unfold ret. intro E. injection E as <- <-.
        rewrite Z.pow_1_r. auto.
      - destruct (get_scalar (Z.pos (snd fp)) st1) as [[c st2]|] eqn:E2; [|discriminate].
        destruct (get_scalar_spec _ U2 _ _ _ C1 E2) as (C2 & X2 & G2). intro E3.
        destruct (emit_bin _ _ _ _ _ _ _ _ C2 (good_ext _ _ _ _ G1 X2) G2 E3) as (C3 & X3 & G3).
        split; [exact C3|]. split; [eauto using ext_trans|exact G3].
    Qed.

    Lemma lower_factors_spec l : Forall fp_hyp l -> forall st o st',
      cache_ok st -> lower_factors cfg lf l st = Some (o, st') ->
      cache_ok st' /\ ext st st' /\
      match o with None => l = [] | Some v => l <> [] /\ good st' v (denote_term rho l) end.
    Proof.
      induction 1 as [|fp r Hfp Hr IH]; intros st o st' Hc; simpl.
      - unfold ret. intro E. injection E as <- <-. split; auto. split; [apply ext_refl|reflexivity].
      - unfold bind. destruct (lower_factors cfg lf r st) as [[acc st1]|] eqn:E0; [|discriminate].
        destruct (IH _ _ _ Hc E0) as (C0 & X0 & G0).
        destruct (lower_fp cfg lf fp st1) as [[v1 st2]|] eqn:E1; [|discriminate].
        destruct (lower_fp_spec fp Hfp _ _ _ C0 E1) as (C1 & X1 & G1).
        destruct acc as [a|].
        + destruct G0 as [_ Ga].
          destruct (emit (NBin BMul a v1) st2) as [[x st3]|] eqn:E2; [|discriminate].
          destruct (emit_bin _ _ _ _ _ _ _ _ C1 (good_ext _ _ _ _ Ga X1) G1 E2) as (C2 & X2 & G2).
          unfold ret. intro E. injection E as <- <-. split; [exact C2|]. split; [eauto using ext_trans|].
          split; [discriminate|]. unfold denote_term in *; simpl in *. now rewrite Z.mul_comm.
        + unfold ret. intro E. injection E as <- <-. split; [exact C1|]. split; [eauto using ext_trans|].
          split; [discriminate|]. subst r. unfold denote_term; simpl. now rewrite Z.mul_1_r.
    Qed.

    Lemma lower_term_spec t : term_hyp t -> spec (lower_term cfg lf t) (denote_term rho t).
    Proof.
      intros (Hf & U1 & U2). apply (cached_spec (CTerm t) _ U1).
      intros st v st' Hc. unfold bind.
      destruct (lower_factors cfg lf t st) as [[o st1]|] eqn:E1; [|discriminate].
      destruct (lower_factors_spec t Hf _ _ _ Hc E1) as (C1 & X1 & G1).
      destruct o as [v1|].
      - unfold ret. intro E. injection E as <- <-. destruct G1 as [_ G1]. auto.
      - subst t. intro E2. destruct (get_scalar_spec 1 U2 _ _ _ C1 E2) as (C2 & X2 & G2).
        split; [exact C2|]. split; [eauto using ext_trans|exact G2].
    Qed.

    Lemma lower_tc_spec tc : tc_hyp tc -> spec (lower_tc cfg lf tc) (denote_term rho (fst tc) * snd tc).
    Proof.
      intros (Ht & U1 & U2). apply (cached_spec (CTc (fst tc) (snd tc)) _ U1). cbn [cdenote].
      destruct (fst tc) as [|fp r] eqn:Et.
      - replace (denote_term rho [] * snd tc) with (snd tc)
          by (unfold denote_term; cbn [denote_term_with fold_right]; lia).
        apply get_scalar_spec; exact U2.
      - rewrite <- Et in *. intros st v st' Hc. unfold bind.
        destruct (lower_term cfg lf (fst tc) st) as [[v1 st1]|] eqn:E1; [|discriminate].
        destruct (lower_term_spec _ Ht _ _ _ Hc E1) as (C1 & X1 & G1).
        destruct (snd tc =? 1) eqn:Ec.
        + apply Z.eqb_eq in Ec. rewrite Ec, Z.mul_1_r. unfold ret. intro E. injection E as <- <-. auto.
        + destruct (get_scalar (snd tc) st1) as [[c st2]|] eqn:E2; [|discriminate].
          destruct (get_scalar_spec _ U2 _ _ _ C1 E2) as (C2 & X2 & G2). intro E3.
          destruct (emit_bin _ _ _ _ _ _ _ _ C2 (good_ext _ _ _ _ G1 X2) G2 E3) as (C3 & X3 & G3).
          split; [exact C3|]. split; [eauto using ext_trans|exact G3].
    Qed.

    Lemma lower_tcs_spec l : Forall tc_hyp l -> forall acc dacc st v st',
      cache_ok st -> good st acc dacc -> lower_tcs cfg lf acc l st = Some (v, st') ->
      cache_ok st' /\ ext st st' /\ good st' v (dacc + denote rho l).
    Proof.
      induction 1 as [|tc r Htc Hr IH]; intros acc dacc st v st' Hc Ga; simpl.
      - unfold ret. intro E. injection E as <- <-. split; auto. split; [apply ext_refl|].
        unfold denote; simpl. now rewrite Z.add_0_r.
      - unfold bind. destruct (lower_tc cfg lf tc st) as [[v1 st1]|] eqn:E1; [|discriminate].
        destruct (lower_tc_spec tc Htc _ _ _ Hc E1) as (C1 & X1 & G1).
        destruct (emit (NBin BAdd acc v1) st1) as [[a2 st2]|] eqn:E2; [|discriminate].
        destruct (emit_bin _ _ _ _ _ _ _ _ C1 (good_ext _ _ _ _ Ga X1) G1 E2) as (C2 & X2 & G2).
        intro E3. destruct (IH _ _ _ _ _ C2 G2 E3) as (C3 & X3 & G3).
        split; [exact C3|]. split; [eauto using ext_trans|].
        unfold denote, denote_term in *; simpl in *. now rewrite Z.add_assoc.
    Qed.

    Lemma lower_expr_spec e : expr_hyp e -> spec (lower_expr cfg lf e) (denote rho e).
    Proof.
      intros (He & U1). apply (cached_spec (CExpr e) _ U1). destruct e as [|tc r].
      - intros st v st' _ E. discriminate.
      - intros st v st' Hc. unfold bind. inversion He as [|? ? Htc Hr]; subst.
        destruct (lower_tc cfg lf tc st) as [[v1 st1]|] eqn:E1; [|discriminate].
        destruct (lower_tc_spec tc Htc _ _ _ Hc E1) as (C1 & X1 & G1). intro E2.
        destruct (lower_tcs_spec r Hr _ _ _ _ _ C1 G1 E2) as (C2 & X2 & G2).
        split; [exact C2|]. split; [eauto using ext_trans|exact G2].
    Qed.
  End WithFactor.

  Definition V (n : cnode) : Prop := U n /\ op_ok n.
  Definition Pf (f : factor) : Prop :=
    (forall n, In n (sub_f f) -> V n) -> spec (lower_f cfg og f) (denote_f rho f).

  Lemma term_hyp_of_all t : term_all Pf t -> (forall n, In n (sub_term sub_f t) -> V n) ->
    term_hyp (lower_f cfg og) t.
  Proof.
    intros Ha Hu. split; [|split; apply Hu; simpl; auto].
    assert (Hu' : forall n, In n (flat_map (sub_fp sub_f) t) -> V n) by (intros; apply Hu; simpl; auto).
    clear Hu. induction Ha as [|fp r Hp Hr IH]; constructor.
    - split; [|split]; try (apply Hu'; simpl; auto).
      apply Hp. intros n Hn. apply Hu'. cbn [flat_map]. apply in_or_app. left. unfold sub_fp. right. right. exact Hn.
    - apply IH. intros n Hn. apply Hu'. cbn [flat_map]. apply in_or_app. now right.
  Qed.

  Lemma expr_hyp_of_all e : expr_all Pf e -> (forall n, In n (sub_expr sub_f e) -> V n) ->
    expr_hyp (lower_f cfg og) e.
  Proof.
    intros Ha Hu. split; [|apply Hu; simpl; auto].
    assert (Hu' : forall n, In n (flat_map (sub_tc sub_f) e) -> V n) by (intros; apply Hu; simpl; auto).
    clear Hu. induction Ha as [|tc r Hp Hr IH]; constructor.
    - split; [|split]; try (apply Hu'; simpl; auto).
      apply term_hyp_of_all; [exact Hp|]. intros n Hn. apply Hu'. cbn [flat_map]. apply in_or_app. left.
      unfold sub_tc. right. right. exact Hn.
    - apply IH. intros n Hn. apply Hu'. cbn [flat_map]. apply in_or_app. now right.
  Qed.

  Lemma lower_f_spec : forall f, Pf f.
  Proof.
    apply factor_ind2.
    - intros s Hu. apply get_dim_spec. apply Hu. simpl. auto.
    - intros o a b Ha Hb Hu. simpl.
      assert (Vop : V (COp o a b)) by (apply Hu; simpl; auto). destruct Vop as [Uop Oop].
      apply (cached_spec (COp o a b) _ Uop).
      assert (Ea : expr_hyp (lower_f cfg og) a).
      { apply expr_hyp_of_all; auto. intros n Hn. apply Hu. cbn [sub_f]. right. apply in_or_app. now left. }
      assert (Eb : expr_hyp (lower_f cfg og) b).
      { apply expr_hyp_of_all; auto. intros n Hn. apply Hu. cbn [sub_f]. right. apply in_or_app. now right. }
      intros st v st' Hc. unfold bind.
      destruct (lower_expr cfg (lower_f cfg og) a st) as [[va st1]|] eqn:E1; [|discriminate].
      destruct (lower_expr_spec _ a Ea _ _ _ Hc E1) as (C1 & X1 & G1).
      destruct (lower_expr cfg (lower_f cfg og) b st1) as [[vb st2]|] eqn:E2; [|discriminate].
      destruct (lower_expr_spec _ b Eb _ _ _ C1 E2) as (C2 & X2 & G2). intro E3.
      destruct (convert_op_spec o a b va vb _ _ _ Oop C2 (good_ext _ _ _ _ G1 X2) G2 E3) as (C3 & X3 & G3).
      split; [exact C3|]. split; [eauto using ext_trans|exact G3].
  Qed.

  (* MAIN (generic): lowering an expression all of whose sub-nodes lie in U yields a value that
     denotes the expression, preserves the cache invariant and only appends nodes *)
  Theorem lower_spec e : (forall n, In n (subnodes e) -> U n) -> (forall n, In n (subnodes e) -> op_ok n) ->
    spec (lower cfg og e) (denote rho e).
  Proof.
    intros Hu1 Hu2. assert (Hu : forall n, In n (subnodes e) -> V n) by (intros n Hn; split; auto).
    apply lower_expr_spec. apply expr_hyp_of_all; [|exact Hu].
    apply Forall_forall. intros tc _. apply Forall_forall. intros fp _. apply lower_f_spec.
  Qed.
End Correct.

(* ================================================================== 11. namespaced keys are injective *)
Theorem fixed_key_inj n1 n2 : ckey cfg_fixed n1 = ckey cfg_fixed n2 -> n1 = n2.
Proof.
  destruct n1 as [s1|z1|o1 a1 b1|f1 p1|t1|t1 c1|e1]; destruct n2 as [s2|z2|o2 a2 b2|f2 p2|t2|t2 c2|e2];
    unfold ckey, mk; cbn [ns_keys cfg_fixed]; intro E; try discriminate.
  - congruence.
  - congruence.
  - injection E as -> E.
    apply (print_expr_inj_gen a1 (all_Pinj_expr a1)) in E as [-> E]; simpl; auto.
    injection E as E. apply (print_expr_inj_gen b1 (all_Pinj_expr b1)) in E as [-> _]; simpl; auto.
  - injection E as E. apply print_f_inj_gen in E as [-> E]. congruence.
  - injection E as E. now apply print_term_injective in E as ->.
  - injection E as E. apply (print_term_inj t1 (all_Pinj_term t1)) in E as [-> E]; simpl; auto. congruence.
  - injection E as E. now apply print_expr_injective in E as ->.
Qed.

(* ================================================================== 12. a decidable sufficient test for
   "no two cache nodes of different meaning share a key" under the CURRENT (un-namespaced) keys *)
Definition norm_f (f : factor) : cnode := match f with FVar s => CVar s | FOp o a b => COp o a b end.
Definition norm_fp (f : factor) (p : positive) : cnode := if (p =? 1)%positive then norm_f f else CFp f p.
Definition norm_term (t : term) : cnode := match t with [(f, p)] => norm_fp f p | _ => CTerm t end.
Definition norm (n : cnode) : cnode :=
  match n with
  | CFp f p => norm_fp f p
  | CTerm t => norm_term t
  | CTc ((_ :: _) as t) c => if c =? 1 then norm_term t else n
  | CExpr [((_ :: _) as t, c)] => if c =? 1 then norm_term t else n
  | _ => n
  end.

Lemma norm_fp_denote rho f p : cdenote rho (norm_fp f p) = denote_f rho f ^ Zpos p.
Proof.
  unfold norm_fp. destruct (p =? 1)%positive eqn:E; [|reflexivity].
  apply Pos.eqb_eq in E. subst. rewrite Z.pow_1_r. destruct f; reflexivity.
Qed.
Lemma norm_term_denote rho t : cdenote rho (norm_term t) = denote_term rho t.
Proof.
  destruct t as [|[f p] [|? ?]]; try reflexivity. cbn [norm_term]. rewrite norm_fp_denote.
  unfold denote_term; cbn [denote_term_with fold_right fst snd]. lia.
Qed.
Lemma norm_denote rho n : cdenote rho (norm n) = cdenote rho n.
Proof.
  destruct n as [s|z|o a b|f p|t|t c|e]; try reflexivity.
  - apply norm_fp_denote.
  - apply norm_term_denote.
  - destruct t as [|fp t]; [reflexivity|]. cbn [norm]. destruct (c =? 1) eqn:E; [|reflexivity].
    apply Z.eqb_eq in E. subst. rewrite norm_term_denote. cbn [cdenote]. lia.
  - destruct e as [|[[|fp t] c] [|? ?]]; try reflexivity. cbn [norm].
    destruct (c =? 1) eqn:E; [|reflexivity]. apply Z.eqb_eq in E. subst. rewrite norm_term_denote.
    cbn [cdenote]. unfold denote, denote_term. cbn [denote_expr_with fold_right fst snd]. lia.
Qed.

Definition keys_okb (l : list cnode) : bool :=
  forallb (fun n1 => forallb (fun n2 =>
    implb (key_eqb (ckey cfg_current n1) (ckey cfg_current n2))
          (key_eqb (ckey cfg_fixed (norm n1)) (ckey cfg_fixed (norm n2)))) l) l.
(* the predicate the harness uses to classify an expression as hitting the cache-key collision *)
Definition key_collision (e : expr) : bool := negb (keys_okb (subnodes e)).

Lemma keys_okb_sound rho l : keys_okb l = true ->
  key_inj cfg_current rho (fun n => In n l).
Proof.
  unfold keys_okb, key_inj. intros H n1 n2 I1 I2 K.
  rewrite forallb_forall in H. specialize (H n1 I1). rewrite forallb_forall in H. specialize (H n2 I2).
  rewrite (proj2 (key_eqb_eq _ _) K) in H. simpl in H. apply key_eqb_eq in H.
  apply fixed_key_inj in H. rewrite <- (norm_denote rho n1), <- (norm_denote rho n2). now rewrite H.
Qed.

(* ================================================================== 13. the property *)
Definition op_okb (cfg : config) (rho : sym -> Z) (n : cnode) : bool :=
  match n with
  | COp OFloordiv a b =>
    negb (denote rho b =? 0) && (floor_div cfg || trunc_is_floorb (denote rho a) (denote rho b))
  | COp OMod a b => negb (denote rho b =? 0)
  | _ => true
  end.
Lemma op_okb_ok cfg rho n : op_okb cfg rho n = true -> op_ok cfg rho n.
Proof.
  destruct n as [| |[] a b| | | |]; simpl; auto.
  - rewrite andb_true_iff, negb_true_iff, Z.eqb_neq, orb_true_iff, trunc_is_floorb_true.
    intros [H1 [H2|H2]]; split; auto. intro H. congruence.
  - now rewrite negb_true_iff, Z.eqb_neq.
Qed.

(* JAX itself evaluates e at rho without ZeroDivisionError: every floordiv/mod divisor is non-zero *)
Definition defined (rho : sym -> Z) (e : expr) : Prop := forallb (op_okb cfg_fixed rho) (subnodes e) = true.
(* additionally every floordiv inside e has (dividend mod divisor = 0 or dividend*divisor > 0) at rho:
   exactly the condition under which truncating division equals floor division *)
Definition trunc_safe (rho : sym -> Z) (e : expr) : Prop := forallb (op_okb cfg_current rho) (subnodes e) = true.
Definition no_int64_overflow (shapes : nat -> list Z) (st : lstate) : Prop :=
  Forall in64 (vals shapes (nodes st)).
Definition cache_ok_all cfg rho shapes := cache_ok cfg rho shapes (fun _ => True).
Definition val64 (shapes : nat -> list Z) (st : lstate) (v : nat) : Z := nth v (vals64 shapes (nodes st)) 0.

(* THE PROPERTY, at full strength, for a configuration of the lowering *)
Definition lower_correct_stmt (cfg : config) : Prop :=
  forall (e : expr) (rho : sym -> Z) (shapes : nat -> list Z) (og : origins) (st : lstate) v st',
    (forall s, 1 <= rho s) -> origins_ok og rho shapes -> cache_ok_all cfg rho shapes st ->
    defined rho e -> lower cfg og e st = Some (v, st') -> no_int64_overflow shapes st' ->
    val64 shapes st' v = denote rho e /\ cache_ok_all cfg rho shapes st' /\ ext st st'.

(* generic form: relative to a universe U of cache nodes on which the keys are injective *)
Theorem lower_correct_gen cfg e rho shapes og U st v st' :
  origins_ok og rho shapes -> key_inj cfg rho U -> (forall n, In n (subnodes e) -> U n) ->
  cache_ok cfg rho shapes U st -> forallb (op_okb cfg rho) (subnodes e) = true ->
  lower cfg og e st = Some (v, st') -> no_int64_overflow shapes st' ->
  val64 shapes st' v = denote rho e /\ cache_ok cfg rho shapes U st' /\ ext st st'.
Proof.
  intros Hog Hinj Hu Hc Hops El Hov.
  assert (Hops' : forall n, In n (subnodes e) -> op_ok cfg rho n).
  { intros n Hn. apply op_okb_ok. rewrite forallb_forall in Hops. now apply Hops. }
  destruct (lower_spec cfg og rho shapes U Hinj Hog e Hu Hops' st v st' Hc El) as (C & X & [_ G]).
  split; [|split; assumption]. unfold val64. now rewrite vals64_eq.
Qed.

(* FIXED lowering (namespaced keys, floor semantics): the full property *)
Theorem lower_fixed_correct : lower_correct_stmt cfg_fixed.
Proof.
  intros e rho shapes og st v st' _ Hog Hc Hdef El Hov.
  apply (lower_correct_gen cfg_fixed e rho shapes og (fun _ => True)); auto.
  intros n1 n2 _ _ K. now rewrite (fixed_key_inj n1 n2 K).
Qed.

(* CURRENT lowering: correct under exactly the two extra hypotheses *)
Theorem lower_correct_partial e rho shapes og v st' :
  (forall s, 1 <= rho s) -> origins_ok og rho shapes ->
  keys_okb (subnodes e) = true ->            (* no two sub-nodes of different meaning share a printed key *)
  trunc_safe rho e ->                        (* every floordiv has dividend mod divisor = 0 or same signs *)
  lower cfg_current og e st0 = Some (v, st') -> no_int64_overflow shapes st' ->
  val64 shapes st' v = denote rho e.
Proof.
  intros _ Hog Hk Ht El Hov.
  apply (lower_correct_gen cfg_current e rho shapes og (fun n => In n (subnodes e)) st0 v st'); auto.
  - now apply keys_okb_sound.
  - intros k v0 L. discriminate.
Qed.

(* ---- the refutations *)
Definition og_b : origins := [([TId "b"%string], (0%nat, 0%nat))].
Definition var_b : factor := FVar "b"%string.
Definition var_expr (s : sym) : expr := [([(FVar s, 1%positive)], 1)].
(* b*b + 2*b, as JAX stores it: ((b^2, 1), (b, 2)) *)
Definition wit_keys : expr := [([(var_b, 2%positive)], 1); ([(var_b, 1%positive)], 2)].
(* (b - 5)//2 + 10:  ((floordiv(b - 5, 2), 1), (1, 10)) *)
Definition wit_floordiv : expr :=
  [([(FOp OFloordiv [([(var_b, 1%positive)], 1); ([], -5)] [([], 2)], 1%positive)], 1); ([], 10)].

Lemma origins_ok_b k : origins_ok og_b (fun _ => k) (fun _ => [k; 3]).
Proof.
  intros e i ax H. unfold og_b, origin_of in H.
  destruct (toks_eqb (print_expr e) [TId "b"%string]) eqn:E; [|discriminate].
  injection H as <- <-. apply toks_eqb_eq in E.
  change [TId "b"%string] with (print_expr (var_expr "b"%string)) in E. apply print_expr_injective in E. subst.
  unfold denote, var_expr. cbv [denote_expr_with denote_term_with fold_right fst snd denote_f nth].
  rewrite Z.pow_1_r. lia.
Qed.

Definition witness_bad (cfg : config) (e : expr) (k : Z) : bool :=
  match lower cfg og_b e st0 with
  | Some (v, st') =>
    (1 <=? k) && forallb in64b (vals (fun _ => [k; 3]) (nodes st')) &&
    forallb (op_okb cfg_fixed (fun _ => k)) (subnodes e) &&
    negb (val64 (fun _ => [k; 3]) st' v =? denote (fun _ => k) e)
  | None => false
  end.

Lemma refute cfg e k : witness_bad cfg e k = true -> ~ lower_correct_stmt cfg.
Proof.
  unfold witness_bad. destruct (lower cfg og_b e st0) as [[v st']|] eqn:El; [|discriminate].
  rewrite !andb_true_iff, negb_true_iff, Z.eqb_neq, Z.leb_le. intros [[[Hk Hov] Hdef] Hne] H.
  destruct (H e (fun _ => k) (fun _ => [k; 3]) og_b st0 v st') as (R & _); auto.
  - apply origins_ok_b.
  - intros k0 v0 L. discriminate.
  - apply Forall_forall. intros z Hz. rewrite forallb_forall in Hov. now apply in64b_true, Hov.
Qed.

(* the property is FALSE of the code as it stands: b = 3 gives 18 instead of 15 ... *)
Theorem lower_correct_refuted : ~ lower_correct_stmt cfg_current.
Proof. apply (refute cfg_current wit_keys 3). vm_compute. reflexivity. Qed.
(* ... and (b-5)//2+10 at b = 2 gives 9 instead of 8 *)
Theorem lower_correct_refuted_floordiv : ~ lower_correct_stmt cfg_current.
Proof. apply (refute cfg_current wit_floordiv 2). vm_compute. reflexivity. Qed.
(* each defect alone is enough: repairing only the other one leaves the property false *)
Theorem keys_defect_alone : ~ lower_correct_stmt {| ns_keys := false; floor_div := true |}.
Proof. apply (refute _ wit_keys 3). vm_compute. reflexivity. Qed.
Theorem floordiv_defect_alone : ~ lower_correct_stmt {| ns_keys := true; floor_div := false |}.
Proof. apply (refute _ wit_floordiv 2). vm_compute. reflexivity. Qed.

(* the collision itself: str((b, 2)) for the factor b^2 and for the term 2*b *)
Theorem key_collision_witness :
  ckey cfg_current (CFp var_b 2) = ckey cfg_current (CTc [(var_b, 1%positive)] 2)
  /\ cdenote (fun _ => 3) (CFp var_b 2) <> cdenote (fun _ => 3) (CTc [(var_b, 1%positive)] 2).
Proof. split; [reflexivity|vm_compute; discriminate]. Qed.

(* ---- non-vacuity *)
Definition run_at (cfg : config) (e : expr) (k : Z) : option (Z * Z) :=
  match lower cfg og_b e st0 with
  | Some (v, st') => Some (val64 (fun _ => [k; 3]) st' v, denote (fun _ => k) e)
  | None => None
  end.
Example current_keys_witness : run_at cfg_current wit_keys 3 = Some (18, 15). Proof. reflexivity. Qed.
Example fixed_keys_witness : run_at cfg_fixed wit_keys 3 = Some (15, 15). Proof. reflexivity. Qed.
Example current_floordiv_witness : run_at cfg_current wit_floordiv 2 = Some (9, 8). Proof. reflexivity. Qed.
Example fixed_floordiv_witness : run_at cfg_fixed wit_floordiv 2 = Some (8, 8). Proof. reflexivity. Qed.
Example collision_detected : key_collision wit_keys = true. Proof. reflexivity. Qed.
Example no_collision_floordiv : keys_okb (subnodes wit_floordiv) = true. Proof. reflexivity. Qed.
Example trunc_safe_at_7 : trunc_safe (fun _ => 7) wit_floordiv. Proof. reflexivity. Qed.
Example trunc_unsafe_at_2 : forallb (op_okb cfg_current (fun _ => 2)) (subnodes wit_floordiv) = false.
Proof. reflexivity. Qed.
Example defined_at_2 : defined (fun _ => 2) wit_floordiv. Proof. reflexivity. Qed.
Lemma no_overflow_b shapes st : forallb in64b (vals shapes (nodes st)) = true -> no_int64_overflow shapes st.
Proof.
  intro F. apply Forall_forall. intros z Hz. rewrite forallb_forall in F. now apply in64b_true, F.
Qed.
(* the partial theorem applies to the floordiv witness wherever b - 5 is even or positive *)
Example partial_applies : forall v st', lower cfg_current og_b wit_floordiv st0 = Some (v, st') ->
  val64 (fun _ => [7; 3]) st' v = denote (fun _ => 7) wit_floordiv.
Proof.
  intros v st' El.
  apply (lower_correct_partial wit_floordiv (fun _ => 7) (fun _ => [7; 3]) og_b v st').
  - intros _. lia.
  - apply origins_ok_b.
  - vm_compute. reflexivity.
  - vm_compute. reflexivity.
  - exact El.
  - vm_compute in El. injection El as <- <-. apply no_overflow_b. vm_compute. reflexivity.
Qed.

(* ================================================================== 14. DimAsValuePlugin's three routes *)
Lemma print_tc_num_nonneg first tc z l : print_tc_with print_f first tc = TNum z :: l -> 0 <= z.
Proof.
  destruct tc as [[|fp t] c].
  - rewrite print_tc_const. unfold const_body, sign_toks.
    destruct (c =? 0); destruct (0 <? c); destruct first; simpl; intro E; injection E; intros; subst; try lia;
      discriminate.
  - rewrite print_tc_nc. destruct (print_term_starts fp t) as (x & l' & -> & B).
    unfold nc_body, sign_toks.
    destruct (0 <? c); destruct (Z.abs c =? 1); destruct first; simpl; intro E; injection E; intros; subst;
      try lia; try discriminate.
Qed.

Lemma const_value_denote rho e c : const_value e = Some c -> denote rho e = c.
Proof.
  unfold const_value. destruct (print_expr e) as [|[| z | | | | | | | | |] [|? ?]] eqn:P; try discriminate.
  intro E. injection E as <-.
  assert (Hz : 0 <= z).
  { destruct e as [|tc r]; [discriminate|]. rewrite print_expr_cons in P.
    destruct (print_tc_head true tc) as (x & l & Hx & _). rewrite Hx in P. simpl in P.
    injection P as -> _. eapply print_tc_num_nonneg; eauto. }
  assert (P' : print_expr [([], z)] = [TNum z]).
  { rewrite print_expr_cons, print_tc_const. unfold const_body, sign_toks. simpl.
    destruct (z =? 0) eqn:Z0; [apply Z.eqb_eq in Z0; now subst|].
    apply Z.eqb_neq in Z0. destruct (0 <? z) eqn:Z1; [|apply Z.ltb_ge in Z1; lia].
    simpl. now rewrite Z.abs_eq. }
  rewrite <- P' in P. apply print_expr_injective in P. subst.
  unfold denote. cbv [denote_expr_with denote_term_with fold_right fst snd]. lia.
Qed.

Theorem dim_as_value_gen cfg e rho shapes og U st v st' :
  origins_ok og rho shapes -> key_inj cfg rho U -> (forall n, In n (subnodes e) -> U n) ->
  cache_ok cfg rho shapes U st -> forallb (op_okb cfg rho) (subnodes e) = true ->
  dim_as_value cfg og e st = Some (v, st') -> no_int64_overflow shapes st' ->
  val64 shapes st' v = denote rho e /\ cache_ok cfg rho shapes U st' /\ ext st st'.
Proof.
  intros Hog Hinj Hu Hc Hops Ed Hov. unfold dim_as_value in Ed.
  destruct (origin_of og (print_expr e)) as [[i ax]|] eqn:O.
  - destruct (emit_spec cfg rho shapes U _ _ _ _ Hc Ed) as (C & X & [_ G]).
    split; [|split; assumption]. unfold val64. rewrite vals64_eq by exact Hov. rewrite G. simpl.
    now apply Hog.
  - destruct (const_value e) as [c|] eqn:Cv.
    + destruct (emit_spec cfg rho shapes U _ _ _ _ Hc Ed) as (C & X & [_ G]).
      split; [|split; assumption]. unfold val64. rewrite vals64_eq by exact Hov. rewrite G. simpl.
      symmetry. now apply const_value_denote.
    + eapply lower_correct_gen; eauto.
Qed.

Theorem dim_as_value_fixed_correct e rho shapes og st v st' :
  (forall s, 1 <= rho s) -> origins_ok og rho shapes -> cache_ok_all cfg_fixed rho shapes st ->
  defined rho e -> dim_as_value cfg_fixed og e st = Some (v, st') -> no_int64_overflow shapes st' ->
  val64 shapes st' v = denote rho e /\ cache_ok_all cfg_fixed rho shapes st' /\ ext st st'.
Proof.
  intros _ Hog Hc Hdef Ed Hov.
  apply (dim_as_value_gen cfg_fixed e rho shapes og (fun _ => True)); auto.
  intros n1 n2 _ _ K. now rewrite (fixed_key_inj n1 n2 K).
Qed.

(* several expressions through one lowerer (shared cache), fixed configuration *)
Theorem lower_many_fixed_correct es : forall rho shapes og st vs st',
  origins_ok og rho shapes -> cache_ok_all cfg_fixed rho shapes st ->
  Forall (defined rho) es -> lower_many cfg_fixed og es st = Some (vs, st') -> no_int64_overflow shapes st' ->
  map (val64 shapes st') vs = map (denote rho) es /\ cache_ok_all cfg_fixed rho shapes st' /\ ext st st'.
Proof.
  induction es as [|e es IH]; intros rho shapes og st vs st' Hog Hc Hd El Hov; simpl in El.
  - injection El as <- <-. split; [reflexivity|]. split; [exact Hc|apply ext_refl].
  - unfold bind in El. destruct (lower cfg_fixed og e st) as [[v st1]|] eqn:E1; [|discriminate].
    destruct (lower_many cfg_fixed og es st1) as [[vs1 st2]|] eqn:E2; [|discriminate].
    injection El as <- <-. inversion Hd as [|? ? Hd1 Hd2]; subst.
    assert (Hinj : key_inj cfg_fixed rho (fun _ => True)).
    { intros n1 n2 _ _ K. now rewrite (fixed_key_inj n1 n2 K). }
    assert (Hops : forall n, In n (subnodes e) -> op_ok cfg_fixed rho n).
    { intros n Hn. apply op_okb_ok. unfold defined in Hd1. rewrite forallb_forall in Hd1. now apply Hd1. }
    destruct (lower_spec cfg_fixed og rho shapes (fun _ => True) Hinj Hog e (fun _ _ => I) Hops st v st1 Hc E1)
      as (C1 & X1 & G1).
    destruct (IH rho shapes og st1 vs1 st2 Hog C1 Hd2 E2 Hov) as (M & C2 & X2).
    split; [|split; [exact C2|eapply ext_trans; eauto]]. simpl. f_equal; [|exact M].
    destruct (good_ext shapes _ _ _ _ G1 X2) as [_ G]. unfold val64. now rewrite vals64_eq.
Qed.

(* ================================================================== 15. interface for harness/c04.py
   (evaluation of the model on concrete expressions and bindings; nothing below is used by a theorem) *)
Definition rho_of (l : list (string * Z)) : sym -> Z :=
  fun s => match find (fun p => String.eqb s (fst p)) l with Some p => snd p | None => 1 end.
Definition shapes_of (l : list (list Z)) : nat -> list Z := fun i => nth i l [].

(* what the exported model is predicted to do at run time *)
Inductive mres :=
| MVal (z : Z)      (* returns z *)
| MDivZero          (* some Div/Mod node has a zero divisor: onnxruntime fails "Integer division/modulo by zero" *)
| MOverflow         (* some node leaves int64: outside the theorems *)
| MRaise.           (* the lowering itself raises at export time *)
Definition has_div_zero (ns : list onode) (vs : list Z) : bool :=
  existsb (fun n => match n with
                    | NBin BDiv _ b | NBin BMod _ b => nth b vs 0 =? 0
                    | _ => false
                    end) ns.
Definition model_res (cfg : config) (og : origins) (e : expr) (sh : list (list Z)) : mres :=
  match dim_as_value cfg og e st0 with
  | Some (v, st') =>
    let vs := vals (shapes_of sh) (nodes st') in
    if has_div_zero (nodes st') vs then MDivZero
    else if forallb in64b vs then MVal (val64 (shapes_of sh) st' v) else MOverflow
  | None => MRaise
  end.
(* observed: Some z = onnxruntime returned z, None = onnxruntime failed with division/modulo by zero *)
Definition mres_matches (m : mres) (o : option Z) : bool :=
  match m, o with
  | MVal z, Some z' => z =? z'
  | MDivZero, None => true
  | _, _ => false
  end.
Definition mres_is (m : mres) (z : Z) : bool := match m with MVal z' => z' =? z | _ => false end.

Definition binop_name (op : binop) : string :=
  match op with
  | BAdd => "Add" | BSub => "Sub" | BMul => "Mul" | BDiv => "Div" | BMod => "Mod"
  | BPow => "Pow" | BMax => "Max" | BMin => "Min"
  end%string.
(* operator sequence of the emitted graph (constants are initializers, not nodes) *)
Definition op_names (ns : list onode) : list string :=
  flat_map (fun n => match n with
                     | NDim _ _ => ["Shape"%string]
                     | NDimG _ _ => ["Shape"; "Gather"]%string
                     | NConst _ => []
                     | NBin op _ _ => [binop_name op]
                     end) ns.
Fixpoint strs_eqb (a b : list string) : bool :=
  match a, b with
  | [], [] => true
  | x :: a', y :: b' => String.eqb x y && strs_eqb a' b'
  | _, _ => false
  end.
(* the exporter's later common-subexpression pass merges structurally identical nodes (same operator,
   same inputs): the operator sequence of the final graph is that of the de-duplicated node list *)
Definition binop_eqb (a b : binop) : bool :=
  match a, b with
  | BAdd, BAdd | BSub, BSub | BMul, BMul | BDiv, BDiv | BMod, BMod | BPow, BPow | BMax, BMax | BMin, BMin => true
  | _, _ => false
  end.
Definition onode_eqb (a b : onode) : bool :=
  match a, b with
  | NDim i x, NDim j y | NDimG i x, NDimG j y => Nat.eqb i j && Nat.eqb x y
  | NConst z, NConst z' => z =? z'
  | NBin o x y, NBin o' x' y' => binop_eqb o o' && Nat.eqb x x' && Nat.eqb y y'
  | _, _ => false
  end.
Fixpoint index_of (n : onode) (l : list onode) (i : nat) : option nat :=
  match l with [] => None | x :: r => if onode_eqb n x then Some i else index_of n r (S i) end.
Fixpoint cse_go (ns : list onode) (ren : list nat) (uniq : list onode) : list onode :=
  match ns with
  | [] => uniq
  | n :: r =>
    let n' := match n with NBin o a b => NBin o (nth a ren 0%nat) (nth b ren 0%nat) | _ => n end in
    match index_of n' uniq 0 with
    | Some i => cse_go r (ren ++ [i]) uniq
    | None => cse_go r (ren ++ [length uniq]) (uniq ++ [n'])
    end
  end.
Definition cse (ns : list onode) : list onode := cse_go ns [] [].
Definition model_ops (cfg : config) (og : origins) (e : expr) : option (list string) :=
  match dim_as_value cfg og e st0 with Some (_, st') => Some (op_names (cse (nodes st'))) | None => None end.
(* the keys left in LowerDimExpr.compute_cache, as a set *)
Definition model_keys (cfg : config) (og : origins) (e : expr) : option (list key) :=
  match dim_as_value cfg og e st0 with Some (_, st') => Some (map fst (cache st')) | None => None end.
Definition keys_subset (a b : list key) : bool := forallb (fun k => existsb (key_eqb k) b) a.
Definition keys_same (a : option (list key)) (b : list key) : bool :=
  match a with Some l => keys_subset l b && keys_subset b l | None => false end.
