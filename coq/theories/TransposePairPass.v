(* TransposePairPass (C02): a faithful model of remove_redundant_transpose_pairs_ir: the COMPLETE decision of its
   while-changed loop, in the order of the Python tests:
     phase A ("Pass -1")   Add chains between Transposes p ... Transposes q           -> action TAddChain   (PROVED in TransposeRegion.v)
     phase B ("Pass -0.5") inverse Transposes around an elementwise DAG with several
                           Transpose inputs                                            -> action TForest     (PROVED in TransposeRegion.v, but for a
                                                                                          CastLike member whose type operand is a region value)
     phase C ("Pass 0")    Transpose T1 -> elementwise DAG -> inverse Transpose T2     -> action TDag        (PROVED for the direct pair, es = [];
                                                                                          with members the forest phase, which runs first, subsumes it)
     phase D, case 1       Transpose T1 -> single-consumer chain of <= 7
                           ALLOWED_ELEMWISE nodes -> inverse Transpose T2              -> action TChain      (PROVED)
     phase D, case 2       Transpose T1 with several consumers, one of them an
                           inverse Transpose T2: only T2 is bypassed                   -> action TMulti      (PROVED)
   and the rewrites (replace_input_with on selected nodes, replace_all_uses_with, removals).  This file proves the kinds
   of [proved_kind] (phases C, D); TransposeRegion.v proves the region phases A, B and the pass for every graph admissible
   when it starts ([proved_kind_all], [transpose_pair_pass_sound_start]).
   Encoding (harness/c02_passes.py): n_op = operator name for domain "", "dom::op" otherwise ("ai.onnx::op" is
   normalised by [op_type], as _op_type does); n_attrs = 1 :: perm for a node with an INTS attribute perm, [] without.
   Domain restrictions of the MODEL, for the PROVED kinds only (they hold in every schema-valid acyclic ONNX graph; the
   model takes no action otherwise): T1, T2 and chain members have exactly one output, chain and region members and the
   Transposes of a region have no nested graphs ([no_caps]), and src, T1's output, the chain outputs and T2's output are
   pairwise distinct names. *)
From Coq Require Import ZArith String List Bool Arith Lia.
From J2O Require Import PyLib Tensor Graph Redirect Preserve Reshape ElemCommute ChainSim ReshapePairPass ChainFacts C02Opt ElemSem.
From J2OGen Require Import GenCast GenOpt.
Import ListNotations.

Record tgraph := mkTG { tg_nodes : list node; tg_outputs : list name; tg_scalar : name -> bool (* _is_scalar_const_value *) }.
Definition tg_graph (g : tgraph) : graph := mkGraph (tg_nodes g) (tg_outputs g).

(* _op_type: default-domain nodes ("" or "ai.onnx") carry the operator name, others a name no pattern matches *)
Definition op_type (s : string) : string := if str_startswith "ai.onnx::" s then str_drop 9 s else s.
Definition nop (n : node) : string := op_type (n_op n).
Definition is_T (n : node) : bool := String.eqb (nop n) "Transpose".
Definition is_add (n : node) : bool := String.eqb (nop n) "Add".
Definition perm_of (n : node) : option (list nat) := match n_attrs n with 1 :: p => Some p | _ => None end.
Definition inv_ok (p q : list nat) : bool :=
  match is_inverse_perm (map Z.of_nat p) (map Z.of_nat q) with Some true => true | _ => false end.
Definition is_elem (n : node) : bool := str_in (nop n) ELEMENTWISE_UNARY_OPS || str_in (nop n) ELEMENTWISE_BINARY_OPS.

Definition leqb (a b : list nat) : bool := list_eqb Nat.eqb a b.
Definition node_eqb (a b : node) : bool :=
  String.eqb (n_op a) (n_op b) && leqb (n_attrs a) (n_attrs b) && leqb (n_ins a) (n_ins b) && leqb (n_caps a) (n_caps b) && leqb (n_outs a) (n_outs b).
Definition memn (n : node) (l : list node) : bool := existsb (node_eqb n) l.
Definition no_caps (n : node) : bool := match n_caps n with [] => true | _ => false end.   (* elementwise operators have no nested graphs *)
Definition mem (x : name) (l : list name) : bool := existsb (Nat.eqb x) l.
Definition addn (n : node) (l : list node) : list node := if memn n l then l else l ++ [n].

Definition tobserved (g : tgraph) (v : name) : bool :=
  mem v (tg_outputs g) || existsb (fun m => mem v (n_caps m)) (tg_nodes g).
Definition first_in (n : node) : option name := hd_error (n_ins n).
Definition out1 (n : node) : option name := hd_error (n_outs n).
Definition permeq (a b : option (list nat)) : bool := match a, b with Some x, Some y => leqb x y | _, _ => false end.

(* node.replace_input_with on the nodes selected by [sel] (inputs only: captures of nested graphs are not touched) *)
Definition map_inputs (sel : node -> bool) (f : name -> name) (ns : list node) : list node :=
  map (fun n => if sel n then mkNode (n_op n) (n_attrs n) (map f (n_ins n)) (n_caps n) (n_outs n) else n) ns.

(* ================================================================ phase A: Add chains *)
Record addst := mkAS { as_chain : list node; as_fwd : option (list nat); as_inv : option (list nat) }.

(* the inputs of one Add of the chain: every input comes from [prev] or from a Transpose with the common perm *)
Fixpoint add_inputs (ns : list node) (prev : option node) (ins : list name) (pf : option (list nat)) (has_prev : bool) (nt : nat)
  : option (option (list nat) * bool * nat) :=
  match ins with
  | [] => Some (pf, has_prev, nt)
  | iv :: r =>
      match producer ns iv with
      | Some pr =>
          if match prev with Some pv => node_eqb pr pv | None => false end then add_inputs ns prev r pf true nt
          else if negb (is_T pr) then None
          else match perm_of pr with
               | None => None
               | Some p => match pf with
                           | None => add_inputs ns prev r (Some p) has_prev (S nt)
                           | Some p0 => if leqb p0 p then add_inputs ns prev r pf has_prev (S nt) else None
                           end
               end
      | None => None
      end
  end.

Fixpoint other_consumers_ok (cs : list node) (pi : option (list nat)) : option (option (list nat)) :=
  match cs with
  | [] => Some pi
  | c :: r => if negb (is_T c) then None
              else match perm_of c with
                   | None => None
                   | Some p => match pi with
                               | None => other_consumers_ok r (Some p)
                               | Some p0 => if leqb p0 p then other_consumers_ok r pi else None
                               end
                   end
  end.

Fixpoint add_walk (g : tgraph) (fuel : nat) (prev : option node) (cur : node) (st : addst) : option addst :=
  match fuel with
  | O => None
  | S k =>
      if negb (is_add cur) then None else
      if Nat.ltb (length (n_ins cur)) 2 then None else
      match add_inputs (tg_nodes g) prev (n_ins cur) (as_fwd st) false 0 with
      | None => None
      | Some (pf, has_prev, nt) =>
          if match prev with None => Nat.ltb nt 1 | Some _ => negb has_prev || negb (Nat.eqb nt 1) end then None else
          match out1 cur with
          | None => None
          | Some out =>
              let cs := consumers (tg_nodes g) out in
              let adds := filter is_add cs in
              let others := filter (fun c => negb (is_add c)) cs in
              if Nat.ltb 1 (length adds) then None else
              match other_consumers_ok others (as_inv st) with
              | None => None
              | Some pi =>
                  if tobserved g out then None else
                  let st' := mkAS (as_chain st ++ [cur]) pf pi in
                  match adds with
                  | nx :: _ => add_walk g k (Some cur) nx st'
                  | [] => Some st'
                  end
              end
          end
      end
  end.

(* ---- the rewrite shared by phases A and B: an elementwise REGION [r_es] between input Transposes [r_ts] (perm p) and
        consumer Transposes [r_outs] (perm p^-1) is moved to the other layout.  The Python does it with replace_input_with on
        the region's nodes (an input produced by an input Transpose is re-pointed to that Transpose's source), one
        replace_all_uses_with(t_out, t_in) per consumer Transpose, graph.remove of the consumer Transposes and (phase B) of the
        input Transposes left without consumers; the consumer Transposes' outputs and the region's outputs are different
        names, so the calls commute and the net effect is ONE renaming of the kept nodes ([region_tr]). *)
Record region := mkR { r_es : list node; r_ts : list node; r_outs : list node; r_dead : list node }.
Definition pairs_of (l : list node) : list (name * name) :=
  flat_map (fun t => match out1 t, first_in t with Some o, Some s => [(o, s)] | _, _ => [] end) l.
Definition lookup_ren (m : list (name * name)) (x : name) : name :=
  match find (fun pr => Nat.eqb (fst pr) x) m with Some pr => snd pr | None => x end.
Definition ren_out (r : region) : name -> name := lookup_ren (pairs_of (r_outs r)).
Definition ren_in (r : region) (x : name) : name := ren_out r (lookup_ren (pairs_of (r_ts r)) x).
Definition region_tr (r : region) (n : node) : node :=
  if memn n (r_es r) then mkNode (n_op n) (n_attrs n) (map (ren_in r) (n_ins n)) (map (ren_out r) (n_caps n)) (n_outs n)
  else subst_map (ren_out r) n.
Definition region_keep (r : region) (n : node) : bool := negb (memn n (r_outs r)) && negb (memn n (r_dead r)).
Definition apply_region (g : tgraph) (r : region) : tgraph :=
  mkTG (map (region_tr r) (filter (region_keep r) (tg_nodes g))) (map (ren_out r) (tg_outputs g)) (tg_scalar g).

(* phase A: the input Transposes are the producers of the chain's non-chain inputs, the consumer Transposes are the
   non-Add consumers of the chain's outputs; no input Transpose is removed *)
Definition add_region (g : tgraph) (st : addst) : region :=
  let ns := tg_nodes g in
  let ts := fold_left (fun acc iv => match producer ns iv with
                                      | Some pr => if is_T pr && permeq (perm_of pr) (as_fwd st) then addn pr acc else acc
                                      | None => acc end)
                      (flat_map n_ins (as_chain st)) [] in
  let outs := fold_left (fun acc n => match out1 n with
                                       | Some o => fold_left (fun a c => addn c a)
                                                     (filter (fun c => is_T c && permeq (perm_of c) (as_inv st)) (consumers ns o)) acc
                                       | None => acc end)
                        (as_chain st) [] in
  mkR (as_chain st) ts outs [].
Definition apply_add (g : tgraph) (st : addst) : tgraph := apply_region g (add_region g st).

Definition decide_add (g : tgraph) (start : node) : option addst :=
  if negb (is_add start) then None else
  match add_walk g (S (length (tg_nodes g))) None start (mkAS [] None None) with
  | Some st => match as_chain st, as_fwd st, as_inv st with
               | _ :: _, Some pf, Some pi =>
                   (* no input Transpose (perm_fwd) of a chain member reads a value produced by a chain member *)
                   let reads_chain iv := match producer (tg_nodes g) iv with
                                         | Some pr => is_T pr && permeq (perm_of pr) (Some pf)
                                                      && match first_in pr with
                                                         | Some s => match producer (tg_nodes g) s with Some pp => memn pp (as_chain st) | None => false end
                                                         | None => false end
                                         | None => false end in
                   if inv_ok pf pi && forallb no_caps (as_chain st ++ r_ts (add_region g st) ++ r_outs (add_region g st))
                      && negb (existsb (fun n => existsb reads_chain (n_ins n)) (as_chain st))
                   then Some st else None
               | _, _, _ => None
               end
  | None => None
  end.

(* ================================================================ phases B and C: backward closure over elementwise nodes *)
Fixpoint collect (g : tgraph) (fuel : nat) (work visited : list name) (ts es : list node) : option (list node * list node) :=
  match fuel with
  | O => None
  | S k =>
      match work with
      | [] => Some (ts, es)
      | v :: w =>
          if mem v visited then collect g k w visited ts es
          else if tg_scalar g v then collect g k w (v :: visited) ts es
          else match producer (tg_nodes g) v with
               | None => None
               | Some p =>
                   if is_T p then collect g k w (v :: visited) (addn p ts) es
                   else if negb (is_elem p) then None
                   else if memn p es then collect g k w (v :: visited) ts es
                   else collect g k (filter (fun x => negb (tg_scalar g x)) (n_ins p) ++ w) (v :: visited) ts (es ++ [p])
               end
      end
  end.
Definition collect_fuel (g : tgraph) : nat := 2 * (length (flat_map n_ins (tg_nodes g)) + length (tg_nodes g)) + 4.

Definition all_perm_eq (ts : list node) : option (list nat) :=
  match ts with
  | [] => None
  | t :: r => match perm_of t with
              | Some p => if forallb (fun u => permeq (perm_of u) (Some p)) r then Some p else None
              | None => None
              end
  end.

(* phase B *)
Fixpoint forest_outs (g : tgraph) (es all : list node) (q : list nat) (acc : list node) : option (list node) :=
  match es with
  | [] => Some acc
  | n :: r =>
      match out1 n with
      | None => forest_outs g r all q acc
      | Some out =>
          if tobserved g out then None else
          let cs := filter (fun c => negb (memn c all)) (consumers (tg_nodes g) out) in
          if forallb (fun c => is_T c && permeq (perm_of c) (Some q)) cs
          then forest_outs g r all q (fold_left (fun a c => addn c a) cs acc) else None
      end
  end.
Record forest := mkF { f_ts : list node; f_es : list node; f_outs : list node }.
Definition decide_forest (g : tgraph) (t2 : node) : option forest :=
  if negb (is_T t2) then None else
  match first_in t2, perm_of t2 with
  | Some t2_in, Some q =>
      match collect g (collect_fuel g) [t2_in] [] [] [] with
      | Some (ts, es) =>
          match ts with [] => None | _ =>
          match all_perm_eq ts with
          | Some p => if negb (inv_ok p q) then None else
                      match forest_outs g es es q [] with
                      | Some outs => if memn t2 outs && negb (existsb (fun t => memn t outs) ts)   (* no input transpose is also an output transpose *)
                                        && forallb no_caps (es ++ ts ++ outs)
                                     then Some (mkF ts es outs) else None
                      | None => None
                      end
          | None => None
          end end
      | None => None
      end
  | _, _ => None
  end.
(* phase B: an input Transpose is removed when, after the rewrite, nobody reads its output *)
Definition forest_region (g : tgraph) (f : forest) : region :=
  let r := mkR (f_es f) (f_ts f) (f_outs f) [] in
  let live := map (region_tr r) (filter (region_keep r) (tg_nodes g)) in
  let outs' := map (ren_out r) (tg_outputs g) in
  let dead t := match out1 t with
                | Some o => negb (existsb (fun m => mem o (n_ins m)) live)
                            && negb (mem o outs' || existsb (fun m => mem o (n_caps m)) live)
                | None => false
                end in
  mkR (f_es f) (f_ts f) (f_outs f) (filter dead (f_ts f)).
Definition apply_forest (g : tgraph) (f : forest) : tgraph := apply_region g (forest_region g f).

(* phase C *)
Record dag := mkD { d_T1 : node; d_T2 : node; d_es : list node }.
Definition decide_dag (g : tgraph) (t2 : node) : option dag :=
  if negb (is_T t2) then None else
  match first_in t2, perm_of t2 with
  | Some t2_in, Some q =>
      match collect g (collect_fuel g) [t2_in] [] [] [] with
      | Some ([T1], es) =>
          if node_eqb T1 t2 then None else
          match perm_of T1, out1 T1, first_in T1, n_outs t2 with
          | Some p, Some t1_out, Some t1_in, _ :: _ =>
              let members c := node_eqb c t2 || memn c es in
              if inv_ok p q && negb (tobserved g t1_out)
                 && forallb members (consumers (tg_nodes g) t1_out)
                 && forallb (fun n => match out1 n with
                                      | None => true
                                      | Some o => negb (tobserved g o) && forallb members (consumers (tg_nodes g) o)
                                      end) es
              then Some (mkD T1 t2 es) else None
          | _, _, _, _ => None
          end
      | _ => None
      end
  | _, _ => None
  end.
Definition apply_dag (g : tgraph) (d : dag) : tgraph :=
  match out1 (d_T1 d), first_in (d_T1 d), out1 (d_T2 d), first_in (d_T2 d) with
  | Some t1_out, Some t1_in, Some t2_out, Some t2_in =>
      let ns1 := map_inputs (fun n => memn n (d_es d)) (rn t1_out t1_in) (tg_nodes g) in
      let nw := match d_es d with [] => t1_in | _ => t2_in end in
      let g2 := replace_all_uses t2_out nw (mkGraph ns1 (tg_outputs g)) in
      mkTG (filter (fun n => negb (leqb (n_outs n) (n_outs (d_T1 d)) || leqb (n_outs n) (n_outs (d_T2 d)))) (g_nodes g2))
           (g_outputs g2) (tg_scalar g)
  | _, _, _, _ => g
  end.

(* ================================================================ phase D *)
Fixpoint fside_ok (g : tgraph) (castlike : bool) (prev : name) (pos : nat) (ins : list name) : bool :=
  match ins with
  | [] => true
  | x :: r => (Nat.eqb x prev || (castlike && Nat.eqb pos 1) || tg_scalar g x) && fside_ok g castlike prev (S pos) r
  end.

(* case 1: forward walk over single consumers *)
Fixpoint fwalk (g : tgraph) (fuel : nat) (cur : node) (prev : name) (acc : list node) : option (list node * node) :=
  match fuel with
  | O => None
  | S k =>
      if str_in (nop cur) ALLOWED_ELEMWISE then
        match n_outs cur, n_caps cur with
        | [y], [] =>
            if tobserved g y then None
            else if negb (fside_ok g (String.eqb (nop cur) "CastLike") prev 0 (n_ins cur)) then None
            else match consumers (tg_nodes g) y with [nx] => fwalk g k nx y (acc ++ [cur]) | _ => None end
        | _, _ => None
        end
      else if is_T cur then Some (acc, cur) else None
  end.

Inductive taction :=
| TAddChain (st : addst)
| TForest (f : forest)
| TDag (d : dag)
| TChain (a : action)                      (* src, T1's output, chain, T2's output *)
| TMulti (src t1_out t2_out : name).

Definition decide_D (g : tgraph) (T1 : node) : option taction :=
  if negb (is_T T1) then None else
  match out1 T1 with
  | None => None
  | Some a0 =>
      match consumers (tg_nodes g) a0 with
      | [] => None
      | [c] =>
          if tobserved g a0 then None else
          match fwalk g 8 c a0 [] with
          | None => None
          | Some (chain, T2) =>
              match perm_of T1, perm_of T2, n_ins T1, n_outs T1, n_outs T2 with
              | Some p, Some q, src :: _, [_], [b] =>
                  let a := mkAct src a0 chain b in
                  if inv_ok p q && nodupb (src :: dirty a ++ [b]) then Some (TChain a) else None
              | _, _, _, _, _ => None
              end
          end
      | cs =>
          match first_in T1, perm_of T1 with
          | Some src, Some p =>
              match find (fun c => is_T c && match perm_of c with Some q => inv_ok p q | None => false end) cs with
              | Some T2 => match n_outs T2, n_outs T1 with
                           | [b], [_] => if Nat.eqb src b then None else Some (TMulti src a0 b)
                           | _, _ => None
                           end
              | None => None
              end
          | _, _ => None
          end
      end
  end.

Fixpoint first_some {B C} (f : B -> option C) (l : list B) : option C :=
  match l with [] => None | x :: r => match f x with Some y => Some y | None => first_some f r end end.

Definition decide_step (g : tgraph) : option taction :=
  match first_some (decide_add g) (tg_nodes g) with
  | Some st => Some (TAddChain st)
  | None =>
      match first_some (decide_forest g) (tg_nodes g) with
      | Some f => Some (TForest f)
      | None =>
          match first_some (decide_dag g) (tg_nodes g) with
          | Some d => Some (TDag d)
          | None => first_some (decide_D g) (tg_nodes g)
          end
      end
  end.

Definition apply_chain (g : tgraph) (a : action) : tgraph :=
  let g1 := match ac_chain a with [] => tg_graph g | _ => replace_all_uses (ac_t1 a) (ac_src a) (tg_graph g) end in
  let g2 := replace_all_uses (ac_t2 a) (new_src a) g1 in
  mkTG (remove_first (node_is (ac_t2 a)) (remove_first (node_is (ac_t1 a)) (g_nodes g2))) (g_outputs g2) (tg_scalar g).

Definition apply_taction (g : tgraph) (a : taction) : tgraph :=
  match a with
  | TAddChain st => apply_add g st
  | TForest f => apply_forest g f
  | TDag d => apply_dag g d
  | TChain a => apply_chain g a
  | TMulti src _ b => let g' := redirect_remove b src (tg_graph g) in mkTG (g_nodes g') (g_outputs g') (tg_scalar g)
  end.

Definition transpose_pair_step (g : tgraph) : option tgraph := option_map (apply_taction g) (decide_step g).
Fixpoint transpose_pair_pass (fuel : nat) (g : tgraph) : tgraph :=
  match fuel with O => g | S k => match transpose_pair_step g with Some g' => transpose_pair_pass k g' | None => g end end.

(* which action kinds the soundness theorem covers *)
(* every CastLike member of the chain takes the chain value as its DATA operand (input 0) *)
Fixpoint castlike_data_first (prev : name) (chain : list node) : bool :=
  match chain with
  | [] => true
  | n :: r => (negb (String.eqb (nop n) "CastLike") || match n_ins n with x :: _ => Nat.eqb x prev | [] => false end)
              && castlike_data_first (out_of n) r
  end.
Definition proved_kind (a : taction) : bool :=
  match a with
  | TChain a => castlike_data_first (ac_t1 a) (ac_chain a)
  | TMulti _ _ _ => true
  | TDag d => match d_es d with [] => true | _ => false end
  | _ => false
  end.
Definition kind_code (a : taction) : nat :=
  match a with TAddChain _ => 1 | TForest _ => 2 | TDag d => match d_es d with [] => 3 | _ => 4 end | TChain a => match ac_chain a with [] => 5 | _ => 6 end | TMulti _ _ _ => 7 end.
Fixpoint pass_trace (fuel : nat) (g : tgraph) : list nat :=
  match fuel with
  | O => []
  | S k => match decide_step g with Some a => kind_code a :: pass_trace k (apply_taction g a) | None => [] end
  end.

(* ================================================================ soundness: permutations *)
Lemma inv_ok_perms p q : inv_ok p q = true -> is_inverse p q /\ is_perm p /\ is_perm q.
Proof.
  unfold inv_ok. destruct (is_inverse_perm (map Z.of_nat p) (map Z.of_nat q)) as [[|]|] eqn:E; try discriminate. intros _.
  pose proof (is_inverse_perm_sound p q E) as Hinv.
  (* the entries of q index p without IndexError *)
  assert (Hq : Forall (fun k => k < length p) q).
  { unfold is_inverse_perm in E. rewrite !map_length in E.
    destruct (Z.of_nat (length p) =? Z.of_nat (length q))%Z; simpl in E; [|discriminate].
    destruct (mapM _ _) as [composed|] eqn:Em; [|discriminate]. apply mapM_Forall2 in Em. clear E Hinv.
    revert composed Em. induction q as [|k q IH]; intros composed Em; [constructor|].
    simpl in Em. inversion Em as [|? c ? cs Hk Hr]; subst.
    destruct (py_index (map Z.of_nat p) (Z.of_nat k)) as [c'|] eqn:Ek; [|discriminate].
    apply py_index_nat in Ek as [Hlt _]. constructor; eauto. }
  destruct Hinv as [Hl Hc].
  assert (Hndq : NoDup q).
  { apply (NoDup_nth q 0). intros i j Hi Hj E'.
    assert (Hi' : nth i (gather 0 q p) 0 = i) by (rewrite Hc; apply seq_nth; lia).
    assert (Hj' : nth j (gather 0 q p) 0 = j) by (rewrite Hc; apply seq_nth; lia).
    rewrite nth_gather in Hi', Hj' by auto. rewrite E' in Hi'. congruence. }
  assert (Hpq : is_perm q) by (split; auto; now rewrite <- Hl).
  split; [split; auto|]. split; [|exact Hpq].
  (* p is the inverse of q *)
  assert (Hpk : forall k, k < length p -> nth k p 0 = index_of k q).
  { intros k Hk. assert (Hin : In k q) by (apply perm_In; auto; lia).
    pose proof (index_of_lt _ _ Hin) as Hlt.
    assert (H : nth (index_of k q) (gather 0 q p) 0 = index_of k q) by (rewrite Hc; apply seq_nth; lia).
    rewrite nth_gather in H by exact Hlt. now rewrite nth_index_of in H by exact Hin. }
  split.
  - apply (NoDup_nth p 0). intros i j Hi Hj E'. rewrite !Hpk in E' by auto.
    rewrite <- (nth_index_of q i) by (apply perm_In; auto; lia). rewrite <- (nth_index_of q j) by (apply perm_In; auto; lia). now rewrite E'.
  - apply Forall_forall. intros x Hx. apply In_nth with (d := 0) in Hx as (k & Hk & <-). rewrite Hpk by exact Hk.
    rewrite Hl. apply index_of_lt. apply perm_In; auto. lia.
Qed.

Lemma perm_of_attrs n p : perm_of n = Some p -> n_attrs n = 1 :: p.
Proof. unfold perm_of. destruct (n_attrs n) as [|[|[|k]] r]; try discriminate. intro H. now injection H as <-. Qed.

(* ================================================================ soundness: structure of a TChain action *)
Fixpoint tchain (g : tgraph) (prev : name) (chain : list node) : Prop :=
  match chain with
  | [] => True
  | n :: r => exists y, n_outs n = [y] /\ n_caps n = [] /\ In prev (n_ins n) /\ str_in (nop n) ALLOWED_ELEMWISE = true /\
                fside_ok g (String.eqb (nop n) "CastLike") prev 0 (n_ins n) = true /\ tobserved g y = false /\
                (forall m, In m (tg_nodes g) -> In y (n_ins m) -> match r with nx :: _ => m = nx | [] => True end) /\ tchain g y r
  end.

Lemma consumers_single ns y nx m : consumers ns y = [nx] -> In m ns -> In y (n_ins m) -> m = nx.
Proof.
  intros Hc Hm Hy. assert (H : In m (consumers ns y)).
  { unfold consumers. apply filter_In. split; auto. apply existsb_exists. exists y. split; auto. apply Nat.eqb_refl. }
  rewrite Hc in H. destruct H as [<-|[]]. reflexivity.
Qed.
Lemma consumers_in ns y nx : consumers ns y = [nx] -> In nx ns /\ In y (n_ins nx).
Proof.
  intro Hc. assert (H : In nx (consumers ns y)) by (rewrite Hc; now left). unfold consumers in H. apply filter_In in H as [H1 H2].
  split; auto. apply existsb_exists in H2 as (z & Hz & E). apply Nat.eqb_eq in E. now subst.
Qed.

Lemma fwalk_spec g : forall fuel cur prev acc chain T2, fwalk g fuel cur prev acc = Some (chain, T2) ->
  In cur (tg_nodes g) -> In prev (n_ins cur) ->
  exists new, chain = acc ++ new /\ tchain g prev new /\ (forall n, In n new -> In n (tg_nodes g)) /\
    In T2 (tg_nodes g) /\ is_T T2 = true /\ In (last (map out_of new) prev) (n_ins T2) /\
    match new with nx :: _ => cur = nx | [] => cur = T2 end /\
    (forall m, In m (tg_nodes g) -> In (last (map out_of new) prev) (n_ins m) -> new <> [] -> m = T2).
Proof.
  induction fuel as [|k IH]; intros cur prev acc chain T2 H Hcur Hprev; [discriminate|]. cbn [fwalk] in H.
  destruct (str_in (nop cur) ALLOWED_ELEMWISE) eqn:Ea.
  - destruct (n_outs cur) as [|y [|]] eqn:Ho; try discriminate. destruct (n_caps cur) eqn:Hc; try discriminate.
    destruct (tobserved g y) eqn:Eobs; [discriminate|].
    destruct (fside_ok g _ prev 0 (n_ins cur)) eqn:Es; [|discriminate]. cbn [negb] in H.
    destruct (consumers (tg_nodes g) y) as [|nx [|]] eqn:Ec; try discriminate.
    destruct (consumers_in _ _ _ Ec) as [Hnx Hynx].
    destruct (IH _ _ _ _ _ H Hnx Hynx) as (new & -> & Hch & Hin & HT2 & HisT & Hlast & Hhd & Hcons).
    assert (Hoy : out_of cur = y) by (unfold out_of; now rewrite Ho).
    exists (cur :: new). rewrite <- app_assoc. split; [reflexivity|]. split.
    { simpl. exists y. repeat split; auto.
      intros m Hm Hy. destruct new as [|n0 r0]; auto. subst n0. exact (consumers_single _ _ _ _ Ec Hm Hy). }
    split; [intros n [<-|Hn]; auto|]. split; [exact HT2|]. split; [exact HisT|].
    assert (Hl : last (map out_of (cur :: new)) prev = last (map out_of new) y).
    { destruct new as [|n0 r0]; [simpl; exact Hoy|].
      change (last (map out_of (cur :: n0 :: r0)) prev) with (last (map out_of (n0 :: r0)) prev). apply last_indep. discriminate. }
    rewrite Hl. split; [exact Hlast|]. split; [reflexivity|].
    intros m Hm Hy _. destruct new as [|n0 r0].
    + simpl in *. subst nx. exact (consumers_single _ _ _ _ Ec Hm Hy).
    + apply Hcons; auto. discriminate.
  - destruct (is_T cur) eqn:ET; [|discriminate]. injection H as <- <-.
    exists []. rewrite app_nil_r. simpl. split; [reflexivity|]. split; [exact I|]. split; [intros n []|].
    split; [exact Hcur|]. split; [exact ET|]. split; [exact Hprev|]. split; [reflexivity|]. intros m _ _ Hne. congruence.
Qed.

Record tchain_facts (g : tgraph) (a : action) (T1 T2 : node) (p q : list nat) : Prop := {
  tf_struct : chain_struct (tg_nodes g) (tg_outputs g) a T1 T2;
  tf_T1_op : is_T T1 = true;
  tf_T1_perm : perm_of T1 = Some p;
  tf_T1_ins : exists r, n_ins T1 = ac_src a :: r;
  tf_T2_op : is_T T2 = true;
  tf_T2_perm : perm_of T2 = Some q;
  tf_T2_reads : In (last (dirty a) 0) (n_ins T2);
  tf_inv : inv_ok p q = true;
  tf_chain : tchain g (ac_t1 a) (ac_chain a) }.

Lemma tobserved_false g v : tobserved g v = false -> ~ In v (tg_outputs g) /\ forall m, In m (tg_nodes g) -> ~ In v (n_caps m).
Proof. intro H. exact (observed_false (mkPG (tg_nodes g) (tg_outputs g) (fun _ => None) (tg_scalar g) (fun _ => None)) v H). Qed.

Lemma tchain_outs g : forall chain prev n, tchain g prev chain -> In n chain -> n_outs n = [out_of n].
Proof.
  induction chain as [|m r IH]; simpl; intros prev n H Hin; [contradiction|]. destruct H as (y & Ho & _ & _ & _ & _ & _ & _ & Hr).
  destruct Hin as [<-|Hin]; [unfold out_of; now rewrite Ho | eauto].
Qed.
Lemma tchain_unobs g : forall chain prev y, tchain g prev chain -> In y (map out_of chain) -> tobserved g y = false.
Proof.
  induction chain as [|m r IH]; simpl; intros prev y H Hin; [contradiction|]. destruct H as (y0 & Ho & _ & _ & _ & _ & Hobs & _ & Hr).
  destruct Hin as [<-|Hin]; [unfold out_of; now rewrite Ho | eauto].
Qed.
(* who reads a chain output: the next member, or (for the last one) whoever [lastc] says *)
Lemma tchain_cons g : forall chain prev x m, tchain g prev chain -> In x (map out_of chain) -> In m (tg_nodes g) -> In x (n_ins m) ->
  In m chain \/ x = last (map out_of chain) prev.
Proof.
  induction chain as [|c r IH]; simpl; intros prev x m H Hx Hm Hin; [contradiction|].
  destruct H as (y & Ho & _ & _ & _ & _ & _ & Hnext & Hr).
  assert (Hoy : out_of c = y) by (unfold out_of; now rewrite Ho). rewrite Hoy in *.
  destruct Hx as [<-|Hx].
  - destruct r as [|nx r']; [right; reflexivity|]. left. right. left. symmetry. exact (Hnext m Hm Hin).
  - destruct (IH y x m Hr Hx Hm Hin) as [H|H]; [left; now right|]. right. rewrite H.
    destruct r as [|nx r']; [contradiction|].
    change (last (map out_of (c :: nx :: r')) prev) with (last (map out_of (nx :: r')) prev). apply last_indep. discriminate.
Qed.

Lemma in_members_of_chain (a : action) g prev m : tchain g prev (ac_chain a) -> In m (ac_chain a) ->
  in_members (chain_outs a ++ [ac_t2 a]) m = true.
Proof.
  intros Hch Hm. unfold in_members. rewrite (tchain_outs g _ _ m Hch Hm). apply existsb_exists. exists (out_of m). split; [|apply Nat.eqb_refl].
  apply in_or_app. left. unfold chain_outs. apply in_map_iff. eauto.
Qed.

Lemma last_dirty_form (a : action) : last (dirty a) 0 = last (chain_outs a) (ac_t1 a).
Proof.
  unfold dirty. destruct (chain_outs a) as [|y r] eqn:E; [reflexivity|].
  change (last (ac_t1 a :: y :: r) 0) with (last (y :: r) 0). apply last_indep. discriminate.
Qed.

Lemma decide_D_chain_facts g T1 a : In T1 (tg_nodes g) -> decide_D g T1 = Some (TChain a) ->
  exists T2 p q, tchain_facts g a T1 T2 p q.
Proof.
  intros HT1 H. unfold decide_D in H.
  destruct (is_T T1) eqn:ET1; [|discriminate]. cbn [negb] in H.
  destruct (out1 T1) as [a0|] eqn:Eo1; [|discriminate].
  destruct (consumers (tg_nodes g) a0) as [|c [|c2 cr]] eqn:Ec; [discriminate| |].
  2:{ destruct (first_in T1); [|discriminate]. destruct (perm_of T1); [|discriminate].
      destruct (find _ _) as [T2|]; [|discriminate]. destruct (n_outs T2) as [|? [|]]; try discriminate.
      destruct (n_outs T1) as [|? [|]]; try discriminate. destruct (Nat.eqb _ _); discriminate. }
  destruct (tobserved g a0) eqn:Eobs; [discriminate|].
  destruct (fwalk g 8 c a0 []) as [[chain T2]|] eqn:Ew; [|discriminate].
  destruct (perm_of T1) as [p|] eqn:Ep; [|discriminate]. destruct (perm_of T2) as [q|] eqn:Eq; [|discriminate].
  destruct (n_ins T1) as [|src rest1] eqn:Hi1; [discriminate|].
  destruct (n_outs T1) as [|a0' [|]] eqn:Ho1; try discriminate.
  destruct (n_outs T2) as [|b [|]] eqn:Ho2; try discriminate.
  match type of H with (if ?c then _ else _) = _ => destruct c eqn:Ecnd; [|discriminate] end.
  injection H as <-. apply andb_prop in Ecnd as [Hinv Hnd]. apply nodupb_NoDup in Hnd.
  assert (a0' = a0) by (unfold out1 in Eo1; rewrite Ho1 in Eo1; simpl in Eo1; congruence). subst a0'.
  destruct (consumers_in _ _ _ Ec) as [Hc Ha0c].
  destruct (fwalk_spec g _ _ _ _ _ _ Ew Hc Ha0c) as (new & Hnew & Hch & Hin & HT2 & HisT & Hlast & Hhd & Hcons).
  simpl in Hnew. subst new.
  set (a := mkAct src a0 chain b) in *.
  exists T2, p, q. constructor; cbn [ac_src ac_t1 ac_chain ac_t2]; auto; [| eauto |].
  - constructor; cbn [ac_src ac_t1 ac_chain ac_t2]; auto.
    + intros n Hn. exact (tchain_outs g _ _ n Hch Hn).
    + intros x [<-|Hx]; apply tobserved_false; auto. eapply tchain_unobs; eauto.
    + intros x m Hx Hm Hxm. destruct Hx as [<-|Hx].
      * pose proof (consumers_single _ _ _ _ Ec Hm Hxm) as ->.
        destruct chain as [|nx r]; [subst c|subst c; apply (in_members_of_chain a g a0); auto; now left].
        unfold in_members. rewrite Ho2. simpl. now rewrite Nat.eqb_refl.
      * unfold chain_outs, a in Hx. cbn [ac_chain] in Hx.
        destruct (tchain_cons g _ _ x m Hch Hx Hm Hxm) as [Hmc|Hxl].
        { apply (in_members_of_chain a g a0); auto. }
        assert (Hne : chain <> []) by (intro E; rewrite E in Hx; contradiction).
        rewrite Hxl in Hxm. rewrite (Hcons m Hm Hxm Hne).
        unfold in_members. rewrite Ho2. apply existsb_exists. exists b. split; [|apply Nat.eqb_refl]. apply in_or_app. right. now left.
  - rewrite last_dirty_form. exact Hlast.
Qed.

(* ================================================================ soundness of the chain / direct-pair actions *)
Lemma tchain_in g : forall chain prev0 c, tchain g prev0 chain -> castlike_data_first prev0 chain = true -> In c chain ->
  exists prev y, In prev (prev0 :: map out_of chain) /\ n_outs c = [y] /\ In y (map out_of chain) /\ n_caps c = [] /\
    In prev (n_ins c) /\ str_in (nop c) ALLOWED_ELEMWISE = true /\
    fside_ok g (String.eqb (nop c) "CastLike") prev 0 (n_ins c) = true /\
    (nop c = "CastLike"%string -> exists r, n_ins c = prev :: r).
Proof.
  induction chain as [|m r IH]; simpl; intros prev0 c H Hdf Hin; [contradiction|].
  destruct H as (y & Ho & Hc & Hp & Ha & Hs & _ & _ & Hr). apply andb_prop in Hdf as [Hd1 Hd2].
  assert (Hoy : out_of m = y) by (unfold out_of; now rewrite Ho). rewrite Hoy in *.
  destruct Hin as [<-|Hin].
  - exists prev0, y. repeat split; auto. intro Hcl. rewrite Hcl in Hd1. simpl in Hd1.
    destruct (n_ins m) as [|x rest]; [discriminate|]. apply Nat.eqb_eq in Hd1. subst x. eauto.
  - destruct (IH y c Hr Hd2 Hin) as (prev & y' & Hp' & H1 & H2 & H3 & H4 & H5 & H6 & H7).
    exists prev, y'. repeat split; auto. all: try (destruct Hp' as [<-|Hp']; [right; now left | right; now right]).
Qed.

Lemma pwn_rank_ge {A} (F : list A -> A) vs v : In v vs -> length (shape v) <= length (shape (pwn F vs)).
Proof.
  intro Hin. pose proof (prank_ge vs v Hin) as H. unfold pwn. cbn [shape]. rewrite app_length, repeat_length. lia.
Qed.

(* the operands of an elementwise node are one-element tensors or have ONE common shape (no genuine broadcasting between
   two multi-element operands) in the run at hand: part of what the region theorems need from the world *)
Definition uniform_operands (A : Type) (sem : string -> list nat -> list (tensor A) -> option (list (tensor A)))
  (g : tgraph) (e : env (tensor A)) : Prop :=
  forall ef n vs, eval (tensor A) sem (tg_nodes g) e = Some ef -> In n (tg_nodes g) -> is_elem n = true ->
    str_in (nop n) pw_ops_all = true -> lookups (tensor A) ef (n_uses n) = Some vs -> operands_ok vs.

(* every operator a chain member may have is in the elementwise tables of the DAG phases *)
Lemma allowed_is_elem n : str_in (nop n) ALLOWED_ELEMWISE = true -> is_elem n = true.
Proof.
  intro H. apply str_in_In in H.
  assert (Hall : forallb (fun o => str_in o ELEMENTWISE_UNARY_OPS || str_in o ELEMENTWISE_BINARY_OPS) ALLOWED_ELEMWISE = true) by (vm_compute; reflexivity).
  rewrite forallb_forall in Hall. exact (Hall _ H).
Qed.

(* what a fold leaves of the old run: outside [changed] every value is kept (teq); the nodes producing a changed name are
   elementwise, without nested graphs, and are nodes of the rewritten graph *)
Definition frame3 (A : Type) (sem : string -> list nat -> list (tensor A) -> option (list (tensor A))) (ns' : list node)
  (changed : list name) (e ef : env (tensor A)) : Prop :=
  (exists ef', eval (tensor A) sem ns' e = Some ef' /\ forall x w, ef' x = Some w -> exists v, ef x = Some v /\ (In x changed \/ teq v w)) /\
  (forall n y, In n ns' -> In y (n_outs n) -> In y changed -> is_elem n = true /\ n_caps n = []) /\
  (forall y, In y changed -> In y (defs ns')).

Section TSound.
  Variable A : Type.
  Notation V := (tensor A).
  Variable sem : string -> list nat -> list V -> option (list V).
  Hypothesis sem_proper : forall op ats vs vs' o, Forall2 teq vs vs' -> sem op ats vs = Some o ->
    exists o', sem op ats vs' = Some o' /\ Forall2 teq o o'.
  Hypothesis Htr : sem_transpose_spec A sem op_type.
  Variable F : string -> list nat -> list A -> A.
  Hypothesis Hpw : sem_pointwise_spec_n A sem op_type F.
  Variable Fcl : list nat -> V -> A -> A.
  Hypothesis Hcl : sem_castlike_spec_n A sem op_type Fcl.
  Hypothesis Hcl_type : castlike_type_only A Fcl.
  Hypothesis Hacc : sem_accepts_spec_n A sem op_type.

  Notation evalg := (eval V sem).
  Notation stepg := (step V sem).
  Notation refinesg := (refines V teq sem).

  (* SSA, and values flagged by _is_scalar_const_value have one element (annotation truth: property C08) *)
  Record tadmissible (g : tgraph) (e : env V) : Prop := {
    tadm_ssa : ssa V (tg_nodes g) e;
    tadm_scalar : forall ef x v, evalg (tg_nodes g) e = Some ef -> tg_scalar g x = true -> ef x = Some v -> all1 (shape v) = true }.

  Lemma lookups_In_val (E : env V) : forall xs vs u v, lookups V E xs = Some vs -> In u xs -> E u = Some v -> In v vs.
  Proof.
    induction xs as [|x r IH]; simpl; intros vs u v Hl Hu Hv; [contradiction|].
    destruct (E x) as [a|] eqn:Ex; [|discriminate]. destruct (lookups V E r) as [ws|] eqn:Er; [|discriminate]. injection Hl as <-.
    destruct Hu as [->|Hu]; [left; congruence | right; eauto].
  Qed.
  Lemma lookups_single (E : env V) xs x u : lookups V E xs = Some [x] -> In u xs -> E u = Some x.
  Proof.
    destruct xs as [|y [|z r]]; simpl; intros Hl Hu; try contradiction.
    - destruct (E y) eqn:Ey; [|discriminate]. injection Hl as <-. destruct Hu as [<-|[]]. exact Ey.
    - destruct (E y); [|discriminate]. destruct (E z); [|discriminate]. destruct (lookups V E r); discriminate.
  Qed.

  Lemma tnode_val n perm vs o : is_T n = true -> perm_of n = Some perm -> sem (n_op n) (n_attrs n) vs = Some o ->
    exists x y, vs = [x] /\ o = [y] /\ teq y (transpose perm x) /\ length perm = length (shape x).
  Proof.
    intros HT Hp Hs. unfold is_T, nop in HT. apply String.eqb_eq in HT. rewrite (perm_of_attrs _ _ Hp) in Hs.
    exact (Htr _ _ _ _ HT Hs).
  Qed.

  Lemma tside_operands g (E : env V) (r : name -> name) prev x :
    E (r prev) = Some x -> forall ins pos vs, fside_ok g false prev pos ins = true ->
    (forall u w, In u ins -> tg_scalar g u = true -> E (r u) = Some w -> all1 (shape w) = true) ->
    lookups V E (map r ins) = Some vs -> Forall (fun v => all1 (shape v) = true \/ shape v = shape x) vs.
  Proof.
    intros Hp. induction ins as [|u rest IH]; intros pos vs Hs Hsc Hl.
    - simpl in Hl. injection Hl as <-. constructor.
    - cbn [map lookups] in Hl. destruct (E (r u)) as [w|] eqn:Eu; [|discriminate].
      destruct (lookups V E (map r rest)) as [ws|] eqn:El; [|discriminate]. injection Hl as <-.
      cbn [fside_ok andb] in Hs. apply andb_prop in Hs as [H1 H2]. constructor.
      + rewrite orb_false_r in H1. apply orb_prop in H1 as [H1|H1].
        * apply Nat.eqb_eq in H1. subst u. rewrite Hp in Eu. injection Eu as <-. now right.
        * left. apply (Hsc u w); auto. now left.
      + apply (IH (S pos)); auto. intros u0 w0 Hu0. apply Hsc. now right.
  Qed.

  Lemma fside_scalar g : forall ins pos prev u, fside_ok g false prev pos ins = true -> In u ins -> u = prev \/ tg_scalar g u = true.
  Proof.
    induction ins as [|x rest IH]; intros pos prev u Hs Hu; [contradiction|].
    cbn [fside_ok andb] in Hs. apply andb_prop in Hs as [H1 H2]. destruct Hu as [<-|Hu]; [|eapply IH; eauto].
    rewrite orb_false_r in H1. apply orb_prop in H1 as [H1|H1]; [left; now apply Nat.eqb_eq in H1 | now right].
  Qed.

  Lemma castlike_not_pw : str_in "CastLike" pw_ops = false.
  Proof. vm_compute. reflexivity. Qed.

  Section TAction.
    Variables (g : tgraph) (a : action) (T1 T2 : node) (p q : list nat) (e ef : env V).
    Hypothesis Hadm : tadmissible g e.
    Hypothesis Htf : tchain_facts g a T1 T2 p q.
    Hypothesis Hdf : castlike_data_first (ac_t1 a) (ac_chain a) = true.
    Hypothesis Hev : evalg (tg_nodes g) e = Some ef.
    Let Hcs := tf_struct _ _ _ _ _ _ Htf.
    Let Hnd : NoDup (defs (tg_nodes g)) := proj1 (tadm_ssa _ _ Hadm).
    Let Hinv : is_inverse p q := proj1 (inv_ok_perms p q (tf_inv _ _ _ _ _ _ Htf)).
    Let Hp : is_perm p := proj1 (proj2 (inv_ok_perms p q (tf_inv _ _ _ _ _ _ Htf))).
    Let Hq : is_perm q := proj2 (proj2 (inv_ok_perms p q (tf_inv _ _ _ _ _ _ Htf))).

    Definition tinD (x : name) : bool := existsb (Nat.eqb x) (dirty a).
    Definition trl (x : name) (v w : V) : Prop := if tinD x then tfull p v w else teq v w.
    Notation Inv := (rinv V (rho a) trl).

    Lemma tinD_In x : tinD x = true <-> In x (dirty a).
    Proof.
      unfold tinD. rewrite existsb_exists. split.
      - intros (y & Hy & E). apply Nat.eqb_eq in E. now subst.
      - intro H. exists x. split; auto. apply Nat.eqb_refl.
    Qed.
    Lemma tinD_false x : ~ In x (dirty a) -> tinD x = false.
    Proof. intro H. destruct (tinD x) eqn:E; auto. apply tinD_In in E. contradiction. Qed.
    Lemma trl_teq x v w : tinD x = false -> trl x v w -> teq v w.
    Proof. unfold trl. now intros ->. Qed.
    Lemma trl_full x v w : In x (dirty a) -> trl x v w -> tfull p v w.
    Proof. unfold trl. intro H. apply tinD_In in H. now rewrite H. Qed.
    Lemma trl_same_elems x v w : trl x v w -> same_elems v w.
    Proof.
      unfold trl. destruct (tinD x); intro H; [|now apply teq_same_elems]. apply (trel_same_elems p); auto. now left.
    Qed.

    Lemma trl_list_teq xs0 vs ws : (forall x, In x xs0 -> tinD x = false) -> rel_list V trl xs0 vs ws -> Forall2 teq vs ws.
    Proof.
      intros H Hr. induction Hr as [|x v w xr vr wr Hx _ IH]; constructor.
      - apply (trl_teq x); auto. apply H. now left.
      - apply IH. intros; apply H; now right.
    Qed.
    Lemma trl_list_of_teq : forall xs0 vs ws, Forall2 teq vs ws -> length vs = length xs0 ->
      (forall x, In x xs0 -> tinD x = false) -> rel_list V trl xs0 vs ws.
    Proof.
      induction xs0 as [|x xr IH]; intros vs ws H2 Hl Hx; destruct H2 as [|v w vr wr Hvw H2]; simpl in Hl; try discriminate; constructor.
      - unfold trl. now rewrite (Hx x (or_introl eq_refl)).
      - apply IH; auto. intros; apply Hx; now right.
    Qed.
    Lemma trl_list_same xs0 vs ws : rel_list V trl xs0 vs ws -> Forall2 same_elems vs ws.
    Proof. induction 1; constructor; eauto using trl_same_elems. Qed.

    Lemma chain_out_defined c : In c (ac_chain a) -> In (out_of c) (defs (tg_nodes g)).
    Proof.
      intro Hc. unfold defs. apply in_flat_map. exists c. split; [now apply (cs_chain_in _ _ _ _ _ Hcs)|].
      rewrite (cs_chain_outs _ _ _ _ _ Hcs c Hc). now left.
    Qed.

    Lemma tinv_init : Inv e e.
    Proof.
      pose proof (proj2 (tadm_ssa _ _ Hadm)) as Hfree. split; [|auto]. intros x v Hx.
      assert (Hnd' : ~ In x (defs (tg_nodes g))) by (intro Hd; rewrite (Hfree _ Hd) in Hx; discriminate).
      assert (H1 : x <> ac_t1 a).
      { intros ->. apply Hnd'. unfold defs. apply in_flat_map. exists T1. split; [apply (cs_T1_in _ _ _ _ _ Hcs)|].
        rewrite (cs_T1_outs _ _ _ _ _ Hcs). now left. }
      assert (H2 : x <> ac_t2 a).
      { intros ->. apply Hnd'. unfold defs. apply in_flat_map. exists T2. split; [apply (cs_T2_in _ _ _ _ _ Hcs)|].
        rewrite (cs_T2_outs _ _ _ _ _ Hcs). now left. }
      rewrite (rho_other a x H1 H2). exists v. split; auto. unfold trl. rewrite tinD_false; [apply teq_refl|].
      intros [E|Hc]; [now symmetry in E|]. apply Hnd'. unfold chain_outs in Hc. apply in_map_iff in Hc as (c & <- & Hcin).
      now apply chain_out_defined.
    Qed.

    Lemma tsrc_clean : tinD (ac_src a) = false /\ ac_src a <> ac_t1 a /\ ac_src a <> ac_t2 a.
    Proof.
      split; [|split; [eapply src_ne_t1 | eapply src_ne_t2]; eauto].
      apply tinD_false. intro H. apply (src_not_dirty _ _ a T1 T2 Hcs). apply in_or_app. now left.
    Qed.

    Lemma tT1_step em em' e1 : em (ac_t1 a) = None -> Inv em em' -> stepg em T1 = Some e1 -> Inv e1 em'.
    Proof.
      intros Hfresh Hi Hs.
      apply (rinv_dropped_step V sem (rho a) trl em em' T1 (ac_t1 a) e1 Hi Hs (cs_T1_outs _ _ _ _ _ Hcs) Hfresh).
      intros vs v Hl Hsem.
      destruct (tnode_val T1 p vs [v] (tf_T1_op _ _ _ _ _ _ Htf) (tf_T1_perm _ _ _ _ _ _ Htf) Hsem) as (x & y & -> & Hy & Hyt & Hlen).
      injection Hy as <-.
      destruct (tf_T1_ins _ _ _ _ _ _ Htf) as [r Hins]. unfold n_uses in Hl. rewrite Hins in Hl. cbn [app] in Hl.
      destruct (lookups_cons_inv V _ _ _ _ Hl) as (x0 & vr & Ex & _ & Evs). injection Evs as <- _.
      destruct Hi as [Hi1 _]. destruct (Hi1 _ _ Ex) as (w & Ew & Hr).
      destruct tsrc_clean as (Hc1 & Hc2 & Hc3). rewrite (rho_other a _ Hc2 Hc3) in Ew.
      pose proof (trl_teq _ _ _ Hc1 Hr) as Hxw.
      exists w. rewrite (rho_t1 _ _ a T1 T2 Hcs). split; auto.
      unfold trl. rewrite (proj2 (tinD_In _) (t1_dirty a)). split.
      - eapply teq_trans; [exact Hyt|]. apply transpose_teq; auto.
      - rewrite <- (proj1 Hxw). now symmetry.
    Qed.

    Lemma tT2_step em em' e1 : em (ac_t2 a) = None -> Inv em em' -> stepg em T2 = Some e1 -> Inv e1 em'.
    Proof.
      intros Hfresh Hi Hs.
      apply (rinv_dropped_step V sem (rho a) trl em em' T2 (ac_t2 a) e1 Hi Hs (cs_T2_outs _ _ _ _ _ Hcs) Hfresh).
      intros vs v Hl Hsem.
      destruct (tnode_val T2 q vs [v] (tf_T2_op _ _ _ _ _ _ Htf) (tf_T2_perm _ _ _ _ _ _ Htf) Hsem) as (x & y & -> & Hy & Hyt & Hlen).
      injection Hy as <-.
      assert (Ex : em (last (dirty a) 0) = Some x).
      { apply (lookups_single em (n_uses T2)); auto. unfold n_uses. apply in_or_app. left. exact (tf_T2_reads _ _ _ _ _ _ Htf). }
      destruct Hi as [Hi1 _]. destruct (Hi1 _ _ Ex) as (w & Ew & Hr).
      rewrite (last_dirty _ _ a T1 T2 Hcs) in Ew.
      destruct (trl_full _ _ _ (last_dirty_in a) Hr) as [Hxw Hlw].
      exists w. rewrite (rho_t2 a). split; auto.
      unfold trl. rewrite (tinD_false _ (t2_not_dirty _ _ a T1 T2 Hcs)).
      eapply teq_trans; [exact Hyt|]. eapply teq_trans; [apply transpose_teq; [exact Hq | exact Hlen | exact Hxw]|].
      apply transpose_inverse; auto.
    Qed.

    Lemma tother_outs n : In n (tg_nodes g) -> keep a n = true -> in_members (chain_outs a) n = false ->
      forall y, In y (n_outs n) -> tinD y = false /\ y <> ac_t2 a /\ y <> ac_t1 a.
    Proof.
      intros Hn Hk Hnm y Hy. unfold keep in Hk. apply andb_prop in Hk as [Hk1 Hk2]. apply negb_true_iff in Hk1, Hk2.
      assert (H1 : y <> ac_t1 a).
      { intros ->. rewrite (T1_unique _ _ a T1 T2 Hnd Hcs n Hn Hy) in Hk1.
        rewrite (node_is_true _ _ (cs_T1_outs _ _ _ _ _ Hcs)) in Hk1. discriminate. }
      assert (H2 : y <> ac_t2 a).
      { intros ->. rewrite (T2_unique _ _ a T1 T2 Hnd Hcs n Hn Hy) in Hk2.
        rewrite (node_is_true _ _ (cs_T2_outs _ _ _ _ _ Hcs)) in Hk2. discriminate. }
      split; [|split]; auto. apply tinD_false. intros [E|Hc]; [now symmetry in E|].
      unfold chain_outs in Hc. apply in_map_iff in Hc as (c & Hc & Hcin).
      pose proof (cs_chain_outs _ _ _ _ _ Hcs c Hcin) as Ho. rewrite Hc in Ho.
      assert (n = c).
      { eapply (defs_unique (tg_nodes g)); eauto; [now apply (cs_chain_in _ _ _ _ _ Hcs) | rewrite Ho; now left]. }
      subst c. destruct (chain_nonempty_member _ _ a T1 T2 Hcs n Hcin). congruence.
    Qed.

    Lemma tother_step n em em' e1 : In n (tg_nodes g) -> keep a n = true -> in_members (chain_outs a) n = false ->
      (forall y, In y (n_outs n) -> em y = None) -> NoDup (n_outs n) ->
      Inv em em' -> stepg em n = Some e1 -> exists e1', stepg em' (subst_map (rho a) n) = Some e1' /\ Inv e1 e1'.
    Proof.
      intros Hn Hk Hnm Hfresh Hndo Hi Hs. pose proof (tother_outs n Hn Hk Hnm) as Houts.
      apply (rinv_kept_step V teq sem (rho a) trl em em' n e1 Hi Hs); auto.
      - intros y Hy. destruct (Houts y Hy) as (_ & H2 & H1). now apply rho_other.
      - intros vs vs' o Hl Hl' Hrl Hsem Hlen.
        assert (Hteq : Forall2 teq vs vs').
        { apply (trl_list_teq (n_uses n)); auto. intros x Hx. apply tinD_false. intro Hd.
          exact (kept_clean _ _ a T1 T2 Hcs n x Hn Hk Hnm Hd Hx). }
        destruct (sem_proper _ _ _ _ _ Hteq Hsem) as (o' & Hs' & Ho). exists o'. split; auto.
        apply trl_list_of_teq; auto. intros y Hy. now destruct (Houts y Hy).
    Qed.

    Lemma touts_related ef' o : Inv ef ef' -> lookups V ef (tg_outputs g) = Some o ->
      exists o', lookups V ef' (map (rho a) (tg_outputs g)) = Some o' /\ Forall2 teq o o'.
    Proof.
      intros Hi Hl. destruct (rinv_lookups V (rho a) trl _ _ _ _ Hi Hl) as (o' & Hl' & Hr).
      exists o'. split; auto. apply (trl_list_teq (tg_outputs g)); auto.
      intros x Hx. apply tinD_false. intro Hd. destruct (cs_unobs _ _ _ _ _ Hcs x Hd) as [H _]. contradiction.
    Qed.

    (* ---- ranks along the chain, in the final environment of the original run: every operand of a pointwise member
            has at most |p| dimensions, because ranks only grow along the chain and T2 accepted its last value *)
    Lemma tchain_ranks : forall chain prev, tchain g prev chain -> castlike_data_first prev chain = true ->
      (forall c, In c chain -> In c (tg_nodes g)) ->
      (forall vl, ef (last (map out_of chain) prev) = Some vl -> length (shape vl) <= length p) ->
      (forall vp, ef prev = Some vp -> length (shape vp) <= length p) /\
      (forall c, In c chain -> str_in (nop c) pw_ops = true -> forall u v, In u (n_ins c) -> ef u = Some v -> length (shape v) <= length p).
    Proof.
      induction chain as [|c r IH]; intros prev Hch Hdf0 Hin Hlast; [split; [exact Hlast | intros c []]|].
      simpl in Hch. destruct Hch as (y & Ho & Hc & Hp0 & Ha & Hs & _ & _ & Hr). simpl in Hdf0. apply andb_prop in Hdf0 as [Hd1 Hd2].
      assert (Hoy : out_of c = y) by (unfold out_of; now rewrite Ho). rewrite Hoy in Hd2.
      assert (Hl : last (map out_of (c :: r)) prev = last (map out_of r) y).
      { destruct r as [|n0 r0]; [simpl; exact Hoy|].
        change (last (map out_of (c :: n0 :: r0)) prev) with (last (map out_of (n0 :: r0)) prev). apply last_indep. discriminate. }
      rewrite Hl in Hlast.
      destruct (IH y Hr Hd2 (fun c0 H => Hin c0 (or_intror H)) Hlast) as [IHy IHr].
      (* the value of c in ef *)
      destruct (eval_consistent V sem _ _ _ c (tadm_ssa _ _ Hadm) Hev (Hin c (or_introl eq_refl))) as (vs & o & Hlk & Hsem & Hlo).
      unfold n_uses in Hlk. rewrite Hc, app_nil_r in Hlk. rewrite Ho in Hlo.
      assert (Hyv : exists yv, o = [yv] /\ ef y = Some yv).
      { simpl in Hlo. destruct (ef y) as [yv|]; [|discriminate]. injection Hlo as <-. eauto. }
      destruct Hyv as (yv & -> & Ey). pose proof (IHy _ Ey) as Hry.
      assert (Hcase : (forall vp, ef prev = Some vp -> length (shape vp) <= length p) /\
                      (str_in (nop c) pw_ops = true -> forall u v, In u (n_ins c) -> ef u = Some v -> length (shape v) <= length p)).
      { destruct (allowed_in_pw _ Ha) as [Hop|Hop].
        - (* CastLike: the data operand is the chain value *)
          split; [|rewrite Hop, castlike_not_pw; discriminate].
          destruct (Hcl _ _ _ _ Hop Hsem) as (x0 & t & y0 & -> & Hy0 & Hyt). injection Hy0 as <-.
          rewrite Hop in Hd1. simpl in Hd1.
          destruct (n_ins c) as [|i0 rest]; [discriminate|]. apply Nat.eqb_eq in Hd1. subst i0.
          simpl in Hlk. destruct (ef prev) as [vp|] eqn:Ep; [|discriminate]. destruct (lookups V ef rest); [|discriminate].
          injection Hlk as <- _. intros vp0 E0. injection E0 as <-. rewrite (proj1 Hyt) in Hry. exact Hry.
        - assert (Hcl0 : String.eqb (nop c) "CastLike" = false).
          { destruct (String.eqb_spec (nop c) "CastLike") as [E|]; auto. rewrite E, castlike_not_pw in Hop. discriminate. }
          rewrite Hcl0 in Hs.
          destruct (ef prev) as [vp|] eqn:Ep; [|exfalso; exact (lookups_defined V ef _ _ prev Hlk Hp0 Ep)].
          assert (Hd : Forall (fun v => all1 (shape v) = true \/ shape v = shape vp) vs).
          { apply (tside_operands g ef (fun u => u) prev vp Ep (n_ins c) 0 vs Hs).
            - intros u w _ Hsc Eu. exact (tadm_scalar _ _ Hadm ef u w Hev Hsc Eu).
            - now rewrite map_id. }
          assert (Hvp : In vp vs) by exact (lookups_In_val ef _ _ _ _ Hlk Hp0 Ep).
          destruct (Hpw _ _ _ _ Hop Hsem (operands_ok_data vp vs Hvp Hd)) as (y0 & Hy0 & Hyt). injection Hy0 as <-.
          assert (Hall : forall u v, In u (n_ins c) -> ef u = Some v -> length (shape v) <= length p).
          { intros u v Hu Ev. pose proof (lookups_In_val ef _ _ _ _ Hlk Hu Ev) as Hv.
            pose proof (pwn_rank_ge (F (op_type (n_op c)) (n_attrs c)) vs v Hv) as H. rewrite <- (proj1 Hyt) in H. lia. }
          split; [|intros _; exact Hall]. intros vp0 E0. injection E0 as <-. exact (Hall prev vp Hp0 Ep). }
      destruct Hcase as [H1 H2]. split; [exact H1|].
      intros c0 [<-|Hc0]; [exact H2 | now apply IHr].
    Qed.

    Lemma chain_rank_bound c : In c (ac_chain a) -> str_in (nop c) pw_ops = true ->
      forall u v, In u (n_ins c) -> ef u = Some v -> length (shape v) <= length p.
    Proof.
      apply (tchain_ranks (ac_chain a) (ac_t1 a) (tf_chain _ _ _ _ _ _ Htf) Hdf (cs_chain_in _ _ _ _ _ Hcs)).
      intros vl El. change (last (map out_of (ac_chain a)) (ac_t1 a)) with (last (chain_outs a) (ac_t1 a)) in El.
      rewrite <- last_dirty_form in El.
      (* T2 accepted it: its rank is |q| = |p| *)
      destruct (eval_consistent V sem _ _ _ T2 (tadm_ssa _ _ Hadm) Hev (cs_T2_in _ _ _ _ _ Hcs)) as (vs & o & Hlk & Hsem & _).
      destruct (tnode_val T2 q vs o (tf_T2_op _ _ _ _ _ _ Htf) (tf_T2_perm _ _ _ _ _ _ Htf) Hsem) as (x & y & -> & _ & _ & Hlen).
      assert (Ex : ef (last (dirty a) 0) = Some x).
      { apply (lookups_single ef (n_uses T2)); auto. unfold n_uses. apply in_or_app. left. exact (tf_T2_reads _ _ _ _ _ _ Htf). }
      rewrite El in Ex. injection Ex as ->. rewrite <- Hlen. rewrite (proj1 Hinv). auto.
    Qed.

    (* ---- a member of the chain: computes the transposed value in the other layout *)
    Lemma trel_operands c prev : In prev (dirty a) -> fside_ok g false prev 0 (n_ins c) = true ->
      forall em vs vs', (forall x v, em x = Some v -> ef x = Some v) -> lookups V em (n_ins c) = Some vs ->
      rel_list V trl (n_ins c) vs vs' -> Forall2 (trel p) vs vs'.
    Proof.
      intros Hprev Hs em vs vs' Hle Hl Hrl.
      assert (Hgen : forall ins vs0 vs0', rel_list V trl ins vs0 vs0' -> (forall u, In u ins -> u = prev \/ tg_scalar g u = true) ->
                lookups V em ins = Some vs0 -> Forall2 (trel p) vs0 vs0').
      { intros ins vs0 vs0' Hr0. induction Hr0 as [|u v w xs0 vs1 ws1 Hrel Hrest IH]; intros Hsc Hl0; constructor.
        - destruct (lookups_cons_inv V _ _ _ _ Hl0) as (v0 & vr0 & Eu & _ & Evs). injection Evs as <- _.
          unfold trl in Hrel. destruct (tinD u) eqn:ED; [now left|]. right. split; auto.
          destruct (Hsc u (or_introl eq_refl)) as [->|Hsu]; [apply tinD_In in Hprev; congruence|].
          exact (tadm_scalar _ _ Hadm ef u _ Hev Hsu (Hle _ _ Eu)).
        - destruct (lookups_cons_inv V _ _ _ _ Hl0) as (v0 & vr0 & _ & Er & Evs). injection Evs as _ <-.
          apply IH; auto. intros u0 Hu0. apply Hsc. now right. }
      apply (Hgen (n_ins c)); auto. intros u Hu. exact (fside_scalar g _ _ _ _ Hs Hu).
    Qed.

    Lemma tchain_step c em em' e1 : In c (ac_chain a) ->
      (forall x v, em x = Some v -> ef x = Some v) ->
      (forall y, In y (n_outs c) -> em y = None) -> NoDup (n_outs c) ->
      Inv em em' -> stepg em c = Some e1 -> exists e1', stepg em' (subst_map (rho a) c) = Some e1' /\ Inv e1 e1'.
    Proof.
      intros Hc Hle Hfresh Hndo Hi Hs.
      destruct (tchain_in g _ _ c (tf_chain _ _ _ _ _ _ Htf) Hdf Hc) as (prev & y & Hprev & Ho & Hy & Hcaps & Hpin & Hallow & Hside & Hfirst).
      assert (HpD : In prev (dirty a)) by exact Hprev.
      assert (HyD : tinD y = true) by (apply tinD_In; now right).
      apply (rinv_kept_step V teq sem (rho a) trl em em' c e1 Hi Hs); auto.
      { intros y0 Hy0. rewrite Ho in Hy0. destruct Hy0 as [<-|[]]. now apply (rho_chain_out _ _ a T1 T2 Hcs). }
      intros vs vs' o Hl Hl' Hrl Hsem Hlen.
      unfold n_uses in Hl, Hl', Hrl. rewrite Hcaps, app_nil_r in Hl, Hl', Hrl.
      pose proof (trl_list_same _ _ _ Hrl) as Hse.
      destruct Hi as [Hi1 Hi2].
      destruct (em prev) as [x|] eqn:Ex; [|exfalso; exact (lookups_defined V em _ _ prev Hl Hpin Ex)].
      destruct (Hi1 _ _ Ex) as (x' & Ex' & Hrx). destruct (trl_full _ _ _ HpD Hrx) as [Hxx' Hlx'].
      destruct (allowed_in_pw _ Hallow) as [Hop|Hop].
      - (* CastLike(chain value, type operand) *)
        destruct (Hfirst Hop) as [rest Hins].
        destruct (Hcl _ _ _ _ Hop Hsem) as (x0 & t & yv & Evs0 & -> & Hyv). subst vs.
        rewrite Hins in Hl, Hl', Hrl. simpl in Hl. rewrite Ex in Hl.
        destruct (lookups V em rest) as [vr|]; [|discriminate]. injection Hl as Ex0 Evr. subst x0.
        assert (Hacc' : sem (n_op c) (n_attrs c) vs' <> None).
        { apply (Hacc (n_op c) (n_attrs c) [x; t] vs'); [unfold nop in Hop; rewrite Hop; reflexivity | congruence | exact Hse | now left]. }
        destruct (sem (n_op c) (n_attrs c) vs') as [o'|] eqn:Es'; [|contradiction].
        destruct (Hcl _ _ _ _ Hop Es') as (x1 & t' & yv' & Evs1 & -> & Hyv'). subst vs'.
        cbn [map] in Hl'. simpl in Hl'. rewrite Ex' in Hl'. destruct (lookups V em' (map (rho a) rest)); [|discriminate].
        injection Hl' as Ex1 _. subst x1.
        exists [yv']. split; auto. rewrite Ho. constructor; [|constructor]. unfold trl. rewrite HyD.
        inversion Hse as [|? ? ? ? _ Hse2]; subst. inversion Hse2 as [|? ? ? ? Htt' _]; subst.
        assert (Hlen' : length p = length (shape yv')) by (rewrite (proj1 Hyv'); simpl; now symmetry).
        split; [|now symmetry].
        eapply teq_trans; [exact Hyv|]. eapply teq_trans; [apply tmap_teq; exact Hxx'|].
        eapply teq_trans; [apply tmap_transpose|].
        apply transpose_teq; auto. eapply teq_trans; [|apply teq_sym; exact Hyv'].
        split; [reflexivity|]. simpl. intros idx _. apply Hcl_type. exact Htt'.
      - (* pointwise with one-element side operands *)
        assert (Hcl0 : String.eqb (nop c) "CastLike" = false).
        { destruct (String.eqb_spec (nop c) "CastLike") as [E|]; auto. rewrite E, castlike_not_pw in Hop. discriminate. }
        rewrite Hcl0 in Hside.
        assert (Hd : Forall (fun v => all1 (shape v) = true \/ shape v = shape x) vs).
        { apply (tside_operands g em (fun u => u) prev x Ex (n_ins c) 0 vs Hside).
          - intros u w _ Hsc Eu. exact (tadm_scalar _ _ Hadm ef u w Hev Hsc (Hle _ _ Eu)).
          - now rewrite map_id. }
        assert (Hxin : In x vs) by exact (lookups_In_val em _ _ _ _ Hl Hpin Ex).
        assert (Hok : operands_ok vs) by exact (operands_ok_data x vs Hxin Hd).
        pose proof (trel_operands c prev HpD Hside em vs vs' Hle Hl Hrl) as Htr2.
        assert (Hrank : Forall (fun v => length (shape v) <= length p) vs).
        { apply (lookups_Forall V _ em (n_ins c) vs Hl). intros u w Hu Ew. exact (chain_rank_bound c Hc Hop u w Hu (Hle _ _ Ew)). }
        assert (Hex : Exists (fun v => length (shape v) = length p) vs).
        { apply Exists_exists. exists x. split; auto. rewrite (proj1 Hxx'). simpl. apply gather_length. }
        destruct (pwn_transpose (F (op_type (n_op c)) (n_attrs c)) p vs vs' Hp Htr2 Hex Hrank Hok) as (Hok' & Hteq & Hlen').
        destruct (Hpw _ _ _ _ Hop Hsem Hok) as (yv & -> & Hyv).
        assert (Hacc' : sem (n_op c) (n_attrs c) vs' <> None).
        { apply (Hacc (n_op c) (n_attrs c) vs vs'); [apply str_in_In; apply in_or_app; left; now apply str_in_In | congruence | exact Hse | now right]. }
        destruct (sem (n_op c) (n_attrs c) vs') as [o'|] eqn:Es'; [|contradiction].
        destruct (Hpw _ _ _ _ Hop Es' Hok') as (yv' & -> & Hyv').
        exists [yv']. split; auto. rewrite Ho. constructor; [|constructor]. unfold trl. rewrite HyD. split.
        + eapply teq_trans; [exact Hyv|]. eapply teq_trans; [exact Hteq|].
          apply transpose_teq; auto. now apply teq_sym.
        + now rewrite (proj1 Hyv').
    Qed.

    Lemma taction_step_all pre n post em em' e1 : tg_nodes g = pre ++ n :: post -> evalg pre e = Some em ->
      (forall x v, em x = Some v -> ef x = Some v) -> Inv em em' -> stepg em n = Some e1 ->
      (forall x v, e1 x = Some v -> ef x = Some v) ->
      if keep a n then exists e1', stepg em' (subst_map (rho a) n) = Some e1' /\ Inv e1 e1' else Inv e1 em'.
    Proof.
      intros Hsplit Hpre Hle Hi Hs Hle1. pose proof (tadm_ssa _ _ Hadm) as Hssa.
      destruct (fresh_at V sem _ _ _ _ _ _ Hssa Hsplit Hpre) as [Hfresh Hndo].
      assert (Hn : In n (tg_nodes g)) by (rewrite Hsplit; apply in_or_app; right; now left).
      destruct (keep a n) eqn:Hk.
      - destruct (in_members (chain_outs a) n) eqn:Hm.
        + apply (tchain_step n em em' e1); auto. exact (chain_member _ _ a T1 T2 Hnd Hcs n Hn Hm).
        + apply (tother_step n em em' e1); auto.
      - unfold keep in Hk. apply andb_false_iff in Hk as [Hk|Hk]; apply negb_false_iff in Hk; apply node_is_outs in Hk.
        + assert (n = T1) by (apply (T1_unique _ _ a T1 T2 Hnd Hcs n Hn); rewrite Hk; now left). subst n.
          apply (tT1_step em em' e1); auto. apply Hfresh. rewrite Hk. now left.
        + assert (n = T2) by (apply (T2_unique _ _ a T1 T2 Hnd Hcs n Hn); rewrite Hk; now left). subst n.
          apply (tT2_step em em' e1); auto. apply Hfresh. rewrite Hk. now left.
    Qed.

    Lemma taction_run :
      refinesg (tg_graph g) (mkGraph (map (subst_map (rho a)) (filter (keep a) (tg_nodes g))) (map (rho a) (tg_outputs g))) e.
    Proof.
      pose proof (tadm_ssa _ _ Hadm) as Hssa.
      apply (sim_refines V teq sem Inv (keep a) (subst_map (rho a)) (tg_nodes g) (tg_outputs g) (map (rho a) (tg_outputs g)) e Hssa tinv_init).
      intros ef0 Hev0. rewrite Hev in Hev0. injection Hev0 as <-. split.
      - exact taction_step_all.
      - intros ef' o Hi Hl. now apply touts_related.
    Qed.

    (* ---- the final environment of the rewritten graph; what the pass reads is preserved *)
    Let nodes' := map (subst_map (rho a)) (filter (keep a) (tg_nodes g)).
    Let g' := mkTG nodes' (map (rho a) (tg_outputs g)) (tg_scalar g).

    Lemma taction_env : exists ef', evalg nodes' e = Some ef' /\ Inv ef ef'.
    Proof. exact (sim_env V sem Inv (keep a) (subst_map (rho a)) (tg_nodes g) e ef (tadm_ssa _ _ Hadm) tinv_init Hev taction_step_all). Qed.

    Lemma tkept_plain m y : In m (tg_nodes g) -> keep a m = true -> In y (n_outs m) -> rho a y = y.
    Proof.
      intros Hm Hk Hy. destruct (in_members (chain_outs a) m) eqn:Em.
      - pose proof (chain_member _ _ a T1 T2 Hnd Hcs m Hm Em) as Hc. rewrite (cs_chain_outs _ _ _ _ _ Hcs m Hc) in Hy.
        destruct Hy as [<-|[]]. apply (rho_chain_out _ _ a T1 T2 Hcs). unfold chain_outs. apply in_map_iff. eauto.
      - destruct (tother_outs m Hm Hk Em y Hy) as (_ & H2 & H1). now apply rho_other.
    Qed.

    Lemma tnew_defined ef' x w : evalg nodes' e = Some ef' -> Inv ef ef' -> ef' x = Some w -> exists v, ef x = Some v /\ trl x v w.
    Proof.
      intros Hev' [Hi1 Hi2] Hx.
      assert (Hrho : rho a x = x).
      { assert (Hdef : ef' x <> None) by congruence. destruct (eval_dom V sem _ _ _ _ Hev' Hdef) as [He|Hd].
        - destruct (e x) as [v0|] eqn:Ex; [|congruence]. pose proof (proj2 (tadm_ssa _ _ Hadm)) as Hfree.
          assert (Hnd' : ~ In x (defs (tg_nodes g))) by (intro Hd; rewrite (Hfree _ Hd) in Ex; discriminate).
          apply rho_other; intros ->; apply Hnd'; unfold defs; apply in_flat_map.
          + exists T1. split; [apply (cs_T1_in _ _ _ _ _ Hcs)|]. rewrite (cs_T1_outs _ _ _ _ _ Hcs). now left.
          + exists T2. split; [apply (cs_T2_in _ _ _ _ _ Hcs)|]. rewrite (cs_T2_outs _ _ _ _ _ Hcs). now left.
        - unfold defs, nodes' in Hd. apply in_flat_map in Hd as (m' & Hm' & Hy). apply in_map_iff in Hm' as (m & <- & Hm).
          apply filter_In in Hm as [Hm Hk]. exact (tkept_plain m x Hm Hk Hy). }
      assert (Hold : ef x <> None) by (apply Hi2; congruence).
      destruct (ef x) as [v|] eqn:Ev; [|congruence]. destruct (Hi1 _ _ Ev) as (w0 & Ew0 & Hr). rewrite Hrho, Hx in Ew0. injection Ew0 as <-.
      exists v. auto.
    Qed.

    Lemma trl_all1 x v w : trl x v w -> all1 (shape v) = all1 (shape w).
    Proof.
      unfold trl. destruct (tinD x); intro H.
      - destruct (trel_facts p v w Hp (or_introl H)) as (Ha & _). exact Ha.
      - now rewrite (proj1 H).
    Qed.

    Theorem tchain_admissible : tadmissible g' e /\ (uniform_operands A sem g e -> uniform_operands A sem g' e).
    Proof.
      destruct taction_env as (ef' & Hev' & Hi). split; [constructor|].
      - cbn [g' tg_nodes]. apply ssa_sim; [reflexivity | exact (tadm_ssa _ _ Hadm)].
      - intros ef2 x w Hev2 Hsc Hx. cbn [g' tg_nodes tg_scalar] in *. rewrite Hev' in Hev2. injection Hev2 as <-.
        destruct (tnew_defined ef' x w Hev' Hi Hx) as (v & Ev & Hr). rewrite <- (trl_all1 x v w Hr).
        exact (tadm_scalar _ _ Hadm ef x v Hev Hsc Ev).
      - intros Huni ef2 n' vs' Hev2 Hn' Hel Hop Hl'. cbn [g' tg_nodes] in *. rewrite Hev' in Hev2. injection Hev2 as <-.
        unfold nodes' in Hn'. apply in_map_iff in Hn' as (m & <- & Hm). apply filter_In in Hm as [Hm Hk].
        assert (Hel_m : is_elem m = true) by exact Hel. assert (Hop_m : str_in (nop m) pw_ops_all = true) by exact Hop.
        destruct (eval_consistent V sem _ _ _ m (tadm_ssa _ _ Hadm) Hev Hm) as (vs & o & Hl & _ & _).
        destruct (rinv_lookups V (rho a) trl _ _ _ _ Hi Hl) as (vs2 & Hl2 & Hrl).
        rewrite n_uses_subst_map, Hl2 in Hl'. injection Hl' as <-.
        pose proof (Huni ef m vs Hev Hm Hel_m Hop_m Hl) as Hok.
        destruct (in_members (chain_outs a) m) eqn:Em.
        + (* a member of the chain: operands related by [trel p] *)
          pose proof (chain_member _ _ a T1 T2 Hnd Hcs m Hm Em) as Hc.
          destruct (tchain_in g _ _ m (tf_chain _ _ _ _ _ _ Htf) Hdf Hc) as (prev & y & Hprev & Ho & Hy & Hcaps & Hpin & Hallow & Hside & Hfirst).
          assert (Hcl0 : String.eqb (nop m) "CastLike" = false).
          { destruct (String.eqb_spec (nop m) "CastLike") as [E|]; auto. rewrite E in Hop_m. vm_compute in Hop_m. discriminate. }
          rewrite Hcl0 in Hside. unfold n_uses in Hl, Hrl. rewrite Hcaps, app_nil_r in Hl, Hrl.
          pose proof (trel_operands m prev Hprev Hside ef vs vs2 (fun x v H => H) Hl Hrl) as Htr2.
          destruct (ef prev) as [x|] eqn:Ex; [|exfalso; exact (lookups_defined V ef _ _ prev Hl Hpin Ex)].
          destruct Hi as [Hi1 _]. destruct (Hi1 _ _ Ex) as (x' & Ex' & Hrx). destruct (trl_full _ _ _ Hprev Hrx) as [Hxx' _].
          assert (Hrank : Forall (fun v => length (shape v) <= length p) vs).
          { apply (lookups_Forall V _ ef (n_ins m) vs Hl). intros u w Hu Ew. apply (chain_rank_bound m Hc) with (u := u); auto.
            destruct (allowed_in_pw _ Hallow) as [E|E]; auto. rewrite E in Hcl0. discriminate. }
          assert (Hex : Exists (fun v => length (shape v) = length p) vs).
          { apply Exists_exists. exists x. split; [exact (lookups_In_val ef _ _ _ _ Hl Hpin Ex)|]. rewrite (proj1 Hxx'). simpl. apply gather_length. }
          exact (proj1 (pwn_transpose (F ""%string []) p vs vs2 Hp Htr2 Hex Hrank Hok)).
        + apply (operands_ok_shapes vs vs2); auto.
          assert (Hclean : forall x, In x (n_uses m) -> tinD x = false).
          { intros x Hx. apply tinD_false. intro Hd. exact (kept_clean _ _ a T1 T2 Hcs m x Hm Hk Em Hd Hx). }
          clear - Hrl Hclean. induction Hrl as [|x v w xr vr wr Hx _ IH]; constructor.
          * exact (proj1 (trl_teq x v w (Hclean x (or_introl eq_refl)) Hx)).
          * apply IH. intros x0 H0. apply Hclean. now right.
    Qed.
    Theorem tchain_frame : frame3 A sem nodes' (chain_outs a) e ef.
    Proof.
      destruct taction_env as (ef' & Hev' & Hi). split; [|split].
      - exists ef'. split; [exact Hev'|]. intros x w Hx. destruct (tnew_defined ef' x w Hev' Hi Hx) as (v & Ev & Hr).
        exists v. split; [exact Ev|]. destruct (tinD x) eqn:Ed; [|right; exact (trl_teq x v w Ed Hr)].
        apply tinD_In in Ed. destruct Ed as [<-|Hc]; [|now left]. exfalso.
        (* T1's output is not defined in the rewritten run *)
        assert (Hdef : ef' (ac_t1 a) <> None) by congruence.
        destruct (eval_dom V sem _ _ _ _ Hev' Hdef) as [He|Hd].
        + apply He. apply (proj2 (tadm_ssa _ _ Hadm)). unfold defs. apply in_flat_map. exists T1. split; [apply (cs_T1_in _ _ _ _ _ Hcs)|].
          rewrite (cs_T1_outs _ _ _ _ _ Hcs). now left.
        + unfold defs, nodes' in Hd. apply in_flat_map in Hd as (m' & Hm' & Hy). apply in_map_iff in Hm' as (m & <- & Hm). apply filter_In in Hm as [Hm Hk].
          pose proof (tkept_plain m (ac_t1 a) Hm Hk Hy) as E. rewrite (rho_t1 _ _ a T1 T2 Hcs) in E.
          exact (src_ne_t1 _ _ a T1 T2 Hcs E).
      - intros n' y Hn' Hy Hyc. unfold nodes' in Hn'. apply in_map_iff in Hn' as (m & <- & Hm). apply filter_In in Hm as [Hm Hk].
        cbn [subst_map n_outs] in Hy. unfold chain_outs in Hyc. apply in_map_iff in Hyc as (c & <- & Hc).
        pose proof (cs_chain_in _ _ _ _ _ Hcs c Hc) as Hcin. pose proof (cs_chain_outs _ _ _ _ _ Hcs c Hc) as Hco.
        assert (m = c) by (apply (defs_unique (tg_nodes g) m c (out_of c) Hnd Hm Hcin Hy); rewrite Hco; now left). subst m.
        destruct (tchain_in g _ _ c (tf_chain _ _ _ _ _ _ Htf) Hdf Hc) as (prev & y0 & _ & _ & _ & Hcaps & _ & Hallow & _).
        split; [|cbn [subst_map n_caps]; now rewrite Hcaps].
        pose proof (allowed_is_elem c Hallow) as He. unfold is_elem, nop in *. exact He.
      - intros y Hyc. unfold chain_outs in Hyc. apply in_map_iff in Hyc as (c & <- & Hc).
        destruct (chain_nonempty_member _ _ a T1 T2 Hcs c Hc) as [_ Hk]. unfold defs, nodes'. apply in_flat_map.
        exists (subst_map (rho a) c). split; [apply in_map; apply filter_In; split; [exact (cs_chain_in _ _ _ _ _ Hcs c Hc) | exact Hk]|].
        cbn [subst_map n_outs]. rewrite (cs_chain_outs _ _ _ _ _ Hcs c Hc). now left.
    Qed.

  End TAction.
End TSound.

(* ================================================================ the proved action kinds, the step and the pass *)
Lemma first_some_spec {B C} (f : B -> option C) l y : first_some f l = Some y -> exists x, In x l /\ f x = Some y.
Proof.
  induction l as [|x r IH]; simpl; [discriminate|]. destruct (f x) as [z|] eqn:E.
  - intro H. injection H as <-. eauto.
  - intro H. destruct (IH H) as (x0 & Hx & Hf). eauto.
Qed.

Lemma leqb_eq a b : leqb a b = true -> a = b.
Proof.
  revert b. induction a as [|x a IH]; destruct b as [|y b]; simpl; try discriminate; auto.
  intro H. apply andb_prop in H as [H1 H2]. apply Nat.eqb_eq in H1. subst. f_equal. auto.
Qed.
Lemma node_eqb_eq a b : node_eqb a b = true -> a = b.
Proof.
  unfold node_eqb. intro H. repeat (apply andb_prop in H as [H ?]). apply String.eqb_eq in H.
  destruct a, b; simpl in *. f_equal; auto using leqb_eq.
Qed.
Lemma node_is_leqb o n : node_is o n = leqb (n_outs n) [o].
Proof. unfold node_is, leqb. destruct (n_outs n) as [|y [|z r]]; simpl; auto; destruct (Nat.eqb y o); reflexivity. Qed.

Lemma collect_es_mono g : forall fuel work visited ts es ts' es', collect g fuel work visited ts es = Some (ts', es') ->
  exists l, es' = es ++ l.
Proof.
  induction fuel as [|k IH]; intros work visited ts es ts' es' H; [discriminate|]. cbn [collect] in H.
  destruct work as [|v w]; [injection H as <- <-; exists []; now rewrite app_nil_r|].
  destruct (mem v visited); [eauto|]. destruct (tg_scalar g v); [eauto|].
  destruct (producer (tg_nodes g) v) as [pr|]; [|discriminate].
  destruct (is_T pr); [eauto|]. destruct (is_elem pr); [|discriminate]. cbn [negb] in H.
  destruct (memn pr es); [eauto|]. destruct (IH _ _ _ _ _ _ H) as [l ->]. exists (pr :: l). now rewrite <- app_assoc.
Qed.

Lemma collect_direct g fuel v T1 : collect g fuel [v] [] [] [] = Some ([T1], []) ->
  producer (tg_nodes g) v = Some T1 /\ is_T T1 = true.
Proof.
  destruct fuel as [|k]; [discriminate|]. cbn [collect mem existsb]. 
  destruct (tg_scalar g v).
  { destruct k; [discriminate|]. cbn [collect]. discriminate. }
  destruct (producer (tg_nodes g) v) as [pr|]; [|discriminate].
  destruct (is_T pr) eqn:ET.
  - destruct k; [discriminate|]. cbn [collect]. unfold addn. cbn [memn existsb app]. intro H. injection H as <-. auto.
  - destruct (is_elem pr); [|discriminate]. cbn [negb memn existsb]. intro H.
    destruct (collect_es_mono _ _ _ _ _ _ _ _ H) as [l Hl]. destruct l; discriminate.
Qed.

Section TPassSound.
  Variable A : Type.
  Notation V := (tensor A).
  Variable sem : string -> list nat -> list V -> option (list V).
  Hypothesis sem_proper : forall op ats vs vs' o, Forall2 teq vs vs' -> sem op ats vs = Some o ->
    exists o', sem op ats vs' = Some o' /\ Forall2 teq o o'.
  Hypothesis Htr : sem_transpose_spec A sem op_type.
  Variable F : string -> list nat -> list A -> A.
  Hypothesis Hpw : sem_pointwise_spec_n A sem op_type F.
  Variable Fcl : list nat -> V -> A -> A.
  Hypothesis Hcl : sem_castlike_spec_n A sem op_type Fcl.
  Hypothesis Hcl_type : castlike_type_only A Fcl.
  Hypothesis Hacc : sem_accepts_spec_n A sem op_type.

  Notation evalg := (eval V sem).
  Notation stepg := (step V sem).
  Notation refinesg := (refines V teq sem).
  Notation tadmissible := (tadmissible A sem).

  (* Transpose T1 -> isolated chain -> inverse Transpose T2 (chain possibly empty) *)
  Theorem tchain_action_sound g a T1 T2 p q e :
    tadmissible g e -> tchain_facts g a T1 T2 p q -> castlike_data_first (ac_t1 a) (ac_chain a) = true ->
    refinesg (tg_graph g) (rewire a (tg_graph g)) e.
  Proof.
    intros Hadm Htf Hdf o Hrun.
    change (rewire a (tg_graph g)) with (rewire a (mkGraph (tg_nodes g) (tg_outputs g))). rewrite (rewire_eq _ _ a T1 T2 (proj1 (tadm_ssa _ _ _ _ Hadm)) (tf_struct _ _ _ _ _ _ Htf)).
    assert (Hev : exists ef, evalg (tg_nodes g) e = Some ef).
    { unfold run in Hrun. simpl in Hrun. destruct (evalg (tg_nodes g) e); [eauto|discriminate]. }
    destruct Hev as [ef Hev].
    exact (taction_run A sem sem_proper Htr F Hpw Fcl Hcl Hcl_type Hacc g a T1 T2 p q e ef Hadm Htf Hdf Hev o Hrun).
  Qed.

  (* the value of a Transpose node in the final environment *)
  Lemma tnode_final g e ef n perm : tadmissible g e -> evalg (tg_nodes g) e = Some ef -> In n (tg_nodes g) ->
    is_T n = true -> perm_of n = Some perm ->
    exists u y x vy, n_uses n = [u] /\ n_outs n = [y] /\ ef u = Some x /\ ef y = Some vy /\
      teq vy (transpose perm x) /\ length perm = length (shape x).
  Proof.
    intros Hadm Hev Hn HT Hp.
    destruct (eval_consistent V sem _ _ _ n (tadm_ssa _ _ _ _ Hadm) Hev Hn) as (vs & o & Hl & Hs & Hlo).
    destruct (tnode_val A sem Htr n perm vs o HT Hp Hs) as (x & vy & -> & -> & Hteq & Hlen).
    destruct (n_uses n) as [|u [|u2 r]] eqn:Eu; simpl in Hl; try discriminate.
    2:{ destruct (ef u); [|discriminate]. destruct (ef u2); [|discriminate]. destruct (lookups V ef r); discriminate. }
    destruct (ef u) as [x0|] eqn:Ex; [|discriminate]. injection Hl as ->.
    destruct (n_outs n) as [|y [|y2 r]] eqn:Eo; simpl in Hlo; try discriminate.
    2:{ destruct (ef y); [|discriminate]. destruct (ef y2); [|discriminate]. destruct (lookups V ef r); discriminate. }
    destruct (ef y) as [vy0|] eqn:Ey; [|discriminate]. injection Hlo as ->.
    exists u, y, x, vy. split; [reflexivity|]. split; [reflexivity|]. split; [exact Ex|]. split; [exact Ey|]. split; [exact Hteq | exact Hlen].
  Qed.

  (* phase D case 2: T1 keeps its other consumers, the inverse T2 is bypassed *)
  Theorem tmulti_sound g e T1 T2 p q src a0 b :
    tadmissible g e -> In T1 (tg_nodes g) -> In T2 (tg_nodes g) ->
    is_T T1 = true -> perm_of T1 = Some p -> In src (n_ins T1) -> In a0 (n_outs T1) ->
    is_T T2 = true -> perm_of T2 = Some q -> In a0 (n_ins T2) -> In b (n_outs T2) -> inv_ok p q = true -> src <> b ->
    refinesg (tg_graph g) (redirect_remove b src (tg_graph g)) e.
  Proof.
    intros Hadm H1 H2 HT1 Hp1 Hs1 Ho1 HT2 Hp2 Hi2 Ho2 Hinv Hne.
    destruct (inv_ok_perms p q Hinv) as (Hiv & Hp & Hq). pose proof (tadm_ssa _ _ _ _ Hadm) as Hssa.
    apply (redirect_remove_sound V teq (@teq_refl A) (@teq_sym A) (@teq_trans A) sem sem_proper (tg_graph g) e b src Hssa Hne).
    - intros ef a Hev Ha. simpl in Hev.
      destruct (tnode_final g e ef T1 p Hadm Hev H1 HT1 Hp1) as (u1 & y1 & x1 & v1 & Eu1 & Eo1 & Ex1 & Ey1 & Ht1 & Hl1).
      destruct (tnode_final g e ef T2 q Hadm Hev H2 HT2 Hp2) as (u2 & y2 & x2 & v2 & Eu2 & Eo2 & Ex2 & Ey2 & Ht2 & Hl2).
      assert (u1 = src) by (assert (In src (n_uses T1)) by (unfold n_uses; apply in_or_app; now left); rewrite Eu1 in H; destruct H as [|[]]; auto).
      assert (y1 = a0) by (rewrite Eo1 in Ho1; destruct Ho1 as [|[]]; auto).
      assert (u2 = a0) by (assert (In a0 (n_uses T2)) by (unfold n_uses; apply in_or_app; now left); rewrite Eu2 in H3; destruct H3 as [|[]]; auto).
      assert (y2 = b) by (rewrite Eo2 in Ho2; destruct Ho2 as [|[]]; auto).
      subst. rewrite Ha in Ey2. injection Ey2 as <-. rewrite Ex2 in Ey1. injection Ey1 as <-.
      exists x1. split; auto.
      eapply teq_trans; [exact Ht2|]. eapply teq_trans; [apply transpose_teq; [exact Hq | exact Hl2 | exact Ht1]|].
      apply transpose_inverse; auto.
    - intros pre post em a Hsplit Hpre Hfa. simpl in *.
      assert (Ha0 : em a0 <> None).
      { eapply (avail_from_producer V sem (tg_nodes g) e T2 a0 b Hssa H2); eauto. unfold n_uses. apply in_or_app. now left. }
      destruct (em a0) as [va|] eqn:Ea; [|congruence].
      eapply (avail_from_producer V sem (tg_nodes g) e T1 src a0 Hssa H1); eauto. unfold n_uses. apply in_or_app. now left.
  Qed.

  (* the value bypassed by phase D case 2 *)
  Lemma tmulti_fin g e ef T1 T2 p q src a0 b a :
    tadmissible g e -> In T1 (tg_nodes g) -> In T2 (tg_nodes g) ->
    is_T T1 = true -> perm_of T1 = Some p -> In src (n_ins T1) -> In a0 (n_outs T1) ->
    is_T T2 = true -> perm_of T2 = Some q -> In a0 (n_ins T2) -> In b (n_outs T2) -> inv_ok p q = true ->
    evalg (tg_nodes g) e = Some ef -> ef b = Some a -> exists b0, ef src = Some b0 /\ teq a b0.
  Proof.
    intros Hadm H1 H2 HT1 Hp1 Hs1 Ho1 HT2 Hp2 Hi2 Ho2 Hinv Hev Ha.
    destruct (inv_ok_perms p q Hinv) as (Hiv & Hp & Hq).
    destruct (tnode_final g e ef T1 p Hadm Hev H1 HT1 Hp1) as (u1 & y1 & x1 & v1 & Eu1 & Eo1 & Ex1 & Ey1 & Ht1 & Hl1).
    destruct (tnode_final g e ef T2 q Hadm Hev H2 HT2 Hp2) as (u2 & y2 & x2 & v2 & Eu2 & Eo2 & Ex2 & Ey2 & Ht2 & Hl2).
    assert (u1 = src) by (assert (In src (n_uses T1)) by (unfold n_uses; apply in_or_app; now left); rewrite Eu1 in H; destruct H as [|[]]; auto).
    assert (y1 = a0) by (rewrite Eo1 in Ho1; destruct Ho1 as [|[]]; auto).
    assert (u2 = a0) by (assert (In a0 (n_uses T2)) by (unfold n_uses; apply in_or_app; now left); rewrite Eu2 in H3; destruct H3 as [|[]]; auto).
    assert (y2 = b) by (rewrite Eo2 in Ho2; destruct Ho2 as [|[]]; auto).
    subst. rewrite Ha in Ey2. injection Ey2 as <-. rewrite Ex2 in Ey1. injection Ey1 as <-.
    exists x1. split; auto.
    eapply teq_trans; [exact Ht2|]. eapply teq_trans; [apply transpose_teq; [exact Hq | exact Hl2 | exact Ht1]|].
    apply transpose_inverse; auto.
  Qed.

  Theorem tmulti_admissible g e ef T1 T2 p q src a0 b :
    tadmissible g e -> In T1 (tg_nodes g) -> In T2 (tg_nodes g) ->
    is_T T1 = true -> perm_of T1 = Some p -> In src (n_ins T1) -> In a0 (n_outs T1) ->
    is_T T2 = true -> perm_of T2 = Some q -> In a0 (n_ins T2) -> In b (n_outs T2) -> inv_ok p q = true -> src <> b ->
    evalg (tg_nodes g) e = Some ef ->
    let rr := redirect_remove b src (tg_graph g) in
    let g' := mkTG (g_nodes rr) (g_outputs rr) (tg_scalar g) in
    tadmissible g' e /\ (uniform_operands A sem g e -> uniform_operands A sem g' e).
  Proof.
    intros Hadm H1 H2 HT1 Hp1 Hs1 Ho1 HT2 Hp2 Hi2 Ho2 Hinv Hne Hev rr g'. pose proof (tadm_ssa _ _ _ _ Hadm) as Hssa.
    assert (Hfin : forall a, ef b = Some a -> exists b0, ef src = Some b0 /\ teq a b0).
    { intros a Ha. exact (tmulti_fin g e ef T1 T2 p q src a0 b a Hadm H1 H2 HT1 Hp1 Hs1 Ho1 HT2 Hp2 Hi2 Ho2 Hinv Hev Ha). }
    assert (Hav : avail_before V sem (tg_nodes g) e src b).
    { intros pre post em a Hsplit Hpre Hfa.
      assert (Ha0 : em a0 <> None).
      { eapply (avail_from_producer V sem (tg_nodes g) e T2 a0 b Hssa H2); eauto. unfold n_uses. apply in_or_app. now left. }
      destruct (em a0) as [va|] eqn:Ea; [|congruence].
      eapply (avail_from_producer V sem (tg_nodes g) e T1 src a0 Hssa H1); eauto. unfold n_uses. apply in_or_app. now left. }
    destruct (redirect_remove_env V teq (@teq_refl A) (@teq_sym A) (@teq_trans A) sem sem_proper (tg_graph g) e b src ef Hssa Hne Hfin Hav Hev)
      as (ef' & Hev' & Hrel).
    destruct (tnode_final g e ef T2 q Hadm Hev H2 HT2 Hp2) as (u2 & y2 & _ & _ & _ & Eo2 & _).
    assert (Hb : n_outs T2 = [b]) by (rewrite Eo2 in *; destruct Ho2 as [->|[]]; reflexivity).
    assert (Hex : existsb (node_is b) (tg_nodes g) = true).
    { apply existsb_exists. exists T2. split; auto. unfold node_is. rewrite Hb. apply Nat.eqb_refl. }
    pose proof (redirect_remove_o_undefined V sem (tg_graph g) e b src ef' Hssa Hex Hev') as Hundef.
    assert (Hrel' : forall y w, ef' y = Some w -> exists v, ef y = Some v /\ teq v w).
    { intros y w Hy. destruct (Nat.eq_dec y b) as [->|Hyb]; [congruence|]. exact (Hrel y w Hyb Hy). }
    split; [constructor|].
    - exact (redirect_remove_ssa V (tg_graph g) e b src Hssa).
    - intros ef2 x w Hev2 Hsc Hx. unfold g', rr in Hev2, Hsc. cbn [tg_nodes tg_scalar] in Hev2, Hsc. rewrite Hev' in Hev2. injection Hev2 as <-.
      destruct (Hrel' x w Hx) as (v & Ev & Ht). rewrite <- (proj1 Ht). exact (tadm_scalar _ _ _ _ Hadm ef x v Hev Hsc Ev).
    - intros Huni ef2 n' vs' Hev2 Hn' Hel Hop Hl'. unfold g', rr in Hev2, Hn'. cbn [tg_nodes] in Hev2, Hn'. rewrite Hev' in Hev2. injection Hev2 as <-.
      cbn [redirect_remove g_nodes tg_graph] in Hn'. apply In_remove_first in Hn'. apply in_map_iff in Hn' as (m & <- & Hm).
      destruct (eval_consistent V sem _ _ _ m Hssa Hev Hm) as (vs & o & Hl & _ & _).
      apply (operands_ok_shapes vs vs'); [|exact (Huni ef m vs Hev Hm Hel Hop Hl)].
      rewrite n_uses_subst in Hl'. clear - Hl Hl' Hrel' Hfin. revert vs vs' Hl Hl'.
      induction (n_uses m) as [|u r IH]; intros vs vs' Hl Hl'; simpl in Hl, Hl'.
      + injection Hl as <-. injection Hl' as <-. constructor.
      + destruct (ef u) as [v|] eqn:Eu; [|discriminate]. destruct (lookups V ef r) as [vr|] eqn:Er; [|discriminate]. injection Hl as <-.
        destruct (ef' (rn b src u)) as [w|] eqn:Ew; [|discriminate]. destruct (lookups V ef' (map (rn b src) r)) as [wr|] eqn:Ewr; [|discriminate].
        injection Hl' as <-. constructor; [|now apply IH].
        destruct (Hrel' _ _ Ew) as (v0 & Ev0 & Ht). unfold rn in Ev0. destruct (Nat.eqb_spec u b) as [->|Hub].
        * destruct (Hfin v Eu) as (b0 & Eb0 & Hvb). rewrite Ev0 in Eb0. injection Eb0 as <-. rewrite (proj1 Hvb). exact (proj1 Ht).
        * rewrite Eu in Ev0. injection Ev0 as <-. exact (proj1 Ht).
  Qed.

  Theorem tmulti_frame g e ef T1 T2 p q src a0 b :
    tadmissible g e -> In T1 (tg_nodes g) -> In T2 (tg_nodes g) ->
    is_T T1 = true -> perm_of T1 = Some p -> In src (n_ins T1) -> In a0 (n_outs T1) ->
    is_T T2 = true -> perm_of T2 = Some q -> In a0 (n_ins T2) -> In b (n_outs T2) -> inv_ok p q = true -> src <> b ->
    evalg (tg_nodes g) e = Some ef ->
    frame3 A sem (g_nodes (redirect_remove b src (tg_graph g))) [] e ef.
  Proof.
    intros Hadm H1 H2 HT1 Hp1 Hs1 Ho1 HT2 Hp2 Hi2 Ho2 Hinv Hne Hev. pose proof (tadm_ssa _ _ _ _ Hadm) as Hssa.
    assert (Hfin : forall a, ef b = Some a -> exists b0, ef src = Some b0 /\ teq a b0).
    { intros a Ha. exact (tmulti_fin g e ef T1 T2 p q src a0 b a Hadm H1 H2 HT1 Hp1 Hs1 Ho1 HT2 Hp2 Hi2 Ho2 Hinv Hev Ha). }
    assert (Hav : avail_before V sem (tg_nodes g) e src b).
    { intros pre post em a Hsplit Hpre Hfa.
      assert (Ha0 : em a0 <> None).
      { eapply (avail_from_producer V sem (tg_nodes g) e T2 a0 b Hssa H2); eauto. unfold n_uses. apply in_or_app. now left. }
      destruct (em a0) as [va|] eqn:Ea; [|congruence].
      eapply (avail_from_producer V sem (tg_nodes g) e T1 src a0 Hssa H1); eauto. unfold n_uses. apply in_or_app. now left. }
    destruct (redirect_remove_env V teq (@teq_refl A) (@teq_sym A) (@teq_trans A) sem sem_proper (tg_graph g) e b src ef Hssa Hne Hfin Hav Hev)
      as (ef' & Hev' & Hrel).
    destruct (tnode_final g e ef T2 q Hadm Hev H2 HT2 Hp2) as (u2 & y2 & _ & _ & _ & Eo2 & _).
    assert (Hb : n_outs T2 = [b]) by (rewrite Eo2 in *; destruct Ho2 as [->|[]]; reflexivity).
    assert (Hex : existsb (node_is b) (tg_nodes g) = true).
    { apply existsb_exists. exists T2. split; auto. unfold node_is. rewrite Hb. apply Nat.eqb_refl. }
    pose proof (redirect_remove_o_undefined V sem (tg_graph g) e b src ef' Hssa Hex Hev') as Hundef.
    split; [|split].
    - exists ef'. split; [exact Hev'|]. intros y w Hy. destruct (Nat.eq_dec y b) as [->|Hyb]; [congruence|].
      destruct (Hrel y w Hyb Hy) as (v & Ev & Ht). exists v. split; [exact Ev | now right].
    - intros n y _ _ [].
    - intros y [].
  Qed.

  (* ---- ordering facts of an SSA run: a node's inputs are other names than its outputs, and so are the inputs of
          the producer of one of its inputs *)
  Lemma run_at ns e ef n : evalg ns e = Some ef -> In n ns ->
    exists pre post em e1, ns = pre ++ n :: post /\ evalg pre e = Some em /\ stepg em n = Some e1.
  Proof.
    intros Hev Hn. apply in_split in Hn as (pre & post & ->). rewrite eval_app in Hev.
    destruct (evalg pre e) as [em|] eqn:Epre; [|discriminate]. simpl in Hev.
    destruct (stepg em n) as [e1|] eqn:Es; [|discriminate]. exists pre, post, em, e1. auto.
  Qed.
  Lemma step_reads em n e1 x : stepg em n = Some e1 -> In x (n_uses n) -> em x <> None.
  Proof.
    unfold step. destruct (lookups V em (n_uses n)) as [vs|] eqn:El; [|discriminate]. intros _ Hx.
    exact (lookups_defined V em _ _ x El Hx).
  Qed.
  Lemma use_ne_def ns e ef n x y : ssa V ns e -> evalg ns e = Some ef -> In n ns -> In x (n_uses n) -> In y (n_outs n) -> x <> y.
  Proof.
    intros Hssa Hev Hn Hx Hy ->. destruct (run_at _ _ _ _ Hev Hn) as (pre & post & em & e1 & Hsplit & Hpre & Hs).
    destruct (fresh_at V sem _ _ _ _ _ _ Hssa Hsplit Hpre) as [Hfresh _]. exact (step_reads _ _ _ _ Hs Hx (Hfresh y Hy)).
  Qed.
  Lemma use2_ne_def ns e ef n1 n2 x a y : ssa V ns e -> evalg ns e = Some ef -> In n1 ns -> In n2 ns ->
    In x (n_uses n1) -> In a (n_outs n1) -> In a (n_uses n2) -> In y (n_outs n2) -> x <> y.
  Proof.
    intros Hssa Hev H1 H2 Hx Ha1 Ha2 Hy ->. destruct (run_at _ _ _ _ Hev H2) as (pre & post & em & e1 & Hsplit & Hpre & Hs).
    destruct (fresh_at V sem _ _ _ _ _ _ Hssa Hsplit Hpre) as [Hfresh _].
    pose proof (step_reads _ _ _ _ Hs Ha2) as Hadef. destruct (em a) as [va|] eqn:Ea; [|congruence].
    exact (avail_from_producer V sem ns e n1 y a Hssa H1 Hx Ha1 pre (n2 :: post) em va Hsplit Hpre Ea (Hfresh y Hy)).
  Qed.

  Lemma node_eqb_refl n : node_eqb n n = true.
  Proof.
    assert (Hl : forall l, leqb l l = true) by (unfold leqb; induction l as [|x l IHl]; simpl; [reflexivity | now rewrite Nat.eqb_refl]).
    unfold node_eqb. now rewrite String.eqb_refl, !Hl.
  Qed.

  Lemma apply_dag_rewire g T1 t2 t1_out t1_in b t2_in : NoDup (defs (tg_nodes g)) ->
    first_in T1 = Some t1_in -> n_outs T1 = [t1_out] -> n_outs t2 = [b] -> first_in t2 = Some t2_in ->
    tg_graph (apply_dag g (mkD T1 t2 [])) = rewire (mkAct t1_in t1_out [] b) (tg_graph g).
  Proof.
    intros Hnd Hf1 Ho1 Ho2 Hf2. unfold apply_dag, rewire, tg_graph, out1. cbn [d_T1 d_T2 d_es ac_chain ac_t1 ac_t2 ac_src].
    rewrite Hf1, Hf2, Ho1, Ho2. cbn [hd_error tg_nodes tg_outputs g_nodes g_outputs replace_all_uses].
    unfold new_src, chain_outs. cbn [ac_chain ac_src map last].
    assert (Hid : map_inputs (fun n => memn n []) (rn t1_out t1_in) (tg_nodes g) = tg_nodes g).
    { unfold map_inputs. rewrite <- (map_id (tg_nodes g)) at 2. apply map_ext. intro n. reflexivity. }
    rewrite Hid. f_equal.
    set (L := map (subst_node b t1_in) (tg_nodes g)).
    assert (HndL : NoDup (defs L)) by (unfold L; now rewrite defs_subst).
    rewrite (remove_first_filter t1_out L HndL).
    rewrite (remove_first_filter b).
    2:{ rewrite <- (remove_first_filter t1_out L HndL). now apply NoDup_defs_remove_first. }
    rewrite filter_filter. apply filter_ext. intro n. rewrite !node_is_leqb. now rewrite negb_orb.
  Qed.

  (* phase C, direct pair: T1 -> T2 with T2 the only reader of T1's (unobserved) output *)
  Lemma tdag_direct_facts g d e ef : tadmissible g e -> In (d_T2 d) (tg_nodes g) -> decide_dag g (d_T2 d) = Some d -> d_es d = [] ->
    evalg (tg_nodes g) e = Some ef ->
    exists T1 p q a, tchain_facts g a T1 (d_T2 d) p q /\ ac_chain a = [] /\ tg_graph (apply_dag g d) = rewire a (tg_graph g).
  Proof.
    intros Hadm Hin Hd Hes Hev. pose proof (tadm_ssa _ _ _ _ Hadm) as Hssa.
    remember (d_T2 d) as t2 eqn:Et2. unfold decide_dag in Hd.
    destruct (is_T t2) eqn:ET2; [|discriminate]. cbn [negb] in Hd.
    destruct (first_in t2) as [t2_in|] eqn:Ef2; [|discriminate]. destruct (perm_of t2) as [q|] eqn:Eq; [|discriminate].
    destruct (collect g (collect_fuel g) [t2_in] [] [] []) as [[ts es]|] eqn:Ecol; [|discriminate].
    destruct ts as [|T1 [|]]; try discriminate.
    destruct (node_eqb T1 t2) eqn:Eneq; [discriminate|].
    destruct (perm_of T1) as [p|] eqn:Ep; [|discriminate]. destruct (out1 T1) as [t1_out|] eqn:Eo1; [|discriminate].
    destruct (first_in T1) as [t1_in|] eqn:Ef1; [|discriminate]. destruct (n_outs t2) as [|b0 br] eqn:Eo2; [discriminate|].
    match type of Hd with (if ?c then _ else _) = _ => destruct c eqn:Ecnd; [|discriminate] end.
    injection Hd as Hd. assert (Hes' : es = []) by (rewrite <- Hd in Hes; exact Hes). subst es.
    assert (HT1d : d_T1 d = T1) by (now rewrite <- Hd). 
    apply andb_prop in Ecnd as [Ecnd _]. apply andb_prop in Ecnd as [Ecnd Hcons]. apply andb_prop in Ecnd as [Hinv Hobs].
    apply negb_true_iff in Hobs.
    destruct (collect_direct _ _ _ _ Ecol) as [Hprod HT1]. apply producer_spec in Hprod as [HT1in Hprod].
    destruct (tnode_final g e ef T1 p Hadm Hev HT1in HT1 Ep) as (u1 & y1 & x1 & v1 & Eu1 & Ey1 & _).
    destruct (tnode_final g e ef t2 q Hadm Hev Hin ET2 Eq) as (u2 & y2 & x2 & v2 & Eu2 & Ey2 & _).
    assert (y1 = t1_out) by (unfold out1 in Eo1; rewrite Ey1 in Eo1; simpl in Eo1; congruence). subst y1.
    assert (Hb : [b0] = [y2] /\ br = []) by (rewrite Ey2 in Eo2; injection Eo2 as <- <-; auto). destruct Hb as [Hb ->]. injection Hb as ->.
    assert (t2_in = t1_out) by (rewrite Ey1 in Hprod; destruct Hprod as [|[]]; auto). subst t2_in.
    assert (Hin1 : In t1_in (n_uses T1)).
    { unfold n_uses, first_in in *. destruct (n_ins T1); [discriminate|]. simpl in Ef1. injection Ef1 as ->. now left. }
    assert (Hin2 : In t1_out (n_uses t2)).
    { unfold n_uses, first_in in *. destruct (n_ins t2); [discriminate|]. simpl in Ef2. injection Ef2 as ->. now left. }
    assert (Hi2 : In t1_out (n_ins t2)).
    { unfold first_in in Ef2. destruct (n_ins t2); [discriminate|]. simpl in Ef2. injection Ef2 as ->. now left. }
    assert (Hi1 : exists r, n_ins T1 = t1_in :: r).
    { unfold first_in in Ef1. destruct (n_ins T1) as [|z r]; [discriminate|]. simpl in Ef1. injection Ef1 as ->. eauto. }
    set (a := mkAct t1_in t1_out [] y2).
    assert (Htf : tchain_facts g a T1 t2 p q).
    { constructor; cbn [ac_src ac_t1 ac_chain ac_t2 a]; auto; [| exact I].
      constructor; cbn [ac_src ac_t1 ac_chain ac_t2 a]; auto.
      - intros n [].
      - intros n [].
      - intros x [<-|[]]. now apply tobserved_false.
      - intros x m [<-|[]] Hm Hxm. rewrite forallb_forall in Hcons.
        assert (Hmc : In m (consumers (tg_nodes g) t1_out)).
        { unfold consumers. apply filter_In. split; auto. apply existsb_exists. exists t1_out. split; auto. apply Nat.eqb_refl. }
        specialize (Hcons m Hmc). cbn [memn existsb] in Hcons. rewrite orb_false_r in Hcons. apply node_eqb_eq in Hcons. subst m.
        unfold in_members, chain_outs. cbn [ac_chain map app]. rewrite Ey2. simpl. now rewrite Nat.eqb_refl.
      - unfold dirty, chain_outs. cbn [ac_chain ac_t1 map app].
        assert (N1 : t1_in <> t1_out) by (apply (use_ne_def (tg_nodes g) e ef T1 t1_in t1_out Hssa Hev HT1in Hin1); rewrite Ey1; now left).
        assert (N2 : t1_out <> y2).
        { intros E12. assert (E : T1 = t2).
          { apply (defs_unique (tg_nodes g) T1 t2 t1_out (proj1 Hssa) HT1in Hin); [rewrite Ey1; now left | rewrite Ey2, <- E12; now left]. }
          rewrite E, node_eqb_refl in Eneq. discriminate. }
        assert (N3 : t1_in <> y2).
        { assert (Ho1' : In t1_out (n_outs T1)) by (rewrite Ey1; now left).
          assert (Ho2' : In y2 (n_outs t2)) by (rewrite Ey2; now left).
          exact (use2_ne_def (tg_nodes g) e ef T1 t2 t1_in t1_out y2 Hssa Hev HT1in Hin Hin1 Ho1' Hin2 Ho2'). }
        simpl. constructor; [intros [E|[E|[]]]; congruence|]. constructor; [intros [E|[]]; congruence|]. constructor; [intros []|constructor]. }
    exists T1, p, q, a. split; [exact Htf|]. split; [reflexivity|]. rewrite <- Hd.
    exact (apply_dag_rewire g T1 t2 t1_out t1_in y2 t1_out (proj1 Hssa) Ef1 Ey1 Ey2 Ef2).
  Qed.

  Theorem tdag_direct_sound g d e : tadmissible g e -> In (d_T2 d) (tg_nodes g) -> decide_dag g (d_T2 d) = Some d -> d_es d = [] ->
    refinesg (tg_graph g) (tg_graph (apply_dag g d)) e.
  Proof.
    intros Hadm Hin Hd Hes o Hrun.
    assert (Hev : exists ef, evalg (tg_nodes g) e = Some ef).
    { unfold run in Hrun. simpl in Hrun. destruct (evalg (tg_nodes g) e); [eauto|discriminate]. }
    destruct Hev as [ef Hev].
    destruct (tdag_direct_facts g d e ef Hadm Hin Hd Hes Hev) as (T1 & p & q & a & Htf & Hch & Heq). rewrite Heq.
    assert (Hdf : castlike_data_first (ac_t1 a) (ac_chain a) = true) by (now rewrite Hch).
    exact (tchain_action_sound g a T1 (d_T2 d) p q e Hadm Htf Hdf o Hrun).
  Qed.

  (* ---- what decide_D's second case establishes *)
  Lemma decide_D_multi_facts g T1 src a0 b : In T1 (tg_nodes g) -> decide_D g T1 = Some (TMulti src a0 b) ->
    exists T2 p q, In T2 (tg_nodes g) /\ is_T T1 = true /\ perm_of T1 = Some p /\ In src (n_ins T1) /\ In a0 (n_outs T1) /\
      is_T T2 = true /\ perm_of T2 = Some q /\ In a0 (n_ins T2) /\ In b (n_outs T2) /\ inv_ok p q = true /\ src <> b.
  Proof.
    intros HT1 H. unfold decide_D in H.
    destruct (is_T T1) eqn:ET1; [|discriminate]. cbn [negb] in H.
    destruct (out1 T1) as [a0'|] eqn:Eo1; [|discriminate].
    destruct (consumers (tg_nodes g) a0') as [|c [|c2 cr]] eqn:Ec; [discriminate| |].
    { destruct (tobserved g a0'); [discriminate|]. destruct (fwalk g 8 c a0' []) as [[chain T2]|]; [|discriminate].
      destruct (perm_of T1); [|discriminate]. destruct (perm_of T2); [|discriminate]. destruct (n_ins T1); [discriminate|].
      destruct (n_outs T1) as [|? [|]]; try discriminate. destruct (n_outs T2) as [|? [|]]; try discriminate.
      destruct (_ && _); discriminate. }
    destruct (first_in T1) as [src'|] eqn:Ef1; [|discriminate]. destruct (perm_of T1) as [p|] eqn:Ep; [|discriminate].
    destruct (find _ (c :: c2 :: cr)) as [T2|] eqn:Efind; [|discriminate].
    destruct (n_outs T2) as [|b' [|]] eqn:Eo2; try discriminate. destruct (n_outs T1) as [|a1 [|]] eqn:Eo1'; try discriminate.
    destruct (Nat.eqb_spec src' b') as [|Hne]; [discriminate|]. injection H as <- <- <-.
    apply find_some in Efind as [HT2c Hcond]. apply andb_prop in Hcond as [HT2 Hq].
    destruct (perm_of T2) as [q|] eqn:Eq; [|discriminate].
    assert (HT2in : In T2 (tg_nodes g) /\ In a0' (n_ins T2)).
    { rewrite <- Ec in HT2c. unfold consumers in HT2c. apply filter_In in HT2c as [H1 H2]. split; auto.
      apply existsb_exists in H2 as (z & Hz & E). apply Nat.eqb_eq in E. now subst. }
    destruct HT2in as [HT2in Ha0]. exists T2, p, q. repeat split; auto.
    - unfold first_in in Ef1. destruct (n_ins T1); [discriminate|]. simpl in Ef1. injection Ef1 as ->. now left.
    - unfold out1 in Eo1. rewrite Eo1' in *. simpl in Eo1. injection Eo1 as ->. now left.
    - rewrite Eo2. now left.
  Qed.

  Lemma decide_D_kind g T1 act : decide_D g T1 = Some act ->
    match act with TChain _ | TMulti _ _ _ => True | _ => False end.
  Proof.
    unfold decide_D. intro H.
    repeat match type of H with
           | context [match ?x with _ => _ end] => destruct x; try discriminate
           end.
    all: injection H as <-; exact I.
  Qed.

  (* ONE iteration of the while-changed loop whose action is of a proved kind *)
  Theorem transpose_pair_action_sound g act e : tadmissible g e -> decide_step g = Some act -> proved_kind act = true ->
    refinesg (tg_graph g) (tg_graph (apply_taction g act)) e.
  Proof.
    intros Hadm Hdec Hk. unfold decide_step in Hdec.
    destruct (first_some (decide_add g) (tg_nodes g)); [injection Hdec as <-; discriminate|].
    destruct (first_some (decide_forest g) (tg_nodes g)); [injection Hdec as <-; discriminate|].
    destruct (first_some (decide_dag g) (tg_nodes g)) as [d|] eqn:Edag.
    - injection Hdec as <-. apply first_some_spec in Edag as (t2 & Ht2 & Hd).
      assert (Ht2d : d_T2 d = t2).
      { unfold decide_dag in Hd. destruct (is_T t2); [|discriminate]. cbn [negb] in Hd.
        destruct (first_in t2); [|discriminate]. destruct (perm_of t2); [|discriminate].
        destruct (collect _ _ _ _ _ _) as [[[|T1 [|]] es]|]; try discriminate.
        destruct (node_eqb T1 t2); [discriminate|]. destruct (perm_of T1); [|discriminate]. destruct (out1 T1); [|discriminate].
        destruct (first_in T1); [|discriminate]. destruct (n_outs t2); [discriminate|]. destruct (_ && _); [|discriminate].
        now injection Hd as <-. }
      simpl in Hk. destruct (d_es d) eqn:Ees; [|discriminate].
      apply tdag_direct_sound; auto; rewrite Ht2d; auto.
    - apply first_some_spec in Hdec as (T1 & HT1 & Hd). pose proof (decide_D_kind g T1 act Hd) as Hkind.
      destruct act as [st|f|d|a|src a0 b]; try contradiction.
      + destruct (decide_D_chain_facts g T1 a HT1 Hd) as (T2 & p & q & Htf).
        exact (tchain_action_sound g a T1 T2 p q e Hadm Htf Hk).
      + destruct (decide_D_multi_facts g T1 src a0 b HT1 Hd) as (T2 & p & q & H2 & HT1' & Hp & Hs & Ho & HT2 & Hq & Hi & Hob & Hinv & Hne).
        exact (tmulti_sound g e T1 T2 p q src a0 b Hadm HT1 H2 HT1' Hp Hs Ho HT2 Hq Hi Hob Hinv Hne).
  Qed.

  (* every graph the loop passes through is admissible, and every action taken is of a proved kind *)
  Fixpoint tadmissible_along (fuel : nat) (g : tgraph) (e : env V) : Prop :=
    tadmissible g e /\
    match fuel with
    | O => True
    | S k => match decide_step g with
             | Some act => proved_kind act = true /\ tadmissible_along k (apply_taction g act) e
             | None => True
             end
    end.

  Theorem transpose_pair_pass_sound : forall fuel g e, tadmissible_along fuel g e ->
    refinesg (tg_graph g) (tg_graph (transpose_pair_pass fuel g)) e.
  Proof.
    induction fuel as [|k IH]; simpl; intros g e [Hadm Hrest].
    - apply (refines_refl V teq (@teq_refl A) sem).
    - unfold transpose_pair_step. destruct (decide_step g) as [act|] eqn:Ed; simpl.
      + destruct Hrest as [Hk Hrest]. eapply (refines_trans V teq (@teq_trans A) sem).
        * apply (transpose_pair_action_sound g act e Hadm Ed Hk).
        * apply IH. exact Hrest.
      + apply (refines_refl V teq (@teq_refl A) sem).
  Qed.
End TPassSound.

(* ---------------------------------------------------------------- non-vacuity *)
Definition ex_tg (outs : list name) : tgraph :=
  mkTG [mkNode "Transpose" [1; 0; 2; 1] [1] [] [2]; mkNode "CastLike" [] [2; 9] [] [3]; mkNode "Max" [] [8; 3] [] [4];
        mkNode "Transpose" [1; 0; 2; 1] [4] [] [5]; mkNode "Relu" [] [5] [] [6]] outs (fun n => Nat.eqb n 8).
Example transpose_chain_folded :
  tg_nodes (transpose_pair_pass 5 (ex_tg [6])) = [mkNode "CastLike" [] [1; 9] [] [3]; mkNode "Max" [] [8; 3] [] [4]; mkNode "Relu" [] [4] [] [6]]
  /\ pass_trace 5 (ex_tg [6]) = [6]
  /\ option_map proved_kind (decide_step (ex_tg [6])) = Some true.
Proof. vm_compute. auto. Qed.
Example transpose_observed_intermediate_kept : List.length (tg_nodes (transpose_pair_pass 5 (ex_tg [6; 3]))) = 5.
Proof. vm_compute. reflexivity. Qed.
Example transpose_multi_consumer :
  tg_nodes (transpose_pair_pass 5 (mkTG [mkNode "Transpose" [1; 1; 0] [1] [] [2]; mkNode "Transpose" [1; 1; 0] [2] [] [3]; mkNode "Relu" [] [2] [] [4]] [3; 4] (fun _ => false)))
  = [mkNode "Transpose" [1; 1; 0] [1] [] [2]; mkNode "Relu" [] [2] [] [4]].
Proof. vm_compute. reflexivity. Qed.
