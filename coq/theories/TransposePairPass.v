(* TransposePairPass (C02): a faithful model of remove_redundant_transpose_pairs_ir: the COMPLETE decision of its
   while-changed loop, in the order of the Python tests:
     phase A ("Pass -1")   Add chains between Transposes p ... Transposes q           -> action TAddChain   (modelled)
     phase B ("Pass -0.5") inverse Transposes around an elementwise DAG with several
                           Transpose inputs                                            -> action TForest     (modelled)
     phase C ("Pass 0")    Transpose T1 -> elementwise DAG -> inverse Transpose T2     -> action TDag        (modelled; PROVED for the direct pair, es = [])
     phase D, case 1       Transpose T1 -> single-consumer chain of <= 7
                           ALLOWED_ELEMWISE nodes -> inverse Transpose T2              -> action TChain      (PROVED)
     phase D, case 2       Transpose T1 with several consumers, one of them an
                           inverse Transpose T2: only T2 is bypassed                   -> action TMulti      (PROVED)
   and the rewrites (replace_input_with on selected nodes, replace_all_uses_with, removals).  Soundness is proved for
   every admissible annotated SSA graph over tensors of any element type for the action kinds marked PROVED
   ([proved_kind]); [transpose_pair_pass_sound] covers every run of the pass whose actions are all of these kinds.
   Encoding (harness/c02_passes.py): n_op = operator name for domain "", "dom::op" otherwise ("ai.onnx::op" is
   normalised by [op_type], as _op_type does); n_attrs = 1 :: perm for a node with an INTS attribute perm, [] without.
   Domain restrictions of the MODEL, for the PROVED kinds only (they hold in every schema-valid acyclic ONNX graph; the
   model takes no action otherwise): T1, T2 and chain members have exactly one output, chain members have no nested
   graphs, and src, T1's output, the chain outputs and T2's output are pairwise distinct names. *)
From Coq Require Import ZArith String List Bool Arith Lia.
From J2O Require Import PyLib Tensor Graph Redirect Reshape ElemCommute ChainSim ReshapePairPass ChainFacts C02Opt ElemSem.
From J2OGen Require Import GenCast GenOpt.
Import ListNotations.

Record tgraph := mkTG { tg_nodes : list node; tg_outputs : list name; tg_scalar : name -> bool (* _is_scalar_const_value *) }.
Definition tg_graph (g : tgraph) : graph := mkGraph (tg_nodes g) (tg_outputs g).

(* _op_type: default-domain nodes ("" or "ai.onnx") carry the operator name, others a name no pattern matches *)
Definition op_type (s : string) : string := if str_startswith "ai.onnx::" s then str_drop 9 s else s.
Definition nop (n : node) : string := op_type (n_op n).
Definition is_T (n : node) : bool := String.eqb (nop n) "Transpose".
Definition is_add (n : node) : bool := String.eqb (nop n) "Add".
Definition perm_of (n : node) : option (list nat) := match n_attrs n with 1 :: p => Some p | _ => None end.
Definition inv_ok (p q : list nat) : bool :=
  match is_inverse_perm (map Z.of_nat p) (map Z.of_nat q) with Some true => true | _ => false end.
Definition is_elem (n : node) : bool := str_in (nop n) ELEMENTWISE_UNARY_OPS || str_in (nop n) ELEMENTWISE_BINARY_OPS.

Definition leqb (a b : list nat) : bool := list_eqb Nat.eqb a b.
Definition node_eqb (a b : node) : bool :=
  String.eqb (n_op a) (n_op b) && leqb (n_attrs a) (n_attrs b) && leqb (n_ins a) (n_ins b) && leqb (n_caps a) (n_caps b) && leqb (n_outs a) (n_outs b).
Definition memn (n : node) (l : list node) : bool := existsb (node_eqb n) l.
Definition mem (x : name) (l : list name) : bool := existsb (Nat.eqb x) l.
Definition addn (n : node) (l : list node) : list node := if memn n l then l else l ++ [n].

Definition tobserved (g : tgraph) (v : name) : bool :=
  mem v (tg_outputs g) || existsb (fun m => mem v (n_caps m)) (tg_nodes g).
Definition first_in (n : node) : option name := hd_error (n_ins n).
Definition out1 (n : node) : option name := hd_error (n_outs n).
Definition permeq (a b : option (list nat)) : bool := match a, b with Some x, Some y => leqb x y | _, _ => false end.

(* node.replace_input_with on the nodes selected by [sel] (inputs only: captures of nested graphs are not touched) *)
Definition map_inputs (sel : node -> bool) (f : name -> name) (ns : list node) : list node :=
  map (fun n => if sel n then mkNode (n_op n) (n_attrs n) (map f (n_ins n)) (n_caps n) (n_outs n) else n) ns.

(* ================================================================ phase A: Add chains *)
Record addst := mkAS { as_chain : list node; as_fwd : option (list nat); as_inv : option (list nat) }.

(* the inputs of one Add of the chain: every input comes from [prev] or from a Transpose with the common perm *)
Fixpoint add_inputs (ns : list node) (prev : option node) (ins : list name) (pf : option (list nat)) (has_prev : bool) (nt : nat)
  : option (option (list nat) * bool * nat) :=
  match ins with
  | [] => Some (pf, has_prev, nt)
  | iv :: r =>
      match producer ns iv with
      | Some pr =>
          if match prev with Some pv => node_eqb pr pv | None => false end then add_inputs ns prev r pf true nt
          else if negb (is_T pr) then None
          else match perm_of pr with
               | None => None
               | Some p => match pf with
                           | None => add_inputs ns prev r (Some p) has_prev (S nt)
                           | Some p0 => if leqb p0 p then add_inputs ns prev r pf has_prev (S nt) else None
                           end
               end
      | None => None
      end
  end.

Fixpoint other_consumers_ok (cs : list node) (pi : option (list nat)) : option (option (list nat)) :=
  match cs with
  | [] => Some pi
  | c :: r => if negb (is_T c) then None
              else match perm_of c with
                   | None => None
                   | Some p => match pi with
                               | None => other_consumers_ok r (Some p)
                               | Some p0 => if leqb p0 p then other_consumers_ok r pi else None
                               end
                   end
  end.

Fixpoint add_walk (g : tgraph) (fuel : nat) (prev : option node) (cur : node) (st : addst) : option addst :=
  match fuel with
  | O => None
  | S k =>
      if negb (is_add cur) then None else
      if Nat.ltb (length (n_ins cur)) 2 then None else
      match add_inputs (tg_nodes g) prev (n_ins cur) (as_fwd st) false 0 with
      | None => None
      | Some (pf, has_prev, nt) =>
          if match prev with None => Nat.ltb nt 1 | Some _ => negb has_prev || negb (Nat.eqb nt 1) end then None else
          match out1 cur with
          | None => None
          | Some out =>
              let cs := consumers (tg_nodes g) out in
              let adds := filter is_add cs in
              let others := filter (fun c => negb (is_add c)) cs in
              if Nat.ltb 1 (length adds) then None else
              match other_consumers_ok others (as_inv st) with
              | None => None
              | Some pi =>
                  if tobserved g out then None else
                  let st' := mkAS (as_chain st ++ [cur]) pf pi in
                  match adds with
                  | nx :: _ => add_walk g k (Some cur) nx st'
                  | [] => Some st'
                  end
              end
          end
      end
  end.

Definition decide_add (g : tgraph) (start : node) : option addst :=
  if negb (is_add start) then None else
  match add_walk g (S (length (tg_nodes g))) None start (mkAS [] None None) with
  | Some st => match as_chain st, as_fwd st, as_inv st with
               | _ :: _, Some pf, Some pi => if inv_ok pf pi then Some st else None
               | _, _, _ => None
               end
  | None => None
  end.

(* rewrite: inputs of the chain's Adds that come from a Transpose with perm_fwd are re-pointed to its source; then, chain
   node by chain node, every consumer Transpose with perm_inv is bypassed *)
Definition add_src (ns : list node) (pf : list nat) (iv : name) : name :=
  match producer ns iv with
  | Some pr => if is_T pr && permeq (perm_of pr) (Some pf) then match first_in pr with Some s => s | None => iv end else iv
  | None => iv
  end.
Fixpoint add_bypass (ns0 : list node) (pi : list nat) (chain : list node) (g : graph) (rm : list node) : graph * list node :=
  match chain with
  | [] => (g, rm)
  | n :: r =>
      match out1 n with
      | None => add_bypass ns0 pi r g rm
      | Some out =>
          let cs := filter (fun c => is_T c && permeq (perm_of c) (Some pi)) (consumers (g_nodes g) out) in
          let g' := fold_left (fun acc c => match out1 c with Some co => replace_all_uses co out acc | None => acc end) cs g in
          add_bypass ns0 pi r g' (fold_left (fun acc c => match out1 c with Some _ => addn c acc | None => acc end) cs rm)
      end
  end.
Definition outs_in (rm : list node) (n : node) : bool := existsb (fun m => leqb (n_outs m) (n_outs n)) rm.
Definition apply_add (g : tgraph) (st : addst) : tgraph :=
  match as_fwd st, as_inv st with
  | Some pf, Some pi =>
      let ns0 := tg_nodes g in
      let ns1 := map_inputs (fun n => memn n (as_chain st)) (add_src ns0 pf) ns0 in
      let chain1 := map (fun n => mkNode (n_op n) (n_attrs n) (map (add_src ns0 pf) (n_ins n)) (n_caps n) (n_outs n)) (as_chain st) in
      let '(g2, rm) := add_bypass ns0 pi chain1 (mkGraph ns1 (tg_outputs g)) [] in
      mkTG (filter (fun n => negb (outs_in rm n)) (g_nodes g2)) (g_outputs g2) (tg_scalar g)
  | _, _ => g
  end.

(* ================================================================ phases B and C: backward closure over elementwise nodes *)
Fixpoint collect (g : tgraph) (fuel : nat) (work visited : list name) (ts es : list node) : option (list node * list node) :=
  match fuel with
  | O => None
  | S k =>
      match work with
      | [] => Some (ts, es)
      | v :: w =>
          if mem v visited then collect g k w visited ts es
          else if tg_scalar g v then collect g k w (v :: visited) ts es
          else match producer (tg_nodes g) v with
               | None => None
               | Some p =>
                   if is_T p then collect g k w (v :: visited) (addn p ts) es
                   else if negb (is_elem p) then None
                   else if memn p es then collect g k w (v :: visited) ts es
                   else collect g k (filter (fun x => negb (tg_scalar g x)) (n_ins p) ++ w) (v :: visited) ts (es ++ [p])
               end
      end
  end.
Definition collect_fuel (g : tgraph) : nat := 2 * (length (flat_map n_ins (tg_nodes g)) + length (tg_nodes g)) + 4.

Definition all_perm_eq (ts : list node) : option (list nat) :=
  match ts with
  | [] => None
  | t :: r => match perm_of t with
              | Some p => if forallb (fun u => permeq (perm_of u) (Some p)) r then Some p else None
              | None => None
              end
  end.

(* phase B *)
Fixpoint forest_outs (g : tgraph) (es all : list node) (q : list nat) (acc : list node) : option (list node) :=
  match es with
  | [] => Some acc
  | n :: r =>
      match out1 n with
      | None => forest_outs g r all q acc
      | Some out =>
          if tobserved g out then None else
          let cs := filter (fun c => negb (memn c all)) (consumers (tg_nodes g) out) in
          if forallb (fun c => is_T c && permeq (perm_of c) (Some q)) cs
          then forest_outs g r all q (fold_left (fun a c => addn c a) cs acc) else None
      end
  end.
Record forest := mkF { f_ts : list node; f_es : list node; f_outs : list node }.
Definition decide_forest (g : tgraph) (t2 : node) : option forest :=
  if negb (is_T t2) then None else
  match first_in t2, perm_of t2 with
  | Some t2_in, Some q =>
      match collect g (collect_fuel g) [t2_in] [] [] [] with
      | Some (ts, es) =>
          match ts with [] => None | _ =>
          match all_perm_eq ts with
          | Some p => if negb (inv_ok p q) then None else
                      match forest_outs g es es q [] with
                      | Some outs => if memn t2 outs then Some (mkF ts es outs) else None
                      | None => None
                      end
          | None => None
          end end
      | None => None
      end
  | _, _ => None
  end.
Definition apply_forest (g : tgraph) (f : forest) : tgraph :=
  let tmap := flat_map (fun t => match out1 t, first_in t with Some o, Some s => [(o, s)] | _, _ => [] end) (f_ts f) in
  let re x := match find (fun p => Nat.eqb (fst p) x) tmap with Some p => snd p | None => x end in
  let ns1 := map_inputs (fun n => memn n (f_es f)) re (tg_nodes g) in
  let outs1 := map (fun n => if memn n (f_es f) then mkNode (n_op n) (n_attrs n) (map re (n_ins n)) (n_caps n) (n_outs n) else n) (f_outs f) in
  let g2 := fold_left (fun acc t => match out1 t, first_in t with Some o, Some i => replace_all_uses o i acc | _, _ => acc end)
                      outs1 (mkGraph ns1 (tg_outputs g)) in
  let live := filter (fun n => negb (outs_in (f_outs f) n)) (g_nodes g2) in
  let g3 := mkTG live (g_outputs g2) (tg_scalar g) in
  let dead t := match out1 t with
                | Some o => match consumers live o with [] => negb (tobserved g3 o) | _ => false end
                | None => false end in
  mkTG (filter (fun n => negb (existsb (fun t => leqb (n_outs t) (n_outs n) && dead t) (f_ts f))) live) (g_outputs g2) (tg_scalar g).

(* phase C *)
Record dag := mkD { d_T1 : node; d_T2 : node; d_es : list node }.
Definition decide_dag (g : tgraph) (t2 : node) : option dag :=
  if negb (is_T t2) then None else
  match first_in t2, perm_of t2 with
  | Some t2_in, Some q =>
      match collect g (collect_fuel g) [t2_in] [] [] [] with
      | Some ([T1], es) =>
          if node_eqb T1 t2 then None else
          match perm_of T1, out1 T1, first_in T1, n_outs t2 with
          | Some p, Some t1_out, Some t1_in, _ :: _ =>
              let members c := node_eqb c t2 || memn c es in
              if inv_ok p q && negb (tobserved g t1_out)
                 && forallb members (consumers (tg_nodes g) t1_out)
                 && forallb (fun n => match out1 n with
                                      | None => true
                                      | Some o => negb (tobserved g o) && forallb members (consumers (tg_nodes g) o)
                                      end) es
              then Some (mkD T1 t2 es) else None
          | _, _, _, _ => None
          end
      | _ => None
      end
  | _, _ => None
  end.
Definition apply_dag (g : tgraph) (d : dag) : tgraph :=
  match out1 (d_T1 d), first_in (d_T1 d), out1 (d_T2 d), first_in (d_T2 d) with
  | Some t1_out, Some t1_in, Some t2_out, Some t2_in =>
      let ns1 := map_inputs (fun n => memn n (d_es d)) (rn t1_out t1_in) (tg_nodes g) in
      let nw := match d_es d with [] => t1_in | _ => t2_in end in
      let g2 := replace_all_uses t2_out nw (mkGraph ns1 (tg_outputs g)) in
      mkTG (filter (fun n => negb (leqb (n_outs n) (n_outs (d_T1 d)) || leqb (n_outs n) (n_outs (d_T2 d)))) (g_nodes g2))
           (g_outputs g2) (tg_scalar g)
  | _, _, _, _ => g
  end.

(* ================================================================ phase D *)
Fixpoint fside_ok (g : tgraph) (castlike : bool) (prev : name) (pos : nat) (ins : list name) : bool :=
  match ins with
  | [] => true
  | x :: r => (Nat.eqb x prev || (castlike && Nat.eqb pos 1) || tg_scalar g x) && fside_ok g castlike prev (S pos) r
  end.

(* case 1: forward walk over single consumers *)
Fixpoint fwalk (g : tgraph) (fuel : nat) (cur : node) (prev : name) (acc : list node) : option (list node * node) :=
  match fuel with
  | O => None
  | S k =>
      if str_in (nop cur) ALLOWED_ELEMWISE then
        match n_outs cur, n_caps cur with
        | [y], [] =>
            if tobserved g y then None
            else if negb (fside_ok g (String.eqb (nop cur) "CastLike") prev 0 (n_ins cur)) then None
            else match consumers (tg_nodes g) y with [nx] => fwalk g k nx y (acc ++ [cur]) | _ => None end
        | _, _ => None
        end
      else if is_T cur then Some (acc, cur) else None
  end.

Inductive taction :=
| TAddChain (st : addst)
| TForest (f : forest)
| TDag (d : dag)
| TChain (a : action)                      (* src, T1's output, chain, T2's output *)
| TMulti (src t1_out t2_out : name).

Definition decide_D (g : tgraph) (T1 : node) : option taction :=
  if negb (is_T T1) then None else
  match out1 T1 with
  | None => None
  | Some a0 =>
      match consumers (tg_nodes g) a0 with
      | [] => None
      | [c] =>
          if tobserved g a0 then None else
          match fwalk g 8 c a0 [] with
          | None => None
          | Some (chain, T2) =>
              match perm_of T1, perm_of T2, n_ins T1, n_outs T1, n_outs T2 with
              | Some p, Some q, src :: _, [_], [b] =>
                  let a := mkAct src a0 chain b in
                  if inv_ok p q && nodupb (src :: dirty a ++ [b]) then Some (TChain a) else None
              | _, _, _, _, _ => None
              end
          end
      | cs =>
          match first_in T1, perm_of T1 with
          | Some src, Some p =>
              match find (fun c => is_T c && match perm_of c with Some q => inv_ok p q | None => false end) cs with
              | Some T2 => match n_outs T2, n_outs T1 with
                           | [b], [_] => if Nat.eqb src b then None else Some (TMulti src a0 b)
                           | _, _ => None
                           end
              | None => None
              end
          | _, _ => None
          end
      end
  end.

Fixpoint first_some {B C} (f : B -> option C) (l : list B) : option C :=
  match l with [] => None | x :: r => match f x with Some y => Some y | None => first_some f r end end.

Definition decide_step (g : tgraph) : option taction :=
  match first_some (decide_add g) (tg_nodes g) with
  | Some st => Some (TAddChain st)
  | None =>
      match first_some (decide_forest g) (tg_nodes g) with
      | Some f => Some (TForest f)
      | None =>
          match first_some (decide_dag g) (tg_nodes g) with
          | Some d => Some (TDag d)
          | None => first_some (decide_D g) (tg_nodes g)
          end
      end
  end.

Definition apply_chain (g : tgraph) (a : action) : tgraph :=
  let g1 := match ac_chain a with [] => tg_graph g | _ => replace_all_uses (ac_t1 a) (ac_src a) (tg_graph g) end in
  let g2 := replace_all_uses (ac_t2 a) (new_src a) g1 in
  mkTG (remove_first (node_is (ac_t2 a)) (remove_first (node_is (ac_t1 a)) (g_nodes g2))) (g_outputs g2) (tg_scalar g).

Definition apply_taction (g : tgraph) (a : taction) : tgraph :=
  match a with
  | TAddChain st => apply_add g st
  | TForest f => apply_forest g f
  | TDag d => apply_dag g d
  | TChain a => apply_chain g a
  | TMulti src _ b => let g' := redirect_remove b src (tg_graph g) in mkTG (g_nodes g') (g_outputs g') (tg_scalar g)
  end.

Definition transpose_pair_step (g : tgraph) : option tgraph := option_map (apply_taction g) (decide_step g).
Fixpoint transpose_pair_pass (fuel : nat) (g : tgraph) : tgraph :=
  match fuel with O => g | S k => match transpose_pair_step g with Some g' => transpose_pair_pass k g' | None => g end end.

(* which action kinds the soundness theorem covers *)
(* every CastLike member of the chain takes the chain value as its DATA operand (input 0) *)
Fixpoint castlike_data_first (prev : name) (chain : list node) : bool :=
  match chain with
  | [] => true
  | n :: r => (negb (String.eqb (nop n) "CastLike") || match n_ins n with x :: _ => Nat.eqb x prev | [] => false end)
              && castlike_data_first (out_of n) r
  end.
Definition proved_kind (a : taction) : bool :=
  match a with
  | TChain a => castlike_data_first (ac_t1 a) (ac_chain a)
  | TMulti _ _ _ => true
  | TDag d => match d_es d with [] => true | _ => false end
  | _ => false
  end.
Definition kind_code (a : taction) : nat :=
  match a with TAddChain _ => 1 | TForest _ => 2 | TDag d => match d_es d with [] => 3 | _ => 4 end | TChain a => match ac_chain a with [] => 5 | _ => 6 end | TMulti _ _ _ => 7 end.
Fixpoint pass_trace (fuel : nat) (g : tgraph) : list nat :=
  match fuel with
  | O => []
  | S k => match decide_step g with Some a => kind_code a :: pass_trace k (apply_taction g a) | None => [] end
  end.

(* ================================================================ soundness: permutations *)
Lemma inv_ok_perms p q : inv_ok p q = true -> is_inverse p q /\ is_perm p /\ is_perm q.
Proof.
  unfold inv_ok. destruct (is_inverse_perm (map Z.of_nat p) (map Z.of_nat q)) as [[|]|] eqn:E; try discriminate. intros _.
  pose proof (is_inverse_perm_sound p q E) as Hinv.
  (* the entries of q index p without IndexError *)
  assert (Hq : Forall (fun k => k < length p) q).
  { unfold is_inverse_perm in E. rewrite !map_length in E.
    destruct (Z.of_nat (length p) =? Z.of_nat (length q))%Z; simpl in E; [|discriminate].
    destruct (mapM _ _) as [composed|] eqn:Em; [|discriminate]. apply mapM_Forall2 in Em. clear E Hinv.
    revert composed Em. induction q as [|k q IH]; intros composed Em; [constructor|].
    simpl in Em. inversion Em as [|? c ? cs Hk Hr]; subst.
    destruct (py_index (map Z.of_nat p) (Z.of_nat k)) as [c'|] eqn:Ek; [|discriminate].
    apply py_index_nat in Ek as [Hlt _]. constructor; eauto. }
  destruct Hinv as [Hl Hc].
  assert (Hndq : NoDup q).
  { apply (NoDup_nth q 0). intros i j Hi Hj E'.
    assert (Hi' : nth i (gather 0 q p) 0 = i) by (rewrite Hc; apply seq_nth; lia).
    assert (Hj' : nth j (gather 0 q p) 0 = j) by (rewrite Hc; apply seq_nth; lia).
    rewrite nth_gather in Hi', Hj' by auto. rewrite E' in Hi'. congruence. }
  assert (Hpq : is_perm q) by (split; auto; now rewrite <- Hl).
  split; [split; auto|]. split; [|exact Hpq].
  (* p is the inverse of q *)
  assert (Hpk : forall k, k < length p -> nth k p 0 = index_of k q).
  { intros k Hk. assert (Hin : In k q) by (apply perm_In; auto; lia).
    pose proof (index_of_lt _ _ Hin) as Hlt.
    assert (H : nth (index_of k q) (gather 0 q p) 0 = index_of k q) by (rewrite Hc; apply seq_nth; lia).
    rewrite nth_gather in H by exact Hlt. now rewrite nth_index_of in H by exact Hin. }
  split.
  - apply (NoDup_nth p 0). intros i j Hi Hj E'. rewrite !Hpk in E' by auto.
    rewrite <- (nth_index_of q i) by (apply perm_In; auto; lia). rewrite <- (nth_index_of q j) by (apply perm_In; auto; lia). now rewrite E'.
  - apply Forall_forall. intros x Hx. apply In_nth with (d := 0) in Hx as (k & Hk & <-). rewrite Hpk by exact Hk.
    rewrite Hl. apply index_of_lt. apply perm_In; auto. lia.
Qed.

Lemma perm_of_attrs n p : perm_of n = Some p -> n_attrs n = 1 :: p.
Proof. unfold perm_of. destruct (n_attrs n) as [|[|[|k]] r]; try discriminate. intro H. now injection H as <-. Qed.

(* ================================================================ soundness: structure of a TChain action *)
Fixpoint tchain (g : tgraph) (prev : name) (chain : list node) : Prop :=
  match chain with
  | [] => True
  | n :: r => exists y, n_outs n = [y] /\ n_caps n = [] /\ In prev (n_ins n) /\ str_in (nop n) ALLOWED_ELEMWISE = true /\
                fside_ok g (String.eqb (nop n) "CastLike") prev 0 (n_ins n) = true /\ tobserved g y = false /\
                (forall m, In m (tg_nodes g) -> In y (n_ins m) -> match r with nx :: _ => m = nx | [] => True end) /\ tchain g y r
  end.

Lemma consumers_single ns y nx m : consumers ns y = [nx] -> In m ns -> In y (n_ins m) -> m = nx.
Proof.
  intros Hc Hm Hy. assert (H : In m (consumers ns y)).
  { unfold consumers. apply filter_In. split; auto. apply existsb_exists. exists y. split; auto. apply Nat.eqb_refl. }
  rewrite Hc in H. destruct H as [<-|[]]. reflexivity.
Qed.
Lemma consumers_in ns y nx : consumers ns y = [nx] -> In nx ns /\ In y (n_ins nx).
Proof.
  intro Hc. assert (H : In nx (consumers ns y)) by (rewrite Hc; now left). unfold consumers in H. apply filter_In in H as [H1 H2].
  split; auto. apply existsb_exists in H2 as (z & Hz & E). apply Nat.eqb_eq in E. now subst.
Qed.

Lemma fwalk_spec g : forall fuel cur prev acc chain T2, fwalk g fuel cur prev acc = Some (chain, T2) ->
  In cur (tg_nodes g) -> In prev (n_ins cur) ->
  exists new, chain = acc ++ new /\ tchain g prev new /\ (forall n, In n new -> In n (tg_nodes g)) /\
    In T2 (tg_nodes g) /\ is_T T2 = true /\ In (last (map out_of new) prev) (n_ins T2) /\
    match new with nx :: _ => cur = nx | [] => cur = T2 end /\
    (forall m, In m (tg_nodes g) -> In (last (map out_of new) prev) (n_ins m) -> new <> [] -> m = T2).
Proof.
  induction fuel as [|k IH]; intros cur prev acc chain T2 H Hcur Hprev; [discriminate|]. cbn [fwalk] in H.
  destruct (str_in (nop cur) ALLOWED_ELEMWISE) eqn:Ea.
  - destruct (n_outs cur) as [|y [|]] eqn:Ho; try discriminate. destruct (n_caps cur) eqn:Hc; try discriminate.
    destruct (tobserved g y) eqn:Eobs; [discriminate|].
    destruct (fside_ok g _ prev 0 (n_ins cur)) eqn:Es; [|discriminate]. cbn [negb] in H.
    destruct (consumers (tg_nodes g) y) as [|nx [|]] eqn:Ec; try discriminate.
    destruct (consumers_in _ _ _ Ec) as [Hnx Hynx].
    destruct (IH _ _ _ _ _ H Hnx Hynx) as (new & -> & Hch & Hin & HT2 & HisT & Hlast & Hhd & Hcons).
    assert (Hoy : out_of cur = y) by (unfold out_of; now rewrite Ho).
    exists (cur :: new). rewrite <- app_assoc. split; [reflexivity|]. split.
    { simpl. exists y. repeat split; auto.
      intros m Hm Hy. destruct new as [|n0 r0]; auto. subst n0. exact (consumers_single _ _ _ _ Ec Hm Hy). }
    split; [intros n [<-|Hn]; auto|]. split; [exact HT2|]. split; [exact HisT|].
    assert (Hl : last (map out_of (cur :: new)) prev = last (map out_of new) y).
    { destruct new as [|n0 r0]; [simpl; exact Hoy|].
      change (last (map out_of (cur :: n0 :: r0)) prev) with (last (map out_of (n0 :: r0)) prev). apply last_indep. discriminate. }
    rewrite Hl. split; [exact Hlast|]. split; [reflexivity|].
    intros m Hm Hy _. destruct new as [|n0 r0].
    + simpl in *. subst nx. exact (consumers_single _ _ _ _ Ec Hm Hy).
    + apply Hcons; auto. discriminate.
  - destruct (is_T cur) eqn:ET; [|discriminate]. injection H as <- <-.
    exists []. rewrite app_nil_r. simpl. split; [reflexivity|]. split; [exact I|]. split; [intros n []|].
    split; [exact Hcur|]. split; [exact ET|]. split; [exact Hprev|]. split; [reflexivity|]. intros m _ _ Hne. congruence.
Qed.

Record tchain_facts (g : tgraph) (a : action) (T1 T2 : node) (p q : list nat) : Prop := {
  tf_struct : chain_struct (tg_nodes g) (tg_outputs g) a T1 T2;
  tf_T1_op : is_T T1 = true;
  tf_T1_perm : perm_of T1 = Some p;
  tf_T1_ins : exists r, n_ins T1 = ac_src a :: r;
  tf_T2_op : is_T T2 = true;
  tf_T2_perm : perm_of T2 = Some q;
  tf_T2_reads : In (last (dirty a) 0) (n_ins T2);
  tf_inv : inv_ok p q = true;
  tf_chain : tchain g (ac_t1 a) (ac_chain a) }.

Lemma tobserved_false g v : tobserved g v = false -> ~ In v (tg_outputs g) /\ forall m, In m (tg_nodes g) -> ~ In v (n_caps m).
Proof. intro H. exact (observed_false (mkPG (tg_nodes g) (tg_outputs g) (fun _ => None) (tg_scalar g) (fun _ => None)) v H). Qed.

Lemma tchain_outs g : forall chain prev n, tchain g prev chain -> In n chain -> n_outs n = [out_of n].
Proof.
  induction chain as [|m r IH]; simpl; intros prev n H Hin; [contradiction|]. destruct H as (y & Ho & _ & _ & _ & _ & _ & _ & Hr).
  destruct Hin as [<-|Hin]; [unfold out_of; now rewrite Ho | eauto].
Qed.
Lemma tchain_unobs g : forall chain prev y, tchain g prev chain -> In y (map out_of chain) -> tobserved g y = false.
Proof.
  induction chain as [|m r IH]; simpl; intros prev y H Hin; [contradiction|]. destruct H as (y0 & Ho & _ & _ & _ & _ & Hobs & _ & Hr).
  destruct Hin as [<-|Hin]; [unfold out_of; now rewrite Ho | eauto].
Qed.
(* who reads a chain output: the next member, or (for the last one) whoever [lastc] says *)
Lemma tchain_cons g : forall chain prev x m, tchain g prev chain -> In x (map out_of chain) -> In m (tg_nodes g) -> In x (n_ins m) ->
  In m chain \/ x = last (map out_of chain) prev.
Proof.
  induction chain as [|c r IH]; simpl; intros prev x m H Hx Hm Hin; [contradiction|].
  destruct H as (y & Ho & _ & _ & _ & _ & _ & Hnext & Hr).
  assert (Hoy : out_of c = y) by (unfold out_of; now rewrite Ho). rewrite Hoy in *.
  destruct Hx as [<-|Hx].
  - destruct r as [|nx r']; [right; reflexivity|]. left. right. left. symmetry. exact (Hnext m Hm Hin).
  - destruct (IH y x m Hr Hx Hm Hin) as [H|H]; [left; now right|]. right. rewrite H.
    destruct r as [|nx r']; [contradiction|].
    change (last (map out_of (c :: nx :: r')) prev) with (last (map out_of (nx :: r')) prev). apply last_indep. discriminate.
Qed.

Lemma in_members_of_chain (a : action) g prev m : tchain g prev (ac_chain a) -> In m (ac_chain a) ->
  in_members (chain_outs a ++ [ac_t2 a]) m = true.
Proof.
  intros Hch Hm. unfold in_members. rewrite (tchain_outs g _ _ m Hch Hm). apply existsb_exists. exists (out_of m). split; [|apply Nat.eqb_refl].
  apply in_or_app. left. unfold chain_outs. apply in_map_iff. eauto.
Qed.

Lemma last_dirty_form (a : action) : last (dirty a) 0 = last (chain_outs a) (ac_t1 a).
Proof.
  unfold dirty. destruct (chain_outs a) as [|y r] eqn:E; [reflexivity|].
  change (last (ac_t1 a :: y :: r) 0) with (last (y :: r) 0). apply last_indep. discriminate.
Qed.

Lemma decide_D_chain_facts g T1 a : In T1 (tg_nodes g) -> decide_D g T1 = Some (TChain a) ->
  exists T2 p q, tchain_facts g a T1 T2 p q.
Proof.
  intros HT1 H. unfold decide_D in H.
  destruct (is_T T1) eqn:ET1; [|discriminate]. cbn [negb] in H.
  destruct (out1 T1) as [a0|] eqn:Eo1; [|discriminate].
  destruct (consumers (tg_nodes g) a0) as [|c [|c2 cr]] eqn:Ec; [discriminate| |].
  2:{ destruct (first_in T1); [|discriminate]. destruct (perm_of T1); [|discriminate].
      destruct (find _ _) as [T2|]; [|discriminate]. destruct (n_outs T2) as [|? [|]]; try discriminate.
      destruct (n_outs T1) as [|? [|]]; try discriminate. destruct (Nat.eqb _ _); discriminate. }
  destruct (tobserved g a0) eqn:Eobs; [discriminate|].
  destruct (fwalk g 8 c a0 []) as [[chain T2]|] eqn:Ew; [|discriminate].
  destruct (perm_of T1) as [p|] eqn:Ep; [|discriminate]. destruct (perm_of T2) as [q|] eqn:Eq; [|discriminate].
  destruct (n_ins T1) as [|src rest1] eqn:Hi1; [discriminate|].
  destruct (n_outs T1) as [|a0' [|]] eqn:Ho1; try discriminate.
  destruct (n_outs T2) as [|b [|]] eqn:Ho2; try discriminate.
  match type of H with (if ?c then _ else _) = _ => destruct c eqn:Ecnd; [|discriminate] end.
  injection H as <-. apply andb_prop in Ecnd as [Hinv Hnd]. apply nodupb_NoDup in Hnd.
  assert (a0' = a0) by (unfold out1 in Eo1; rewrite Ho1 in Eo1; simpl in Eo1; congruence). subst a0'.
  destruct (consumers_in _ _ _ Ec) as [Hc Ha0c].
  destruct (fwalk_spec g _ _ _ _ _ _ Ew Hc Ha0c) as (new & Hnew & Hch & Hin & HT2 & HisT & Hlast & Hhd & Hcons).
  simpl in Hnew. subst new.
  set (a := mkAct src a0 chain b) in *.
  exists T2, p, q. constructor; cbn [ac_src ac_t1 ac_chain ac_t2]; auto; [| eauto |].
  - constructor; cbn [ac_src ac_t1 ac_chain ac_t2]; auto.
    + intros n Hn. exact (tchain_outs g _ _ n Hch Hn).
    + intros x [<-|Hx]; apply tobserved_false; auto. eapply tchain_unobs; eauto.
    + intros x m Hx Hm Hxm. destruct Hx as [<-|Hx].
      * pose proof (consumers_single _ _ _ _ Ec Hm Hxm) as ->.
        destruct chain as [|nx r]; [subst c|subst c; apply (in_members_of_chain a g a0); auto; now left].
        unfold in_members. rewrite Ho2. simpl. now rewrite Nat.eqb_refl.
      * unfold chain_outs, a in Hx. cbn [ac_chain] in Hx.
        destruct (tchain_cons g _ _ x m Hch Hx Hm Hxm) as [Hmc|Hxl].
        { apply (in_members_of_chain a g a0); auto. }
        assert (Hne : chain <> []) by (intro E; rewrite E in Hx; contradiction).
        rewrite Hxl in Hxm. rewrite (Hcons m Hm Hxm Hne).
        unfold in_members. rewrite Ho2. apply existsb_exists. exists b. split; [|apply Nat.eqb_refl]. apply in_or_app. right. now left.
  - rewrite last_dirty_form. exact Hlast.
Qed.
