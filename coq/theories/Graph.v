(* Graph: SSA dataflow graphs over uninterpreted operator semantics, with the two primitives every
   optimizer rewrite is built from — replace_all_uses_with (incl. graph outputs) and node removal —
   and their soundness lemmas.  Values captured by nested control-flow bodies are explicit
   ([n_caps]): a node with subgraphs is a function of its inputs AND its captures. *)
From Coq Require Import String List Arith Lia Bool PeanoNat.
Import ListNotations.



Definition name := nat.

Record node := mkNode {
  n_op : string;
  n_attrs : list nat;          (* opaque attribute payload (interned) *)
  n_ins : list name;
  n_caps : list name;          (* outer values read inside nested graphs of this node *)
  n_outs : list name }.

Record graph := mkGraph { g_nodes : list node; g_outputs : list name }.

Definition n_uses (n : node) : list name := n_ins n ++ n_caps n.

Section Sem.
Variable V : Type.
Variable veq : V -> V -> Prop.
Hypothesis veq_refl : forall a, veq a a.
Hypothesis veq_sym : forall a b, veq a b -> veq b a.
Hypothesis veq_trans : forall a b c, veq a b -> veq b c -> veq a c.

(* operator semantics: a function of op, attributes and the values of inputs ++ captures;
   None = the operator rejects its inputs *)
Variable sem : string -> list nat -> list V -> option (list V).
Hypothesis sem_proper : forall op ats vs vs' o, Forall2 veq vs vs' -> sem op ats vs = Some o ->
  exists o', sem op ats vs' = Some o' /\ Forall2 veq o o'.

Definition env := name -> option V.
Definition upd (e : env) (x : name) (v : V) : env := fun y => if Nat.eqb y x then Some v else e y.
Fixpoint upds (e : env) (xs : list name) (vs : list V) : env :=
  match xs, vs with x :: xr, v :: vr => upds (upd e x v) xr vr | _, _ => e end.

Fixpoint lookups (e : env) (xs : list name) : option (list V) :=
  match xs with
  | [] => Some []
  | x :: r => match e x, lookups e r with Some v, Some vs => Some (v :: vs) | _, _ => None end
  end.

Definition step (e : env) (n : node) : option env :=
  match lookups e (n_uses n) with
  | Some vs => match sem (n_op n) (n_attrs n) vs with
               | Some o => if Nat.eqb (length o) (length (n_outs n)) then Some (upds e (n_outs n) o) else None
               | None => None end
  | None => None
  end.

Fixpoint eval (ns : list node) (e : env) : option env :=
  match ns with [] => Some e | n :: r => match step e n with Some e' => eval r e' | None => None end end.

Definition run (g : graph) (e : env) : option (list V) :=
  match eval (g_nodes g) e with Some ef => lookups ef (g_outputs g) | None => None end.

(* the optimised model runs whenever the original does, with equivalent outputs *)
Definition refines (g g' : graph) (e : env) : Prop :=
  forall o, run g e = Some o -> exists o', run g' e = Some o' /\ Forall2 veq o o'.

(* ---- environments related up to veq *)
Definition env_le (e e' : env) : Prop := forall x a, e x = Some a -> exists a', e' x = Some a' /\ veq a a'.

Lemma env_le_refl e : env_le e e.
Proof. intros x a H. eauto. Qed.

Lemma lookups_le e e' xs vs : env_le e e' -> lookups e xs = Some vs ->
  exists vs', lookups e' xs = Some vs' /\ Forall2 veq vs vs'.
Proof.
  intro H. revert vs. induction xs as [|x r IH]; simpl; intros vs Hl.
  - injection Hl as <-. eauto.
  - destruct (e x) as [a|] eqn:Ex; [|discriminate]. destruct (lookups e r) as [ws|] eqn:Er; [|discriminate].
    injection Hl as <-. destruct (H _ _ Ex) as (a' & Ea' & Haa'). destruct (IH _ eq_refl) as (ws' & Ew & Hw).
    rewrite Ea', Ew. eauto.
Qed.

Lemma upd_le e e' x a a' : env_le e e' -> veq a a' -> env_le (upd e x a) (upd e' x a').
Proof.
  intros H Ha y b. unfold upd. destruct (Nat.eqb y x); [intro E; injection E as <-; eauto | apply H].
Qed.

Lemma upds_le e e' xs vs vs' : env_le e e' -> Forall2 veq vs vs' -> env_le (upds e xs vs) (upds e' xs vs').
Proof.
  intros H Hv. revert e e' xs H. induction Hv as [|a a' vr vr' Ha Hv IH]; intros e e' [|x xr] H; simpl; auto.
  apply IH. now apply upd_le.
Qed.

Lemma Forall2_length_eq {A B} (R : A -> B -> Prop) l l' : Forall2 R l l' -> length l = length l'.
Proof. induction 1; simpl; auto. Qed.

(* ---- renaming uses of [old] to [new] *)
Definition rn (old new x : name) : name := if Nat.eqb x old then new else x.
Definition subst_node old new (n : node) : node :=
  mkNode (n_op n) (n_attrs n) (map (rn old new) (n_ins n)) (map (rn old new) (n_caps n)) (n_outs n).
Definition replace_all_uses (old new : name) (g : graph) : graph :=
  mkGraph (map (subst_node old new) (g_nodes g)) (map (rn old new) (g_outputs g)).

(* invariant: wherever old is defined, new is defined with an equivalent value *)
Definition inv (old new : name) (e : env) : Prop :=
  forall a, e old = Some a -> exists b, e new = Some b /\ veq a b.

Lemma lookups_rn e e' old new xs vs : env_le e e' -> inv old new e ->
  lookups e xs = Some vs -> exists vs', lookups e' (map (rn old new) xs) = Some vs' /\ Forall2 veq vs vs'.
Proof.
  intros Hle Hinv. revert vs. induction xs as [|x r IH]; simpl; intros vs Hl.
  - injection Hl as <-. eauto.
  - destruct (e x) as [a|] eqn:Ex; [|discriminate]. destruct (lookups e r) as [ws|] eqn:Er; [|discriminate].
    injection Hl as <-. destruct (IH _ eq_refl) as (ws' & Ew & Hw). rewrite Ew.
    unfold rn at 1. destruct (Nat.eqb_spec x old) as [->|Hne].
    + destruct (Hinv _ Ex) as (b & Eb & Hab). destruct (Hle _ _ Eb) as (b' & Eb' & Hbb').
      rewrite Eb'. exists (b' :: ws'). split; [reflexivity|]. constructor; eauto.
    + destruct (Hle _ _ Ex) as (a' & Ea' & Haa'). rewrite Ea'. exists (a' :: ws'). split; [reflexivity|]. constructor; auto.
Qed.

Lemma n_uses_subst old new n : n_uses (subst_node old new n) = map (rn old new) (n_uses n).
Proof. unfold n_uses, subst_node; simpl. now rewrite map_app. Qed.

(* Substitution lemma: if the invariant holds in every prefix environment of the ORIGINAL
   evaluation, evaluating the renamed node list stays related to the original. *)
Lemma eval_subst old new : forall ns e e' ef,
  env_le e e' ->
  (forall pre post em, ns = pre ++ post -> eval pre e = Some em -> inv old new em) ->
  eval ns e = Some ef ->
  exists ef', eval (map (subst_node old new) ns) e' = Some ef' /\ env_le ef ef'.
Proof.
  induction ns as [|n r IH]; simpl; intros e e' ef Hle Hinv Hev.
  - injection Hev as <-. eauto.
  - assert (He : inv old new e) by (apply (Hinv [] (n :: r) e); reflexivity).
    unfold step in *. rewrite n_uses_subst. simpl.
    destruct (lookups e (n_uses n)) as [vs|] eqn:El; [|discriminate].
    destruct (lookups_rn _ _ _ _ (n_uses n) _ Hle He El) as (vs' & El' & Hvs). rewrite El'.
    destruct (sem (n_op n) (n_attrs n) vs) as [o|] eqn:Es; [|discriminate].
    destruct (sem_proper _ _ _ _ _ Hvs Es) as (o' & Es' & Ho). rewrite Es'.
    rewrite <- (Forall2_length_eq _ _ _ Ho).
    destruct (Nat.eqb (length o) (length (n_outs n))) eqn:Elen; [|discriminate].
    apply (IH (upds e (n_outs n) o)); auto.
    + now apply upds_le.
    + intros pre post em -> Hpre. apply (Hinv (n :: pre) post em); [reflexivity|].
      simpl. unfold step. now rewrite El, Es, Elen.
Qed.

Theorem replace_all_uses_sound old new g e :
  (forall pre post em, g_nodes g = pre ++ post -> eval pre e = Some em -> inv old new em) ->
  refines g (replace_all_uses old new g) e.
Proof.
  intros Hinv o Hrun. unfold run in *. simpl.
  destruct (eval (g_nodes g) e) as [ef|] eqn:Ev; [|discriminate].
  destruct (eval_subst _ _ (g_nodes g) _ _ _ (env_le_refl e) Hinv Ev) as (ef' & Ev' & Hle). rewrite Ev'.
  assert (Hf : inv old new ef) by (apply (Hinv (g_nodes g) [] ef); [now rewrite app_nil_r | exact Ev]).
  apply (lookups_rn _ _ _ _ (g_outputs g) _ Hle Hf Hrun).
Qed.

(* ---- SSA evaluation: environments only grow, by fresh names *)
Definition defs (ns : list node) : list name := flat_map n_outs ns.
Definition ssa (ns : list node) (e : env) : Prop :=
  NoDup (defs ns) /\ forall x, In x (defs ns) -> e x = None.

Lemma upds_other e xs vs y : ~ In y xs -> upds e xs vs y = e y.
Proof.
  revert e vs. induction xs as [|x xr IH]; intros e [|v vr] H; simpl; auto.
  rewrite IH by (intro; apply H; now right). unfold upd.
  destruct (Nat.eqb_spec y x) as [->|]; auto. exfalso. apply H. now left.
Qed.

Lemma step_mono e n e' x a : step e n = Some e' -> e x = Some a -> ~ In x (n_outs n) -> e' x = Some a.
Proof.
  unfold step. destruct (lookups e (n_uses n)); [|discriminate].
  destruct (sem _ _ _); [|discriminate]. destruct (Nat.eqb _ _); [|discriminate].
  intros E Hx Hn. injection E as <-. now rewrite upds_other.
Qed.

Lemma eval_mono : forall ns e ef x a, eval ns e = Some ef -> e x = Some a -> ~ In x (defs ns) -> ef x = Some a.
Proof.
  induction ns as [|n r IH]; simpl; intros e ef x a Hev Hx Hn.
  - now injection Hev as <-.
  - destruct (step e n) as [e1|] eqn:Es; [|discriminate].
    apply (IH e1); auto.
    + eapply step_mono; eauto. intro. apply Hn. apply in_or_app. now left.
    + intro. apply Hn. apply in_or_app. now right.
Qed.

Lemma eval_app ns1 ns2 e : eval (ns1 ++ ns2) e =
  match eval ns1 e with Some em => eval ns2 em | None => None end.
Proof.
  revert e. induction ns1 as [|n r IH]; simpl; intro e; auto.
  destruct (step e n); auto.
Qed.

Lemma step_undefined e n e' x : step e n = Some e' -> e x = None -> ~ In x (n_outs n) -> e' x = None.
Proof.
  unfold step. destruct (lookups e (n_uses n)); [|discriminate].
  destruct (sem _ _ _); [|discriminate]. destruct (Nat.eqb _ _); [|discriminate].
  intros E Hx Hn. injection E as <-. now rewrite upds_other.
Qed.

Lemma eval_undefined : forall ns e ef x, eval ns e = Some ef -> e x = None -> ~ In x (defs ns) -> ef x = None.
Proof.
  induction ns as [|n r IH]; simpl; intros e ef x Hev Hx Hn.
  - now injection Hev as <-.
  - destruct (step e n) as [e1|] eqn:Es; [|discriminate].
    apply (IH e1); auto.
    + eapply step_undefined; eauto. intro. apply Hn. apply in_or_app. now left.
    + intro. apply Hn. apply in_or_app. now right.
Qed.

(* a prefix environment agrees with the final one wherever it is defined (SSA) *)
Lemma prefix_le_final pre post e em ef : ssa (pre ++ post) e ->
  eval pre e = Some em -> eval post em = Some ef -> forall x a, em x = Some a -> ef x = Some a.
Proof.
  intros [Hnd Hfresh] Hpre Hpost x a Hx.
  apply (eval_mono post em ef x a Hpost Hx).
  intro Hin.
  (* x defined in post: then it is not defined in pre and not in e, so em x = None *)
  unfold defs in *. rewrite flat_map_app in Hnd, Hfresh.
  assert (Hnp : ~ In x (flat_map n_outs pre)).
  { intro Hp. clear - Hnd Hp Hin. induction (flat_map n_outs pre) as [|y l IH]; simpl in *; [contradiction|].
    inversion Hnd as [|? ? Hni Hnd']; subst. destruct Hp as [->|Hp]; [apply Hni; apply in_or_app; now right | now apply IH]. }
  assert (Hex : e x = None) by (apply Hfresh; apply in_or_app; now right).
  rewrite (eval_undefined pre e em x Hpre Hex Hnp) in Hx. discriminate.
Qed.

(* ---- in the final environment of an SSA evaluation every node's outputs are [sem] of the values
        its uses have IN THAT SAME environment (values never change once defined) *)
Lemma lookups_mono e e' xs vs : (forall x a, e x = Some a -> e' x = Some a) ->
  lookups e xs = Some vs -> lookups e' xs = Some vs.
Proof.
  intro H. revert vs. induction xs as [|x r IH]; simpl; intros vs Hl; auto.
  destruct (e x) as [a|] eqn:Ex; [|discriminate]. destruct (lookups e r) as [ws|] eqn:Er; [|discriminate].
  rewrite (H _ _ Ex), (IH _ eq_refl). exact Hl.
Qed.

Lemma lookups_upds e xs o : NoDup xs -> length o = length xs -> lookups (upds e xs o) xs = Some o.
Proof.
  revert e o. induction xs as [|x xr IH]; intros e [|v vr] Hnd Hl; simpl in *; try discriminate; auto.
  inversion Hnd as [|? ? Hni Hnd']; subst.
  rewrite upds_other by exact Hni. unfold upd at 1. rewrite Nat.eqb_refl.
  rewrite IH; auto.
Qed.

Lemma NoDup_app_l {A} (l1 l2 : list A) : NoDup (l1 ++ l2) -> NoDup l1.
Proof. induction l1 as [|a l IH]; simpl; intro H; [constructor|]. inversion H as [|? ? Hni Hnd]; subst.
  constructor; [intro; apply Hni; apply in_or_app; now left | auto]. Qed.
Lemma NoDup_app_r {A} (l1 l2 : list A) : NoDup (l1 ++ l2) -> NoDup l2.
Proof. induction l1 as [|a l IH]; simpl; intro H; auto. inversion H as [|? ? Hni Hnd]; subst. auto. Qed.
Lemma NoDup_app_disj {A} (l1 l2 : list A) x : NoDup (l1 ++ l2) -> In x l1 -> In x l2 -> False.
Proof. induction l1 as [|a l IH]; simpl; intros H H1 H2; [contradiction|]. inversion H as [|? ? Hni Hnd]; subst.
  destruct H1 as [->|H1]; [apply Hni; apply in_or_app; now right | eauto]. Qed.

Lemma ssa_step n r e e1 : ssa (n :: r) e -> step e n = Some e1 -> ssa r e1.
Proof.
  intros [Hnd Hf] Hs. unfold defs in *. simpl in *. split; [eapply NoDup_app_r; eauto|].
  intros x Hx. eapply step_undefined; eauto.
  - apply Hf. apply in_or_app. now right.
  - intro Hin. eapply NoDup_app_disj; eauto.
Qed.

Theorem eval_consistent : forall ns e ef n, ssa ns e -> eval ns e = Some ef -> In n ns ->
  exists vs o, lookups ef (n_uses n) = Some vs /\ sem (n_op n) (n_attrs n) vs = Some o /\
               lookups ef (n_outs n) = Some o.
Proof.
  induction ns as [|m r IH]; simpl; intros e ef n Hssa Hev Hin; [contradiction|].
  destruct (step e m) as [e1|] eqn:Es; [|discriminate].
  pose proof (ssa_step m r e e1 Hssa Es) as Hssa1.
  destruct Hin as [<-|Hin]; [|eapply IH; eauto].
  pose proof Es as Es'. unfold step in Es'.
  destruct (lookups e (n_uses m)) as [vs|] eqn:El; [|discriminate].
  destruct (sem (n_op m) (n_attrs m) vs) as [o|] eqn:Eo; [|discriminate].
  destruct (Nat.eqb (length o) (length (n_outs m))) eqn:Elen; [|discriminate].
  injection Es' as <-. apply Nat.eqb_eq in Elen.
  destruct Hssa as [Hnd Hf]. unfold defs in Hnd, Hf. simpl in Hnd, Hf.
  assert (Hmono : forall x a, upds e (n_outs m) o x = Some a -> ef x = Some a).
  { intros x a Hx. eapply eval_mono; eauto. intro Hd.
    destruct (in_dec Nat.eq_dec x (n_outs m)) as [Ho|Ho].
    - eapply NoDup_app_disj; eauto.
    - rewrite upds_other in Hx by exact Ho.
      rewrite Hf in Hx by (apply in_or_app; now right). discriminate. }
  exists vs, o. repeat split; auto.
  - apply (lookups_mono e ef); auto. intros x a Hx. apply Hmono.
    rewrite upds_other; auto. intro Ho. rewrite Hf in Hx by (apply in_or_app; now left). discriminate.
  - apply (lookups_mono (upds e (n_outs m) o) ef); auto.
    apply lookups_upds; auto. eapply NoDup_app_l; eauto.
Qed.

(* From a condition on the FINAL environment plus "new is available whenever old is" to the
   prefix invariant required by the substitution lemma. *)
Definition avail_before (ns : list node) (e : env) (new old : name) : Prop :=
  forall pre post em a, ns = pre ++ post -> eval pre e = Some em -> em old = Some a -> em new <> None.

Lemma prefix_inv_from_final old new ns e ef :
  ssa ns e -> eval ns e = Some ef -> inv old new ef -> avail_before ns e new old ->
  forall pre post em, ns = pre ++ post -> eval pre e = Some em -> inv old new em.
Proof.
  intros Hssa Hev Hfin Hav pre post em -> Hpre a Ha.
  rewrite eval_app, Hpre in Hev.
  pose proof (prefix_le_final pre post e em ef Hssa Hpre Hev) as Hle.
  destruct (Hfin a (Hle _ _ Ha)) as (b & Eb & Hab).
  destruct (em new) as [b'|] eqn:En.
  - rewrite (Hle _ _ En) in Eb. injection Eb as <-. eauto.
  - exfalso. eapply Hav; eauto.
Qed.

(* ---- removing a node none of whose outputs is observed later *)
Definition observed_after (post : list node) (outs : list name) (x : name) : bool :=
  existsb (fun n => existsb (Nat.eqb x) (n_uses n)) post || existsb (Nat.eqb x) outs.

Definition agree_except (dead : list name) (e e' : env) : Prop :=
  forall x, ~ In x dead -> e x = e' x.

Lemma lookups_agree dead e e' xs : agree_except dead e e' -> (forall x, In x xs -> ~ In x dead) ->
  lookups e xs = lookups e' xs.
Proof.
  intros Ha. induction xs as [|x r IH]; simpl; intro H; auto.
  rewrite (Ha x) by (apply H; now left). rewrite IH by (intros; apply H; now right). reflexivity.
Qed.

Lemma upds_agree dead e e' xs vs : agree_except dead e e' -> agree_except dead (upds e xs vs) (upds e' xs vs).
Proof.
  revert e e' vs. induction xs as [|x xr IH]; intros e e' [|v vr] H; simpl; auto.
  apply IH. intros y Hy. unfold upd. destruct (Nat.eqb y x); auto.
Qed.

Lemma eval_agree dead : forall ns e e' ef, agree_except dead e e' ->
  (forall n x, In n ns -> In x (n_uses n) -> ~ In x dead) ->
  eval ns e = Some ef -> exists ef', eval ns e' = Some ef' /\ agree_except dead ef ef'.
Proof.
  induction ns as [|n r IH]; simpl; intros e e' ef Ha Hu Hev.
  - injection Hev as <-. eauto.
  - unfold step in *.
    rewrite <- (lookups_agree dead e e' (n_uses n) Ha) by (intros x Hx; apply (Hu n x); auto; now left).
    destruct (lookups e (n_uses n)) as [vs|]; [|discriminate].
    destruct (sem (n_op n) (n_attrs n) vs) as [o|]; [|discriminate].
    destruct (Nat.eqb (length o) (length (n_outs n))); [|discriminate].
    apply (IH (upds e (n_outs n) o)); auto.
    + now apply upds_agree.
    + intros m x Hm. apply Hu. now right.
Qed.

Theorem remove_node_sound pre n post outs e :
  (forall m x, In m post -> In x (n_uses m) -> ~ In x (n_outs n)) ->
  (forall x, In x outs -> ~ In x (n_outs n)) ->
  refines (mkGraph (pre ++ n :: post) outs) (mkGraph (pre ++ post) outs) e.
Proof.
  intros Hpost Houts o Hrun. unfold run in *. simpl in *.
  rewrite eval_app in *. destruct (eval pre e) as [em|]; [|discriminate]. simpl in Hrun.
  destruct (step em n) as [e1|] eqn:Es; [|discriminate].
  destruct (eval post e1) as [ef|] eqn:Ep; [|discriminate].
  assert (Ha : agree_except (n_outs n) e1 em).
  { intros x Hx. unfold step in Es. destruct (lookups em (n_uses n)); [|discriminate].
    destruct (sem _ _ _); [|discriminate]. destruct (Nat.eqb _ _); [|discriminate].
    injection Es as <-. now apply upds_other. }
  destruct (eval_agree (n_outs n) post e1 em ef Ha Hpost Ep) as (ef' & Ep' & Ha'). rewrite Ep'.
  rewrite <- (lookups_agree (n_outs n) ef ef' outs Ha' Houts). rewrite Hrun. exists o. split; auto.
  clear - veq_refl. induction o; constructor; auto.
Qed.

Lemma refines_trans g1 g2 g3 e : refines g1 g2 e -> refines g2 g3 e -> refines g1 g3 e.
Proof.
  intros H12 H23 o Ho. destruct (H12 _ Ho) as (o2 & Ho2 & H2). destruct (H23 _ Ho2) as (o3 & Ho3 & H3).
  exists o3. split; auto. clear - veq_trans H2 H3. revert o3 H3.
  induction H2; intros o3 H3; inversion H3; subst; constructor; eauto.
Qed.

End Sem.

(* ---------------------------------------------------------------- availability and invariants along evaluation *)
Section Avail.
Variable V : Type.
Variable sem : string -> list nat -> list V -> option (list V).
Notation eval := (eval V sem).
Notation step := (step V sem).

Lemma lookups_defined (e : env V) xs vs x : lookups V e xs = Some vs -> In x xs -> e x <> None.
Proof.
  revert vs. induction xs as [|y r IH]; simpl; intros vs H Hin; [contradiction|].
  destruct (e y) eqn:Ey; [|discriminate]. destruct (lookups V e r) eqn:El; [|discriminate].
  destruct Hin as [->|Hin]; [congruence | eapply IH; eauto].
Qed.

(* if [o] is produced (only) by a node that reads [x], then whenever [o] is defined so is [x] *)
Lemma avail_from_producer ns e n x o :
  ssa V ns e -> In n ns -> In x (n_uses n) -> In o (n_outs n) -> avail_before V sem ns e x o.
Proof.
  intros Hssa Hn Hx Ho pre post em a Hsplit Hpre Hoa.
  (* the producer is in the evaluated prefix, else o would still be undefined *)
  assert (Hin : In n pre).
  { subst ns. apply in_app_or in Hn as [H|H]; auto. exfalso.
    destruct Hssa as [Hnd Hf]. unfold defs in *. rewrite flat_map_app in Hnd, Hf.
    assert (Hop : In o (flat_map n_outs post)) by (apply in_flat_map; eauto).
    assert (He : e o = None) by (apply Hf; apply in_or_app; now right).
    assert (Hnp : ~ In o (flat_map n_outs pre)) by (intro Hp; eapply NoDup_app_disj; eauto).
    rewrite (eval_undefined V sem pre e em o Hpre He Hnp) in Hoa. discriminate. }
  assert (Hssa' : ssa V pre e).
  { subst ns. destruct Hssa as [Hnd Hf]. unfold defs in *. rewrite flat_map_app in Hnd, Hf. split.
    - eapply NoDup_app_l; eauto.
    - intros y Hy. apply Hf. apply in_or_app. now left. }
  destruct (eval_consistent V sem pre e em n Hssa' Hpre Hin) as (vs & oo & Hl & _ & _).
  eapply lookups_defined; eauto.
Qed.

(* a predicate preserved by every operator holds of every value in every environment reached *)
Lemma eval_pred (P : V -> Prop) :
  (forall op ats vs o, Forall P vs -> sem op ats vs = Some o -> Forall P o) ->
  forall ns e ef, (forall x a, e x = Some a -> P a) -> eval ns e = Some ef -> forall x a, ef x = Some a -> P a.
Proof.
  intros Hsem. induction ns as [|n r IH]; simpl; intros e ef He Hev x a Hx.
  - injection Hev as <-. eauto.
  - destruct (step e n) as [e1|] eqn:Es; [|discriminate].
    apply (IH e1 ef) with (x := x); auto. clear IH Hev Hx x a.
    unfold Graph.step in Es. destruct (lookups V e (n_uses n)) as [vs|] eqn:El; [|discriminate].
    destruct (sem (n_op n) (n_attrs n) vs) as [o|] eqn:Eo; [|discriminate].
    destruct (Nat.eqb _ _); [|discriminate]. injection Es as <-.
    assert (Hvs : Forall P vs).
    { clear Eo. revert vs El. induction (n_uses n) as [|y ys IHy]; simpl; intros vs El.
      - injection El as <-. constructor.
      - destruct (e y) eqn:Ey; [|discriminate]. destruct (lookups V e ys) eqn:El2; [|discriminate].
        injection El as <-. constructor; eauto. }
    pose proof (Hsem _ _ _ _ Hvs Eo) as Ho. clear Eo El Hvs.
    revert e He o Ho. induction (n_outs n) as [|y ys IHy]; intros e He [|v o] Ho x a Hx; simpl in Hx; eauto.
    inversion Ho; subst. eapply (IHy (upd V e y v)); eauto.
    intros z b. unfold upd. destruct (Nat.eqb z y); [intro E; injection E as <-; auto | apply He].
Qed.
End Avail.
