(* TransposeRegion (C02): soundness of the REGION rewrites of remove_redundant_transpose_pairs_ir — phase A (Add chains) and
   phase B (elementwise forests): an elementwise region between input Transposes (perm p) and consumer Transposes (perm p^-1)
   is moved to the other layout (TransposePairPass.apply_region).  Simulation (ChainSim.sim_refines) with the invariant
     old value of a region output  ==  Transpose p (its new value)      (or both are the same one-element tensor)
     old value of a removed input Transpose's output == Transpose p (new value of its source)
     every other name: equivalent values
   The semantic core is ElemBroadcast.pwg_transpose (pointwise operators under general numpy broadcasting commute with
   Transpose), applied node by node in graph order. *)
From Coq Require Import ZArith String List Bool Arith Lia.
From J2O Require Import PyLib Tensor Graph Redirect Preserve Reshape ElemCommute ChainSim ReshapePairPass ChainFacts C02Opt ElemSem ElemBroadcast TransposePairPass.
From J2OGen Require Import GenCast GenOpt.
Import ListNotations.

Definition outs_of (l : list node) : list name := map out_of l.

Lemma memn_In n l : memn n l = true <-> In n l.
Proof.
  unfold memn. rewrite existsb_exists. split.
  - intros (m & Hm & E). apply node_eqb_eq in E. now subst.
  - intro H. exists n. split; auto. unfold node_eqb, leqb.
    assert (Hl : forall l0, list_eqb Nat.eqb l0 l0 = true) by (induction l0 as [|x l0 IH]; simpl; [reflexivity | now rewrite Nat.eqb_refl]).
    now rewrite String.eqb_refl, !Hl.
Qed.
Lemma memn_false n l : ~ In n l -> memn n l = false.
Proof. intro H. destruct (memn n l) eqn:E; auto. apply memn_In in E. contradiction. Qed.
Lemma mem_In x l : mem x l = true <-> In x l.
Proof.
  unfold mem. rewrite existsb_exists. split.
  - intros (y & Hy & E). apply Nat.eqb_eq in E. now subst.
  - intro H. exists x. split; auto. apply Nat.eqb_refl.
Qed.
Lemma mem_false x l : ~ In x l -> mem x l = false.
Proof. intro H. destruct (mem x l) eqn:E; auto. apply mem_In in E. contradiction. Qed.

Lemma elem_not_T n : is_elem n = true -> is_T n = false.
Proof.
  unfold is_elem, is_T. intro H. destruct (String.eqb_spec (nop n) "Transpose") as [E|]; auto.
  rewrite E in H. vm_compute in H. discriminate.
Qed.

(* ---- the renamings *)
Lemma lookup_ren_notin m x : (forall pr, In pr m -> fst pr <> x) -> lookup_ren m x = x.
Proof.
  intro H. unfold lookup_ren. destruct (find (fun pr => Nat.eqb (fst pr) x) m) as [pr|] eqn:E; auto.
  apply find_some in E as [Hin Hk]. apply Nat.eqb_eq in Hk. exfalso. exact (H pr Hin Hk).
Qed.
Lemma pairs_of_in l o i : In (o, i) (pairs_of l) <-> exists t, In t l /\ out1 t = Some o /\ first_in t = Some i.
Proof.
  unfold pairs_of. rewrite in_flat_map. split.
  - intros (t & Ht & Hp). exists t. destruct (out1 t) as [o'|]; [|contradiction]. destruct (first_in t) as [i'|]; [|contradiction].
    destruct Hp as [E|[]]. injection E as -> ->. auto.
  - intros (t & Ht & Ho & Hi). exists t. split; auto. rewrite Ho, Hi. now left.
Qed.
Lemma lookup_pairs l o i : (exists t, In t l /\ out1 t = Some o /\ first_in t = Some i) ->
  (forall t', In t' l -> out1 t' = Some o -> first_in t' = Some i) -> lookup_ren (pairs_of l) o = i.
Proof.
  intros Hex Huniq. unfold lookup_ren. destruct (find (fun pr => Nat.eqb (fst pr) o) (pairs_of l)) as [[o' i']|] eqn:E.
  - apply find_some in E as [Hin Hk]. simpl in Hk. apply Nat.eqb_eq in Hk. subst o'.
    apply pairs_of_in in Hin as (t' & Ht' & Ho' & Hi'). rewrite (Huniq t' Ht' Ho') in Hi'. simpl. congruence.
  - exfalso. destruct Hex as (t & Ht & Ho & Hi). assert (Hin : In (o, i) (pairs_of l)) by (apply pairs_of_in; eauto).
    pose proof (find_none _ _ E _ Hin) as H. simpl in H. now rewrite Nat.eqb_refl in H.
Qed.

Record region_facts (g : tgraph) (r : region) (p q : list nat) : Prop := {
  rf_inv : inv_ok p q = true;
  rf_es : forall n, In n (r_es r) -> In n (tg_nodes g) /\ n_outs n = [out_of n] /\ n_caps n = [] /\ is_elem n = true;
  rf_class : forall n u, In n (r_es r) -> In u (n_ins n) ->
      In u (outs_of (r_es r)) \/ (exists t, In t (r_ts r) /\ out_of t = u) \/ tg_scalar g u = true;
  rf_ts : forall t, In t (r_ts r) -> In t (tg_nodes g) /\ is_T t = true /\ perm_of t = Some p /\ n_outs t = [out_of t] /\
      exists x, n_ins t = [x] /\ n_caps t = [] /\ ~ In x (outs_of (r_es r)) /\ ~ In x (outs_of (r_dead r));
  rf_outs : forall t, In t (r_outs r) -> In t (tg_nodes g) /\ is_T t = true /\ perm_of t = Some q /\ n_outs t = [out_of t] /\
      exists i, n_ins t = [i] /\ n_caps t = [] /\ In i (outs_of (r_es r));
  rf_ts_outs : forall t, In t (r_ts r) -> ~ In t (r_outs r);
  rf_dead : forall t, In t (r_dead r) -> In t (r_ts r) /\ ~ In (out_of t) (tg_outputs g) /\
      forall m, In m (tg_nodes g) -> region_keep r m = true -> memn m (r_es r) = false -> ~ In (out_of t) (n_uses m);
  rf_unobs : forall y, In y (outs_of (r_es r)) -> ~ In y (tg_outputs g) /\ forall m, In m (tg_nodes g) -> ~ In y (n_caps m);
  rf_cons : forall y m, In y (outs_of (r_es r)) -> In m (tg_nodes g) -> In y (n_ins m) -> In m (r_es r) \/ In m (r_outs r) }.

Section RegionNames.
  Variables (g : tgraph) (r : region) (p q : list nat).
  Hypothesis Hnd : NoDup (defs (tg_nodes g)).
  Hypothesis Hrf : region_facts g r p q.

  Lemma out_in_outs n : n_outs n = [out_of n] -> In (out_of n) (n_outs n).
  Proof. intros ->. now left. Qed.

  Lemma owner_unique n m y : In n (tg_nodes g) -> In m (tg_nodes g) -> n_outs n = [y] -> In y (n_outs m) -> n = m.
  Proof. intros Hn Hm Ho Hy. apply (defs_unique (tg_nodes g) n m y Hnd Hn Hm); auto. rewrite Ho. now left. Qed.

  Lemma D_owner y : In y (outs_of (r_es r)) -> exists n, In n (r_es r) /\ out_of n = y /\ In n (tg_nodes g) /\ n_outs n = [y].
  Proof.
    intro H. unfold outs_of in H. apply in_map_iff in H as (n & <- & Hn). destruct (rf_es _ _ _ _ Hrf n Hn) as (H1 & H2 & _).
    exists n. auto.
  Qed.
  Lemma T_owner t : In t (r_ts r) -> In t (tg_nodes g) /\ n_outs t = [out_of t] /\ is_T t = true.
  Proof. intro H. destruct (rf_ts _ _ _ _ Hrf t H) as (H1 & H2 & _ & H4 & _). auto. Qed.
  Lemma O_owner t : In t (r_outs r) -> In t (tg_nodes g) /\ n_outs t = [out_of t] /\ is_T t = true.
  Proof. intro H. destruct (rf_outs _ _ _ _ Hrf t H) as (H1 & H2 & _ & H4 & _). auto. Qed.

  (* whose output is it: region member, input transpose, consumer transpose are different nodes *)
  Lemma D_not_Tout y t : In y (outs_of (r_es r)) -> In t (r_ts r) -> out_of t <> y.
  Proof.
    intros Hy Ht E. destruct (D_owner y Hy) as (n & Hn & _ & Hnin & Ho). destruct (T_owner t Ht) as (Htin & Hto & HT).
    assert (n = t) by (apply (owner_unique n t y); auto; rewrite Hto, E; now left). subst n.
    destruct (rf_es _ _ _ _ Hrf t Hn) as (_ & _ & _ & He). rewrite (elem_not_T _ He) in HT. discriminate.
  Qed.
  Lemma D_not_Oout y t : In y (outs_of (r_es r)) -> In t (r_outs r) -> out_of t <> y.
  Proof.
    intros Hy Ht E. destruct (D_owner y Hy) as (n & Hn & _ & Hnin & Ho). destruct (O_owner t Ht) as (Htin & Hto & HT).
    assert (n = t) by (apply (owner_unique n t y); auto; rewrite Hto, E; now left). subst n.
    destruct (rf_es _ _ _ _ Hrf t Hn) as (_ & _ & _ & He). rewrite (elem_not_T _ He) in HT. discriminate.
  Qed.
  Lemma Tout_not_Oout t t' : In t (r_ts r) -> In t' (r_outs r) -> out_of t' <> out_of t.
  Proof.
    intros Ht Ht' E. destruct (T_owner t Ht) as (H1 & H2 & _). destruct (O_owner t' Ht') as (H1' & H2' & _).
    assert (t = t') by (apply (owner_unique t t' (out_of t)); auto; rewrite H2', E; now left). subst t'.
    exact (rf_ts_outs _ _ _ _ Hrf t Ht Ht').
  Qed.

  Lemma ren_out_other x : (forall t, In t (r_outs r) -> out_of t <> x) -> ren_out r x = x.
  Proof.
    intro H. apply lookup_ren_notin. intros [o i] Hin E. simpl in E. subst o.
    apply pairs_of_in in Hin as (t & Ht & Ho & _). destruct (O_owner t Ht) as (_ & Hto & _).
    unfold out1 in Ho. rewrite Hto in Ho. simpl in Ho. injection Ho as Ho. exact (H t Ht Ho).
  Qed.
  Lemma ren_out_O t i : In t (r_outs r) -> n_ins t = [i] -> ren_out r (out_of t) = i.
  Proof.
    intros Ht Hi. destruct (O_owner t Ht) as (Htin & Hto & _).
    assert (Ho1 : out1 t = Some (out_of t)) by (unfold out1; now rewrite Hto).
    assert (Hf1 : first_in t = Some i) by (unfold first_in; now rewrite Hi).
    apply lookup_pairs; [eauto|]. intros t' Ht' Ho'. destruct (O_owner t' Ht') as (Htin' & Hto' & _).
    assert (t = t'); [|now subst].
    apply (owner_unique t t' (out_of t)); auto. unfold out1 in Ho'. rewrite Hto' in *. simpl in Ho'. injection Ho' as ->. now left.
  Qed.
  Lemma ren_ts_T t x : In t (r_ts r) -> n_ins t = [x] -> lookup_ren (pairs_of (r_ts r)) (out_of t) = x.
  Proof.
    intros Ht Hi. destruct (T_owner t Ht) as (Htin & Hto & _).
    assert (Ho1 : out1 t = Some (out_of t)) by (unfold out1; now rewrite Hto).
    assert (Hf1 : first_in t = Some x) by (unfold first_in; now rewrite Hi).
    apply lookup_pairs; [eauto|]. intros t' Ht' Ho'. destruct (T_owner t' Ht') as (Htin' & Hto' & _).
    assert (t = t'); [|now subst].
    apply (owner_unique t t' (out_of t)); auto. unfold out1 in Ho'. rewrite Hto' in *. simpl in Ho'. injection Ho' as ->. now left.
  Qed.
  Lemma ren_ts_other x : (forall t, In t (r_ts r) -> out_of t <> x) -> lookup_ren (pairs_of (r_ts r)) x = x.
  Proof.
    intro H. apply lookup_ren_notin. intros [o i] Hin E. simpl in E. subst o.
    apply pairs_of_in in Hin as (t & Ht & Ho & _). destruct (T_owner t Ht) as (_ & Hto & _).
    unfold out1 in Ho. rewrite Hto in Ho. simpl in Ho. injection Ho as Ho. exact (H t Ht Ho).
  Qed.

  Lemma dead_in_ts t : In t (r_dead r) -> In t (r_ts r).
  Proof. intro H. now destruct (rf_dead _ _ _ _ Hrf t H). Qed.
End RegionNames.

Section RegionSound.
  Variable A : Type.
  Notation V := (tensor A).
  Variable sem : string -> list nat -> list V -> option (list V).
  Hypothesis sem_proper : forall op ats vs vs' o, Forall2 teq vs vs' -> sem op ats vs = Some o ->
    exists o', sem op ats vs' = Some o' /\ Forall2 teq o o'.
  Hypothesis Htr : sem_transpose_spec A sem op_type.
  Variable F : string -> list nat -> list A -> A.
  Hypothesis Hpw : sem_pointwise_spec_g A sem op_type F.
  Variable Fcl : list nat -> V -> A -> A.
  Hypothesis Hcl : sem_castlike_spec_n A sem op_type Fcl.
  Hypothesis Hcl_type : castlike_type_only A Fcl.
  Hypothesis Hacc : sem_accepts_spec_g A sem op_type.

  Notation evalg := (eval V sem).
  Notation stepg := (step V sem).
  Notation refinesg := (refines V teq sem).
  Notation tadmissible := (tadmissible A sem).

  Variables (g : tgraph) (r : region) (p q : list nat) (e ef : env V).
  Hypothesis Hadm : tadmissible g e.
  Hypothesis Hrf : region_facts g r p q.
  Hypothesis Hev : evalg (tg_nodes g) e = Some ef.
  (* in the original run no operand of a pointwise region member has more than |p| dimensions *)
  Hypothesis Hrank : forall n u v, In n (r_es r) -> str_in (nop n) pw_ops_all = true -> In u (n_ins n) -> ef u = Some v ->
    length (shape v) <= length p.

  Let Hssa : ssa V (tg_nodes g) e := tadm_ssa _ _ _ _ Hadm.
  Let Hnd : NoDup (defs (tg_nodes g)) := proj1 Hssa.
  Let Hinv : is_inverse p q := proj1 (inv_ok_perms p q (rf_inv _ _ _ _ Hrf)).
  Let Hp : is_perm p := proj1 (proj2 (inv_ok_perms p q (rf_inv _ _ _ _ Hrf))).
  Let Hq : is_perm q := proj2 (proj2 (inv_ok_perms p q (rf_inv _ _ _ _ Hrf))).
  Let D := outs_of (r_es r).
  Let Dead := outs_of (r_dead r).

  Definition rhoR (x : name) : name := if mem x Dead then ren_in r x else ren_out r x.
  Definition relR (x : name) (v w : V) : Prop :=
    if mem x D then trel p v w else if mem x Dead then tfull p v w else teq v w.
  Notation Inv := (rinv V rhoR relR).

  Lemma relR_teq x v w : ~ In x D -> ~ In x Dead -> relR x v w -> teq v w.
  Proof. unfold relR. intros H1 H2. now rewrite (mem_false _ _ H1), (mem_false _ _ H2). Qed.
  Lemma relR_of_teq x v w : ~ In x D -> ~ In x Dead -> teq v w -> relR x v w.
  Proof. unfold relR. intros H1 H2. now rewrite (mem_false _ _ H1), (mem_false _ _ H2). Qed.
  Lemma relR_D x v w : In x D -> relR x v w -> trel p v w.
  Proof. unfold relR. intro H. apply mem_In in H. now rewrite H. Qed.
  Lemma relR_same x v w : relR x v w -> same_elems v w.
  Proof.
    unfold relR. destruct (mem x D); [apply (trel_same_elems p); auto|].
    destruct (mem x Dead); [intro H; apply (trel_same_elems p); auto; now left | apply teq_same_elems].
  Qed.
  Lemma rhoR_plain x : ~ In x Dead -> rhoR x = ren_out r x.
  Proof. unfold rhoR. intro H. now rewrite (mem_false _ _ H). Qed.

  Lemma Dead_owner y : In y Dead -> exists t, In t (r_dead r) /\ In t (r_ts r) /\ out_of t = y.
  Proof.
    unfold Dead, outs_of. intro H. apply in_map_iff in H as (t & <- & Ht). exists t. repeat split; auto.
    now apply (dead_in_ts g r p q Hrf).
  Qed.
  Lemma D_not_Dead y : In y D -> ~ In y Dead.
  Proof. intros Hy Hd. destruct (Dead_owner y Hd) as (t & _ & Ht & E). exact (D_not_Tout g r p q Hnd Hrf y t Hy Ht E). Qed.

  (* names defined by nodes of the graph *)
  Lemma owner_defs n y : In n (tg_nodes g) -> In y (n_outs n) -> In y (defs (tg_nodes g)).
  Proof. intros Hn Hy. unfold defs. apply in_flat_map. eauto. Qed.

  Lemma inputs_plain x v : e x = Some v -> ~ In x D /\ ~ In x Dead /\ rhoR x = x.
  Proof.
    intro Hx. assert (Hnd' : ~ In x (defs (tg_nodes g))) by (intro Hd; rewrite (proj2 Hssa _ Hd) in Hx; discriminate).
    assert (H1 : ~ In x D).
    { intro Hd. destruct (D_owner g r p q Hrf x Hd) as (n & _ & _ & Hn & Ho). apply Hnd'. apply (owner_defs n); auto. rewrite Ho. now left. }
    assert (H2 : ~ In x Dead).
    { intro Hd. destruct (Dead_owner x Hd) as (t & _ & Ht & <-). destruct (T_owner g r p q Hrf t Ht) as (Hn & Ho & _).
      apply Hnd'. apply (owner_defs t); auto. rewrite Ho. now left. }
    repeat split; auto. rewrite (rhoR_plain _ H2). apply (ren_out_other g r p q Hrf).
    intros t Ht E. destruct (O_owner g r p q Hrf t Ht) as (Hn & Ho & _). apply Hnd'. apply (owner_defs t); auto. rewrite Ho, E. now left.
  Qed.

  Lemma rinv_init : Inv e e.
  Proof.
    split; [|auto]. intros x v Hx. destruct (inputs_plain x v Hx) as (H1 & H2 & ->).
    exists v. split; auto. apply relR_of_teq; auto. apply teq_refl.
  Qed.

  (* the value read through an input Transpose, in any prefix environment of the original run *)
  Lemma ts_source pre post em em' t x vu : tg_nodes g = pre ++ post -> evalg pre e = Some em ->
    (forall y a, em y = Some a -> ef y = Some a) -> Inv em em' ->
    In t (r_ts r) -> n_ins t = [x] -> em (out_of t) = Some vu ->
    exists wx, em' (ren_out r x) = Some wx /\ tfull p vu wx.
  Proof.
    intros Hsplit Hpre Hle Hi Ht Hix Hu.
    destruct (rf_ts _ _ _ _ Hrf t Ht) as (Htin & HT & Hperm & Hto & x' & Hix' & Hcaps & HxD & HxDead).
    rewrite Hix in Hix'. injection Hix' as <-.
    destruct (tnode_final A sem Htr g e ef t p Hadm Hev Htin HT Hperm) as (u & y & vx & vy & Eu & Eo & Ex & Ey & Hteq & Hlen).
    unfold n_uses in Eu. rewrite Hix, Hcaps in Eu. simpl in Eu. injection Eu as <-.
    rewrite Hto in Eo. injection Eo as <-. rewrite (Hle _ _ Hu) in Ey. injection Ey as <-.
    assert (Hxdef : em x <> None).
    { apply (avail_from_producer V sem (tg_nodes g) e t x (out_of t) Hssa Htin) with (pre := pre) (post := post) (a := vu); auto.
      - unfold n_uses. rewrite Hix. now left.
      - rewrite Hto. now left. }
    destruct (em x) as [vx0|] eqn:Exm; [|congruence]. rewrite (Hle _ _ Exm) in Ex. injection Ex as ->.
    destruct Hi as [Hi1 _]. destruct (Hi1 _ _ Exm) as (wx & Ew & Hr). rewrite (rhoR_plain _ HxDead) in Ew.
    pose proof (relR_teq _ _ _ HxD HxDead Hr) as Hxw.
    exists wx. split; auto. split.
    - eapply teq_trans; [exact Hteq|]. apply transpose_teq; auto.
    - rewrite <- (proj1 Hxw). now symmetry.
  Qed.

  Lemma source_val em em' x vx : Inv em em' -> em x = Some vx -> ~ In x D -> ~ In x Dead ->
    exists wx, em' (ren_out r x) = Some wx /\ teq vx wx.
  Proof.
    intros [Hi1 _] Ex HxD HxDead. destruct (Hi1 _ _ Ex) as (wx & Ew & Hr). rewrite (rhoR_plain _ HxDead) in Ew.
    exists wx. split; auto. exact (relR_teq _ _ _ HxD HxDead Hr).
  Qed.

  (* ---- a consumer Transpose (removed): its output is the new value of the region output it read *)
  Lemma outT_step em em' t e1 : In t (r_outs r) -> em (out_of t) = None -> Inv em em' -> stepg em t = Some e1 -> Inv e1 em'.
  Proof.
    intros Ht Hfresh Hi Hs.
    destruct (rf_outs _ _ _ _ Hrf t Ht) as (Htin & HT & Hperm & Hto & i & Hii & Hcaps & HiD).
    apply (rinv_dropped_step V sem rhoR relR em em' t (out_of t) e1 Hi Hs Hto Hfresh).
    intros vs v Hl Hsem.
    destruct (tnode_val A sem Htr t q vs [v] HT Hperm Hsem) as (x & y & -> & Hy & Hyt & Hlen). injection Hy as <-.
    unfold n_uses in Hl. rewrite Hii, Hcaps in Hl. simpl in Hl. destruct (em i) as [xi|] eqn:Ei; [|discriminate]. injection Hl as ->.
    destruct Hi as [Hi1 _]. destruct (Hi1 _ _ Ei) as (w & Ew & Hr).
    assert (HiDead : ~ In i Dead) by (now apply D_not_Dead).
    rewrite (rhoR_plain _ HiDead) in Ew.
    rewrite (ren_out_other g r p q Hrf i) in Ew by (intros t' Ht'; exact (D_not_Oout g r p q Hnd Hrf i t' HiD Ht')).
    assert (HoD : ~ In (out_of t) D) by (intro Hd; exact (D_not_Oout g r p q Hnd Hrf _ t Hd Ht eq_refl)).
    assert (HoDead : ~ In (out_of t) Dead).
    { intro Hd. destruct (Dead_owner _ Hd) as (t' & _ & Ht' & E). exact (Tout_not_Oout g r p q Hnd Hrf t' t Ht' Ht (eq_sym E)). }
    exists w. rewrite (rhoR_plain _ HoDead), (ren_out_O g r p q Hnd Hrf t i Ht Hii). split; auto.
    apply relR_of_teq; auto. eapply teq_trans; [exact Hyt|].
    destruct (relR_D _ _ _ HiD Hr) as [[Hxw Hlw]|[H1 Hxw]].
    - eapply teq_trans; [apply transpose_teq; [exact Hq | exact Hlen | exact Hxw]|]. apply transpose_inverse; auto.
    - eapply teq_trans; [apply transpose_all1; auto|]. exact Hxw.
  Qed.

  (* ---- an input Transpose left without readers (removed) *)
  Lemma dead_step em em' t e1 : In t (r_dead r) -> em (out_of t) = None -> Inv em em' -> stepg em t = Some e1 -> Inv e1 em'.
  Proof.
    intros Htd Hfresh Hi Hs. pose proof (dead_in_ts g r p q Hrf t Htd) as Ht.
    destruct (rf_ts _ _ _ _ Hrf t Ht) as (Htin & HT & Hperm & Hto & x & Hix & Hcaps & HxD & HxDead).
    apply (rinv_dropped_step V sem rhoR relR em em' t (out_of t) e1 Hi Hs Hto Hfresh).
    intros vs v Hl Hsem.
    destruct (tnode_val A sem Htr t p vs [v] HT Hperm Hsem) as (vx & y & -> & Hy & Hyt & Hlen). injection Hy as <-.
    unfold n_uses in Hl. rewrite Hix, Hcaps in Hl. simpl in Hl. destruct (em x) as [vx0|] eqn:Ex; [|discriminate]. injection Hl as ->.
    destruct (source_val em em' x vx Hi Ex HxD HxDead) as (wx & Ew & Hxw).
    assert (HoDead : In (out_of t) Dead) by (unfold Dead, outs_of; apply in_map_iff; eauto).
    exists wx. unfold rhoR. rewrite (proj2 (mem_In _ _) HoDead). unfold ren_in. rewrite (ren_ts_T g r p q Hnd Hrf t x Ht Hix). split; auto.
    assert (HoD : ~ In (out_of t) D) by (intro Hd; exact (D_not_Tout g r p q Hnd Hrf _ t Hd Ht eq_refl)).
    unfold relR. rewrite (mem_false _ _ HoD), (proj2 (mem_In _ _) HoDead). split.
    - eapply teq_trans; [exact Hyt|]. apply transpose_teq; auto.
    - rewrite <- (proj1 Hxw). now symmetry.
  Qed.

  (* ---- a kept node outside the region *)
  Lemma other_facts m : In m (tg_nodes g) -> region_keep r m = true -> memn m (r_es r) = false ->
    (forall x, In x (n_uses m) -> ~ In x Dead) /\ (forall x, In x (n_uses m) -> ~ In x D) /\
    (forall y, In y (n_outs m) -> ~ In y D /\ ~ In y Dead /\ rhoR y = y) /\ region_tr r m = subst_map rhoR m.
  Proof.
    intros Hm Hk Hnes.
    assert (Hkeep : ~ In m (r_outs r) /\ ~ In m (r_dead r)).
    { unfold region_keep in Hk. apply andb_prop in Hk as [H1 H2]. apply negb_true_iff in H1, H2.
      split; intro H; apply memn_In in H; congruence. }
    destruct Hkeep as [HnO HnDead].
    assert (HusesDead : forall x, In x (n_uses m) -> ~ In x Dead).
    { intros x Hx Hd. destruct (Dead_owner x Hd) as (t & Htd & _ & <-). destruct (rf_dead _ _ _ _ Hrf t Htd) as (_ & _ & H). exact (H m Hm Hk Hnes Hx). }
    split; [exact HusesDead|]. split; [|split].
    - intros x Hx Hd. unfold n_uses in Hx. apply in_app_or in Hx as [Hx|Hx].
      + destruct (rf_cons _ _ _ _ Hrf x m Hd Hm Hx) as [H|H]; [apply memn_In in H; congruence | contradiction].
      + destruct (rf_unobs _ _ _ _ Hrf x Hd) as [_ H]. exact (H m Hm Hx).
    - intros y Hy.
      assert (H1 : ~ In y D).
      { intro Hd. destruct (D_owner g r p q Hrf y Hd) as (n & Hn & _ & Hnin & Ho).
        assert (n = m) by (apply (owner_unique g Hnd n m y); auto). subst n. apply memn_In in Hn. congruence. }
      assert (H2 : ~ In y Dead).
      { intro Hd. destruct (Dead_owner y Hd) as (t & Htd & Ht & <-). destruct (T_owner g r p q Hrf t Ht) as (Htin & Hto & _).
        assert (t = m) by (apply (owner_unique g Hnd t m (out_of t)); auto). subst t. contradiction. }
      repeat split; auto. rewrite (rhoR_plain _ H2). apply (ren_out_other g r p q Hrf). intros t Ht E.
      destruct (O_owner g r p q Hrf t Ht) as (Htin & Hto & _).
      assert (t = m) by (apply (owner_unique g Hnd t m (out_of t)); auto; now rewrite E). subst t. contradiction.
    - unfold region_tr. rewrite Hnes. apply subst_map_ext. intros x Hx. symmetry. apply rhoR_plain. now apply HusesDead.
  Qed.

  Lemma rother_step m em em' e1 : In m (tg_nodes g) -> region_keep r m = true -> memn m (r_es r) = false ->
    (forall y, In y (n_outs m) -> em y = None) -> NoDup (n_outs m) ->
    Inv em em' -> stepg em m = Some e1 -> exists e1', stepg em' (region_tr r m) = Some e1' /\ Inv e1 e1'.
  Proof.
    intros Hm Hk Hnes Hfresh Hndo Hi Hs. destruct (other_facts m Hm Hk Hnes) as (HusesDead & HusesD & Houts & Htr_eq).
    rewrite Htr_eq.
    apply (rinv_kept_step V teq sem rhoR relR em em' m e1 Hi Hs); auto.
    - intros y Hy. now destruct (Houts y Hy) as (_ & _ & H).
    - intros vs vs' o Hl Hl' Hrl Hsem Hlen.
      assert (Hteq : Forall2 teq vs vs').
      { clear - Hrl HusesD HusesDead. induction Hrl as [|x v w xr vr wr Hx _ IH]; constructor.
        - apply (relR_teq x); [apply HusesD | apply HusesDead |]; auto; now left.
        - apply IH; intros x0 H0; first [apply HusesD; now right | apply HusesDead; now right]. }
      destruct (sem_proper _ _ _ _ _ Hteq Hsem) as (o' & Hs' & Ho). exists o'. split; auto.
      clear - Ho Hlen Houts. revert o o' Ho Hlen. induction (n_outs m) as [|y yr IH]; intros o o' Ho Hlen;
        destruct Ho as [|v w vr wr Hvw Ho]; simpl in Hlen; try discriminate; constructor.
      + destruct (Houts y (or_introl eq_refl)) as (H1 & H2 & _). now apply relR_of_teq.
      + apply IH; auto. intros y0 Hy0. apply Houts. now right.
  Qed.

  Lemma routs_related ef' o : Inv ef ef' -> lookups V ef (tg_outputs g) = Some o ->
    exists o', lookups V ef' (map (ren_out r) (tg_outputs g)) = Some o' /\ Forall2 teq o o'.
  Proof.
    intros Hi Hl.
    assert (HoD : forall x, In x (tg_outputs g) -> ~ In x D) by (intros x Hx Hd; destruct (rf_unobs _ _ _ _ Hrf x Hd) as [H _]; contradiction).
    assert (HoDead : forall x, In x (tg_outputs g) -> ~ In x Dead).
    { intros x Hx Hd. destruct (Dead_owner x Hd) as (t & Htd & _ & <-). destruct (rf_dead _ _ _ _ Hrf t Htd) as (_ & H & _). contradiction. }
    destruct (rinv_lookups V rhoR relR _ _ _ _ Hi Hl) as (o' & Hl' & Hr).
    assert (Hmap : map rhoR (tg_outputs g) = map (ren_out r) (tg_outputs g)) by (apply map_ext_in; intros x Hx; apply rhoR_plain; auto).
    rewrite Hmap in Hl'. exists o'. split; auto.
    clear - Hr HoD HoDead. induction Hr as [|x v w xr vr wr Hx _ IH]; constructor.
    - apply (relR_teq x); [apply HoD | apply HoDead |]; auto; now left.
    - apply IH; intros x0 H0; first [apply HoD; now right | apply HoDead; now right].
  Qed.

  (* ---- a member of the region: every operand is related by [trel p]; so is the result *)
  Lemma es_operand pre post em em' n u vu : tg_nodes g = pre ++ post -> evalg pre e = Some em ->
    (forall y a, em y = Some a -> ef y = Some a) -> Inv em em' ->
    In n (r_es r) -> In u (n_ins n) -> em u = Some vu ->
    exists w, em' (ren_in r u) = Some w /\ trel p vu w.
  Proof.
    intros Hsplit Hpre Hle Hi Hn Hu Eu.
    destruct (in_dec Nat.eq_dec u D) as [HuD|HuD].
    - (* an output of the region *)
      assert (HuDead : ~ In u Dead) by (now apply D_not_Dead).
      destruct Hi as [Hi1 _]. destruct (Hi1 _ _ Eu) as (w & Ew & Hr). rewrite (rhoR_plain _ HuDead) in Ew.
      exists w. split; [|exact (relR_D _ _ _ HuD Hr)].
      unfold ren_in. rewrite (ren_ts_other g r p q Hrf u) by (intros t Ht E; exact (D_not_Tout g r p q Hnd Hrf u t HuD Ht E)). exact Ew.
    - destruct (in_dec Nat.eq_dec u (outs_of (r_ts r))) as [HuT|HuT].
      + (* the output of an input Transpose: read its source *)
        unfold outs_of in HuT. apply in_map_iff in HuT as (t & <- & Ht).
        destruct (rf_ts _ _ _ _ Hrf t Ht) as (_ & _ & _ & _ & x & Hix & _).
        destruct (ts_source pre post em em' t x vu Hsplit Hpre Hle Hi Ht Hix Eu) as (wx & Ew & Hfull).
        exists wx. split; [|now left]. unfold ren_in. now rewrite (ren_ts_T g r p q Hnd Hrf t x Ht Hix).
      + (* a one-element constant *)
        assert (Hsc : tg_scalar g u = true).
        { destruct (rf_class _ _ _ _ Hrf n u Hn Hu) as [H|[(t & Ht & E)|H]]; [contradiction | | exact H].
          exfalso. apply HuT. unfold outs_of. apply in_map_iff. eauto. }
        assert (HuDead : ~ In u Dead).
        { intro Hd. destruct (Dead_owner u Hd) as (t & _ & Ht & E). apply HuT. unfold outs_of. apply in_map_iff. eauto. }
        destruct Hi as [Hi1 _]. destruct (Hi1 _ _ Eu) as (w & Ew & Hr). rewrite (rhoR_plain _ HuDead) in Ew.
        exists w. split.
        * unfold ren_in. rewrite (ren_ts_other g r p q Hrf u); auto. intros t Ht E. apply HuT. unfold outs_of. apply in_map_iff. eauto.
        * right. split; [exact (tadm_scalar _ _ _ _ Hadm ef u vu Hev Hsc (Hle _ _ Eu)) | exact (relR_teq _ _ _ HuD HuDead Hr)].
  Qed.

  Lemma es_operands pre post em em' n : tg_nodes g = pre ++ post -> evalg pre e = Some em ->
    (forall y a, em y = Some a -> ef y = Some a) -> Inv em em' -> In n (r_es r) ->
    forall ins vs, (forall u, In u ins -> In u (n_ins n)) -> lookups V em ins = Some vs ->
    exists vs', lookups V em' (map (ren_in r) ins) = Some vs' /\ Forall2 (trel p) vs vs'.
  Proof.
    intros Hsplit Hpre Hle Hi Hn. induction ins as [|u rest IH]; intros vs Hsub Hl.
    - simpl in Hl. injection Hl as <-. exists []. split; auto.
    - destruct (lookups_cons_inv V _ _ _ _ Hl) as (vu & vr & Eu & Er & ->).
      destruct (es_operand pre post em em' n u vu Hsplit Hpre Hle Hi Hn (Hsub u (or_introl eq_refl)) Eu) as (w & Ew & Hr).
      destruct (IH vr (fun u0 H => Hsub u0 (or_intror H)) Er) as (ws & Ews & Hrs).
      exists (w :: ws). split; [|constructor; auto]. simpl. now rewrite Ew, Ews.
  Qed.

  Lemma trel_teq_all1 (vs vs' : list V) : Forall2 (trel p) vs vs' -> Forall (fun v => all1 (shape v) = true) vs -> Forall2 teq vs vs'.
  Proof.
    induction 1 as [|v w l l' H _ IH]; intro Hall; constructor; inversion Hall; subst; auto. now apply (trel_all1_teq p).
  Qed.

  Lemma es_step pre post n em em' e1 : tg_nodes g = pre ++ post -> evalg pre e = Some em ->
    (forall y a, em y = Some a -> ef y = Some a) -> In n (r_es r) ->
    (forall y, In y (n_outs n) -> em y = None) -> NoDup (n_outs n) ->
    Inv em em' -> stepg em n = Some e1 -> exists e1', stepg em' (region_tr r n) = Some e1' /\ Inv e1 e1'.
  Proof.
    intros Hsplit Hpre Hle Hn Hfresh Hndo Hi Hs.
    destruct (rf_es _ _ _ _ Hrf n Hn) as (Hnin & Ho & Hcaps & Helem).
    assert (HyD : In (out_of n) D) by (unfold D, outs_of; apply in_map_iff; eauto).
    assert (Htrn : region_tr r n = mkNode (n_op n) (n_attrs n) (map (ren_in r) (n_ins n)) [] (n_outs n)).
    { unfold region_tr. rewrite (proj2 (memn_In _ _) Hn), Hcaps. reflexivity. }
    rewrite Htrn.
    apply (rinv_kept_step_gen V teq sem rhoR relR em em' n _ e1 Hi Hs); auto.
    { intros y Hy. rewrite Ho in Hy. destruct Hy as [<-|[]]. rewrite (rhoR_plain _ (D_not_Dead _ HyD)).
      apply (ren_out_other g r p q Hrf). intros t Ht. exact (D_not_Oout g r p q Hnd Hrf _ t HyD Ht). }
    intros vs o Hl Hsem Hlen. unfold n_uses in Hl. rewrite Hcaps, app_nil_r in Hl.
    destruct (es_operands pre post em em' n Hsplit Hpre Hle Hi Hn (n_ins n) vs (fun u H => H) Hl) as (vs' & Hl' & Htrel).
    exists vs'. unfold n_uses. cbn [n_ins n_caps]. rewrite app_nil_r.
    assert (Hse : Forall2 same_elems vs vs') by (eapply Forall2_imp; [|exact Htrel]; intros; now apply (trel_same_elems p)).
    assert (Hlef : lookups V ef (n_ins n) = Some vs) by (exact (lookups_mono V em ef _ _ Hle Hl)).
    assert (Hrel_y : forall yv yv', trel p yv yv' -> rel_list V relR (n_outs n) [yv] [yv']).
    { intros yv yv' H. rewrite Ho. constructor; [|constructor]. unfold relR. now rewrite (proj2 (mem_In _ _) HyD). }
    destruct (elem_in_pw_all _ Helem) as [Hop|Hop].
    - (* CastLike *)
      destruct (Hcl _ _ _ _ Hop Hsem) as (x & t & yv & -> & -> & Hyv).
      inversion Htrel as [|? x' ? r1 Hxx' Hr1]; subst. inversion Hr1 as [|? t' ? r2 Htt' Hr2]; subst. inversion Hr2; subst.
      assert (Hacc' : sem (n_op n) (n_attrs n) [x'; t'] <> None).
      { apply (Hacc (n_op n) (n_attrs n) [x; t] [x'; t']); [unfold nop in Hop; rewrite Hop; reflexivity | congruence | exact Hse | now left]. }
      destruct (sem (n_op n) (n_attrs n) [x'; t']) as [o'|] eqn:Es'; [|contradiction].
      destruct (Hcl _ _ _ _ Hop Es') as (x1 & t1 & yv' & E1 & -> & Hyv'). injection E1 as <- <-.
      exists [yv']. split; [exact Hl'|]. split; [reflexivity|]. apply Hrel_y.
      assert (Hff : teq (tmap (Fcl (n_attrs n) t) x') (tmap (Fcl (n_attrs n) t') x')).
      { split; [reflexivity|]. simpl. intros idx _. apply Hcl_type. now apply (trel_same_elems p). }
      destruct Hxx' as [[Hxw Hlw]|[H1 Hxw]].
      + left. split.
        * eapply teq_trans; [exact Hyv|]. eapply teq_trans; [apply tmap_teq; exact Hxw|]. eapply teq_trans; [apply tmap_transpose|].
          apply transpose_teq; auto. eapply teq_trans; [exact Hff | now apply teq_sym].
        * now rewrite (proj1 Hyv').
      + right. split; [now rewrite (proj1 Hyv)|].
        eapply teq_trans; [exact Hyv|]. eapply teq_trans; [apply tmap_teq; exact Hxw|]. eapply teq_trans; [exact Hff | now apply teq_sym].
    - (* pointwise *)
      destruct (Hpw _ _ _ _ Hop Hsem) as (Hok & yv & -> & Hyv).
      destruct (forallb (fun v => all1 (shape v)) vs) eqn:Eall.
      + (* only one-element operands: nothing to move *)
        assert (Hall : Forall (fun v => all1 (shape v) = true) vs) by (apply Forall_forall; intros v Hv; rewrite forallb_forall in Eall; auto).
        pose proof (trel_teq_all1 _ _ Htrel Hall) as Hteq.
        destruct (sem_proper _ _ _ _ _ Hteq Hsem) as (o' & Hs' & Ho'). inversion Ho' as [|? yv' ? r1 Hyy' Hr1]; subst. inversion Hr1; subst.
        exists [yv']. split; [exact Hl'|]. split; [exact Hs'|]. apply Hrel_y. right. split; auto.
        rewrite (proj1 Hyv). now apply pwg_all1_shape.
      + assert (Hex : Exists (fun v => length (shape v) = length p) vs).
        { assert (Hne : exists v, In v vs /\ all1 (shape v) = false).
          { clear - Eall. induction vs as [|v l IH]; simpl in Eall; [discriminate|]. destruct (all1 (shape v)) eqn:E.
            - destruct (IH Eall) as (v0 & H0 & H1). exists v0. split; auto. now right.
            - exists v. split; auto. now left. }
          destruct Hne as (v & Hv & Hnv). apply Exists_exists. exists v. split; auto.
          assert (Hpair : exists w, trel p v w).
          { clear - Htrel Hv. induction Htrel as [|a b l l' H _ IH]; [contradiction|]. destruct Hv as [<-|Hv]; eauto. }
          destruct Hpair as (w & [[Ht Hl0]|[H1 _]]); [|congruence]. rewrite (proj1 Ht). simpl. apply gather_length. }
        assert (Hrk : Forall (fun v => length (shape v) <= length p) vs).
        { apply (lookups_Forall V _ em (n_ins n) vs Hl). intros u w Hu Ew. exact (Hrank n u w Hn Hop Hu (Hle _ _ Ew)). }
        destruct (pwg_transpose (F (op_type (n_op n)) (n_attrs n)) p vs vs' Hp Htrel Hex Hrk Hok) as (Hok' & Hteq & Hlen').
        assert (Hacc' : sem (n_op n) (n_attrs n) vs' <> None).
        { apply (Hacc (n_op n) (n_attrs n) vs vs'); [apply str_in_In; apply in_or_app; left; now apply str_in_In | congruence | exact Hse | now right]. }
        destruct (sem (n_op n) (n_attrs n) vs') as [o'|] eqn:Es'; [|contradiction].
        destruct (Hpw _ _ _ _ Hop Es') as (_ & yv' & -> & Hyv').
        exists [yv']. split; [exact Hl'|]. split; [reflexivity|]. apply Hrel_y. left. split.
        * eapply teq_trans; [exact Hyv|]. eapply teq_trans; [exact Hteq|]. apply transpose_teq; auto. now apply teq_sym.
        * now rewrite (proj1 Hyv').
  Qed.

  (* ---- the region rewrite as a whole, for this run *)
  Lemma es_kept n : In n (r_es r) -> region_keep r n = true.
  Proof.
    intro Hn. destruct (rf_es _ _ _ _ Hrf n Hn) as (_ & _ & _ & He). pose proof (elem_not_T _ He) as HT.
    unfold region_keep. rewrite !memn_false; auto.
    - intro H. apply (dead_in_ts g r p q Hrf) in H. destruct (T_owner g r p q Hrf n H) as (_ & _ & H'). congruence.
    - intro H. destruct (O_owner g r p q Hrf n H) as (_ & _ & H'). congruence.
  Qed.

  Lemma region_step_all pre n post em em' e1 : tg_nodes g = pre ++ n :: post -> evalg pre e = Some em ->
    (forall x a, em x = Some a -> ef x = Some a) -> Inv em em' -> stepg em n = Some e1 ->
    (forall x a, e1 x = Some a -> ef x = Some a) ->
    if region_keep r n then exists e1', stepg em' (region_tr r n) = Some e1' /\ Inv e1 e1' else Inv e1 em'.
  Proof.
    intros Hsplit Hpre Hle Hi Hs Hle1.
    destruct (fresh_at V sem _ _ _ _ _ _ Hssa Hsplit Hpre) as [Hfresh Hndo].
    assert (Hn : In n (tg_nodes g)) by (rewrite Hsplit; apply in_or_app; right; now left).
    destruct (memn n (r_es r)) eqn:Ees.
    - apply memn_In in Ees. rewrite (es_kept n Ees). apply (es_step pre (n :: post) n em em' e1); auto.
    - destruct (region_keep r n) eqn:Hk.
      + apply (rother_step n em em' e1); auto.
      + unfold region_keep in Hk. apply andb_false_iff in Hk as [Hk|Hk]; apply negb_false_iff in Hk; apply memn_In in Hk.
        * destruct (O_owner g r p q Hrf n Hk) as (_ & Ho & _). apply (outT_step em em' n e1); auto. apply Hfresh. rewrite Ho. now left.
        * destruct (T_owner g r p q Hrf n (dead_in_ts g r p q Hrf n Hk)) as (_ & Ho & _). apply (dead_step em em' n e1); auto. apply Hfresh. rewrite Ho. now left.
  Qed.

  Lemma region_run : refinesg (tg_graph g) (tg_graph (apply_region g r)) e.
  Proof.
    unfold apply_region, tg_graph at 2. cbn [tg_nodes tg_outputs].
    apply (sim_refines V teq sem Inv (region_keep r) (region_tr r) (tg_nodes g) (tg_outputs g) (map (ren_out r) (tg_outputs g)) e Hssa rinv_init).
    intros ef0 Hev0. rewrite Hev in Hev0. injection Hev0 as <-. split.
    - exact region_step_all.
    - intros ef' o Hi Hl. now apply routs_related.
  Qed.

  (* ---- the final environment of the rewritten graph, and the preservation of what the pass reads *)
  Lemma region_env : exists ef', evalg (tg_nodes (apply_region g r)) e = Some ef' /\ Inv ef ef'.
  Proof. exact (sim_env V sem Inv (region_keep r) (region_tr r) (tg_nodes g) e ef Hssa rinv_init Hev region_step_all). Qed.

  Lemma region_tr_outs n : n_outs (region_tr r n) = n_outs n.
  Proof. unfold region_tr. destruct (memn n (r_es r)); reflexivity. Qed.
  Lemma region_tr_op n : n_op (region_tr r n) = n_op n.
  Proof. unfold region_tr. destruct (memn n (r_es r)); reflexivity. Qed.

  (* a name defined in the rewritten run is an input or the output of a kept node: it is not renamed, and its old and
     new values have the same "one-element" status *)
  Lemma kept_out_plain m y : In m (tg_nodes g) -> region_keep r m = true -> In y (n_outs m) -> rhoR y = y /\ ~ In y Dead.
  Proof.
    intros Hm Hk Hy. destruct (memn m (r_es r)) eqn:Ees.
    - apply memn_In in Ees. destruct (rf_es _ _ _ _ Hrf m Ees) as (_ & Ho & _). rewrite Ho in Hy. destruct Hy as [<-|[]].
      assert (HyD : In (out_of m) D) by (unfold D, outs_of; apply in_map_iff; eauto). split; [|now apply D_not_Dead].
      rewrite (rhoR_plain _ (D_not_Dead _ HyD)). apply (ren_out_other g r p q Hrf). intros t Ht. exact (D_not_Oout g r p q Hnd Hrf _ t HyD Ht).
    - destruct (other_facts m Hm Hk Ees) as (_ & _ & Houts & _). destruct (Houts y Hy) as (_ & H2 & H3). auto.
  Qed.

  Lemma new_defined_plain ef' x w : evalg (tg_nodes (apply_region g r)) e = Some ef' -> Inv ef ef' -> ef' x = Some w ->
    exists v, ef x = Some v /\ relR x v w /\ ~ In x Dead.
  Proof.
    intros Hev' Hi Hx.
    assert (Hplain : rhoR x = x /\ ~ In x Dead).
    { assert (Hdef : ef' x <> None) by congruence.
      destruct (eval_dom V sem _ _ _ _ Hev' Hdef) as [He|Hd].
      - destruct (e x) as [v0|] eqn:Ex; [|congruence]. destruct (inputs_plain x v0 Ex) as (_ & H2 & H3). auto.
      - unfold defs in Hd. apply in_flat_map in Hd as (m' & Hm' & Hy). cbn [apply_region tg_nodes] in Hm'.
        apply in_map_iff in Hm' as (m & <- & Hm). apply filter_In in Hm as [Hm Hk]. rewrite region_tr_outs in Hy.
        exact (kept_out_plain m x Hm Hk Hy). }
    destruct Hplain as [Hrho HnDead]. destruct Hi as [Hi1 Hi2].
    assert (Hold : ef x <> None) by (apply Hi2; congruence).
    destruct (ef x) as [v|] eqn:Ev; [|congruence]. destruct (Hi1 _ _ Ev) as (w0 & Ew0 & Hr). rewrite Hrho, Hx in Ew0. injection Ew0 as <-.
    exists v. auto.
  Qed.

  Lemma relR_all1 x v w : ~ In x Dead -> relR x v w -> all1 (shape v) = all1 (shape w).
  Proof.
    intros HnD Hr. destruct (in_dec Nat.eq_dec x D) as [HD|HD].
    - destruct (trel_facts p v w Hp (relR_D _ _ _ HD Hr)) as (H & _). exact H.
    - pose proof (relR_teq _ _ _ HD HnD Hr) as Ht. now rewrite (proj1 Ht).
  Qed.

  (* the values of the rewritten run, name by name: outside the moved members nothing changes; the members are elementwise
     nodes of the rewritten graph *)
  Theorem region_frame :
    (exists ef', evalg (tg_nodes (apply_region g r)) e = Some ef' /\
       forall x w, ef' x = Some w -> exists v, ef x = Some v /\ (In x (outs_of (r_es r)) \/ teq v w)) /\
    (forall n y, In n (tg_nodes (apply_region g r)) -> In y (n_outs n) -> In y (outs_of (r_es r)) -> is_elem n = true /\ n_caps n = []) /\
    (forall y, In y (outs_of (r_es r)) -> In y (defs (tg_nodes (apply_region g r)))).
  Proof.
    split; [|split].
    - destruct region_env as (ef' & Hev' & Hi). exists ef'. split; [exact Hev'|]. intros x w Hx.
      destruct (new_defined_plain ef' x w Hev' Hi Hx) as (v & Ev & Hr & HnD). exists v. split; [exact Ev|].
      destruct (in_dec Nat.eq_dec x D) as [HD|HD]; [left; exact HD | right; exact (relR_teq x v w HD HnD Hr)].
    - intros n' y Hn' Hy HyD. cbn [apply_region tg_nodes] in Hn'. apply in_map_iff in Hn' as (m & <- & Hm). apply filter_In in Hm as [Hm Hk].
      rewrite region_tr_outs in Hy. unfold outs_of in HyD. apply in_map_iff in HyD as (n0 & <- & Hn0).
      destruct (rf_es _ _ _ _ Hrf n0 Hn0) as (Hn0in & Ho0 & Hc0 & He0).
      assert (m = n0) by (apply (defs_unique (tg_nodes g) m n0 (out_of n0) Hnd Hm Hn0in Hy); rewrite Ho0; now left). subst m.
      split.
      + unfold is_elem, nop in *. now rewrite region_tr_op.
      + unfold region_tr. rewrite (proj2 (memn_In _ _) Hn0), Hc0. reflexivity.
    - intros y HyD. unfold outs_of in HyD. apply in_map_iff in HyD as (n0 & <- & Hn0).
      destruct (rf_es _ _ _ _ Hrf n0 Hn0) as (Hn0in & Ho0 & _). unfold defs. apply in_flat_map. exists (region_tr r n0). split.
      + cbn [apply_region tg_nodes]. apply in_map. apply filter_In. split; [exact Hn0in | now apply es_kept].
      + rewrite region_tr_outs, Ho0. now left.
  Qed.

  Theorem region_admissible : tadmissible (apply_region g r) e.
  Proof.
    destruct region_env as (ef' & Hev' & Hi). constructor.
    - cbn [apply_region tg_nodes]. apply ssa_sim; auto. exact region_tr_outs.
    - intros ef2 x w Hev2 Hsc Hx. rewrite Hev' in Hev2. injection Hev2 as <-.
      destruct (new_defined_plain ef' x w Hev' Hi Hx) as (v & Ev & Hr & HnD).
      rewrite <- (relR_all1 x v w HnD Hr). exact (tadm_scalar _ _ _ _ Hadm ef x v Hev Hsc Ev).
  Qed.
End RegionSound.

(* ================================================================ phase B: what decide_forest establishes *)
(* [flows es v0 y]: the value y reaches v0 through DATA operands of region members (a CastLike member passes only its
   first operand on) *)
Inductive flows (es : list node) (v0 : name) : name -> Prop :=
| fl_root : flows es v0 v0
| fl_step y m y' : In m es -> In y (n_ins m) -> (nop m = "CastLike"%string -> hd_error (n_ins m) = Some y) ->
    In y' (n_outs m) -> flows es v0 y' -> flows es v0 y.

Lemma flows_mono es es' v0 y : (forall m, In m es -> In m es') -> flows es v0 y -> flows es' v0 y.
Proof. intros H Hf. induction Hf; [constructor | econstructor; eauto]. Qed.

(* CastLike members take one-element constants as type operands (then no value of the region is used as a mere type) *)
Definition castlike_types_scalar (g : tgraph) (es : list node) : bool :=
  forallb (fun n => negb (String.eqb (nop n) "CastLike") || forallb (tg_scalar g) (tl (n_ins n))) es.

Section Collect.
  Variable g : tgraph.
  Variable v0 : name.
  Let ns := tg_nodes g.

  Definition cinv (work visited : list name) (ts es : list node) : Prop :=
    (forall n, In n es -> In n ns /\ is_elem n = true /\ forall u, In u (n_ins n) -> tg_scalar g u = true \/ In u visited \/ In u work) /\
    (forall t, In t ts -> In t ns /\ is_T t = true) /\
    (forall v, In v visited -> tg_scalar g v = true \/
        exists m, producer ns v = Some m /\ ((is_T m = true /\ In m ts) \/ In m es)) /\
    (forall n, In n es -> castlike_types_scalar g es = true -> exists v, In v (n_outs n) /\ flows es v0 v) /\
    (forall v, In v work -> castlike_types_scalar g es = true -> flows es v0 v).

  Definition cfinal (ts es : list node) : Prop :=
    (forall n, In n es -> In n ns /\ is_elem n = true /\ forall u, In u (n_ins n) -> tg_scalar g u = true \/
        exists m, producer ns u = Some m /\ ((is_T m = true /\ In m ts) \/ In m es)) /\
    (forall t, In t ts -> In t ns /\ is_T t = true) /\
    (forall n, In n es -> castlike_types_scalar g es = true -> exists v, In v (n_outs n) /\ flows es v0 v).

  Lemma In_addn n m l : In m (addn n l) <-> m = n \/ In m l.
  Proof.
    unfold addn. destruct (memn n l) eqn:E.
    - apply memn_In in E. split; [now right | intros [->|H]; auto].
    - rewrite in_app_iff. simpl. intuition.
  Qed.

  Lemma cts_app es p0 : castlike_types_scalar g (es ++ [p0]) = true -> castlike_types_scalar g es = true.
  Proof. unfold castlike_types_scalar. rewrite forallb_app. intro H. now apply andb_prop in H as [H _]. Qed.

  (* the popped value is recorded as visited: it is a constant, or its producer is in ts / es *)
  Lemma cinv_pop v w visited ts es :
    cinv (v :: w) visited ts es ->
    (tg_scalar g v = true \/ exists m, producer ns v = Some m /\ ((is_T m = true /\ In m ts) \/ In m es)) ->
    cinv w (v :: visited) ts es.
  Proof.
    intros (I1 & I2 & I3 & I4 & I5) Hv. split; [|split; [|split; [|split]]]; auto.
    - intros n Hn. destruct (I1 n Hn) as (H1 & H2 & H3). split; [|split]; auto.
      intros u Hu. destruct (H3 u Hu) as [Hs|[Hvi|[<-|Hw]]]; auto; right; left; [now right | now left].
    - intros v1 [<-|Hv1]; [exact Hv | now apply I3].
    - intros v1 Hv1. apply I5. now right.
  Qed.

  Lemma cinv_ts pr work visited ts es : cinv work visited ts es -> In pr ns -> is_T pr = true -> cinv work visited (addn pr ts) es.
  Proof.
    intros (I1 & I2 & I3 & I4 & I5) Hin HT. split; [|split; [|split; [|split]]]; auto.
    - intros t Ht. apply In_addn in Ht as [->|Ht]; [auto | now apply I2].
    - intros v1 Hv1. destruct (I3 v1 Hv1) as [Hs|(m & Hm & [[HTm Hinm]|Hinm])]; auto; right; exists m; split; auto.
      left. split; auto. apply In_addn. now right.
  Qed.

  Lemma collect_inv : forall fuel work visited ts es ts' es', cinv work visited ts es ->
    collect g fuel work visited ts es = Some (ts', es') -> cfinal ts' es'.
  Proof.
    induction fuel as [|k IH]; intros work visited ts es ts' es' Hinv H; [discriminate|]. cbn [collect] in H.
    destruct work as [|v w].
    - destruct Hinv as (I1 & I2 & I3 & I4 & I5). injection H as <- <-. split; [|split; auto].
      intros n Hn. destruct (I1 n Hn) as (H1 & H2 & H3). split; [|split]; auto.
      intros u Hu. destruct (H3 u Hu) as [Hs|[Hv|[]]]; auto.
    - destruct (mem v visited) eqn:Emem.
      { apply mem_In in Emem. apply (IH w visited ts es ts' es'); [|exact H].
        destruct Hinv as (I1 & I2 & I3 & I4 & I5). split; [|split; [|split; [|split]]]; auto.
        - intros n Hn. destruct (I1 n Hn) as (H1 & H2 & H3). split; [|split]; auto.
          intros u Hu. destruct (H3 u Hu) as [Hs|[Hvi|[<-|Hw]]]; auto.
        - intros v1 Hv1. apply I5. now right. }
      destruct (tg_scalar g v) eqn:Esc.
      { apply (IH w (v :: visited) ts es ts' es'); [|exact H]. apply cinv_pop; auto. }
      fold ns in H. destruct (producer ns v) as [pr|] eqn:Epr; [|discriminate].
      destruct (producer_spec _ _ _ Epr) as [Hprin Hvout].
      destruct (is_T pr) eqn:ET.
      { apply (IH w (v :: visited) (addn pr ts) es ts' es'); [|exact H]. apply cinv_pop.
        - now apply cinv_ts.
        - right. exists pr. split; auto. left. split; auto. apply In_addn. now left. }
      destruct (is_elem pr) eqn:Eel; [|discriminate]. cbn [negb] in H.
      destruct (memn pr es) eqn:Emn.
      { apply memn_In in Emn. apply (IH w (v :: visited) ts es ts' es'); [|exact H]. apply cinv_pop; auto.
        right. exists pr. auto. }
      apply (IH (filter (fun x => negb (tg_scalar g x)) (n_ins pr) ++ w) (v :: visited) ts (es ++ [pr]) ts' es'); [|exact H]. clear IH H.
      destruct Hinv as (I1 & I2 & I3 & I4 & I5).
      assert (Hsub : forall m, In m es -> In m (es ++ [pr])) by (intros; apply in_or_app; now left).
      assert (Hprn : In pr (es ++ [pr])) by (apply in_or_app; right; now left).
      split; [|split; [|split; [|split]]]; auto.
      + intros n Hn. apply in_app_or in Hn as [Hn|[<-|[]]].
        * destruct (I1 n Hn) as (H1 & H2 & H3). split; [|split]; auto.
          intros u Hu. destruct (H3 u Hu) as [Hs|[Hv|[<-|Hw]]]; auto.
          -- right. left. now right.
          -- right. left. now left.
          -- right. right. apply in_or_app. now right.
        * split; [|split]; auto. intros u Hu.
          destruct (tg_scalar g u) eqn:Eu; [now left|]. right. right. apply in_or_app. left. apply filter_In. split; auto. now rewrite Eu.
      + intros v1 [<-|Hv1].
        * right. exists pr. auto.
        * destruct (I3 v1 Hv1) as [Hs|(m & Hm & [Hc|Hin])]; auto; right; exists m; auto.
      + intros n Hn Hcts. pose proof (cts_app _ _ Hcts) as Hcts0. apply in_app_or in Hn as [Hn|[<-|[]]].
        * destruct (I4 n Hn Hcts0) as (v1 & Hv1 & Hf). exists v1. split; auto. now apply (flows_mono es).
        * exists v. split; auto. apply (flows_mono es); auto. apply I5; auto. now left.
      + intros v1 Hv1 Hcts. pose proof (cts_app _ _ Hcts) as Hcts0. apply in_app_or in Hv1 as [Hv1|Hv1].
        * apply filter_In in Hv1 as [Hv1 Hns]. apply negb_true_iff in Hns.
          apply (fl_step _ _ v1 pr v); auto.
          -- intro Hcl0. unfold castlike_types_scalar in Hcts. rewrite forallb_app in Hcts. apply andb_prop in Hcts as [_ Hcts].
             simpl in Hcts. rewrite andb_true_r in Hcts. rewrite Hcl0 in Hcts. simpl in Hcts.
             destruct (n_ins pr) as [|x rest]; [contradiction|]. simpl in *. destruct Hv1 as [->|Hv1]; auto.
             rewrite forallb_forall in Hcts. rewrite (Hcts v1 Hv1) in Hns. discriminate.
          -- apply (flows_mono es); auto. apply I5; auto. now left.
        * apply (flows_mono es); auto. apply I5; auto. now right.
  Qed.
End Collect.

(* ---- forest_outs *)
Lemma In_fold_addn cs : forall acc t, In t (fold_left (fun a c => addn c a) cs acc) <-> In t acc \/ In t cs.
Proof.
  induction cs as [|c r IH]; intros acc t; simpl; [tauto|]. rewrite IH, In_addn. intuition (subst; auto).
Qed.

Lemma forest_outs_spec g q all : forall es acc outs, forest_outs g es all q acc = Some outs ->
  (forall t, In t outs -> In t acc \/ exists n o, In n es /\ out1 n = Some o /\ In t (consumers (tg_nodes g) o) /\
       memn t all = false /\ is_T t = true /\ perm_of t = Some q) /\
  (forall t, In t acc -> In t outs) /\
  (forall n o, In n es -> out1 n = Some o -> tobserved g o = false /\
       forall c, In c (consumers (tg_nodes g) o) -> memn c all = true \/ In c outs).
Proof.
  induction es as [|n r IH]; intros acc outs H; simpl in H.
  - injection H as <-. repeat split; auto; intros; contradiction.
  - destruct (out1 n) as [o|] eqn:Eo.
    + destruct (tobserved g o) eqn:Eobs; [discriminate|].
      set (cs := filter (fun c => negb (memn c all)) (consumers (tg_nodes g) o)) in *.
      destruct (forallb (fun c => is_T c && permeq (perm_of c) (Some q)) cs) eqn:Efa; [|discriminate].
      destruct (IH _ _ H) as (H1 & H2 & H3). rewrite forallb_forall in Efa. split; [|split].
      * intros t Ht. destruct (H1 t Ht) as [Hacc|(n0 & o0 & Hn0 & Ho0 & Hrest)].
        -- apply In_fold_addn in Hacc as [Hacc|Hcs]; [now left|]. right. exists n, o.
           pose proof (Efa t Hcs) as Hc. apply andb_prop in Hc as [HT Hpe]. unfold cs in Hcs. apply filter_In in Hcs as [Hc1 Hc2].
           apply negb_true_iff in Hc2. repeat split; auto; [now left|].
           unfold permeq in Hpe. destruct (perm_of t) as [pt|]; [|discriminate]. apply leqb_eq in Hpe. now subst.
        -- right. exists n0, o0. repeat split; auto; try tauto. now right.
      * intros t Ht. apply H2. apply In_fold_addn. now left.
      * intros n0 o0 [<-|Hn0] Ho0.
        -- rewrite Eo in Ho0. injection Ho0 as <-. split; auto. intros c Hc.
           destruct (memn c all) eqn:Em; [now left|]. right. apply H2. apply In_fold_addn. right. unfold cs. apply filter_In. split; auto. now rewrite Em.
        -- exact (H3 n0 o0 Hn0 Ho0).
    + destruct (IH _ _ H) as (H1 & H2 & H3). split; [|split]; auto.
      * intros t Ht. destruct (H1 t Ht) as [Hacc|(n0 & o0 & Hn0 & Hrest)]; [now left|]. right. exists n0, o0. split; [now right | exact Hrest].
      * intros n0 o0 [<-|Hn0] Ho0; [congruence | exact (H3 n0 o0 Hn0 Ho0)].
Qed.

Lemma all_perm_eq_spec ts p : all_perm_eq ts = Some p -> forall t, In t ts -> perm_of t = Some p.
Proof.
  unfold all_perm_eq. destruct ts as [|t0 r]; [discriminate|]. destruct (perm_of t0) as [p0|] eqn:E0; [|discriminate].
  destruct (forallb _ r) eqn:Ef; [|discriminate]. intro H. injection H as <-. intros t [<-|Ht]; auto.
  rewrite forallb_forall in Ef. specialize (Ef t Ht). unfold permeq in Ef. destruct (perm_of t) as [pt|]; [|discriminate].
  apply leqb_eq in Ef. now subst.
Qed.

Record forest_facts (g : tgraph) (t2 : node) (f : forest) (v0 : name) (p q : list nat) : Prop := {
  ff_t2 : is_T t2 = true /\ first_in t2 = Some v0 /\ perm_of t2 = Some q /\ In t2 (f_outs f);
  ff_collect : cfinal g v0 (f_ts f) (f_es f);
  ff_perm : forall t, In t (f_ts f) -> perm_of t = Some p;
  ff_inv : inv_ok p q = true;
  ff_outs : (forall t, In t (f_outs f) -> exists n o, In n (f_es f) /\ out1 n = Some o /\ In t (consumers (tg_nodes g) o) /\
                 memn t (f_es f) = false /\ is_T t = true /\ perm_of t = Some q) /\
            (forall n o, In n (f_es f) -> out1 n = Some o -> tobserved g o = false /\
                 forall c, In c (consumers (tg_nodes g) o) -> In c (f_es f) \/ In c (f_outs f));
  ff_guard : forall t, In t (f_ts f) -> ~ In t (f_outs f);
  ff_caps : forall n, In n (f_es f ++ f_ts f ++ f_outs f) -> n_caps n = [] }.

Lemma decide_forest_facts g t2 f : decide_forest g t2 = Some f -> exists v0 p q, forest_facts g t2 f v0 p q.
Proof.
  unfold decide_forest. intro H. destruct (is_T t2) eqn:ET; [|discriminate]. cbn [negb] in H.
  destruct (first_in t2) as [v0|] eqn:Ef; [|discriminate]. destruct (perm_of t2) as [q|] eqn:Eq; [|discriminate].
  destruct (collect g (collect_fuel g) [v0] [] [] []) as [[ts es]|] eqn:Ec; [|discriminate].
  destruct ts as [|t0 tr] eqn:Ets; [discriminate|]. rewrite <- Ets in *.
  destruct (all_perm_eq ts) as [p|] eqn:Ep; [|discriminate].
  destruct (inv_ok p q) eqn:Ei; [|discriminate]. cbn [negb] in H.
  destruct (forest_outs g es es q []) as [outs|] eqn:Eo; [|discriminate].
  match type of H with (if ?c then _ else _) = _ => destruct c eqn:Ecnd; [|discriminate] end.
  injection H as <-. apply andb_prop in Ecnd as [Ecnd Hcaps]. apply andb_prop in Ecnd as [Hmem Hguard]. apply negb_true_iff in Hguard.
  exists v0, p, q. constructor; cbn [f_ts f_es f_outs]; auto.
  - repeat split; auto. now apply memn_In.
  - apply (collect_inv g v0 (collect_fuel g) [v0] [] [] [] ts es); [|exact Ec].
    split; [|split; [|split; [|split]]].
    + intros n0 Hn0. destruct Hn0.
    + intros n0 Hn0. destruct Hn0.
    + intros n0 Hn0. destruct Hn0.
    + intros n0 Hn0. destruct Hn0.
    + intros v1 Hv1 _. destruct Hv1 as [<-|Hv1]; [constructor | destruct Hv1].
  - now apply all_perm_eq_spec.
  - destruct (forest_outs_spec _ _ _ _ _ _ Eo) as (H1 & _ & H3). split.
    + intros t Ht. destruct (H1 t Ht) as [[]|Hx]. exact Hx.
    + intros n o Hn Ho. destruct (H3 n o Hn Ho) as [Hobs Hc]. split; auto. intros c Hcc.
      destruct (Hc c Hcc) as [Hm|Hm]; [left; now apply memn_In | now right].
  - intros t Ht Hto. assert (existsb (fun t => memn t outs) ts = true); [|congruence].
    apply existsb_exists. exists t. split; auto. now apply memn_In.
  - intros n Hn. rewrite forallb_forall in Hcaps. specialize (Hcaps n Hn). unfold no_caps in Hcaps. destruct (n_caps n); [reflexivity|discriminate].
Qed.

Section ForestSound.
  Variable A : Type.
  Notation V := (tensor A).
  Variable sem : string -> list nat -> list V -> option (list V).
  Hypothesis sem_proper : forall op ats vs vs' o, Forall2 teq vs vs' -> sem op ats vs = Some o ->
    exists o', sem op ats vs' = Some o' /\ Forall2 teq o o'.
  Hypothesis Htr : sem_transpose_spec A sem op_type.
  Variable F : string -> list nat -> list A -> A.
  Hypothesis Hpw : sem_pointwise_spec_g A sem op_type F.
  Variable Fcl : list nat -> V -> A -> A.
  Hypothesis Hcl : sem_castlike_spec_n A sem op_type Fcl.
  Hypothesis Hcl_type : castlike_type_only A Fcl.
  Hypothesis Hacc : sem_accepts_spec_g A sem op_type.
  Notation evalg := (eval V sem).
  Notation refinesg := (refines V teq sem).
  Notation tadmissible := (tadmissible A sem).

  Lemma lookups_one (E : env V) xs v : lookups V E xs = Some [v] -> exists x, xs = [x] /\ E x = Some v.
  Proof.
    destruct xs as [|x [|y r]]; simpl; intro H; try discriminate.
    - destruct (E x) eqn:Ex; [|discriminate]. injection H as <-. eauto.
    - destruct (E x); [|discriminate]. destruct (E y); [|discriminate]. destruct (lookups V E r); discriminate.
  Qed.

  (* the value of an elementwise node without nested graphs, in the final environment *)
  Lemma elem_val g e ef n : tadmissible g e -> evalg (tg_nodes g) e = Some ef ->
    In n (tg_nodes g) -> is_elem n = true -> n_caps n = [] ->
    exists vs yv, n_outs n = [out_of n] /\ lookups V ef (n_ins n) = Some vs /\ ef (out_of n) = Some yv /\
      ((nop n = "CastLike"%string /\ exists x t, vs = [x; t] /\ length (shape yv) = length (shape x)) \/
       (str_in (nop n) pw_ops_all = true /\ forall v, In v vs -> length (shape v) <= length (shape yv))).
  Proof.
    intros Hadm Hev Hn Hel Hcaps.
    destruct (eval_consistent V sem _ _ _ n (tadm_ssa _ _ _ _ Hadm) Hev Hn) as (vs & o & Hl & Hs & Hlo).
    assert (Hl' : lookups V ef (n_ins n) = Some vs) by (unfold n_uses in Hl; now rewrite Hcaps, app_nil_r in Hl).
    assert (Hone : forall y, o = [y] -> n_outs n = [out_of n] /\ ef (out_of n) = Some y).
    { intros y ->. destruct (lookups_one ef _ _ Hlo) as (x & Hx & Ex). unfold out_of. rewrite Hx. auto. }
    destruct (elem_in_pw_all _ Hel) as [Hop|Hop].
    - destruct (Hcl _ _ _ _ Hop Hs) as (x & t & y & -> & Ho & Hy). destruct (Hone y Ho) as [H1 H2].
      exists [x; t], y. repeat split; auto. left. split; auto. exists x, t. split; auto. now rewrite (proj1 Hy).
    - destruct (Hpw _ _ _ _ Hop Hs) as (_ & y & Ho & Hy). destruct (Hone y Ho) as [H1 H2].
      exists vs, y. repeat split; auto. right. split; auto. intros v Hv. rewrite (proj1 Hy), pwg_rank. now apply prank_ge.
  Qed.

  Section Forest.
    Variables (g : tgraph) (t2 : node) (f : forest) (v0 : name) (p q : list nat) (e ef : env V).
    Hypothesis Hff : forest_facts g t2 f v0 p q.
    Hypothesis Hadm : tadmissible g e.
    Hypothesis Hev : evalg (tg_nodes g) e = Some ef.
    Hypothesis Hcts : castlike_types_scalar g (f_es f) = true.
    Let Hssa := tadm_ssa _ _ _ _ Hadm.
    Let Hnd : NoDup (defs (tg_nodes g)) := proj1 Hssa.
    Let r := forest_region g f.

    Lemma f_es_in n : In n (f_es f) -> In n (tg_nodes g) /\ is_elem n = true /\ n_caps n = [].
    Proof.
      intro Hn. destruct (ff_collect _ _ _ _ _ _ Hff) as (H1 & _). destruct (H1 n Hn) as (Ha & Hb & _).
      repeat split; auto. apply (ff_caps _ _ _ _ _ _ Hff). apply in_or_app. now left.
    Qed.
    Lemma f_es_val n : In n (f_es f) ->
      exists vs yv, n_outs n = [out_of n] /\ lookups V ef (n_ins n) = Some vs /\ ef (out_of n) = Some yv /\
        ((nop n = "CastLike"%string /\ exists x t, vs = [x; t] /\ length (shape yv) = length (shape x)) \/
         (str_in (nop n) pw_ops_all = true /\ forall v, In v vs -> length (shape v) <= length (shape yv))).
    Proof. intro Hn. destruct (f_es_in n Hn) as (H1 & H2 & H3). now apply (elem_val g e). Qed.

    Lemma T_val t pt : In t (tg_nodes g) -> is_T t = true -> perm_of t = Some pt -> n_caps t = [] ->
      n_outs t = [out_of t] /\ exists x vx vy, n_ins t = [x] /\ ef x = Some vx /\ ef (out_of t) = Some vy /\
        teq vy (transpose pt vx) /\ length pt = length (shape vx).
    Proof.
      intros Hin HT Hpt Hcaps.
      destruct (tnode_final A sem Htr g e ef t pt Hadm Hev Hin HT Hpt) as (u & y & x & vy & Eu & Eo & Ex & Ey & Ht & Hl).
      unfold n_uses in Eu. rewrite Hcaps, app_nil_r in Eu. unfold out_of. rewrite Eo. split; auto. exists u, x, vy. auto.
    Qed.
    Lemma f_ts_val t : In t (f_ts f) -> In t (tg_nodes g) /\ is_T t = true /\ perm_of t = Some p /\ n_caps t = [] /\
      n_outs t = [out_of t] /\ exists x, n_ins t = [x].
    Proof.
      intro Ht. destruct (ff_collect _ _ _ _ _ _ Hff) as (_ & H2 & _). destruct (H2 t Ht) as [Hin HT].
      pose proof (ff_perm _ _ _ _ _ _ Hff t Ht) as Hpt.
      assert (Hcaps : n_caps t = []) by (apply (ff_caps _ _ _ _ _ _ Hff); apply in_or_app; right; apply in_or_app; now left).
      destruct (T_val t p Hin HT Hpt Hcaps) as (Ho & x & _ & _ & Hi & _). repeat split; eauto.
    Qed.
    Lemma f_outs_val t : In t (f_outs f) -> In t (tg_nodes g) /\ is_T t = true /\ perm_of t = Some q /\ n_caps t = [] /\
      n_outs t = [out_of t] /\ exists n, In n (f_es f) /\ n_ins t = [out_of n] /\ ~ In t (f_es f).
    Proof.
      intro Ht. destruct (proj1 (ff_outs _ _ _ _ _ _ Hff) t Ht) as (n & o & Hn & Ho & Hc & Hnm & HT & Hpt).
      unfold consumers in Hc. apply filter_In in Hc as [Hin Hread].
      assert (Hcaps : n_caps t = []) by (apply (ff_caps _ _ _ _ _ _ Hff); apply in_or_app; right; apply in_or_app; now right).
      destruct (T_val t q Hin HT Hpt Hcaps) as (Hout & x & _ & _ & Hi & _).
      destruct (f_es_val n Hn) as (_ & _ & Hno & _). unfold out1 in Ho. rewrite Hno in Ho. simpl in Ho. injection Ho as <-.
      apply existsb_exists in Hread as (z & Hz & E). apply Nat.eqb_eq in E. subst z. rewrite Hi in Hz. destruct Hz as [->|[]].
      repeat split; auto. exists n. repeat split; auto. intro H. apply memn_In in H. congruence.
    Qed.

    Let Hlen_pq : length p = length q := proj1 (proj1 (inv_ok_perms p q (ff_inv _ _ _ _ _ _ Hff))).

    (* ranks only grow along data operands, and T2 accepted the value at the root *)
    Lemma flows_rank y : flows (f_es f) v0 y -> forall vy, ef y = Some vy -> length (shape vy) <= length p.
    Proof.
      induction 1 as [|y m y' Hm Hy Hcl0 Hy' _ IH]; intros vy Ey.
      - destruct (ff_t2 _ _ _ _ _ _ Hff) as (HT & Hf0 & Hq0 & Hin).
        destruct (f_outs_val t2 Hin) as (Hin2 & _ & _ & Hcaps & _).
        destruct (T_val t2 q Hin2 HT Hq0 Hcaps) as (_ & x & vx & _ & Hi & Ex & _ & _ & Hl).
        unfold first_in in Hf0. rewrite Hi in Hf0. simpl in Hf0. injection Hf0 as ->. rewrite Ey in Ex. injection Ex as ->.
        rewrite Hlen_pq, Hl. auto.
      - destruct (f_es_val m Hm) as (vs & yv & Hmo & Hl & Eyv & Hcase). rewrite Hmo in Hy'. destruct Hy' as [<-|[]].
        specialize (IH yv Eyv). destruct Hcase as [(Hop & x & t & -> & Hsh)|(Hop & Hle)].
        + specialize (Hcl0 Hop). destruct (n_ins m) as [|i0 rest]; [discriminate|]. simpl in Hcl0. injection Hcl0 as ->.
          simpl in Hl. rewrite Ey in Hl. destruct (lookups V ef rest); [|discriminate]. injection Hl as <- _. lia.
        + pose proof (lookups_In_val A ef _ _ _ _ Hl Hy Ey) as Hv. specialize (Hle vy Hv). lia.
    Qed.

    Lemma forest_rank n u v : In n (f_es f) -> str_in (nop n) pw_ops_all = true -> In u (n_ins n) -> ef u = Some v ->
      length (shape v) <= length p.
    Proof.
      intros Hn Hop Hu Ev. destruct (f_es_val n Hn) as (vs & yv & Hno & Hl & Eyv & Hcase).
      destruct (ff_collect _ _ _ _ _ _ Hff) as (_ & _ & H3). destruct (H3 n Hn Hcts) as (v1 & Hv1 & Hf).
      rewrite Hno in Hv1. destruct Hv1 as [<-|[]]. pose proof (flows_rank _ Hf yv Eyv) as Hry.
      destruct Hcase as [(Hcl0 & _)|(_ & Hle)].
      - rewrite Hcl0 in Hop. vm_compute in Hop. discriminate.
      - pose proof (lookups_In_val A ef _ _ _ _ Hl Hu Ev) as Hv. specialize (Hle v Hv). lia.
    Qed.

    (* ---- the input Transposes removed by the pass have no reader left *)
    Lemma ren_out_T t : In t (f_ts f) -> ren_out r (out_of t) = out_of t.
    Proof.
      intro Ht. apply lookup_ren_notin. intros [o i] Hin E. simpl in E. subst o.
      apply pairs_of_in in Hin as (t' & Ht' & Ho' & _). cbn [r forest_region r_outs] in Ht'.
      destruct (f_outs_val t' Ht') as (Hin' & _ & _ & _ & Hto' & _). destruct (f_ts_val t Ht) as (Hin0 & _ & _ & _ & Hto & _).
      unfold out1 in Ho'. rewrite Hto' in Ho'. simpl in Ho'. injection Ho' as Ho'.
      assert (t' = t) by (apply (owner_unique g Hnd t' t (out_of t')); auto; rewrite Hto, Ho'; now left). subst t'.
      exact (ff_guard _ _ _ _ _ _ Hff t Ht Ht').
    Qed.

    Lemma forest_dead_raw t : In t (r_dead r) ->
      In t (f_ts f) /\ ~ In (out_of t) (tg_outputs g) /\
      forall m, In m (tg_nodes g) -> ~ In m (f_outs f) -> memn m (f_es f) = false -> ~ In (out_of t) (n_uses m).
    Proof.
      intro Hd. cbn [r forest_region r_dead] in Hd. apply filter_In in Hd as [Ht Hdead].
      destruct (f_ts_val t Ht) as (Htin & _ & _ & _ & Hto & _).
      unfold out1 in Hdead. rewrite Hto in Hdead. cbn [hd_error] in Hdead.
      apply andb_prop in Hdead as [Hd1 Hd2]. apply negb_true_iff in Hd1, Hd2. apply orb_false_iff in Hd2 as [Hd2 Hd3].
      pose proof (ren_out_T t Ht) as Hren. cbn [r forest_region] in Hren.
      split; [exact Ht|]. split.
      - intro Ho. assert (mem (out_of t) (map (ren_out (mkR (f_es f) (f_ts f) (f_outs f) [])) (tg_outputs g)) = true); [|congruence].
        apply mem_In. apply in_map_iff. exists (out_of t). split; auto.
      - intros m Hm HmO Hmes Huse.
        assert (Hlive : In (region_tr (mkR (f_es f) (f_ts f) (f_outs f) []) m)
                          (map (region_tr (mkR (f_es f) (f_ts f) (f_outs f) [])) (filter (region_keep (mkR (f_es f) (f_ts f) (f_outs f) [])) (tg_nodes g)))).
        { apply in_map. apply filter_In. split; auto. unfold region_keep. cbn [r_outs r_dead]. rewrite (memn_false _ _ HmO). reflexivity. }
        assert (Htrm : region_tr (mkR (f_es f) (f_ts f) (f_outs f) []) m = subst_map (ren_out (mkR (f_es f) (f_ts f) (f_outs f) [])) m).
        { unfold region_tr. cbn [r_es]. now rewrite Hmes. }
        rewrite Htrm in Hlive. unfold n_uses in Huse. apply in_app_or in Huse as [Hu|Hu].
        + assert (existsb (fun m0 => mem (out_of t) (n_ins m0)) (map (region_tr (mkR (f_es f) (f_ts f) (f_outs f) [])) (filter (region_keep (mkR (f_es f) (f_ts f) (f_outs f) [])) (tg_nodes g))) = true); [|congruence].
          apply existsb_exists. eexists. split; [exact Hlive|]. apply mem_In. cbn [subst_map n_ins]. apply in_map_iff. exists (out_of t). auto.
        + assert (existsb (fun m0 => mem (out_of t) (n_caps m0)) (map (region_tr (mkR (f_es f) (f_ts f) (f_outs f) [])) (filter (region_keep (mkR (f_es f) (f_ts f) (f_outs f) [])) (tg_nodes g))) = true); [|congruence].
          apply existsb_exists. eexists. split; [exact Hlive|]. apply mem_In. cbn [subst_map n_caps]. apply in_map_iff. exists (out_of t). auto.
    Qed.

    Lemma forest_region_facts : region_facts g r p q.
    Proof.
      destruct (ff_collect _ _ _ _ _ _ Hff) as (C1 & C2 & C3). destruct (ff_outs _ _ _ _ _ _ Hff) as [O1 O3].
      assert (HD : forall n, In n (f_es f) -> out1 n = Some (out_of n)).
      { intros n Hn. destruct (f_es_val n Hn) as (_ & _ & Ho & _). unfold out1. now rewrite Ho. }
      constructor; cbn [r forest_region r_es r_ts r_outs].
      - exact (ff_inv _ _ _ _ _ _ Hff).
      - intros n Hn. destruct (f_es_in n Hn) as (H1 & H2 & H3). destruct (f_es_val n Hn) as (_ & _ & Ho & _). auto.
      - intros n u Hn Hu. destruct (C1 n Hn) as (_ & _ & Hc). destruct (Hc u Hu) as [Hs|(m & Hm & [[HT Hin]|Hin])]; auto.
        + right. left. exists m. split; auto. destruct (f_ts_val m Hin) as (_ & _ & _ & _ & Ho & _).
          apply producer_spec in Hm as [_ Hu']. rewrite Ho in Hu'. destruct Hu' as [E|[]]. exact E.
        + left. unfold outs_of. apply in_map_iff. exists m. split; auto. destruct (f_es_val m Hin) as (_ & _ & Ho & _).
          apply producer_spec in Hm as [_ Hu']. rewrite Ho in Hu'. destruct Hu' as [E|[]]. exact E.
      - intros t Ht. destruct (f_ts_val t Ht) as (H1 & H2 & H3 & H4 & H5 & x & Hx). repeat split; auto. exists x. repeat split; auto.
        + (* the guard: a source that is a region output would make t a consumer Transpose *)
          intro HxD. unfold outs_of in HxD. apply in_map_iff in HxD as (n & En & Hn).
          destruct (O3 n x Hn) as [_ Hc]; [rewrite (HD n Hn); now rewrite En|].
          assert (Htc : In t (consumers (tg_nodes g) x)).
          { unfold consumers. apply filter_In. split; auto. apply existsb_exists. exists x. rewrite Hx. split; [now left | apply Nat.eqb_refl]. }
          destruct (Hc t Htc) as [He|Ho]; [|exact (ff_guard _ _ _ _ _ _ Hff t Ht Ho)].
          destruct (f_es_in t He) as (_ & He' & _). rewrite (elem_not_T _ He') in H2. discriminate.
        + intro HxDead. unfold outs_of in HxDead. apply in_map_iff in HxDead as (tk & Ek & Htk).
          destruct (forest_dead_raw tk Htk) as (_ & _ & Hno). apply (Hno t H1).
          * exact (ff_guard _ _ _ _ _ _ Hff t Ht).
          * apply memn_false. intro He. destruct (f_es_in t He) as (_ & He' & _). rewrite (elem_not_T _ He') in H2. discriminate.
          * unfold n_uses. rewrite Hx, Ek. now left.
      - intros t Ht. destruct (f_outs_val t Ht) as (H1 & H2 & H3 & H4 & H5 & n & Hn & Hi & _). repeat split; auto.
        exists (out_of n). repeat split; auto. unfold outs_of. apply in_map_iff. eauto.
      - exact (ff_guard _ _ _ _ _ _ Hff).
      - intros t Ht. destruct (forest_dead_raw t Ht) as (H1 & H2 & H3). repeat split; auto.
        intros m Hm Hk Hmes. apply H3; auto. unfold region_keep in Hk. apply andb_prop in Hk as [Hk _]. apply negb_true_iff in Hk.
        intro Hin. apply memn_In in Hin. cbn [r forest_region r_outs] in Hk. congruence.
      - intros y Hy. unfold outs_of in Hy. apply in_map_iff in Hy as (n & <- & Hn). destruct (O3 n _ Hn (HD n Hn)) as [Hobs _].
        now apply tobserved_false.
      - intros y m Hy Hm Hym. unfold outs_of in Hy. apply in_map_iff in Hy as (n & <- & Hn). destruct (O3 n _ Hn (HD n Hn)) as [_ Hc].
        apply Hc. unfold consumers. apply filter_In. split; auto. apply existsb_exists. exists (out_of n). split; auto. apply Nat.eqb_refl.
    Qed.

    Lemma forest_run : refinesg (tg_graph g) (tg_graph (apply_forest g f)) e.
    Proof.
      apply (region_run A sem sem_proper Htr F Hpw Fcl Hcl Hcl_type Hacc g r p q e ef Hadm forest_region_facts Hev).
      intros n u v Hn. apply forest_rank. exact Hn.
    Qed.

    Lemma forest_admissible : tadmissible (apply_forest g f) e.
    Proof.
      apply (region_admissible A sem sem_proper Htr F Hpw Fcl Hcl Hcl_type Hacc g r p q e ef Hadm forest_region_facts Hev).
      intros n u v Hn. apply forest_rank. exact Hn.
    Qed.
    Lemma forest_frame : frame3 A sem (tg_nodes (apply_forest g f)) (map out_of (f_es f)) e ef.
    Proof.
      apply (region_frame A sem sem_proper Htr F Hpw Fcl Hcl Hcl_type Hacc g r p q e ef Hadm forest_region_facts Hev).
      intros n u v Hn. apply forest_rank. exact Hn.
    Qed.
  End Forest.
End ForestSound.

(* ================================================================ phase A: what decide_add establishes *)
Lemma add_inputs_spec ns prev : forall ins pf hp nt pf' hp' nt', add_inputs ns prev ins pf hp nt = Some (pf', hp', nt') ->
  (forall x, pf = Some x -> pf' = Some x) /\
  forall iv, In iv ins -> exists pr, producer ns iv = Some pr /\
    ((exists pv, prev = Some pv /\ pr = pv) \/ (is_T pr = true /\ exists pp, perm_of pr = Some pp /\ pf' = Some pp)).
Proof.
  induction ins as [|iv r IH]; intros pf hp nt pf' hp' nt' H; simpl in H.
  - injection H as <- <- <-. split; auto. intros iv [].
  - destruct (producer ns iv) as [pr|] eqn:Epr; [|discriminate].
    destruct (match prev with Some pv => node_eqb pr pv | None => false end) eqn:Eprev.
    + destruct (IH _ _ _ _ _ _ H) as [Hm Hall]. split; auto. intros iv0 [<-|Hin]; [|now apply Hall].
      exists pr. split; auto. left. destruct prev as [pv|]; [|discriminate]. apply node_eqb_eq in Eprev. eauto.
    + destruct (is_T pr) eqn:ET; [|discriminate]. cbn [negb] in H. destruct (perm_of pr) as [pp|] eqn:Epp; [|discriminate].
      destruct pf as [p0|].
      * destruct (leqb p0 pp) eqn:El; [|discriminate]. apply leqb_eq in El. subst pp.
        destruct (IH _ _ _ _ _ _ H) as [Hm Hall]. split; auto. intros iv0 [<-|Hin]; [|now apply Hall].
        exists pr. split; auto. right. split; auto. exists p0. split; auto.
      * destruct (IH _ _ _ _ _ _ H) as [Hm Hall]. split; [intros x Hx; discriminate|]. intros iv0 [<-|Hin]; [|now apply Hall].
        exists pr. split; auto. right. split; auto. exists pp. split; auto.
Qed.

Lemma other_consumers_spec : forall cs pi pi', other_consumers_ok cs pi = Some pi' ->
  (forall x, pi = Some x -> pi' = Some x) /\
  forall c, In c cs -> is_T c = true /\ exists pp, perm_of c = Some pp /\ pi' = Some pp.
Proof.
  induction cs as [|c r IH]; intros pi pi' H; simpl in H.
  - injection H as <-. split; auto. intros c [].
  - destruct (is_T c) eqn:ET; [|discriminate]. cbn [negb] in H. destruct (perm_of c) as [pp|] eqn:Epp; [|discriminate].
    destruct pi as [p0|].
    + destruct (leqb p0 pp) eqn:El; [|discriminate]. apply leqb_eq in El. subst pp.
      destruct (IH _ _ H) as [Hm Hall]. split; auto. intros c0 [<-|Hin]; [|now apply Hall]. split; auto. exists p0. auto.
    + destruct (IH _ _ H) as [Hm Hall]. split; [intros x Hx; discriminate|]. intros c0 [<-|Hin]; [|now apply Hall]. split; auto. exists pp. auto.
Qed.

Definition add_member_ok (g : tgraph) (st : addst) (c : node) : Prop :=
  In c (tg_nodes g) /\ is_add c = true /\
  (forall iv, In iv (n_ins c) -> exists pr, producer (tg_nodes g) iv = Some pr /\
     (In pr (as_chain st) \/ (is_T pr = true /\ exists pp, perm_of pr = Some pp /\ as_fwd st = Some pp))) /\
  exists out, out1 c = Some out /\ tobserved g out = false /\
    forall m, In m (consumers (tg_nodes g) out) ->
      In m (as_chain st) \/ (is_T m = true /\ exists pp, perm_of m = Some pp /\ as_inv st = Some pp).

Lemma add_member_mono g st st' c : (forall m, In m (as_chain st) -> In m (as_chain st')) ->
  (forall x, as_fwd st = Some x -> as_fwd st' = Some x) -> (forall x, as_inv st = Some x -> as_inv st' = Some x) ->
  add_member_ok g st c -> add_member_ok g st' c.
Proof.
  intros Hc Hf Hi (H1 & H2 & H3 & out & H4 & H5 & H6). split; [exact H1|]. split; [exact H2|]. split.
  - intros iv Hiv. destruct (H3 iv Hiv) as (pr & Hpr & Hcase). exists pr. split; [exact Hpr|].
    destruct Hcase as [Hin|(HT & pp & Hpp & Hfw)]; [left; now apply Hc|]. right. split; auto. exists pp. auto.
  - exists out. split; [exact H4|]. split; [exact H5|]. intros m Hm.
    destruct (H6 m Hm) as [Hin|(HT & pp & Hpp & Hiv)]; [left; now apply Hc|]. right. split; auto. exists pp. auto.
Qed.

Lemma add_walk_spec g : forall fuel prev cur st st', add_walk g fuel prev cur st = Some st' -> In cur (tg_nodes g) ->
  (forall pv, prev = Some pv -> In pv (as_chain st)) ->
  exists new, as_chain st' = as_chain st ++ new /\ In cur new /\
    (forall x, as_fwd st = Some x -> as_fwd st' = Some x) /\ (forall x, as_inv st = Some x -> as_inv st' = Some x) /\
    forall c, In c new -> add_member_ok g st' c.
Proof.
  induction fuel as [|k IH]; intros prev cur st st' H Hcur Hprev; [discriminate|]. cbn [add_walk] in H.
  destruct (is_add cur) eqn:Eadd; [|discriminate]. cbn [negb] in H.
  destruct (Nat.ltb (length (n_ins cur)) 2); [discriminate|].
  destruct (add_inputs (tg_nodes g) prev (n_ins cur) (as_fwd st) false 0) as [[[pf hp] nt]|] eqn:Eai; [|discriminate].
  destruct (match prev with None => Nat.ltb nt 1 | Some _ => negb hp || negb (Nat.eqb nt 1) end); [discriminate|].
  destruct (out1 cur) as [out|] eqn:Eo; [|discriminate].
  set (cs := consumers (tg_nodes g) out) in *.
  destruct (Nat.ltb 1 (length (filter is_add cs))) eqn:Elen; [discriminate|].
  destruct (other_consumers_ok (filter (fun c => negb (is_add c)) cs) (as_inv st)) as [pi|] eqn:Eoc; [|discriminate].
  destruct (tobserved g out) eqn:Eobs; [discriminate|].
  destruct (add_inputs_spec _ _ _ _ _ _ _ _ _ Eai) as [Hfm Hins]. destruct (other_consumers_spec _ _ _ Eoc) as [Him Hoth].
  (* cur is fine in every later state that contains the chain so far, cur, and cur's Add consumers *)
  assert (Hcur_ok : forall st2, (forall m, In m (as_chain st ++ [cur]) -> In m (as_chain st2)) ->
            (forall m, In m (filter is_add cs) -> In m (as_chain st2)) ->
            (forall x, pf = Some x -> as_fwd st2 = Some x) -> (forall x, pi = Some x -> as_inv st2 = Some x) ->
            add_member_ok g st2 cur).
  { intros st2 Hpre Hadds Hf2 Hi2. split; [exact Hcur|]. split; [exact Eadd|]. split.
    - intros iv Hiv. destruct (Hins iv Hiv) as (pr & Hpr & [(pv & Hpv & Epv)|(HT & pp & Hpp & Hfw)]); exists pr; (split; [exact Hpr|]).
      + left. apply Hpre. apply in_or_app. left. rewrite Epv. now apply Hprev.
      + right. split; auto. exists pp. auto.
    - exists out. split; [exact Eo|]. split; [exact Eobs|]. intros m Hm. destruct (is_add m) eqn:Em.
      + left. apply Hadds. apply filter_In. split; auto.
      + right. destruct (Hoth m) as (HT & pp & Hpp & Hpi); [apply filter_In; split; auto; now rewrite Em|]. split; auto. exists pp. auto. }
  destruct (filter is_add cs) as [|nx [|nx2 rest]] eqn:Eadds.
  - injection H as <-. exists [cur]. cbn [as_chain as_fwd as_inv]. split; [reflexivity|]. split; [now left|]. split; [exact Hfm|]. split; [exact Him|].
    intros c [<-|[]]. apply Hcur_ok; cbn [as_chain as_fwd as_inv]; auto. intros m [].
  - assert (Hnx : In nx (tg_nodes g)).
    { assert (Hin : In nx (filter is_add cs)) by (rewrite Eadds; now left). apply filter_In in Hin as [Hin _].
      unfold cs, consumers in Hin. now apply filter_In in Hin as [Hin _]. }
    destruct (IH (Some cur) nx (mkAS (as_chain st ++ [cur]) pf pi) st' H Hnx) as (new & Hch & Hnxin & Hf2 & Hi2 & Hnew).
    { intros pv Hpv. injection Hpv as <-. cbn [as_chain]. apply in_or_app. right. now left. }
    cbn [as_chain as_fwd as_inv] in *.
    exists (cur :: new). rewrite Hch, <- app_assoc. split; [reflexivity|]. split; [now left|].
    split; [intros x Hx; apply Hf2; now apply Hfm|]. split; [intros x Hx; apply Hi2; now apply Him|].
    intros c [<-|Hc]; [|now apply Hnew].
    apply Hcur_ok; auto.
    + intros m Hm. rewrite Hch. apply in_or_app. now left.
    + intros m [<-|[]]. rewrite Hch. apply in_or_app. now right.
  - simpl in Elen. discriminate.
Qed.

Lemma add_ts_spec g st : forall l acc t,
  In t (fold_left (fun acc iv => match producer (tg_nodes g) iv with
                                 | Some pr => if is_T pr && permeq (perm_of pr) (as_fwd st) then addn pr acc else acc
                                 | None => acc end) l acc) <->
  In t acc \/ exists iv, In iv l /\ producer (tg_nodes g) iv = Some t /\ is_T t = true /\ permeq (perm_of t) (as_fwd st) = true.
Proof.
  induction l as [|iv r IH]; intros acc t; simpl.
  - split; [now left | intros [H|(iv & [] & _)]; auto].
  - rewrite IH. destruct (producer (tg_nodes g) iv) as [pr|] eqn:Epr.
    + destruct (is_T pr && permeq (perm_of pr) (as_fwd st)) eqn:Ec.
      * rewrite In_addn. apply andb_prop in Ec as [E1 E2]. split.
        -- intros [[->|H]|(iv0 & Hiv0 & Hrest)]; [right; exists iv; auto | now left | right; exists iv0; auto].
        -- intros [H|(iv0 & [<-|Hiv0] & Hp & Hrest)]; [left; now right | left; left; congruence | right; exists iv0; auto].
      * split.
        -- intros [H|(iv0 & Hiv0 & Hrest)]; [now left | right; exists iv0; auto].
        -- intros [H|(iv0 & [<-|Hiv0] & Hp & HT & Hpe)]; [now left | | right; exists iv0; auto].
           rewrite Epr in Hp. injection Hp as ->. rewrite HT, Hpe in Ec. discriminate.
    + split.
      * intros [H|(iv0 & Hiv0 & Hrest)]; [now left | right; exists iv0; auto].
      * intros [H|(iv0 & [<-|Hiv0] & Hp & Hrest)]; [now left | congruence | right; exists iv0; auto].
Qed.

Lemma add_outs_spec g st : forall chain acc t,
  In t (fold_left (fun acc n => match out1 n with
                                | Some o => fold_left (fun a c => addn c a)
                                              (filter (fun c => is_T c && permeq (perm_of c) (as_inv st)) (consumers (tg_nodes g) o)) acc
                                | None => acc end) chain acc) <->
  In t acc \/ exists n o, In n chain /\ out1 n = Some o /\ In t (consumers (tg_nodes g) o) /\ is_T t = true /\ permeq (perm_of t) (as_inv st) = true.
Proof.
  induction chain as [|n r IH]; intros acc t; simpl.
  - split; [now left | intros [H|(n & o & [] & _)]; auto].
  - rewrite IH. destruct (out1 n) as [o|] eqn:Eo.
    + rewrite In_fold_addn, filter_In. split.
      * intros [[H|[Hc Hk]]|(n0 & o0 & Hn0 & Hrest)]; [now left | | right; exists n0, o0; tauto].
        apply andb_prop in Hk as [H1 H2]. right. exists n, o. auto.
      * intros [H|(n0 & o0 & [<-|Hn0] & Ho0 & Hc & HT & Hpe)]; [left; now left | | right; exists n0, o0; auto].
        rewrite Eo in Ho0. injection Ho0 as <-. left. right. split; auto. now rewrite HT, Hpe.
    + split.
      * intros [H|(n0 & o0 & Hn0 & Hrest)]; [now left | right; exists n0, o0; tauto].
      * intros [H|(n0 & o0 & [<-|Hn0] & Ho0 & Hrest)]; [now left | congruence | right; exists n0, o0; auto].
Qed.

Lemma permeq_eq a b : permeq a (Some b) = true -> a = Some b.
Proof. unfold permeq. destruct a as [x|]; [|discriminate]. intro H. apply leqb_eq in H. now subst. Qed.
Lemma permeq_eq' a b : permeq (Some b) a = true -> a = Some b.
Proof. unfold permeq. destruct a as [x|]; [|discriminate]. intro H. apply leqb_eq in H. now subst. Qed.

Record add_facts (g : tgraph) (st : addst) (p q : list nat) : Prop := {
  af_fwd : as_fwd st = Some p;
  af_inv' : as_inv st = Some q;
  af_ok : inv_ok p q = true;
  af_members : forall c, In c (as_chain st) -> add_member_ok g st c;
  af_guard : forall c iv pr s pp, In c (as_chain st) -> In iv (n_ins c) -> producer (tg_nodes g) iv = Some pr -> is_T pr = true ->
      perm_of pr = Some p -> first_in pr = Some s -> producer (tg_nodes g) s = Some pp -> ~ In pp (as_chain st);
  af_caps : forall n, In n (as_chain st ++ r_ts (add_region g st) ++ r_outs (add_region g st)) -> n_caps n = [] }.

Lemma decide_add_facts g start st : In start (tg_nodes g) -> decide_add g start = Some st -> exists p q, add_facts g st p q.
Proof.
  intros Hstart H. unfold decide_add in H. destruct (is_add start); [|discriminate]. cbn [negb] in H.
  destruct (add_walk g (S (length (tg_nodes g))) None start (mkAS [] None None)) as [st0|] eqn:Ew; [|discriminate].
  destruct (as_chain st0) as [|c0 cr] eqn:Ech; [discriminate|]. destruct (as_fwd st0) as [pf|] eqn:Ef; [|discriminate].
  destruct (as_inv st0) as [pi|] eqn:Ei; [|discriminate].
  match type of H with (if ?c then _ else _) = _ => destruct c eqn:Ecnd; [|discriminate] end. injection H as <-.
  apply andb_prop in Ecnd as [Ecnd Hguard]. apply andb_prop in Ecnd as [Hinv Hcaps]. apply negb_true_iff in Hguard.
  destruct (add_walk_spec g _ _ _ _ _ Ew Hstart) as (new & Hnew & _ & _ & _ & Hmem); [intros pv Hpv; discriminate|].
  simpl in Hnew. exists pf, pi. constructor; auto.
  - intros c Hc. apply Hmem. now rewrite <- Hnew.
  - intros c iv pr s pp Hc Hiv Hpr HT Hpp Hs Hps Hin.
    rewrite <- Ech in Hguard. match type of Hguard with ?X = false => assert (X = true); [|congruence] end.
    apply existsb_exists. exists c. split; auto. apply existsb_exists. exists iv. split; auto.
    rewrite Hpr, HT, Hpp, Hs, Hps. simpl. unfold leqb.
    assert (Hl : forall l, list_eqb Nat.eqb l l = true) by (induction l as [|x l IH]; simpl; [reflexivity | now rewrite Nat.eqb_refl]).
    rewrite Hl. simpl. now apply memn_In.
  - intros n Hn. rewrite <- Ech in Hcaps. rewrite forallb_forall in Hcaps. specialize (Hcaps n Hn). unfold no_caps in Hcaps. destruct (n_caps n); [reflexivity|discriminate].
Qed.

Lemma producer_complete ns n x : NoDup (defs ns) -> In n ns -> In x (n_outs n) -> producer ns x = Some n.
Proof.
  intros Hnd Hn Hx. unfold producer. destruct (find _ ns) as [m|] eqn:E.
  - apply find_some in E as [Hm Hk]. apply existsb_exists in Hk as (z & Hz & Ez). apply Nat.eqb_eq in Ez. subst z.
    f_equal. exact (defs_unique ns m n x Hnd Hm Hn Hz Hx).
  - exfalso. pose proof (find_none _ _ E n Hn) as H. simpl in H.
    assert (existsb (Nat.eqb x) (n_outs n) = true) by (apply existsb_exists; exists x; split; auto; apply Nat.eqb_refl). congruence.
Qed.

Lemma pwn_rank_le {A} (F : list A -> A) (vs : list (tensor A)) k : Forall (fun v => length (shape v) <= k) vs ->
  length (shape (pwn F vs)) <= k.
Proof.
  intro H. pose proof (prank_le _ _ H) as Hp. unfold pwn, full_shape. cbn [shape].
  destruct (find (fun v => negb (all1 (shape v))) vs) as [y|] eqn:E.
  - apply find_some in E as [Hy _]. rewrite Forall_forall in H. specialize (H y Hy). rewrite app_length, repeat_length. lia.
  - rewrite app_length, repeat_length. simpl. lia.
Qed.

Lemma is_add_elem n : is_add n = true -> is_elem n = true.
Proof. unfold is_add, is_elem. intro H. apply String.eqb_eq in H. rewrite H. vm_compute. reflexivity. Qed.
Lemma add_is_pw n : is_add n = true -> str_in (nop n) pw_ops_all = true.
Proof. unfold is_add. intro H. apply String.eqb_eq in H. rewrite H. vm_compute. reflexivity. Qed.

Section AddSound.
  Variable A : Type.
  Notation V := (tensor A).
  Variable sem : string -> list nat -> list V -> option (list V).
  Hypothesis sem_proper : forall op ats vs vs' o, Forall2 teq vs vs' -> sem op ats vs = Some o ->
    exists o', sem op ats vs' = Some o' /\ Forall2 teq o o'.
  Hypothesis Htr : sem_transpose_spec A sem op_type.
  Variable F : string -> list nat -> list A -> A.
  Hypothesis Hpw : sem_pointwise_spec_g A sem op_type F.
  Variable Fcl : list nat -> V -> A -> A.
  Hypothesis Hcl : sem_castlike_spec_n A sem op_type Fcl.
  Hypothesis Hcl_type : castlike_type_only A Fcl.
  Hypothesis Hacc : sem_accepts_spec_g A sem op_type.
  Notation evalg := (eval V sem).
  Notation stepg := (step V sem).
  Notation refinesg := (refines V teq sem).
  Notation tadmissible := (tadmissible A sem).

  Variables (g : tgraph) (st : addst) (p q : list nat) (e ef : env V).
  Hypothesis Haf : add_facts g st p q.
  Hypothesis Hadm : tadmissible g e.
  Hypothesis Hev : evalg (tg_nodes g) e = Some ef.
  Let Hssa := tadm_ssa _ _ _ _ Hadm.
  Let Hnd : NoDup (defs (tg_nodes g)) := proj1 Hssa.
  Let r := add_region g st.

  Lemma a_es_in c : In c (as_chain st) -> In c (tg_nodes g) /\ is_elem c = true /\ n_caps c = [] /\ is_add c = true.
  Proof.
    intro Hc. destruct (af_members _ _ _ _ Haf c Hc) as (H1 & H2 & _). repeat split; auto; [now apply is_add_elem|].
    apply (af_caps _ _ _ _ Haf). apply in_or_app. now left.
  Qed.
  Lemma a_es_val c : In c (as_chain st) ->
    exists vs yv, n_outs c = [out_of c] /\ lookups V ef (n_ins c) = Some vs /\ ef (out_of c) = Some yv /\
      forall v, In v vs -> length (shape v) <= length (shape yv).
  Proof.
    intro Hc. destruct (a_es_in c Hc) as (H1 & H2 & H3 & H4).
    destruct (elem_val A sem F Hpw Fcl Hcl g e ef c Hadm Hev H1 H2 H3) as (vs & yv & Ho & Hl & Ey & [(Hcl0 & _)|(_ & Hle)]).
    - unfold is_add in H4. apply String.eqb_eq in H4. rewrite H4 in Hcl0. discriminate.
    - exists vs, yv. auto.
  Qed.

  Lemma a_T_val t pt : In t (tg_nodes g) -> is_T t = true -> perm_of t = Some pt -> n_caps t = [] ->
    n_outs t = [out_of t] /\ exists x vx vy, n_ins t = [x] /\ ef x = Some vx /\ ef (out_of t) = Some vy /\
      teq vy (transpose pt vx) /\ length pt = length (shape vx).
  Proof.
    intros Hin HT Hpt Hcaps.
    destruct (tnode_final A sem Htr g e ef t pt Hadm Hev Hin HT Hpt) as (u & y & x & vy & Eu & Eo & Ex & Ey & Ht & Hl).
    unfold n_uses in Eu. rewrite Hcaps, app_nil_r in Eu. unfold out_of. rewrite Eo. split; auto. exists u, x, vy. auto.
  Qed.

  Lemma a_ts t : In t (r_ts r) -> In t (tg_nodes g) /\ is_T t = true /\ perm_of t = Some p /\ n_caps t = [] /\
    exists c iv, In c (as_chain st) /\ In iv (n_ins c) /\ producer (tg_nodes g) iv = Some t.
  Proof.
    intro Ht. pose proof Ht as Ht0. cbn [r add_region r_ts] in Ht. apply add_ts_spec in Ht as [[]|(iv & Hiv & Hp & HT & Hpe)].
    rewrite (af_fwd _ _ _ _ Haf) in Hpe. apply permeq_eq in Hpe.
    apply in_flat_map in Hiv as (c & Hc & Hivc). destruct (producer_spec _ _ _ Hp) as [Hin _].
    repeat split; auto; [|eauto]. apply (af_caps _ _ _ _ Haf). apply in_or_app. right. apply in_or_app. now left.
  Qed.
  Lemma a_outs t : In t (r_outs r) -> In t (tg_nodes g) /\ is_T t = true /\ perm_of t = Some q /\ n_caps t = [] /\
    exists c, In c (as_chain st) /\ In (out_of c) (n_ins t).
  Proof.
    intro Ht. pose proof Ht as Ht0. cbn [r add_region r_outs] in Ht. apply add_outs_spec in Ht as [[]|(c & o & Hc & Ho & Hcons & HT & Hpe)].
    rewrite (af_inv' _ _ _ _ Haf) in Hpe. apply permeq_eq in Hpe.
    unfold consumers in Hcons. apply filter_In in Hcons as [Hin Hread].
    apply existsb_exists in Hread as (z & Hz & E). apply Nat.eqb_eq in E. subst z.
    destruct (a_es_val c Hc) as (_ & _ & Hco & _). unfold out1 in Ho. rewrite Hco in Ho. simpl in Ho. injection Ho as <-.
    repeat split; auto; [|eauto]. apply (af_caps _ _ _ _ Haf). apply in_or_app. right. apply in_or_app. now right.
  Qed.

  Lemma add_region_facts : region_facts g r p q.
  Proof.
    constructor.
    - exact (af_ok _ _ _ _ Haf).
    - intros c Hc. cbn [r add_region r_es] in Hc. destruct (a_es_in c Hc) as (H1 & H2 & H3 & _). destruct (a_es_val c Hc) as (_ & _ & Ho & _). auto.
    - intros c u Hc Hu. cbn [r add_region r_es] in Hc. destruct (af_members _ _ _ _ Haf c Hc) as (_ & _ & Hins & _).
      destruct (Hins u Hu) as (pr & Hpr & [Hin|(HT & pp & Hpp & Hfw)]).
      + left. unfold outs_of. cbn [r add_region r_es]. apply in_map_iff. exists pr. split; auto.
        destruct (a_es_val pr Hin) as (_ & _ & Ho & _). apply producer_spec in Hpr as [_ Hu']. rewrite Ho in Hu'. destruct Hu' as [E|[]]. exact E.
      + right. left. exists pr. rewrite (af_fwd _ _ _ _ Haf) in Hfw. injection Hfw as <-.
        assert (Hts : In pr (r_ts r)).
        { cbn [r add_region r_ts]. apply add_ts_spec. right. exists u. repeat split; auto.
          - apply in_flat_map. eauto.
          - rewrite Hpp, (af_fwd _ _ _ _ Haf). unfold permeq, leqb.
            assert (Hl : forall l, list_eqb Nat.eqb l l = true) by (induction l as [|x l IH]; simpl; [reflexivity | now rewrite Nat.eqb_refl]). apply Hl. }
        split; auto. destruct (a_ts pr Hts) as (H1 & H2 & H3 & H4 & _). destruct (a_T_val pr p H1 H2 H3 H4) as (Ho & _).
        apply producer_spec in Hpr as [_ Hu']. rewrite Ho in Hu'. destruct Hu' as [E|[]]. exact E.
    - intros t Ht. destruct (a_ts t Ht) as (H1 & H2 & H3 & H4 & c & iv & Hc & Hiv & Hpr).
      destruct (a_T_val t p H1 H2 H3 H4) as (Ho & x & _ & _ & Hx & _). repeat split; auto. exists x.
      split; [exact Hx|]. split; [exact H4|]. split; [|cbn [r add_region r_dead outs_of map]; intros []].
      intro HxD. unfold outs_of in HxD. cbn [r add_region r_es] in HxD. apply in_map_iff in HxD as (c' & Ec' & Hc').
      destruct (a_es_in c' Hc') as (Hin' & _). destruct (a_es_val c' Hc') as (_ & _ & Ho' & _).
      assert (Hpp : producer (tg_nodes g) x = Some c') by (apply producer_complete; auto; rewrite Ho', Ec'; now left).
      refine (af_guard _ _ _ _ Haf c iv t x c' Hc Hiv Hpr H2 H3 _ Hpp Hc'). unfold first_in. now rewrite Hx.
    - intros t Ht. destruct (a_outs t Ht) as (H1 & H2 & H3 & H4 & c & Hc & Hread).
      destruct (a_T_val t q H1 H2 H3 H4) as (Ho & x & _ & _ & Hx & _). repeat split; auto. exists x. repeat split; auto.
      rewrite Hx in Hread. destruct Hread as [E|[]]. rewrite E. unfold outs_of. cbn [r add_region r_es]. apply in_map_iff. eauto.
    - intros t Ht Hto. destruct (a_ts t Ht) as (H1 & H2 & H3 & H4 & c & iv & Hc & Hiv & Hpr).
      destruct (a_T_val t p H1 H2 H3 H4) as (Ho & x & _ & _ & Hx & _).
      destruct (a_outs t Hto) as (_ & _ & _ & _ & c' & Hc' & Hread). rewrite Hx in Hread. destruct Hread as [E|[]].
      destruct (a_es_in c' Hc') as (Hin' & _). destruct (a_es_val c' Hc') as (_ & _ & Ho' & _).
      assert (Hpp : producer (tg_nodes g) x = Some c') by (apply producer_complete; auto; rewrite Ho', E; now left).
      refine (af_guard _ _ _ _ Haf c iv t x c' Hc Hiv Hpr H2 H3 _ Hpp Hc'). unfold first_in. now rewrite Hx.
    - intros t Ht. cbn [r add_region r_dead] in Ht. destruct Ht.
    - intros y Hy. unfold outs_of in Hy. cbn [r add_region r_es] in Hy. apply in_map_iff in Hy as (c & <- & Hc).
      destruct (af_members _ _ _ _ Haf c Hc) as (_ & _ & _ & out & Ho & Hobs & _). destruct (a_es_val c Hc) as (_ & _ & Hco & _).
      unfold out1 in Ho. rewrite Hco in Ho. simpl in Ho. injection Ho as <-. now apply tobserved_false.
    - intros y m Hy Hm Hym. unfold outs_of in Hy. cbn [r add_region r_es] in Hy. apply in_map_iff in Hy as (c & <- & Hc).
      destruct (af_members _ _ _ _ Haf c Hc) as (_ & _ & _ & out & Ho & _ & Hcons). destruct (a_es_val c Hc) as (_ & _ & Hco & _).
      assert (Ho1 : out1 c = Some (out_of c)) by (unfold out1; now rewrite Hco). rewrite Ho1 in Ho. injection Ho as <-.
      assert (Hmc : In m (consumers (tg_nodes g) (out_of c))).
      { unfold consumers. apply filter_In. split; auto. apply existsb_exists. exists (out_of c). split; auto. apply Nat.eqb_refl. }
      destruct (Hcons m Hmc) as [Hin|(HT & pp & Hpp & Hiv)]; [left; exact Hin|]. right.
      cbn [r add_region r_outs]. apply add_outs_spec. right. exists c, (out_of c). repeat split; auto.
      rewrite Hpp, Hiv. unfold permeq, leqb.
      assert (Hl : forall l, list_eqb Nat.eqb l l = true) by (induction l as [|x l IH]; simpl; [reflexivity | now rewrite Nat.eqb_refl]). apply Hl.
  Qed.

  (* a name is defined before it is read *)
  Lemma def_before_use pre n post u pr : tg_nodes g = pre ++ n :: post -> In u (n_uses n) -> In pr (tg_nodes g) -> In u (n_outs pr) -> In pr pre.
  Proof.
    intros Hsplit Hu Hpr Huo. rewrite Hsplit in Hpr. apply in_app_or in Hpr as [H|H]; auto. exfalso.
    pose proof Hev as Hev'. rewrite Hsplit, (eval_app V sem) in Hev'. destruct (evalg pre e) as [em|] eqn:Epre; [|discriminate]. simpl in Hev'.
    destruct (stepg em n) as [e1|] eqn:Es; [|discriminate].
    assert (Hdef : em u <> None).
    { unfold step in Es. destruct (lookups V em (n_uses n)) as [vs|] eqn:El; [|discriminate]. exact (lookups_defined V em _ _ u El Hu). }
    apply Hdef. pose proof (proj1 Hssa) as Hnd0. pose proof (proj2 Hssa) as Hfree.
    rewrite Hsplit in Hnd0, Hfree. unfold defs in Hnd0, Hfree. rewrite flat_map_app in Hnd0, Hfree.
    assert (Hud : In u (flat_map n_outs (n :: post))) by (apply in_flat_map; eauto).
    apply (eval_undefined V sem pre e em u Epre).
    - apply Hfree. apply in_or_app. now right.
    - intro Hp. exact (NoDup_app_disj _ _ u Hnd0 Hp Hud).
  Qed.

  Lemma add_operand_rank (P : node -> Prop) c u v : In c (as_chain st) -> In u (n_ins c) -> ef u = Some v ->
    (forall pr, In pr (as_chain st) -> In u (n_outs pr) -> P pr) ->
    (forall pr yv, P pr -> In pr (as_chain st) -> ef (out_of pr) = Some yv -> length (shape yv) <= length p) ->
    length (shape v) <= length p.
  Proof.
    intros Hc Hu Ev HP Hrk. destruct (af_members _ _ _ _ Haf c Hc) as (_ & _ & Hins & _).
    destruct (Hins u Hu) as (pr & Hpr & [Hin|(HT & pp & Hpp & Hfw)]); apply producer_spec in Hpr as [Hprin Huo].
    - destruct (a_es_val pr Hin) as (_ & _ & Ho & _). pose proof Huo as Huo'. rewrite Ho in Huo'. destruct Huo' as [E|[]]. subst u.
      exact (Hrk pr v (HP pr Hin Huo) Hin Ev).
    - rewrite (af_fwd _ _ _ _ Haf) in Hfw. injection Hfw as <-.
      assert (Hcaps : n_caps pr = []).
      { apply (af_caps _ _ _ _ Haf). apply in_or_app. right. apply in_or_app. left. cbn [add_region r_ts]. apply add_ts_spec. right.
        exists u. repeat split; auto; [apply in_flat_map; eauto | | ].
        - apply producer_complete; auto.
        - rewrite Hpp, (af_fwd _ _ _ _ Haf). unfold permeq, leqb.
          assert (Hl : forall l, list_eqb Nat.eqb l l = true) by (induction l as [|x l IH]; simpl; [reflexivity | now rewrite Nat.eqb_refl]). apply Hl. }
      destruct (a_T_val pr p Hprin HT Hpp Hcaps) as (Ho & x & vx & vy & Hx & Ex & Ey & Ht & Hl).
      rewrite Ho in Huo. destruct Huo as [E|[]]. subst u. rewrite Ev in Ey. injection Ey as ->.
      rewrite (proj1 Ht). simpl. rewrite gather_length. auto.
  Qed.

  Lemma add_rank_forward : forall pre post, tg_nodes g = pre ++ post -> forall c yv, In c (as_chain st) -> In c pre ->
    ef (out_of c) = Some yv -> length (shape yv) <= length p.
  Proof.
    induction pre as [|n l IH] using rev_ind; intros post Hsplit c yv Hc Hcp Ey; [contradiction|].
    rewrite <- app_assoc in Hsplit. simpl in Hsplit. apply in_app_or in Hcp as [Hcp|[<-|[]]]; [exact (IH _ Hsplit c yv Hc Hcp Ey)|].
    destruct (a_es_in n Hc) as (Hnin & Hel & Hcaps & Hadd).
    destruct (eval_consistent V sem _ _ _ n Hssa Hev Hnin) as (vs & o & Hl & Hs & Hlo).
    destruct (Hpw _ _ _ _ (add_is_pw n Hadd) Hs) as (_ & y & -> & Hy).
    destruct (a_es_val n Hc) as (_ & _ & Hno & _). rewrite Hno in Hlo. simpl in Hlo. rewrite Ey in Hlo. injection Hlo as ->.
    rewrite (proj1 Hy), pwg_rank. apply prank_le.
    unfold n_uses in Hl. rewrite Hcaps, app_nil_r in Hl.
    apply (lookups_Forall V _ ef (n_ins n) vs Hl). intros u w Hu Ew.
    apply (add_operand_rank (fun pr => In pr l) n u w Hc Hu Ew).
    - intros pr Hpr Huo. destruct (a_es_in pr Hpr) as (Hprin & _). apply (def_before_use l n post u pr Hsplit); auto.
      unfold n_uses. apply in_or_app. now left.
    - intros pr yv0 Hprl Hpr E0. exact (IH _ Hsplit pr yv0 Hpr Hprl E0).
  Qed.

  Lemma add_run : refinesg (tg_graph g) (tg_graph (apply_add g st)) e.
  Proof.
    apply (region_run A sem sem_proper Htr F Hpw Fcl Hcl Hcl_type Hacc g r p q e ef Hadm add_region_facts Hev).
    intros n u v Hn _ Hu Ev. cbn [r add_region r_es] in Hn.
    apply (add_operand_rank (fun _ => True) n u v Hn Hu Ev); auto.
    intros pr yv _ Hpr E0. destruct (a_es_in pr Hpr) as (Hprin & _).
    apply (add_rank_forward (tg_nodes g) [] (eq_sym (app_nil_r _)) pr yv Hpr Hprin E0).
  Qed.

  Lemma add_admissible : tadmissible (apply_add g st) e.
  Proof.
    apply (region_admissible A sem sem_proper Htr F Hpw Fcl Hcl Hcl_type Hacc g r p q e ef Hadm add_region_facts Hev).
    intros n u v Hn _ Hu Ev. cbn [r add_region r_es] in Hn.
    apply (add_operand_rank (fun _ => True) n u v Hn Hu Ev); auto.
    intros pr yv _ Hpr E0. destruct (a_es_in pr Hpr) as (Hprin & _).
    apply (add_rank_forward (tg_nodes g) [] (eq_sym (app_nil_r _)) pr yv Hpr Hprin E0).
  Qed.
  Lemma add_frame : frame3 A sem (tg_nodes (apply_add g st)) (map out_of (as_chain st)) e ef.
  Proof.
    apply (region_frame A sem sem_proper Htr F Hpw Fcl Hcl Hcl_type Hacc g r p q e ef Hadm add_region_facts Hev).
    intros n u v Hn _ Hu Ev. cbn [r add_region r_es] in Hn.
    apply (add_operand_rank (fun _ => True) n u v Hn Hu Ev); auto.
    intros pr yv _ Hpr E0. destruct (a_es_in pr Hpr) as (Hprin & _).
    apply (add_rank_forward (tg_nodes g) [] (eq_sym (app_nil_r _)) pr yv Hpr Hprin E0).
  Qed.
End AddSound.

(* ================================================================ every action kind of the pass *)
(* what remains excluded (exact, decidable on the annotated graph; none of them was ever produced by the real pass on the
   graphs of the tie, and each is sound in reality — the semantic hypotheses just do not reach them):
     TForest : a CastLike member whose TYPE operand is not a one-element constant (a region value used as a mere type)
     TChain  : CastLike(constant, chain value)
     TDag    : a single-source DAG with elementwise members (the forest phase, which runs first, subsumes it) *)
Definition proved_kind_all (g : tgraph) (a : taction) : bool :=
  match a with
  | TAddChain _ => true
  | TForest f => castlike_types_scalar g (f_es f)
  | _ => proved_kind a
  end.

Section AllKinds.
  Variable A : Type.
  Notation V := (tensor A).
  Variable sem : string -> list nat -> list V -> option (list V).
  Hypothesis sem_proper : forall op ats vs vs' o, Forall2 teq vs vs' -> sem op ats vs = Some o ->
    exists o', sem op ats vs' = Some o' /\ Forall2 teq o o'.
  Hypothesis Htr : sem_transpose_spec A sem op_type.
  Variable F : string -> list nat -> list A -> A.
  Hypothesis Hpw : sem_pointwise_spec_g A sem op_type F.
  Variable Fcl : list nat -> V -> A -> A.
  Hypothesis Hcl : sem_castlike_spec_n A sem op_type Fcl.
  Hypothesis Hcl_type : castlike_type_only A Fcl.
  Hypothesis Hacc : sem_accepts_spec_g A sem op_type.
  Notation evalg := (eval V sem).
  Notation refinesg := (refines V teq sem).

  Notation tadmissible := (tadmissible A sem).
  (* the restricted reading of the pointwise operators the chain folds use follows from the general one *)
  Let Hpwa : sem_pointwise_spec_a A sem op_type F := spec_g_a A sem op_type F Hpw.
  Let Hacca : sem_accepts_spec_a A sem op_type := accepts_g_a A sem op_type Hacc.

  Theorem transpose_pair_action_sound_all g act e : tadmissible g e -> decide_step g = Some act -> proved_kind_all g act = true ->
    refinesg (tg_graph g) (tg_graph (apply_taction g act)) e.
  Proof.
    intros Hadm Hdec Hk.
    assert (Hold : proved_kind act = true -> refinesg (tg_graph g) (tg_graph (apply_taction g act)) e).
    { intro Hk'. exact (transpose_pair_action_sound A sem sem_proper Htr F (spec_a_n A sem op_type F Hpwa) Fcl Hcl Hcl_type
                          (accepts_a_n A sem op_type Hacca) g act e Hadm Hdec Hk'). }
    destruct act as [st|f|d|a|src a0 b]; try (apply Hold; exact Hk).
    - (* Add chain *)
      unfold decide_step in Hdec. destruct (first_some (decide_add g) (tg_nodes g)) as [st'|] eqn:Efs.
      2:{ destruct (first_some (decide_forest g) (tg_nodes g)); [discriminate|]. destruct (first_some (decide_dag g) (tg_nodes g)); [discriminate|].
          apply first_some_spec in Hdec as (T1 & _ & Hd). apply decide_D_kind in Hd. contradiction. }
      injection Hdec as <-. apply first_some_spec in Efs as (start & Hstart & Hd).
      destruct (decide_add_facts g start st' Hstart Hd) as (p & q & Haf).
      intros o Hrun. assert (Hev : exists ef, evalg (tg_nodes g) e = Some ef).
      { unfold run in Hrun. simpl in Hrun. destruct (evalg (tg_nodes g) e); [eauto|discriminate]. }
      destruct Hev as [ef Hev].
      exact (add_run A sem sem_proper Htr F Hpw Fcl Hcl Hcl_type Hacc g st' p q e ef Haf Hadm Hev o Hrun).
    - (* forest *)
      unfold decide_step in Hdec. destruct (first_some (decide_add g) (tg_nodes g)); [discriminate|].
      destruct (first_some (decide_forest g) (tg_nodes g)) as [f'|] eqn:Efs.
      2:{ destruct (first_some (decide_dag g) (tg_nodes g)); [discriminate|].
          apply first_some_spec in Hdec as (T1 & _ & Hd). apply decide_D_kind in Hd. contradiction. }
      injection Hdec as <-. apply first_some_spec in Efs as (t2 & Ht2 & Hd).
      destruct (decide_forest_facts g t2 f' Hd) as (v0 & p & q & Hff).
      intros o Hrun. assert (Hev : exists ef, evalg (tg_nodes g) e = Some ef).
      { unfold run in Hrun. simpl in Hrun. destruct (evalg (tg_nodes g) e); [eauto|discriminate]. }
      destruct Hev as [ef Hev]. simpl in Hk.
      exact (forest_run A sem sem_proper Htr F Hpw Fcl Hcl Hcl_type Hacc g t2 f' v0 p q e ef Hff Hadm Hev Hk o Hrun).
  Qed.

  Lemma tadm_transport g1 g2 e : tg_nodes g1 = tg_nodes g2 -> tg_scalar g1 = tg_scalar g2 -> tadmissible g1 e -> tadmissible g2 e.
  Proof.
    intros Hn Hs [H1 H2]. constructor; [now rewrite <- Hn | intros ef x v; rewrite <- Hn, <- Hs; apply H2].
  Qed.

  (* what the pass reads (SSA, one-element flags) is preserved by every action of a proved kind *)
  Theorem transpose_pair_action_admissible g act e ef : tadmissible g e -> evalg (tg_nodes g) e = Some ef ->
    decide_step g = Some act -> proved_kind_all g act = true -> tadmissible (apply_taction g act) e.
  Proof.
    intros Hadm Hev Hdec Hk. unfold decide_step in Hdec.
    destruct (first_some (decide_add g) (tg_nodes g)) as [st|] eqn:Eadd.
    { injection Hdec as <-. apply first_some_spec in Eadd as (start & Hstart & Hd).
      destruct (decide_add_facts g start st Hstart Hd) as (p & q & Haf).
      exact (add_admissible A sem sem_proper Htr F Hpw Fcl Hcl Hcl_type Hacc g st p q e ef Haf Hadm Hev). }
    destruct (first_some (decide_forest g) (tg_nodes g)) as [f|] eqn:Efor.
    { injection Hdec as <-. apply first_some_spec in Efor as (t2 & Ht2 & Hd).
      destruct (decide_forest_facts g t2 f Hd) as (v0 & p & q & Hff). simpl in Hk.
      exact (forest_admissible A sem sem_proper Htr F Hpw Fcl Hcl Hcl_type Hacc g t2 f v0 p q e ef Hff Hadm Hev Hk). }
    pose proof (spec_a_n A sem op_type F Hpwa) as Hpwn. pose proof (accepts_a_n A sem op_type Hacca) as Haccn.
    destruct (first_some (decide_dag g) (tg_nodes g)) as [d|] eqn:Edag.
    { injection Hdec as <-. apply first_some_spec in Edag as (t2 & Ht2 & Hd).
      assert (Ht2d : d_T2 d = t2).
      { unfold decide_dag in Hd. destruct (is_T t2); [|discriminate]. cbn [negb] in Hd.
        destruct (first_in t2); [|discriminate]. destruct (perm_of t2); [|discriminate].
        destruct (collect _ _ _ _ _ _) as [[[|T1 [|]] es]|]; try discriminate.
        destruct (node_eqb T1 t2); [discriminate|]. destruct (perm_of T1); [|discriminate]. destruct (out1 T1); [|discriminate].
        destruct (first_in T1); [|discriminate]. destruct (n_outs t2); [discriminate|]. destruct (_ && _); [|discriminate].
        now injection Hd as <-. }
      simpl in Hk. destruct (d_es d) eqn:Ees; [|discriminate]. rewrite <- Ht2d in Ht2, Hd.
      destruct (tdag_direct_facts A sem Htr g d e ef Hadm Ht2 Hd Ees Hev) as (T1 & p & q & a & Htf & Hch & Heq).
      assert (Hdf : castlike_data_first (ac_t1 a) (ac_chain a) = true) by (now rewrite Hch).
      pose proof (tchain_admissible A sem sem_proper Htr F Hpwn Fcl Hcl Hcl_type Haccn g a T1 (d_T2 d) p q e ef Hadm Htf Hdf Hev) as Hpres.
      cbn [apply_taction].
      change (tg_graph g) with (mkGraph (tg_nodes g) (tg_outputs g)) in Heq.
      rewrite (rewire_eq _ _ a T1 (d_T2 d) (proj1 (tadm_ssa _ _ _ _ Hadm)) (tf_struct _ _ _ _ _ _ Htf)) in Heq.
      refine (tadm_transport _ (apply_dag g d) e _ _ (proj1 Hpres)).
      - cbn [tg_nodes]. symmetry. exact (f_equal g_nodes Heq).
      - cbn [tg_scalar]. unfold apply_dag. destruct (out1 (d_T1 d)); [|reflexivity]. destruct (first_in (d_T1 d)); [|reflexivity].
        destruct (out1 (d_T2 d)); [|reflexivity]. destruct (first_in (d_T2 d)); reflexivity. }
    apply first_some_spec in Hdec as (T1 & HT1 & Hd). pose proof (decide_D_kind g T1 act Hd) as Hkind.
    destruct act as [st|f|d|a|src a0 b]; try contradiction.
    - destruct (decide_D_chain_facts g T1 a HT1 Hd) as (T2 & p & q & Htf).
      pose proof (tchain_admissible A sem sem_proper Htr F Hpwn Fcl Hcl Hcl_type Haccn g a T1 T2 p q e ef Hadm Htf Hk Hev) as Hpres.
      cbn [apply_taction].
      refine (tadm_transport _ (apply_chain g a) e _ _ (proj1 Hpres)).
      + cbn [tg_nodes]. symmetry.
        exact (f_equal g_nodes (rewire_eq _ _ a T1 T2 (proj1 (tadm_ssa _ _ _ _ Hadm)) (tf_struct _ _ _ _ _ _ Htf))).
      + reflexivity.
    - destruct (decide_D_multi_facts g T1 src a0 b HT1 Hd) as (T2 & p & q & H2 & HT1' & Hp & Hs & Ho & HT2 & Hq & Hi & Hob & Hinv & Hne).
      destruct (tmulti_admissible A sem sem_proper Htr g e ef T1 T2 p q src a0 b Hadm HT1 H2 HT1' Hp Hs Ho HT2 Hq Hi Hob Hinv Hne Hev) as [H1 H2'].
      exact H1.
  Qed.

  (* the names whose value a fold of each kind may change: the outputs of the members it moves *)
  Definition changed_of (act : taction) : list name :=
    match act with
    | TAddChain st => map out_of (as_chain st)
    | TForest f => map out_of (f_es f)
    | TDag d => map out_of (d_es d)
    | TChain a => chain_outs a
    | TMulti _ _ _ => []
    end.

  Theorem transpose_pair_action_frame g act e ef : tadmissible g e -> evalg (tg_nodes g) e = Some ef ->
    decide_step g = Some act -> proved_kind_all g act = true -> frame3 A sem (tg_nodes (apply_taction g act)) (changed_of act) e ef.
  Proof.
    intros Hadm Hev Hdec Hk. unfold decide_step in Hdec.
    destruct (first_some (decide_add g) (tg_nodes g)) as [st|] eqn:Eadd.
    { injection Hdec as <-. apply first_some_spec in Eadd as (start & Hstart & Hd).
      destruct (decide_add_facts g start st Hstart Hd) as (p & q & Haf).
      exact (add_frame A sem sem_proper Htr F Hpw Fcl Hcl Hcl_type Hacc g st p q e ef Haf Hadm Hev). }
    destruct (first_some (decide_forest g) (tg_nodes g)) as [f|] eqn:Efor.
    { injection Hdec as <-. apply first_some_spec in Efor as (t2 & Ht2 & Hd).
      destruct (decide_forest_facts g t2 f Hd) as (v0 & p & q & Hff). simpl in Hk.
      exact (forest_frame A sem sem_proper Htr F Hpw Fcl Hcl Hcl_type Hacc g t2 f v0 p q e ef Hff Hadm Hev Hk). }
    pose proof (spec_a_n A sem op_type F Hpwa) as Hpwn. pose proof (accepts_a_n A sem op_type Hacca) as Haccn.
    destruct (first_some (decide_dag g) (tg_nodes g)) as [d|] eqn:Edag.
    { injection Hdec as <-. apply first_some_spec in Edag as (t2 & Ht2 & Hd).
      assert (Ht2d : d_T2 d = t2).
      { unfold decide_dag in Hd. destruct (is_T t2); [|discriminate]. cbn [negb] in Hd.
        destruct (first_in t2); [|discriminate]. destruct (perm_of t2); [|discriminate].
        destruct (collect _ _ _ _ _ _) as [[[|T1 [|]] es]|]; try discriminate.
        destruct (node_eqb T1 t2); [discriminate|]. destruct (perm_of T1); [|discriminate]. destruct (out1 T1); [|discriminate].
        destruct (first_in T1); [|discriminate]. destruct (n_outs t2); [discriminate|]. destruct (_ && _); [|discriminate].
        now injection Hd as <-. }
      simpl in Hk. destruct (d_es d) eqn:Ees; [|discriminate]. rewrite <- Ht2d in Ht2, Hd.
      destruct (tdag_direct_facts A sem Htr g d e ef Hadm Ht2 Hd Ees Hev) as (T1 & p & q & a & Htf & Hch & Heq).
      assert (Hdf : castlike_data_first (ac_t1 a) (ac_chain a) = true) by (now rewrite Hch).
      pose proof (tchain_frame A sem sem_proper Htr F Hpwn Fcl Hcl Hcl_type Haccn g a T1 (d_T2 d) p q e ef Hadm Htf Hdf Hev) as Hfr.
      change (tg_graph g) with (mkGraph (tg_nodes g) (tg_outputs g)) in Heq.
      rewrite (rewire_eq _ _ a T1 (d_T2 d) (proj1 (tadm_ssa _ _ _ _ Hadm)) (tf_struct _ _ _ _ _ _ Htf)) in Heq.
      cbn [apply_taction changed_of]. rewrite Ees. cbn [map].
      assert (Hco : chain_outs a = []) by (unfold chain_outs; now rewrite Hch). rewrite Hco in Hfr.
      assert (Hn : tg_nodes (apply_dag g d) = map (subst_map (rho a)) (filter (keep a) (tg_nodes g))) by exact (f_equal g_nodes Heq).
      rewrite Hn. exact Hfr. }
    apply first_some_spec in Hdec as (T1 & HT1 & Hd). pose proof (decide_D_kind g T1 act Hd) as Hkind.
    destruct act as [st|f|d|a|src a0 b]; try contradiction.
    - destruct (decide_D_chain_facts g T1 a HT1 Hd) as (T2 & p & q & Htf).
      pose proof (tchain_frame A sem sem_proper Htr F Hpwn Fcl Hcl Hcl_type Haccn g a T1 T2 p q e ef Hadm Htf Hk Hev) as Hfr.
      cbn [apply_taction changed_of].
      assert (Hn : tg_nodes (apply_chain g a) = map (subst_map (rho a)) (filter (keep a) (tg_nodes g))).
      { exact (f_equal g_nodes (rewire_eq _ _ a T1 T2 (proj1 (tadm_ssa _ _ _ _ Hadm)) (tf_struct _ _ _ _ _ _ Htf))). }
      rewrite Hn. exact Hfr.
    - destruct (decide_D_multi_facts g T1 src a0 b HT1 Hd) as (T2 & p & q & H2 & HT1' & Hp & Hs & Ho & HT2 & Hq & Hi & Hob & Hinv & Hne).
      exact (tmulti_frame A sem sem_proper Htr g e ef T1 T2 p q src a0 b Hadm HT1 H2 HT1' Hp Hs Ho HT2 Hq Hi Hob Hinv Hne Hev).
  Qed.

  (* the purely computational part of what used to be assumed along the loop *)
  Fixpoint kinds_along (fuel : nat) (g : tgraph) : bool :=
    match fuel with
    | O => true
    | S k => match decide_step g with Some act => proved_kind_all g act && kinds_along k (apply_taction g act) | None => true end
    end.

  (* THE PASS, for every graph that is admissible WHEN THE PASS STARTS *)
  Theorem transpose_pair_pass_sound_start : forall fuel g e, tadmissible g e -> kinds_along fuel g = true ->
    refinesg (tg_graph g) (tg_graph (transpose_pair_pass fuel g)) e.
  Proof.
    induction fuel as [|k IH]; simpl; intros g e Hadm Hkinds.
    - apply (refines_refl V teq (@teq_refl A) sem).
    - unfold transpose_pair_step. destruct (decide_step g) as [act|] eqn:Ed; simpl; [|apply (refines_refl V teq (@teq_refl A) sem)].
      apply andb_prop in Hkinds as [Hk Hrest]. intros out Hrun.
      assert (Hev : exists ef, evalg (tg_nodes g) e = Some ef).
      { unfold run in Hrun. simpl in Hrun. destruct (evalg (tg_nodes g) e); [eauto|discriminate]. }
      destruct Hev as [ef Hev].
      pose proof (transpose_pair_action_admissible g act e ef Hadm Hev Ed Hk) as Hadm'.
      revert out Hrun. eapply (refines_trans V teq (@teq_trans A) sem).
      + apply (transpose_pair_action_sound_all g act e Hadm Ed Hk).
      + apply IH; auto.
  Qed.

  Fixpoint tadmissible_along_all (fuel : nat) (g : tgraph) (e : env V) : Prop :=
    tadmissible g e /\
    match fuel with
    | O => True
    | S k => match decide_step g with
             | Some act => proved_kind_all g act = true /\ tadmissible_along_all k (apply_taction g act) e
             | None => True
             end
    end.

  Theorem transpose_pair_pass_sound_all : forall fuel g e, tadmissible_along_all fuel g e ->
    refinesg (tg_graph g) (tg_graph (transpose_pair_pass fuel g)) e.
  Proof.
    induction fuel as [|k IH]; simpl; intros g e [Hadm Hrest].
    - apply (refines_refl V teq (@teq_refl A) sem).
    - unfold transpose_pair_step. destruct (decide_step g) as [act|] eqn:Ed; simpl.
      + destruct Hrest as [Hk Hrest]. eapply (refines_trans V teq (@teq_trans A) sem).
        * apply (transpose_pair_action_sound_all g act e Hadm Ed Hk).
        * apply IH. exact Hrest.
      + apply (refines_refl V teq (@teq_refl A) sem).
  Qed.
End AllKinds.

(* non-vacuity: a forest (two transposed inputs, Mul and Relu, one inverse Transpose) and an Add chain are folded *)
Definition ex_forest : tgraph :=
  mkTG [mkNode "Transpose" [1; 1; 0] [1] [] [3]; mkNode "Transpose" [1; 1; 0] [2] [] [4]; mkNode "Mul" [] [3; 4] [] [5];
        mkNode "Relu" [] [5] [] [6]; mkNode "Transpose" [1; 1; 0] [6] [] [7]] [7] (fun _ => false).
Example forest_folded :
  tg_nodes (transpose_pair_pass 5 ex_forest) = [mkNode "Mul" [] [1; 2] [] [5]; mkNode "Relu" [] [5] [] [6]]
  /\ tg_outputs (transpose_pair_pass 5 ex_forest) = [6]
  /\ option_map (proved_kind_all ex_forest) (decide_step ex_forest) = Some true /\ pass_trace 5 ex_forest = [2].
Proof. vm_compute. auto. Qed.
Definition ex_addchain : tgraph :=
  mkTG [mkNode "Transpose" [1; 1; 0] [1] [] [3]; mkNode "Transpose" [1; 1; 0] [2] [] [4]; mkNode "Add" [] [3; 4] [] [5];
        mkNode "Transpose" [1; 1; 0] [5] [] [7]] [7] (fun _ => false).
Example addchain_folded :
  tg_nodes (transpose_pair_pass 5 ex_addchain) = [mkNode "Transpose" [1; 1; 0] [1] [] [3]; mkNode "Transpose" [1; 1; 0] [2] [] [4]; mkNode "Add" [] [1; 2] [] [5]]
  /\ tg_outputs (transpose_pair_pass 5 ex_addchain) = [5] /\ pass_trace 5 ex_addchain = [1].
Proof. vm_compute. auto. Qed.
