(* SwishPass (C02): a faithful model of rewrite_mul_sigmoid_as_swish_ir (run only when the graph's default opset is >= 24):
   the first Mul (in node order) one of whose two inputs is the output of a one-input Sigmoid reading the OTHER input is
   replaced IN PLACE by Swish(x) with the same output name; the Sigmoid node is then removed when its output is neither a
   graph output, nor captured by a nested graph, nor read by a remaining node (the observer conditions of 7472ee8); repeat.
   Domain restrictions of the model (schema: hold in every valid ONNX graph; the model takes no action otherwise): the Mul
   and the Sigmoid have exactly one output and no nested graph. *)
From Coq Require Import ZArith String List Bool Arith Lia.
From J2O Require Import PyLib Tensor Graph Redirect ReshapePairPass TransposePairPass OrphanPass.
Import ListNotations.

Definition is_op (s : string) (n : node) : bool := String.eqb (nop n) s.

(* _match_mul_sigmoid_silu_inputs, one orientation: [so] is produced by a Sigmoid whose only input is [pt] *)
Definition match_side (ns : list node) (so pt : name) : option (name * node) :=
  match producer ns so with
  | Some sg => if is_op "Sigmoid" sg then match n_ins sg with [si] => if Nat.eqb si pt then Some (si, sg) else None | _ => None end else None
  | None => None
  end.

Definition decide_swish (g : graph) (n : node) : option (name * node * name) :=      (* (x, the Sigmoid node, the Mul's output) *)
  if negb (is_op "Mul" n) then None else
  match n_ins n with
  | [a; b] =>
      match (match match_side (g_nodes g) a b with Some r => Some r | None => match_side (g_nodes g) b a end) with
      | Some (x, sg) =>
          match n_outs n, n_caps n, n_outs sg, n_caps sg with
          | [out], [], [_], [] => Some (x, sg, out)
          | _, _, _, _ => None
          end
      | None => None
      end
  | _ => None
  end.

Definition swish_node (x out : name) : node := mkNode "Swish" [] [x] [] [out].

Definition apply_swish (g : graph) (n : node) (d : name * node * name) : graph :=
  let '(x, sg, out) := d in
  let ns1 := map (fun m => if node_eqb m n then swish_node x out else m) (g_nodes g) in
  let g1 := mkGraph ns1 (g_outputs g) in
  (* the Sigmoid goes when nothing observes or reads its output any more *)
  let dead := forallb (fun o => negb (mentioned ns1 (g_outputs g) sg o)) (n_outs sg) in
  if dead then mkGraph (filter (fun m => negb (node_eqb m sg)) ns1) (g_outputs g) else g1.

Fixpoint first_swish (g : graph) (ns : list node) : option (node * (name * node * name)) :=
  match ns with [] => None | n :: r => match decide_swish g n with Some d => Some (n, d) | None => first_swish g r end end.
Definition swish_step (g : graph) : option graph :=
  match first_swish g (g_nodes g) with Some (n, d) => Some (apply_swish g n d) | None => None end.
Fixpoint swish_loop (fuel : nat) (g : graph) : graph :=
  match fuel with O => g | S k => match swish_step g with Some g' => swish_loop k g' | None => g end end.
(* the pass: nothing below opset 24 *)
Definition swish_pass (opset fuel : nat) (g : graph) : graph := if Nat.leb 24 opset then swish_loop fuel g else g.

Example swish_rewritten :
  g_nodes (swish_pass 24 5 (mkGraph [mkNode "Sigmoid" [] [1] [] [2]; mkNode "Mul" [] [2; 1] [] [3]; mkNode "Relu" [] [3] [] [4]] [4]))
  = [mkNode "Swish" [] [1] [] [3]; mkNode "Relu" [] [3] [] [4]].
Proof. vm_compute. reflexivity. Qed.
Example swish_sigmoid_kept_when_read :
  g_nodes (swish_pass 24 5 (mkGraph [mkNode "Sigmoid" [] [1] [] [2]; mkNode "Mul" [] [1; 2] [] [3]; mkNode "Relu" [] [2] [] [4]] [3; 4]))
  = [mkNode "Sigmoid" [] [1] [] [2]; mkNode "Swish" [] [1] [] [3]; mkNode "Relu" [] [2] [] [4]].
Proof. vm_compute. reflexivity. Qed.
Example swish_not_below_24 :
  g_nodes (swish_pass 23 5 (mkGraph [mkNode "Sigmoid" [] [1] [] [2]; mkNode "Mul" [] [2; 1] [] [3]] [3])) =
  [mkNode "Sigmoid" [] [1] [] [2]; mkNode "Mul" [] [2; 1] [] [3]].
Proof. vm_compute. reflexivity. Qed.
