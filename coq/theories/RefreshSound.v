(* RefreshSound (C02/C08): the declared-dims broadcast of _refresh_elementwise_output_shape ([ReshapePairPass.broadcast_dims],
   the model of _broadcast_shape_dims) never claims something false of the GENERAL numpy broadcast of the operands
   ([ElemBroadcast.bshape], for operands that do broadcast: [bcast_ok]): symbols, unknown dims, operands of any rank. *)
From Coq Require Import String List Bool Arith Lia.
From J2O Require Import PyLib Tensor Reshape ElemCommute ElemBroadcast ReshapePairPass.
Import ListNotations.

Section RS.
  Variable A : Type.
  Notation T := (tensor A).
  Variable sigma : string -> nat.

  Lemma nth_pad_dim r ds s i : Forall2 (dim_ok sigma) ds s -> i < r ->
    dim_ok sigma (nth i (repeat (DInt 1) (r - length ds) ++ ds) (DInt 1)) (pdim r s i).
  Proof.
    intros H2 Hi. assert (Hl : length ds = length s) by (clear - H2; induction H2; simpl; auto).
    unfold pdim. rewrite <- Hl. destruct (Nat.ltb_spec i (r - length ds)) as [H|H].
    - rewrite app_nth1 by (now rewrite repeat_length). rewrite nth_repeat. reflexivity.
    - rewrite app_nth2 by (now rewrite repeat_length). rewrite repeat_length. now apply Forall2_nth_dim.
  Qed.

  Lemma bdim_at_member r (vs : list T) i : bdim_at r vs i = 1 \/ In (bdim_at r vs i) (map (fun v => pdim r (shape v) i) vs).
  Proof.
    induction vs as [|v l IH]; [now left|]. rewrite bdim_at_cons. unfold bd. destruct (Nat.eqb_spec (pdim r (shape v) i) 1) as [E|E].
    - destruct IH as [H|H]; [now left | right; now right].
    - right. now left.
  Qed.

  Lemma prank_lengths (cands : list (list dim)) (vs : list T) : Forall2 (fun ds v => Forall2 (dim_ok sigma) ds (shape v)) cands vs ->
    fold_right (fun s m => Nat.max (length s) m) 0 cands = prank vs.
  Proof.
    induction 1 as [|ds v l l' H _ IH]; simpl; [reflexivity|]. rewrite IH. f_equal. clear - H. induction H; simpl; auto.
  Qed.

  Lemma Forall2_nth_intro {B C} (P : B -> C -> Prop) db dc : forall l l', length l = length l' ->
    (forall i, i < length l -> P (nth i l db) (nth i l' dc)) -> Forall2 P l l'.
  Proof.
    induction l as [|x l IH]; intros [|y l'] Hl H; simpl in *; try discriminate; constructor.
    - apply (H 0). lia.
    - apply IH; [lia|]. intros i Hi. apply (H (S i)). lia.
  Qed.

  Theorem broadcast_dims_bshape (cands : list (list dim)) (vs : list T) m :
    Forall2 (fun ds v => Forall2 (dim_ok sigma) ds (shape v)) cands vs -> bcast_ok vs -> broadcast_dims cands = Some m ->
    Forall2 (dim_ok sigma) m (bshape vs).
  Proof.
    intros H2 Hok Hb. unfold broadcast_dims in Hb. destruct cands as [|c0 cr] eqn:Ec; [discriminate|]. rewrite <- Ec in *.
    rewrite (prank_lengths cands vs H2) in Hb. set (r := prank vs) in *.
    destruct (mapM_nth _ _ _ Hb) as [Hlen Hnth]. rewrite seq_length in Hlen, Hnth.
    apply (Forall2_nth_intro _ (DInt 1) 1); [unfold bshape; now rewrite map_length, seq_length|].
    intros i Hi. rewrite Hlen in Hi. specialize (Hnth i 0 (DInt 1) Hi). rewrite seq_nth in Hnth by exact Hi. cbn [plus] in Hnth.
    unfold bshape. fold r. rewrite nth_map_seq by exact Hi.
    set (n := bdim_at r vs i).
    assert (Hcol : Forall2 (dim_ok sigma) (map (fun s => nth i s (DInt 1)) (map (fun s => repeat (DInt 1) (r - length s) ++ s) cands))
                           (map (fun v => pdim r (shape v) i) vs)).
    { clearbody r. clear - H2 Hi. induction H2 as [|ds v l l' H _ IH]; simpl; constructor; [now apply nth_pad_dim | exact IH]. }
    assert (Hvals : Forall (fun v => v = 1 \/ v = n) (map (fun v => pdim r (shape v) i) vs)).
    { apply Forall_forall. intros x Hx. apply in_map_iff in Hx as (v & <- & Hv). exact (Hok v Hv i Hi). }
    destruct (fold_bc_sound sigma n _ _ (DInt 1) 1 _ (or_introl eq_refl) eq_refl Hcol Hvals Hnth) as (mi & Hmi & Hmn & _ & Hin).
    destruct (bdim_at_member r vs i) as [E1|Hmem].
    - fold n in E1. assert (mi = n) by (destruct Hmn; congruence). now subst mi.
    - fold n in Hmem. rewrite (Hin Hmem) in Hmi. exact Hmi.
  Qed.
End RS.
