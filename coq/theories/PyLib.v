(* PyLib: the meaning given to the Python subset that tools/py2coq.py translates.
   Nothing here is totalised conveniently: every Python operation that can raise is
   option-valued (None = the exception), indexing wraps negative indices as Python does,
   // and % are floor division / modulo. *)
From Coq Require Import ZArith String Ascii List Bool Lia.
Import ListNotations.
Local Open Scope Z_scope.

Notation "'let*' x := e 'in' k" :=
  (match e with Some x => k | None => None end)
  (at level 200, x pattern, e at level 100, k at level 200).

Definition isSome {A} (o : option A) : bool := match o with Some _ => true | None => false end.
Definition isNone {A} (o : option A) : bool := negb (isSome o).

Fixpoint mapM {A B} (f : A -> option B) (l : list A) : option (list B) :=
  match l with
  | [] => Some []
  | x :: r => let* y := f x in let* ys := mapM f r in Some (y :: ys)
  end.

(* l[i] with Python's negative-index wrap; None = IndexError *)
Definition py_index {A} (l : list A) (i : Z) : option A :=
  let n := Z.of_nat (length l) in
  if (0 <=? i) && (i <? n) then nth_error l (Z.to_nat i)
  else if (- n <=? i) && (i <? 0) then nth_error l (Z.to_nat (n + i))
  else None.

Definition py_range (n : Z) : list Z := map Z.of_nat (seq 0 (Z.to_nat n)).

Fixpoint list_eqb {A} (eqb : A -> A -> bool) (a b : list A) : bool :=
  match a, b with
  | [], [] => true
  | x :: r, y :: s => eqb x y && list_eqb eqb r s
  | _, _ => false
  end.
Definition list_Z_eqb := list_eqb Z.eqb.

Lemma list_Z_eqb_eq a b : list_Z_eqb a b = true <-> a = b.
Proof.
  unfold list_Z_eqb.
  revert b; induction a as [|x r IH]; destruct b as [|y s]; cbn [list_eqb]; split; intro H;
    try reflexivity; try discriminate.
  - apply andb_prop in H as [H1 H2]. apply Z.eqb_eq in H1. apply IH in H2. congruence.
  - injection H as Hx Hr. apply andb_true_intro. split; [now apply Z.eqb_eq | now apply IH].
Qed.

(* a // b, a % b : None = ZeroDivisionError.  Coq's Z.div / Z.modulo are floor-based like Python's. *)
Definition py_floordiv (a b : Z) : option Z := if b =? 0 then None else Some (a / b).
Definition py_mod (a b : Z) : option Z := if b =? 0 then None else Some (a mod b).
(* a << b : None = ValueError (negative shift count) *)
Definition py_lshift (a b : Z) : option Z := if b <? 0 then None else Some (Z.shiftl a b).

Definition py_min (a b : Z) : Z := Z.min a b.
Definition py_max (a b : Z) : Z := Z.max a b.

(* membership in a literal set/tuple of strings *)
Definition str_in (s : string) (l : list string) : bool := existsb (String.eqb s) l.
Definition Z_in (z : Z) (l : list Z) : bool := existsb (Z.eqb z) l.

Fixpoint all_distinct_Z (l : list Z) : bool :=
  match l with [] => true | x :: r => negb (Z_in x r) && all_distinct_Z r end.

(* string helpers used by translated name logic *)
Fixpoint str_last (s : string) : option ascii :=
  match s with EmptyString => None | String c EmptyString => Some c | String _ r => str_last r end.
Definition str_endswith_char (s : string) (c : ascii) : bool :=
  match str_last s with Some d => Ascii.eqb c d | None => false end.
Fixpoint str_startswith (p s : string) : bool :=
  match p, s with
  | EmptyString, _ => true
  | String a p', String b s' => Ascii.eqb a b && str_startswith p' s'
  | _, _ => false
  end.
Definition is_digit (c : ascii) : bool :=
  let n := nat_of_ascii c in (48 <=? n)%nat && (n <=? 57)%nat.
Fixpoint str_all (f : ascii -> bool) (s : string) : bool :=
  match s with EmptyString => true | String c r => f c && str_all f r end.
Fixpoint str_drop (n : nat) (s : string) : string :=
  match n, s with O, _ => s | S k, String _ r => str_drop k r | _, EmptyString => EmptyString end.

(* str.isdigit() on ASCII strings: non-empty and all characters are decimal digits *)
Definition str_isdigit (s : string) : bool := negb (String.eqb s EmptyString) && str_all is_digit s.

Fixpoint str_rev_aux (s acc : string) : string :=
  match s with EmptyString => acc | String c r => str_rev_aux r (String c acc) end.
Definition str_rev (s : string) : string := str_rev_aux s EmptyString.
(* s.endswith(suf) *)
Definition str_endswith (suf s : string) : bool := str_startswith (str_rev suf) (str_rev s).
(* s[:-n] for n > 0 (Python clamps: a string shorter than n gives "") *)
Definition str_drop_end (n : nat) (s : string) : string := str_rev (str_drop n (str_rev s)).

(* str.lower() and str.strip() on ASCII strings *)
Definition ascii_lower (c : ascii) : ascii :=
  let n := nat_of_ascii c in if (65 <=? n)%nat && (n <=? 90)%nat then ascii_of_nat (n + 32) else c.
Fixpoint str_lower (s : string) : string :=
  match s with EmptyString => EmptyString | String c r => String (ascii_lower c) (str_lower r) end.
Definition is_space (c : ascii) : bool :=
  let n := nat_of_ascii c in (n =? 32)%nat || ((9 <=? n)%nat && (n <=? 13)%nat) || ((28 <=? n)%nat && (n <=? 31)%nat).
Fixpoint str_lstrip (s : string) : string :=
  match s with String c r => if is_space c then str_lstrip r else s | EmptyString => EmptyString end.
Definition str_strip (s : string) : string := str_rev (str_lstrip (str_rev (str_lstrip s))).
