(* ElemSem (C02): what the fold passes assume of the operators they move a Reshape/Transpose across, stated ONCE for
   fixed operator lists; [allowed_in_pw] connects the set translated from the source on every run
   (GenOpt.ALLOWED_ELEMWISE) to them, so adding a non-pointwise operator to the Python table breaks the proofs. *)
From Coq Require Import String List Bool Arith Lia.
From J2O Require Import PyLib Tensor Reshape ElemCommute C02Opt.
From J2OGen Require Import GenOpt.
Import ListNotations.

(* pointwise operators whose extra operands (if any) take part in numpy broadcasting *)
Definition pw_ops : list string := pointwise_unary ++ ["Clip"; "Max"; "Min"]%string.

Lemma str_in_In s l : str_in s l = true <-> In s l.
Proof.
  unfold str_in. rewrite existsb_exists. split.
  - intros (x & Hx & E). apply String.eqb_eq in E. now subst.
  - intro H. exists s. split; auto. apply String.eqb_refl.
Qed.

Lemma allowed_in_pw op : str_in op ALLOWED_ELEMWISE = true -> op = "CastLike"%string \/ str_in op pw_ops = true.
Proof.
  intro H. apply str_in_In in H.
  pose proof allowed_elemwise_pointwise as Hall. rewrite forallb_forall in Hall. specialize (Hall _ H).
  apply str_in_In in Hall. apply in_app_or in Hall as [Hu|Hs].
  - right. apply str_in_In. unfold pw_ops. apply in_or_app. now left.
  - simpl in Hs. destruct Hs as [<-|[<-|[<-|[<-|[]]]]]; [now left | right | right | right];
      apply str_in_In; unfold pw_ops; apply in_or_app; right; simpl; auto.
Qed.

Section Spec.
  Variable A : Type.
  Notation V := (tensor A).
  Variable sem : string -> list nat -> list V -> option (list V).

  (* ONNX Reshape, whatever its target (constant or computed, with 0 / -1 entries or not): one output with the same
     row-major flattening as the data operand *)
  Definition sem_reshape_spec : Prop := forall ats vs o, sem "Reshape"%string ats vs = Some o ->
    exists x rest y, vs = x :: rest /\ o = [y] /\ flat_eq y x.

  (* the pointwise operators, on operand lists in which every operand has the shape of the first or is a one-element
     tensor: numpy broadcasting of an elementwise function of the operands' elements *)
  Definition sem_pointwise_spec (F : string -> list nat -> list A -> A) : Prop :=
    forall op ats vs o, str_in op pw_ops = true -> sem op ats vs = Some o -> operands_ok vs ->
      exists y, o = [y] /\ teq y (pwn (F op ats) vs).

  (* CastLike: elementwise in the data operand; the second operand only selects the conversion *)
  Definition sem_castlike_spec (Fcl : list nat -> V -> A -> A) : Prop :=
    forall ats vs o, sem "CastLike"%string ats vs = Some o ->
      exists x t y, vs = [x; t] /\ o = [y] /\ teq y (tmap (Fcl ats t) x).
  Definition castlike_type_only (Fcl : list nat -> V -> A -> A) : Prop :=
    forall ats t t' a, same_elems t t' -> Fcl ats t a = Fcl ats t' a.

  (* whether an elementwise operator accepts its operands depends only on which elements they contain, not on their
     layout (as long as the operands still broadcast) *)
  Definition sem_accepts_spec : Prop := forall op ats vs vs',
    str_in op (pw_ops ++ ["CastLike"%string]) = true -> sem op ats vs <> None -> Forall2 same_elems vs vs' ->
    (op = "CastLike"%string \/ operands_ok vs') -> sem op ats vs' <> None.
End Spec.

(* the same, for passes that match operators through a normaliser of the node's operator string (_op_type) *)
Section SpecNorm.
  Variable A : Type.
  Notation V := (tensor A).
  Variable sem : string -> list nat -> list V -> option (list V).
  Variable norm : string -> string.

  (* ONNX Transpose; the attribute payload of a node with an INTS attribute perm is 1 :: perm *)
  Definition sem_transpose_spec : Prop := forall op perm vs o, norm op = "Transpose"%string -> sem op (1 :: perm) vs = Some o ->
    exists x y, vs = [x] /\ o = [y] /\ teq y (transpose perm x) /\ length perm = length (shape x).
  Definition sem_pointwise_spec_n (F : string -> list nat -> list A -> A) : Prop :=
    forall op ats vs o, str_in (norm op) pw_ops = true -> sem op ats vs = Some o -> operands_ok vs ->
      exists y, o = [y] /\ teq y (pwn (F (norm op) ats) vs).
  Definition sem_castlike_spec_n (Fcl : list nat -> V -> A -> A) : Prop :=
    forall op ats vs o, norm op = "CastLike"%string -> sem op ats vs = Some o ->
      exists x t y, vs = [x; t] /\ o = [y] /\ teq y (tmap (Fcl ats t) x).
  Definition sem_accepts_spec_n : Prop := forall op ats vs vs',
    str_in (norm op) (pw_ops ++ ["CastLike"%string]) = true -> sem op ats vs <> None -> Forall2 same_elems vs vs' ->
    (norm op = "CastLike"%string \/ operands_ok vs') -> sem op ats vs' <> None.
End SpecNorm.

(* ---- the operator lists of the DAG phases of the transpose pass (ELEMENTWISE_UNARY_OPS / ELEMENTWISE_BINARY_OPS) *)
Definition pw_ops_all : list string := pointwise_unary ++ pointwise_binary.

Lemma pw_ops_sub op : str_in op pw_ops = true -> str_in op pw_ops_all = true.
Proof.
  intro H. apply str_in_In in H. apply str_in_In. unfold pw_ops, pw_ops_all in *.
  apply in_app_or in H as [H|H]; apply in_or_app; [now left | right].
  simpl in H. unfold pointwise_binary. simpl. intuition.
Qed.

Lemma elem_in_pw_all op : str_in op ELEMENTWISE_UNARY_OPS || str_in op ELEMENTWISE_BINARY_OPS = true ->
  op = "CastLike"%string \/ str_in op pw_ops_all = true.
Proof.
  intro H. apply orb_prop in H as [H|H]; apply str_in_In in H.
  - pose proof elementwise_unary_pointwise as Hall. rewrite forallb_forall in Hall. specialize (Hall _ H).
    apply str_in_In in Hall. apply in_app_or in Hall as [Hu|[<-|[]]]; [right | now left].
    apply str_in_In. unfold pw_ops_all. apply in_or_app. now left.
  - pose proof elementwise_binary_pointwise as Hall. rewrite forallb_forall in Hall. specialize (Hall _ H).
    right. apply str_in_In. unfold pw_ops_all. apply in_or_app. right. now apply str_in_In.
Qed.

Section SpecAll.
  Variable A : Type.
  Notation V := (tensor A).
  Variable sem : string -> list nat -> list V -> option (list V).
  Variable norm : string -> string.
  Definition sem_pointwise_spec_a (F : string -> list nat -> list A -> A) : Prop :=
    forall op ats vs o, str_in (norm op) pw_ops_all = true -> sem op ats vs = Some o -> operands_ok vs ->
      exists y, o = [y] /\ teq y (pwn (F (norm op) ats) vs).
  Definition sem_accepts_spec_a : Prop := forall op ats vs vs',
    str_in (norm op) (pw_ops_all ++ ["CastLike"%string]) = true -> sem op ats vs <> None -> Forall2 same_elems vs vs' ->
    (norm op = "CastLike"%string \/ operands_ok vs') -> sem op ats vs' <> None.

  Lemma spec_a_n F : sem_pointwise_spec_a F -> sem_pointwise_spec_n A sem norm F.
  Proof. intros H op ats vs o Hop. apply H. now apply pw_ops_sub. Qed.
  Lemma accepts_a_n : sem_accepts_spec_a -> sem_accepts_spec_n A sem norm.
  Proof.
    intros H op ats vs vs' Hop. apply H. apply str_in_In in Hop. apply str_in_In.
    apply in_app_or in Hop as [Hop|Hop]; apply in_or_app; [left | now right].
    apply str_in_In. apply pw_ops_sub. now apply str_in_In.
  Qed.
End SpecAll.
