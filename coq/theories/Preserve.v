(* Preserve (C02): what the generic rewrite (Redirect.redirect_remove) does to the FINAL ENVIRONMENT.
   Redirect.v shows the graph outputs are preserved; here: the rewritten graph still evaluates, every name it
   defines other than [o] carries a value equivalent to its value in the original run, and [o] is gone.
   This is what lets a verified pass ITERATE without assuming anything about the intermediate graphs: annotation
   truth (property C08) of the input graph carries over to every graph the pass loop visits. *)
From Coq Require Import String List Bool Arith Lia.
From J2O Require Import Graph Redirect.
Import ListNotations.

Lemma In_nat_dec (x : nat) l : {In x l} + {~ In x l}.
Proof. apply in_dec. apply Nat.eq_dec. Qed.

Section Preserve.
  Variable V : Type.
  Variable veq : V -> V -> Prop.
  Hypothesis veq_refl : forall a, veq a a.
  Hypothesis veq_sym : forall a b, veq a b -> veq b a.
  Hypothesis veq_trans : forall a b c, veq a b -> veq b c -> veq a c.
  Variable sem : string -> list nat -> list V -> option (list V).
  Hypothesis sem_proper : forall op ats vs vs' o, Forall2 veq vs vs' -> sem op ats vs = Some o ->
    exists o', sem op ats vs' = Some o' /\ Forall2 veq o o'.
  Notation evalg := (eval V sem).

  (* a name defined at the end was an input or is defined by a node *)
  Lemma eval_dom ns e ef x : evalg ns e = Some ef -> ef x <> None -> e x <> None \/ In x (defs ns).
  Proof.
    intros Hev Hx. destruct (In_nat_dec x (defs ns)) as [|Hn]; [now right|]. left. intro He.
    apply Hx. eapply eval_undefined; eauto.
  Qed.

  (* every name a node defines is defined at the end of a successful SSA run *)
  Lemma eval_defs_defined ns e ef x : ssa V ns e -> evalg ns e = Some ef -> In x (defs ns) -> ef x <> None.
  Proof.
    intros Hssa Hev Hx. unfold defs in Hx. apply in_flat_map in Hx as (n & Hn & Hxo).
    destruct (eval_consistent V sem _ _ _ n Hssa Hev Hn) as (vs & oo & _ & _ & Hlo).
    eapply lookups_defined; eauto.
  Qed.

  (* inputs survive *)
  Lemma eval_input ns e ef x a : ssa V ns e -> evalg ns e = Some ef -> e x = Some a -> ef x = Some a.
  Proof.
    intros [_ Hfree] Hev Hx. eapply eval_mono; eauto. intro Hin. rewrite (Hfree x Hin) in Hx. discriminate.
  Qed.

  Lemma remove_node_env pre n post e ef :
    (forall m x, In m post -> In x (n_uses m) -> ~ In x (n_outs n)) ->
    evalg (pre ++ n :: post) e = Some ef ->
    exists ef', evalg (pre ++ post) e = Some ef' /\ agree_except V (n_outs n) ef ef'.
  Proof.
    intros Hpost Hev. rewrite (eval_app V sem) in *. destruct (evalg pre e) as [em|]; [|discriminate]. simpl in Hev.
    destruct (step V sem em n) as [e1|] eqn:Es; [|discriminate].
    assert (Ha : agree_except V (n_outs n) e1 em).
    { intros x Hx. unfold step in Es. destruct (lookups V em (n_uses n)); [|discriminate].
      destruct (sem _ _ _); [|discriminate]. destruct (Nat.eqb _ _); [|discriminate].
      injection Es as <-. now apply upds_other. }
    exact (eval_agree V sem (n_outs n) post e1 em ef Ha Hpost Hev).
  Qed.

  Lemma agree_except_refl dead (e : env V) : agree_except V dead e e.
  Proof. intros x _. reflexivity. Qed.

  Lemma remove_unmentioned_env ns o e ef :
    (forall m y, In m ns -> In y (n_uses m) -> y <> o) ->
    evalg ns e = Some ef ->
    exists ef', evalg (remove_first (node_is o) ns) e = Some ef' /\ agree_except V [o] ef ef'.
  Proof.
    intros Huses Hev.
    destruct (existsb (node_is o) ns) eqn:Ex.
    - apply existsb_exists in Ex as (n & Hin & Hk).
      assert (Hsplit : exists pre post n0, ns = pre ++ n0 :: post /\ node_is o n0 = true /\ forall m, In m pre -> node_is o m = false).
      { clear - Hin Hk. induction ns as [|m r IH]; [contradiction|].
        destruct (node_is o m) eqn:Em.
        - exists [], r, m. repeat split; auto. intros ? [].
        - destruct Hin as [->|Hin]; [congruence|]. destruct (IH Hin) as (pre & post & n0 & -> & Hn0 & Hp).
          exists (m :: pre), post, n0. repeat split; auto. intros m' [<-|H]; auto. }
      destruct Hsplit as (pre & post & n0 & -> & Hn0 & Hp).
      rewrite (remove_first_split _ _ _ _ Hn0 Hp).
      pose proof (node_is_outs _ _ Hn0) as Ho. rewrite <- Ho.
      apply remove_node_env; auto.
      intros m y Hm Hy. rewrite Ho. intros [E|[]].
      assert (Hm' : In m (pre ++ n0 :: post)) by (apply in_or_app; right; now right).
      apply (Huses m y Hm' Hy). now symmetry.
    - assert (Hnone : forall m, In m ns -> node_is o m = false).
      { intros m Hm. destruct (node_is o m) eqn:E; auto.
        assert (existsb (node_is o) ns = true) by (apply existsb_exists; eauto). congruence. }
      rewrite (remove_first_none _ _ Hnone). exists ef. split; auto. apply agree_except_refl.
  Qed.

  (* THE final-environment form of Redirect.redirect_remove_sound *)
  Theorem redirect_remove_env g e o x ef :
    ssa V (g_nodes g) e -> x <> o ->
    (forall a, ef o = Some a -> exists b, ef x = Some b /\ veq a b) ->
    avail_before V sem (g_nodes g) e x o ->
    evalg (g_nodes g) e = Some ef ->
    exists ef', evalg (g_nodes (redirect_remove o x g)) e = Some ef' /\
      forall y a', y <> o -> ef' y = Some a' -> exists a, ef y = Some a /\ veq a a'.
  Proof.
    intros Hssa Hne Hfin Hav Hev.
    assert (Hinv : forall pre post em, g_nodes g = pre ++ post -> evalg pre e = Some em -> inv V veq o x em).
    { apply (prefix_inv_from_final V veq sem o x (g_nodes g) e ef Hssa Hev); auto. }
    destruct (eval_subst V veq veq_sym veq_trans sem sem_proper o x (g_nodes g) e e ef (env_le_refl V veq veq_refl e) Hinv Hev)
      as (ef1 & Hev1 & Hle).
    destruct (remove_unmentioned_env (map (subst_node o x) (g_nodes g)) o e ef1) as (ef2 & Hev2 & Hag); auto.
    { intros m y Hm Hy. exact (uses_subst_neq o x (g_nodes g) m y Hne Hm Hy). }
    exists ef2. split; [exact Hev2|].
    intros y a' Hyo Hy2.
    assert (Hy1 : ef1 y = Some a').
    { rewrite (Hag y); auto. intros [E|[]]. congruence. }
    (* y is defined in the original final environment as well *)
    assert (Hdef : ef y <> None).
    { assert (Hd1 : ef1 y <> None) by congruence.
      destruct (eval_dom _ _ _ _ Hev1 Hd1) as [He|Hd].
      - destruct (e y) as [v|] eqn:Ey; [|congruence]. rewrite (eval_input _ _ _ _ _ Hssa Hev Ey). discriminate.
      - rewrite defs_subst in Hd. eapply eval_defs_defined; eauto. }
    destruct (ef y) as [a|] eqn:Eya; [|congruence].
    destruct (Hle y a Eya) as (a'' & Ea'' & Hveq). rewrite Hy1 in Ea''. injection Ea'' as <-.
    exists a. split; auto.
  Qed.

  (* and [o] itself is no longer defined when its (single-output) producer was there *)
  Lemma defs_remove_first_notin o ns : NoDup (defs ns) -> existsb (node_is o) ns = true ->
    ~ In o (defs (remove_first (node_is o) ns)).
  Proof.
    unfold defs. induction ns as [|n r IH]; simpl; intros Hnd Hex; [discriminate|].
    destruct (node_is o n) eqn:Ek.
    - apply node_is_outs in Ek. rewrite Ek in Hnd. simpl in Hnd. inversion Hnd; subst. assumption.
    - simpl in Hex. simpl. intro Hin. apply in_app_or in Hin as [Hin|Hin].
      + (* o among the outputs of n, and also defined by a later node: twice in defs *)
        apply existsb_exists in Hex as (m & Hm & Hk). apply node_is_outs in Hk.
        eapply (NoDup_app_disj _ _ o Hnd); eauto. apply in_flat_map. exists m. split; auto. rewrite Hk. now left.
      + revert Hin. apply IH; auto. eapply NoDup_app_r; eauto.
  Qed.

  Lemma redirect_remove_o_undefined g e o x ef' :
    ssa V (g_nodes g) e -> existsb (node_is o) (g_nodes g) = true ->
    evalg (g_nodes (redirect_remove o x g)) e = Some ef' -> ef' o = None.
  Proof.
    intros [Hnd Hfree] Hex Hev. simpl in Hev.
    assert (Hex' : existsb (node_is o) (map (subst_node o x) (g_nodes g)) = true).
    { apply existsb_exists in Hex as (m & Hm & Hk). apply existsb_exists. exists (subst_node o x m). split.
      - now apply in_map.
      - unfold node_is in *. simpl. exact Hk. }
    eapply eval_undefined; eauto.
    - apply Hfree. apply existsb_exists in Hex as (m & Hm & Hk). apply node_is_outs in Hk.
      unfold defs. apply in_flat_map. exists m. split; auto. rewrite Hk. now left.
    - apply defs_remove_first_notin; auto. rewrite defs_subst. exact Hnd.
  Qed.
End Preserve.
