(* OrtCoerce (C18): jax2onnx.user_interface._to_numpy_input, the per-value coercion applied to every entry of the
   feed that allclose hands to ONNX Runtime (routing: OrtFeed.v).

     arr = np.asarray(value); ty = input_meta.type
     if isinstance(ty, str) and ty.startswith("tensor("):
         target = dtype_map.get(ty[len("tensor("):-1])
         if target is not None:
             if arr is complex and target is floating:
                 sh = input_meta.shape
                 if sh is not None and len(sh) == arr.ndim + 1:
                     if int(sh[-1]) works and != 2: raise ValueError("Expected trailing dimension of size 2 ...")
                     return stack([real, imag], -1).astype(target)
                 raise ValueError("Cannot map complex input ...")
             if arr.dtype != target: arr = arr.astype(target)
     return arr

   The decision is finite apart from the shape list; [coerce] is that decision, its result says what happens to
   the value ([Keep] / [CastTo] / [PackTo] / the two errors). *)
From Coq Require Import List String Bool Arith ZArith Lia.
From J2O Require Import PyLib.
Import ListNotations.
Local Open Scope string_scope.

Inductive npdt := F16 | F32 | F64 | I8 | I16 | I32 | I64 | U8 | NBool | C64 | C128 | NOther.

Definition npdt_eqb (a b : npdt) : bool :=
  match a, b with
  | F16, F16 | F32, F32 | F64, F64 | I8, I8 | I16, I16 | I32, I32 | I64, I64 | U8, U8
  | NBool, NBool | C64, C64 | C128, C128 | NOther, NOther => true
  | _, _ => false
  end.

Definition is_complex (d : npdt) : bool := match d with C64 | C128 => true | _ => false end.
Definition is_floating (d : npdt) : bool := match d with F16 | F32 | F64 => true | _ => false end.

(* the dict literal of the function *)
Definition dtype_map (name : string) : option npdt :=
  if String.eqb name "float" then Some F32 else
  if String.eqb name "double" then Some F64 else
  if String.eqb name "float16" then Some F16 else
  if String.eqb name "bf16" then Some F16 else
  if String.eqb name "int64" then Some I64 else
  if String.eqb name "int32" then Some I32 else
  if String.eqb name "int16" then Some I16 else
  if String.eqb name "int8" then Some I8 else
  if String.eqb name "uint8" then Some U8 else
  if String.eqb name "bool" then Some NBool else None.

(* a dimension of input_meta.shape: an int, or something int() rejects (a symbol name, None) *)
Inductive dimv := DInt (z : Z) | DSym.

Inductive outcome := Keep | CastTo (t : npdt) | PackTo (t : npdt) | ErrTrailing | ErrNoPack.

(* ty = None stands for "not a str" *)
Definition target_of (ty : option string) : option npdt :=
  match ty with
  | Some s => if str_startswith "tensor(" s then dtype_map (str_drop_end 1 (str_drop 7 s)) else None
  | None => None
  end.

Definition coerce (arr : npdt) (ndim : nat) (ty : option string) (shape : option (list dimv)) : outcome :=
  match target_of ty with
  | None => Keep
  | Some t =>
      if is_complex arr && is_floating t then
        match shape with
        | Some sh =>
            if Nat.eqb (List.length sh) (ndim + 1) then
              match last sh DSym with
              | DInt z => if Z.eqb z 2 then PackTo t else ErrTrailing
              | DSym => PackTo t
              end
            else ErrNoPack
        | None => ErrNoPack
        end
      else if npdt_eqb arr t then Keep else CastTo t
  end.

(* the dtype of the array that is fed *)
Definition fed_dtype (arr : npdt) (o : outcome) : option npdt :=
  match o with Keep => Some arr | CastTo t | PackTo t => Some t | _ => None end.

(* ------------------------------------------------------------------ contracts *)
Lemma npdt_eqb_eq a b : npdt_eqb a b = true <-> a = b.
Proof. destruct a, b; simpl; split; intros H; try reflexivity; try discriminate. Qed.

(* whenever the model declares a type of the table, the value is fed with exactly that dtype or the call raises *)
Lemma coerce_feeds_declared arr ndim ty shape t o :
  target_of ty = Some t -> coerce arr ndim ty shape = o ->
  fed_dtype arr o = Some t \/ o = ErrTrailing \/ o = ErrNoPack.
Proof.
  unfold coerce. intros -> <-.
  destruct (is_complex arr && is_floating t).
  - destruct shape as [sh|]; [|auto]. destruct (Nat.eqb _ _); [|auto].
    destruct (last sh DSym) as [z|]; [destruct (Z.eqb z 2)|]; simpl; auto.
  - destruct (npdt_eqb arr t) eqn:E; simpl; [apply npdt_eqb_eq in E; subst|]; auto.
Qed.

(* a complex argument headed for a real-typed model input is never narrowed silently: it is packed as a trailing
   pair of reals, or the call raises *)
Lemma coerce_complex_never_cast arr ndim ty shape t :
  is_complex arr = true -> target_of ty = Some t -> is_floating t = true ->
  match coerce arr ndim ty shape with PackTo t' => t' = t | ErrTrailing | ErrNoPack => True | _ => False end.
Proof.
  unfold coerce. intros -> -> ->. simpl.
  destruct shape as [sh|]; [|exact I]. destruct (Nat.eqb _ _); [|exact I].
  destruct (last sh DSym) as [z|]; [destruct (Z.eqb z 2)|]; simpl; auto.
Qed.

(* ... and it is packed only into an input that has room for the pair: one more axis, statically 2 or symbolic *)
Lemma coerce_pack_only_with_room arr ndim ty shape t :
  coerce arr ndim ty shape = PackTo t ->
  is_complex arr = true /\ exists sh, shape = Some sh /\ List.length sh = ndim + 1 /\
    (last sh DSym = DInt 2 \/ last sh DSym = DSym).
Proof.
  unfold coerce. destruct (target_of ty) as [t0|]; [|discriminate].
  destruct (is_complex arr) eqn:C; simpl.
  - destruct (is_floating t0); simpl.
    + destruct shape as [sh|]; [|discriminate]. destruct (Nat.eqb _ _) eqn:E; [|discriminate].
      apply Nat.eqb_eq in E. intros H. split; [reflexivity|]. exists sh. repeat split; auto.
      destruct (last sh DSym) as [z|]; [|auto]. destruct (Z.eqb z 2) eqn:Z2; [|discriminate].
      apply Z.eqb_eq in Z2. subst. auto.
    + destruct (npdt_eqb arr t0); discriminate.
  - destruct (npdt_eqb arr t0); discriminate.
Qed.

(* a value that already has the declared dtype, or whose input declares nothing usable, is fed untouched *)
Lemma coerce_keep_same arr ndim ty shape :
  is_complex arr = false -> target_of ty = Some arr -> coerce arr ndim ty shape = Keep.
Proof.
  unfold coerce. intros C ->. rewrite C. simpl.
  assert (npdt_eqb arr arr = true) as -> by (apply npdt_eqb_eq; reflexivity). reflexivity.
Qed.

Lemma coerce_keep_unknown arr ndim ty shape : target_of ty = None -> coerce arr ndim ty shape = Keep.
Proof. unfold coerce. intros ->. reflexivity. Qed.

Example coerce_ex1 : coerce C64 2 (Some "tensor(float)") (Some [DInt 2; DInt 3; DInt 2]) = PackTo F32.
Proof. reflexivity. Qed.
Example coerce_ex2 : coerce C64 2 (Some "tensor(float)") (Some [DInt 2; DInt 3; DInt 3]) = ErrTrailing.
Proof. reflexivity. Qed.
Example coerce_ex3 : coerce F64 1 (Some "tensor(float)") None = CastTo F32.
Proof. reflexivity. Qed.
Example coerce_ex4 : coerce F32 1 (Some "tensor(uint16)") None = Keep.
Proof. reflexivity. Qed.
