(* C02: guard lemmas about the TRANSLATED optimizer helpers, and graph-level soundness of the
   transpose-pair rewrite built from Graph.v's primitives and Tensor.v's laws. *)
From Coq Require Import String List Arith Lia Bool PeanoNat ZArith.
From J2O Require Import PyLib Tensor Graph.
From J2OGen Require Import GenCast.
Import ListNotations.

(* ---------------------------------------------------------------- _is_inverse_perm *)
Lemma mapM_Forall2 {A B} (f : A -> option B) l r : mapM f l = Some r -> Forall2 (fun x y => f x = Some y) l r.
Proof.
  revert r. induction l as [|x l IH]; simpl; intros r H.
  - injection H as <-. constructor.
  - destruct (f x) as [y|] eqn:E; [|discriminate]. destruct (mapM f l) as [ys|]; [|discriminate].
    injection H as <-. constructor; auto.
Qed.

Lemma py_index_nat (p : list nat) (k : nat) c :
  py_index (map Z.of_nat p) (Z.of_nat k) = Some c -> k < length p /\ c = Z.of_nat (nth k p 0).
Proof.
  unfold py_index. rewrite map_length.
  destruct ((0 <=? Z.of_nat k)%Z && (Z.of_nat k <? Z.of_nat (length p))%Z) eqn:E.
  - apply andb_prop in E as [_ E]. apply Z.ltb_lt in E. rewrite Nat2Z.id.
    intro H. split; [lia|]. rewrite nth_error_map in H.
    destruct (nth_error p k) as [v|] eqn:En; [|discriminate]. injection H as <-.
    f_equal. symmetry. now apply nth_error_nth.
  - destruct ((- Z.of_nat (length p) <=? Z.of_nat k)%Z && (Z.of_nat k <? 0)%Z) eqn:E2; [|discriminate].
    apply andb_prop in E2 as [_ E2]. apply Z.ltb_lt in E2. lia.
Qed.

Lemma map_of_nat_inj l l' : map Z.of_nat l = map Z.of_nat l' -> l = l'.
Proof.
  revert l'. induction l as [|x l IH]; intros [|y l'] H; simpl in *; try discriminate; auto.
  injection H as Hx Hl. apply Nat2Z.inj in Hx. f_equal; auto.
Qed.

Lemma py_range_of_nat n : py_range (Z.of_nat n) = map Z.of_nat (seq 0 n).
Proof. unfold py_range. now rewrite Nat2Z.id. Qed.

(* the translated test, on non-negative permutations, implies the semantic inverse relation *)
Theorem is_inverse_perm_sound (p q : list nat) :
  is_inverse_perm (map Z.of_nat p) (map Z.of_nat q) = Some true -> is_inverse p q.
Proof.
  unfold is_inverse_perm. rewrite !map_length.
  destruct (Z.of_nat (length p) =? Z.of_nat (length q))%Z eqn:El; simpl; [|discriminate].
  apply Z.eqb_eq in El. apply Nat2Z.inj in El.
  destruct (mapM _ _) as [composed|] eqn:Em; [|discriminate].
  intro H. injection H as H. apply list_Z_eqb_eq in H.
  apply mapM_Forall2 in Em.
  assert (Hc : composed = map Z.of_nat (gather 0 q p) /\ Forall (fun k => k < length p) q).
  { clear H El. revert composed Em. induction q as [|k q IH]; simpl; intros composed Em.
    - inversion Em; subst. split; [reflexivity | constructor].
    - inversion Em as [|? c ? cs Hk Hr]; subst.
      destruct (py_index (map Z.of_nat p) (Z.of_nat k)) as [c'|] eqn:Ek; [|discriminate].
      injection Hk as ->. apply py_index_nat in Ek as [Hlt ->].
      destruct (IH _ Hr) as [-> Hf]. split; [reflexivity | constructor; auto]. }
  destruct Hc as [-> Hf]. rewrite map_length, gather_length in H.
  rewrite py_range_of_nat in H. apply map_of_nat_inj in H.
  split; [exact El | now rewrite El].
Qed.

Example is_inverse_perm_nonvacuous :
  is_inverse_perm [0; 2; 3; 1]%Z [0; 3; 1; 2]%Z = Some true /\ is_inverse_perm [0; 2; 3; 1]%Z [0; 2; 3; 1]%Z = Some false.
Proof. split; reflexivity. Qed.

(* ---------------------------------------------------------------- graph-level transpose fold *)
Section TransposeFold.
  Variable A : Type.
  Let V := tensor A.
  Variable sem : string -> list nat -> list V -> option (list V).
  Hypothesis sem_proper : forall op ats vs vs' o, Forall2 (@teq A) vs vs' -> sem op ats vs = Some o ->
    exists o', sem op ats vs' = Some o' /\ Forall2 (@teq A) o o'.
  (* the one interpreted operator: attrs of a Transpose node are its perm *)
  Hypothesis sem_transpose : forall perm vs o, sem "Transpose"%string perm vs = Some o ->
    exists x, vs = [x] /\ o = [transpose perm x] /\ length perm = rank x.

  Notation eval := (eval V sem).
  Notation refines := (refines V (@teq A) sem).
  Notation ssa := (ssa V).

  Definition is_transpose (n : node) (p : list nat) (x y : name) : Prop :=
    n_op n = "Transpose"%string /\ n_attrs n = p /\ n_ins n = [x] /\ n_caps n = [] /\ n_outs n = [y].

  Lemma transpose_node_value ns e ef n p x y : ssa ns e -> eval ns e = Some ef -> In n ns ->
    is_transpose n p x y -> exists vx, ef x = Some vx /\ ef y = Some (transpose p vx) /\ length p = rank vx.
  Proof.
    intros Hssa Hev Hin (Hop & Hat & Hi & Hc & Ho).
    destruct (eval_consistent V sem ns e ef n Hssa Hev Hin) as (vs & o & Hl & Hs & Hlo).
    unfold n_uses in Hl. rewrite Hi, Hc in Hl. simpl in Hl.
    destruct (ef x) as [vx|] eqn:Ex; [|discriminate]. injection Hl as <-.
    rewrite Hop, Hat in Hs. destruct (sem_transpose _ _ _ Hs) as (x' & Hx' & -> & Hr).
    injection Hx' as <-. rewrite Ho in Hlo. simpl in Hlo.
    destruct (ef y) as [vy|] eqn:Ey; [|discriminate]. injection Hlo as ->.
    exists vx. auto.
  Qed.

  (* T1 : x -> t1 (perm p), T2 : t1 -> t2 (perm q), q inverts p.  Redirecting every use of t2
     (node inputs, nested captures, graph outputs) to x preserves every graph output. *)
  Theorem transpose_pair_fold_sound g e T1 T2 p q x t1 t2 :
    ssa (g_nodes g) e ->
    In T1 (g_nodes g) -> In T2 (g_nodes g) ->
    is_transpose T1 p x t1 -> is_transpose T2 q t1 t2 ->
    is_perm p -> is_perm q -> is_inverse p q ->
    avail_before V sem (g_nodes g) e x t2 ->
    refines g (replace_all_uses t2 x g) e.
  Proof.
    intros Hssa H1 H2 HT1 HT2 Hp Hq Hinv Hav o Hrun.
    assert (Hev : exists ef, eval (g_nodes g) e = Some ef).
    { unfold run in Hrun. destruct (eval (g_nodes g) e); [eauto|discriminate]. }
    destruct Hev as [ef Hev].
    refine (replace_all_uses_sound V (@teq A) (@teq_refl A) (@teq_sym A) (@teq_trans A) sem sem_proper t2 x g e _ o Hrun).
    apply (prefix_inv_from_final V (@teq A) sem t2 x (g_nodes g) e ef Hssa Hev); auto.
    intros a Ha.
    destruct (transpose_node_value _ _ _ _ _ _ _ Hssa Hev H1 HT1) as (vx & Ex & Et1 & Hr1).
    destruct (transpose_node_value _ _ _ _ _ _ _ Hssa Hev H2 HT2) as (vt & Et1' & Et2 & Hr2).
    rewrite Et1 in Et1'. injection Et1' as <-. rewrite Et2 in Ha. injection Ha as <-.
    exists vx. split; auto. apply transpose_inverse; auto.
  Qed.
End TransposeFold.

(* ---------------------------------------------------------------- operator sets (translated) *)
From J2OGen Require Import GenOpt.

(* ONNX operators whose output element at an index depends only on the input elements at that index
   (pointwise), so that they commute with Transpose/Reshape of their full-shape operand *)
Definition pointwise_unary : list string :=
  ["Abs"; "Cast"; "Elu"; "Exp"; "Gelu"; "Identity"; "LeakyRelu"; "Log"; "Neg"; "Not"; "Relu"; "Sigmoid";
   "Sqrt"; "Swish"; "Tanh"]%string.
(* pointwise in their first operand, with extra operands that must be scalars (or, for CastLike, type-only) *)
Definition pointwise_with_side_operands : list string := ["CastLike"; "Clip"; "Max"; "Min"]%string.
Definition pointwise_binary : list string := ["Add"; "Clip"; "Div"; "Max"; "Min"; "Mul"; "Sub"]%string.

Lemma allowed_elemwise_pointwise :
  forallb (fun o => str_in o (pointwise_unary ++ pointwise_with_side_operands)) ALLOWED_ELEMWISE = true.
Proof. vm_compute. reflexivity. Qed.
Lemma elementwise_unary_pointwise :
  forallb (fun o => str_in o (pointwise_unary ++ ["CastLike"]%string)) ELEMENTWISE_UNARY_OPS = true.
Proof. vm_compute. reflexivity. Qed.
Lemma elementwise_binary_pointwise :
  forallb (fun o => str_in o pointwise_binary) ELEMENTWISE_BINARY_OPS = true.
Proof. vm_compute. reflexivity. Qed.
