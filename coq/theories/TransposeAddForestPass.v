(* TransposeAddForestPass (C02): a faithful model of remove_redundant_transpose_add_forests_ir: a forward forest of Add nodes
   whose external inputs are all wrapped by Transpose(perm_fwd) and whose external consumers are all Transpose(perm_inv),
   perm_inv inverting perm_fwd, is moved to the other layout.  The decision is the breadth-first walk of
   _collect_add_transpose_forest (strictly forward from the root: an Add operand produced by an Add must already be in the
   forest) followed by the guard "no input Transpose is also an output Transpose"; the rewrite is the REGION rewrite of
   TransposePairPass (apply_region via forest_region: re-point the Adds' transposed operands to the Transposes' sources,
   bypass and remove the output Transposes, remove the input Transposes left without readers).
   Restriction of the model (schema): the nodes involved have no nested graphs (no_caps). *)
From Coq Require Import ZArith String List Bool Arith Lia.
From J2O Require Import PyLib Tensor Graph Redirect ReshapePairPass TransposePairPass.
From J2OGen Require Import GenCast GenOpt.
Import ListNotations.

Record afst := mkAF { af_adds : list node; af_pf : option (list nat); af_pi : option (list nat); af_ins : list node; af_outs : list node }.

(* the operands of one Add: produced by an Add already in the forest, or by a Transpose with the common perm *)
Fixpoint af_inputs (ns : list node) (adds : list node) (ins : list name) (pf : option (list nat)) (addc trc : nat) (insT : list node)
  : option (option (list nat) * nat * nat * list node) :=
  match ins with
  | [] => Some (pf, addc, trc, insT)
  | iv :: r =>
      match producer ns iv with
      | Some pr =>
          if is_add pr then (if memn pr adds then af_inputs ns adds r pf (S addc) trc insT else None)
          else if negb (is_T pr) then None
          else match perm_of pr with
               | None => None
               | Some p => match pf with
                           | None => af_inputs ns adds r (Some p) addc (S trc) (addn pr insT)
                           | Some p0 => if leqb p0 p then af_inputs ns adds r pf addc (S trc) (addn pr insT) else None
                           end
               end
      | None => None
      end
  end.

(* the consumers of one Add's output: Adds are queued (unless already in the forest), everything else must be a Transpose
   with the common inverse perm *)
Fixpoint af_consumers (cs : list node) (adds : list node) (pi : option (list nat)) (outsT newq : list node)
  : option (option (list nat) * list node * list node) :=
  match cs with
  | [] => Some (pi, outsT, newq)
  | c :: r =>
      if is_add c then af_consumers r adds pi outsT (if memn c adds then newq else newq ++ [c])
      else if negb (is_T c) then None
      else match perm_of c with
           | None => None
           | Some p => match pi with
                       | None => af_consumers r adds (Some p) (addn c outsT) newq
                       | Some p0 => if leqb p0 p then af_consumers r adds pi (addn c outsT) newq else None
                       end
           end
  end.

Fixpoint af_walk (g : tgraph) (start : node) (fuel : nat) (queue : list node) (st : afst) : option afst :=
  match fuel with
  | O => None
  | S k =>
      match queue with
      | [] => Some st
      | n :: q =>
          if memn n (af_adds st) then af_walk g start k q st else
          if negb (is_add n) then None else
          if Nat.ltb (length (n_ins n)) 2 then None else
          match af_inputs (tg_nodes g) (af_adds st) (n_ins n) (af_pf st) 0 0 (af_ins st) with
          | None => None
          | Some (pf, addc, trc, insT) =>
              if (if node_eqb n start then negb (Nat.eqb addc 0) || Nat.eqb trc 0 else Nat.eqb addc 0) then None else
              match out1 n with
              | None => None
              | Some out =>
                  if tobserved g out then None else
                  match af_consumers (consumers (tg_nodes g) out) (af_adds st) (af_pi st) (af_outs st) [] with
                  | None => None
                  | Some (pi, outsT, newq) => af_walk g start k (q ++ newq) (mkAF (af_adds st ++ [n]) pf pi insT outsT)
                  end
              end
          end
      end
  end.

Definition decide_addforest (g : tgraph) (start : node) : option forest :=
  if negb (is_add start) then None else
  match af_walk g start (collect_fuel g) [start] (mkAF [] None None [] []) with
  | Some st =>
      match af_adds st, af_pf st, af_pi st, af_outs st with
      | _ :: _, Some pf, Some pi, _ :: _ =>
          if inv_ok pf pi
             && negb (existsb (fun t => memn t (af_outs st)) (af_ins st))       (* no input Transpose is also an output Transpose *)
             && forallb no_caps (af_adds st ++ af_ins st ++ af_outs st)
          then Some (mkF (af_ins st) (af_adds st) (af_outs st)) else None
      | _, _, _, _ => None
      end
  | None => None
  end.

Definition addforest_step (g : tgraph) : option tgraph :=
  option_map (apply_forest g) (first_some (decide_addforest g) (tg_nodes g)).
Fixpoint addforest_pass (fuel : nat) (g : tgraph) : tgraph :=
  match fuel with O => g | S k => match addforest_step g with Some g' => addforest_pass k g' | None => g end end.
