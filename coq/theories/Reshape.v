(* Reshape (C02): row-major (C order) reshape of tensors-as-index-functions and the two algebraic facts
   the reshape passes rest on, for every rank and every extent (no bound):
     reshape (shape x) x == x                        (remove_identity_reshapes_ir)
     reshape s2 (reshape s1 x) == reshape s2 x       (remove_redundant_reshape_pairs_ir)
   Both come from: flatten / unflatten are mutually inverse bijections between the in-range multi-indices
   of a shape and [0, prod shape). *)
From Coq Require Import List Arith Lia.
From J2O Require Import Tensor.
Import ListNotations.

Fixpoint prod (s : list nat) : nat := match s with [] => 1 | d :: r => d * prod r end.

Fixpoint flatten (s idx : list nat) : nat :=
  match s, idx with
  | _ :: s', i :: idx' => i * prod s' + flatten s' idx'
  | _, _ => 0
  end.

Fixpoint unflatten (s : list nat) (k : nat) : list nat :=
  match s with
  | [] => []
  | _ :: s' => (k / prod s') :: unflatten s' (k mod prod s')
  end.

Lemma in_range_nil_l idx : in_range [] idx -> idx = [].
Proof. intro H. inversion H. reflexivity. Qed.

Lemma in_range_cons d s idx : in_range (d :: s) idx -> exists i r, idx = i :: r /\ i < d /\ in_range s r.
Proof. intro H. inversion H; subst. eauto. Qed.

Lemma in_range_prod_pos s idx : in_range s idx -> 0 < prod s.
Proof.
  revert idx. induction s as [|d s IH]; intros idx H; simpl; [lia|].
  destruct (in_range_cons _ _ _ H) as (i & r & -> & Hi & Hr). specialize (IH _ Hr). nia.
Qed.

Lemma flatten_lt s : forall idx, in_range s idx -> flatten s idx < prod s.
Proof.
  induction s as [|d s IH]; intros idx H.
  - rewrite (in_range_nil_l _ H). simpl. lia.
  - destruct (in_range_cons _ _ _ H) as (i & r & -> & Hi & Hr). simpl. specialize (IH _ Hr). nia.
Qed.

Lemma unflatten_in_range s : forall k, k < prod s -> in_range s (unflatten s k).
Proof.
  induction s as [|d s IH]; intros k Hk; simpl.
  - constructor.
  - simpl in Hk. assert (Hp : 0 < prod s) by (destruct (prod s); lia).
    constructor.
    + apply Nat.div_lt_upper_bound; lia.
    + apply IH. apply Nat.mod_upper_bound. lia.
Qed.

Theorem unflatten_flatten s : forall idx, in_range s idx -> unflatten s (flatten s idx) = idx.
Proof.
  induction s as [|d s IH]; intros idx H.
  - now rewrite (in_range_nil_l _ H).
  - destruct (in_range_cons _ _ _ H) as (i & r & -> & Hi & Hr). simpl.
    pose proof (flatten_lt s r Hr) as Hlt. pose proof (in_range_prod_pos s r Hr) as Hp.
    assert (Hdiv : (i * prod s + flatten s r) / prod s = i).
    { rewrite Nat.div_add_l by lia. rewrite Nat.div_small by lia. lia. }
    assert (Hmod : (i * prod s + flatten s r) mod prod s = flatten s r).
    { rewrite Nat.add_comm, Nat.mod_add by lia. apply Nat.mod_small. lia. }
    rewrite Hdiv, Hmod, (IH _ Hr). reflexivity.
Qed.

Theorem flatten_unflatten s : forall k, k < prod s -> flatten s (unflatten s k) = k.
Proof.
  induction s as [|d s IH]; intros k Hk; simpl in *.
  - lia.
  - assert (Hp : 0 < prod s) by (destruct (prod s); lia).
    rewrite IH by (apply Nat.mod_upper_bound; lia).
    pose proof (Nat.div_mod k (prod s)). lia.
Qed.

(* ONNX Reshape with a fully explicit, positive target (no 0 / -1 entries): element k of the row-major
   flattening of x becomes element k of the result *)
Definition reshape {A} (s : list nat) (x : tensor A) : tensor A :=
  mkT s (fun idx => at_ x (unflatten (shape x) (flatten s idx))).

Theorem reshape_identity {A} (x : tensor A) : teq (reshape (shape x) x) x.
Proof.
  split; [reflexivity|]. intros idx H. simpl in *. now rewrite unflatten_flatten.
Qed.

Theorem reshape_reshape {A} (s1 s2 : list nat) (x : tensor A) :
  prod s2 = prod s1 -> teq (reshape s2 (reshape s1 x)) (reshape s2 x).
Proof.
  intro Hp. split; [reflexivity|]. intros idx H. simpl in *.
  rewrite flatten_unflatten; [reflexivity|]. rewrite <- Hp. now apply flatten_lt.
Qed.

Lemma reshape_teq {A} s (x y : tensor A) : teq x y -> prod s = prod (shape x) -> teq (reshape s x) (reshape s y).
Proof.
  intros [Hs Hv] Hp. split; [reflexivity|]. intros idx H. simpl in *. rewrite <- Hs. apply Hv.
  apply unflatten_in_range. rewrite <- Hp. now apply flatten_lt.
Qed.

(* non-vacuity *)
Example reshape_2x3_to_3x2 :
  map (at_ (reshape [3; 2] (mkT [2; 3] (fun idx => flatten [2; 3] idx)))) [[0; 0]; [0; 1]; [1; 0]; [2; 1]] = [0; 1; 2; 5].
Proof. reflexivity. Qed.
