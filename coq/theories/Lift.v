(* Lift (C01): from scalar kernels to tensors and whole programs.
   Part 1  broadcast algebra: the order "s broadcasts to t" on shapes, composition of index alignment,
           least upper bounds; all ranks and extents, no bound.
   Part 2  a deep embedding kexpr of operator graphs with a scalar evaluation keval_s and a tensor evaluation
           keval_t (ONNX elementwise operators with multidirectional broadcasting, Batch.tmap2b and its unary /
           ternary / constant companions), and ONCE AND FOR ALL
              keval_lift : broadcasting (keval_t e Xs) to an index = keval_s e on the operands broadcast to it
           hence  keval_t e Xs == the elementwise map of keval_s e over the broadcast operands.
   Part 3  the exact kernels of Kernels.v as kexprs over the ONNX operator occurrences (oop), their soundness
           (keval_s of the kexpr is lowered_k, by computation) and the lifted correctness theorems.
   Part 4  (LiftProg.v) the program-level corollary through LoweringSem.lower_jaxpr_correct. *)
From Coq Require Import List Arith Lia Bool PeanoNat ZArith.
From J2O Require Import PyLib Dtype Tensor Batch OnnxInt Kernels.
Import ListNotations.

Set Implicit Arguments.


(* ================================================================ Part 1: broadcast algebra *)
Definition lastn {A} (m : nat) (l : list A) : list A := skipn (length l - m) l.
(* one dimension a stretches to b *)
Definition dsub (a b : nat) : Prop := a = 1 \/ a = b.
(* shape s broadcasts to shape t (numpy: s is right-aligned against t, every dim is 1 or equal) *)
Definition bsub (s t : list nat) : Prop := length s <= length t /\ Forall2 dsub s (lastn (length s) t).
(* the operands have a common broadcast shape (ONNX multidirectional broadcasting is defined exactly then) *)
Definition bcommon (shapes : list (list nat)) (u : list nat) : Prop := Forall (fun s => bsub s u) shapes.

Lemma lastn_length {A} m (l : list A) : m <= length l -> length (lastn m l) = m.
Proof. intro H. unfold lastn. rewrite skipn_length. lia. Qed.
Lemma lastn_all {A} (l : list A) : lastn (length l) l = l.
Proof. unfold lastn. now rewrite Nat.sub_diag. Qed.
Lemma lastn_0 {A} (l : list A) : lastn 0 l = [].
Proof. unfold lastn. rewrite Nat.sub_0_r. apply skipn_all. Qed.
Lemma skipn_plus {A} : forall y x (l : list A), skipn x (skipn y l) = skipn (y + x) l.
Proof. induction y as [|y IH]; intros x l; [reflexivity|]. destruct l; simpl; [now rewrite skipn_nil | apply IH]. Qed.
Lemma lastn_lastn {A} m n (l : list A) : m <= n -> n <= length l -> lastn m (lastn n l) = lastn m l.
Proof.
  intros H1 H2. unfold lastn. rewrite skipn_length, skipn_plus. f_equal. lia.
Qed.
Lemma skipn_map2 {A B C} (f : A -> B -> C) : forall k l m, skipn k (map2 f l m) = map2 f (skipn k l) (skipn k m).
Proof.
  induction k as [|k IH]; intros l m; [reflexivity|].
  destruct l as [|a l]; [reflexivity|]. destruct m as [|b m]; [simpl; now rewrite map2_nil_r|]. simpl. apply IH.
Qed.
Lemma lastn_map2 {A B C} (f : A -> B -> C) k l m : length l = length m ->
  lastn k (map2 f l m) = map2 f (lastn k l) (lastn k m).
Proof. intro H. unfold lastn. rewrite map2_length, skipn_map2, <- H, Nat.min_id. reflexivity. Qed.
Lemma lastn_app_r {A} (l1 l2 : list A) : lastn (length l2) (l1 ++ l2) = l2.
Proof.
  unfold lastn. rewrite app_length. replace (length l1 + length l2 - length l2) with (length l1) by lia.
  rewrite skipn_app, skipn_all, Nat.sub_diag. reflexivity.
Qed.
Lemma lastn_lpad_self n s : length s <= n -> lastn (length s) (lpad n s) = s.
Proof. intro H. unfold lpad. apply lastn_app_r. Qed.
Lemma firstn_lastn_split {A} m (l : list A) : m <= length l -> l = firstn (length l - m) l ++ lastn m l.
Proof. intro H. unfold lastn. symmetry. apply firstn_skipn. Qed.

Lemma Forall2_skipn {A B} (R : A -> B -> Prop) : forall k l m, Forall2 R l m -> Forall2 R (skipn k l) (skipn k m).
Proof.
  induction k as [|k IH]; intros l m H; [exact H|]. destruct H; simpl; [constructor | now apply IH].
Qed.
Lemma Forall2_len {A B} (R : A -> B -> Prop) l m : Forall2 R l m -> length l = length m.
Proof. induction 1; simpl; auto. Qed.
Lemma Forall2_lastn {A B} (R : A -> B -> Prop) k l m : Forall2 R l m -> Forall2 R (lastn k l) (lastn k m).
Proof. intro H. unfold lastn. rewrite (Forall2_len H). now apply Forall2_skipn. Qed.
Lemma Forall2_repeat_l {A B} (R : A -> B -> Prop) a : forall l, (forall b, R a b) -> Forall2 R (repeat a (length l)) l.
Proof. induction l as [|b l IH]; intro H; simpl; constructor; auto. Qed.

Lemma dsub_refl a : dsub a a. Proof. now right. Qed.
Lemma dsub_trans a b c : dsub a b -> dsub b c -> dsub a c.
Proof. unfold dsub. intros [H1|H1] [H2|H2]; subst; auto. Qed.
Lemma dsub_antisym a b : dsub a b -> dsub b a -> a = b.
Proof. unfold dsub. intros [H1|H1] [H2|H2]; subst; auto. Qed.

Lemma bsub_refl s : bsub s s.
Proof.
  split; [lia|]. rewrite lastn_all. induction s; constructor; auto using dsub_refl.
Qed.
Lemma bsub_nil u : bsub [] u.
Proof. split; [simpl; lia|]. simpl. rewrite lastn_0. constructor. Qed.
Lemma Forall2_trans3 {A} (R : A -> A -> Prop) (HR : forall a b c, R a b -> R b c -> R a c) :
  forall l m n, Forall2 R l m -> Forall2 R m n -> Forall2 R l n.
Proof.
  intros l m n H. revert n. induction H; intros n Hn; inversion Hn; subst; constructor; eauto.
Qed.
Lemma bsub_trans s t u : bsub s t -> bsub t u -> bsub s u.
Proof.
  intros [L1 F1] [L2 F2]. split; [lia|].
  apply (Forall2_lastn (length s)) in F2. rewrite lastn_lastn in F2 by lia.
  eapply Forall2_trans3; [exact dsub_trans | exact F1 | exact F2].
Qed.
Lemma bsub_antisym s t : bsub s t -> bsub t s -> s = t.
Proof.
  intros [L1 F1] [L2 F2]. assert (E : length s = length t) by lia.
  rewrite E, lastn_all in F1. rewrite <- E, lastn_all in F2.
  clear L1 L2 E. revert F2. induction F1; intro F2; inversion F2; subst; auto.
  f_equal; auto using dsub_antisym.
Qed.

(* the padded form of bsub *)
Lemma bsub_padded s u n : bsub s u -> length s <= n -> n <= length u -> Forall2 dsub (lpad n s) (lastn n u).
Proof.
  intros [L F] H1 H2. unfold lpad.
  rewrite (@firstn_lastn_split _ (length s) (lastn n u)) by (rewrite lastn_length; lia).
  rewrite lastn_lastn by lia. apply Forall2_app; [|exact F].
  rewrite lastn_length by lia.
  set (p := firstn (n - length s) (lastn n u)).
  assert (Hp : length p = n - length s) by (unfold p; rewrite firstn_length, lastn_length; lia).
  rewrite <- Hp. apply Forall2_repeat_l. intro b. now left.
Qed.

(* index alignment composes along the broadcast order *)
Lemma sel_sel i a b : dsub a b -> sel (sel i b) a = sel i a.
Proof.
  unfold dsub, sel. intros [->| ->]; [reflexivity|].
  destruct (Nat.eqb_spec b 1) as [->|]; [reflexivity|]. destruct (b =? 1) eqn:E; [apply Nat.eqb_eq in E; lia | reflexivity].
Qed.
Lemma map2_sel_sel : forall I T s, Forall2 dsub s T -> length I = length T ->
  map2 sel (map2 sel I T) s = map2 sel I s.
Proof.
  intros I T s H. revert I. induction H as [|a b s T Hab H IH]; intros [|i I] HL; simpl in *; try discriminate; auto.
  rewrite sel_sel by auto. f_equal. apply IH. lia.
Qed.
Lemma balign_lastn s idx : balign s idx = map2 sel (lastn (length s) idx) s.
Proof. reflexivity. Qed.
Lemma balign_length s idx : length s <= length idx -> length (balign s idx) = length s.
Proof. intro H. rewrite balign_lastn, map2_length, lastn_length by lia. lia. Qed.
Theorem balign_compose s t idx : bsub s t -> length t <= length idx -> balign s (balign t idx) = balign s idx.
Proof.
  intros [L F] H. rewrite (balign_lastn s (balign t idx)), (balign_lastn t idx).
  rewrite lastn_map2 by (rewrite lastn_length; lia). rewrite lastn_lastn by lia.
  rewrite map2_sel_sel; [reflexivity | exact F|]. rewrite !lastn_length; lia.
Qed.

(* an in-range output index aligns to an in-range operand index *)
Lemma sel_in_range : forall I U t, Forall2 lt I U -> Forall2 dsub t U -> Forall2 lt (map2 sel I t) t.
Proof.
  intros I U t H. revert t. induction H as [|i b I U Hib H IH]; intros t Ht; inversion Ht; subst; simpl; constructor; auto.
  unfold dsub, sel in *. destruct (Nat.eqb_spec x 1); lia.
Qed.
Lemma balign_in_range_sub t u idx : bsub t u -> in_range u idx -> in_range t (balign t idx).
Proof.
  intros [L F] Hr. unfold in_range in *. rewrite balign_lastn.
  apply sel_in_range with (U := lastn (length t) u); [|exact F].
  now apply Forall2_lastn.
Qed.

(* bcast_shape is the least upper bound *)
Lemma Forall2_map2_l {A B} (R : A -> A -> Prop) (f : A -> B -> A) : forall s w, length w = length s ->
  (forall a b, R a (f a b)) -> Forall2 R s (map2 f s w).
Proof. induction s as [|a s IH]; intros [|b w] H HR; simpl in *; try discriminate; constructor; auto. Qed.
Lemma bsub_bcast_l s t : bsub s (bcast_shape s t).
Proof.
  split; [rewrite bcast_shape_length; lia|]. unfold bcast_shape.
  set (n := Nat.max (length s) (length t)).
  rewrite lastn_map2 by (rewrite !lpad_length; lia). rewrite lastn_lpad_self by lia.
  apply Forall2_map2_l; [rewrite lastn_length; rewrite ?lpad_length; lia|].
  intros a b. unfold dsub, bdim. destruct (Nat.eqb_spec a 1); auto.
Qed.
Lemma bcompat_lastn s t : bcompat s t ->
  Forall2 (fun a b => a = b \/ a = 1 \/ b = 1) (lastn (length t) (lpad (Nat.max (length s) (length t)) s)) t.
Proof.
  intro H. unfold bcompat in H. apply (Forall2_lastn (length t)) in H. now rewrite lastn_lpad_self in H by lia.
Qed.
Lemma bsub_bcast_r s t : bcompat s t -> bsub t (bcast_shape s t).
Proof.
  intro Hc. split; [rewrite bcast_shape_length; lia|]. unfold bcast_shape.
  set (n := Nat.max (length s) (length t)).
  rewrite lastn_map2 by (rewrite !lpad_length; lia). rewrite lastn_lpad_self by lia.
  pose proof (bcompat_lastn Hc) as H. fold n in H. revert H.
  generalize (lastn (length t) (lpad n s)). clear. intros w H.
  induction H as [|a b w t' Hab H IH]; simpl; constructor; auto.
  unfold dsub, bdim. destruct (Nat.eqb_spec a 1); lia.
Qed.
Lemma dsub_bdim a b c : dsub a c -> dsub b c -> dsub (bdim a b) c.
Proof. unfold dsub, bdim. intros Ha Hb. destruct (Nat.eqb_spec a 1); auto. Qed.
Lemma Forall2_map2_lub {A} (R : A -> A -> Prop) (f : A -> A -> A) (Hf : forall a b c, R a c -> R b c -> R (f a b) c) :
  forall l m u, Forall2 R l u -> Forall2 R m u -> Forall2 R (map2 f l m) u.
Proof.
  intros l m u H. revert m. induction H; intros m Hm; inversion Hm; subst; simpl; constructor; auto.
Qed.
Theorem bsub_bcast_lub s t u : bsub s u -> bsub t u -> bsub (bcast_shape s t) u.
Proof.
  intros Hs Ht. pose proof (proj1 Hs). pose proof (proj1 Ht).
  split; [rewrite bcast_shape_length; lia|]. rewrite bcast_shape_length. unfold bcast_shape.
  set (n := Nat.max (length s) (length t)).
  apply Forall2_map2_lub; [exact dsub_bdim | apply bsub_padded; auto; lia | apply bsub_padded; auto; lia].
Qed.
Lemma bsub_bcompat s t u : bsub s u -> bsub t u -> bcompat s t.
Proof.
  intros Hs Ht. pose proof (proj1 Hs). pose proof (proj1 Ht). unfold bcompat.
  set (n := Nat.max (length s) (length t)).
  pose proof (bsub_padded (n := n) Hs ltac:(lia) ltac:(lia)) as F1.
  pose proof (bsub_padded (n := n) Ht ltac:(lia) ltac:(lia)) as F2.
  revert F2. generalize (lpad n t). induction F1 as [|a c l u' Hac F1 IH]; intros m F2; inversion F2; subst; constructor; auto.
  unfold dsub in *. lia.
Qed.
Lemma bcast_shape_absorb_l s u : bsub s u -> bcast_shape s u = u.
Proof.
  intro Hs. apply bsub_antisym.
  - apply bsub_bcast_lub; [exact Hs | apply bsub_refl].
  - apply bsub_bcast_r. eapply bsub_bcompat; [exact Hs | apply bsub_refl].
Qed.
Lemma bcast_shape_absorb_r s u : bsub s u -> bcast_shape u s = u.
Proof.
  intro Hs. apply bsub_antisym.
  - apply bsub_bcast_lub; [apply bsub_refl | exact Hs].
  - apply bsub_bcast_l.
Qed.
Lemma bcompat_common s t : bcompat s t -> bcommon [s; t] (bcast_shape s t).
Proof. intro H. constructor; [apply bsub_bcast_l | constructor; [now apply bsub_bcast_r | constructor]]. Qed.

(* the broadcast shape of a list of operands *)
Definition bshape_all (shapes : list (list nat)) : list nat := fold_right bcast_shape [] shapes.
Lemma bshape_all_lub shapes u : bcommon shapes u -> bsub (bshape_all shapes) u.
Proof.
  induction 1 as [|s shapes Hs H IH]; simpl; [apply bsub_nil | now apply bsub_bcast_lub].
Qed.
Lemma bshape_all_ub shapes u : bcommon shapes u -> bcommon shapes (bshape_all shapes).
Proof.
  induction 1 as [|s shapes Hs H IH].
  - constructor.
  - change (bshape_all (s :: shapes)) with (bcast_shape s (bshape_all shapes)).
    assert (Hc : bsub (bshape_all shapes) (bcast_shape s (bshape_all shapes))).
    { apply bsub_bcast_r. eapply bsub_bcompat; [exact Hs | now apply bshape_all_lub]. }
    constructor; [apply bsub_bcast_l|].
    unfold bcommon in IH. rewrite Forall_forall in IH. apply Forall_forall. intros t Ht.
    eapply bsub_trans; [apply IH; exact Ht | exact Hc].
Qed.

Lemma bcommon_nth shapes u : bcommon shapes u -> forall i, bsub (nth i shapes []) u.
Proof.
  intros H i. destruct (Nat.lt_ge_cases i (length shapes)) as [Hi|Hi].
  - unfold bcommon in H. rewrite Forall_forall in H. apply H. now apply nth_In.
  - rewrite nth_overflow by lia. apply bsub_nil.
Qed.

(* ================================================================ Part 2: operator graphs over tensors *)
Definition tscalar {A} (c : A) : tensor A := mkT [] (fun _ => c).
(* ternary elementwise operator with multidirectional broadcasting (ONNX Where / Clip) *)
Definition tmap3b {A B C D} (f : A -> B -> C -> D) (x : tensor A) (y : tensor B) (z : tensor C) : tensor D :=
  mkT (bcast_shape (shape x) (bcast_shape (shape y) (shape z)))
      (fun idx => f (bcast_at x idx) (bcast_at y idx) (bcast_at z idx)).

Section KExpr.
  Variable A : Type.
  Variables O1 O2 O3 : Type.                         (* operator occurrences of arity 1, 2, 3 *)
  Variable s1 : O1 -> A -> A.
  Variable s2 : O2 -> A -> A -> A.
  Variable s3 : O3 -> A -> A -> A -> A.
  Variable dflt : A.

  Inductive kexpr :=
  | KVar (i : nat)
  | KConst (c : A)
  | KOp1 (o : O1) (e : kexpr)
  | KOp2 (o : O2) (e1 e2 : kexpr)
  | KOp3 (o : O3) (e1 e2 e3 : kexpr).

  (* scalar evaluation: the function of one element of each operand *)
  Fixpoint keval_s (e : kexpr) (xs : list A) : A :=
    match e with
    | KVar i => nth i xs dflt
    | KConst c => c
    | KOp1 o a => s1 o (keval_s a xs)
    | KOp2 o a b => s2 o (keval_s a xs) (keval_s b xs)
    | KOp3 o a b c => s3 o (keval_s a xs) (keval_s b xs) (keval_s c xs)
    end.
  (* tensor evaluation: every operator is the ONNX elementwise operator with multidirectional broadcasting;
     a constant is a rank-0 tensor *)
  Fixpoint keval_t (e : kexpr) (Xs : list (tensor A)) : tensor A :=
    match e with
    | KVar i => nth i Xs (tscalar dflt)
    | KConst c => tscalar c
    | KOp1 o a => tmap (s1 o) (keval_t a Xs)
    | KOp2 o a b => tmap2b (s2 o) (keval_t a Xs) (keval_t b Xs)
    | KOp3 o a b c => tmap3b (s3 o) (keval_t a Xs) (keval_t b Xs) (keval_t c Xs)
    end.
  Fixpoint kshape (e : kexpr) (shapes : list (list nat)) : list nat :=
    match e with
    | KVar i => nth i shapes []
    | KConst _ => []
    | KOp1 _ a => kshape a shapes
    | KOp2 _ a b => bcast_shape (kshape a shapes) (kshape b shapes)
    | KOp3 _ a b c => bcast_shape (kshape a shapes) (bcast_shape (kshape b shapes) (kshape c shapes))
    end.
  (* every operator node sees broadcast-compatible operands *)
  Fixpoint kwf (e : kexpr) (shapes : list (list nat)) : Prop :=
    match e with
    | KVar _ | KConst _ => True
    | KOp1 _ a => kwf a shapes
    | KOp2 _ a b => kwf a shapes /\ kwf b shapes /\ bcompat (kshape a shapes) (kshape b shapes)
    | KOp3 _ a b c => kwf a shapes /\ kwf b shapes /\ kwf c shapes /\ bcompat (kshape b shapes) (kshape c shapes)
                      /\ bcompat (kshape a shapes) (bcast_shape (kshape b shapes) (kshape c shapes))
    end.
  Fixpoint kuses (i : nat) (e : kexpr) : Prop :=
    match e with
    | KVar j => i = j
    | KConst _ => False
    | KOp1 _ a => kuses i a
    | KOp2 _ a b => kuses i a \/ kuses i b
    | KOp3 _ a b c => kuses i a \/ kuses i b \/ kuses i c
    end.

  Lemma keval_t_shape e Xs : shape (keval_t e Xs) = kshape e (map (@shape A) Xs).
  Proof.
    induction e as [i|c|o a IH|o a IHa b IHb|o a IHa b IHb c IHc]; simpl.
    - change (@nil nat) with (shape (tscalar dflt)). now rewrite map_nth.
    - reflexivity.
    - exact IH.
    - now rewrite IHa, IHb.
    - now rewrite IHa, IHb, IHc.
  Qed.

  Lemma bcast_at_sub (T : tensor A) so idx : bsub (shape T) so -> length so <= length idx ->
    bcast_at T (balign so idx) = bcast_at T idx.
  Proof. intros Hs Hl. unfold bcast_at. now rewrite balign_compose. Qed.

  (* THE LIFTING THEOREM (once, by induction on the graph): broadcasting the tensor value of the graph to an index
     is the scalar function of the graph applied to the operands broadcast to that index *)
  Theorem keval_lift e Xs : kwf e (map (@shape A) Xs) ->
    forall idx, length (kshape e (map (@shape A) Xs)) <= length idx ->
    bcast_at (keval_t e Xs) idx = keval_s e (map (fun X => bcast_at X idx) Xs).
  Proof.
    induction e as [i|c|o a IH|o a IHa b IHb|o a IHa b IHb c IHc]; cbn [keval_t keval_s kshape kwf]; intros Hwf idx Hl.
    - change dflt with ((fun X : tensor A => bcast_at X idx) (tscalar dflt)) at 2. now rewrite map_nth.
    - reflexivity.
    - rewrite <- (IH Hwf idx Hl). reflexivity.
    - destruct Hwf as (Ha & Hb & Hc). rewrite bcast_shape_length in Hl.
      rewrite <- (IHa Ha idx) by lia. rewrite <- (IHb Hb idx) by lia.
      unfold bcast_at at 1. cbn [tmap2b at_ shape].
      rewrite !bcast_at_sub; auto; rewrite ?keval_t_shape, ?bcast_shape_length; try lia;
        [apply bsub_bcast_r; auto | apply bsub_bcast_l].
    - destruct Hwf as (Ha & Hb & Hc & Hbc & Habc). rewrite !bcast_shape_length in Hl.
      rewrite <- (IHa Ha idx) by lia. rewrite <- (IHb Hb idx) by lia. rewrite <- (IHc Hc idx) by lia.
      unfold bcast_at at 1. cbn [tmap3b at_ shape].
      rewrite !bcast_at_sub; auto; rewrite ?keval_t_shape, ?bcast_shape_length; try lia.
      + eapply bsub_trans; [apply bsub_bcast_r; exact Hbc | apply bsub_bcast_r; exact Habc].
      + eapply bsub_trans; [apply bsub_bcast_l | apply bsub_bcast_r; exact Habc].
      + apply bsub_bcast_l.
  Qed.

  (* the elementwise map of a scalar function of the operands over given shape *)
  Definition tmapF (sh : list nat) (F : list A -> A) (Xs : list (tensor A)) : tensor A :=
    mkT sh (fun idx => F (map (fun X => bcast_at X idx) Xs)).
  (* ... over the broadcast shape of all operands *)
  Definition tmapN (F : list A -> A) (Xs : list (tensor A)) : tensor A := tmapF (bshape_all (map (@shape A) Xs)) F Xs.

  Corollary keval_t_pointwise e Xs : kwf e (map (@shape A) Xs) ->
    teq (keval_t e Xs) (tmapF (kshape e (map (@shape A) Xs)) (keval_s e) Xs).
  Proof.
    intro Hwf. split; [apply keval_t_shape|]. intros idx Hi. simpl.
    rewrite <- (keval_lift e Xs Hwf idx).
    - unfold bcast_at. now rewrite balign_in_range.
    - rewrite <- keval_t_shape. apply in_range_length in Hi. lia.
  Qed.

  (* operands with a common broadcast shape make every graph over them well formed *)
  Lemma kwf_of_common e shapes u : (forall i, bsub (nth i shapes []) u) ->
    kwf e shapes /\ bsub (kshape e shapes) u.
  Proof.
    intro H. induction e as [i|c|o a IH|o a IHa b IHb|o a IHa b IHb c IHc]; simpl.
    - split; auto.
    - split; auto. apply bsub_nil.
    - exact IH.
    - destruct IHa as [Wa Sa], IHb as [Wb Sb]. split; [|now apply bsub_bcast_lub].
      repeat split; auto. eapply bsub_bcompat; eauto.
    - destruct IHa as [Wa Sa], IHb as [Wb Sb], IHc as [Wc Sc].
      assert (Sbc : bsub (bcast_shape (kshape b shapes) (kshape c shapes)) u) by now apply bsub_bcast_lub.
      split; [|now apply bsub_bcast_lub].
      repeat split; auto; eapply bsub_bcompat; eauto.
  Qed.
  (* the shape of the graph's value is an upper bound of the shapes of the operands it uses *)
  Lemma kshape_ub e shapes : kwf e shapes -> forall i, kuses i e -> bsub (nth i shapes []) (kshape e shapes).
  Proof.
    induction e as [j|c|o a IH|o a IHa b IHb|o a IHa b IHb c IHc]; simpl; intros Hwf i Hu.
    - subst. apply bsub_refl.
    - contradiction.
    - auto.
    - destruct Hwf as (Ha & Hb & Hc). destruct Hu as [Hu|Hu].
      + eapply bsub_trans; [apply IHa; auto | apply bsub_bcast_l].
      + eapply bsub_trans; [apply IHb; auto | now apply bsub_bcast_r].
    - destruct Hwf as (Ha & Hb & Hc & Hbc & Habc). destruct Hu as [Hu|[Hu|Hu]].
      + eapply bsub_trans; [apply IHa; auto | apply bsub_bcast_l].
      + eapply bsub_trans; [apply IHb; auto|]. eapply bsub_trans; [apply bsub_bcast_l | now apply bsub_bcast_r].
      + eapply bsub_trans; [apply IHc; auto|]. eapply bsub_trans; [apply bsub_bcast_r; exact Hbc | now apply bsub_bcast_r].
  Qed.
  (* a graph that uses every operand has the broadcast shape of all operands *)
  Theorem kshape_all_used e shapes u : bcommon shapes u -> (forall i, i < length shapes -> kuses i e) ->
    kshape e shapes = bshape_all shapes.
  Proof.
    intros Hc Hu. pose proof (bshape_all_ub Hc) as Hub.
    destruct (kwf_of_common e shapes (bcommon_nth Hub)) as [Hwf Hle].
    apply bsub_antisym; [exact Hle|].
    apply bshape_all_lub. unfold bcommon. apply Forall_forall. intros s Hs.
    apply In_nth with (d := []) in Hs as (i & Hi & <-). apply kshape_ub; auto.
  Qed.

  (* TENSOR-LEVEL MEANING OF A GRAPH: on operands with a common broadcast shape, a graph that uses all of them
     evaluates to the elementwise map of its scalar function over the broadcast operands *)
  Theorem keval_t_tmapN e Xs u : bcommon (map (@shape A) Xs) u -> (forall i, i < length Xs -> kuses i e) ->
    teq (keval_t e Xs) (tmapN (keval_s e) Xs).
  Proof.
    intros Hc Hu. unfold tmapN.
    rewrite <- (@kshape_all_used e (map (@shape A) Xs) u Hc) by (rewrite map_length; exact Hu).
    apply keval_t_pointwise. exact (proj1 (kwf_of_common e _ (bcommon_nth Hc))).
  Qed.
  (* and it agrees with any other scalar function that coincides on the elements met *)
  Theorem keval_t_tmapN_ext e Xs u (F : list A -> A) :
    bcommon (map (@shape A) Xs) u -> (forall i, i < length Xs -> kuses i e) ->
    (forall idx, in_range (bshape_all (map (@shape A) Xs)) idx ->
       keval_s e (map (fun X => bcast_at X idx) Xs) = F (map (fun X => bcast_at X idx) Xs)) ->
    teq (keval_t e Xs) (tmapN F Xs).
  Proof.
    intros Hc Hu HF. eapply teq_trans; [eapply keval_t_tmapN; eauto|].
    split; [reflexivity|]. intros idx Hi. simpl. now apply HF.
  Qed.
End KExpr.

Arguments KVar {A O1 O2 O3} i.
Arguments KConst {A O1 O2 O3} c.
Arguments KOp1 {A O1 O2 O3} o e.
Arguments KOp2 {A O1 O2 O3} o e1 e2.
Arguments KOp3 {A O1 O2 O3} o e1 e2 e3.

(* ---------------------------------------------------------------- the algebra, spelled out for plain functions *)
Section Algebra.
  Variable A : Type.
  Variable d : A.
  Let KE := kexpr A (A -> A) (A -> A -> A) (A -> A -> A -> A).
  Let ev_t := keval_t (fun f : A -> A => f) (fun f : A -> A -> A => f) (fun f : A -> A -> A -> A => f) d.
  Let ev_s := keval_s (fun f : A -> A => f) (fun f : A -> A -> A => f) (fun f : A -> A -> A -> A => f) d.

  Lemma tmapN_2 (F : A -> A -> A) (X Y : tensor A) :
    teq (tmapN (fun xs => F (nth 0 xs d) (nth 1 xs d)) [X; Y]) (tmap2b F X Y).
  Proof.
    split; simpl; [unfold bshape_all; simpl; now rewrite bcast_shape_nil_r | reflexivity].
  Qed.
  Lemma tmapN_3 (F : A -> A -> A -> A) (X Y Z : tensor A) :
    teq (tmapN (fun xs => F (nth 0 xs d) (nth 1 xs d) (nth 2 xs d)) [X; Y; Z]) (tmap3b F X Y Z).
  Proof.
    split; simpl; [unfold bshape_all; simpl; now rewrite bcast_shape_nil_r | reflexivity].
  Qed.

  (* composition of broadcasting elementwise operators = the elementwise operator of the composition *)
  Theorem tmap2b_tmap2b_l (f g : A -> A -> A) (X Y Z : tensor A) u : bcommon [shape X; shape Y; shape Z] u ->
    teq (tmap2b f (tmap2b g X Y) Z) (tmap3b (fun x y z => f (g x y) z) X Y Z).
  Proof.
    intro Hc. eapply teq_trans; [|apply tmapN_3].
    exact (@keval_t_tmapN A _ _ _ (fun f => f) (fun f => f) (fun f => f) d
             (KOp2 f (KOp2 g (KVar 0) (KVar 1)) (KVar 2)) [X; Y; Z] u Hc
             ltac:(intros i Hi; simpl in *; destruct i as [|[|[|i]]]; simpl; auto; lia)).
  Qed.
  Theorem tmap2b_tmap2b_r (f g : A -> A -> A) (X Y Z : tensor A) u : bcommon [shape X; shape Y; shape Z] u ->
    teq (tmap2b f X (tmap2b g Y Z)) (tmap3b (fun x y z => f x (g y z)) X Y Z).
  Proof.
    intro Hc. eapply teq_trans; [|apply tmapN_3].
    exact (@keval_t_tmapN A _ _ _ (fun f => f) (fun f => f) (fun f => f) d
             (KOp2 f (KVar 0) (KOp2 g (KVar 1) (KVar 2))) [X; Y; Z] u Hc
             ltac:(intros i Hi; simpl in *; destruct i as [|[|[|i]]]; simpl; auto; lia)).
  Qed.
  (* an operand used twice (x - (x / y) * y) *)
  Theorem tmap2b_shared (f g : A -> A -> A) (X Y : tensor A) : bcompat (shape X) (shape Y) ->
    teq (tmap2b f X (tmap2b g X Y)) (tmap2b (fun x y => f x (g x y)) X Y).
  Proof.
    intro Hc. eapply teq_trans; [|apply tmapN_2].
    exact (@keval_t_tmapN A _ _ _ (fun f => f) (fun f => f) (fun f => f) d
             (KOp2 f (KVar 0) (KOp2 g (KVar 0) (KVar 1))) [X; Y] _ (bcompat_common Hc)
             ltac:(intros i Hi; simpl in *; destruct i as [|[|i]]; simpl; auto; lia)).
  Qed.
  (* unary after binary, binary with a scalar constant (rank 0) on either side *)
  Theorem tmap_tmap2b (h : A -> A) (f : A -> A -> A) (X Y : tensor A) :
    teq (tmap h (tmap2b f X Y)) (tmap2b (fun x y => h (f x y)) X Y).
  Proof. split; reflexivity. Qed.
  Theorem tmap2b_const_r (f : A -> A -> A) (X : tensor A) (c : A) : teq (tmap2b f X (tscalar c)) (tmap (fun x => f x c) X).
  Proof.
    split; simpl; [apply bcast_shape_nil_r|]. intros idx Hi. rewrite bcast_shape_nil_r in Hi.
    unfold bcast_at. simpl. now rewrite balign_in_range.
  Qed.
  Theorem tmap2b_const_l (f : A -> A -> A) (X : tensor A) (c : A) : teq (tmap2b f (tscalar c) X) (tmap (fun x => f c x) X).
  Proof.
    split; simpl; [apply bcast_shape_nil_l|]. intros idx Hi. rewrite bcast_shape_nil_l in Hi.
    unfold bcast_at. simpl. now rewrite balign_in_range.
  Qed.
  (* a shape-[1,...,1] constant behaves like the scalar *)
  Theorem tmap2b_ones_r (f : A -> A -> A) (X : tensor A) (c : A) k : k <= rank X ->
    teq (tmap2b f X (mkT (repeat 1 k) (fun _ => c))) (tmap (fun x => f x c) X).
  Proof.
    intro Hk. assert (Hs : bsub (repeat 1 k) (shape X)).
    { split; [rewrite repeat_length; exact Hk|]. rewrite repeat_length.
      rewrite <- (@lastn_length _ k (shape X)) at 1 by exact Hk. apply Forall2_repeat_l. intro b. now left. }
    split; simpl; [now apply bcast_shape_absorb_r|]. intros idx Hi. rewrite bcast_shape_absorb_r in Hi by auto.
    unfold bcast_at. simpl. now rewrite balign_in_range.
  Qed.
End Algebra.

(* congruence of the tensor operators for teq (needed when intermediate values are only known up to teq) *)
Lemma tmap2b_teq {A B C} (f : A -> B -> C) x x' y y' : bcompat (shape x) (shape y) -> teq x x' -> teq y y' ->
  teq (tmap2b f x y) (tmap2b f x' y').
Proof.
  intros Hc [Sx Hx] [Sy Hy]. split; simpl; [now rewrite Sx, Sy|]. intros idx Hi.
  unfold bcast_at. rewrite <- Sx, <- Sy. f_equal.
  - apply Hx. eapply balign_in_range_sub; [apply bsub_bcast_l | exact Hi].
  - apply Hy. eapply balign_in_range_sub; [apply bsub_bcast_r; exact Hc | exact Hi].
Qed.
Lemma tmap3b_teq {A B C D} (f : A -> B -> C -> D) x x' y y' z z' :
  bcompat (shape y) (shape z) -> bcompat (shape x) (bcast_shape (shape y) (shape z)) ->
  teq x x' -> teq y y' -> teq z z' -> teq (tmap3b f x y z) (tmap3b f x' y' z').
Proof.
  intros Hyz Hx_ [Sx Hx] [Sy Hy] [Sz Hz]. split; simpl; [now rewrite Sx, Sy, Sz|]. intros idx Hi.
  unfold bcast_at. rewrite <- Sx, <- Sy, <- Sz. f_equal.
  - apply Hx. eapply balign_in_range_sub; [apply bsub_bcast_l | exact Hi].
  - apply Hy. eapply balign_in_range_sub; [|exact Hi].
    eapply bsub_trans; [apply bsub_bcast_l | apply bsub_bcast_r; exact Hx_].
  - apply Hz. eapply balign_in_range_sub; [|exact Hi].
    eapply bsub_trans; [apply bsub_bcast_r; exact Hyz | apply bsub_bcast_r; exact Hx_].
Qed.

(* ================================================================ Part 3: the exact kernels as operator graphs *)
Local Open Scope Z_scope.

(* scalar values of the three element kinds: integers (of any integer type), booleans, exact fractions (floats) *)
Inductive sval := VZ (z : Z) | VB (b : bool) | VQ (q : frac).
Inductive sk := SZ | SB | SQ.
Definition sden (k : sk) : Type := match k with SZ => Z | SB => bool | SQ => frac end.
Definition inj (k : sk) : sden k -> sval := match k with SZ => VZ | SB => VB | SQ => VQ end.
Definition prj (k : sk) : sval -> sden k :=
  match k return sval -> sden k with
  | SZ => fun v => match v with VZ z => z | _ => 0 end
  | SB => fun v => match v with VB b => b | _ => false end
  | SQ => fun v => match v with VQ q => q | _ => (0, 1) end
  end.
Definition lift1 a r (f : sden a -> sden r) : sval -> sval := fun x => inj r (f (prj a x)).
Definition lift2 a b r (f : sden a -> sden b -> sden r) : sval -> sval -> sval := fun x y => inj r (f (prj a x) (prj b y)).
Definition lift3 a b c r (f : sden a -> sden b -> sden c -> sden r) : sval -> sval -> sval -> sval :=
  fun x y z => inj r (f (prj a x) (prj b y) (prj c z)).
Definition sv0 : sval := VZ 0.

(* ONNX operator occurrences as they appear in the exported graphs: the operator, its attributes that matter, and
   the element type ONNX type inference assigns to it (the integer operators wrap in that type) *)
Inductive oop :=
  (* unary *)
  | ONeg (sb : ity) | OAbs (sb : ity) | OSign (sb : ity) | OBitNot (sb : ity) | ONot
  | OCast (t : ity) | OCastToBool | OCastOfBool (t : ity) | OCastFloat
  | ORound | OFloor | OCeil | OAbsF | OSignF | OIdentity | ORelu
  (* binary *)
  | OAdd (sb : ity) | OSub (sb : ity) | OMul (sb : ity) | ODiv (sb : ity) | OPow (sb : ity)
  | OMax | OMin | OAnd | OOr | OXor
  | OBitAnd (sb : ity) | OBitOr (sb : ity) | OBitXor (sb : ity) | OShl (sb : ity) | OShr (sb : ity)
  | OEqual | OLess | OLessEq | OGreater | OGreaterEq | OEqualB
  | OSubF | OEqualF | OAddF | OMulF
  (* ternary *)
  | OWhere | OWhereB | OClip.

Definition sem1 (o : oop) : sval -> sval :=
  match o with
  | ONeg sb => lift1 SZ SZ (o_neg sb) | OAbs sb => lift1 SZ SZ (o_abs sb) | OSign sb => lift1 SZ SZ (o_sign sb)
  | OBitNot sb => lift1 SZ SZ (o_bitnot sb) | ONot => lift1 SB SB o_not
  | OCast t => lift1 SZ SZ (o_cast t) | OCastToBool => lift1 SZ SB o_cast_to_bool
  | OCastOfBool t => lift1 SB SZ (o_cast_of_bool t) | OCastFloat => lift1 SZ SZ o_cast_float
  | ORound => lift1 SQ SZ o_round | OFloor => lift1 SQ SZ o_floor | OCeil => lift1 SQ SZ o_ceil
  | OAbsF => lift1 SQ SQ q_abs | OSignF => lift1 SQ SZ q_sign | ORelu => lift1 SZ SZ o_relu
  | _ => fun x => x
  end.
Definition sem2 (o : oop) : sval -> sval -> sval :=
  match o with
  | OAdd sb => lift2 SZ SZ SZ (o_add sb) | OSub sb => lift2 SZ SZ SZ (o_sub sb) | OMul sb => lift2 SZ SZ SZ (o_mul sb)
  | ODiv sb => lift2 SZ SZ SZ (o_div sb) | OPow sb => lift2 SZ SZ SZ (o_pow sb)
  | OMax => lift2 SZ SZ SZ o_max | OMin => lift2 SZ SZ SZ o_min
  | OAnd => lift2 SB SB SB o_and | OOr => lift2 SB SB SB o_or | OXor => lift2 SB SB SB o_xor
  | OBitAnd sb => lift2 SZ SZ SZ (o_bitand sb) | OBitOr sb => lift2 SZ SZ SZ (o_bitor sb)
  | OBitXor sb => lift2 SZ SZ SZ (o_bitxor sb) | OShl sb => lift2 SZ SZ SZ (o_shl sb) | OShr sb => lift2 SZ SZ SZ (o_shr sb)
  | OEqual => lift2 SZ SZ SB o_equal | OLess => lift2 SZ SZ SB o_less | OLessEq => lift2 SZ SZ SB o_le
  | OGreater => lift2 SZ SZ SB o_greater | OGreaterEq => lift2 SZ SZ SB o_ge | OEqualB => lift2 SB SB SB o_equal_b
  | OSubF => lift2 SQ SZ SQ q_sub_z | OEqualF => lift2 SQ SQ SB q_eqb
  | OAddF => lift2 SZ SZ SZ z_add | OMulF => lift2 SZ SZ SZ z_mul
  | _ => fun x _ => x
  end.
Definition sem3 (o : oop) : sval -> sval -> sval -> sval :=
  match o with
  | OWhere => lift3 SB SZ SZ SZ o_where | OWhereB => lift3 SB SB SB SB o_where_b | OClip => lift3 SZ SZ SZ SZ o_clip
  | _ => fun x _ _ => x
  end.

Definition kx := kexpr sval oop oop oop.
Definition kev_s : kx -> list sval -> sval := keval_s sem1 sem2 sem3 sv0.
Definition kev_t : kx -> list (tensor sval) -> tensor sval := keval_t sem1 sem2 sem3 sv0.
Definition v0 : kx := KVar 0.  Definition v1 : kx := KVar 1.  Definition v2 : kx := KVar 2.
Definition kz (z : Z) : kx := KConst (VZ z).

(* ---- the graphs (the Gallina image of what the plugins emit; tie S compares the REAL export with these) *)
Definition ke_add sb : kx := KOp2 (OAdd sb) v0 v1.
Definition ke_sub sb : kx := KOp2 (OSub sb) v0 v1.
Definition ke_mul sb : kx := KOp2 (OMul sb) v0 v1.
Definition ke_neg (sb : ity) : kx := if is_signed sb then KOp1 (ONeg sb) v0 else KOp2 (OSub sb) (kz 0) v0.
Definition ke_abs sb : kx := KOp1 (OAbs sb) v0.
Definition ke_sign sb : kx := KOp1 (OSign sb) v0.
Definition ke_div sb : kx := KOp2 (ODiv sb) v0 v1.
Definition ke_rem_of sb (x y : kx) : kx := KOp2 (OSub sb) x (KOp2 (OMul sb) (KOp2 (ODiv sb) x y) y).
Definition ke_rem sb : kx := ke_rem_of sb v0 v1.
Definition ke_floor_divide (sb : ity) : kx :=
  let q := KOp2 (ODiv sb) v0 v1 in
  let r := ke_rem_of sb v0 v1 in
  KOp3 OWhere (KOp2 OAnd (KOp1 ONot (KOp2 OEqual r (kz 0))) (KOp2 OXor (KOp2 OLess r (kz 0)) (KOp2 OLess v1 (kz 0))))
       (KOp2 (OSub sb) q (kz 1)) q.
Definition ke_guard : kx := KOp3 OWhere (KOp2 OEqual v1 (kz 0)) (kz 1) v1.
Definition ke_mod sb : kx :=
  let r := ke_rem_of sb v0 ke_guard in
  KOp3 OWhere (KOp2 OAnd (KOp1 ONot (KOp2 OEqualB (KOp2 OLess r (kz 0)) (KOp2 OLess ke_guard (kz 0))))
                         (KOp1 ONot (KOp2 OEqual r (kz 0))))
       (KOp2 (OAdd sb) r ke_guard) r.
Definition ke_fmod sb : kx := ke_rem_of sb v0 ke_guard.
Definition ke_max : kx := KOp2 OMax v0 v1.
Definition ke_min : kx := KOp2 OMin v0 v1.
Definition ke_clamp : kx := KOp2 OMin (KOp2 OMax v0 v1) v2.
Definition ke_relu (sb : ity) : kx := if is_signed sb then KOp1 ORelu v0 else KOp1 OIdentity v0.
Definition ke_clip_op : kx := KOp3 OClip v0 v1 v2.
Definition ke_relu6 : kx := KOp2 OMin (KOp1 OCastFloat (KOp2 OMax v0 (kz 0))) (kz 6).
Definition ke_select_n : kx := KOp3 OWhere v0 v2 v1.
Definition ke_select_n_b : kx := KOp3 OWhereB v0 v2 v1.
Definition ke_select_n_int : kx := KOp3 OWhere (KOp2 OEqual (KOp1 (OCast I64) v0) (kz 1)) v2 v1.
Definition ke_where : kx := KOp3 OWhere v0 v1 v2.
Definition ke_where_b : kx := KOp3 OWhereB v0 v1 v2.
Definition ke_bool_and : kx := KOp2 OAnd v0 v1.
Definition ke_bool_or : kx := KOp2 OOr v0 v1.
Definition ke_bool_xor : kx := KOp2 OXor v0 v1.
Definition ke_bool_not : kx := KOp1 ONot v0.
Definition ke_bitand sb : kx := KOp2 (OBitAnd sb) v0 v1.
Definition ke_bitor sb : kx := KOp2 (OBitOr sb) v0 v1.
Definition ke_bitxor sb : kx := KOp2 (OBitXor sb) v0 v1.
Definition ke_bitnot sb : kx := KOp1 (OBitNot sb) v0.
Definition ke_shift_left (sb : ity) : kx :=
  if is_signed sb then KOp1 (OCast sb) (KOp2 (OShl (utwin sb)) (KOp1 (OCast (utwin sb)) v0) (KOp1 (OCast (utwin sb)) v1))
  else KOp2 (OShl sb) v0 v1.
Definition ke_shift_right_logical (sb : ity) : kx :=
  if is_signed sb then KOp1 (OCast sb) (KOp2 (OShr (utwin sb)) (KOp1 (OCast (utwin sb)) v0) (KOp1 (OCast (utwin sb)) v1))
  else KOp2 (OShr sb) v0 v1.
Definition ke_sra_mask (ub : ity) (sc : kx) : kx :=
  KOp2 (OMul ub) (KOp2 (OShl ub) (kz (2 ^ snd ub - 1)) (KOp2 (OSub ub) (kz (snd ub)) sc))
                 (KOp1 (OCastOfBool ub) (KOp1 ONot (KOp2 OEqual sc (kz 0)))).
Definition ke_sra_signed (sb : ity) : kx :=
  let ub : ity := (false, snd sb) in
  let sc := KOp2 OMin (KOp1 (OCast ub) (KOp2 OMax v1 (kz 0))) (kz (snd sb)) in
  let shifted := KOp2 (OShr ub) (KOp1 (OCast ub) v0) sc in
  KOp1 (OCast sb) (KOp2 (OAdd ub) shifted
     (KOp2 (OMul ub) (KOp2 (OSub ub) (KOp2 (OBitOr ub) shifted (ke_sra_mask ub sc)) shifted)
                     (KOp1 (OCastOfBool ub) (KOp2 OLess v0 (kz 0))))).
Definition ke_sra_unsigned (sb : ity) : kx :=
  let sc := KOp2 OMin v1 (kz (snd sb)) in
  KOp2 (OBitOr sb) (KOp2 (OShr sb) v0 sc) (KOp2 (OMul sb) (ke_sra_mask sb sc) (KOp2 (OShr sb) v0 (kz (snd sb - 1)))).
Definition ke_shift_right_arithmetic (sb : ity) : kx := if is_signed sb then ke_sra_signed sb else ke_sra_unsigned sb.
Definition ke_eq : kx := KOp2 OEqual v0 v1.
Definition ke_ne : kx := KOp1 ONot (KOp2 OEqual v0 v1).
Definition ke_lt : kx := KOp2 OLess v0 v1.
Definition ke_le : kx := KOp2 OLessEq v0 v1.
Definition ke_gt : kx := KOp2 OGreater v0 v1.
Definition ke_ge : kx := KOp2 OGreaterEq v0 v1.
Definition ke_eq_b : kx := KOp2 OEqualB v0 v1.
Definition ke_ne_b : kx := KOp1 ONot (KOp2 OEqualB v0 v1).
Definition ke_floor : kx := KOp1 OFloor v0.
Definition ke_ceil : kx := KOp1 OCeil v0.
Definition ke_round : kx := KOp1 ORound v0.
Definition ke_round_away : kx :=
  KOp3 OWhere (KOp2 OEqualF (KOp2 OSubF (KOp1 OAbsF v0) (KOp1 OFloor (KOp1 OAbsF v0))) (KConst (VQ (1, 2))))
       (KOp2 OMulF (KOp1 OSignF v0) (KOp2 OAddF (KOp1 OFloor (KOp1 OAbsF v0)) (kz 1)))
       (KOp1 ORound v0).
Fixpoint ke_mul_chain (sb : ity) (k : nat) : kx :=
  match k with O => v0 | S k' => KOp2 (OMul sb) (ke_mul_chain sb k') v0 end.
Definition ke_integer_pow (sb : ity) (n : nat) : kx :=
  match n with O => KOp2 (OAdd sb) (KOp2 (OMul sb) v0 (kz 0)) (kz 1) | S O => KOp1 OIdentity v0 | S k => ke_mul_chain sb k end.
Definition ke_convert_int (t : ity) : kx := KOp1 (OCast t) v0.
Definition ke_convert_to_bool : kx := KOp1 OCastToBool v0.
Definition ke_convert_of_bool (t : ity) : kx := KOp1 (OCastOfBool t) v0.

(* ---- soundness of the embedding: the scalar function of each graph IS lowered_k (by computation) *)
Lemma ke_add_sound sb x y : kev_s (ke_add sb) [VZ x; VZ y] = VZ (lowered_add sb x y). Proof. reflexivity. Qed.
Lemma ke_sub_sound sb x y : kev_s (ke_sub sb) [VZ x; VZ y] = VZ (lowered_sub sb x y). Proof. reflexivity. Qed.
Lemma ke_mul_sound sb x y : kev_s (ke_mul sb) [VZ x; VZ y] = VZ (lowered_mul sb x y). Proof. reflexivity. Qed.
Lemma ke_neg_sound sb x : kev_s (ke_neg sb) [VZ x] = VZ (lowered_neg sb x).
Proof. unfold ke_neg, lowered_neg, repaired_neg. now destruct (is_signed sb). Qed.
Lemma ke_abs_sound sb x : kev_s (ke_abs sb) [VZ x] = VZ (lowered_abs sb x). Proof. reflexivity. Qed.
Lemma ke_sign_sound sb x : kev_s (ke_sign sb) [VZ x] = VZ (lowered_sign sb x). Proof. reflexivity. Qed.
Lemma ke_div_sound sb x y : kev_s (ke_div sb) [VZ x; VZ y] = VZ (lowered_div sb x y). Proof. reflexivity. Qed.
Lemma ke_rem_sound sb x y : kev_s (ke_rem sb) [VZ x; VZ y] = VZ (lowered_rem sb x y). Proof. reflexivity. Qed.
Lemma ke_floor_divide_sound sb x y : kev_s (ke_floor_divide sb) [VZ x; VZ y] = VZ (lowered_floor_divide sb x y).
Proof. reflexivity. Qed.
Lemma ke_clip_op_sound x lo hi : kev_s ke_clip_op [VZ x; VZ lo; VZ hi] = VZ (lowered_clip_op x lo hi). Proof. reflexivity. Qed.
Lemma ke_mod_sound sb x y : kev_s (ke_mod sb) [VZ x; VZ y] = VZ (lowered_mod sb x y). Proof. reflexivity. Qed.
Lemma ke_fmod_sound sb x y : kev_s (ke_fmod sb) [VZ x; VZ y] = VZ (lowered_fmod sb x y). Proof. reflexivity. Qed.
Lemma ke_max_sound x y : kev_s ke_max [VZ x; VZ y] = VZ (lowered_max x y). Proof. reflexivity. Qed.
Lemma ke_min_sound x y : kev_s ke_min [VZ x; VZ y] = VZ (lowered_min x y). Proof. reflexivity. Qed.
Lemma ke_clamp_sound x lo hi : kev_s ke_clamp [VZ x; VZ lo; VZ hi] = VZ (lowered_clamp x lo hi). Proof. reflexivity. Qed.
Lemma ke_clip_sound x lo hi : kev_s ke_clamp [VZ x; VZ lo; VZ hi] = VZ (lowered_clip x lo hi). Proof. reflexivity. Qed.
Lemma ke_relu_sound sb x : kev_s (ke_relu sb) [VZ x] = VZ (lowered_relu sb x).
Proof. unfold ke_relu, lowered_relu, repaired_relu. now destruct (is_signed sb). Qed.
Lemma ke_relu6_sound x : kev_s ke_relu6 [VZ x] = VZ (lowered_relu6 x). Proof. reflexivity. Qed.
Lemma ke_select_n_sound p x y : kev_s ke_select_n [VB p; VZ x; VZ y] = VZ (lowered_select_n p x y). Proof. reflexivity. Qed.
Lemma ke_select_n_b_sound p x y : kev_s ke_select_n_b [VB p; VB x; VB y] = VB (lowered_select_n_b p x y). Proof. reflexivity. Qed.
Lemma ke_select_n_int_sound p x y : kev_s ke_select_n_int [VZ p; VZ x; VZ y] = VZ (lowered_select_n_int p x y). Proof. reflexivity. Qed.
Lemma ke_where_sound p x y : kev_s ke_where [VB p; VZ x; VZ y] = VZ (lowered_where p x y). Proof. reflexivity. Qed.
Lemma ke_where_b_sound p x y : kev_s ke_where_b [VB p; VB x; VB y] = VB (lowered_where_b p x y). Proof. reflexivity. Qed.
Lemma ke_bool_and_sound a b : kev_s ke_bool_and [VB a; VB b] = VB (lowered_bool_and a b). Proof. reflexivity. Qed.
Lemma ke_bool_or_sound a b : kev_s ke_bool_or [VB a; VB b] = VB (lowered_bool_or a b). Proof. reflexivity. Qed.
Lemma ke_bool_xor_sound a b : kev_s ke_bool_xor [VB a; VB b] = VB (lowered_bool_xor a b). Proof. reflexivity. Qed.
Lemma ke_bool_not_sound a : kev_s ke_bool_not [VB a] = VB (lowered_bool_not a). Proof. reflexivity. Qed.
Lemma ke_bitand_sound sb x y : kev_s (ke_bitand sb) [VZ x; VZ y] = VZ (lowered_bitand sb x y). Proof. reflexivity. Qed.
Lemma ke_bitor_sound sb x y : kev_s (ke_bitor sb) [VZ x; VZ y] = VZ (lowered_bitor sb x y). Proof. reflexivity. Qed.
Lemma ke_bitxor_sound sb x y : kev_s (ke_bitxor sb) [VZ x; VZ y] = VZ (lowered_bitxor sb x y). Proof. reflexivity. Qed.
Lemma ke_bitnot_sound sb x : kev_s (ke_bitnot sb) [VZ x] = VZ (lowered_bitnot sb x). Proof. reflexivity. Qed.
Lemma ke_shift_left_sound sb x s : kev_s (ke_shift_left sb) [VZ x; VZ s] = VZ (lowered_shift_left sb x s).
Proof. unfold ke_shift_left, lowered_shift_left, repaired_shift_left. now destruct (is_signed sb). Qed.
Lemma ke_shift_right_logical_sound sb x s : kev_s (ke_shift_right_logical sb) [VZ x; VZ s] = VZ (lowered_shift_right_logical sb x s).
Proof. unfold ke_shift_right_logical, lowered_shift_right_logical, repaired_shift_right_logical. now destruct (is_signed sb). Qed.
Lemma ke_shift_right_arithmetic_sound sb x s :
  kev_s (ke_shift_right_arithmetic sb) [VZ x; VZ s] = VZ (lowered_shift_right_arithmetic sb x s).
Proof. unfold ke_shift_right_arithmetic, lowered_shift_right_arithmetic. now destruct (is_signed sb). Qed.
Lemma ke_eq_sound x y : kev_s ke_eq [VZ x; VZ y] = VB (lowered_eq x y). Proof. reflexivity. Qed.
Lemma ke_ne_sound x y : kev_s ke_ne [VZ x; VZ y] = VB (lowered_ne x y). Proof. reflexivity. Qed.
Lemma ke_lt_sound x y : kev_s ke_lt [VZ x; VZ y] = VB (lowered_lt x y). Proof. reflexivity. Qed.
Lemma ke_le_sound x y : kev_s ke_le [VZ x; VZ y] = VB (lowered_le x y). Proof. reflexivity. Qed.
Lemma ke_gt_sound x y : kev_s ke_gt [VZ x; VZ y] = VB (lowered_gt x y). Proof. reflexivity. Qed.
Lemma ke_ge_sound x y : kev_s ke_ge [VZ x; VZ y] = VB (lowered_ge x y). Proof. reflexivity. Qed.
Lemma ke_eq_b_sound a b : kev_s ke_eq_b [VB a; VB b] = VB (lowered_eq_b a b). Proof. reflexivity. Qed.
Lemma ke_ne_b_sound a b : kev_s ke_ne_b [VB a; VB b] = VB (lowered_ne_b a b). Proof. reflexivity. Qed.
Lemma ke_floor_sound q : kev_s ke_floor [VQ q] = VZ (lowered_floor q). Proof. reflexivity. Qed.
Lemma ke_ceil_sound q : kev_s ke_ceil [VQ q] = VZ (lowered_ceil q). Proof. reflexivity. Qed.
Lemma ke_round_sound q : kev_s ke_round [VQ q] = VZ (lowered_round q). Proof. reflexivity. Qed.
Lemma ke_round_away_sound q : kev_s ke_round_away [VQ q] = VZ (lowered_round_away q). Proof. reflexivity. Qed.
Lemma ke_mul_chain_sound sb x k : kev_s (ke_mul_chain sb k) [VZ x] = VZ (mul_chain sb x k).
Proof. induction k as [|k IH]; [reflexivity|]. cbn [ke_mul_chain mul_chain]. change (kev_s (KOp2 (OMul sb) (ke_mul_chain sb k) v0) [VZ x])
  with (sem2 (OMul sb) (kev_s (ke_mul_chain sb k) [VZ x]) (VZ x)). now rewrite IH. Qed.
Lemma ke_integer_pow_sound sb x n : kev_s (ke_integer_pow sb n) [VZ x] = VZ (lowered_integer_pow sb x n).
Proof. destruct n as [|[|k]]; try reflexivity. apply (ke_mul_chain_sound sb x (S k)). Qed.
Lemma ke_convert_int_sound t x : kev_s (ke_convert_int t) [VZ x] = VZ (lowered_convert_int t x). Proof. reflexivity. Qed.
Lemma ke_convert_to_bool_sound x : kev_s ke_convert_to_bool [VZ x] = VB (lowered_convert_to_bool x). Proof. reflexivity. Qed.
Lemma ke_convert_of_bool_sound t b : kev_s (ke_convert_of_bool t) [VB b] = VZ (lowered_convert_of_bool t b). Proof. reflexivity. Qed.

(* ---- the lifting theorem specialised to typed operands: tensors of integers / booleans / fractions are injected
   into sval tensors; the result is the injected elementwise JAX function with numpy broadcasting *)
Lemma prj_inj k (x : sden k) : prj k (inj k x) = x.
Proof. destruct k; reflexivity. Qed.
Lemma bcast_at_tmap {A B} (f : A -> B) (X : tensor A) idx : bcast_at (tmap f X) idx = f (bcast_at X idx).
Proof. reflexivity. Qed.

Theorem lift1_k ka kr (e : kx) (low jax : sden ka -> sden kr) (dom : sden ka -> Prop) :
  (forall x, kev_s e [inj ka x] = inj kr (low x)) -> kuses 0 e ->
  (forall x, dom x -> low x = jax x) ->
  forall X : tensor (sden ka), (forall idx, in_range (shape X) idx -> dom (at_ X idx)) ->
  teq (kev_t e [tmap (inj ka) X]) (tmap (inj kr) (tmap jax X)).
Proof.
  intros Hs Hu Hc X Hd.
  eapply teq_trans.
  - apply (@keval_t_tmapN_ext sval oop oop oop sem1 sem2 sem3 sv0 e [tmap (inj ka) X] (shape X)
             (fun xs => inj kr (jax (prj ka (nth 0 xs sv0))))).
    + constructor; [apply bsub_refl | constructor].
    + intros i Hi. simpl in Hi. destruct i as [|i]; [exact Hu | lia].
    + intros idx Hi. cbn [map]. rewrite bcast_at_tmap. fold (kev_s e [inj ka (bcast_at X idx)]).
      rewrite Hs. cbn [nth]. rewrite prj_inj. f_equal. apply Hc.
      unfold bshape_all in Hi. cbn [map fold_right shape tmap] in Hi. rewrite bcast_shape_nil_r in Hi.
      unfold bcast_at. rewrite balign_in_range by exact Hi. now apply Hd.
  - split; [unfold tmapN, tmapF, bshape_all; simpl; now rewrite bcast_shape_nil_r|].
    intros idx Hi. unfold tmapN, tmapF in *. cbn [at_ map nth shape tmap] in *. rewrite bcast_at_tmap, prj_inj.
    unfold bshape_all in Hi. cbn [map fold_right shape tmap] in Hi. rewrite bcast_shape_nil_r in Hi.
    unfold bcast_at. now rewrite balign_in_range.
Qed.

Theorem lift2_k ka kb kr (e : kx) (low jax : sden ka -> sden kb -> sden kr) (dom : sden ka -> sden kb -> Prop) :
  (forall x y, kev_s e [inj ka x; inj kb y] = inj kr (low x y)) -> kuses 0 e -> kuses 1 e ->
  (forall x y, dom x y -> low x y = jax x y) ->
  forall (X : tensor (sden ka)) (Y : tensor (sden kb)), bcompat (shape X) (shape Y) ->
  (forall idx, in_range (bcast_shape (shape X) (shape Y)) idx -> dom (bcast_at X idx) (bcast_at Y idx)) ->
  teq (kev_t e [tmap (inj ka) X; tmap (inj kb) Y]) (tmap (inj kr) (tmap2b jax X Y)).
Proof.
  intros Hs Hu0 Hu1 Hc X Y Hb Hd.
  assert (Hsh : bshape_all [shape X; shape Y] = bcast_shape (shape X) (shape Y))
    by (unfold bshape_all; simpl; now rewrite bcast_shape_nil_r).
  eapply teq_trans.
  - apply (@keval_t_tmapN_ext sval oop oop oop sem1 sem2 sem3 sv0 e [tmap (inj ka) X; tmap (inj kb) Y]
             (bcast_shape (shape X) (shape Y))
             (fun xs => inj kr (jax (prj ka (nth 0 xs sv0)) (prj kb (nth 1 xs sv0))))).
    + exact (bcompat_common Hb).
    + intros i Hi. simpl in Hi. destruct i as [|[|i]]; [exact Hu0 | exact Hu1 | lia].
    + intros idx Hi. cbn [map shape tmap] in *. rewrite Hsh in Hi. rewrite !bcast_at_tmap.
      fold (kev_s e [inj ka (bcast_at X idx); inj kb (bcast_at Y idx)]).
      rewrite Hs. cbn [nth]. rewrite !prj_inj. f_equal. apply Hc. now apply Hd.
  - split; [exact Hsh|].
    intros idx Hi. unfold tmapN, tmapF. cbn [at_ map nth tmap tmap2b]. now rewrite !bcast_at_tmap, !prj_inj.
Qed.

Theorem lift3_k ka kb kc kr (e : kx) (low jax : sden ka -> sden kb -> sden kc -> sden kr)
  (dom : sden ka -> sden kb -> sden kc -> Prop) :
  (forall x y z, kev_s e [inj ka x; inj kb y; inj kc z] = inj kr (low x y z)) -> kuses 0 e -> kuses 1 e -> kuses 2 e ->
  (forall x y z, dom x y z -> low x y z = jax x y z) ->
  forall (X : tensor (sden ka)) (Y : tensor (sden kb)) (Z : tensor (sden kc)) u,
  bcommon [shape X; shape Y; shape Z] u ->
  (forall idx, in_range (bcast_shape (shape X) (bcast_shape (shape Y) (shape Z))) idx ->
     dom (bcast_at X idx) (bcast_at Y idx) (bcast_at Z idx)) ->
  teq (kev_t e [tmap (inj ka) X; tmap (inj kb) Y; tmap (inj kc) Z]) (tmap (inj kr) (tmap3b jax X Y Z)).
Proof.
  intros Hs Hu0 Hu1 Hu2 Hc X Y Z u Hb Hd.
  assert (Hsh : bshape_all [shape X; shape Y; shape Z] = bcast_shape (shape X) (bcast_shape (shape Y) (shape Z)))
    by (unfold bshape_all; simpl; now rewrite bcast_shape_nil_r).
  eapply teq_trans.
  - apply (@keval_t_tmapN_ext sval oop oop oop sem1 sem2 sem3 sv0 e [tmap (inj ka) X; tmap (inj kb) Y; tmap (inj kc) Z] u
             (fun xs => inj kr (jax (prj ka (nth 0 xs sv0)) (prj kb (nth 1 xs sv0)) (prj kc (nth 2 xs sv0))))).
    + exact Hb.
    + intros i Hi. simpl in Hi. destruct i as [|[|[|i]]]; [exact Hu0 | exact Hu1 | exact Hu2 | lia].
    + intros idx Hi. cbn [map shape tmap] in *. rewrite Hsh in Hi. rewrite !bcast_at_tmap.
      fold (kev_s e [inj ka (bcast_at X idx); inj kb (bcast_at Y idx); inj kc (bcast_at Z idx)]).
      rewrite Hs. cbn [nth]. rewrite !prj_inj. f_equal. apply Hc. now apply Hd.
  - split; [exact Hsh|].
    intros idx Hi. unfold tmapN, tmapF. cbn [at_ map nth tmap tmap3b]. now rewrite !bcast_at_tmap, !prj_inj.
Qed.

(* every element of an integer tensor is a value of the element type *)
Definition tin (sb : ity) (X : tensor Z) : Prop := forall idx, in_range (shape X) idx -> in_int sb (at_ X idx).
Lemma tin_bcast sb X u idx : tin sb X -> bsub (shape X) u -> in_range u idx -> in_int sb (bcast_at X idx).
Proof. intros Ht Hs Hi. apply Ht. now apply balign_in_range_sub with (u := u). Qed.

(* ---- (c) THE LIFTED KERNEL THEOREMS: the tensor-level evaluation of the emitted operator graph on any
   broadcast-compatible operands is the tensor-level JAX function (elementwise jax_k over the broadcast operands).
   The side conditions are the scalar ones, required of every pair of elements that meet under broadcasting. *)
Definition zt (X : tensor Z) : tensor sval := tmap VZ X.
Definition bt (X : tensor bool) : tensor sval := tmap VB X.
Definition qt (X : tensor frac) : tensor sval := tmap VQ X.
Definition tdom1 {A} (P : A -> Prop) (X : tensor A) : Prop := forall idx, in_range (shape X) idx -> P (at_ X idx).
Definition tdom2 {A B} (P : A -> B -> Prop) (X : tensor A) (Y : tensor B) : Prop :=
  forall idx, in_range (bcast_shape (shape X) (shape Y)) idx -> P (bcast_at X idx) (bcast_at Y idx).
Definition tdom3 {A B C} (P : A -> B -> C -> Prop) (X : tensor A) (Y : tensor B) (Z : tensor C) : Prop :=
  forall idx, in_range (bcast_shape (shape X) (bcast_shape (shape Y) (shape Z))) idx ->
    P (bcast_at X idx) (bcast_at Y idx) (bcast_at Z idx).
Definition ttrue2 {A B} : A -> B -> Prop := fun _ _ => True.
Definition ttrue3 {A B C} : A -> B -> C -> Prop := fun _ _ _ => True.
Lemma tdom2_true {A B} (X : tensor A) (Y : tensor B) : tdom2 ttrue2 X Y. Proof. intros idx _. exact I. Qed.
Lemma tdom3_true {A B C} (X : tensor A) (Y : tensor B) (Z : tensor C) : tdom3 ttrue3 X Y Z. Proof. intros idx _. exact I. Qed.

Ltac kuses_tac := unfold ke_neg, ke_relu, ke_shift_left, ke_shift_right_logical, ke_shift_right_arithmetic; repeat (cbn; try match goal with |- context [if is_signed ?s then _ else _] => destruct (is_signed s) end); tauto.

Section Lifted.
  Variable sb : ity.
  Hypothesis Hb : 0 < snd sb.

  Theorem add_lifted X Y : bcompat (shape X) (shape Y) ->
    teq (kev_t (ke_add sb) [zt X; zt Y]) (zt (tmap2b (jax_add sb) X Y)).
  Proof. intro H. apply (@lift2_k SZ SZ SZ (ke_add sb) (lowered_add sb) (jax_add sb) ttrue2); auto using tdom2_true; try kuses_tac; try (intros idx _; exact I). Qed.
  Theorem sub_lifted X Y : bcompat (shape X) (shape Y) ->
    teq (kev_t (ke_sub sb) [zt X; zt Y]) (zt (tmap2b (jax_sub sb) X Y)).
  Proof. intro H. apply (@lift2_k SZ SZ SZ (ke_sub sb) (lowered_sub sb) (jax_sub sb) ttrue2); auto using tdom2_true; try kuses_tac; try (intros idx _; exact I). Qed.
  Theorem mul_lifted X Y : bcompat (shape X) (shape Y) ->
    teq (kev_t (ke_mul sb) [zt X; zt Y]) (zt (tmap2b (jax_mul sb) X Y)).
  Proof. intro H. apply (@lift2_k SZ SZ SZ (ke_mul sb) (lowered_mul sb) (jax_mul sb) ttrue2); auto using tdom2_true; try kuses_tac; try (intros idx _; exact I). Qed.
  Theorem neg_lifted X : tdom1 (in_int sb) X -> teq (kev_t (ke_neg sb) [zt X]) (zt (tmap (jax_neg sb) X)).
  Proof.
    intro H. apply (@lift1_k SZ SZ (ke_neg sb) (lowered_neg sb) (jax_neg sb) (in_int sb)); auto.
    - intro x. apply ke_neg_sound. - kuses_tac. - intros x Hx. now apply neg_correct.
  Qed.
  Theorem abs_lifted X : is_signed sb = true -> tdom1 (in_int sb) X -> teq (kev_t (ke_abs sb) [zt X]) (zt (tmap (jax_abs sb) X)).
  Proof.
    intros Hs H. apply (@lift1_k SZ SZ (ke_abs sb) (lowered_abs sb) (jax_abs sb) (in_int sb)); auto.
    - kuses_tac. - intros x Hx. now apply abs_correct.
  Qed.
  Theorem sign_lifted X : tdom1 (in_int sb) X -> teq (kev_t (ke_sign sb) [zt X]) (zt (tmap (jax_sign sb) X)).
  Proof.
    intro H. apply (@lift1_k SZ SZ (ke_sign sb) (lowered_sign sb) (jax_sign sb) (in_int sb)); auto.
    - kuses_tac. - intros x Hx. now apply sign_correct.
  Qed.
  Theorem bitnot_lifted X : tdom1 (in_int sb) X -> teq (kev_t (ke_bitnot sb) [zt X]) (zt (tmap (jax_bitnot sb) X)).
  Proof.
    intro H. apply (@lift1_k SZ SZ (ke_bitnot sb) (lowered_bitnot sb) (jax_bitnot sb) (in_int sb)); auto.
    - kuses_tac. - intros x Hx. now apply bitnot_correct.
  Qed.
  (* division family: no division by zero and no INT_MIN / -1 at any pair of elements that meet *)
  Theorem div_lifted X Y : bcompat (shape X) (shape Y) ->
    tdom2 (fun x y => in_int sb x /\ in_int sb y /\ div_dom sb x y) X Y ->
    teq (kev_t (ke_div sb) [zt X; zt Y]) (zt (tmap2b (jax_div sb) X Y)).
  Proof.
    intros H Hd. apply (@lift2_k SZ SZ SZ (ke_div sb) (lowered_div sb) (jax_div sb) _ (ke_div_sound sb)) with (5 := Hd); auto; try kuses_tac.
    intros x y (Hx & Hy & Hxy). now apply div_correct.
  Qed.
  Theorem rem_lifted X Y : bcompat (shape X) (shape Y) ->
    tdom2 (fun x y => in_int sb x /\ in_int sb y /\ y <> 0) X Y ->
    teq (kev_t (ke_rem sb) [zt X; zt Y]) (zt (tmap2b (jax_rem sb) X Y)).
  Proof.
    intros H Hd. apply (@lift2_k SZ SZ SZ (ke_rem sb) (lowered_rem sb) (jax_rem sb) _ (ke_rem_sound sb)) with (5 := Hd); auto; try kuses_tac.
    intros x y (Hx & Hy & Hxy). now apply rem_correct.
  Qed.
  Theorem floor_divide_lifted X Y : bcompat (shape X) (shape Y) ->
    tdom2 (fun x y => in_int sb x /\ in_int sb y /\ div_dom sb x y) X Y ->
    teq (kev_t (ke_floor_divide sb) [zt X; zt Y]) (zt (tmap2b (jax_floor_divide sb) X Y)).
  Proof.
    intros H Hd. apply (@lift2_k SZ SZ SZ (ke_floor_divide sb) (lowered_floor_divide sb) (jax_floor_divide sb) _ (ke_floor_divide_sound sb)) with (5 := Hd); auto; try kuses_tac.
    intros x y (Hx & Hy & Hxy). now apply floor_divide_correct.
  Qed.
  Theorem mod_lifted X Y : in_int sb 1 -> bcompat (shape X) (shape Y) ->
    tdom2 (fun x y => in_int sb x /\ in_int sb y) X Y ->
    teq (kev_t (ke_mod sb) [zt X; zt Y]) (zt (tmap2b (jax_mod sb) X Y)).
  Proof.
    intros H1 H Hd. apply (@lift2_k SZ SZ SZ (ke_mod sb) (lowered_mod sb) (jax_mod sb) _ (ke_mod_sound sb)) with (5 := Hd); auto; try kuses_tac.
    intros x y (Hx & Hy). now apply mod_correct.
  Qed.
  Theorem fmod_lifted X Y : in_int sb 1 -> bcompat (shape X) (shape Y) ->
    tdom2 (fun x y => in_int sb x /\ in_int sb y) X Y ->
    teq (kev_t (ke_fmod sb) [zt X; zt Y]) (zt (tmap2b (jax_fmod sb) X Y)).
  Proof.
    intros H1 H Hd. apply (@lift2_k SZ SZ SZ (ke_fmod sb) (lowered_fmod sb) (jax_fmod sb) _ (ke_fmod_sound sb)) with (5 := Hd); auto; try kuses_tac.
    intros x y (Hx & Hy). now apply fmod_correct.
  Qed.
  Theorem bitand_lifted X Y : bcompat (shape X) (shape Y) ->
    teq (kev_t (ke_bitand sb) [zt X; zt Y]) (zt (tmap2b (jax_bitand sb) X Y)).
  Proof. intro H. apply (@lift2_k SZ SZ SZ (ke_bitand sb) (lowered_bitand sb) (jax_bitand sb) ttrue2); auto using tdom2_true; try kuses_tac; try (intros idx _; exact I). Qed.
  Theorem bitor_lifted X Y : bcompat (shape X) (shape Y) ->
    teq (kev_t (ke_bitor sb) [zt X; zt Y]) (zt (tmap2b (jax_bitor sb) X Y)).
  Proof. intro H. apply (@lift2_k SZ SZ SZ (ke_bitor sb) (lowered_bitor sb) (jax_bitor sb) ttrue2); auto using tdom2_true; try kuses_tac; try (intros idx _; exact I). Qed.
  Theorem bitxor_lifted X Y : bcompat (shape X) (shape Y) ->
    teq (kev_t (ke_bitxor sb) [zt X; zt Y]) (zt (tmap2b (jax_bitxor sb) X Y)).
  Proof. intro H. apply (@lift2_k SZ SZ SZ (ke_bitxor sb) (lowered_bitxor sb) (jax_bitxor sb) ttrue2); auto using tdom2_true; try kuses_tac; try (intros idx _; exact I). Qed.
  (* shifts: the amounts are non-negative values of the element type *)
  Theorem shift_left_lifted X S : bcompat (shape X) (shape S) ->
    tdom2 (fun x s => in_int sb s /\ 0 <= s) X S ->
    teq (kev_t (ke_shift_left sb) [zt X; zt S]) (zt (tmap2b (jax_shift_left sb) X S)).
  Proof.
    intros H Hd. apply (@lift2_k SZ SZ SZ (ke_shift_left sb) (lowered_shift_left sb) (jax_shift_left sb) _ (ke_shift_left_sound sb)) with (5 := Hd); auto; try kuses_tac.
    intros x s (Hs & H0). now apply shift_left_correct.
  Qed.
  Theorem shift_right_logical_lifted X S : bcompat (shape X) (shape S) ->
    tdom2 (fun x s => in_int sb x /\ in_int sb s /\ 0 <= s) X S ->
    teq (kev_t (ke_shift_right_logical sb) [zt X; zt S]) (zt (tmap2b (jax_shift_right_logical sb) X S)).
  Proof.
    intros H Hd. apply (@lift2_k SZ SZ SZ (ke_shift_right_logical sb) (lowered_shift_right_logical sb) (jax_shift_right_logical sb) _ (ke_shift_right_logical_sound sb)) with (5 := Hd); auto; try kuses_tac.
    intros x s (Hx & Hs & H0). now apply shift_right_logical_correct.
  Qed.
  Theorem shift_right_arithmetic_lifted X S : bcompat (shape X) (shape S) ->
    tdom2 (fun x s => in_int sb x /\ in_int sb s /\ 0 <= s) X S ->
    teq (kev_t (ke_shift_right_arithmetic sb) [zt X; zt S]) (zt (tmap2b (jax_shift_right_arithmetic sb) X S)).
  Proof.
    intros H Hd. apply (@lift2_k SZ SZ SZ (ke_shift_right_arithmetic sb) (lowered_shift_right_arithmetic sb) (jax_shift_right_arithmetic sb) _ (ke_shift_right_arithmetic_sound sb)) with (5 := Hd); auto; try kuses_tac.
    intros x s (Hx & Hs & H0). now apply shift_right_arithmetic_correct.
  Qed.
  Theorem integer_pow_lifted n X : tdom1 (in_int sb) X ->
    teq (kev_t (ke_integer_pow sb n) [zt X]) (zt (tmap (fun x => jax_integer_pow sb x n) X)).
  Proof.
    intro H. apply (@lift1_k SZ SZ (ke_integer_pow sb n) (fun x => lowered_integer_pow sb x n) (fun x => jax_integer_pow sb x n) (in_int sb)); auto.
    - intro x. apply ke_integer_pow_sound.
    - destruct n as [|[|k]]; cbn; tauto.
    - intros x Hx. now apply integer_pow_correct.
  Qed.
  Theorem convert_int_lifted X : teq (kev_t (ke_convert_int sb) [zt X]) (zt (tmap (jax_convert_int sb) X)).
  Proof.
    apply (@lift1_k SZ SZ (ke_convert_int sb) (lowered_convert_int sb) (jax_convert_int sb) (fun _ => True)); auto; try kuses_tac; try (intros idx _; exact I).
  Qed.
  Theorem convert_of_bool_lifted (X : tensor bool) : teq (kev_t (ke_convert_of_bool sb) [bt X]) (zt (tmap (jax_convert_of_bool sb) X)).
  Proof.
    apply (@lift1_k SB SZ (ke_convert_of_bool sb) (lowered_convert_of_bool sb) (jax_convert_of_bool sb) (fun _ => True)); auto; try kuses_tac; try (intros idx _; exact I).
  Qed.
End Lifted.

(* kernels that do not depend on the element type *)
Theorem max_lifted X Y : bcompat (shape X) (shape Y) -> teq (kev_t ke_max [zt X; zt Y]) (zt (tmap2b jax_max X Y)).
Proof. intro H. apply (@lift2_k SZ SZ SZ ke_max lowered_max jax_max ttrue2); auto using tdom2_true, max_correct; try kuses_tac; try (intros idx _; exact I). Qed.
Theorem min_lifted X Y : bcompat (shape X) (shape Y) -> teq (kev_t ke_min [zt X; zt Y]) (zt (tmap2b jax_min X Y)).
Proof. intro H. apply (@lift2_k SZ SZ SZ ke_min lowered_min jax_min ttrue2); auto using tdom2_true, min_correct; try kuses_tac; try (intros idx _; exact I). Qed.
Theorem clamp_lifted X Lo Hi u : bcommon [shape X; shape Lo; shape Hi] u ->
  teq (kev_t ke_clamp [zt X; zt Lo; zt Hi]) (zt (tmap3b jax_clamp X Lo Hi)).
Proof. intro H. apply (@lift3_k SZ SZ SZ SZ ke_clamp lowered_clamp jax_clamp ttrue3) with (u := u); auto using tdom3_true, clamp_correct; try kuses_tac; try (intros idx _; exact I). Qed.
Theorem clip_lifted X Lo Hi u : bcommon [shape X; shape Lo; shape Hi] u ->
  teq (kev_t ke_clamp [zt X; zt Lo; zt Hi]) (zt (tmap3b jax_clip X Lo Hi)).
Proof. intro H. apply (@lift3_k SZ SZ SZ SZ ke_clamp lowered_clip jax_clip ttrue3) with (u := u); auto using tdom3_true, clip_correct; try kuses_tac; try (intros idx _; exact I). Qed.
Theorem clip_op_lifted X Lo Hi u : bcommon [shape X; shape Lo; shape Hi] u ->
  teq (kev_t ke_clip_op [zt X; zt Lo; zt Hi]) (zt (tmap3b jax_clip X Lo Hi)).
Proof. intro H. apply (@lift3_k SZ SZ SZ SZ ke_clip_op lowered_clip_op jax_clip ttrue3) with (u := u); auto using tdom3_true, clip_op_correct; try kuses_tac; try (intros idx _; exact I). Qed.
Theorem relu_lifted sb X : tdom1 (in_int sb) X -> teq (kev_t (ke_relu sb) [zt X]) (zt (tmap jax_relu X)).
Proof.
  intro H. apply (@lift1_k SZ SZ (ke_relu sb) (lowered_relu sb) jax_relu (in_int sb)); auto.
  - intro x. apply ke_relu_sound. - unfold ke_relu. destruct (is_signed sb); cbn; tauto. - intros x Hx. now apply relu_correct.
Qed.
Theorem relu6_lifted X : teq (kev_t ke_relu6 [zt X]) (zt (tmap jax_relu6 X)).
Proof. apply (@lift1_k SZ SZ ke_relu6 lowered_relu6 jax_relu6 (fun _ => True)); auto using relu6_correct; try kuses_tac; try (intros idx _; exact I). Qed.
Theorem select_n_lifted (P : tensor bool) X Y u : bcommon [shape P; shape X; shape Y] u ->
  teq (kev_t ke_select_n [bt P; zt X; zt Y]) (zt (tmap3b jax_select_n P X Y)).
Proof. intro H. apply (@lift3_k SB SZ SZ SZ ke_select_n lowered_select_n jax_select_n ttrue3) with (u := u); auto using tdom3_true; try kuses_tac; try (intros idx _; exact I). Qed.
Theorem select_n_bool_lifted (P X Y : tensor bool) u : bcommon [shape P; shape X; shape Y] u ->
  teq (kev_t ke_select_n_b [bt P; bt X; bt Y]) (bt (tmap3b jax_select_n_b P X Y)).
Proof. intro H. apply (@lift3_k SB SB SB SB ke_select_n_b lowered_select_n_b jax_select_n_b ttrue3) with (u := u); auto using tdom3_true; try kuses_tac; try (intros idx _; exact I). Qed.
Theorem select_n_int_lifted P X Y u : bcommon [shape P; shape X; shape Y] u ->
  tdom3 (fun p _ _ => p = 0 \/ p = 1) P X Y ->
  teq (kev_t ke_select_n_int [zt P; zt X; zt Y]) (zt (tmap3b jax_select_n_int P X Y)).
Proof.
  intros H Hd.
  apply (@lift3_k SZ SZ SZ SZ ke_select_n_int lowered_select_n_int jax_select_n_int (fun p _ _ => p = 0 \/ p = 1) ke_select_n_int_sound)
    with (u := u); auto; try kuses_tac; try exact Hd.
  intros p x y Hp. now apply select_n_int_correct.
Qed.
Theorem where_lifted (P : tensor bool) X Y u : bcommon [shape P; shape X; shape Y] u ->
  teq (kev_t ke_where [bt P; zt X; zt Y]) (zt (tmap3b jax_where P X Y)).
Proof. intro H. apply (@lift3_k SB SZ SZ SZ ke_where lowered_where jax_where ttrue3) with (u := u); auto using tdom3_true; try kuses_tac; try (intros idx _; exact I). Qed.
Theorem where_bool_lifted (P X Y : tensor bool) u : bcommon [shape P; shape X; shape Y] u ->
  teq (kev_t ke_where_b [bt P; bt X; bt Y]) (bt (tmap3b jax_where_b P X Y)).
Proof. intro H. apply (@lift3_k SB SB SB SB ke_where_b lowered_where_b jax_where_b ttrue3) with (u := u); auto using tdom3_true; try kuses_tac; try (intros idx _; exact I). Qed.
Theorem bool_and_lifted (X Y : tensor bool) : bcompat (shape X) (shape Y) -> teq (kev_t ke_bool_and [bt X; bt Y]) (bt (tmap2b jax_bool_and X Y)).
Proof. intro H. apply (@lift2_k SB SB SB ke_bool_and lowered_bool_and jax_bool_and ttrue2); auto using tdom2_true, bool_and_correct; try kuses_tac; try (intros idx _; exact I). Qed.
Theorem bool_or_lifted (X Y : tensor bool) : bcompat (shape X) (shape Y) -> teq (kev_t ke_bool_or [bt X; bt Y]) (bt (tmap2b jax_bool_or X Y)).
Proof. intro H. apply (@lift2_k SB SB SB ke_bool_or lowered_bool_or jax_bool_or ttrue2); auto using tdom2_true, bool_or_correct; try kuses_tac; try (intros idx _; exact I). Qed.
Theorem bool_xor_lifted (X Y : tensor bool) : bcompat (shape X) (shape Y) -> teq (kev_t ke_bool_xor [bt X; bt Y]) (bt (tmap2b jax_bool_xor X Y)).
Proof. intro H. apply (@lift2_k SB SB SB ke_bool_xor lowered_bool_xor jax_bool_xor ttrue2); auto using tdom2_true, bool_xor_correct; try kuses_tac; try (intros idx _; exact I). Qed.
Theorem bool_not_lifted (X : tensor bool) : teq (kev_t ke_bool_not [bt X]) (bt (tmap jax_bool_not X)).
Proof. apply (@lift1_k SB SB ke_bool_not lowered_bool_not jax_bool_not (fun _ => True)); auto using bool_not_correct; try kuses_tac; try (intros idx _; exact I). Qed.
Theorem eq_lifted X Y : bcompat (shape X) (shape Y) -> teq (kev_t ke_eq [zt X; zt Y]) (bt (tmap2b jax_eq X Y)).
Proof. intro H. apply (@lift2_k SZ SZ SB ke_eq lowered_eq jax_eq ttrue2); auto using tdom2_true; try kuses_tac; try (intros idx _; exact I). Qed.
Theorem ne_lifted X Y : bcompat (shape X) (shape Y) -> teq (kev_t ke_ne [zt X; zt Y]) (bt (tmap2b jax_ne X Y)).
Proof. intro H. apply (@lift2_k SZ SZ SB ke_ne lowered_ne jax_ne ttrue2); auto using tdom2_true; try kuses_tac; try (intros idx _; exact I). Qed.
Theorem lt_lifted X Y : bcompat (shape X) (shape Y) -> teq (kev_t ke_lt [zt X; zt Y]) (bt (tmap2b jax_lt X Y)).
Proof. intro H. apply (@lift2_k SZ SZ SB ke_lt lowered_lt jax_lt ttrue2); auto using tdom2_true; try kuses_tac; try (intros idx _; exact I). Qed.
Theorem le_lifted X Y : bcompat (shape X) (shape Y) -> teq (kev_t ke_le [zt X; zt Y]) (bt (tmap2b jax_le X Y)).
Proof. intro H. apply (@lift2_k SZ SZ SB ke_le lowered_le jax_le ttrue2); auto using tdom2_true, le_correct; try kuses_tac; try (intros idx _; exact I). Qed.
Theorem gt_lifted X Y : bcompat (shape X) (shape Y) -> teq (kev_t ke_gt [zt X; zt Y]) (bt (tmap2b jax_gt X Y)).
Proof. intro H. apply (@lift2_k SZ SZ SB ke_gt lowered_gt jax_gt ttrue2); auto using tdom2_true, gt_correct; try kuses_tac; try (intros idx _; exact I). Qed.
Theorem ge_lifted X Y : bcompat (shape X) (shape Y) -> teq (kev_t ke_ge [zt X; zt Y]) (bt (tmap2b jax_ge X Y)).
Proof. intro H. apply (@lift2_k SZ SZ SB ke_ge lowered_ge jax_ge ttrue2); auto using tdom2_true, ge_correct; try kuses_tac; try (intros idx _; exact I). Qed.
Theorem eq_bool_lifted (X Y : tensor bool) : bcompat (shape X) (shape Y) -> teq (kev_t ke_eq_b [bt X; bt Y]) (bt (tmap2b jax_eq_b X Y)).
Proof. intro H. apply (@lift2_k SB SB SB ke_eq_b lowered_eq_b jax_eq_b ttrue2); auto using tdom2_true, eq_b_correct; try kuses_tac; try (intros idx _; exact I). Qed.
Theorem ne_bool_lifted (X Y : tensor bool) : bcompat (shape X) (shape Y) -> teq (kev_t ke_ne_b [bt X; bt Y]) (bt (tmap2b jax_ne_b X Y)).
Proof. intro H. apply (@lift2_k SB SB SB ke_ne_b lowered_ne_b jax_ne_b ttrue2); auto using tdom2_true, ne_b_correct; try kuses_tac; try (intros idx _; exact I). Qed.
Theorem convert_to_bool_lifted X : teq (kev_t ke_convert_to_bool [zt X]) (bt (tmap jax_convert_to_bool X)).
Proof. apply (@lift1_k SZ SB ke_convert_to_bool lowered_convert_to_bool jax_convert_to_bool (fun _ => True)); auto using convert_to_bool_correct; try kuses_tac; try (intros idx _; exact I). Qed.
(* rounding: every element is an exact fraction n/d with d > 0 (every finite float is) *)
Theorem floor_lifted X : tdom1 frac_ok X -> teq (kev_t ke_floor [qt X]) (zt (tmap jax_floor X)).
Proof. intro H. apply (@lift1_k SQ SZ ke_floor lowered_floor jax_floor frac_ok); auto using floor_correct; try kuses_tac; try (intros idx _; exact I). Qed.
Theorem ceil_lifted X : tdom1 frac_ok X -> teq (kev_t ke_ceil [qt X]) (zt (tmap jax_ceil X)).
Proof. intro H. apply (@lift1_k SQ SZ ke_ceil lowered_ceil jax_ceil frac_ok); auto using ceil_correct; try kuses_tac; try (intros idx _; exact I). Qed.
Theorem round_even_lifted X : tdom1 frac_ok X -> teq (kev_t ke_round [qt X]) (zt (tmap jax_round_even X)).
Proof. intro H. apply (@lift1_k SQ SZ ke_round lowered_round jax_round_even frac_ok); auto using round_even_correct; try kuses_tac; try (intros idx _; exact I). Qed.
Theorem round_away_lifted X : tdom1 frac_ok X -> teq (kev_t ke_round_away [qt X]) (zt (tmap jax_round_away X)).
Proof. intro H. apply (@lift1_k SQ SZ ke_round_away lowered_round_away jax_round_away frac_ok); auto using round_away_correct; try kuses_tac; try (intros idx _; exact I). Qed.
