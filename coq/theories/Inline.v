(* Inline: jax2onnx/plugins/jax/core/jit.py  JitPlugin._freshen_closed_jaxpr + JitPlugin.lower
   (and the identical body lowerings of custom_jvp_call / custom_vjp_call / remat2) over the dispatcher
   model of Lowering.v.

   _freshen_closed_jaxpr clones the body with a fresh jcore.Var per distinct Var (constvars, invars,
   outvars, equation invars/outvars; Literals are kept) = alpha-renaming with an injective map whose range
   is fresh.  JitPlugin.lower is Lowering.inline_plugin on the renamed body.

     alpha_inline_ok          lowering the freshened copy = (renaming of) lowering the original body in a
                              context that does not know the body's variables: same graph, the outer
                              outvars are bound to the same values, same connectivity
     inline_frame /
     two_inlinings_no_clash   a second inlining (of the same body, with a disjoint fresh map) does not
                              touch the bindings made by the first
     unfreshened_inlining_aliases   without the renaming the second inlining of one body silently reuses the
                              FIRST call's result (why the renaming is needed)

   DropVar: JAX 0.11 traces no DropVar instances into jaxprs (probed); the model keeps a dropped outvar
   dropped. *)
From Coq Require Import String List Bool Arith Lia.
From J2O Require Import Lowering.
Import ListNotations.

Definition ren := var -> var.
Definition injective (rho : ren) : Prop := forall a b, rho a = rho b -> a = b.

Definition ren_invar (rho : ren) (i : invar) : invar := match i with IVar v => IVar (rho v) | ILit => ILit end.
Definition ren_eqn (rho : ren) (e : eqn) : eqn :=
  mkEqn (e_prim e) (map (ren_invar rho) (e_ins e)) (map (option_map rho) (e_outs e)).
Definition ren_jaxpr (rho : ren) (jp : jaxpr) : jaxpr := map (ren_eqn rho) jp.
Definition ren_bind (rho : ren) (b : list (var * vname)) := map (fun p => (rho (fst p), snd p)) b.
Definition ren_ctx (rho : ren) (c : ctx) : ctx := mkCtx (ren_bind rho (c_bind c)) (c_conn c).

Definition rmap {A B} (f : A -> B) (r : result A) : result B := match r with Ok a => Ok (f a) | Err x => Err x end.
Definition ren_res (rho : ren) (r : result (ctx * lres)) : result (ctx * lres) :=
  rmap (fun p => (ren_ctx rho (fst p), snd p)) r.

(* a plugin that does not look at the identity of jaxpr variables (it uses them only as keys of the
   binding table) commutes with renaming *)
Definition plugin_equivariant (rho : ren) (p : plugin) : Prop :=
  forall c e, p (ren_ctx rho c) (ren_eqn rho e) = ren_res rho (p c e).
Definition reg_equivariant (rho : ren) (reg : registry) : Prop :=
  forall s p, reg s = Some p -> plugin_equivariant rho p.

Section Equivariance.
  Variable rho : ren.
  Hypothesis rho_inj : injective rho.

  Lemma lookup_ren b v : lookup (ren_bind rho b) (rho v) = lookup b v.
  Proof.
    induction b as [|[w n] b IH]; simpl; auto.
    destruct (Nat.eqb_spec (rho w) (rho v)) as [E|E], (Nat.eqb_spec w v) as [F|F]; auto.
    - apply rho_inj in E. contradiction.
    - subst. contradiction.
  Qed.
  Lemma bound_ren c v : bound (ren_ctx rho c) (rho v) = bound c v.
  Proof. apply lookup_ren. Qed.
  Lemma connected_ren c n : connected (ren_ctx rho c) n = connected c n.
  Proof. reflexivity. Qed.
  Lemma bind_ren c v n : ren_ctx rho (bind c v n) = bind (ren_ctx rho c) (rho v) n.
  Proof. reflexivity. Qed.
  Lemma needs_binding_ren c v : needs_binding (ren_ctx rho c) (rho v) = needs_binding c v.
  Proof. unfold needs_binding. rewrite bound_ren. destruct (bound c v); auto. Qed.

  Lemma non_drop_ren e : non_drop (ren_eqn rho e) = map rho (non_drop e).
  Proof.
    unfold non_drop, ren_eqn. simpl. induction (e_outs e) as [|[v|] r IH]; simpl; auto. now rewrite IH.
  Qed.
  Lemma inputs_bound_ren c e : inputs_bound (ren_ctx rho c) (ren_eqn rho e) = inputs_bound c e.
  Proof.
    unfold inputs_bound, ren_eqn. simpl. induction (e_ins e) as [|[v|] r IH]; simpl; auto.
    now rewrite bound_ren, IH.
  Qed.
  Lemma filter_needs_ren c l :
    filter (needs_binding (ren_ctx rho c)) (map rho l) = map rho (filter (needs_binding c) l).
  Proof.
    induction l as [|v l IH]; simpl; auto. rewrite needs_binding_ren.
    destruct (needs_binding c v); simpl; now rewrite IH.
  Qed.
  Lemma bind_where_needed_ren : forall vs ns c,
    bind_where_needed (ren_ctx rho c) (map rho vs) ns = ren_ctx rho (bind_where_needed c vs ns).
  Proof.
    induction vs as [|v vs IH]; intros [|n ns] c; simpl; auto.
    rewrite needs_binding_ren. destruct (needs_binding c v); rewrite <- ?bind_ren; apply IH.
  Qed.
  Lemma bind_all_ren : forall vs ns c,
    bind_all (ren_ctx rho c) (map rho vs) ns = ren_ctx rho (bind_all c vs ns).
  Proof. induction vs as [|v vs IH]; intros [|n ns] c; simpl; auto. rewrite <- bind_ren. apply IH. Qed.

  Lemma bind_returned_ren c e r :
    bind_returned (ren_ctx rho c) (ren_eqn rho e) r = rmap (ren_ctx rho) (bind_returned c e r).
  Proof.
    unfold bind_returned. rewrite non_drop_ren, filter_needs_ren.
    destruct (filter (needs_binding c) (non_drop e)) as [|u us] eqn:Ef; simpl; auto.
    destruct r as [|l|]; simpl; auto.
    change (rho u :: map rho us) with (map rho (u :: us)).
    rewrite !map_length.
    destruct (length l =? length (non_drop e)); simpl.
    - now rewrite bind_where_needed_ren.
    - destruct (length l =? S (length us)); simpl; auto.
      destruct l as [|n nr]; auto. rewrite <- bind_ren. now rewrite bind_all_ren.
  Qed.

  Lemma outputs_ok_ren c vs : outputs_ok (ren_ctx rho c) (map rho vs) = outputs_ok c vs.
  Proof.
    induction vs as [|v vs IH]; simpl; auto. rewrite bound_ren.
    destruct (bound c v) as [n|]; auto. rewrite connected_ren. destruct (connected c n); auto.
  Qed.

  Variable reg : registry.
  Hypothesis reg_eq : reg_equivariant rho reg.

  Lemma lower_eqn_ren c e :
    lower_eqn reg (ren_ctx rho c) (ren_eqn rho e) = rmap (ren_ctx rho) (lower_eqn reg c e).
  Proof.
    unfold lower_eqn. change (e_prim (ren_eqn rho e)) with (e_prim e).
    destruct (reg (e_prim e)) as [p|] eqn:Er; simpl; auto.
    rewrite inputs_bound_ren. destruct (inputs_bound c e); simpl; auto.
    rewrite (reg_eq _ _ Er). destruct (p c e) as [[c1 r]|x]; simpl; auto.
    rewrite bind_returned_ren. destruct (bind_returned c1 e r) as [c2|x]; simpl; auto.
    rewrite non_drop_ren, outputs_ok_ren. destruct (outputs_ok c2 (non_drop e)) as [[]|x]; auto.
  Qed.

  Lemma lower_jaxpr_ren : forall jp c,
    lower_jaxpr reg (ren_ctx rho c) (ren_jaxpr rho jp) = rmap (ren_ctx rho) (lower_jaxpr reg c jp).
  Proof.
    induction jp as [|e jp IH]; intro c; simpl; auto.
    rewrite lower_eqn_ren. destruct (lower_eqn reg c e) as [c1|x]; simpl; auto.
  Qed.

  (* binding the body's invars / the outer outvars commutes with the renaming *)
  Lemma fold_bind_in_ren : forall (vs : list var) (vals : list (option vname)) c,
    fold_left (fun a p => match snd p with Some n => bind a (fst p) n | None => a end)
              (combine (map rho vs) vals) (ren_ctx rho c)
    = ren_ctx rho (fold_left (fun a p => match snd p with Some n => bind a (fst p) n | None => a end)
                             (combine vs vals) c).
  Proof.
    induction vs as [|v vs IH]; intros [|o vals] c; simpl; auto.
    destruct o as [n|]; simpl; rewrite <- ?bind_ren; apply IH.
  Qed.
  Lemma fold_bind_out_ren : forall (outs : list (option var)) (res : list (option vname)) c,
    fold_left (fun a p => match fst p, snd p with Some v, Some n => bind a v n | _, _ => a end)
              (combine (map (option_map rho) outs) res) (ren_ctx rho c)
    = ren_ctx rho (fold_left (fun a p => match fst p, snd p with Some v, Some n => bind a v n | _, _ => a end)
                             (combine outs res) c).
  Proof.
    induction outs as [|o outs IH]; intros [|r res] c; simpl; auto.
    destruct o as [v|], r as [n|]; simpl; rewrite <- ?bind_ren; apply IH.
  Qed.
  Lemma outer_vals_ren c ins :
    map (fun i => match i with IVar v => bound (ren_ctx rho c) v | ILit => None end) (map (ren_invar rho) ins)
    = map (fun i => match i with IVar v => bound c v | ILit => None end) ins.
  Proof. induction ins as [|[v|] r IH]; simpl; auto; now rewrite ?bound_ren, IH. Qed.

  (* inlining a renamed body from a renamed context/equation = renaming of inlining the original *)
  Lemma inline_plugin_ren bi body bo c e :
    inline_plugin reg (map rho bi) (ren_jaxpr rho body) (map rho bo) (ren_ctx rho c) (ren_eqn rho e)
    = ren_res rho (inline_plugin reg bi body bo c e).
  Proof.
    unfold inline_plugin. cbn [e_ins e_outs ren_eqn].
    rewrite outer_vals_ren, fold_bind_in_ren, lower_jaxpr_ren.
    match goal with |- context [lower_jaxpr reg ?c1 body] => destruct (lower_jaxpr reg c1 body) as [c2|x] end; simpl; auto.
    rewrite map_map.
    erewrite (map_ext (fun x => bound (ren_ctx rho c2) (rho x)) (bound c2)) by (intro; apply bound_ren).
    now rewrite fold_bind_out_ren.
  Qed.
End Equivariance.

(* JitPlugin.lower:  fresh = _freshen_closed_jaxpr(closed);  bind fresh invars;  lower fresh eqns;
   bind the outer outvars to the values of the fresh outvars *)
Definition jit_lower (rho : ren) (reg : registry) (body_in : list var) (body : jaxpr) (body_out : list var) : plugin :=
  inline_plugin reg (map rho body_in) (ren_jaxpr rho body) (map rho body_out).

(* THEOREM.  rho: the fresh-variable map (injective, and the identity on every variable the outer context
   and the jit equation mention: fresh Vars are new objects, and the body's own Vars are not bound outside).
   Lowering the freshened copy yields the renamed image of lowering the ORIGINAL body directly: the emitted
   graph (c_conn) is the same and every outer variable -- in particular the jit equation's outvars -- is bound
   to the same graph value.  This is what makes export(jit f) = export(f). *)
Theorem alpha_inline_ok rho reg bi body bo c e :
  injective rho -> reg_equivariant rho reg -> ren_ctx rho c = c -> ren_eqn rho e = e ->
  jit_lower rho reg bi body bo c e = ren_res rho (inline_plugin reg bi body bo c e).
Proof.
  intros Hinj Heq Hc He. unfold jit_lower.
  rewrite <- Hc at 1. rewrite <- He at 1. now apply inline_plugin_ren.
Qed.

Corollary alpha_inline_same_outputs rho reg bi body bo c e c' r :
  injective rho -> reg_equivariant rho reg -> ren_ctx rho c = c -> ren_eqn rho e = e ->
  inline_plugin reg bi body bo c e = Ok (c', r) ->
  exists c'', jit_lower rho reg bi body bo c e = Ok (c'', r) /\ c_conn c'' = c_conn c' /\
              forall o, rho o = o -> bound c'' o = bound c' o.
Proof.
  intros Hinj Heq Hc He H. rewrite (alpha_inline_ok rho reg bi body bo c e Hinj Heq Hc He), H. simpl.
  eexists. split; [reflexivity|]. split; [reflexivity|].
  intros o Ho. rewrite <- Ho at 1. now apply bound_ren.
Qed.

Corollary alpha_inline_same_errors rho reg bi body bo c e x :
  injective rho -> reg_equivariant rho reg -> ren_ctx rho c = c -> ren_eqn rho e = e ->
  inline_plugin reg bi body bo c e = Err x -> jit_lower rho reg bi body bo c e = Err x.
Proof. intros Hinj Heq Hc He H. now rewrite (alpha_inline_ok rho reg bi body bo c e Hinj Heq Hc He), H. Qed.

(* when does a renaming fix a context / an equation *)
Lemma ren_ctx_fixed rho c : (forall v n, In (v, n) (c_bind c) -> rho v = v) -> ren_ctx rho c = c.
Proof.
  destruct c as [b k]. unfold ren_ctx. simpl. intro H. f_equal.
  induction b as [|[w n] b IH]; simpl; auto. rewrite (H w n) by (now left). f_equal.
  apply IH. intros v m Hin. apply (H v m). now right.
Qed.
Lemma ren_eqn_fixed rho e :
  (forall v, In (IVar v) (e_ins e) -> rho v = v) -> (forall v, In (Some v) (e_outs e) -> rho v = v) ->
  ren_eqn rho e = e.
Proof.
  destruct e as [p ins outs]. unfold ren_eqn. simpl. intros Hi Ho. f_equal.
  - induction ins as [|[v|] r IH]; simpl; auto.
    + rewrite Hi by (now left). f_equal. apply IH. intros w Hw. apply Hi. now right.
    + f_equal. apply IH. intros w Hw. apply Hi. now right.
  - induction outs as [|[v|] r IH]; simpl; auto.
    + rewrite Ho by (now left). f_equal. apply IH. intros w Hw. apply Ho. now right.
    + f_equal. apply IH. intros w Hw. apply Ho. now right.
Qed.

(* a concrete family of fresh maps (non-vacuity): body variables live below N, the k-th inlining (k >= 1)
   moves them to the block [k*N, k*N + N); different k give disjoint ranges *)
Definition block_ren (N k : nat) : ren := fun v =>
  if v <? N then v + k * N else if (k * N <=? v) && (v <? k * N + N) then v - k * N else v.
Lemma block_ren_injective N k : 1 <= k -> injective (block_ren N k).
Proof.
  intros Hk a b. unfold block_ren.
  destruct (Nat.ltb_spec a N), (Nat.ltb_spec b N);
    repeat match goal with |- context [(?x <=? ?y) && (?u <? ?w)] =>
             destruct (Nat.leb_spec x y), (Nat.ltb_spec u w); simpl end; nia.
Qed.
Lemma block_ren_fixes N k v : 1 <= k -> N <= v -> (v < k * N \/ k * N + N <= v) -> block_ren N k v = v.
Proof.
  intros Hk H1 H2. unfold block_ren. destruct (Nat.ltb_spec v N); [lia|].
  destruct (Nat.leb_spec (k * N) v), (Nat.ltb_spec v (k * N + N)); simpl; lia.
Qed.
Lemma block_ren_range N k v : v < N -> k * N <= block_ren N k v < k * N + N.
Proof. intro H. unfold block_ren. destruct (Nat.ltb_spec v N); lia. Qed.

(* ------------------------------------------------------------------ frame: what an inlining can rebind *)
(* W = a set of protected variables.  Plugins registered in reg never rebind a protected variable
   (the real plugins bind only their equation's outvars and, for body lowerings, the body's variables). *)
Definition reg_protects (W : var -> Prop) (reg : registry) : Prop :=
  forall s p c e c' r, reg s = Some p -> p c e = Ok (c', r) ->
    (forall w, W w -> ~ In w (non_drop e)) -> forall w, W w -> bound c' w = bound c w.

Lemma bound_bind_other c v n w : v <> w -> bound (bind c v n) w = bound c w.
Proof. intro H. unfold bound, bind. simpl. destruct (Nat.eqb_spec v w); [contradiction|reflexivity]. Qed.

Lemma bind_where_needed_frame : forall vs ns c w, ~ In w vs -> bound (bind_where_needed c vs ns) w = bound c w.
Proof.
  induction vs as [|v vs IH]; intros [|n ns] c w H; simpl; auto.
  rewrite IH by (intro; apply H; now right).
  destruct (needs_binding c v); auto. apply bound_bind_other. intro; apply H; now left.
Qed.
Lemma bind_all_frame : forall vs ns c w, ~ In w vs -> bound (bind_all c vs ns) w = bound c w.
Proof.
  induction vs as [|v vs IH]; intros [|n ns] c w H; simpl; auto.
  rewrite IH by (intro; apply H; now right). apply bound_bind_other. intro; apply H; now left.
Qed.
Lemma bind_returned_frame c e r c' w : bind_returned c e r = Ok c' -> ~ In w (non_drop e) -> bound c' w = bound c w.
Proof.
  unfold bind_returned. intros H Hw.
  destruct (filter (needs_binding c) (non_drop e)) as [|u us] eqn:Ef; [now injection H as <-|].
  destruct r as [|l|]; [now injection H as <- | | discriminate].
  destruct (length l =? length (non_drop e)); [injection H as <-; now apply bind_where_needed_frame|].
  assert (Hnot : ~ In w (u :: us)) by (rewrite <- Ef; intro Hin; apply filter_In in Hin; tauto).
  revert H Hnot. generalize (u :: us) as un. intros un H Hnot.
  destruct (length l =? length un); [|discriminate]. injection H as <-.
  now apply bind_all_frame.
Qed.

Section Frame.
  Variable W : var -> Prop.
  Variable reg : registry.
  Hypothesis Hreg : reg_protects W reg.

  Lemma lower_eqn_frame c e c' : lower_eqn reg c e = Ok c' -> (forall w, W w -> ~ In w (non_drop e)) ->
    forall w, W w -> bound c' w = bound c w.
  Proof.
    unfold lower_eqn. intros H Hd w Hw.
    destruct (reg (e_prim e)) as [p|] eqn:Er; [|discriminate].
    destruct (negb (inputs_bound c e)); [discriminate|].
    destruct (p c e) as [[c1 r]|x] eqn:Ep; [|discriminate].
    destruct (bind_returned c1 e r) as [c2|x] eqn:Eb; [|discriminate].
    destruct (outputs_ok c2 (non_drop e)) as [[]|x]; [|discriminate]. injection H as <-.
    rewrite (bind_returned_frame _ _ _ _ w Eb (Hd w Hw)). eapply Hreg; eauto.
  Qed.

  Lemma lower_jaxpr_frame : forall jp c c', lower_jaxpr reg c jp = Ok c' ->
    (forall e w, In e jp -> W w -> ~ In w (non_drop e)) -> forall w, W w -> bound c' w = bound c w.
  Proof.
    induction jp as [|e jp IH]; simpl; intros c c' H Hd w Hw; [now injection H as <-|].
    destruct (lower_eqn reg c e) as [c1|x] eqn:E1; [|discriminate].
    rewrite (IH _ _ H) by (intros; eauto). eapply lower_eqn_frame; eauto.
  Qed.

  Lemma fold_bind_in_frame : forall (vs : list var) (vals : list (option vname)) c w, ~ In w vs ->
    bound (fold_left (fun a p => match snd p with Some n => bind a (fst p) n | None => a end) (combine vs vals) c) w
    = bound c w.
  Proof.
    induction vs as [|v vs IH]; intros [|o vals] c w H; simpl; auto.
    rewrite IH by (intro; apply H; now right).
    destruct o; simpl; auto. apply bound_bind_other. intro; apply H; now left.
  Qed.
  Lemma fold_bind_out_frame : forall (outs : list (option var)) (res : list (option vname)) c w, ~ In (Some w) outs ->
    bound (fold_left (fun a p => match fst p, snd p with Some v, Some n => bind a v n | _, _ => a end) (combine outs res) c) w
    = bound c w.
  Proof.
    induction outs as [|o outs IH]; intros [|r res] c w H; simpl; auto.
    rewrite IH by (intro; apply H; now right).
    destruct o as [v|], r; simpl; auto. apply bound_bind_other. intro; subst; apply H; now left.
  Qed.

  (* an inlining rebinds only: the body's invars, the outvars of the body's equations, the outer outvars *)
  Theorem inline_frame bi body bo c e c' r :
    inline_plugin reg bi body bo c e = Ok (c', r) ->
    (forall w, W w -> ~ In w bi) -> (forall e' w, In e' body -> W w -> ~ In w (non_drop e')) ->
    (forall w, W w -> ~ In (Some w) (e_outs e)) ->
    forall w, W w -> bound c' w = bound c w.
  Proof.
    unfold inline_plugin. intros H Hbi Hbody Hout w Hw.
    match type of H with context [lower_jaxpr reg ?c1 body] => destruct (lower_jaxpr reg c1 body) as [c2|x] eqn:E2 end;
      [|discriminate].
    injection H as <- _.
    rewrite fold_bind_out_frame by (now apply Hout).
    rewrite (lower_jaxpr_frame _ _ _ E2 Hbody w Hw).
    apply fold_bind_in_frame. now apply Hbi.
  Qed.
End Frame.

(* two inlinings of the SAME body with fresh maps of disjoint range: whatever the first one bound (all of it
   lives in the range of rho1, plus the first equation's outvars) is still bound to the same values after the
   second one *)
Theorem two_inlinings_no_clash (rho1 rho2 : ren) reg bi body bo c1 e2 c2 r2 :
  (forall v w, rho1 v <> rho2 w) ->
  reg_protects (fun w => exists v, w = rho1 v) reg ->
  (forall v, ~ In (Some (rho1 v)) (e_outs e2)) ->
  jit_lower rho2 reg bi body bo c1 e2 = Ok (c2, r2) ->
  forall v, bound c2 (rho1 v) = bound c1 (rho1 v).
Proof.
  intros Hdis Hreg Hout H v.
  eapply (inline_frame (fun w => exists v, w = rho1 v)) with (w := rho1 v) in H; eauto.
  - intros w [u ->] Hin. apply in_map_iff in Hin as (z & Hz & _). now apply (Hdis u z).
  - intros e' w Hin [u ->] Hnd. unfold ren_jaxpr in Hin. apply in_map_iff in Hin as (e0 & <- & _).
    unfold non_drop, ren_eqn in Hnd. simpl in Hnd. apply in_flat_map in Hnd as (o & Ho & Hin').
    apply in_map_iff in Ho as ([z|] & <- & _); simpl in Hin'; [|contradiction].
    destruct Hin' as [E|[]]. now apply (Hdis u z).
  - intros w [u ->]. apply Hout.
Qed.

(* ------------------------------------------------------------------ why the renaming is needed *)
(* a plugin that emits one node and RETURNS its value (the dispatcher binds returned values only where an
   outvar "needs binding") *)
Definition emit_plugin : plugin := fun c e =>
  let n := length (c_conn c) in Ok (mkCtx (c_bind c) (n :: c_conn c), RVals [n]).
Definition ex_reg : registry := fun s => if String.eqb s "f"%string then Some emit_plugin else None.
Definition ex_body : jaxpr := [mkEqn "f"%string [IVar 0] [Some 1]].
Definition ex_c0 : ctx := mkCtx [(12, 1); (10, 0)] [1; 0].
Definition ex_e1 : eqn := mkEqn "jit"%string [IVar 10] [Some 11].
Definition ex_e2 : eqn := mkEqn "jit"%string [IVar 12] [Some 13].

(* un-freshened: the second call's outvar 13 is bound to the FIRST call's node (value 2), although the second
   call emitted its own node 3 *)
Example unfreshened_inlining_aliases :
  match inline_plugin ex_reg [0] ex_body [1] ex_c0 ex_e1 with
  | Ok (c1, _) => match inline_plugin ex_reg [0] ex_body [1] c1 ex_e2 with
                  | Ok (c2, _) => (bound c2 11, bound c2 13, c_conn c2)
                  | Err _ => (None, None, [])
                  end
  | Err _ => (None, None, [])
  end = (Some 2, Some 2, [3; 2; 1; 0]).
Proof. vm_compute. reflexivity. Qed.

(* freshened (block_ren 100 1, block_ren 100 2): 11 -> node 2, 13 -> node 3 *)
Example freshened_inlining_ok :
  match jit_lower (block_ren 100 1) ex_reg [0] ex_body [1] ex_c0 ex_e1 with
  | Ok (c1, _) => match jit_lower (block_ren 100 2) ex_reg [0] ex_body [1] c1 ex_e2 with
                  | Ok (c2, _) => (bound c2 11, bound c2 13, c_conn c2)
                  | Err _ => (None, None, [])
                  end
  | Err _ => (None, None, [])
  end = (Some 2, Some 3, [3; 2; 1; 0]).
Proof. vm_compute. reflexivity. Qed.

(* the example plugin satisfies the hypotheses of the theorems *)
Example emit_plugin_equivariant rho : plugin_equivariant rho emit_plugin.
Proof. intros c e. reflexivity. Qed.
Example ex_reg_equivariant rho : reg_equivariant rho ex_reg.
Proof.
  intros s p H. unfold ex_reg in H. destruct (String.eqb s "f"%string); [|discriminate].
  injection H as <-. apply emit_plugin_equivariant.
Qed.
Example ex_reg_protects W : reg_protects W ex_reg.
Proof.
  intros s p c e c' r H Hp _ w _. unfold ex_reg in H. destruct (String.eqb s "f"%string); [|discriminate].
  injection H as <-. unfold emit_plugin in Hp. injection Hp as <- _. reflexivity.
Qed.
