(* LiftDyn (C01): lax.dynamic_slice on tensors of any rank, by per-axis composition of the one-axis kernel of Kernels.v.
   One axis (Kernels.dynamic_slice_correct): the start index is normalised (negative counts from the end), CLAMPED into
   [0, dim - size], and the window (first index, length) is what ONNX Slice(start, start + size) selects after its own
   clamping.  ONNX Slice treats every axis independently, and so does lax.dynamic_slice: the n-D operator is the window
   product.  twindow w X is the tensor cut out by one window per axis.
     dynamic_slice_nd_correct   the lowered operator == the JAX operator, every rank, under the per-axis side conditions.
   This is a theorem about tensor FUNCTIONS (ties D evaluate both on boundary start indices against onnxruntime and eager
   JAX); the node-level structure of the n-D export (Unsqueeze / Concat / Max / Min / Add / Slice on index vectors) is tied
   for one axis only (the "dynamic_slice" kernel of tie S).  dynamic_update_slice (a ScatterND graph) is not covered. *)
From Coq Require Import List Bool Arith Lia ZArith.
From J2O Require Import PyLib Dtype Tensor Batch OnnxInt Kernels Lift LiftProg.
Import ListNotations.
Local Open Scope Z_scope.

Fixpoint windows (f : Z -> Z -> Z -> Z * Z) (dims sizes starts : list Z) : list (Z * Z) :=
  match dims, sizes, starts with
  | d :: dr, s :: sr, i :: ir => f d s i :: windows f dr sr ir
  | _, _, _ => []
  end.
Definition twindow {A} (w : list (Z * Z)) (X : tensor A) : tensor A :=
  mkT (map (fun p => Z.to_nat (snd p)) w) (fun idx => at_ X (map2 (fun p i => (Z.to_nat (fst p) + i)%nat) w idx)).
Definition dims_of {A} (X : tensor A) : list Z := map Z.of_nat (shape X).
(* the exported graph (per axis: Where/Less/Add normalisation, Max / Min clamp, Slice) and lax.dynamic_slice *)
Definition onnx_dynamic_slice_t {A} (sb : ity) (sizes starts : list Z) (X : tensor A) : tensor A :=
  twindow (windows (lowered_dynamic_slice sb) (dims_of X) sizes starts) X.
Definition jax_dynamic_slice_t {A} (sb : ity) (sizes starts : list Z) (X : tensor A) : tensor A :=
  twindow (windows (jax_dynamic_slice sb) (dims_of X) sizes starts) X.

(* per-axis side conditions: index in its type, 1 <= size <= dim < 2^31 *)
Fixpoint ds_ok (sb : ity) (dims sizes starts : list Z) : Prop :=
  match dims, sizes, starts with
  | [], [], [] => True
  | d :: dr, s :: sr, i :: ir => in_int sb i /\ 1 <= s <= d /\ d < 2 ^ 31 /\ ds_ok sb dr sr ir
  | _, _, _ => False
  end.
Lemma windows_correct sb : sb = I32 \/ sb = I64 -> forall dims sizes starts, ds_ok sb dims sizes starts ->
  windows (lowered_dynamic_slice sb) dims sizes starts = windows (jax_dynamic_slice sb) dims sizes starts.
Proof.
  intro Hsb. induction dims as [|d dr IH]; intros [|s sr] [|i ir] H; simpl in *; try reflexivity; try contradiction.
  destruct H as (Hi & Hs & Hd & Hr). rewrite (dynamic_slice_correct sb d s i Hsb Hi Hs Hd). f_equal. now apply IH.
Qed.
Theorem dynamic_slice_nd_correct {A} (sb : ity) (sizes starts : list Z) (X : tensor A) :
  sb = I32 \/ sb = I64 -> ds_ok sb (dims_of X) sizes starts ->
  onnx_dynamic_slice_t sb sizes starts X = jax_dynamic_slice_t sb sizes starts X.
Proof. intros Hsb H. unfold onnx_dynamic_slice_t, jax_dynamic_slice_t. now rewrite (windows_correct sb Hsb _ _ _ H). Qed.

(* every window lies inside the operand: first + length <= dim (no out-of-range read) *)
Lemma jax_window_inside sb d s i : 1 <= s <= d -> let w := jax_dynamic_slice sb d s i in 0 <= fst w /\ fst w + snd w <= d.
Proof. intro H. unfold jax_dynamic_slice. simpl. lia. Qed.

(* what the harness evaluates *)
Definition ds_eval (f : Z -> Z -> Z -> Z * Z) (sizes starts : list Z) (a : cten) : cten :=
  tcanon (twindow (windows f (map Z.of_nat (c_shape a)) sizes starts) (decanon a)).
Example ds_example :
  let x := mkC [4; 5]%nat (map VZ [0; 1; 2; 3; 4; 5; 6; 7; 8; 9; 10; 11; 12; 13; 14; 15; 16; 17; 18; 19]) in
  ds_eval (lowered_dynamic_slice I32) [2; 3] [3; -1] x = mkC [2; 3]%nat (map VZ [12; 13; 14; 17; 18; 19])
  /\ ds_eval (jax_dynamic_slice I32) [2; 3] [3; -1] x = mkC [2; 3]%nat (map VZ [12; 13; 14; 17; 18; 19])
  /\ ds_eval (jax_dynamic_slice I32) [2; 3] [-2147483648; 1] x = mkC [2; 3]%nat (map VZ [1; 2; 3; 6; 7; 8]).
Proof. vm_compute. repeat split. Qed.
