(* TransposeAddForestSound (C02): soundness of the model of remove_redundant_transpose_add_forests_ir
   (TransposeAddForestPass.v) — an instance of the region theorem of TransposeRegion.v. *)
From Coq Require Import ZArith String List Bool Arith Lia.
From J2O Require Import PyLib Tensor Graph Redirect Preserve Reshape ElemCommute ChainSim ReshapePairPass ChainFacts C02Opt ElemSem ElemBroadcast
  TransposePairPass TransposeRegion TransposeAddForestPass.
From J2OGen Require Import GenCast GenOpt.
Import ListNotations.

(* ---- the walk *)
Lemma af_inputs_spec ns adds : forall ins pf addc trc insT pf' addc' trc' insT',
  af_inputs ns adds ins pf addc trc insT = Some (pf', addc', trc', insT') ->
  (forall x, pf = Some x -> pf' = Some x) /\ (forall t, In t insT -> In t insT') /\
  (forall iv, In iv ins -> exists pr, producer ns iv = Some pr /\
     ((is_add pr = true /\ In pr adds) \/ (is_T pr = true /\ exists pp, perm_of pr = Some pp /\ pf' = Some pp /\ In pr insT'))) /\
  (forall t, In t insT' -> In t insT \/ exists iv pp, In iv ins /\ producer ns iv = Some t /\ is_T t = true /\ perm_of t = Some pp /\ pf' = Some pp).
Proof.
  induction ins as [|iv r IH]; intros pf addc trc insT pf' addc' trc' insT' H; simpl in H.
  - injection H as <- <- <- <-. repeat split; auto. intros iv [].
  - destruct (producer ns iv) as [pr|] eqn:Epr; [|discriminate]. destruct (is_add pr) eqn:Ea.
    + destruct (memn pr adds) eqn:Em; [|discriminate]. apply memn_In in Em.
      destruct (IH _ _ _ _ _ _ _ _ H) as (H1 & H2 & H3 & H4). split; [exact H1|]. split; [exact H2|]. split.
      * intros iv0 [<-|Hin]; [exists pr; split; auto | now apply H3].
      * intros t Ht. destruct (H4 t Ht) as [Hl|(iv0 & pp & Hiv0 & Hrest)]; [now left|]. right. exists iv0, pp. split; [now right | exact Hrest].
    + destruct (is_T pr) eqn:ET; [|discriminate]. cbn [negb] in H. destruct (perm_of pr) as [pp|] eqn:Epp; [|discriminate].
      assert (Hcommon : forall pf0, af_inputs ns adds r pf0 addc (S trc) (addn pr insT) = Some (pf', addc', trc', insT') ->
                (forall x, pf0 = Some x -> pf' = Some x) -> pf0 = Some pp ->
                (forall t, In t insT -> In t insT') /\
                (forall iv0, In iv0 (iv :: r) -> exists pr0, producer ns iv0 = Some pr0 /\
                   ((is_add pr0 = true /\ In pr0 adds) \/ (is_T pr0 = true /\ exists pp0, perm_of pr0 = Some pp0 /\ pf' = Some pp0 /\ In pr0 insT'))) /\
                (forall t, In t insT' -> In t insT \/ exists iv0 pp0, In iv0 (iv :: r) /\ producer ns iv0 = Some t /\ is_T t = true /\ perm_of t = Some pp0 /\ pf' = Some pp0)).
      { intros pf0 H0 Hm0 Hpf0. destruct (IH _ _ _ _ _ _ _ _ H0) as (H1 & H2 & H3 & H4). split; [|split].
        - intros t Ht. apply H2. apply In_addn. now right.
        - intros iv0 [<-|Hin]; [|now apply H3]. exists pr. split; auto. right. split; auto. exists pp. split; auto. split; [now apply H1|].
          apply H2. apply In_addn. now left.
        - intros t Ht. destruct (H4 t Ht) as [Hl|(iv0 & pp0 & Hiv0 & Hrest)].
          + apply In_addn in Hl as [->|Hl]; [|now left]. right. exists iv, pp.
            split; [now left|]. split; [exact Epr|]. split; [exact ET|]. split; [exact Epp | now apply H1].
          + right. exists iv0, pp0. split; [now right | exact Hrest]. }
      destruct pf as [p0|].
      * destruct (leqb p0 pp) eqn:El; [|discriminate]. apply leqb_eq in El. subst pp.
        destruct (IH _ _ _ _ _ _ _ _ H) as (H1 & _). destruct (Hcommon (Some p0) H H1 eq_refl) as (A1 & A2 & A3). auto.
      * destruct (IH _ _ _ _ _ _ _ _ H) as (H1 & _). destruct (Hcommon (Some pp) H H1 eq_refl) as (A1 & A2 & A3).
        split; [intros x Hx; discriminate|]. auto.
Qed.

Lemma af_consumers_spec adds : forall cs pi outsT newq pi' outsT' newq',
  af_consumers cs adds pi outsT newq = Some (pi', outsT', newq') ->
  (forall x, pi = Some x -> pi' = Some x) /\ (forall t, In t outsT -> In t outsT') /\ (forall n, In n newq -> In n newq') /\
  (forall c, In c cs -> (is_add c = true /\ (In c adds \/ In c newq')) \/
                        (is_T c = true /\ exists pp, perm_of c = Some pp /\ pi' = Some pp /\ In c outsT')) /\
  (forall t, In t outsT' -> In t outsT \/ exists pp, In t cs /\ is_T t = true /\ perm_of t = Some pp /\ pi' = Some pp) /\
  (forall n, In n newq' -> In n newq \/ In n cs).
Proof.
  induction cs as [|c r IH]; intros pi outsT newq pi' outsT' newq' H; simpl in H.
  - injection H as <- <- <-. repeat split; auto. intros c [].
  - destruct (is_add c) eqn:Ea.
    + destruct (IH _ _ _ _ _ _ H) as (H1 & H2 & H3 & H4 & H5 & H6). split; [exact H1|]. split; [exact H2|]. split; [|split; [|split]].
      * intros n Hn. apply H3. destruct (memn c adds); auto. apply in_or_app. now left.
      * intros c0 [<-|Hin]; [|now apply H4]. left. split; auto. destruct (memn c adds) eqn:Em; [left; now apply memn_In|].
        right. apply H3. apply in_or_app. right. now left.
      * intros t Ht. destruct (H5 t Ht) as [Hl|(pp & Hin & Hrest)]; [now left|]. right. exists pp. split; [now right | exact Hrest].
      * intros n Hn. destruct (H6 n Hn) as [Hl|Hl]; [|right; now right]. destruct (memn c adds); [now left|].
        apply in_app_or in Hl as [Hl|[<-|[]]]; [now left | right; now left].
    + destruct (is_T c) eqn:ET; [|discriminate]. cbn [negb] in H. destruct (perm_of c) as [pp|] eqn:Epp; [|discriminate].
      assert (Hcommon : forall pi0, af_consumers r adds pi0 (addn c outsT) newq = Some (pi', outsT', newq') -> pi0 = Some pp ->
                (forall t, In t outsT -> In t outsT') /\ (forall n, In n newq -> In n newq') /\
                (forall c0, In c0 (c :: r) -> (is_add c0 = true /\ (In c0 adds \/ In c0 newq')) \/
                        (is_T c0 = true /\ exists pp0, perm_of c0 = Some pp0 /\ pi' = Some pp0 /\ In c0 outsT')) /\
                (forall t, In t outsT' -> In t outsT \/ exists pp0, In t (c :: r) /\ is_T t = true /\ perm_of t = Some pp0 /\ pi' = Some pp0) /\
                (forall n, In n newq' -> In n newq \/ In n (c :: r)) /\ pi' = Some pp).
      { intros pi0 H0 Hpi0. destruct (IH _ _ _ _ _ _ H0) as (H1 & H2 & H3 & H4 & H5 & H6).
        assert (Hpp : pi' = Some pp) by (now apply H1). repeat split; auto.
        - intros t Ht. apply H2. apply In_addn. now right.
        - intros c0 [<-|Hin]; [|now apply H4]. right. split; auto. exists pp. repeat split; auto. apply H2. apply In_addn. now left.
        - intros t Ht. destruct (H5 t Ht) as [Hl|(pp0 & Hin & Hrest)].
          + apply In_addn in Hl as [->|Hl]; [|now left]. right. exists pp. split; [now left|]. split; [exact ET|]. split; [exact Epp | exact Hpp].
          + right. exists pp0. split; [now right | exact Hrest].
        - intros n Hn. destruct (H6 n Hn) as [Hl|Hl]; [now left | right; now right]. }
      destruct pi as [p0|].
      * destruct (leqb p0 pp) eqn:El; [|discriminate]. apply leqb_eq in El. subst pp.
        destruct (Hcommon (Some p0) H eq_refl) as (A1 & A2 & A3 & A4 & A5 & A6). repeat split; auto. intros x Hx. now rewrite A6.
      * destruct (Hcommon (Some pp) H eq_refl) as (A1 & A2 & A3 & A4 & A5 & A6). repeat split; auto. intros x Hx. discriminate.
Qed.

Definition af_member (g : tgraph) (q : list node) (st : afst) (c : node) : Prop :=
  In c (tg_nodes g) /\ is_add c = true /\
  (forall iv, In iv (n_ins c) -> exists pr, producer (tg_nodes g) iv = Some pr /\
     ((is_add pr = true /\ In pr (af_adds st)) \/ (is_T pr = true /\ exists pp, perm_of pr = Some pp /\ af_pf st = Some pp /\ In pr (af_ins st)))) /\
  exists out, out1 c = Some out /\ tobserved g out = false /\
    forall m, In m (consumers (tg_nodes g) out) ->
      (is_add m = true /\ (In m (af_adds st) \/ In m q)) \/ (is_T m = true /\ exists pp, perm_of m = Some pp /\ af_pi st = Some pp /\ In m (af_outs st)).

Definition af_ok (g : tgraph) (q : list node) (st : afst) : Prop :=
  (forall c, In c (af_adds st) -> af_member g q st c) /\
  (forall t, In t (af_ins st) -> exists c iv pp, In c (af_adds st) /\ In iv (n_ins c) /\ producer (tg_nodes g) iv = Some t /\
      is_T t = true /\ perm_of t = Some pp /\ af_pf st = Some pp) /\
  (forall t, In t (af_outs st) -> exists c o pp, In c (af_adds st) /\ out1 c = Some o /\ In t (consumers (tg_nodes g) o) /\
      is_T t = true /\ perm_of t = Some pp /\ af_pi st = Some pp) /\
  (forall n, In n q -> In n (tg_nodes g)).

Lemma af_walk_ok g start : forall fuel q st st', af_ok g q st -> af_walk g start fuel q st = Some st' -> af_ok g [] st'.
Proof.
  induction fuel as [|k IH]; intros q st st' Hok H; [discriminate|]. cbn [af_walk] in H.
  destruct q as [|n q]; [injection H as <-; exact Hok|].
  destruct Hok as (M & TI & TO & Q).
  destruct (memn n (af_adds st)) eqn:Emem.
  { apply memn_In in Emem. apply (IH q st st'); auto. split; [|split; [|split]]; auto.
    - intros c Hc. destruct (M c Hc) as (H1 & H2 & H3 & out & H4 & H5 & H6). split; [exact H1|]. split; [exact H2|]. split; [exact H3|].
      exists out. split; [exact H4|]. split; [exact H5|]. intros m Hm. destruct (H6 m Hm) as [(Ha & [Hin|[<-|Hin]])|Ht]; auto.
    - intros n0 Hn0. apply Q. now right. }
  destruct (is_add n) eqn:Eadd; [|discriminate]. cbn [negb] in H.
  destruct (Nat.ltb (length (n_ins n)) 2); [discriminate|].
  destruct (af_inputs (tg_nodes g) (af_adds st) (n_ins n) (af_pf st) 0 0 (af_ins st)) as [[[[pf addc] trc] insT]|] eqn:Eai; [|discriminate].
  destruct (if node_eqb n start then negb (Nat.eqb addc 0) || Nat.eqb trc 0 else Nat.eqb addc 0); [discriminate|].
  destruct (out1 n) as [out|] eqn:Eo; [|discriminate]. destruct (tobserved g out) eqn:Eobs; [discriminate|].
  destruct (af_consumers (consumers (tg_nodes g) out) (af_adds st) (af_pi st) (af_outs st) []) as [[[pi outsT] newq]|] eqn:Eac; [|discriminate].
  destruct (af_inputs_spec _ _ _ _ _ _ _ _ _ _ _ Eai) as (I1 & I2 & I3 & I4).
  destruct (af_consumers_spec _ _ _ _ _ _ _ _ Eac) as (C1 & C2 & C3 & C4 & C5 & C6).
  assert (Hnin : In n (tg_nodes g)) by (apply Q; now left).
  apply (IH (q ++ newq) (mkAF (af_adds st ++ [n]) pf pi insT outsT) st'); [|exact H]. clear IH H. unfold af_ok, af_member. cbn [af_adds af_pf af_pi af_ins af_outs].
  split; [|split; [|split]].
  - intros c Hc. apply in_app_or in Hc as [Hc|[<-|[]]].
    + destruct (M c Hc) as (H1 & H2 & H3 & o & H4 & H5 & H6). split; [exact H1|]. split; [exact H2|]. split.
      * intros iv Hiv. destruct (H3 iv Hiv) as (pr & Hpr & [(Ha & Hin)|(HT & pp & Hpp & Hpf & Hin)]); exists pr; (split; [exact Hpr|]).
        -- left. split; auto. apply in_or_app. now left.
        -- right. split; auto. exists pp. repeat split; auto.
      * exists o. split; [exact H4|]. split; [exact H5|]. intros m Hm. destruct (H6 m Hm) as [(Ha & [Hin|[<-|Hin]])|(HT & pp & Hpp & Hpi & Hin)].
        -- left. split; auto. left. apply in_or_app. now left.
        -- left. split; auto. left. apply in_or_app. right. now left.
        -- left. split; auto. right. apply in_or_app. now left.
        -- right. split; auto. exists pp. repeat split; auto.
    + split; [exact Hnin|]. split; [exact Eadd|]. split.
      * intros iv Hiv. destruct (I3 iv Hiv) as (pr & Hpr & [(Ha & Hin)|(HT & pp & Hpp & Hpf & Hin)]); exists pr; (split; [exact Hpr|]).
        -- left. split; auto. apply in_or_app. now left.
        -- right. split; auto. exists pp. repeat split; auto.
      * exists out. split; [exact Eo|]. split; [exact Eobs|]. intros m Hm. destruct (C4 m Hm) as [(Ha & [Hin|Hin])|(HT & pp & Hpp & Hpi & Hin)].
        -- left. split; auto. left. apply in_or_app. now left.
        -- left. split; auto. right. apply in_or_app. now right.
        -- right. split; auto. exists pp. repeat split; auto.
  - intros t Ht. destruct (I4 t Ht) as [Hl|(iv & pp & Hiv & Hpr & HT & Hpp & Hpf)].
    + destruct (TI t Hl) as (c & iv & pp & Hc & Hiv & Hpr & HT & Hpp & Hpf). exists c, iv, pp. repeat split; auto. apply in_or_app. now left.
    + exists n, iv, pp. repeat split; auto. apply in_or_app. right. now left.
  - intros t Ht. destruct (C5 t Ht) as [Hl|(pp & Hin & HT & Hpp & Hpi)].
    + destruct (TO t Hl) as (c & o & pp & Hc & Ho & Hcons & HT & Hpp & Hpi). exists c, o, pp. repeat split; auto. apply in_or_app. now left.
    + exists n, out, pp. repeat split; auto. apply in_or_app. right. now left.
  - intros n0 Hn0. apply in_app_or in Hn0 as [Hn0|Hn0]; [apply Q; now right|].
    destruct (C6 n0 Hn0) as [[]|Hc]. unfold consumers in Hc. now apply filter_In in Hc as [Hc _].
Qed.

Record addforest_facts (g : tgraph) (f : forest) (p q : list nat) : Prop := {
  fa_ok : inv_ok p q = true;
  fa_members : forall c, In c (f_es f) -> In c (tg_nodes g) /\ is_add c = true /\
      (forall iv, In iv (n_ins c) -> exists pr, producer (tg_nodes g) iv = Some pr /\
         (In pr (f_es f) \/ (is_T pr = true /\ perm_of pr = Some p /\ In pr (f_ts f)))) /\
      exists out, out1 c = Some out /\ tobserved g out = false /\
        forall m, In m (consumers (tg_nodes g) out) -> In m (f_es f) \/ (is_T m = true /\ perm_of m = Some q /\ In m (f_outs f));
  fa_ts : forall t, In t (f_ts f) -> exists c iv, In c (f_es f) /\ In iv (n_ins c) /\ producer (tg_nodes g) iv = Some t /\
      is_T t = true /\ perm_of t = Some p;
  fa_outs : forall t, In t (f_outs f) -> exists c o, In c (f_es f) /\ out1 c = Some o /\ In t (consumers (tg_nodes g) o) /\
      is_T t = true /\ perm_of t = Some q;
  fa_guard : forall t, In t (f_ts f) -> ~ In t (f_outs f);
  fa_caps : forall n, In n (f_es f ++ f_ts f ++ f_outs f) -> n_caps n = [] }.

Lemma decide_addforest_facts g start f : In start (tg_nodes g) -> decide_addforest g start = Some f -> exists p q, addforest_facts g f p q.
Proof.
  intros Hstart H. unfold decide_addforest in H. destruct (is_add start); [|discriminate]. cbn [negb] in H.
  destruct (af_walk g start (collect_fuel g) [start] (mkAF [] None None [] [])) as [st|] eqn:Ew; [|discriminate].
  destruct (af_adds st) as [|c0 cr] eqn:Ea; [discriminate|]. destruct (af_pf st) as [pf|] eqn:Ef; [|discriminate].
  destruct (af_pi st) as [pi|] eqn:Ei; [|discriminate]. destruct (af_outs st) as [|o0 or_] eqn:Eo; [discriminate|].
  rewrite <- Ea, <- Eo in H.
  match type of H with (if ?c then _ else _) = _ => destruct c eqn:Ecnd; [|discriminate] end. injection H as <-.
  apply andb_prop in Ecnd as [Ecnd Hcaps]. apply andb_prop in Ecnd as [Hinv Hguard]. apply negb_true_iff in Hguard.
  assert (Hinit : af_ok g [start] (mkAF [] None None [] [])).
  { split; [|split; [|split]]; cbn [af_adds af_ins af_outs].
    - intros c1 Hc1. destruct Hc1.
    - intros c1 Hc1. destruct Hc1.
    - intros c1 Hc1. destruct Hc1.
    - intros n1 Hn1. destruct Hn1 as [<-|Hn1]; [exact Hstart | destruct Hn1]. }
  destruct (af_walk_ok g start _ _ _ _ Hinit Ew) as (M & TI & TO & _).
  exists pf, pi. constructor; cbn [f_ts f_es f_outs]; auto.
  - intros c Hc. destruct (M c Hc) as (H1 & H2 & H3 & out & H4 & H5 & H6). split; [exact H1|]. split; [exact H2|]. split.
    + intros iv Hiv. destruct (H3 iv Hiv) as (pr & Hpr & [(Hadd & Hin)|(HT & pp & Hpp & Hpf & Hin)]); exists pr; (split; [exact Hpr|]); [now left|].
      right. rewrite Ef in Hpf. injection Hpf as <-. auto.
    + exists out. split; [exact H4|]. split; [exact H5|]. intros m Hm. destruct (H6 m Hm) as [(Hadd & [Hin|[]])|(HT & pp & Hpp & Hpi & Hin)]; [now left|].
      right. rewrite Ei in Hpi. injection Hpi as <-. auto.
  - intros t Ht. destruct (TI t Ht) as (c & iv & pp & Hc & Hiv & Hpr & HT & Hpp & Hpf). rewrite Ef in Hpf. injection Hpf as <-. exists c, iv. auto.
  - intros t Ht. destruct (TO t Ht) as (c & o & pp & Hc & Ho & Hcons & HT & Hpp & Hpi). rewrite Ei in Hpi. injection Hpi as <-. exists c, o. auto.
  - intros t Ht Hto. assert (existsb (fun t => memn t (af_outs st)) (af_ins st) = true); [|congruence].
    apply existsb_exists. exists t. split; auto. now apply memn_In.
  - intros n Hn. rewrite forallb_forall in Hcaps. specialize (Hcaps n Hn). unfold no_caps in Hcaps. destruct (n_caps n); [reflexivity|discriminate].
Qed.

(* ---- the input Transposes removed by forest_region have no reader left (generic in the region) *)
Lemma forest_region_dead g f : NoDup (defs (tg_nodes g)) ->
  (forall t, In t (f_ts f) -> In t (tg_nodes g) /\ n_outs t = [out_of t]) ->
  (forall t, In t (f_outs f) -> In t (tg_nodes g) /\ n_outs t = [out_of t]) ->
  (forall t, In t (f_ts f) -> ~ In t (f_outs f)) ->
  forall t, In t (r_dead (forest_region g f)) ->
    In t (f_ts f) /\ ~ In (out_of t) (tg_outputs g) /\
    forall m, In m (tg_nodes g) -> ~ In m (f_outs f) -> memn m (f_es f) = false -> ~ In (out_of t) (n_uses m).
Proof.
  intros Hnd Hts Houts Hguard t Hd. cbn [forest_region r_dead] in Hd. apply filter_In in Hd as [Ht Hdead].
  destruct (Hts t Ht) as (Htin & Hto).
  unfold out1 in Hdead. rewrite Hto in Hdead. cbn [hd_error] in Hdead.
  apply andb_prop in Hdead as [Hd1 Hd2]. apply negb_true_iff in Hd1, Hd2. apply orb_false_iff in Hd2 as [Hd2 Hd3].
  set (r0 := mkR (f_es f) (f_ts f) (f_outs f) []) in *.
  assert (Hren : ren_out r0 (out_of t) = out_of t).
  { apply lookup_ren_notin. intros [o i] Hin E. simpl in E. subst o.
    apply pairs_of_in in Hin as (t' & Ht' & Ho' & _). cbn [r0 r_outs] in Ht'. destruct (Houts t' Ht') as (Hin' & Hto').
    unfold out1 in Ho'. rewrite Hto' in Ho'. simpl in Ho'. injection Ho' as Ho'.
    assert (t' = t) by (apply (defs_unique (tg_nodes g) t' t (out_of t') Hnd Hin' Htin); [rewrite Hto'; now left | rewrite Hto, Ho'; now left]).
    subst t'. exact (Hguard t Ht Ht'). }
  split; [exact Ht|]. split.
  - intro Ho. assert (mem (out_of t) (map (ren_out r0) (tg_outputs g)) = true); [|congruence].
    apply mem_In. apply in_map_iff. exists (out_of t). split; auto.
  - intros m Hm HmO Hmes Huse.
    assert (Hlive : In (region_tr r0 m) (map (region_tr r0) (filter (region_keep r0) (tg_nodes g)))).
    { apply in_map. apply filter_In. split; auto. unfold region_keep. cbn [r0 r_outs r_dead]. rewrite (memn_false _ _ HmO). reflexivity. }
    assert (Htrm : region_tr r0 m = subst_map (ren_out r0) m) by (unfold region_tr; cbn [r0 r_es]; now rewrite Hmes).
    rewrite Htrm in Hlive. unfold n_uses in Huse. apply in_app_or in Huse as [Hu|Hu].
    + assert (existsb (fun m0 => mem (out_of t) (n_ins m0)) (map (region_tr r0) (filter (region_keep r0) (tg_nodes g))) = true); [|congruence].
      apply existsb_exists. eexists. split; [exact Hlive|]. apply mem_In. cbn [subst_map n_ins]. apply in_map_iff. exists (out_of t). auto.
    + assert (existsb (fun m0 => mem (out_of t) (n_caps m0)) (map (region_tr r0) (filter (region_keep r0) (tg_nodes g))) = true); [|congruence].
      apply existsb_exists. eexists. split; [exact Hlive|]. apply mem_In. cbn [subst_map n_caps]. apply in_map_iff. exists (out_of t). auto.
Qed.

Section AddForestSound.
  Variable A : Type.
  Notation V := (tensor A).
  Variable sem : string -> list nat -> list V -> option (list V).
  Hypothesis sem_proper : forall op ats vs vs' o, Forall2 teq vs vs' -> sem op ats vs = Some o ->
    exists o', sem op ats vs' = Some o' /\ Forall2 teq o o'.
  Hypothesis Htr : sem_transpose_spec A sem op_type.
  Variable F : string -> list nat -> list A -> A.
  Hypothesis Hpw : sem_pointwise_spec_g A sem op_type F.
  Variable Fcl : list nat -> V -> A -> A.
  Hypothesis Hcl : sem_castlike_spec_n A sem op_type Fcl.
  Hypothesis Hcl_type : castlike_type_only A Fcl.
  Hypothesis Hacc : sem_accepts_spec_g A sem op_type.
  Notation evalg := (eval V sem).
  Notation stepg := (step V sem).
  Notation refinesg := (refines V teq sem).
  Notation tadmissible := (tadmissible A sem).

  Variables (g : tgraph) (f : forest) (p q : list nat) (e ef : env V).
  Hypothesis Hfa : addforest_facts g f p q.
  Hypothesis Hadm : tadmissible g e.
  Hypothesis Hev : evalg (tg_nodes g) e = Some ef.
  Let Hssa := tadm_ssa _ _ _ _ Hadm.
  Let Hnd : NoDup (defs (tg_nodes g)) := proj1 Hssa.
  Let r := forest_region g f.

  Lemma fa_es_in c : In c (f_es f) -> In c (tg_nodes g) /\ is_elem c = true /\ n_caps c = [] /\ is_add c = true.
  Proof.
    intro Hc. destruct (fa_members _ _ _ _ Hfa c Hc) as (H1 & H2 & _). repeat split; auto; [now apply is_add_elem|].
    apply (fa_caps _ _ _ _ Hfa). apply in_or_app. now left.
  Qed.
  Lemma fa_es_val c : In c (f_es f) ->
    exists vs yv, n_outs c = [out_of c] /\ lookups V ef (n_ins c) = Some vs /\ ef (out_of c) = Some yv.
  Proof.
    intro Hc. destruct (fa_es_in c Hc) as (H1 & H2 & H3 & H4).
    destruct (elem_val A sem F Hpw Fcl Hcl g e ef c Hadm Hev H1 H2 H3) as (vs & yv & Ho & Hl & Ey & _). eauto.
  Qed.
  Lemma fa_T_val t pt : In t (tg_nodes g) -> is_T t = true -> perm_of t = Some pt -> n_caps t = [] ->
    n_outs t = [out_of t] /\ exists x vx vy, n_ins t = [x] /\ ef x = Some vx /\ ef (out_of t) = Some vy /\
      teq vy (transpose pt vx) /\ length pt = length (shape vx).
  Proof.
    intros Hin HT Hpt Hcaps.
    destruct (tnode_final A sem Htr g e ef t pt Hadm Hev Hin HT Hpt) as (u & y & x & vy & Eu & Eo & Ex & Ey & Ht & Hl).
    unfold n_uses in Eu. rewrite Hcaps, app_nil_r in Eu. unfold out_of. rewrite Eo. split; auto. exists u, x, vy. auto.
  Qed.
  Lemma fa_ts_val t : In t (f_ts f) -> In t (tg_nodes g) /\ is_T t = true /\ perm_of t = Some p /\ n_caps t = [] /\
    n_outs t = [out_of t] /\ exists x, n_ins t = [x].
  Proof.
    intro Ht. destruct (fa_ts _ _ _ _ Hfa t Ht) as (c & iv & Hc & Hiv & Hpr & HT & Hpp). destruct (producer_spec _ _ _ Hpr) as [Hin _].
    assert (Hcaps : n_caps t = []) by (apply (fa_caps _ _ _ _ Hfa); apply in_or_app; right; apply in_or_app; now left).
    destruct (fa_T_val t p Hin HT Hpp Hcaps) as (Ho & x & _ & _ & Hx & _). repeat split; eauto.
  Qed.
  Lemma fa_outs_val t : In t (f_outs f) -> In t (tg_nodes g) /\ is_T t = true /\ perm_of t = Some q /\ n_caps t = [] /\
    n_outs t = [out_of t] /\ exists c, In c (f_es f) /\ n_ins t = [out_of c].
  Proof.
    intro Ht. destruct (fa_outs _ _ _ _ Hfa t Ht) as (c & o & Hc & Ho & Hcons & HT & Hpp).
    unfold consumers in Hcons. apply filter_In in Hcons as [Hin Hread].
    assert (Hcaps : n_caps t = []) by (apply (fa_caps _ _ _ _ Hfa); apply in_or_app; right; apply in_or_app; now right).
    destruct (fa_T_val t q Hin HT Hpp Hcaps) as (Hout & x & _ & _ & Hi & _).
    destruct (fa_es_val c Hc) as (_ & _ & Hco & _). unfold out1 in Ho. rewrite Hco in Ho. simpl in Ho. injection Ho as <-.
    apply existsb_exists in Hread as (z & Hz & E). apply Nat.eqb_eq in E. subst z. rewrite Hi in Hz. destruct Hz as [->|[]].
    repeat split; auto. exists c. auto.
  Qed.

  Lemma fa_dead t : In t (r_dead r) ->
    In t (f_ts f) /\ ~ In (out_of t) (tg_outputs g) /\
    forall m, In m (tg_nodes g) -> ~ In m (f_outs f) -> memn m (f_es f) = false -> ~ In (out_of t) (n_uses m).
  Proof.
    apply (forest_region_dead g f Hnd).
    - intros t0 Ht0. destruct (fa_ts_val t0 Ht0) as (H1 & _ & _ & _ & H2 & _). auto.
    - intros t0 Ht0. destruct (fa_outs_val t0 Ht0) as (H1 & _ & _ & _ & H2 & _). auto.
    - exact (fa_guard _ _ _ _ Hfa).
  Qed.

  Lemma addforest_region_facts : region_facts g r p q.
  Proof.
    constructor; cbn [r forest_region r_es r_ts r_outs].
    - exact (fa_ok _ _ _ _ Hfa).
    - intros c Hc. destruct (fa_es_in c Hc) as (H1 & H2 & H3 & _). destruct (fa_es_val c Hc) as (_ & _ & Ho & _). auto.
    - intros c u Hc Hu. destruct (fa_members _ _ _ _ Hfa c Hc) as (_ & _ & Hins & _).
      destruct (Hins u Hu) as (pr & Hpr & [Hin|(HT & Hpp & Hin)]).
      + left. unfold outs_of. apply in_map_iff. exists pr. split; auto.
        destruct (fa_es_val pr Hin) as (_ & _ & Ho & _). apply producer_spec in Hpr as [_ Hu']. rewrite Ho in Hu'. destruct Hu' as [E|[]]. exact E.
      + right. left. exists pr. split; auto. destruct (fa_ts_val pr Hin) as (_ & _ & _ & _ & Ho & _).
        apply producer_spec in Hpr as [_ Hu']. rewrite Ho in Hu'. destruct Hu' as [E|[]]. exact E.
    - intros t Ht. destruct (fa_ts_val t Ht) as (H1 & H2 & H3 & H4 & H5 & x & Hx). repeat split; auto. exists x.
      split; [exact Hx|]. split; [exact H4|]. split.
      + intro HxD. unfold outs_of in HxD. apply in_map_iff in HxD as (c' & Ec' & Hc').
        destruct (fa_members _ _ _ _ Hfa c' Hc') as (_ & Hadd' & _ & out & Ho & _ & Hcons). destruct (fa_es_val c' Hc') as (_ & _ & Hco & _).
        unfold out1 in Ho. rewrite Hco in Ho. simpl in Ho. injection Ho as <-.
        assert (Htc : In t (consumers (tg_nodes g) (out_of c'))).
        { unfold consumers. apply filter_In. split; auto. apply existsb_exists. exists x. rewrite Hx. split; [now left | rewrite Ec'; apply Nat.eqb_refl]. }
        destruct (Hcons t Htc) as [He|(_ & _ & Ho')]; [|exact (fa_guard _ _ _ _ Hfa t Ht Ho')].
        destruct (fa_es_in t He) as (_ & He' & _). rewrite (elem_not_T _ He') in H2. discriminate.
      + intro HxDead. unfold outs_of in HxDead. apply in_map_iff in HxDead as (tk & Ek & Htk).
        destruct (fa_dead tk Htk) as (_ & _ & Hno). apply (Hno t H1).
        * exact (fa_guard _ _ _ _ Hfa t Ht).
        * apply memn_false. intro He. destruct (fa_es_in t He) as (_ & He' & _). rewrite (elem_not_T _ He') in H2. discriminate.
        * unfold n_uses. rewrite Hx, Ek. now left.
    - intros t Ht. destruct (fa_outs_val t Ht) as (H1 & H2 & H3 & H4 & H5 & c & Hc & Hi). repeat split; auto.
      exists (out_of c). repeat split; auto. unfold outs_of. apply in_map_iff. eauto.
    - exact (fa_guard _ _ _ _ Hfa).
    - intros t Ht. destruct (fa_dead t Ht) as (H1 & H2 & H3). repeat split; auto.
      intros m Hm Hk Hmes. apply H3; auto. unfold region_keep in Hk. apply andb_prop in Hk as [Hk _]. apply negb_true_iff in Hk.
      intro Hin. apply memn_In in Hin. cbn [r forest_region r_outs] in Hk. congruence.
    - intros y Hy. unfold outs_of in Hy. apply in_map_iff in Hy as (c & <- & Hc).
      destruct (fa_members _ _ _ _ Hfa c Hc) as (_ & _ & _ & out & Ho & Hobs & _). destruct (fa_es_val c Hc) as (_ & _ & Hco & _).
      unfold out1 in Ho. rewrite Hco in Ho. simpl in Ho. injection Ho as <-. now apply tobserved_false.
    - intros y m Hy Hm Hym. unfold outs_of in Hy. apply in_map_iff in Hy as (c & <- & Hc).
      destruct (fa_members _ _ _ _ Hfa c Hc) as (_ & _ & _ & out & Ho & _ & Hcons). destruct (fa_es_val c Hc) as (_ & _ & Hco & _).
      assert (Ho1 : out1 c = Some (out_of c)) by (unfold out1; now rewrite Hco). rewrite Ho1 in Ho. injection Ho as <-.
      assert (Hmc : In m (consumers (tg_nodes g) (out_of c))).
      { unfold consumers. apply filter_In. split; auto. apply existsb_exists. exists (out_of c). split; auto. apply Nat.eqb_refl. }
      destruct (Hcons m Hmc) as [Hin|(_ & _ & Hin)]; auto.
  Qed.

  (* ---- ranks: every operand of a forest Add is the output of a Transpose p (rank |p|) or of an earlier forest Add *)
  Lemma fa_def_before_use pre n post u pr : tg_nodes g = pre ++ n :: post -> In u (n_uses n) -> In pr (tg_nodes g) -> In u (n_outs pr) -> In pr pre.
  Proof.
    intros Hsplit Hu Hpr Huo. rewrite Hsplit in Hpr. apply in_app_or in Hpr as [H|H]; auto. exfalso.
    pose proof Hev as Hev'. rewrite Hsplit, (eval_app V sem) in Hev'. destruct (evalg pre e) as [em|] eqn:Epre; [|discriminate]. simpl in Hev'.
    destruct (stepg em n) as [e1|] eqn:Es; [|discriminate].
    assert (Hdef : em u <> None).
    { unfold step in Es. destruct (lookups V em (n_uses n)) as [vs|] eqn:El; [|discriminate]. exact (lookups_defined V em _ _ u El Hu). }
    apply Hdef. pose proof (proj1 Hssa) as Hnd0. pose proof (proj2 Hssa) as Hfree.
    rewrite Hsplit in Hnd0, Hfree. unfold defs in Hnd0, Hfree. rewrite flat_map_app in Hnd0, Hfree.
    assert (Hud : In u (flat_map n_outs (n :: post))) by (apply in_flat_map; eauto).
    apply (eval_undefined V sem pre e em u Epre).
    - apply Hfree. apply in_or_app. now right.
    - intro Hp. exact (NoDup_app_disj _ _ u Hnd0 Hp Hud).
  Qed.

  Lemma fa_operand_rank (P : node -> Prop) c u v : In c (f_es f) -> In u (n_ins c) -> ef u = Some v ->
    (forall pr, In pr (f_es f) -> In u (n_outs pr) -> P pr) ->
    (forall pr yv, P pr -> In pr (f_es f) -> ef (out_of pr) = Some yv -> length (shape yv) <= length p) ->
    length (shape v) <= length p.
  Proof.
    intros Hc Hu Ev HP Hrk. destruct (fa_members _ _ _ _ Hfa c Hc) as (_ & _ & Hins & _).
    destruct (Hins u Hu) as (pr & Hpr & [Hin|(HT & Hpp & Hin)]); apply producer_spec in Hpr as [Hprin Huo].
    - destruct (fa_es_val pr Hin) as (_ & _ & Ho & _). pose proof Huo as Huo'. rewrite Ho in Huo'. destruct Huo' as [E|[]]. subst u.
      exact (Hrk pr v (HP pr Hin Huo) Hin Ev).
    - destruct (fa_ts_val pr Hin) as (_ & _ & _ & Hcaps & _).
      destruct (fa_T_val pr p Hprin HT Hpp Hcaps) as (Ho & x & vx & vy & Hx & Ex & Ey & Ht & Hl).
      rewrite Ho in Huo. destruct Huo as [E|[]]. subst u. rewrite Ev in Ey. injection Ey as ->.
      rewrite (proj1 Ht). simpl. rewrite gather_length. auto.
  Qed.

  Lemma fa_rank_forward : forall pre post, tg_nodes g = pre ++ post -> forall c yv, In c (f_es f) -> In c pre ->
    ef (out_of c) = Some yv -> length (shape yv) <= length p.
  Proof.
    induction pre as [|n l IH] using rev_ind; intros post Hsplit c yv Hc Hcp Ey; [contradiction|].
    rewrite <- app_assoc in Hsplit. simpl in Hsplit. apply in_app_or in Hcp as [Hcp|[<-|[]]]; [exact (IH _ Hsplit c yv Hc Hcp Ey)|].
    destruct (fa_es_in n Hc) as (Hnin & Hel & Hcaps & Hadd).
    destruct (eval_consistent V sem _ _ _ n Hssa Hev Hnin) as (vs & o & Hl & Hs & Hlo).
    destruct (Hpw _ _ _ _ (add_is_pw n Hadd) Hs) as (_ & y & -> & Hy).
    destruct (fa_es_val n Hc) as (_ & _ & Hno & _). rewrite Hno in Hlo. simpl in Hlo. rewrite Ey in Hlo. injection Hlo as ->.
    rewrite (proj1 Hy), pwg_rank. apply prank_le.
    unfold n_uses in Hl. rewrite Hcaps, app_nil_r in Hl.
    apply (lookups_Forall V _ ef (n_ins n) vs Hl). intros u w Hu Ew.
    apply (fa_operand_rank (fun pr => In pr l) n u w Hc Hu Ew).
    - intros pr Hpr Huo. destruct (fa_es_in pr Hpr) as (Hprin & _). apply (fa_def_before_use l n post u pr Hsplit); auto.
      unfold n_uses. apply in_or_app. now left.
    - intros pr yv0 Hprl Hpr E0. exact (IH _ Hsplit pr yv0 Hpr Hprl E0).
  Qed.

  Lemma fa_rank n u v : In n (f_es f) -> In u (n_ins n) -> ef u = Some v -> length (shape v) <= length p.
  Proof.
    intros Hn Hu Ev. apply (fa_operand_rank (fun _ => True) n u v Hn Hu Ev); auto.
    intros pr yv _ Hpr E0. destruct (fa_es_in pr Hpr) as (Hprin & _).
    apply (fa_rank_forward (tg_nodes g) [] (eq_sym (app_nil_r _)) pr yv Hpr Hprin E0).
  Qed.

  Lemma addforest_run : refinesg (tg_graph g) (tg_graph (apply_forest g f)) e.
  Proof.
    apply (region_run A sem sem_proper Htr F Hpw Fcl Hcl Hcl_type Hacc g r p q e ef Hadm addforest_region_facts Hev).
    intros n u v Hn _. cbn [r forest_region r_es] in Hn. now apply fa_rank.
  Qed.

  Lemma addforest_admissible : tadmissible (apply_forest g f) e.
  Proof.
    apply (region_admissible A sem sem_proper Htr F Hpw Fcl Hcl Hcl_type Hacc g r p q e ef Hadm addforest_region_facts Hev).
    intros n u v Hn _. cbn [r forest_region r_es] in Hn. now apply fa_rank.
  Qed.
  Lemma addforest_frame :
    (exists ef', evalg (tg_nodes (apply_forest g f)) e = Some ef' /\
       forall x w, ef' x = Some w -> exists v, ef x = Some v /\ (In x (map out_of (f_es f)) \/ teq v w)) /\
    (forall n y, In n (tg_nodes (apply_forest g f)) -> In y (n_outs n) -> In y (map out_of (f_es f)) -> is_elem n = true /\ n_caps n = []) /\
    (forall y, In y (map out_of (f_es f)) -> In y (defs (tg_nodes (apply_forest g f)))).
  Proof.
    apply (region_frame A sem sem_proper Htr F Hpw Fcl Hcl Hcl_type Hacc g r p q e ef Hadm addforest_region_facts Hev).
    intros n u v Hn _. cbn [r forest_region r_es] in Hn. now apply fa_rank.
  Qed.
End AddForestSound.

(* ---- the pass, for every graph that is admissible when the pass starts *)
Section AddForestPass.
  Variable A : Type.
  Notation V := (tensor A).
  Variable sem : string -> list nat -> list V -> option (list V).
  Hypothesis sem_proper : forall op ats vs vs' o, Forall2 teq vs vs' -> sem op ats vs = Some o ->
    exists o', sem op ats vs' = Some o' /\ Forall2 teq o o'.
  Hypothesis Htr : sem_transpose_spec A sem op_type.
  Variable F : string -> list nat -> list A -> A.
  Hypothesis Hpw : sem_pointwise_spec_g A sem op_type F.
  Variable Fcl : list nat -> V -> A -> A.
  Hypothesis Hcl : sem_castlike_spec_n A sem op_type Fcl.
  Hypothesis Hcl_type : castlike_type_only A Fcl.
  Hypothesis Hacc : sem_accepts_spec_g A sem op_type.
  Notation evalg := (eval V sem).
  Notation refinesg := (refines V teq sem).

  Theorem addforest_step_sound g g' e : tadmissible A sem g e -> addforest_step g = Some g' ->
    refinesg (tg_graph g) (tg_graph g') e.
  Proof.
    intros Hadm Hstep. unfold addforest_step in Hstep.
    destruct (first_some (decide_addforest g) (tg_nodes g)) as [f|] eqn:Efs; [|discriminate]. injection Hstep as <-.
    apply first_some_spec in Efs as (start & Hstart & Hd). destruct (decide_addforest_facts g start f Hstart Hd) as (p & q & Hfa).
    intros o Hrun. assert (Hev : exists ef, evalg (tg_nodes g) e = Some ef).
    { unfold run in Hrun. simpl in Hrun. destruct (evalg (tg_nodes g) e); [eauto|discriminate]. }
    destruct Hev as [ef Hev].
    exact (addforest_run A sem sem_proper Htr F Hpw Fcl Hcl Hcl_type Hacc g f p q e ef Hfa Hadm Hev o Hrun).
  Qed.

  Theorem addforest_step_admissible g g' e ef : tadmissible A sem g e -> evalg (tg_nodes g) e = Some ef ->
    addforest_step g = Some g' -> tadmissible A sem g' e.
  Proof.
    intros Hadm Hev Hstep. unfold addforest_step in Hstep.
    destruct (first_some (decide_addforest g) (tg_nodes g)) as [f|] eqn:Efs; [|discriminate]. injection Hstep as <-.
    apply first_some_spec in Efs as (start & Hstart & Hd). destruct (decide_addforest_facts g start f Hstart Hd) as (p & q & Hfa).
    exact (addforest_admissible A sem sem_proper Htr F Hpw Fcl Hcl Hcl_type Hacc g f p q e ef Hfa Hadm Hev).
  Qed.

  Theorem addforest_step_frame g f e ef : tadmissible A sem g e -> evalg (tg_nodes g) e = Some ef ->
    first_some (decide_addforest g) (tg_nodes g) = Some f ->
    (exists ef', evalg (tg_nodes (apply_forest g f)) e = Some ef' /\
       forall x w, ef' x = Some w -> exists v, ef x = Some v /\ (In x (map out_of (f_es f)) \/ teq v w)) /\
    (forall n y, In n (tg_nodes (apply_forest g f)) -> In y (n_outs n) -> In y (map out_of (f_es f)) -> is_elem n = true /\ n_caps n = []) /\
    (forall y, In y (map out_of (f_es f)) -> In y (defs (tg_nodes (apply_forest g f)))).
  Proof.
    intros Hadm Hev Efs. apply first_some_spec in Efs as (start & Hstart & Hd). destruct (decide_addforest_facts g start f Hstart Hd) as (p & q & Hfa).
    exact (addforest_frame A sem sem_proper Htr F Hpw Fcl Hcl Hcl_type Hacc g f p q e ef Hfa Hadm Hev).
  Qed.

  Theorem addforest_pass_sound : forall fuel g e, tadmissible A sem g e ->
    refinesg (tg_graph g) (tg_graph (addforest_pass fuel g)) e.
  Proof.
    induction fuel as [|k IH]; simpl; intros g e Hadm.
    - apply (refines_refl V teq (@teq_refl A) sem).
    - destruct (addforest_step g) as [g'|] eqn:Es; [|apply (refines_refl V teq (@teq_refl A) sem)].
      intros out Hrun.
      assert (Hev : exists ef, evalg (tg_nodes g) e = Some ef).
      { unfold run in Hrun. simpl in Hrun. destruct (evalg (tg_nodes g) e); [eauto|discriminate]. }
      destruct Hev as [ef Hev].
      pose proof (addforest_step_admissible g g' e ef Hadm Hev Es) as Hadm'.
      revert out Hrun. eapply (refines_trans V teq (@teq_trans A) sem).
      + eapply addforest_step_sound; eauto.
      + apply IH. exact Hadm'.
  Qed.
End AddForestPass.

Example addforest_folded :
  tg_nodes (addforest_pass 5 (mkTG [mkNode "Transpose" [1; 1; 0] [1] [] [3]; mkNode "Transpose" [1; 1; 0] [2] [] [4]; mkNode "Add" [] [3; 4] [] [5];
                                    mkNode "Add" [] [5; 3] [] [6]; mkNode "Transpose" [1; 1; 0] [6] [] [7]] [7] (fun _ => false)))
  = [mkNode "Add" [] [1; 2] [] [5]; mkNode "Add" [] [5; 1] [] [6]].
Proof. vm_compute. reflexivity. Qed.
