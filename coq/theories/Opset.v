(* Opset (C11): "the requested opset is honoured".
   - schema_at: the operator AS OF an opset = the version with the greatest since_version <= opset
     (gen/GenSchemas.v = dump of the installed onnx.defs, regenerated on every run; data, not axioms);
   - opset_ok: a boolean validator over the exported model (Onnx.omodel, produced from the real
     ModelProto by tools/onnx2coq.py) with its soundness theorem against the declarative node_conforms;
   - finite proofs about the opset-sensitive helpers translated from /repo (gen/GenOpsetUtils.v):
     the reduction axes form and the Swish guard agree with the dumped schemas at EVERY opset. *)
From Coq Require Import ZArith String List Bool Lia.
From J2O Require Import Onnx.
From J2OGen Require Import GenSchemas GenOpsetUtils.
Import ListNotations.
Local Open Scope string_scope.
Local Open Scope Z_scope.

(* ------------------------------------------------------------------ tables *)
Definition lookup {A} (tbl : list (string * A)) (k : string) : option A :=
  match find (fun kv => String.eqb (fst kv) k) tbl with Some kv => Some (snd kv) | None => None end.

Lemma lookup_In {A} (tbl : list (string * A)) k v : lookup tbl k = Some v -> In (k, v) tbl.
Proof.
  unfold lookup. destruct (find _ tbl) as [[k' v']|] eqn:E; [|discriminate].
  intro H; inversion H; subst. apply find_some in E. destruct E as [Hin Hk].
  simpl in Hk. apply String.eqb_eq in Hk. now subst.
Qed.

Lemma lookup_None {A} (tbl : list (string * A)) k : lookup tbl k = None -> forall v, ~ In (k, v) tbl.
Proof.
  unfold lookup. destruct (find _ tbl) as [kv|] eqn:E; [discriminate|]. intros _ v Hin.
  pose proof (find_none _ _ E _ Hin) as H. simpl in H. now rewrite String.eqb_refl in H.
Qed.

Lemma opset_of_In imports d v : opset_of imports d = Some v -> In (d, v) imports.
Proof.
  unfold opset_of. destruct (find _ imports) as [[k' v']|] eqn:E; [|discriminate].
  intro H; inversion H; subst. apply find_some in E. destruct E as [Hin Hk].
  simpl in Hk. apply String.eqb_eq in Hk. now subst.
Qed.

(* ------------------------------------------------------------------ the operator as of an opset *)
Definition applicable (vs : list schema_ver) (opset : Z) : list schema_ver :=
  filter (fun v => sv_since v <=? opset) vs.

Fixpoint max_ver (vs : list schema_ver) : option schema_ver :=
  match vs with
  | [] => None
  | v :: r => match max_ver r with
              | None => Some v
              | Some w => if sv_since w <? sv_since v then Some v else Some w
              end
  end.

Definition version_at (vs : list schema_ver) (opset : Z) : option schema_ver := max_ver (applicable vs opset).

(* declarative: sv is a version of the operator introduced no later than `opset`, and no other
   version introduced at or before `opset` is newer *)
Definition is_version_at (vs : list schema_ver) (opset : Z) (sv : schema_ver) : Prop :=
  In sv vs /\ sv_since sv <= opset /\
  forall sv', In sv' vs -> sv_since sv' <= opset -> sv_since sv' <= sv_since sv.

Lemma max_ver_spec vs sv : max_ver vs = Some sv ->
  In sv vs /\ forall sv', In sv' vs -> sv_since sv' <= sv_since sv.
Proof.
  revert sv. induction vs as [|v r IH]; simpl; [discriminate|]. intros sv H.
  destruct (max_ver r) as [w|] eqn:E.
  - destruct (IH w eq_refl) as [Hw Hmax].
    destruct (sv_since w <? sv_since v) eqn:C; inversion H; subst.
    + apply Z.ltb_lt in C. split; [now left|]. intros sv' [->|Hin]; [lia|]. specialize (Hmax _ Hin). lia.
    + apply Z.ltb_ge in C. split; [now right|]. intros sv' [->|Hin]; [lia|]. now apply Hmax.
  - inversion H; subst. split; [now left|]. intros sv' [->|Hin]; [lia|].
    destruct r; [contradiction|]. simpl in E. destruct (max_ver r); [destruct (_ <? _)|]; discriminate.
Qed.

Lemma max_ver_None vs : max_ver vs = None -> vs = [].
Proof. destruct vs; simpl; [reflexivity|]. destruct (max_ver vs); [destruct (_ <? _)|]; discriminate. Qed.

Lemma version_at_spec vs opset sv : version_at vs opset = Some sv -> is_version_at vs opset sv.
Proof.
  unfold version_at, applicable. intro H. apply max_ver_spec in H. destruct H as [Hin Hmax].
  apply filter_In in Hin. destruct Hin as [Hin Hle]. apply Z.leb_le in Hle.
  repeat split; auto. intros sv' Hin' Hle'. apply Hmax. apply filter_In. split; auto. now apply Z.leb_le.
Qed.

Lemma version_at_None vs opset : version_at vs opset = None -> forall sv, In sv vs -> opset < sv_since sv.
Proof.
  unfold version_at, applicable. intros H sv Hin. apply max_ver_None in H.
  destruct (Z.ltb_spec opset (sv_since sv)) as [|Hle]; [assumption|].
  assert (Hf : In sv (filter (fun v => sv_since v <=? opset) vs)) by (apply filter_In; split; [assumption|now apply Z.leb_le]).
  rewrite H in Hf. contradiction.
Qed.

(* version_at is complete as well: the declarative version is unique up to since_version *)
Lemma version_at_complete vs opset sv : is_version_at vs opset sv ->
  exists sv', version_at vs opset = Some sv' /\ sv_since sv' = sv_since sv.
Proof.
  intros (Hin & Hle & Hmax). destruct (version_at vs opset) as [sv'|] eqn:E.
  - exists sv'. split; [reflexivity|]. apply version_at_spec in E. destruct E as (Hin' & Hle' & Hmax').
    specialize (Hmax _ Hin' Hle'). specialize (Hmax' _ Hin Hle). lia.
  - pose proof (version_at_None _ _ E _ Hin). lia.
Qed.

Definition schema_at_in (tbl : list (string * list schema_ver)) (op : string) (opset : Z) : option schema_ver :=
  match lookup tbl op with Some vs => version_at vs opset | None => None end.

(* the standard-domain operator `op` as of `opset` *)
Definition schema_at (op : string) (opset : Z) : option schema_ver := schema_at_in schemas op opset.

(* the dumped tables have one row per operator and strictly increasing versions: "In (op, vs) tbl" determines vs *)
Fixpoint str_nodup (l : list string) : bool :=
  match l with [] => true | x :: r => negb (str_mem x r) && str_nodup r end.
Fixpoint strictly_increasing (l : list Z) : bool :=
  match l with a :: ((b :: _) as r) => (a <? b) && strictly_increasing r | _ => true end.
Definition table_wf (tbl : list (string * list schema_ver)) : bool :=
  str_nodup (map fst tbl) &&
  forallb (fun kv => strictly_increasing (map sv_since (snd kv)) && negb (Nat.eqb (length (snd kv)) 0) &&
                     forallb (fun v => (1 <=? sv_since v) && (0 <=? sv_min_in v) && (sv_min_in v <=? sv_max_in v) &&
                                       (0 <=? sv_min_out v) && (sv_min_out v <=? sv_max_out v)) (snd kv)) tbl.
Lemma schemas_wf : table_wf schemas = true. Proof. vm_compute. reflexivity. Qed.
Lemma ml_schemas_wf : table_wf ml_schemas = true. Proof. vm_compute. reflexivity. Qed.

Lemma str_mem_In s l : str_mem s l = true <-> In s l.
Proof.
  unfold str_mem. rewrite existsb_exists. split.
  - intros (x & Hin & Hx). apply String.eqb_eq in Hx. now subst.
  - intro H. exists s. split; [assumption|apply String.eqb_refl].
Qed.

Lemma str_nodup_NoDup l : str_nodup l = true -> NoDup l.
Proof.
  induction l as [|x r IH]; simpl; intro H; [constructor|].
  apply andb_true_iff in H. destruct H as [Hx Hr]. constructor; [|now apply IH].
  intro Hin. apply str_mem_In in Hin. now rewrite Hin in Hx.
Qed.

Lemma nodup_fst_functional {A} (tbl : list (string * A)) k v1 v2 :
  NoDup (map fst tbl) -> In (k, v1) tbl -> In (k, v2) tbl -> v1 = v2.
Proof.
  induction tbl as [|[k' v'] r IH]; simpl; intros Hnd H1 H2; [contradiction|].
  inversion Hnd as [|? ? Hnot Hnd']; subst.
  destruct H1 as [H1|H1], H2 as [H2|H2].
  - inversion H1; inversion H2; congruence.
  - inversion H1; subst. exfalso. apply Hnot. now apply (in_map fst) in H2.
  - inversion H2; subst. exfalso. apply Hnot. now apply (in_map fst) in H1.
  - now apply IH.
Qed.

Lemma schemas_functional op vs1 vs2 : In (op, vs1) schemas -> In (op, vs2) schemas -> vs1 = vs2.
Proof.
  apply nodup_fst_functional. apply str_nodup_NoDup.
  pose proof schemas_wf as H. unfold table_wf in H. now apply andb_true_iff in H.
Qed.

(* ------------------------------------------------------------------ conformance of one node *)
Definition domain_table (dom : string) : option (list (string * list schema_ver)) :=
  if String.eqb dom "" || String.eqb dom "ai.onnx" then Some schemas
  else if String.eqb dom "ai.onnx.ml" then Some ml_schemas
  else None.

Definition is_call (n : onode) (f : ofunction) : bool :=
  String.eqb (of_domain f) (on_domain n) && String.eqb (of_name f) (on_op n).
Definition find_function (funs : list ofunction) (n : onode) : option ofunction := find (is_call n) funs.

Definition n_ins (n : onode) : Z := Z.of_nat (length (on_ins n)).
Definition n_outs (n : onode) : Z := Z.of_nat (length (on_outs n)).
Definition attr_names (n : onode) : list string := map fst (on_attrs n).

(* declarative: arity within the signature, every attribute of the node is an attribute of the signature *)
Definition sig_conforms (n : onode) (min_in max_in min_out max_out : Z) (attrs : list string) : Prop :=
  min_in <= n_ins n <= max_in /\ min_out <= n_outs n <= max_out /\
  forall a, In a (attr_names n) -> In a attrs.

Definition sig_problem (n : onode) (min_in max_in min_out max_out : Z) (attrs : list string) : option string :=
  if negb ((min_in <=? n_ins n) && (n_ins n <=? max_in)) then Some "input-arity"
  else if negb ((min_out <=? n_outs n) && (n_outs n <=? max_out)) then Some "output-arity"
  else match find (fun a => negb (str_mem a attrs)) (attr_names n) with
       | Some a => Some ("attribute:" ++ a)
       | None => None
       end.

Lemma sig_problem_sound n a b c d attrs : sig_problem n a b c d attrs = None -> sig_conforms n a b c d attrs.
Proof.
  unfold sig_problem, sig_conforms.
  destruct ((a <=? n_ins n) && (n_ins n <=? b)) eqn:E1; simpl; [|discriminate].
  destruct ((c <=? n_outs n) && (n_outs n <=? d)) eqn:E2; simpl; [|discriminate].
  destruct (find _ (attr_names n)) eqn:E3; [discriminate|]. intros _.
  apply andb_true_iff in E1. destruct E1 as [E1a E1b]. apply andb_true_iff in E2. destruct E2 as [E2a E2b].
  apply Z.leb_le in E1a, E1b, E2a, E2b. repeat split; try assumption.
  intros x Hx. pose proof (find_none _ _ E3 _ Hx) as H. simpl in H.
  apply negb_false_iff in H. now apply str_mem_In.
Qed.

Definition calls_function (funs : list ofunction) (n : onode) (f : ofunction) : Prop :=
  In f funs /\ of_domain f = on_domain n /\ of_name f = on_op n.

Definition fun_sig_conforms (n : onode) (f : ofunction) : Prop :=
  sig_conforms n 0 (Z.of_nat (length (of_inputs f))) 0 (Z.of_nat (length (of_outputs f))) (of_attr_names f).

(* THE declarative statement for a node, given the functions of the model and the opset imports in
   force (model imports for graph nodes, the function's own imports for function bodies):
   - the node's domain is imported, say at version `declared`;
   - a node calling a model-local function fits that function's signature;
   - otherwise, if the domain is one whose schemas ONNX defines ("", "ai.onnx", "ai.onnx.ml"): the operator has a
     version sv introduced at or before `declared`, sv is the NEWEST such version (nothing newer than the
     declared opset is used, nothing older than what the opset selects), sv is not deprecated, the number of inputs and
     outputs is in sv's range and every attribute of the node is an attribute of sv. *)
Definition node_conforms_in (funs : list ofunction) (imports : list (string * Z)) (n : onode) : Prop :=
  exists declared, In (on_domain n, declared) imports /\ opset_of imports (on_domain n) = Some declared /\
   ((exists f, calls_function funs n f /\ fun_sig_conforms n f)
    \/
    ((forall f, ~ calls_function funs n f) /\
     forall tbl, domain_table (on_domain n) = Some tbl ->
       exists vs sv, In (on_op n, vs) tbl /\ is_version_at vs declared sv /\ sv_deprecated sv = false /\
                     sig_conforms n (sv_min_in sv) (sv_max_in sv) (sv_min_out sv) (sv_max_out sv) (sv_attrs sv))).

Definition schema_problem (tbl : list (string * list schema_ver)) (n : onode) (declared : Z) : option string :=
  match lookup tbl (on_op n) with
  | None => Some "unknown-op"
  | Some vs =>
    match version_at vs declared with
    | None => Some "missing-op"                 (* every version of the operator is newer than the declared opset *)
    | Some sv => if sv_deprecated sv then Some "deprecated-op"
                 else sig_problem n (sv_min_in sv) (sv_max_in sv) (sv_min_out sv) (sv_max_out sv) (sv_attrs sv)
    end
  end.

Definition node_problem (funs : list ofunction) (imports : list (string * Z)) (n : onode) : option string :=
  match opset_of imports (on_domain n) with
  | None => Some "domain-not-imported"
  | Some declared =>
    match find_function funs n with
    | Some f => match sig_problem n 0 (Z.of_nat (length (of_inputs f))) 0 (Z.of_nat (length (of_outputs f))) (of_attr_names f) with
                | Some p => Some ("function-call-" ++ p) | None => None end
    | None => match domain_table (on_domain n) with
              | Some tbl => schema_problem tbl n declared
              | None => None
              end
    end
  end.

Lemma node_problem_sound funs imports n : node_problem funs imports n = None -> node_conforms_in funs imports n.
Proof.
  unfold node_problem, node_conforms_in.
  destruct (opset_of imports (on_domain n)) as [declared|] eqn:Ei; [|discriminate].
  intro H. exists declared. split; [now apply opset_of_In|]. split; [reflexivity|].
  unfold find_function in H. destruct (find (is_call n) funs) as [f|] eqn:Ef.
  - left. exists f. apply find_some in Ef. destruct Ef as [Hin Hc]. unfold is_call in Hc.
    apply andb_true_iff in Hc. destruct Hc as [Hd Ho]. apply String.eqb_eq in Hd, Ho.
    split; [now repeat split|]. unfold fun_sig_conforms. apply sig_problem_sound.
    destruct (sig_problem n 0 _ 0 _ (of_attr_names f)); [discriminate|reflexivity].
  - right. split.
    + intros f (Hin & Hd & Ho). pose proof (find_none _ _ Ef _ Hin) as Hc. unfold is_call in Hc.
      rewrite Hd, Ho, !String.eqb_refl in Hc. discriminate.
    + intros tbl Ht. rewrite Ht in H. unfold schema_problem in H.
      destruct (lookup tbl (on_op n)) as [vs|] eqn:El; [|discriminate].
      destruct (version_at vs declared) as [sv|] eqn:Ev; [|discriminate].
      destruct (sv_deprecated sv) eqn:Ed; [discriminate|].
      exists vs, sv. split; [now apply lookup_In|]. split; [now apply version_at_spec|]. split; [assumption|].
      now apply sig_problem_sound.
Qed.

(* the validator is also complete w.r.t. the declarative statement for the standard tables (rows unique) *)
Lemma sig_problem_complete n a b c d attrs : sig_conforms n a b c d attrs -> sig_problem n a b c d attrs = None.
Proof.
  intros ([H1 H2] & [H3 H4] & Hat). unfold sig_problem.
  apply Z.leb_le in H1, H2, H3, H4. rewrite H1, H2, H3, H4. simpl.
  destruct (find _ (attr_names n)) as [x|] eqn:E; [|reflexivity].
  apply find_some in E. destruct E as [Hin Hx]. apply Hat in Hin. apply str_mem_In in Hin.
  now rewrite Hin in Hx.
Qed.

(* ------------------------------------------------------------------ the whole model *)
Definition subgraph_refs_problem (m : omodel) (n : onode) : list string :=
  if forallb (fun i => Nat.ltb i (length (om_graphs m))) (node_subgraph_ids n) then [] else ["dangling-subgraph-id"].

Definition node_problems (m : omodel) (imports : list (string * Z)) (n : onode) : list (string * string) :=
  ((match node_problem (om_functions m) imports n with Some p => [(on_op n, p)] | None => [] end)
   ++ map (fun p => (on_op n, p)) (subgraph_refs_problem m n))%list.

(* a function's imports must not contradict the model's: same version for a domain whose operators ONNX
   defines ("", "ai.onnx", "ai.onnx.ml") -- the version of a model-local function domain carries no meaning *)
Definition import_problems (m : omodel) (f : ofunction) : list (string * string) :=
  flat_map (fun dv => match domain_table (fst dv) with
                      | None => []
                      | Some _ =>
                        match opset_of (om_opsets m) (fst dv) with
                        | Some v => if v =? snd dv then [] else [(of_name f, "function-imports-other-version:" ++ fst dv)]
                        | None => [(of_name f, "function-imports-domain-the-model-does-not:" ++ fst dv)]
                        end
                      end) (of_opsets f).

Definition base_problems (m : omodel) : list (string * string) :=
  (flat_map (fun g => flat_map (node_problems m (om_opsets m)) (og_nodes g)) (om_graphs m)
   ++ flat_map (fun f => flat_map (node_problems m (of_opsets f)) (of_nodes f) ++ import_problems m f) (om_functions m))%list.

(* ------------------------------------------------------------------ element types of node inputs
   The schema version the declared opset selects also fixes which tensor element types each formal input accepts
   (GenSchemas: sv_in_types, a bit mask over TensorProto.DataType codes per formal input).  Checked for every node
   input whose element type is KNOWN in its own graph: graph inputs, initializers, value_info, graph outputs, and the
   outputs of Constant / Cast nodes (read from their `value` / `to` attribute). *)
Definition tenv := list (string * Z).

Definition declared_types (vs : list vinfo) : tenv :=
  flat_map (fun v => if vi_dtype v =? 0 then [] else [(vi_name v, vi_dtype v)]) vs.

Definition node_out_types (n : onode) : tenv :=
  if negb (String.eqb (on_domain n) "" || String.eqb (on_domain n) "ai.onnx") then [] else
  match on_outs n with
  | [o] =>
    if String.eqb (on_op n) "Constant" then
      match lookup (on_attrs n) "value" with Some (ATensor dt _ _) => if dt =? 0 then [] else [(o, dt)] | _ => [] end
    else if String.eqb (on_op n) "Cast" then
      match lookup (on_attrs n) "to" with Some (AInt dt) => if dt =? 0 then [] else [(o, dt)] | _ => [] end
    else []
  | _ => []
  end.

Definition known_types (g : ograph) : tenv :=
  (declared_types (og_inputs g ++ og_inits g ++ og_vinfos g ++ og_outputs g) ++ flat_map node_out_types (og_nodes g))%list.
Definition fun_known_types (f : ofunction) : tenv := flat_map node_out_types (of_nodes f).

(* the schema version the validator selects for a node that is not a call of a model function *)
Definition selected_schema (funs : list ofunction) (imports : list (string * Z)) (n : onode) : option schema_ver :=
  match opset_of imports (on_domain n), find_function funs n, domain_table (on_domain n) with
  | Some declared, None, Some tbl => match lookup tbl (on_op n) with Some vs => version_at vs declared | None => None end
  | _, _, _ => None
  end.

Lemma selected_schema_spec funs imports n sv : selected_schema funs imports n = Some sv ->
  exists declared tbl vs, opset_of imports (on_domain n) = Some declared /\ (forall f, ~ calls_function funs n f) /\
    domain_table (on_domain n) = Some tbl /\ In (on_op n, vs) tbl /\ is_version_at vs declared sv.
Proof.
  unfold selected_schema. destruct (opset_of imports (on_domain n)) as [declared|]; [|discriminate].
  unfold find_function. destruct (find (is_call n) funs) eqn:Ef; [discriminate|].
  destruct (domain_table (on_domain n)) as [tbl|]; [|discriminate].
  destruct (lookup tbl (on_op n)) as [vs|] eqn:El; [|discriminate]. intro H.
  exists declared, tbl, vs. split; [reflexivity|]. split; [|split; [reflexivity|split]].
  - intros f (Hin & Hd & Ho). pose proof (find_none _ _ Ef _ Hin) as Hc. unfold is_call in Hc.
    rewrite Hd, Ho, !String.eqb_refl in Hc. discriminate.
  - now apply lookup_In.
  - now apply version_at_spec.
Qed.

(* the type mask of the i-th actual input: the i-th formal, or the last formal when that one is variadic *)
Definition formal_mask (sv : schema_ver) (i : nat) : option Z :=
  match nth_error (sv_in_types sv) i with
  | Some mk => Some mk
  | None => if sv_in_variadic sv then
              match sv_in_types sv with [] => None | _ => Some (last (sv_in_types sv) (-1)) end
            else None
  end.

(* mask < 0: the dump could not express the constraint as a set of tensor element types -> not checked *)
Definition type_allowed (mask dt : Z) : bool := (mask <? 0) || (dt <? 0) || Z.testbit mask dt.

Definition input_type_problem (env : tenv) (sv : schema_ver) (i : nat) (name : string) : list string :=
  match lookup env name, formal_mask sv i with
  | Some dt, Some mask => if type_allowed mask dt then [] else ["input-type:" ++ name]
  | _, _ => []
  end.

Fixpoint ins_type_problems (env : tenv) (sv : schema_ver) (i : nat) (ins : list string) : list string :=
  match ins with [] => [] | name :: r => (input_type_problem env sv i name ++ ins_type_problems env sv (S i) r)%list end.

Definition node_type_problems (env : tenv) (funs : list ofunction) (imports : list (string * Z)) (n : onode)
  : list (string * string) :=
  match selected_schema funs imports n with
  | Some sv => map (fun p => (on_op n, p)) (ins_type_problems env sv 0 (on_ins n))
  | None => []
  end.

Definition type_problems (m : omodel) : list (string * string) :=
  (flat_map (fun g => flat_map (node_type_problems (known_types g) (om_functions m) (om_opsets m)) (og_nodes g)) (om_graphs m)
   ++ flat_map (fun f => flat_map (node_type_problems (fun_known_types f) (om_functions m) (of_opsets f)) (of_nodes f))
               (om_functions m))%list.

Definition all_problems (m : omodel) : list (string * string) := (base_problems m ++ type_problems m)%list.

(* declarative: every input of the node whose element type is known is of a type the selected schema version allows *)
Definition node_types_conform (env : tenv) (funs : list ofunction) (imports : list (string * Z)) (n : onode) : Prop :=
  forall sv i name dt mask, selected_schema funs imports n = Some sv ->
    nth_error (on_ins n) i = Some name -> lookup env name = Some dt -> formal_mask sv i = Some mask ->
    mask < 0 \/ dt < 0 \/ Z.testbit mask dt = true.

Lemma ins_type_problems_nil env sv ins : forall k, ins_type_problems env sv k ins = [] ->
  forall j name, nth_error ins j = Some name -> input_type_problem env sv (k + j) name = [].
Proof.
  induction ins as [|a r IH]; intros k H j name Hj; [destruct j; discriminate|].
  simpl in H. apply app_eq_nil in H. destruct H as [Ha Hr]. destruct j as [|j]; simpl in Hj.
  - inversion Hj; subst. now rewrite Nat.add_0_r.
  - rewrite <- plus_n_Sm. change (S (k + j)) with (S k + j)%nat. now apply IH.
Qed.

Lemma node_type_problems_sound env funs imports n :
  node_type_problems env funs imports n = [] -> node_types_conform env funs imports n.
Proof.
  unfold node_type_problems, node_types_conform. intros H sv i name dt mask Hs Hi Hl Hm. rewrite Hs in H.
  apply map_eq_nil in H. pose proof (ins_type_problems_nil _ _ _ _ H _ _ Hi) as P. simpl in P.
  unfold input_type_problem in P. rewrite Hl, Hm in P.
  destruct (type_allowed mask dt) eqn:E; [|discriminate]. unfold type_allowed in E.
  apply orb_true_iff in E. destruct E as [E|E]; [apply orb_true_iff in E; destruct E as [E|E]|].
  - left. now apply Z.ltb_lt.
  - right. left. now apply Z.ltb_lt.
  - right. right. assumption.
Qed.

Definition opset_ok (m : omodel) : bool := match all_problems m with [] => true | _ => false end.
Definition opset_first_bad (m : omodel) : option (string * string) := hd_error (all_problems m).

(* declared version of the standard domain *)
Definition declared_opset (m : omodel) : option Z := opset_of (om_opsets m) "".

Definition node_conforms (m : omodel) (n : onode) : Prop := node_conforms_in (om_functions m) (om_opsets m) n.
Definition fnode_conforms (m : omodel) (f : ofunction) (n : onode) : Prop := node_conforms_in (om_functions m) (of_opsets f) n.

Lemma flat_map_nil {A B} (f : A -> list B) l : flat_map f l = [] -> forall x, In x l -> f x = [].
Proof.
  induction l as [|a r IH]; simpl; intros H x Hin; [contradiction|].
  apply app_eq_nil in H. destruct H as [Ha Hr]. destruct Hin as [->|Hin]; [assumption|now apply IH].
Qed.

Lemma opset_ok_all m : opset_ok m = true -> base_problems m = [].
Proof.
  unfold opset_ok, all_problems. destruct (base_problems m ++ type_problems m)%list eqn:E; [|discriminate].
  intros _. now apply app_eq_nil in E.
Qed.

Lemma opset_ok_types m : opset_ok m = true -> type_problems m = [].
Proof.
  unfold opset_ok, all_problems. destruct (base_problems m ++ type_problems m)%list eqn:E; [|discriminate].
  intros _. now apply app_eq_nil in E.
Qed.

Lemma node_problems_nil m imports n : node_problems m imports n = [] ->
  node_problem (om_functions m) imports n = None /\
  forall i, In i (node_subgraph_ids n) -> exists g, graph_by_id m i = Some g.
Proof.
  unfold node_problems. intro H. apply app_eq_nil in H. destruct H as [H1 H2]. split.
  - destruct (node_problem _ imports n); [discriminate|reflexivity].
  - unfold subgraph_refs_problem in H2.
    destruct (forallb _ (node_subgraph_ids n)) eqn:E; [|discriminate].
    intros i Hi. rewrite forallb_forall in E. specialize (E _ Hi). apply Nat.ltb_lt in E.
    unfold graph_by_id. destruct (nth_error (om_graphs m) i) eqn:En; [eauto|].
    apply nth_error_None in En. lia.
Qed.

(* SOUNDNESS, graphs (the table contains the main graph and every nested body) *)
Theorem opset_ok_sound m : opset_ok m = true ->
  forall g n, In g (om_graphs m) -> In n (og_nodes g) -> node_conforms m n.
Proof.
  intros H g n Hg Hn. apply opset_ok_all in H. unfold base_problems in H.
  apply app_eq_nil in H. destruct H as [H _].
  pose proof (flat_map_nil _ _ H _ Hg) as H1. pose proof (flat_map_nil _ _ H1 _ Hn) as H2.
  apply node_problems_nil in H2. apply node_problem_sound. tauto.
Qed.

(* SOUNDNESS, function bodies: checked against the function's OWN opset imports *)
Theorem opset_ok_sound_functions m : opset_ok m = true ->
  forall f n, In f (om_functions m) -> In n (of_nodes f) -> fnode_conforms m f n.
Proof.
  intros H f n Hf Hn. apply opset_ok_all in H. unfold base_problems in H.
  apply app_eq_nil in H. destruct H as [_ H].
  pose proof (flat_map_nil _ _ H _ Hf) as H1. apply app_eq_nil in H1. destruct H1 as [H1 _].
  pose proof (flat_map_nil _ _ H1 _ Hn) as H2.
  apply node_problems_nil in H2. apply node_problem_sound. tauto.
Qed.

(* ... and a function never declares another version of an ONNX-defined domain than the model does *)
Theorem opset_ok_function_imports m : opset_ok m = true ->
  forall f d v, In f (om_functions m) -> In (d, v) (of_opsets f) -> domain_table d <> None ->
  opset_of (om_opsets m) d = Some v.
Proof.
  intros H f d v Hf Hd Hdom. apply opset_ok_all in H. unfold base_problems in H.
  apply app_eq_nil in H. destruct H as [_ H].
  pose proof (flat_map_nil _ _ H _ Hf) as H1. apply app_eq_nil in H1. destruct H1 as [_ H1].
  unfold import_problems in H1. pose proof (flat_map_nil _ _ H1 _ Hd) as H2. simpl in H2.
  destruct (domain_table d); [|congruence].
  destruct (opset_of (om_opsets m) d) as [v'|]; [|discriminate].
  destruct (v' =? v) eqn:E; [|discriminate]. apply Z.eqb_eq in E. now subst.
Qed.

(* SOUNDNESS, element types: in every graph of the table, and in every function body, each node input with a known
   element type has a type the schema version selected by the declared opset allows *)
Theorem opset_ok_types_sound m : opset_ok m = true ->
  (forall g n, In g (om_graphs m) -> In n (og_nodes g) ->
     node_types_conform (known_types g) (om_functions m) (om_opsets m) n) /\
  (forall f n, In f (om_functions m) -> In n (of_nodes f) ->
     node_types_conform (fun_known_types f) (om_functions m) (of_opsets f) n).
Proof.
  intro H. apply opset_ok_types in H. unfold type_problems in H. apply app_eq_nil in H. destruct H as [Hg Hf]. split.
  - intros g n Hin Hn. apply node_type_problems_sound.
    exact (flat_map_nil _ _ (flat_map_nil _ _ Hg _ Hin) _ Hn).
  - intros f n Hin Hn. apply node_type_problems_sound.
    exact (flat_map_nil _ _ (flat_map_nil _ _ Hf _ Hin) _ Hn).
Qed.

(* nested bodies: every body reachable from the main graph through graph attributes is in the table,
   hence covered by opset_ok_sound *)
Inductive reachable (m : omodel) : nat -> Prop :=
 | reach_main : reachable m 0%nat
 | reach_body i g n j : reachable m i -> graph_by_id m i = Some g -> In n (og_nodes g) ->
                        In j (node_subgraph_ids n) -> reachable m j.

Theorem opset_ok_nested m : opset_ok m = true -> om_graphs m <> [] ->
  forall i, reachable m i -> exists g, graph_by_id m i = Some g /\ forall n, In n (og_nodes g) -> node_conforms m n.
Proof.
  intros H Hne i Hr.
  assert (Hex : exists g, graph_by_id m i = Some g).
  { induction Hr as [|i g n j Hr IH Hg Hn Hj].
    - unfold graph_by_id. destruct (om_graphs m) as [|g0 r]; [contradiction|]. now exists g0.
    - pose proof (opset_ok_all _ H) as Ha. unfold base_problems in Ha.
      apply app_eq_nil in Ha. destruct Ha as [Ha _].
      assert (Hin : In g (om_graphs m)) by (unfold graph_by_id in Hg; now apply nth_error_In in Hg).
      pose proof (flat_map_nil _ _ Ha _ Hin) as H1. pose proof (flat_map_nil _ _ H1 _ Hn) as H2.
      apply node_problems_nil in H2. destruct H2 as [_ H2]. now apply H2. }
  destruct Hex as [g Hg]. exists g. split; [assumption|]. intros n Hn.
  apply (opset_ok_sound m H g n); [|assumption]. unfold graph_by_id in Hg. now apply nth_error_In in Hg.
Qed.

(* what soundness gives for a standard-domain, non-function node, spelled out with the concrete table *)
Corollary opset_ok_standard_node m : opset_ok m = true ->
  forall g n, In g (om_graphs m) -> In n (og_nodes g) -> on_domain n = "" ->
  (forall f, ~ calls_function (om_functions m) n f) ->
  exists declared vs sv, declared_opset m = Some declared /\ In (on_op n, vs) schemas /\
    In sv vs /\ sv_since sv <= declared /\
    (forall sv', In sv' vs -> sv_since sv' <= declared -> sv_since sv' <= sv_since sv) /\
    sv_deprecated sv = false /\
    sv_min_in sv <= n_ins n <= sv_max_in sv /\ sv_min_out sv <= n_outs n <= sv_max_out sv /\
    (forall a, In a (attr_names n) -> In a (sv_attrs sv)).
Proof.
  intros H g n Hg Hn Hd Hnf. destruct (opset_ok_sound m H g n Hg Hn) as (declared & _ & Hdecl & [(f & Hc & _)|[_ Hs]]).
  - exfalso. exact (Hnf f Hc).
  - rewrite Hd in Hs, Hdecl. destruct (Hs schemas eq_refl) as (vs & sv & Hin & (Hv1 & Hv2 & Hv3) & Hdep & (Ha & Hb & Hc)).
    exists declared, vs, sv. unfold declared_opset. repeat split; try assumption; lia.
Qed.

(* ------------------------------------------------------------------ finite proofs about the translated helpers *)
Fixpoint zrange_nat (lo : Z) (n : nat) : list Z := match n with O => [] | S k => lo :: zrange_nat (lo + 1) k end.
(* [lo; lo+1; ...; hi] *)
Definition zrange (lo hi : Z) : list Z := zrange_nat lo (Z.to_nat (hi - lo + 1)).

Lemma zrange_nat_In lo n x : lo <= x < lo + Z.of_nat n -> In x (zrange_nat lo n).
Proof.
  revert lo. induction n as [|k IH]; intros lo H; [simpl in H; lia|].
  simpl. destruct (Z.eq_dec lo x) as [->|Hne]; [now left|]. right. apply IH. lia.
Qed.

Lemma zrange_In lo hi x : lo <= x <= hi -> In x (zrange lo hi).
Proof. intro H. unfold zrange. apply zrange_nat_In. rewrite Z2Nat.id by lia. lia. Qed.

(* --- reductions: builder_reduce_with_axes *)
Definition form_fits (sv : schema_ver) (form : Z * list string) : bool :=
  (sv_min_in sv <=? fst form) && (fst form <=? sv_max_in sv) && forallb (fun a => str_mem a (sv_attrs sv)) (snd form).

(* the node the translated branch emits for reduction `op` at `opset` when static axes are given *)
Definition reduce_form (since opset : Z) : Z * list string :=
  if reduce_uses_axes_attribute opset since then reduce_form_attribute else reduce_form_input.

(* the schema takes the axes as an INPUT (second input, no `axes` attribute) *)
Definition schema_axes_is_input (sv : schema_ver) : bool := (sv_max_in sv =? 2) && negb (str_mem "axes" (sv_attrs sv)).
(* the schema takes the axes as an ATTRIBUTE (single input) *)
Definition schema_axes_is_attribute (sv : schema_ver) : bool := (sv_max_in sv =? 1) && str_mem "axes" (sv_attrs sv).

Definition reduce_entry_ok (opset : Z) (e : string * Z) : bool :=
  match schema_at (fst e) opset with
  | None => false
  | Some sv =>
      negb (sv_deprecated sv) &&
      (* the chosen branch is exactly the representation the schema has *)
      Bool.eqb (negb (reduce_uses_axes_attribute opset (snd e))) (schema_axes_is_input sv) &&
      Bool.eqb (reduce_uses_axes_attribute opset (snd e)) (schema_axes_is_attribute sv) &&
      (* and the emitted node (arity + attribute names) is accepted, as is the axes-less form *)
      form_fits sv (reduce_form (snd e) opset) && form_fits sv reduce_form_no_axes
  end.

Definition reduce_table_ok : bool :=
  forallb (fun opset => forallb (reduce_entry_ok opset) REDUCTION_AXES_INPUT_SINCE) (zrange 13 onnx_newest_opset).

(* The finite check itself (reduce_table_ok = true, by vm_compute over the translated table and the dumped schemas)
   is discharged in props/C11.v, so that this file -- and with it the validator -- still builds when the exporter's
   table stops agreeing with the schemas. *)
Theorem reduce_form_correct : reduce_table_ok = true -> forall opset op since,
  13 <= opset <= onnx_newest_opset -> In (op, since) REDUCTION_AXES_INPUT_SINCE ->
  exists sv, schema_at op opset = Some sv /\ sv_deprecated sv = false /\
    (* "opset >= since" (the branch that passes the axes as an input) iff the schema has the axes input *)
    (since <= opset <-> sv_max_in sv = 2 /\ ~ In "axes" (sv_attrs sv)) /\
    (opset < since <-> sv_max_in sv = 1 /\ In "axes" (sv_attrs sv)) /\
    (* the node the branch emits fits the schema: arity and attribute names *)
    (let form := reduce_form since opset in
     sv_min_in sv <= fst form <= sv_max_in sv /\ forall a, In a (snd form) -> In a (sv_attrs sv)) /\
    (sv_min_in sv <= fst reduce_form_no_axes <= sv_max_in sv /\ forall a, In a (snd reduce_form_no_axes) -> In a (sv_attrs sv)).
Proof.
  intros T opset op since Hr Hin. unfold reduce_table_ok in T.
  rewrite forallb_forall in T. specialize (T opset (zrange_In _ _ _ Hr)).
  rewrite forallb_forall in T. specialize (T _ Hin). unfold reduce_entry_ok in T. simpl fst in T; simpl snd in T.
  destruct (schema_at op opset) as [sv|]; [|discriminate]. exists sv. split; [reflexivity|].
  repeat (apply andb_true_iff in T; destruct T as [T ?]).
  apply negb_true_iff in T.
  assert (Hbr : reduce_uses_axes_attribute opset since = true <-> opset < since).
  { unfold reduce_uses_axes_attribute.
    (* the comparison the generator translated; any of the four decides against lia *)
    first [ rewrite Z.ltb_lt; lia | rewrite Z.leb_le; lia | rewrite Z.gtb_lt; lia | rewrite Z.geb_le; lia ]. }
  assert (Hfits : forall form, form_fits sv form = true ->
            sv_min_in sv <= fst form <= sv_max_in sv /\ forall a, In a (snd form) -> In a (sv_attrs sv)).
  { intros form Hf. unfold form_fits in Hf. repeat (apply andb_true_iff in Hf; destruct Hf as [Hf ?]).
    apply Z.leb_le in Hf. split; [split; [assumption|now apply Z.leb_le]|].
    intros a Ha. rewrite forallb_forall in H3. apply str_mem_In. now apply H3. }
  split; [assumption|]. split; [|split; [|split; [now apply Hfits|now apply Hfits]]].
  - apply Bool.eqb_prop in H2. unfold schema_axes_is_input in H2.
    split.
    + intro Hle. destruct (reduce_uses_axes_attribute opset since) eqn:E; [pose proof (proj1 Hbr eq_refl); lia|].
      simpl in H2. symmetry in H2. apply andb_true_iff in H2. destruct H2 as [Ha Hb].
      apply Z.eqb_eq in Ha. apply negb_true_iff in Hb. split; [assumption|].
      intro Hc. apply str_mem_In in Hc. congruence.
    + intros [Ha Hb]. destruct (reduce_uses_axes_attribute opset since) eqn:E.
      * simpl in H2. symmetry in H2. apply andb_false_iff in H2. destruct H2 as [H2|H2].
        -- apply Z.eqb_neq in H2. contradiction.
        -- apply negb_false_iff in H2. apply str_mem_In in H2. contradiction.
      * destruct (Z.lt_ge_cases opset since) as [Hlt|Hge]; [|assumption]. apply Hbr in Hlt. discriminate.
  - apply Bool.eqb_prop in H1. unfold schema_axes_is_attribute in H1.
    split.
    + intro Hlt. apply Hbr in Hlt. rewrite Hlt in H1. symmetry in H1.
      apply andb_true_iff in H1. destruct H1 as [Ha Hb]. apply Z.eqb_eq in Ha. now apply str_mem_In in Hb.
    + intros [Ha Hb]. apply Hbr. rewrite H1. apply andb_true_iff. split; [now apply Z.eqb_eq|now apply str_mem_In].
Qed.

(* --- Swish: the rewrite x * Sigmoid(x) -> Swish(x) is guarded by the declared opset *)
Definition swish_table_ok : bool :=
  forallb (fun v => Bool.eqb (swish_rewrite_enabled v) (match schema_at "Swish" v with Some _ => true | None => false end))
          (zrange 1 onnx_newest_opset).
Definition swish_sound_table_ok : bool :=
  forallb (fun v => implb (swish_rewrite_enabled v)
               (match schema_at "Swish" v with
                | Some sv => negb (sv_deprecated sv) && (sv_min_in sv <=? 1) && (1 <=? sv_max_in sv)
                | None => false end)) (zrange 1 onnx_newest_opset).

Lemma swish_enabled_iff v : swish_rewrite_enabled v = true <-> swish_guard_constant <= v.
Proof.
  unfold swish_rewrite_enabled, swish_rewrite_skipped. rewrite negb_true_iff.
  first [ rewrite Z.ltb_ge; lia | rewrite Z.leb_gt; lia ].
Qed.

(* soundness direction: whenever the rewrite may fire, Swish exists at the declared opset *)
Theorem swish_guard_sound : swish_sound_table_ok = true -> forall v, 1 <= v <= onnx_newest_opset ->
  swish_rewrite_enabled v = true -> exists sv, schema_at "Swish" v = Some sv /\ sv_deprecated sv = false /\
    sv_min_in sv <= 1 <= sv_max_in sv.
Proof.
  intros T v Hr He. unfold swish_sound_table_ok in T.
  rewrite forallb_forall in T. specialize (T v (zrange_In _ _ _ Hr)). rewrite He in T. simpl in T.
  destruct (schema_at "Swish" v) as [sv|]; [|discriminate]. exists sv. split; [reflexivity|].
  repeat (apply andb_true_iff in T; destruct T as [T ?]). apply negb_true_iff in T.
  split; [assumption|]. split; now apply Z.leb_le.
Qed.

(* exactness: Swish exists at opset v iff the guard lets the rewrite run, i.e. iff threshold <= v *)
Theorem swish_guard_correct : swish_table_ok = true -> forall v, 1 <= v <= onnx_newest_opset ->
  (schema_at "Swish" v <> None <-> swish_guard_constant <= v).
Proof.
  intros T v Hr. unfold swish_table_ok in T.
  rewrite forallb_forall in T. specialize (T v (zrange_In _ _ _ Hr)). apply Bool.eqb_prop in T.
  rewrite <- swish_enabled_iff. rewrite T. destruct (schema_at "Swish" v); split; intro H; congruence.
Qed.

(* ------------------------------------------------------------------ the two operators of the known defect *)
Definition first_opset_of (op : string) : option Z :=
  match lookup schemas op with Some (v :: _) => Some (sv_since v) | _ => None end.

(* an operator is absent from every opset below its first version: a model declaring such an opset
   and using the operator is rejected by the validator *)
Lemma absent_before_first op vs v0 r opset :
  lookup schemas op = Some vs -> vs = v0 :: r -> opset < sv_since v0 -> schema_at op opset = None.
Proof.
  intros Hl Hvs Hlt. unfold schema_at, schema_at_in. rewrite Hl. subst vs.
  destruct (version_at (v0 :: r) opset) as [sv|] eqn:E; [|reflexivity].
  apply version_at_spec in E. destruct E as (Hin & Hle & _).
  (* versions are strictly increasing, so v0 is the oldest *)
  pose proof schemas_wf as W. unfold table_wf in W. apply andb_true_iff in W. destruct W as [_ W].
  rewrite forallb_forall in W. specialize (W _ (lookup_In _ _ _ Hl)). simpl in W.
  repeat (apply andb_true_iff in W; destruct W as [W ?]).
  assert (Hmin : forall l a, strictly_increasing (a :: l) = true -> forall x, In x (a :: l) -> a <= x).
  { induction l as [|b l IH]; intros a Hs x [->|Hx]; try lia; try contradiction.
    simpl in Hs. apply andb_true_iff in Hs. destruct Hs as [Hab Hs]. apply Z.ltb_lt in Hab.
    specialize (IH b Hs x Hx). lia. }
  specialize (Hmin _ _ W (sv_since sv) (in_map sv_since _ _ Hin)). lia.
Qed.

(* ------------------------------------------------------------------ non-vacuity *)
Definition mk_node (op : string) (ins outs : list string) (attrs : list (string * attr)) : onode :=
  mkON op "" op ins outs attrs.
Definition mk_model (opset : Z) (nodes : list onode) : omodel :=
  mkOM 10 [("", opset)] [mkOG 0 None [] [] nodes [] []] [].

Example ex_relu_ok : opset_ok (mk_model 21 [mk_node "Relu" ["x"] ["y"] []]) = true. Proof. reflexivity. Qed.
Example ex_cumprod_23_bad :
  opset_first_bad (mk_model 23 [mk_node "CumProd" ["x"; "axis"] ["y"] []]) = Some ("CumProd", "missing-op").
Proof. vm_compute. reflexivity. Qed.
Example ex_bitcast_23_bad :
  opset_first_bad (mk_model 23 [mk_node "BitCast" ["x"] ["y"] [("to", AInt 6)]]) = Some ("BitCast", "missing-op").
Proof. vm_compute. reflexivity. Qed.
Example ex_reducemax_axes_input_17_bad :
  opset_first_bad (mk_model 17 [mk_node "ReduceMax" ["x"; "axes"] ["y"] [("keepdims", AInt 1)]]) = Some ("ReduceMax", "input-arity").
Proof. vm_compute. reflexivity. Qed.
Example ex_reducemax_axes_attr_21_bad :
  opset_first_bad (mk_model 21 [mk_node "ReduceMax" ["x"] ["y"] [("axes", AInts [0]); ("keepdims", AInt 1)]])
  = Some ("ReduceMax", "attribute:axes").
Proof. vm_compute. reflexivity. Qed.
Example ex_reducemax_axes_input_21_ok :
  opset_ok (mk_model 21 [mk_node "ReduceMax" ["x"; "axes"] ["y"] [("keepdims", AInt 1)]]) = true.
Proof. vm_compute. reflexivity. Qed.
Example ex_swish_23_bad : opset_ok (mk_model 23 [mk_node "Swish" ["x"] ["y"] []]) = false. Proof. vm_compute. reflexivity. Qed.
Example ex_swish_24_ok : opset_ok (mk_model 24 [mk_node "Swish" ["x"] ["y"] []]) = true. Proof. vm_compute. reflexivity. Qed.
Example ex_nested_body_checked :
  opset_first_bad (mkOM 10 [("", 23)]
     [mkOG 0 None [] [] [mkON "If" "" "if" ["c"] ["y"] [("then_branch", AGraph 1); ("else_branch", AGraph 1)]] [] [];
      mkOG 1 (Some 0%nat) [] [] [mk_node "CumProd" ["x"; "a"] ["y"] []] [] []] [])
  = Some ("CumProd", "missing-op").
Proof. vm_compute. reflexivity. Qed.
Example ex_function_body_checked :
  opset_first_bad (mkOM 10 [("", 23); ("custom", 1)]
     [mkOG 0 None [] [] [mkON "F" "custom" "call" ["x"] ["y"] []] [] []]
     [mkOF "F" "custom" ["x"] ["y"] [mk_node "BitCast" ["x"] ["y"] [("to", AInt 6)]] [("", 23)] []])
  = Some ("BitCast", "missing-op").
Proof. vm_compute. reflexivity. Qed.
Example ex_function_other_standard_version :
  opset_first_bad (mkOM 10 [("", 23); ("custom", 1)]
     [mkOG 0 None [] [] [mkON "F" "custom" "call" ["x"] ["y"] []] [] []]
     [mkOF "F" "custom" ["x"] ["y"] [mk_node "Relu" ["x"] ["y"] []] [("", 21); ("custom", 23)] []])
  = Some ("F", "function-imports-other-version:").
Proof. vm_compute. reflexivity. Qed.
Example ex_undeclared_domain :
  opset_first_bad (mkOM 10 [("", 23)] [mkOG 0 None [] [] [mkON "F" "custom" "call" ["x"] ["y"] []] [] []] [])
  = Some ("F", "domain-not-imported").
Proof. vm_compute. reflexivity. Qed.
Definition mk_typed_model (opset : Z) (inits : list vinfo) (nodes : list onode) : omodel :=
  mkOM 10 [("", opset)] [mkOG 0 None [] inits nodes [] []] [].
(* Range of float16 (code 10) operands: not allowed by Range-11 (selected at opsets 11..26), allowed by Range-27 *)
Example ex_range_f16_26_bad :
  opset_first_bad (mk_typed_model 26 [mkVI "s" 10 (Some []); mkVI "l" 10 (Some []); mkVI "d" 10 (Some [])]
                                    [mk_node "Range" ["s"; "l"; "d"] ["y"] []]) = Some ("Range", "input-type:s").
Proof. vm_compute. reflexivity. Qed.
Example ex_range_f16_27_ok :
  opset_ok (mk_typed_model 27 [mkVI "s" 10 (Some []); mkVI "l" 10 (Some []); mkVI "d" 10 (Some [])]
                              [mk_node "Range" ["s"; "l"; "d"] ["y"] []]) = true.
Proof. vm_compute. reflexivity. Qed.
Example ex_range_f32_26_ok :
  opset_ok (mk_typed_model 26 [mkVI "s" 1 (Some []); mkVI "l" 1 (Some []); mkVI "d" 1 (Some [])]
                              [mk_node "Range" ["s"; "l"; "d"] ["y"] []]) = true.
Proof. vm_compute. reflexivity. Qed.
(* types known only through Cast / Constant outputs (function bodies carry no value_info) *)
Example ex_range_cast_f16_26_bad :
  opset_first_bad (mk_typed_model 26 [] [mk_node "Cast" ["a"] ["s"] [("to", AInt 16)];
                                         mk_node "Range" ["s"; "l"; "d"] ["y"] []]) = Some ("Range", "input-type:s").
Proof. vm_compute. reflexivity. Qed.
(* variadic formal: every Concat operand is checked against the single formal *)
Example ex_concat_variadic_ok :
  opset_ok (mk_typed_model 21 [mkVI "a" 1 (Some []); mkVI "b" 1 (Some []); mkVI "c" 1 (Some [])]
                              [mk_node "Concat" ["a"; "b"; "c"] ["y"] [("axis", AInt 0)]]) = true.
Proof. vm_compute. reflexivity. Qed.
Example ex_deprecated : opset_first_bad (mk_model 21 [mk_node "Scatter" ["d"; "i"; "u"] ["y"] []]) = Some ("Scatter", "deprecated-op").
Proof. vm_compute. reflexivity. Qed.

(* the two operators of the known defect: introduced in opset 26, absent from the default opset 23 *)
Example cumprod_first_opset : first_opset_of "CumProd" = Some 26. Proof. vm_compute. reflexivity. Qed.
Example bitcast_first_opset : first_opset_of "BitCast" = Some 26. Proof. vm_compute. reflexivity. Qed.
Example cumprod_absent_21_25 : forallb (fun v => match schema_at "CumProd" v with None => true | _ => false end) (zrange 1 25) = true.
Proof. vm_compute. reflexivity. Qed.
Example bitcast_absent_21_25 : forallb (fun v => match schema_at "BitCast" v with None => true | _ => false end) (zrange 1 25) = true.
Proof. vm_compute. reflexivity. Qed.
Lemma cumprod_bitcast_absent_before_26 :
  forall v, 1 <= v <= 25 -> schema_at "CumProd" v = None /\ schema_at "BitCast" v = None.
Proof.
  intros v Hv.
  pose proof cumprod_absent_21_25 as A. pose proof bitcast_absent_21_25 as B.
  rewrite forallb_forall in A, B.
  specialize (A v (zrange_In 1 25 v Hv)). specialize (B v (zrange_In 1 25 v Hv)).
  destruct (schema_at "CumProd" v); [discriminate|]. destruct (schema_at "BitCast" v); [discriminate|]. split; reflexivity.
Qed.
