(* ChainSim (C02): simulation argument for rewrites that CHANGE the value of intermediate names (the folds
   "Reshape/Transpose -> elementwise chain -> inverse": after the rewrite the chain computes in the other layout, so
   the chain outputs are not equivalent before/after and Redirect.v does not apply to the first redirect).
   The rewritten node list is [map tr (filter keep ns)]; the two runs are related by an invariant [Inv]; a kept node
   must be simulated by its image, a dropped node must preserve the invariant on its own.  The instance used by the
   passes is [rinv rho rel]: the old value of x is related by [rel x] to the new value of [rho x]. *)
From Coq Require Import String List Bool Arith Lia.
From J2O Require Import Graph Redirect.
Import ListNotations.

Definition subst_map (rho : name -> name) (n : node) : node :=
  mkNode (n_op n) (n_attrs n) (map rho (n_ins n)) (map rho (n_caps n)) (n_outs n).

Lemma subst_node_map old new n : subst_node old new n = subst_map (rn old new) n.
Proof. reflexivity. Qed.
Lemma subst_map_comp r1 r2 n : subst_map r2 (subst_map r1 n) = subst_map (fun x => r2 (r1 x)) n.
Proof. unfold subst_map; simpl. now rewrite !map_map. Qed.
Lemma n_uses_subst_map rho n : n_uses (subst_map rho n) = map rho (n_uses n).
Proof. unfold n_uses, subst_map; simpl. now rewrite map_app. Qed.

(* at most one node defines a name: remove_first by output name is a filter *)
Lemma defs_unique ns n m y : NoDup (defs ns) -> In n ns -> In m ns -> In y (n_outs n) -> In y (n_outs m) -> n = m.
Proof.
  unfold defs. induction ns as [|a r IH]; simpl; intros Hnd Hn Hm Hyn Hym; [contradiction|].
  assert (Hr : NoDup (flat_map n_outs r)) by (eapply NoDup_app_r; eauto).
  destruct Hn as [<-|Hn], Hm as [<-|Hm]; auto.
  - exfalso. eapply (NoDup_app_disj (n_outs a)); eauto. apply in_flat_map; eauto.
  - exfalso. eapply (NoDup_app_disj (n_outs a)); eauto. apply in_flat_map; eauto.
Qed.

Lemma filter_all {B} (k : B -> bool) l : (forall m, In m l -> k m = true) -> filter k l = l.
Proof. induction l as [|b r IH]; simpl; intro H; auto. rewrite (H b) by now left. f_equal. apply IH. intros; apply H; now right. Qed.

Lemma remove_first_filter o ns : NoDup (defs ns) ->
  remove_first (node_is o) ns = filter (fun n => negb (node_is o n)) ns.
Proof.
  unfold defs. induction ns as [|a r IH]; simpl; intro Hnd; auto.
  assert (Hr : NoDup (flat_map n_outs r)) by (eapply NoDup_app_r; eauto).
  destruct (node_is o a) eqn:E; simpl.
  - symmetry. apply filter_all. intros m Hm. destruct (node_is o m) eqn:Em; auto.
    apply node_is_outs in E. apply node_is_outs in Em. exfalso.
    eapply (NoDup_app_disj (n_outs a)); eauto; [rewrite E; now left|].
    apply in_flat_map. exists m. split; auto. rewrite Em. now left.
  - f_equal. auto.
Qed.

Section Sim.
  Variable V : Type.
  Variable veq : V -> V -> Prop.
  Variable sem : string -> list nat -> list V -> option (list V).
  Notation evalg := (eval V sem).
  Notation stepg := (step V sem).

  Lemma fresh_at ns e pre n post em : ssa V ns e -> ns = pre ++ n :: post -> evalg pre e = Some em ->
    (forall y, In y (n_outs n) -> em y = None) /\ NoDup (n_outs n).
  Proof.
    intros [Hnd Hf] -> Hpre. unfold defs in *. rewrite flat_map_app in Hnd, Hf. simpl in Hnd, Hf. split.
    - intros y Hy. apply (eval_undefined V sem pre e em y Hpre).
      + apply Hf. apply in_or_app. right. apply in_or_app. now left.
      + intro Hp. eapply NoDup_app_disj; eauto. apply in_or_app. now left.
    - apply NoDup_app_r in Hnd. now apply NoDup_app_l in Hnd.
  Qed.

  Lemma lookups_cons_inv (e : env V) u us vs : lookups V e (u :: us) = Some vs ->
    exists v vr, e u = Some v /\ lookups V e us = Some vr /\ vs = v :: vr.
  Proof.
    simpl. destruct (e u) as [v|]; [|discriminate]. destruct (lookups V e us) as [vr|]; [|discriminate].
    intro H. injection H as <-. eauto.
  Qed.

  Lemma lookups_app_inv (e : env V) us ws vs : lookups V e (us ++ ws) = Some vs ->
    exists v1 v2, lookups V e us = Some v1 /\ lookups V e ws = Some v2 /\ vs = v1 ++ v2.
  Proof.
    revert vs. induction us as [|u r IH]; simpl; intros vs H; [exists [], vs; auto|].
    destruct (e u) as [v|]; [|discriminate]. destruct (lookups V e (r ++ ws)) as [vr|] eqn:E; [|discriminate].
    injection H as <-. destruct (IH _ eq_refl) as (v1 & v2 & -> & -> & ->). exists (v :: v1), v2. auto.
  Qed.

  Lemma lookups_Forall (P : V -> Prop) (e : env V) xs vs : lookups V e xs = Some vs ->
    (forall u w, In u xs -> e u = Some w -> P w) -> Forall P vs.
  Proof.
    revert vs. induction xs as [|x r IH]; simpl; intros vs H HP.
    - injection H as <-. constructor.
    - destruct (e x) as [v|] eqn:Ex; [|discriminate]. destruct (lookups V e r) as [vr|]; [|discriminate].
      injection H as <-. constructor; [apply (HP x); auto | apply IH; auto]. intros u w Hu. apply HP. now right.
  Qed.

  Section General.
    Variable Inv : env V -> env V -> Prop.
    Variable keep : node -> bool.
    Variable tr : node -> node.

    Theorem sim_refines ns outs outs' e :
      ssa V ns e -> Inv e e ->
      (forall ef, evalg ns e = Some ef ->
         (forall pre n post em em' e1, ns = pre ++ n :: post -> evalg pre e = Some em ->
            (forall x a, em x = Some a -> ef x = Some a) -> Inv em em' -> stepg em n = Some e1 ->
            (forall x a, e1 x = Some a -> ef x = Some a) ->
            if keep n then exists e1', stepg em' (tr n) = Some e1' /\ Inv e1 e1' else Inv e1 em') /\
         (forall ef' o, Inv ef ef' -> lookups V ef outs = Some o ->
            exists o', lookups V ef' outs' = Some o' /\ Forall2 veq o o')) ->
      refines V veq sem (mkGraph ns outs) (mkGraph (map tr (filter keep ns)) outs') e.
    Proof.
      intros Hssa Hinv0 Hall o Hrun. unfold run in *. cbn [g_nodes g_outputs] in *.
      destruct (evalg ns e) as [ef|] eqn:Hev; [|discriminate].
      destruct (Hall ef eq_refl) as [Hstep Hout]. clear Hall.
      assert (Hgen : forall post pre em em', ns = pre ++ post -> evalg pre e = Some em -> Inv em em' ->
                evalg post em = Some ef -> exists ef', evalg (map tr (filter keep post)) em' = Some ef' /\ Inv ef ef').
      { induction post as [|n post IH]; intros pre em em' Hsplit Hpre Hi Hpost.
        - simpl in Hpost. injection Hpost as <-. exists em'. split; auto.
        - simpl in Hpost. destruct (stepg em n) as [e1|] eqn:Es; [|discriminate].
          assert (Hle : forall x a, em x = Some a -> ef x = Some a).
          { apply (prefix_le_final V sem pre (n :: post) e em ef); [now rewrite <- Hsplit | exact Hpre |].
            simpl. now rewrite Es. }
          assert (Hpre1 : evalg (pre ++ [n]) e = Some e1) by (rewrite eval_app, Hpre; simpl; now rewrite Es).
          assert (Hsplit1 : ns = (pre ++ [n]) ++ post) by (rewrite <- app_assoc; exact Hsplit).
          assert (Hle1 : forall x a, e1 x = Some a -> ef x = Some a).
          { apply (prefix_le_final V sem (pre ++ [n]) post e e1 ef); [now rewrite <- Hsplit1 | exact Hpre1 | exact Hpost]. }
          pose proof (Hstep pre n post em em' e1 Hsplit Hpre Hle Hi Es Hle1) as Hk.
          simpl. destruct (keep n).
          + destruct Hk as (e1' & Es' & Hi1). simpl. rewrite Es'. eapply IH; eauto.
          + eapply IH; eauto. }
      destruct (Hgen ns [] e e eq_refl eq_refl Hinv0 Hev) as (ef' & Hev' & Hif). rewrite Hev'.
      eapply Hout; eauto.
    Qed.

    (* the same simulation, keeping the FINAL ENVIRONMENT of the rewritten graph (for the preservation of annotations) *)
    Theorem sim_env ns e ef :
      ssa V ns e -> Inv e e -> evalg ns e = Some ef ->
      (forall pre n post em em' e1, ns = pre ++ n :: post -> evalg pre e = Some em ->
         (forall x a, em x = Some a -> ef x = Some a) -> Inv em em' -> stepg em n = Some e1 ->
         (forall x a, e1 x = Some a -> ef x = Some a) ->
         if keep n then exists e1', stepg em' (tr n) = Some e1' /\ Inv e1 e1' else Inv e1 em') ->
      exists ef', evalg (map tr (filter keep ns)) e = Some ef' /\ Inv ef ef'.
    Proof.
      intros Hssa Hinv0 Hev Hstep.
      assert (Hgen : forall post pre em em', ns = pre ++ post -> evalg pre e = Some em -> Inv em em' ->
                evalg post em = Some ef -> exists ef', evalg (map tr (filter keep post)) em' = Some ef' /\ Inv ef ef').
      { induction post as [|n post IH]; intros pre em em' Hsplit Hpre Hi Hpost.
        - simpl in Hpost. injection Hpost as <-. exists em'. split; auto.
        - simpl in Hpost. destruct (stepg em n) as [e1|] eqn:Es; [|discriminate].
          assert (Hle : forall x a, em x = Some a -> ef x = Some a).
          { apply (prefix_le_final V sem pre (n :: post) e em ef); [now rewrite <- Hsplit | exact Hpre |].
            simpl. now rewrite Es. }
          assert (Hpre1 : evalg (pre ++ [n]) e = Some e1) by (rewrite eval_app, Hpre; simpl; now rewrite Es).
          assert (Hsplit1 : ns = (pre ++ [n]) ++ post) by (rewrite <- app_assoc; exact Hsplit).
          assert (Hle1 : forall x a, e1 x = Some a -> ef x = Some a).
          { apply (prefix_le_final V sem (pre ++ [n]) post e e1 ef); [now rewrite <- Hsplit1 | exact Hpre1 | exact Hpost]. }
          pose proof (Hstep pre n post em em' e1 Hsplit Hpre Hle Hi Es Hle1) as Hk.
          simpl. destruct (keep n).
          + destruct Hk as (e1' & Es' & Hi1). simpl. rewrite Es'. eapply IH; eauto.
          + eapply IH; eauto. }
      exact (Hgen ns [] e e eq_refl eq_refl Hinv0 Hev).
    Qed.

    Lemma ssa_sim ns e : (forall n, n_outs (tr n) = n_outs n) -> ssa V ns e -> ssa V (map tr (filter keep ns)) e.
    Proof.
      intros Hout [Hnd Hfree].
      assert (Hdefs : forall l, defs (map tr l) = defs l).
      { unfold defs. induction l as [|n r IH]; simpl; auto. now rewrite Hout, IH. }
      assert (Hsub : forall y, In y (defs (filter keep ns)) -> In y (defs ns)).
      { unfold defs. intros y Hy. apply in_flat_map in Hy as (m & Hm & Hy). apply filter_In in Hm as [Hm _]. apply in_flat_map. eauto. }
      split.
      - rewrite Hdefs. clear - Hnd. unfold defs in *. induction ns as [|n r IH]; simpl in *; [constructor|].
        assert (Hr : NoDup (flat_map n_outs r)) by (eapply NoDup_app_r; eauto).
        destruct (keep n); [|auto]. simpl.
        assert (Hincl : forall y, In y (flat_map n_outs (filter keep r)) -> In y (flat_map n_outs r)).
        { intros y Hy. apply in_flat_map in Hy as (m & Hm & Hy). apply filter_In in Hm as [Hm _]. apply in_flat_map. eauto. }
        revert Hnd. generalize (n_outs n) as l. induction l as [|a l IHl]; simpl; intro H; [now apply IH|].
        inversion H as [|? ? Hni Hnd']; subst. constructor; [|now apply IHl].
        intro Hin. apply Hni. apply in_app_or in Hin as [Hin|Hin]; apply in_or_app; [now left | right; now apply Hincl].
      - intros y Hy. rewrite Hdefs in Hy. apply Hfree. now apply Hsub.
    Qed.
  End General.

  (* ---- the invariant used by the passes *)
  Variable rho : name -> name.
  Variable rel : name -> V -> V -> Prop.

  Definition rinv (e e' : env V) : Prop :=
    (forall x v, e x = Some v -> exists w, e' (rho x) = Some w /\ rel x v w) /\
    (forall y, e' y <> None -> e y <> None).

  Inductive rel_list : list name -> list V -> list V -> Prop :=
  | rl_nil : rel_list [] [] []
  | rl_cons x v w xs vs ws : rel x v w -> rel_list xs vs ws -> rel_list (x :: xs) (v :: vs) (w :: ws).

  Lemma rel_list_length xs vs ws : rel_list xs vs ws -> length vs = length xs /\ length ws = length xs.
  Proof. induction 1; simpl; intuition. Qed.

  Lemma rinv_lookups e e' xs vs : rinv e e' -> lookups V e xs = Some vs ->
    exists vs', lookups V e' (map rho xs) = Some vs' /\ rel_list xs vs vs'.
  Proof.
    intros [Hi _]. revert vs. induction xs as [|x r IH]; simpl; intros vs Hl.
    - injection Hl as <-. exists []. split; auto. constructor.
    - destruct (e x) as [a|] eqn:Ex; [|discriminate]. destruct (lookups V e r) as [ws|] eqn:Er; [|discriminate].
      injection Hl as <-. destruct (Hi _ _ Ex) as (w & Ew & Hr). destruct (IH _ eq_refl) as (ws' & Ews & Hrs).
      rewrite Ew, Ews. exists (w :: ws'). split; auto. now constructor.
  Qed.

  Lemma upds_in_rel e e' xs o o' : NoDup xs -> rel_list xs o o' ->
    forall x v, In x xs -> upds V e xs o x = Some v -> exists w, upds V e' xs o' x = Some w /\ rel x v w.
  Proof.
    intros Hnd Hr. revert e e' Hnd. induction Hr as [|y a b xs vs ws Hab Hr IH]; intros e e' Hnd x v Hin Hx; [contradiction|].
    simpl in *. inversion Hnd as [|? ? Hni Hnd']; subst.
    destruct (in_dec Nat.eq_dec x xs) as [Hxs|Hxs].
    - eapply IH; eauto.
    - destruct Hin as [->|Hin]; [|contradiction].
      rewrite upds_other in Hx by exact Hxs. rewrite upds_other by exact Hxs.
      unfold upd in *. rewrite Nat.eqb_refl in *. injection Hx as <-. eauto.
  Qed.

  Lemma upds_defined (e : env V) xs o y : length o = length xs -> In y xs -> upds V e xs o y <> None.
  Proof.
    revert e o. induction xs as [|x xr IH]; intros e [|v vr] Hl Hin; simpl in *; try contradiction; try discriminate.
    destruct (in_dec Nat.eq_dec y xr) as [Hy|Hy]; [apply IH; auto|].
    destruct Hin as [->|Hin]; [|contradiction]. rewrite upds_other by exact Hy. unfold upd. rewrite Nat.eqb_refl. discriminate.
  Qed.

  (* a kept node whose outputs are not renamed *)
  Lemma rinv_kept_step em em' n e1 :
    rinv em em' -> stepg em n = Some e1 ->
    (forall y, In y (n_outs n) -> rho y = y) -> (forall y, In y (n_outs n) -> em y = None) -> NoDup (n_outs n) ->
    (forall vs vs' o, lookups V em (n_uses n) = Some vs -> lookups V em' (map rho (n_uses n)) = Some vs' ->
       rel_list (n_uses n) vs vs' -> sem (n_op n) (n_attrs n) vs = Some o -> length o = length (n_outs n) ->
       exists o', sem (n_op n) (n_attrs n) vs' = Some o' /\ rel_list (n_outs n) o o') ->
    exists e1', stepg em' (subst_map rho n) = Some e1' /\ rinv e1 e1'.
  Proof.
    intros Hi Hs Hrho Hfresh Hnd Hsem. unfold step in *. rewrite n_uses_subst_map. cbn [n_op n_attrs n_outs subst_map].
    destruct (lookups V em (n_uses n)) as [vs|] eqn:El; [|discriminate].
    destruct (sem (n_op n) (n_attrs n) vs) as [o|] eqn:Eo; [|discriminate].
    destruct (Nat.eqb (length o) (length (n_outs n))) eqn:Elen; [|discriminate]. injection Hs as <-.
    apply Nat.eqb_eq in Elen.
    destruct (rinv_lookups _ _ _ _ Hi El) as (vs' & El' & Hrl). rewrite El'.
    destruct (Hsem vs vs' o eq_refl El' Hrl Eo Elen) as (o' & Eo' & Hro). rewrite Eo'.
    destruct (rel_list_length _ _ _ Hro) as [_ Hl']. rewrite Hl', Nat.eqb_refl.
    eexists. split; [reflexivity|]. destruct Hi as [Hi1 Hi2]. split.
    - intros x v Hx. destruct (in_dec Nat.eq_dec x (n_outs n)) as [Hin|Hin].
      + rewrite (Hrho x Hin). eapply upds_in_rel; eauto.
      + rewrite upds_other in Hx by exact Hin. destruct (Hi1 _ _ Hx) as (w & Ew & Hr).
        exists w. split; auto. rewrite upds_other; auto.
        intro Hin'. assert (Hd : em (rho x) <> None) by (apply Hi2; congruence). apply Hd. now apply Hfresh.
    - intros y Hy. destruct (in_dec Nat.eq_dec y (n_outs n)) as [Hin|Hin].
      + apply upds_defined; auto.
      + rewrite upds_other in * by exact Hin. auto.
  Qed.

  (* a kept node whose image [n'] reads other names than [map rho] of its uses (node-specific re-pointing) *)
  Lemma rinv_kept_step_gen em em' n n' e1 :
    rinv em em' -> stepg em n = Some e1 ->
    n_op n' = n_op n -> n_attrs n' = n_attrs n -> n_outs n' = n_outs n ->
    (forall y, In y (n_outs n) -> rho y = y) -> (forall y, In y (n_outs n) -> em y = None) -> NoDup (n_outs n) ->
    (forall vs o, lookups V em (n_uses n) = Some vs -> sem (n_op n) (n_attrs n) vs = Some o -> length o = length (n_outs n) ->
       exists vs' o', lookups V em' (n_uses n') = Some vs' /\ sem (n_op n) (n_attrs n) vs' = Some o' /\ rel_list (n_outs n) o o') ->
    exists e1', stepg em' n' = Some e1' /\ rinv e1 e1'.
  Proof.
    intros Hi Hs Hop Hat Hout Hrho Hfresh Hnd Hsem. unfold step in *. rewrite Hop, Hat, Hout.
    destruct (lookups V em (n_uses n)) as [vs|] eqn:El; [|discriminate].
    destruct (sem (n_op n) (n_attrs n) vs) as [o|] eqn:Eo; [|discriminate].
    destruct (Nat.eqb (length o) (length (n_outs n))) eqn:Elen; [|discriminate]. injection Hs as <-.
    apply Nat.eqb_eq in Elen.
    destruct (Hsem vs o eq_refl Eo Elen) as (vs' & o' & El' & Eo' & Hro). rewrite El', Eo'.
    destruct (rel_list_length _ _ _ Hro) as [_ Hl']. rewrite Hl', Nat.eqb_refl.
    eexists. split; [reflexivity|]. destruct Hi as [Hi1 Hi2]. split.
    - intros x v Hx. destruct (in_dec Nat.eq_dec x (n_outs n)) as [Hin|Hin].
      + rewrite (Hrho x Hin). eapply upds_in_rel; eauto.
      + rewrite upds_other in Hx by exact Hin. destruct (Hi1 _ _ Hx) as (w & Ew & Hr).
        exists w. split; auto. rewrite upds_other; auto.
        intro Hin'. assert (Hd : em (rho x) <> None) by (apply Hi2; congruence). apply Hd. now apply Hfresh.
    - intros y Hy. destruct (in_dec Nat.eq_dec y (n_outs n)) as [Hin|Hin].
      + apply upds_defined; auto.
      + rewrite upds_other in * by exact Hin. auto.
  Qed.

  (* the same when the image also changes operator attributes (e.g. re-mapped reduction axes) *)
  Lemma rinv_kept_step_gen2 em em' n n' e1 :
    rinv em em' -> stepg em n = Some e1 -> n_outs n' = n_outs n ->
    (forall y, In y (n_outs n) -> rho y = y) -> (forall y, In y (n_outs n) -> em y = None) -> NoDup (n_outs n) ->
    (forall vs o, lookups V em (n_uses n) = Some vs -> sem (n_op n) (n_attrs n) vs = Some o -> length o = length (n_outs n) ->
       exists vs' o', lookups V em' (n_uses n') = Some vs' /\ sem (n_op n') (n_attrs n') vs' = Some o' /\ rel_list (n_outs n) o o') ->
    exists e1', stepg em' n' = Some e1' /\ rinv e1 e1'.
  Proof.
    intros Hi Hs Hout Hrho Hfresh Hnd Hsem. unfold step in *. rewrite Hout.
    destruct (lookups V em (n_uses n)) as [vs|] eqn:El; [|discriminate].
    destruct (sem (n_op n) (n_attrs n) vs) as [o|] eqn:Eo; [|discriminate].
    destruct (Nat.eqb (length o) (length (n_outs n))) eqn:Elen; [|discriminate]. injection Hs as <-.
    apply Nat.eqb_eq in Elen.
    destruct (Hsem vs o eq_refl Eo Elen) as (vs' & o' & El' & Eo' & Hro). rewrite El', Eo'.
    destruct (rel_list_length _ _ _ Hro) as [_ Hl']. rewrite Hl', Nat.eqb_refl.
    eexists. split; [reflexivity|]. destruct Hi as [Hi1 Hi2]. split.
    - intros x v Hx. destruct (in_dec Nat.eq_dec x (n_outs n)) as [Hin|Hin].
      + rewrite (Hrho x Hin). eapply upds_in_rel; eauto.
      + rewrite upds_other in Hx by exact Hin. destruct (Hi1 _ _ Hx) as (w & Ew & Hr).
        exists w. split; auto. rewrite upds_other; auto.
        intro Hin'. assert (Hd : em (rho x) <> None) by (apply Hi2; congruence). apply Hd. now apply Hfresh.
    - intros y Hy. destruct (in_dec Nat.eq_dec y (n_outs n)) as [Hin|Hin].
      + apply upds_defined; auto.
      + rewrite upds_other in * by exact Hin. auto.
  Qed.

  (* a dropped single-output node: its output must already be matched in the new run *)
  Lemma rinv_dropped_step em em' n y e1 :
    rinv em em' -> stepg em n = Some e1 -> n_outs n = [y] -> em y = None ->
    (forall vs v, lookups V em (n_uses n) = Some vs -> sem (n_op n) (n_attrs n) vs = Some [v] ->
       exists w, em' (rho y) = Some w /\ rel y v w) ->
    rinv e1 em'.
  Proof.
    intros [Hi1 Hi2] Hs Ho Hfresh Hsem. unfold step in Hs.
    destruct (lookups V em (n_uses n)) as [vs|] eqn:El; [|discriminate].
    destruct (sem (n_op n) (n_attrs n) vs) as [o|] eqn:Eo; [|discriminate].
    rewrite Ho in Hs. destruct o as [|v [|]]; simpl in Hs; try discriminate. injection Hs as <-.
    split.
    - intros x a. unfold upd. destruct (Nat.eqb_spec x y) as [->|Hne].
      + intro E. injection E as <-. eauto.
      + apply Hi1.
    - intros z Hz. unfold upd. destruct (Nat.eqb_spec z y); [discriminate | auto].
  Qed.
End Sim.
