(* Linear: denotations (over the commutative ring Z, on flattened operands) of the primitive names in
   jax2onnx/plugins/jax/_autodiff_utils.py : _LINEAR_TRANSPOSE_FALLBACK_ALLOWLIST, with a proof that each is
   linear in its differentiable operands  (f (a*x + b*y) = a*f x + b*f y)  -- the assumption under which
   register_transpose_via_linear_transpose may install a transpose rule via jax.linear_transpose.
   The lists themselves are translated from the current source (gen/GenAutodiff.v).  A name without a
   denotation here makes `allowlist_all_linear` fail (fail closed).

   Shape of a denotation: static (non-differentiable) parameters p  -- index maps, conditions, split tables --
   and a list of differentiable operands, each a flattened vector; the result is a list of vectors. *)
From Coq Require Import ZArith QArith String List Lia Bool.
From J2O Require Import PyLib.
From J2OGen Require Import GenAutodiff.
Import ListNotations.
Open Scope Z_scope.

Fixpoint zip2 {A B C} (f : A -> B -> C) (l : list A) (m : list B) : list C :=
  match l, m with a :: l', b :: m' => f a b :: zip2 f l' m' | _, _ => [] end.

(* a*x + b*y on vectors and on lists of vectors *)
Definition lc (a b : Z) (x y : list Z) : list Z := zip2 (fun u v => a * u + b * v) x y.
Definition lcs (a b : Z) (xs ys : list (list Z)) : list (list Z) := zip2 (lc a b) xs ys.
Definition same_shape (xs ys : list (list Z)) : Prop := Forall2 (fun x y => length x = length y) xs ys.

Record den := mkDen { par : Type; fn : par -> list (list Z) -> list (list Z) }.
Definition linear (d : den) : Prop :=
  forall (p : par d) a b xs ys, same_shape xs ys -> fn d p (lcs a b xs ys) = lcs a b (fn d p xs) (fn d p ys).

(* ------------------------------------------------------------------ building blocks *)
Definition gather (idx : list nat) (x : list Z) : list Z := map (fun k => nth k x 0) idx.

Lemma lc_length a b : forall x y, length x = length y -> length (lc a b x y) = length x.
Proof. unfold lc. induction x as [|u x IH]; intros [|v y] H; simpl in *; try discriminate; auto. Qed.

Lemma nth_lc a b : forall x y k, length x = length y -> nth k (lc a b x y) 0 = a * nth k x 0 + b * nth k y 0.
Proof. unfold lc.
  induction x as [|u x IH]; intros [|v y] k H; simpl in *; try discriminate.
  - destruct k; lia.
  - destruct k; auto.
Qed.

Lemma gather_lc a b idx x y : length x = length y ->
  gather idx (lc a b x y) = lc a b (gather idx x) (gather idx y).
Proof.
  intro H. induction idx as [|k idx IH]; simpl; auto. now rewrite IH, nth_lc.
Qed.

Lemma lc_app a b : forall x1 y1 x2 y2, length x1 = length y1 ->
  lc a b (x1 ++ x2) (y1 ++ y2) = lc a b x1 y1 ++ lc a b x2 y2.
Proof. unfold lc.
  induction x1 as [|u x1 IH]; intros [|v y1] x2 y2 H; simpl in *; try discriminate; auto.
  f_equal. apply IH. lia.
Qed.

Lemma concat_lcs a b xs ys : same_shape xs ys -> concat (lcs a b xs ys) = lc a b (concat xs) (concat ys).
Proof.
  intro H. induction H as [|x y xs ys Hxy H IH]; simpl; auto.
  rewrite lc_app by exact Hxy. now rewrite <- IH.
Qed.

Lemma same_shape_concat xs ys : same_shape xs ys -> length (concat xs) = length (concat ys).
Proof. intro H. induction H; simpl; auto. rewrite !app_length. lia. Qed.

Definition ite (c : bool) (u v : Z) : Z := if c then u else v.
Fixpoint zip3 (c : list bool) (x y : list Z) : list Z :=
  match c, x, y with k :: c', u :: x', v :: y' => ite k u v :: zip3 c' x' y' | _, _, _ => [] end.

Lemma zip3_lc a b : forall c x1 x2 y1 y2, length x1 = length x2 -> length y1 = length y2 ->
  zip3 c (lc a b x1 x2) (lc a b y1 y2) = lc a b (zip3 c x1 y1) (zip3 c x2 y2).
Proof. unfold lc.
  induction c as [|k c IH]; intros [|u1 x1] [|u2 x2] [|v1 y1] [|v2 y2] Hx Hy; simpl in *; try discriminate; auto.
  f_equal; [destruct k; reflexivity|]. apply IH; lia.
Qed.
Lemma zip3_length_eq : forall c x1 x2 y1 y2, length x1 = length x2 -> length y1 = length y2 ->
  length (zip3 c x1 y1) = length (zip3 c x2 y2).
Proof.
  induction c as [|k c IH]; intros [|u1 x1] [|u2 x2] [|v1 y1] [|v2 y2] Hx Hy; simpl in *; try discriminate; auto.
Qed.

(* ------------------------------------------------------------------ the denotations *)
(* jnp.add (and lax.add): operands broadcast to the output (index maps p1 p2), then added *)
Definition d_add : den := mkDen (list nat * list nat) (fun p xs =>
  match xs with [x; y] => [zip2 Z.add (gather (fst p) x) (gather (snd p) y)] | _ => [] end).

(* data movement: reshape, squeeze (identity on the flattened data), transpose, moveaxis (a permutation),
   tile (indices modulo), take (the index operand is an integer array: not differentiable) :
   out[i] = x[idx[i]] *)
Definition d_gather : den := mkDen (list nat) (fun idx xs => match xs with [x] => [gather idx x] | _ => [] end).

(* concatenate / stack: all operands laid out one after the other, then (for an axis other than 0) permuted *)
Definition d_concat : den := mkDen (list nat) (fun idx xs => [gather idx (concat xs)]).

(* split: several gathers of one operand *)
Definition d_split : den := mkDen (list (list nat)) (fun idxs xs =>
  match xs with [x] => map (fun idx => gather idx x) idxs | _ => [] end).

(* where(c, x, y): c is boolean (not differentiable); x and y broadcast to the output *)
Definition d_where : den := mkDen (list bool * list nat * list nat) (fun p xs =>
  match xs with [x; y] => [zip3 (fst (fst p)) (gather (snd (fst p)) x) (gather (snd p) y)] | _ => [] end).

(* select(condlist, choicelist, default): the first true condition chooses; operands = default :: choices
   (already broadcast) *)
Fixpoint select_fold (conds : list (list bool)) (choices : list (list Z)) (dflt : list Z) : list Z :=
  match conds, choices with
  | c :: cs, x :: xs => zip3 c x (select_fold cs xs dflt)
  | _, _ => dflt
  end.
Definition d_select : den := mkDen (list (list bool)) (fun conds xs =>
  match xs with dflt :: choices => [select_fold conds choices dflt] | [] => [] end).

(* ------------------------------------------------------------------ linearity *)
Lemma same_shape_nil_inv ys : same_shape [] ys -> ys = [].
Proof. intro H. now inversion H. Qed.
Lemma same_shape_cons_inv x xs ys : same_shape (x :: xs) ys ->
  exists y ys', ys = y :: ys' /\ length x = length y /\ same_shape xs ys'.
Proof. intro H. inversion H; subst. eauto. Qed.
Ltac shape_inv := repeat match goal with
  | H : same_shape [] _ |- _ => apply same_shape_nil_inv in H; subst
  | H : same_shape (_ :: _) _ |- _ =>
      let y := fresh "y" in let ys := fresh "ys" in let L := fresh "L" in
      apply same_shape_cons_inv in H; destruct H as (y & ys & -> & L & H)
  end.

Lemma zip2_add_lc a b : forall x1 y1 x2 y2, length x1 = length x2 -> length y1 = length y2 ->
  zip2 Z.add (lc a b x1 x2) (lc a b y1 y2) = lc a b (zip2 Z.add x1 y1) (zip2 Z.add x2 y2).
Proof. unfold lc.
  induction x1 as [|u1 x1 IH]; intros [|v1 y1] [|u2 x2] [|v2 y2] Hx Hy; simpl in *; try discriminate; auto.
  f_equal; [lia|]. apply IH; lia.
Qed.

Lemma gather_length idx x : length (gather idx x) = length idx.
Proof. apply map_length. Qed.

Lemma d_add_linear : linear d_add.
Proof.
  intros [p1 p2] a b xs ys H. destruct xs as [|x1 [|x2 [|x3 xs]]]; shape_inv; unfold lcs; simpl; auto.
  f_equal. rewrite !gather_lc by assumption. apply zip2_add_lc; now rewrite !gather_length.
Qed.

Lemma d_gather_linear : linear d_gather.
Proof.
  intros idx a b xs ys H. destruct xs as [|x1 [|x2 xs]]; shape_inv; unfold lcs; simpl; auto.
  f_equal. now apply gather_lc.
Qed.

Lemma d_concat_linear : linear d_concat.
Proof.
  intros idx a b xs ys H. unfold lcs at 2. simpl. f_equal.
  rewrite concat_lcs by exact H. apply gather_lc. now apply same_shape_concat.
Qed.

Lemma d_split_linear : linear d_split.
Proof.
  intros idxs a b xs ys H. destruct xs as [|x1 [|x2 xs]]; shape_inv; unfold lcs; simpl; auto.
  - induction idxs as [|idx idxs IH]; simpl; auto. rewrite gather_lc by assumption. f_equal. exact IH.
Qed.

Lemma d_where_linear : linear d_where.
Proof.
  intros [[c p1] p2] a b xs ys H. destruct xs as [|x1 [|x2 [|x3 xs]]]; shape_inv; unfold lcs; simpl; auto.
  f_equal. rewrite !gather_lc by assumption. apply zip3_lc; now rewrite !gather_length.
Qed.

Lemma select_fold_lc a b : forall conds cx cy dx dy, same_shape cx cy -> length dx = length dy ->
  select_fold conds (lcs a b cx cy) (lc a b dx dy) = lc a b (select_fold conds cx dx) (select_fold conds cy dy)
  /\ length (select_fold conds cx dx) = length (select_fold conds cy dy).
Proof.
  induction conds as [|c conds IH]; intros cx cy dx dy H Hd; simpl; [split; auto|].
  destruct cx as [|x cx]; shape_inv; unfold lcs; simpl; [split; auto|]. fold (lcs a b cx ys).
  destruct (IH cx ys dx dy H Hd) as [E Len]. rewrite E. split.
  - now apply zip3_lc.
  - now apply zip3_length_eq.
Qed.

Lemma d_select_linear : linear d_select.
Proof.
  intros conds a b xs ys H. destruct xs as [|x1 xs]; shape_inv; unfold lcs; simpl; auto.
  f_equal. now apply select_fold_lc.
Qed.

(* ------------------------------------------------------------------ the name tables *)
Inductive kind := KAdd | KGather | KConcat | KSplit | KWhere | KSelect.
Definition kind_eqb (a b : kind) : bool :=
  match a, b with
  | KAdd, KAdd | KGather, KGather | KConcat, KConcat | KSplit, KSplit | KWhere, KWhere | KSelect, KSelect => true
  | _, _ => false
  end.
Definition den_of (k : kind) : den :=
  match k with KAdd => d_add | KGather => d_gather | KConcat => d_concat | KSplit => d_split
             | KWhere => d_where | KSelect => d_select end.
Theorem den_of_linear k : linear (den_of k).
Proof.
  destruct k; [apply d_add_linear | apply d_gather_linear | apply d_concat_linear | apply d_split_linear
              | apply d_where_linear | apply d_select_linear].
Qed.

Open Scope string_scope.
(* the substitute primitives (named after the jax.numpy function they replace) *)
Definition jnp_kinds : list (string * kind) :=
  [("jax.numpy.add", KAdd); ("jax.numpy.concatenate", KConcat); ("jax.numpy.moveaxis", KGather);
   ("jax.numpy.reshape", KGather); ("jax.numpy.select", KSelect); ("jax.numpy.split", KSplit);
   ("jax.numpy.squeeze", KGather); ("jax.numpy.stack", KConcat); ("jax.numpy.take", KGather);
   ("jax.numpy.tile", KGather); ("jax.numpy.transpose", KGather); ("jax.numpy.where", KWhere)].
(* the jax.lax primitives whose AD/batching rules are forwarded *)
Definition lax_kinds : list (string * kind) :=
  [("add", KAdd); ("concatenate", KConcat); ("reshape", KGather); ("split", KSplit); ("squeeze", KGather);
   ("tile", KGather); ("transpose", KGather)].
Close Scope string_scope.

Fixpoint assoc {V} (n : string) (l : list (string * V)) : option V :=
  match l with [] => None | (k, v) :: r => if String.eqb n k then Some v else assoc n r end.
Definition known_linear_names : list string := map fst jnp_kinds.

Lemma str_in_assoc {V} n (l : list (string * V)) : str_in n (map fst l) = true -> exists v, assoc n l = Some v.
Proof.
  unfold str_in. induction l as [|[k v] l IH]; simpl; [discriminate|].
  destruct (String.eqb n k); simpl; eauto.
Qed.

(* every name with a denotation is linear in its differentiable operands *)
Theorem known_names_linear n : str_in n known_linear_names = true ->
  exists k, assoc n jnp_kinds = Some k /\ linear (den_of k).
Proof. intro H. destruct (str_in_assoc n jnp_kinds H) as [k Hk]. exists k. split; auto. apply den_of_linear. Qed.

(* forwarding the JVP / transpose / batching rules of a jax.lax primitive to a substitute primitive is sound
   when both denote members of the same family *)
Definition pair_same_kind (p : string * string) : bool :=
  match assoc (fst p) lax_kinds, assoc (snd p) jnp_kinds with
  | Some a, Some b => kind_eqb a b
  | _, _ => false
  end.
Definition pair_in (p : string * string) (l : list (string * string)) : bool :=
  existsb (fun q => String.eqb (fst p) (fst q) && String.eqb (snd p) (snd q)) l.

(* users of the shared broadcasting batch rule that are elementwise maps with numpy broadcasting
   (plugin module paths).  jax/numpy/dot and jax/numpy/matmul are NOT (contractions). *)
Open Scope string_scope.
Definition elementwise_batcher_users : list string :=
  ["equinox/eqx/nn/prelu"; "flax/nnx/prelu"; "jax/nn/squareplus"; "jax/numpy/add"; "jax/numpy/atan2";
   "jax/numpy/bitwise_and"; "jax/numpy/bitwise_left_shift"; "jax/numpy/bitwise_or"; "jax/numpy/bitwise_right_shift";
   "jax/numpy/bitwise_xor"; "jax/numpy/clip"; "jax/numpy/copysign"; "jax/numpy/divide"; "jax/numpy/equal";
   "jax/numpy/floor_divide"; "jax/numpy/fmod"; "jax/numpy/greater"; "jax/numpy/greater_equal"; "jax/numpy/ldexp";
   "jax/numpy/left_shift"; "jax/numpy/less"; "jax/numpy/less_equal"; "jax/numpy/maximum"; "jax/numpy/minimum";
   "jax/numpy/pow"; "jax/numpy/right_shift"; "jax/numpy/select"; "jax/numpy/where"].
Definition contraction_batcher_users : list string := ["jax/numpy/dot"; "jax/numpy/matmul"].
Close Scope string_scope.

(* ================================================================== the translated lists (gen/GenAutodiff.v) *)
(* every allow-listed name has a denotation; adding a name without one breaks this proof *)
Theorem allowlist_all_linear :
  forallb (fun n => str_in n known_linear_names) LINEAR_TRANSPOSE_FALLBACK_ALLOWLIST = true.
Proof. vm_compute. reflexivity. Qed.

Theorem allowlist_linear_denotations : forall n, In n LINEAR_TRANSPOSE_FALLBACK_ALLOWLIST ->
  exists k, assoc n jnp_kinds = Some k /\ linear (den_of k).
Proof.
  intros n Hn. apply known_names_linear.
  pose proof allowlist_all_linear as H. rewrite forallb_forall in H. now apply H.
Qed.

(* the generic transpose (jax.linear_transpose of the impl) is installed by default only for such names *)
Theorem transpose_fallback_only_for_linear : forall n, should_register_transpose n None = true ->
  exists k, assoc n jnp_kinds = Some k /\ linear (den_of k).
Proof.
  intros n H. unfold should_register_transpose in H. apply allowlist_linear_denotations.
  unfold str_in in H. apply existsb_exists in H as (m & Hm & E). apply String.eqb_eq in E. now subst.
Qed.

Theorem forwarding_pairs_same_denotation : forallb pair_same_kind ORIGINAL_RULE_FORWARDING_ALLOWLIST = true.
Proof. vm_compute. reflexivity. Qed.

Theorem forwarding_allow_block_disjoint :
  forallb (fun p => negb (pair_in p ORIGINAL_RULE_FORWARDING_ALLOWLIST)) ORIGINAL_RULE_FORWARDING_BLOCKLIST = true.
Proof. vm_compute. reflexivity. Qed.

(* every plugin that registers the shared broadcasting batch rule is a known elementwise map, or one of the two
   known contractions (for which Batch.batcher_nonelementwise_refuted applies); a new user must be classified *)
Theorem batcher_users_classified :
  forallb (fun u => str_in u elementwise_batcher_users || str_in u contraction_batcher_users) BATCHER_USERS = true.
Proof. vm_compute. reflexivity. Qed.

(* the helper of the CURRENT source is the repaired one (new axes right after the batch axis = Batch.batcher_fixed);
   a tree whose helper is textually the historical one (or anything else) breaks this proof *)
Theorem current_batch_helper_is_repaired : hsb_source_variant = "after_batch"%string /\ batcher_shape_checked = true.
Proof. split; reflexivity. Qed.

(* ================================================================== hand-written differentiation rules *)
(* Rules DERIVED from the original implementation (register_jvp_via_jax_jvp: jax.jvp of the original; batch rules that jax.vmap
   the original) are JAX's own transformation of the function the primitive stands for: whatever the transformation D is,
   applying it to an implementation that IS the original gives D of the original. *)
Lemma derived_rule_is_jax_rule {F R : Type} (D : F -> R) (impl orig : F) : impl = orig -> D impl = D orig.
Proof. intros ->. reflexivity. Qed.

(* ... and the helper that installs the derived JVP rules IS `jax.jvp` of the wrapped original implementation with all primals and
   all (instantiated) tangents: AST of register_jvp_via_jax_jvp, gen/GenAutodiff.v fails closed on anything else *)
Theorem derived_jvp_helper_is_jax_jvp : derived_jvp_helper_shape_checked = true.
Proof. reflexivity. Qed.

(* HAND-WRITTEN JVP / transpose rules (inventory: gen/GenAutodiff.v) need their own test: each of these plugins has a boundary
   program family in harness/c10.py (_rule_families); a new hand-written rule without one breaks this proof *)
Open Scope string_scope.
Definition boundary_tested_rules : list string :=
  ["jax/nn/celu"; "jax/nn/elu"; "jax/nn/gelu"; "jax/nn/leaky_relu"; "jax/nn/mish"; "jax/nn/relu"; "jax/nn/selu"; "jax/nn/sigmoid";
   "jax/nn/silu"; "jax/nn/softplus"; "jax/nn/softsign"; "jax/numpy/prod"; "jax/numpy/select"; "jax/numpy/stack"; "jax/numpy/sum";
   "jax/numpy/take"; "jax/numpy/where"].
Close Scope string_scope.
Theorem handwritten_rules_have_boundary_tests :
  forallb (fun m => str_in m boundary_tested_rules) (HANDWRITTEN_JVP_PLUGINS ++ HANDWRITTEN_TRANSPOSE_PLUGINS) = true.
Proof. vm_compute. reflexivity. Qed.

(* ---- jax2onnx/plugins/jax/numpy/prod.py : _prod_jvp_rule over the rationals (one reduced slice) *)
Module ProdJvp.
Local Open Scope Q_scope.

Definition qz (x : Q) : bool := Qeq_bool x 0.
Fixpoint qprod (l : list Q) : Q := match l with [] => 1 | x :: r => x * qprod r end.
(* the derivative of the product in direction t: sum_i t_i * prod_{j<>i} x_j (product rule, no division) *)
Fixpoint dprod (l t : list Q) : Q :=
  match l, t with x :: r, u :: v => u * qprod r + x * dprod r v | _, _ => 0 end.
Fixpoint zcount (l : list Q) : nat := match l with [] => 0%nat | x :: r => ((if qz x then 1 else 0) + zcount r)%nat end.
Definition safe (x : Q) : Q := if qz x then 1 else x.
Fixpoint ratio_sum (l t : list Q) : Q :=
  match l, t with x :: r, u :: v => (if qz x then 0 else u / x) + ratio_sum r v | _, _ => 0 end.
Fixpoint zero_terms (l t : list Q) : Q :=
  match l, t with x :: r, u :: v => (if qz x then u else 0) + zero_terms r v | _, _ => 0 end.
Definition tangent_no_zero l t := qprod l * ratio_sum l t.
Definition tangent_one_zero l t := qprod (map safe l) * zero_terms l t.
(* _prod_jvp_rule *)
Definition prod_jvp_three l t : Q :=
  match zcount l with 0%nat => tangent_no_zero l t | 1%nat => tangent_one_zero l t | _ => 0 end.
(* the collapsed rule of the seeded regression *)
Definition prod_jvp_collapsed l t : Q :=
  match zcount l with 0%nat => tangent_no_zero l t | _ => tangent_one_zero l t end.

Lemma qz_true x : qz x = true -> x == 0.
Proof. unfold qz. apply Qeq_bool_eq. Qed.
Lemma qz_false x : qz x = false -> ~ x == 0.
Proof. unfold qz. intros H E. apply Qeq_bool_neq in H. contradiction. Qed.

Ltac cz x H E := simpl in H; revert H; destruct (qz x) eqn:E; intro H; simpl in H.

Lemma qprod_zero l : (1 <= zcount l)%nat -> qprod l == 0.
Proof.
  induction l as [|x r IH]; simpl; intro H; [exfalso; lia|].
  cz x H E.
  - apply qz_true in E. rewrite E. ring.
  - rewrite IH by lia. ring.
Qed.
Lemma nozero_safe l : zcount l = 0%nat -> qprod (map safe l) == qprod l.
Proof.
  induction l as [|x r IH]; simpl; intro H; [reflexivity|].
  unfold safe at 1. cz x H E; [exfalso; lia|]. rewrite IH by lia. reflexivity.
Qed.
Lemma nozero_terms l : forall t, zcount l = 0%nat -> zero_terms l t == 0.
Proof.
  induction l as [|x r IH]; intros [|u v] H; simpl; try reflexivity.
  cz x H E; [exfalso; lia|]. rewrite IH by lia. ring.
Qed.

Lemma case0 l : forall t, zcount l = 0%nat -> dprod l t == tangent_no_zero l t.
Proof.
  unfold tangent_no_zero. induction l as [|x r IH]; intros [|u v] H; simpl; try ring.
  cz x H E; [exfalso; lia|]. apply qz_false in E.
  rewrite IH by lia. field. exact E.
Qed.
Lemma case1 l : forall t, zcount l = 1%nat -> dprod l t == tangent_one_zero l t.
Proof.
  unfold tangent_one_zero. induction l as [|x r IH]; intros [|u v] H; simpl; try ring.
  unfold safe at 1. cz x H E.
  - assert (Hz : zcount r = 0%nat) by lia. apply qz_true in E.
    rewrite (nozero_safe r Hz), (nozero_terms r v Hz), E. ring.
  - assert (Hz : zcount r = 1%nat) by lia.
    rewrite (IH v Hz), (qprod_zero r) by lia. ring.
Qed.
Lemma case2 l : forall t, (2 <= zcount l)%nat -> dprod l t == 0.
Proof.
  induction l as [|x r IH]; intros [|u v] H; simpl; try reflexivity.
  cz x H E.
  - apply qz_true in E. rewrite (qprod_zero r) by lia. rewrite E. ring.
  - rewrite (IH v) by lia. rewrite (qprod_zero r) by lia. ring.
Qed.

(* the three-case rule IS the product rule, for every list and every tangent *)
Theorem prod_jvp_three_correct l t : prod_jvp_three l t == dprod l t.
Proof.
  unfold prod_jvp_three. destruct (zcount l) as [|[|n]] eqn:E; symmetry.
  - now apply case0. - now apply case1. - apply case2. lia.
Qed.

(* the collapsed rule is not: x = [0;5;0], t = [1;0;0] gives 5 instead of 0 *)
Theorem prod_jvp_collapsed_refuted : exists l t, ~ prod_jvp_collapsed l t == dprod l t.
Proof. exists [0; 5; 0], [1; 0; 0]. vm_compute. discriminate. Qed.
(* and it is right exactly when a slice has at most one zero *)
Theorem prod_jvp_collapsed_partial l t : (zcount l <= 1)%nat -> prod_jvp_collapsed l t == dprod l t.
Proof.
  intro H. rewrite <- prod_jvp_three_correct. unfold prod_jvp_collapsed, prod_jvp_three.
  destruct (zcount l) as [|[|n]]; try reflexivity. lia.
Qed.
End ProdJvp.
