(* CastSem: value-level semantics of ONNX Cast between element types, and the reference
   criterion [ref_ok] under which a round trip s -> t -> s is the identity on every value of s.
   Floats are Flocq generic formats (FLT) plus explicit specials. *)
From Coq Require Import ZArith Reals List Bool Lia Lra.
From Flocq Require Import Core.
From J2O Require Import PyLib Dtype.
Import ListNotations.
Local Open Scope Z_scope.

(* ---------------------------------------------------------------- values *)
Inductive fval := FNaN | FInf (neg : bool) | FZero (neg : bool) | FFin (x : R).
Inductive value := VBool (b : bool) | VInt (z : Z) | VFloat (f : fval) | VComplex (re im : fval) | VOpaque (n : nat).

Definition fmt := (Z * Z * Z)%type.   (* precision, min subnormal exponent, max normal exponent *)
Definition fprec (f : fmt) := fst (fst f).
Definition femin (f : fmt) := snd (fst f).
Definition femax (f : fmt) := snd f.

Definition fexp_of (f : fmt) := FLT_exp (femin f) (fprec f).

Definition fin_fmt (f : fmt) (x : R) : Prop :=
  x <> 0%R /\ generic_format radix2 (fexp_of f) x /\ (Rabs x < bpow radix2 (femax f + 1))%R.
Definition in_ffmt (f : fmt) (v : fval) : Prop := match v with FFin x => fin_fmt f x | _ => True end.

Definition fmt_fits (s t : fmt) : bool :=
  (fprec s <=? fprec t) && (femin t <=? femin s) && (femax s <=? femax t).

Lemma fmt_fits_incl s t x : fmt_fits s t = true -> fin_fmt s x -> fin_fmt t x.
Proof.
  unfold fmt_fits, fin_fmt. intros H (Hnz & Hg & Hb).
  apply andb_prop in H as [H H3]. apply andb_prop in H as [H1 H2].
  apply Z.leb_le in H1, H2, H3. repeat split; auto.
  - apply generic_inclusion_mag with (fexp1 := fexp_of s); auto.
    intros _. unfold fexp_of, FLT_exp. lia.
  - eapply Rlt_le_trans; [exact Hb|]. apply bpow_le. lia.
Qed.

(* ---------------------------------------------------------------- float -> float *)
Definition sign_neg (x : R) : bool := if Rlt_dec x 0 then true else false.

Definition fround (t : fmt) (x : R) : fval :=
  let r := round radix2 (fexp_of t) ZnearestE x in
  if Rlt_dec (Rabs r) (bpow radix2 (femax t + 1))
  then (if Req_EM_T r 0 then FZero (sign_neg x) else FFin r)
  else FInf (sign_neg x).

Definition fcast (t : fmt) (v : fval) : fval :=
  match v with FFin x => fround t x | _ => v end.

Lemma fround_id t x : fin_fmt t x -> fround t x = FFin x.
Proof.
  intros (Hnz & Hg & Hb). unfold fround.
  rewrite round_generic; auto; [| apply valid_rnd_N].
  destruct (Rlt_dec _ _); [|contradiction].
  destruct (Req_EM_T x 0); [contradiction|reflexivity].
Qed.

Lemma fcast_roundtrip s t v : fmt_fits s t = true -> in_ffmt s v -> fcast s (fcast t v) = v.
Proof.
  intros H Hv. destruct v as [| | |x]; simpl; auto.
  simpl in Hv. rewrite (fround_id t x) by (eapply fmt_fits_incl; eauto).
  simpl. now apply fround_id.
Qed.

(* ---------------------------------------------------------------- int <-> float *)
Definition int_to_f (t : fmt) (z : Z) : fval := if z =? 0 then FZero false else fround t (IZR z).
(* float -> int: truncation toward zero, then two's-complement wrap; NaN/Inf are undefined in ONNX *)
Definition f_to_int (sb : bool * Z) (v : fval) : option Z :=
  match v with
  | FFin x => Some (wrap sb (Ztrunc x))
  | FZero _ => Some 0
  | _ => None
  end.

Definition int_fits_float (sb : bool * Z) (t : fmt) : bool :=
  let '(s, b) := sb in
  ((if s then b - 1 else b) <=? fprec t) && (b - 1 <=? femax t) && (femin t <=? 0) && (0 <? b) && (0 <? fprec t).

Lemma IZR_in_fmt_small t z : 0 < fprec t -> femin t <= 0 -> z <> 0 -> Z.abs z < 2 ^ fprec t ->
  generic_format radix2 (fexp_of t) (IZR z).
Proof.
  intros Hp He Hz Hlt. unfold fexp_of.
  apply generic_format_FLT. apply FLT_spec with (f := Float radix2 z 0); simpl; auto.
  unfold F2R; simpl. lra.
Qed.

Lemma pow2_in_fmt t k (neg : bool) : 0 < fprec t -> femin t <= k -> 0 <= k ->
  generic_format radix2 (fexp_of t) (IZR ((if neg then -1 else 1) * 2 ^ k)).
Proof.
  intros Hp Hk Hk0. unfold fexp_of.
  apply generic_format_FLT. apply FLT_spec with (f := Float radix2 (if neg then -1 else 1) k); simpl; auto.
  - unfold F2R; simpl. rewrite mult_IZR. f_equal.
    apply (IZR_Zpower radix2). lia.
  - assert (1 < 2 ^ fprec t) by (apply Z.pow_gt_1; lia).
    destruct neg; simpl; lia.
Qed.

Lemma int_in_fmt sb t z : int_fits_float sb t = true -> in_int sb z -> z <> 0 -> fin_fmt t (IZR z).
Proof.
  destruct sb as [s b]. unfold int_fits_float, in_int, int_lo, int_hi.
  intros H [Hlo Hhi] Hz.
  repeat (apply andb_prop in H as [H ?]).
  match goal with H : (0 <? b) = true |- _ => apply Z.ltb_lt in H end.
  match goal with H : (0 <? fprec t) = true |- _ => apply Z.ltb_lt in H end.
  match goal with H : (femin t <=? 0) = true |- _ => apply Z.leb_le in H end.
  match goal with H : (b - 1 <=? femax t) = true |- _ => apply Z.leb_le in H end.
  apply Z.leb_le in H.
  assert (Hpb : 2 ^ b = 2 * 2 ^ (b - 1)).
  { replace b with (1 + (b - 1)) at 1 by lia. rewrite Z.pow_add_r by lia. reflexivity. }
  assert (Hpos : 0 < 2 ^ (b - 1)) by (apply Z.pow_pos_nonneg; lia).
  assert (Hbound : Z.abs z <= 2 ^ (b - 1) \/ (s = false /\ Z.abs z < 2 ^ b)).
  { destruct s; [left; lia | right; split; auto; lia]. }
  split; [intro E; apply eq_IZR in E; lia|]. split.
  - (* representable *)
    destruct s.
    + destruct (Z.eq_dec z (- 2 ^ (b - 1))) as [->|Hne].
      * replace (- 2 ^ (b - 1)) with (-1 * 2 ^ (b - 1)) by lia.
        apply (pow2_in_fmt t (b - 1) true); lia.
      * apply IZR_in_fmt_small; auto; try lia.
        assert (2 ^ (b - 1) <= 2 ^ fprec t) by (apply Z.pow_le_mono_r; lia). lia.
    + apply IZR_in_fmt_small; auto; try lia.
      assert (2 ^ b <= 2 ^ fprec t) by (apply Z.pow_le_mono_r; lia). lia.
  - (* magnitude *)
    rewrite <- abs_IZR.
    apply Rlt_le_trans with (IZR (2 ^ (femax t + 1))).
    + apply IZR_lt.
      assert (2 ^ b <= 2 ^ (femax t + 1)) by (apply Z.pow_le_mono_r; lia).
      destruct Hbound as [Hb|[_ Hb]]; lia.
    + replace (IZR (2 ^ (femax t + 1))) with (bpow radix2 (femax t + 1)).
      * apply Rle_refl.
      * symmetry. apply (IZR_Zpower radix2). lia.
Qed.

Lemma int_float_roundtrip sb t z : int_fits_float sb t = true -> in_int sb z ->
  f_to_int sb (int_to_f t z) = Some z.
Proof.
  intros H Hz. unfold int_to_f. destruct (Z.eqb_spec z 0) as [->|Hnz]; [reflexivity|].
  rewrite fround_id by (eapply int_in_fmt; eauto). simpl. rewrite Ztrunc_IZR.
  f_equal. apply wrap_id; auto.
  destruct sb as [s b]; simpl in *. unfold int_fits_float in H.
  repeat (apply andb_prop in H as [H ?]).
  match goal with H : (0 <? b) = true |- _ => apply Z.ltb_lt in H; exact H end.
Qed.

(* ---------------------------------------------------------------- int <-> int *)
Definition int_fits_int (s t : bool * Z) : bool :=
  let '(ss, sbits) := s in let '(ts, tbits) := t in
  (0 <? sbits) && (0 <? tbits) &&
  (if ss then ts && (sbits <=? tbits) else if ts then sbits <? tbits else sbits <=? tbits).

Lemma int_fits_int_incl s t z : int_fits_int s t = true -> in_int s z -> in_int t z.
Proof.
  destruct s as [ss sb], t as [ts tb]. unfold int_fits_int, in_int, int_lo, int_hi.
  intros H [Hlo Hhi].
  apply andb_prop in H as [H H3]. apply andb_prop in H as [H1 H2].
  apply Z.ltb_lt in H1, H2.
  destruct ss, ts; simpl in H3; try discriminate.
  - apply Z.leb_le in H3.
    assert (2 ^ (sb - 1) <= 2 ^ (tb - 1)) by (apply Z.pow_le_mono_r; lia). lia.
  - apply Z.ltb_lt in H3.
    assert (2 ^ sb <= 2 ^ (tb - 1)) by (apply Z.pow_le_mono_r; lia).
    assert (0 < 2 ^ (tb - 1)) by (apply Z.pow_pos_nonneg; lia). lia.
  - apply Z.leb_le in H3.
    assert (2 ^ sb <= 2 ^ tb) by (apply Z.pow_le_mono_r; lia). lia.
Qed.

Lemma int_int_roundtrip s t z : int_fits_int s t = true -> in_int s z -> wrap s (wrap t z) = z.
Proof.
  intros H Hz. pose proof (int_fits_int_incl _ _ _ H Hz) as Ht.
  destruct s as [ss sb], t as [ts tb]. unfold int_fits_int in H.
  apply andb_prop in H as [H _]. apply andb_prop in H as [H1 H2]. apply Z.ltb_lt in H1, H2.
  rewrite (wrap_id (ts, tb)) by auto. now apply wrap_id.
Qed.

(* ---------------------------------------------------------------- kinds and the cast function *)
Inductive kind := KBool | KInt (sb : bool * Z) | KFloat (f : fmt) | KComplex (f : fmt) | KOther.

Definition kind_of (d : dtype) : kind :=
  match d with
  | DT_BOOL => KBool
  | _ => match int_info d with
         | Some sb => KInt sb
         | None => match float_fmt d with
                   | Some f => KFloat f
                   | None => match complex_fmt d with Some f => KComplex f | None => KOther end
                   end
         end
  end.

Definition f_nonzero (v : fval) : bool :=
  match v with FZero _ => false | FFin x => if Req_EM_T x 0 then false else true | _ => true end.
Definition bool_to_f (b : bool) : fval := if b then FFin 1 else FZero false.

Definition cast_k (from to : kind) (v : value) : option value :=
  match from, to, v with
  | KBool, KBool, VBool b => Some (VBool b)
  | KBool, KInt _, VBool b => Some (VInt (if b then 1 else 0))
  | KBool, KFloat _, VBool b => Some (VFloat (bool_to_f b))
  | KBool, KComplex _, VBool b => Some (VComplex (bool_to_f b) (FZero false))
  | KInt _, KBool, VInt z => Some (VBool (negb (z =? 0)))
  | KInt _, KInt t, VInt z => Some (VInt (wrap t z))
  | KInt _, KFloat t, VInt z => Some (VFloat (int_to_f t z))
  | KInt _, KComplex t, VInt z => Some (VComplex (int_to_f t z) (FZero false))
  | KFloat _, KBool, VFloat x => Some (VBool (f_nonzero x))
  | KFloat _, KInt t, VFloat x => option_map VInt (f_to_int t x)
  | KFloat _, KFloat t, VFloat x => Some (VFloat (fcast t x))
  | KFloat _, KComplex t, VFloat x => Some (VComplex (fcast t x) (FZero false))
  | KComplex _, KBool, VComplex re im => Some (VBool (f_nonzero re || f_nonzero im))
  | KComplex _, KInt t, VComplex re _ => option_map VInt (f_to_int t re)
  | KComplex _, KFloat t, VComplex re _ => Some (VFloat (fcast t re))     (* imaginary part discarded *)
  | KComplex _, KComplex t, VComplex re im => Some (VComplex (fcast t re) (fcast t im))
  | _, _, _ => None
  end.

(* Cast to the type a value already has is the identity, for every element type. *)
Definition cast (from to : dtype) (v : value) : option value :=
  if dtype_eqb from to then Some v else cast_k (kind_of from) (kind_of to) v.

Definition in_dom (d : dtype) (v : value) : Prop :=
  match kind_of d, v with
  | KBool, VBool _ => True
  | KInt sb, VInt z => in_int sb z
  | KFloat f, VFloat x => in_ffmt f x
  | KComplex f, VComplex re im => in_ffmt f re /\ in_ffmt f im
  | KOther, VOpaque _ => True
  | _, _ => False
  end.

(* ---------------------------------------------------------------- reference criterion *)
Definition ref_ok (s t : dtype) : bool :=
  if dtype_eqb s t then true else
  match kind_of s, kind_of t with
  | KBool, (KInt _ | KFloat _ | KComplex _) => true
  | KInt a, KInt b => int_fits_int a b
  | KInt a, (KFloat f | KComplex f) => int_fits_float a f
  | KFloat f, (KFloat g | KComplex g) => fmt_fits f g
  | KComplex f, KComplex g => fmt_fits f g
  | _, _ => false
  end.

Lemma fin_1 f : 0 < fprec f -> femin f <= 0 -> 0 <= femax f -> fin_fmt f 1.
Proof.
  intros Hp He Hm. split; [lra|]. split.
  - apply (IZR_in_fmt_small f 1); auto; try lia.
    assert (1 < 2 ^ fprec f) by (apply Z.pow_gt_1; lia). simpl. lia.
  - rewrite Rabs_R1. replace 1%R with (bpow radix2 0) by reflexivity. apply bpow_lt. lia.
Qed.

Lemma f_nonzero_bool b : f_nonzero (bool_to_f b) = b.
Proof.
  destruct b; simpl; auto. destruct (Req_EM_T 1 0); [lra|reflexivity].
Qed.

Theorem ref_ok_roundtrip s t v :
  ref_ok s t = true -> in_dom s v ->
  exists w, cast s t v = Some w /\ cast t s w = Some v.
Proof.
  unfold ref_ok, cast. destruct (dtype_eqb s t) eqn:Est.
  - apply dtype_eqb_eq in Est; subst t. intros _ _. exists v. split; auto.
    rewrite (proj2 (dtype_eqb_eq s s) eq_refl). reflexivity.
  - assert (Ets : dtype_eqb t s = false).
    { destruct (dtype_eqb t s) eqn:E; auto. apply dtype_eqb_eq in E. subst.
      rewrite (proj2 (dtype_eqb_eq s s) eq_refl) in Est. discriminate. }
    rewrite Ets. unfold in_dom.
    destruct (kind_of s) as [|a|f|f|] eqn:Ks; destruct (kind_of t) as [|b|g|g|] eqn:Kt;
      try discriminate; intros Hok Hd; destruct v as [bv|z|x|re im|n]; try contradiction; simpl.
    + (* bool -> int *) eexists; split; eauto. simpl. destruct bv; reflexivity.
    + (* bool -> float *) eexists; split; eauto. simpl. now rewrite f_nonzero_bool.
    + (* bool -> complex *) eexists; split; eauto. simpl. rewrite f_nonzero_bool. now rewrite orb_false_r.
    + (* int -> int *) eexists; split; eauto. simpl. now rewrite int_int_roundtrip.
    + (* int -> float *) eexists; split; eauto. simpl. now rewrite int_float_roundtrip.
    + (* int -> complex *) eexists; split; eauto. simpl. now rewrite int_float_roundtrip.
    + (* float -> float *) eexists; split; eauto. simpl. now rewrite fcast_roundtrip.
    + (* float -> complex *) eexists; split; eauto. simpl. now rewrite fcast_roundtrip.
    + (* complex -> complex *) destruct Hd as [Hre Him]. eexists; split; eauto. simpl.
      now rewrite !fcast_roundtrip.
Qed.
