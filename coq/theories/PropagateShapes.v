(* PropagateShapes (C02): models of the two annotation-only passes of optimize_graph on the common graph (OptGraph.v).
   propagate_unary_shapes_ir: for every default-domain node whose operator is in UNARY_DATAFLOW_OPS (translated table), in
   graph order, the first output takes the declared shape (and, but for Cast / CastLike, the declared dtype) of the first
   input WHEN THE INPUT HAS ONE (_copy_shape_dtype / _copy_shape_only).  Nodes and graph outputs are untouched.
   Encoding: n_op = operator name for domain "", "dom::op" otherwise, so membership of the raw n_op in the table is the
   Python test "op in UNARY_DATAFLOW_OPS and domain == ''". *)
From Coq Require Import ZArith String List Bool Arith Lia.
From J2O Require Import PyLib Tensor Graph ReshapePairPass OptGraph.
From J2OGen Require Import GenCast GenOpt.
Import ListNotations.

Definition copy_ann {B} (dst src : option B) : option B := match src with Some s => Some s | None => dst end.

Definition unary_prop_node (g : ograph) (n : node) : ograph :=
  if str_in (n_op n) UNARY_DATAFLOW_OPS then
    match n_ins n, n_outs n with
    | x :: _, y :: _ =>
        mkOG (o_nodes g) (o_outputs g)
             (if String.eqb (n_op n) "Cast" || String.eqb (n_op n) "CastLike" then o_dtype g
              else updf (o_dtype g) y (copy_ann (o_dtype g y) (o_dtype g x)))
             (updf (o_shape g) y (copy_ann (o_shape g y) (o_shape g x)))
             (o_scalar g) (o_crank g) (o_const g) (o_bool g) (o_fc g)
    | _, _ => g
    end
  else g.
Definition o_pass_unary (g : ograph) : ograph := fold_left unary_prop_node (o_nodes g) g.

Lemma unary_prop_node_frame g n : o_nodes (unary_prop_node g n) = o_nodes g /\ o_outputs (unary_prop_node g n) = o_outputs g /\
  o_scalar (unary_prop_node g n) = o_scalar g /\ o_crank (unary_prop_node g n) = o_crank g /\ o_const (unary_prop_node g n) = o_const g /\
  o_bool (unary_prop_node g n) = o_bool g /\ o_fc (unary_prop_node g n) = o_fc g.
Proof.
  unfold unary_prop_node. destruct (str_in _ _); [|repeat split]. destruct (n_ins n); [repeat split|]. destruct (n_outs n); repeat split.
Qed.

(* propagate_elementwise_shapes_ir: for every default-domain node whose operator is in ELEMENTWISE_BINARY_OPS, in graph order,
   _refresh_elementwise_output_shape(node) (NOT rewired: on giving up the old annotation is kept): when every operand has a
   declared shape and their dims broadcast ([ReshapePairPass.broadcast_dims] = _broadcast_shape_dims), the first output is
   declared to have the broadcast shape, and takes the declared dtype of the shape source (first operand that is not a
   one-element constant, else the first operand) when that has one.
   Domain restrictions of the model: no nested graph on such a node (schema) and no ABSENT input before a present one
   (Clip(x, , max)): the encoding has no absent inputs. *)
Definition elem_prop_node (g : ograph) (n : node) : ograph :=
  if str_in (n_op n) ELEMENTWISE_BINARY_OPS then
    match n_outs n, n_caps n with
    | y :: _, [] =>
        match shape_source (projP g) (n_ins n) with
        | None => g
        | Some src =>
            match mapM (o_shape g) (n_ins n) with
            | None => g
            | Some cands =>
                match broadcast_dims cands with
                | None => g
                | Some m => mkOG (o_nodes g) (o_outputs g) (updf (o_dtype g) y (copy_ann (o_dtype g y) (o_dtype g src)))
                                 (updf (o_shape g) y (Some m)) (o_scalar g) (o_crank g) (o_const g) (o_bool g) (o_fc g)
                end
            end
        end
    | _, _ => g
    end
  else g.
Definition o_pass_elem (g : ograph) : ograph := fold_left elem_prop_node (o_nodes g) g.

Lemma elem_prop_node_frame g n : o_nodes (elem_prop_node g n) = o_nodes g /\ o_outputs (elem_prop_node g n) = o_outputs g /\
  o_scalar (elem_prop_node g n) = o_scalar g /\ o_crank (elem_prop_node g n) = o_crank g /\ o_const (elem_prop_node g n) = o_const g /\
  o_bool (elem_prop_node g n) = o_bool g /\ o_fc (elem_prop_node g n) = o_fc g.
Proof.
  unfold elem_prop_node. destruct (str_in _ _); [|repeat split]. destruct (n_outs n); [repeat split|]. destruct (n_caps n); [|repeat split].
  destruct (shape_source _ _); [|repeat split]. destruct (mapM _ _); [|repeat split]. destruct (broadcast_dims _); repeat split.
Qed.

Example unary_prop_ex :
  let g := mkOG [mkNode "Relu" [] [1] [] [2]; mkNode "custom::Relu" [] [2] [] [3]; mkNode "Cast" [1] [2] [] [4]] [3; 4]
                (fun x => if Nat.eqb x 1 then Some 1%Z else None) (fun x => if Nat.eqb x 1 then Some [DSym "B"; DInt 3] else None)
                (fun _ => false) (fun _ => None) (fun _ => None) (fun _ => None) None in
  map (o_shape (o_pass_unary g)) [2; 3; 4] = [Some [DSym "B"; DInt 3]; None; Some [DSym "B"; DInt 3]] /\
  map (o_dtype (o_pass_unary g)) [2; 3; 4] = [Some 1%Z; None; None].
Proof. vm_compute. split; reflexivity. Qed.
