(* OrphanPass (C02): faithful model of remove_orphan_transposes_ir and its soundness for all graphs:
   it only ever deletes nodes none of whose outputs is a graph output, read by a node, or captured
   by a nested graph — pure dead-node removal (Graph.remove_node_sound). *)
From Coq Require Import String List Bool Arith Lia.
From J2O Require Import Graph.
Import ListNotations.

Definition mentioned (ns : list node) (outs : list name) (self : node) (v : name) : bool :=
  existsb (Nat.eqb v) outs ||
  existsb (fun m => existsb (Nat.eqb v) (n_ins m) || existsb (Nat.eqb v) (n_caps m)) ns.

(* one sweep: every Transpose none of whose outputs is mentioned anywhere is dropped *)
Definition is_orphan (g : graph) (n : node) : bool :=
  String.eqb (n_op n) "Transpose" && forallb (fun o => negb (mentioned (g_nodes g) (g_outputs g) n o)) (n_outs n).
Definition orphan_sweep (g : graph) : graph := mkGraph (filter (fun n => negb (is_orphan g n)) (g_nodes g)) (g_outputs g).
Fixpoint orphan_pass (fuel : nat) (g : graph) : graph :=
  match fuel with
  | O => g
  | S k => let g' := orphan_sweep g in
           if Nat.eqb (length (g_nodes g')) (length (g_nodes g)) then g else orphan_pass k g'
  end.

Section Sound.
  Variable V : Type.
  Variable veq : V -> V -> Prop.
  Hypothesis veq_refl : forall a, veq a a.
  Hypothesis veq_trans : forall a b c, veq a b -> veq b c -> veq a c.
  Variable sem : string -> list nat -> list V -> option (list V).
  Notation refinesg := (refines V veq sem).

  Lemma refines_refl g e : refinesg g g e.
  Proof. intros o H. exists o. split; auto. clear H. induction o; constructor; auto. Qed.

  Lemma mentioned_false ns outs self v : mentioned ns outs self v = false ->
    ~ In v outs /\ forall m, In m ns -> ~ In v (n_uses m).
  Proof.
    unfold mentioned. intro H. apply orb_false_iff in H as [H1 H2]. split.
    - intro Hin. assert (existsb (Nat.eqb v) outs = true) by (apply existsb_exists; exists v; split; auto; apply Nat.eqb_refl). congruence.
    - intros m Hm Hin. unfold n_uses in Hin.
      assert (existsb (fun m => existsb (Nat.eqb v) (n_ins m) || existsb (Nat.eqb v) (n_caps m)) ns = true).
      { apply existsb_exists. exists m. split; auto. apply orb_true_iff.
        apply in_app_or in Hin as [Hi|Hc]; [left|right]; apply existsb_exists; exists v; split; auto; apply Nat.eqb_refl. }
      congruence.
  Qed.

  (* removing, from a node list, the nodes selected by a predicate that only selects nodes whose outputs nobody
     in the list (nor the graph outputs) mentions *)
  Lemma filter_dead_sound (dead : node -> bool) outs e : forall ns pre,
    (forall n, In n ns -> dead n = true -> forall o, In o (n_outs n) -> ~ In o outs /\ forall m, In m (pre ++ ns) -> ~ In o (n_uses m)) ->
    refinesg (mkGraph (pre ++ ns) outs) (mkGraph (pre ++ filter (fun n => negb (dead n)) ns) outs) e.
  Proof.
    induction ns as [|n r IH]; intros pre Hdead; simpl; [apply refines_refl|].
    destruct (dead n) eqn:Ed; simpl.
    - eapply (refines_trans V veq veq_trans sem).
      + apply (remove_node_sound V veq veq_refl sem pre n r outs e).
        * intros m x Hm Hx Hin. destruct (Hdead n (or_introl eq_refl) Ed x Hin) as [_ Hno].
          apply (Hno m); auto. apply in_or_app. right. now right.
        * intros x Hx Hin. destruct (Hdead n (or_introl eq_refl) Ed x Hin) as [Hno _]. contradiction.
      + apply IH. intros n0 Hn0 Hd0 o Ho. destruct (Hdead n0 (or_intror Hn0) Hd0 o Ho) as [H1 H2]. split; auto.
        intros m Hm. apply H2. apply in_app_or in Hm as [Hm|Hm]; apply in_or_app; [now left | right; now right].
    - replace (pre ++ n :: r) with ((pre ++ [n]) ++ r) by (rewrite <- app_assoc; reflexivity).
      replace (pre ++ n :: filter (fun n0 => negb (dead n0)) r) with ((pre ++ [n]) ++ filter (fun n0 => negb (dead n0)) r)
        by (rewrite <- app_assoc; reflexivity).
      apply IH. intros n0 Hn0 Hd0 o Ho. destruct (Hdead n0 (or_intror Hn0) Hd0 o Ho) as [H1 H2]. split; auto.
      intros m Hm. apply H2. rewrite <- app_assoc in Hm. exact Hm.
  Qed.

  Theorem orphan_sweep_sound g e : refinesg g (orphan_sweep g) e.
  Proof.
    destruct g as [ns outs]. unfold orphan_sweep. simpl.
    change ns with ([] ++ ns) at 1.
    change (filter (fun n => negb (is_orphan (mkGraph ns outs) n)) ns) with ([] ++ filter (fun n => negb (is_orphan (mkGraph ns outs) n)) ns).
    apply filter_dead_sound. intros n Hn Hd o Ho. unfold is_orphan in Hd. simpl in Hd.
    apply andb_prop in Hd as [_ Hd]. rewrite forallb_forall in Hd. specialize (Hd o Ho).
    apply negb_true_iff in Hd. apply mentioned_false in Hd. exact Hd.
  Qed.

  Theorem orphan_pass_sound : forall fuel g e, refinesg g (orphan_pass fuel g) e.
  Proof.
    induction fuel as [|k IH]; simpl; intros g e; [apply refines_refl|].
    destruct (Nat.eqb _ _); [apply refines_refl|].
    eapply (refines_trans V veq veq_trans sem); [apply orphan_sweep_sound | apply IH].
  Qed.
End Sound.

Example orphan_removed :
  g_nodes (orphan_pass 3 (mkGraph [mkNode "Transpose" [1;0] [0] [] [1]; mkNode "Relu" [] [0] [] [2]; mkNode "Transpose" [1;0] [1] [] [3]] [2]))
  = [mkNode "Relu" [] [0] [] [2]].
Proof. reflexivity. Qed.
Example captured_transpose_kept :
  List.length (g_nodes (orphan_pass 3 (mkGraph [mkNode "Transpose" [1;0] [0] [] [1]; mkNode "If" [] [5] [1] [2]] [2]))) = 2.
Proof. reflexivity. Qed.
