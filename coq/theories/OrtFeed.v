(* OrtFeed (C18): the feed construction of jax2onnx.user_interface._build_ort_inputs, the step of
   allclose that decides WHICH caller value reaches WHICH input of the stored model.

     feed = {}; it = iter(xs)
     for meta in session.get_inputs():
         if meta.name in params: feed[meta.name] = coerce(params[meta.name], meta)
         else:                   feed[meta.name] = coerce(next(it), meta)      # StopIteration -> ValueError
     if next(it) succeeds: raise ValueError("Too many positional inputs")

   [route] is that loop with the coercion left out (the coercion `_to_numpy_input` acts per value and is
   tied separately: with `meta.type = None` it is `np.asarray`).  Values are abstract ([V]); `params` is a
   Python dict, modelled as an association list read with first-match lookup (dict keys are unique).
   The feed is returned as the list of assignments in the order they are made; ONNX Runtime input names
   are unique, so the dict the code builds has exactly these entries. *)
From Coq Require Import List String Bool Arith Lia.
Import ListNotations.

Section Feed.
Variable V : Type.

Fixpoint lookup (k : string) (ps : list (string * V)) : option V :=
  match ps with
  | [] => None
  | (k', v) :: r => if String.eqb k k' then Some v else lookup k r
  end.

Definition is_param (ps : list (string * V)) (k : string) : bool :=
  match lookup k ps with Some _ => true | None => false end.

Inductive feed_err := NotEnough (name : string) | TooMany.

Definition consr (e : string * V) (r : list (string * V) + feed_err) : list (string * V) + feed_err :=
  match r with inl f => inl (e :: f) | inr x => inr x end.

Fixpoint route (names : list string) (xs : list V) (ps : list (string * V))
  : list (string * V) + feed_err :=
  match names with
  | [] => match xs with [] => inl [] | _ :: _ => inr TooMany end
  | n :: r =>
      match lookup n ps with
      | Some v => consr (n, v) (route r xs ps)
      | None => match xs with
                | [] => inr (NotEnough n)
                | x :: xs' => consr (n, x) (route r xs' ps)
                end
      end
  end.

(* the model inputs that are NOT bound by a keyword parameter, in model order *)
Definition positional_slots (names : list string) (ps : list (string * V)) : list string :=
  filter (fun n => negb (is_param ps n)) names.

Lemma consr_inl e r f : consr e r = inl f -> exists f', r = inl f' /\ f = e :: f'.
Proof. destruct r as [f'|x]; simpl; intros H; [injection H as <-; eauto | discriminate]. Qed.

(* one feed entry per model input, in model order *)
Lemma route_names names : forall xs ps f, route names xs ps = inl f -> map fst f = names.
Proof.
  induction names as [|n r IH]; intros xs ps f H; simpl in H.
  - destruct xs; [injection H as <-; reflexivity | discriminate].
  - destruct (lookup n ps) as [v|].
    + apply consr_inl in H as (f' & H & ->). simpl. f_equal. eauto.
    + destruct xs as [|x xs']; [discriminate|].
      apply consr_inl in H as (f' & H & ->). simpl. f_equal. eauto.
Qed.

(* every positional value is fed exactly once, in order, to the slots not bound by a parameter *)
Lemma route_positional names : forall xs ps f, route names xs ps = inl f ->
  map snd (filter (fun e => negb (is_param ps (fst e))) f) = xs.
Proof.
  induction names as [|n r IH]; intros xs ps f H; simpl in H.
  - destruct xs; [injection H as <-; reflexivity | discriminate].
  - destruct (lookup n ps) as [v|] eqn:L.
    + apply consr_inl in H as (f' & H & ->). simpl. unfold is_param at 1. rewrite L. simpl. eauto.
    + destruct xs as [|x xs']; [discriminate|].
      apply consr_inl in H as (f' & H & ->). simpl. unfold is_param at 1. rewrite L. simpl.
      f_equal. eauto.
Qed.

(* a slot bound by a parameter receives that parameter's value, whatever the positional list is *)
Lemma route_params names : forall xs ps f, route names xs ps = inl f ->
  forall n v p, In (n, v) f -> lookup n ps = Some p ->
  In (n, p) f.
Proof.
  induction names as [|n0 r IH]; intros xs ps f H n v p Hin L; simpl in H.
  - destruct xs; [injection H as <-; destruct Hin | discriminate].
  - destruct (lookup n0 ps) as [v0|] eqn:L0.
    + apply consr_inl in H as (f' & H & ->). destruct Hin as [E|Hin].
      * injection E as <- <-. left. congruence.
      * right. eauto.
    + destruct xs as [|x xs']; [discriminate|].
      apply consr_inl in H as (f' & H & ->). destruct Hin as [E|Hin].
      * injection E as <- <-. congruence.
      * right. eauto.
Qed.

Lemma route_param_value names : forall xs ps f, route names xs ps = inl f ->
  forall n v, In (n, v) f -> NoDup names -> forall p, lookup n ps = Some p -> v = p.
Proof.
  induction names as [|n0 r IH]; intros xs ps f H n v Hin ND p L; simpl in H.
  - destruct xs; [injection H as <-; destruct Hin | discriminate].
  - inversion ND as [|? ? Hnot ND']; subst.
    destruct (lookup n0 ps) as [v0|] eqn:L0.
    + apply consr_inl in H as (f' & H & ->). destruct Hin as [E|Hin].
      * injection E as <- <-. congruence.
      * eauto.
    + destruct xs as [|x xs']; [discriminate|].
      apply consr_inl in H as (f' & H & ->). destruct Hin as [E|Hin].
      * injection E as <- <-. congruence.
      * eauto.
Qed.

(* the call succeeds exactly when the positional values fill the positional slots *)
Lemma route_succeeds_iff names : forall xs ps,
  (exists f, route names xs ps = inl f) <-> List.length xs = List.length (positional_slots names ps).
Proof.
  unfold positional_slots.
  induction names as [|n r IH]; intros xs ps; simpl.
  - destruct xs; simpl; split; intros H; eauto; try discriminate. destruct H; discriminate.
  - unfold is_param at 1. destruct (lookup n ps) as [v|] eqn:L; simpl.
    + rewrite <- IH. split; intros [f H].
      * apply consr_inl in H as (f' & H & _). eauto.
      * rewrite H. simpl. eauto.
    + destruct xs as [|x xs']; simpl.
      * split; [intros [f H]; discriminate | discriminate].
      * split.
        -- intros [f H]. apply consr_inl in H as (f' & H & _). f_equal. apply IH. eauto.
        -- intros H. injection H as H. apply IH in H as [f H]. rewrite H. simpl. eauto.
Qed.

(* ... and otherwise it raises: too few values name the first unfilled slot, too many are reported *)
Lemma route_too_few names : forall xs ps, List.length xs < List.length (positional_slots names ps) ->
  route names xs ps = inr (NotEnough (nth (List.length xs) (positional_slots names ps) EmptyString)).
Proof.
  unfold positional_slots.
  induction names as [|n r IH]; intros xs ps H; simpl in *.
  - lia.
  - unfold is_param in *. destruct (lookup n ps) as [v|] eqn:L; simpl in *.
    + rewrite IH by exact H. reflexivity.
    + destruct xs as [|x xs']; simpl in *; [reflexivity|].
      rewrite IH by lia. reflexivity.
Qed.

Lemma route_too_many names : forall xs ps, List.length (positional_slots names ps) < List.length xs ->
  route names xs ps = inr TooMany.
Proof.
  unfold positional_slots.
  induction names as [|n r IH]; intros xs ps H; simpl in *.
  - destruct xs; simpl in *; [lia | reflexivity].
  - unfold is_param in *. destruct (lookup n ps) as [v|] eqn:L; simpl in *.
    + rewrite IH by exact H. reflexivity.
    + destruct xs as [|x xs']; simpl in *; [lia|].
      rewrite IH by lia. reflexivity.
Qed.

(* without keyword parameters (the common allclose call): argument i goes to model input i *)
Lemma route_no_params names : forall xs, List.length xs = List.length names ->
  route names xs [] = inl (combine names xs).
Proof.
  induction names as [|n r IH]; intros xs H; destruct xs as [|x xs']; simpl in *; try discriminate.
  - reflexivity.
  - rewrite IH by lia. reflexivity.
Qed.

End Feed.


(* a variant that fills the positional slots from the END of the list (a plausible mis-routing) differs
   from [route] on a concrete call: the tie separates them *)
Example route_order_matters :
  route nat ["a"; "b"; "c"]%string [1; 2] [("b"%string, 9)] = inl [("a"%string, 1); ("b"%string, 9); ("c"%string, 2)].
Proof. reflexivity. Qed.
