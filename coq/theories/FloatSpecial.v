(* FloatSpecial (C01): float kernels that involve no rounding, on the special-value domain.
   A float is NaN, an infinity, a signed zero, or a finite non-zero value; for the order-and-sign kernels below a finite
   non-zero value is fully described by its sign and a positive magnitude rank.  The operators are the ONNX operator
   specifications (Sign maps every zero to +0; Less / Equal are false on NaN; Where selects exactly; Reciprocal of a zero is
   the infinity of the same sign) and the IEEE / XLA functions JAX computes.  Statements: the lowering of jnp.copysign and of
   sign as exported are REFUTED at -0.0, the repaired graphs (.scratch/c01k) are correct on the whole domain. *)
From Coq Require Import Bool PArith Lia.

Inductive fv := NaN | Inf (neg : bool) | Zero (neg : bool) | Fin (neg : bool) (mag : positive).
Definition fneg (x : fv) : fv :=
  match x with NaN => NaN | Inf s => Inf (negb s) | Zero s => Zero (negb s) | Fin s m => Fin (negb s) m end.
Definition fabs (x : fv) : fv := match x with NaN => NaN | Inf _ => Inf false | Zero _ => Zero false | Fin _ m => Fin false m end.
Definition signbit (x : fv) : bool := match x with NaN => false | Inf s | Zero s | Fin s _ => s end.   (* the NaN JAX produces is positive *)
Definition is_zero (x : fv) : bool := match x with Zero _ => true | _ => false end.
Definition lt0 (x : fv) : bool := match x with Inf true | Fin true _ => true | _ => false end.          (* ONNX Less(x, 0) *)
Definition frecip_zero (x : fv) : fv := match x with Zero s => Inf s | _ => x end.                     (* Where(x == 0, 1/x, x) *)
Definition one (s : bool) : fv := Fin s 1%positive.

(* ---- copysign *)
Definition jax_copysign (x y : fv) : fv := if signbit y then fneg (fabs x) else fabs x.
Definition lowered_copysign (x y : fv) : fv := if lt0 y then fneg (fabs x) else fabs x.                 (* Where(y < 0, -|x|, |x|) *)
Definition repaired_copysign (x y : fv) : fv := if lt0 (frecip_zero y) then fneg (fabs x) else fabs x.
Theorem copysign_lowered_refuted : exists x y, lowered_copysign x y <> jax_copysign x y.
Proof. exists (Inf false), (Zero true). discriminate. Qed.
Theorem copysign_lowered_iff x y : lowered_copysign x y = jax_copysign x y <-> (y <> Zero true \/ x = NaN).
Proof.
  split.
  - intro H. destruct y as [|s|[|]|s m]; try (left; discriminate). right. destruct x as [|?|?|? ?]; try reflexivity; discriminate.
  - intros [H| ->]; [|now destruct y as [|[|]|[|]|[|] ?]].
    destruct y as [|[|]|[|]|[|] m]; try reflexivity. contradiction.
Qed.
Theorem copysign_repaired_correct x y : repaired_copysign x y = jax_copysign x y.
Proof. destruct y as [|[|]|[|]|[|] m]; reflexivity. Qed.

(* ---- sign *)
Definition jax_sign (x : fv) : fv := match x with NaN => NaN | Inf s | Fin s _ => one s | Zero s => Zero s end.
Definition onnx_sign (x : fv) : fv := match x with NaN => NaN | Inf s | Fin s _ => one s | Zero _ => Zero false end.
Definition repaired_sign (x : fv) : fv := if negb (is_zero x) then onnx_sign x else x.                  (* Where(x != 0, Sign(x), x) *)
Theorem sign_lowered_refuted : exists x, onnx_sign x <> jax_sign x.
Proof. exists (Zero true). discriminate. Qed.
Theorem sign_lowered_iff x : onnx_sign x = jax_sign x <-> x <> Zero true.
Proof. destruct x as [|?|[|]|? ?]; split; intro H; try reflexivity; try discriminate; try contradiction. Qed.
Theorem sign_repaired_correct x : repaired_sign x = jax_sign x.
Proof. destruct x as [|?|?|? ?]; reflexivity. Qed.

(* ---- maximum / minimum (IEEE 754-2019 maximum: NaN propagates, +0 > -0), relu, clamp with lo > hi *)
Definition fle (x y : fv) : bool :=                          (* x <= y on non-NaN values, -0 below +0 *)
  match x, y with
  | NaN, _ | _, NaN => false
  | Inf true, _ | _, Inf false => true
  | Inf false, _ | _, Inf true => false
  | Zero a, Zero b => implb b a
  | Zero _, Fin s _ => negb s | Fin s _, Zero _ => s
  | Fin true _, Fin false _ => true | Fin false _, Fin true _ => false
  | Fin false m, Fin false n => (m <=? n)%positive | Fin true m, Fin true n => (n <=? m)%positive
  end.
Definition fmax (x y : fv) : fv := match x, y with NaN, _ | _, NaN => NaN | _, _ => if fle x y then y else x end.
Definition fmin (x y : fv) : fv := match x, y with NaN, _ | _, NaN => NaN | _, _ => if fle x y then x else y end.
Theorem max_nan_propagates x : fmax NaN x = NaN /\ fmax x NaN = NaN /\ fmin NaN x = NaN /\ fmin x NaN = NaN.
Proof. destruct x; repeat split. Qed.
Theorem max_signed_zero : fmax (Zero true) (Zero false) = Zero false /\ fmax (Zero false) (Zero true) = Zero false
  /\ fmin (Zero true) (Zero false) = Zero true /\ fmin (Zero false) (Zero true) = Zero true.
Proof. repeat split. Qed.
(* jax.nn.relu = max(x, 0) and ONNX Relu = max(0, x): the same value, including relu(-0.0) = +0 and relu(NaN) = NaN *)
Theorem relu_commutes x : fmax x (Zero false) = fmax (Zero false) x.
Proof. destruct x as [|[|]|[|]|[|] m]; reflexivity. Qed.
(* lax.clamp(lo, x, hi) = min(max(x, lo), hi) is what is exported (Max then Min), also when lo > hi: the result is hi *)
Theorem clamp_lo_gt_hi x : x <> NaN -> fmin (fmax x (one false)) (one true) = one true.
Proof. destruct x as [|[|]|[|]|[|] m]; intro H; try reflexivity; try contradiction; simpl; now destruct (m <=? 1)%positive. Qed.
