(* Allclose (C18): the per-output decision of jax2onnx.user_interface._run_allclose.

   [compare]        faithful executable model of the code AS IT IS NOW, including the
                    `got.astype(expected.dtype)` narrowing cast applied to the ONNX Runtime value
                    before it is compared.
   [compare_fixed]  model of the repaired code (.scratch/c18/fix.diff): dtype kinds must agree,
                    integers are compared exactly as integers, floats with numpy's isclose on the
                    values as produced (numpy promotes, nothing is narrowed).

   Values are exact: finite floats are rationals (every binary float is one), integers are Z.
   numpy evaluates |e-g| <= atol + rtol*|g| in floating point; the model evaluates it over Q.
   Domain of the model: numpy-native element types (bool, (u)int8..64, float16/32/64,
   complex64/128), finite tolerances rtol, atol >= 0.  float -> int casts of NaN/Inf/out-of-range
   values are platform dependent in numpy; the model fixes them to the minimum of the target type
   and the harness never ties such cases. *)
From Coq Require Import ZArith QArith Qabs Reals Qreals List Bool Lia Lra Psatz.
From J2O Require Import PyLib Dtype.
Import ListNotations.
Local Open Scope Z_scope.

(* ------------------------------------------------------------------ values and outputs *)
Inductive xval :=
 | XNaN | XInf (neg : bool) | XFin (q : Q) | XInt (z : Z) | XBool (b : bool)
 | XCx (re im : xval).            (* complex element: components are XNaN / XInf / XFin *)

Record out := { o_dtype : dtype; o_shape : list nat; o_vals : list xval }.
Definition o_class (o : out) : dclass := dtype_class (o_dtype o).

(* how two outputs are compared: numpy kinds b / iu / fc *)
Inductive ckind := KBoolean | KInteger | KFloating | KOtherKind.
Definition kind_of_class (c : dclass) : ckind :=
  match c with CBool => KBoolean | CInt => KInteger | CFloat | CComplex => KFloating | COther => KOtherKind end.
Definition o_kind (o : out) : ckind := kind_of_class (o_class o).
Definition ckind_eqb (a b : ckind) : bool :=
  match a, b with
  | KBoolean, KBoolean | KInteger, KInteger | KFloating, KFloating | KOtherKind, KOtherKind => true
  | _, _ => false
  end.
Lemma ckind_eqb_eq a b : ckind_eqb a b = true -> a = b.
Proof. destruct a, b; simpl; congruence. Qed.

(* np.issubdtype(d, np.floating) or np.issubdtype(d, np.complexfloating) *)
Definition is_floating (d : dtype) : bool :=
  match dtype_class d with CFloat | CComplex => true | _ => false end.

(* ------------------------------------------------------------------ generic list helpers *)
Fixpoint forall2b {A B} (f : A -> B -> bool) (l : list A) (m : list B) : bool :=
  match l, m with
  | [], [] => true
  | x :: l', y :: m' => f x y && forall2b f l' m'
  | _, _ => false
  end.

Lemma forall2b_Forall2 {A B} (f : A -> B -> bool) (P : A -> B -> Prop) :
  (forall x y, f x y = true -> P x y) ->
  forall l m, forall2b f l m = true -> Forall2 P l m.
Proof.
  intros Hf. induction l as [|x l IH]; destruct m as [|y m]; simpl; intro H; try discriminate.
  - constructor.
  - apply andb_prop in H as [H1 H2]. constructor; auto.
Qed.

Definition list_nat_eqb := list_eqb Nat.eqb.
Lemma list_nat_eqb_eq a b : list_nat_eqb a b = true -> a = b.
Proof.
  unfold list_nat_eqb. revert b.
  induction a as [|x r IH]; destruct b as [|y s]; cbn [list_eqb]; intro H;
    try reflexivity; try discriminate.
  apply andb_prop in H as [H1 H2]. apply Nat.eqb_eq in H1. apply IH in H2. congruence.
Qed.

(* ------------------------------------------------------------------ rounding to a binary format *)
(* (precision, exponent of the smallest subnormal, exponent of the largest binade) as in Dtype.float_fmt *)
Definition round_half_even (n d : Z) : Z :=
  let q := n / d in let r := n mod d in
  if 2 * r <? d then q else if d <? 2 * r then q + 1 else if Z.even q then q else q + 1.

Definition pow2 (k : Z) : Z := 2 ^ (Z.max 0 k).

Definition round_fmt (f : Z * Z * Z) (q : Q) : xval :=
  let '(p, emin, emax) := f in
  let n := Qnum q in let d := Zpos (Qden q) in
  if n =? 0 then XFin 0 else
  let a := Z.abs n in
  let l := Z.log2 a - Z.log2 d in
  (* fl = floor (log2 (a/d)) *)
  let fl := if d * pow2 l <=? a * pow2 (- l) then l else l - 1 in
  let e := Z.max emin (fl - p + 1) in
  let m := round_half_even (a * pow2 (- e)) (d * pow2 e) in
  let neg := n <? 0 in
  (* |result| = m * 2^e ; overflow when m * 2^e >= 2^(emax+1) *)
  if pow2 (emax + 1) * pow2 (- e) <=? m * pow2 e then XInf neg
  else XFin (Qred (Qmake ((if neg then -1 else 1) * m * pow2 e) (Z.to_pos (pow2 (- e))))).

Definition f64 : Z * Z * Z := (53, -1074, 1023).

(* ------------------------------------------------------------------ ndarray.astype, elementwise *)
Definition real_nonzero (v : xval) : bool :=
  match v with XFin q => negb (Qeq_bool q 0) | XNaN | XInf _ => true | _ => false end.
Definition b2q (b : bool) : Q := if b then 1%Q else 0%Q.

Definition cast_real (f : Z * Z * Z) (v : xval) : xval :=
  match v with
  | XFin q => round_fmt f q
  | XInt z => round_fmt f (inject_Z z)
  | XBool b => XFin (b2q b)
  | XCx re _ => match re with XFin q => round_fmt f q | _ => re end   (* imaginary part discarded *)
  | _ => v
  end.

Definition qtrunc (q : Q) : Z := Z.quot (Qnum q) (Zpos (Qden q)).
Definition in_intb (sb : bool * Z) (z : Z) : bool := (int_lo sb <=? z) && (z <=? int_hi sb).

Definition cast_int (sb : bool * Z) (v : xval) : xval :=
  match v with
  | XInt z => XInt (wrap sb z)
  | XBool b => XInt (if b then 1 else 0)
  | XFin q => let t := qtrunc q in XInt (if in_intb sb t then t else int_lo sb)   (* out of range: platform dependent *)
  | XCx (XFin q) _ => let t := qtrunc q in XInt (if in_intb sb t then t else int_lo sb)
  | _ => XInt (int_lo sb)                                                          (* NaN / Inf: platform dependent *)
  end.

Definition cast_bool (v : xval) : xval :=
  match v with
  | XBool b => XBool b
  | XInt z => XBool (negb (z =? 0))
  | XCx re im => XBool (real_nonzero re || real_nonzero im)
  | _ => XBool (real_nonzero v)
  end.

Definition cast_cx (f : Z * Z * Z) (v : xval) : xval :=
  match v with
  | XCx re im => XCx (cast_real f re) (cast_real f im)
  | _ => XCx (cast_real f v) (XFin 0)
  end.

(* got.astype(expected.dtype, copy=False): no-op when the dtypes are equal *)
Definition cast_x (from to : dtype) (v : xval) : xval :=
  if dtype_eqb from to then v else
  match to with
  | DT_BOOL => cast_bool v
  | _ => match int_info to with
         | Some sb => cast_int sb v
         | None => match float_fmt to with
                   | Some f => cast_real f v
                   | None => match complex_fmt to with Some f => cast_cx f v | None => v end
                   end
         end
  end.

(* ------------------------------------------------------------------ np.isclose(x, y, rtol, atol, equal_nan=True), one element *)
Definition is_real (v : xval) : bool := match v with XNaN | XInf _ | XFin _ => true | _ => false end.
Definition is_fin (v : xval) : bool := match v with XFin _ => true | _ => false end.
Definition is_nan (v : xval) : bool := match v with XNaN => true | _ => false end.

(* x == y on real floats *)
Definition real_eqb (x y : xval) : bool :=
  match x, y with
  | XFin a, XFin b => Qeq_bool a b
  | XInf s, XInf t => Bool.eqb s t
  | _, _ => false
  end.

Definition close_q (rtol atol e g : Q) : bool := Qle_bool (Qabs (e - g)) (atol + rtol * Qabs g)%Q.

Definition isclose_real (rtol atol : Q) (x y : xval) : bool :=
  match x, y with
  | XFin e, XFin g => close_q rtol atol e g || Qeq_bool e g
  | XNaN, XNaN => true
  | XInf s, XInf t => Bool.eqb s t
  | _, _ => false
  end.

(* complex: |x - y| <= atol + rtol*|y| with the moduli eliminated by squaring (rtol, atol >= 0):
   D = |x-y|^2, G = |y|^2, M = D - atol^2 - rtol^2 G:   M <= 0  \/  M^2 <= 4 atol^2 rtol^2 G *)
Definition sq (q : Q) : Q := (q * q)%Q.
Definition cmod_close (rtol atol D G : Q) : bool :=
  let M := (D - sq atol - sq rtol * G)%Q in
  Qle_bool M 0 || Qle_bool (sq M) (4 * sq atol * sq rtol * G)%Q.

Definition cx_nan (re im : xval) : bool := is_nan re || is_nan im.

Definition isclose_cx (rtol atol : Q) (xr xi yr yi : xval) : bool :=
  match xr, xi, yr, yi with
  | XFin a, XFin b, XFin c, XFin d =>
      cmod_close rtol atol (sq (a - c) + sq (b - d))%Q (sq c + sq d)%Q || (Qeq_bool a c && Qeq_bool b d)
  | _, _, _, _ =>
      (is_real xr && is_real xi && is_real yr && is_real yi) &&
      ((real_eqb xr yr && real_eqb xi yi) || (cx_nan xr xi && cx_nan yr yi))
  end.

(* numpy promotes a real operand to complex when the other one is complex *)
Definition isclose_b (rtol atol : Q) (x y : xval) : bool :=
  match x, y with
  | XCx xr xi, XCx yr yi => isclose_cx rtol atol xr xi yr yi
  | XCx xr xi, _ => is_real y && isclose_cx rtol atol xr xi y (XFin 0)
  | _, XCx yr yi => is_real x && isclose_cx rtol atol x (XFin 0) yr yi
  | _, _ => isclose_real rtol atol x y
  end.

(* exact equality of integers / booleans (np.array_equal on equal non-floating dtypes) *)
Definition exact_eqb (x y : xval) : bool :=
  match x, y with
  | XInt a, XInt b => a =? b
  | XBool a, XBool b => Bool.eqb a b
  | _, _ => false
  end.

(* ------------------------------------------------------------------ the property: "within tolerance" *)
Definition within_real (rtol atol : Q) (e g : xval) : Prop :=
  match e, g with
  | XFin a, XFin b => (Qabs (a - b) <= atol + rtol * Qabs b)%Q
  | XNaN, XNaN => True                  (* equal_nan=True is the helper's declared meaning of NaN *)
  | XInf s, XInf t => s = t
  | _, _ => False
  end.

Definition cmod_within (rtol atol D G : Q) : Prop :=
  let M := (D - sq atol - sq rtol * G)%Q in (M <= 0)%Q \/ (sq M <= 4 * sq atol * sq rtol * G)%Q.

Definition real_same (x y : xval) : Prop :=
  match x, y with
  | XFin a, XFin b => (a == b)%Q
  | XInf s, XInf t => s = t
  | _, _ => False
  end.

Definition within_cx (rtol atol : Q) (er ei gr gi : xval) : Prop :=
  match er, ei, gr, gi with
  | XFin a, XFin b, XFin c, XFin d => cmod_within rtol atol (sq (a - c) + sq (b - d))%Q (sq c + sq d)%Q
  | _, _, _, _ =>
      (is_real er && is_real ei && is_real gr && is_real gi = true) /\
      ((real_same er gr /\ real_same ei gi) \/ (cx_nan er ei = true /\ cx_nan gr gi = true))
  end.

Definition within (rtol atol : Q) (e g : xval) : Prop :=
  match e, g with
  | XInt a, XInt b => a = b
  | XBool a, XBool b => a = b
  | XCx er ei, XCx gr gi => within_cx rtol atol er ei gr gi
  | XCx er ei, (XNaN | XInf _ | XFin _) => within_cx rtol atol er ei g (XFin 0)
  | (XNaN | XInf _ | XFin _), XCx gr gi => within_cx rtol atol e (XFin 0) gr gi
  | (XNaN | XInf _ | XFin _), (XNaN | XInf _ | XFin _) => within_real rtol atol e g
  | _, _ => False
  end.

(* ---- element-level soundness of the decisions *)
Lemma Qabs_zero_of_eq a b : (a == b)%Q -> (Qabs (a - b) == 0)%Q.
Proof. intro H. rewrite H. setoid_replace (b - b)%Q with 0%Q by ring. reflexivity. Qed.

Lemma isclose_real_sound rtol atol x y : (0 <= rtol)%Q -> (0 <= atol)%Q ->
  isclose_real rtol atol x y = true -> within_real rtol atol x y.
Proof.
  intros Hr Ha. destruct x as [|s|a|zx|bx|xr xi]; destruct y as [|t|b|zy|by_|yr yi]; simpl; try discriminate; auto.
  - intro H. now apply eqb_prop.
  - intro H. apply orb_prop in H as [H|H].
    + unfold close_q in H. now apply Qle_bool_iff in H.
    + apply Qeq_bool_iff in H. rewrite (Qabs_zero_of_eq _ _ H).
      pose proof (Qabs_nonneg b) as Hb.
      assert (0 <= rtol * Qabs b)%Q by (apply Qmult_le_0_compat; auto).
      timeout 20 lra.
Qed.

Lemma real_eqb_same x y : real_eqb x y = true -> real_same x y.
Proof.
  destruct x as [|s|a|zx|bx|xr xi]; destruct y as [|t|b|zy|by_|yr yi]; simpl; try discriminate.
  - intro H. now apply eqb_prop.
  - intro H. now apply Qeq_bool_iff.
Qed.

Lemma cmod_close_sound rtol atol D G : cmod_close rtol atol D G = true -> cmod_within rtol atol D G.
Proof.
  unfold cmod_close, cmod_within. intro H. apply orb_prop in H as [H|H]; apply Qle_bool_iff in H; auto.
Qed.

Lemma cmod_within_eq rtol atol a b c d : (0 <= rtol)%Q -> (0 <= atol)%Q -> (a == c)%Q -> (b == d)%Q ->
  cmod_within rtol atol (sq (a - c) + sq (b - d))%Q (sq c + sq d)%Q.
Proof.
  intros Hr Ha E1 E2. left. unfold sq. rewrite E1, E2.
  assert (0 <= atol * atol)%Q by (apply Qmult_le_0_compat; auto).
  assert (0 <= rtol * rtol)%Q by (apply Qmult_le_0_compat; auto).
  assert (0 <= c * c)%Q by (timeout 20 nra). assert (0 <= d * d)%Q by (timeout 20 nra).
  assert (0 <= rtol * rtol * (c * c + d * d))%Q by (apply Qmult_le_0_compat; auto; timeout 20 lra).
  setoid_replace ((c - c) * (c - c) + (d - d) * (d - d))%Q with 0%Q by ring. timeout 20 lra.
Qed.

Lemma isclose_cx_sound rtol atol xr xi yr yi : (0 <= rtol)%Q -> (0 <= atol)%Q ->
  isclose_cx rtol atol xr xi yr yi = true -> within_cx rtol atol xr xi yr yi.
Proof.
  intros Hr Ha H.
  assert (Gen : (is_real xr && is_real xi && is_real yr && is_real yi) &&
                ((real_eqb xr yr && real_eqb xi yi) || (cx_nan xr xi && cx_nan yr yi)) = true ->
                (is_real xr && is_real xi && is_real yr && is_real yi = true) /\
                ((real_same xr yr /\ real_same xi yi) \/ (cx_nan xr xi = true /\ cx_nan yr yi = true))).
  { intro G. apply andb_prop in G as [G1 G2]. split; auto.
    apply orb_prop in G2 as [G2|G2]; apply andb_prop in G2 as [G3 G4].
    - left. split; now apply real_eqb_same.
    - right. auto. }
  destruct xr as [|s1|a|z1|b1|r1 i1]; try (now apply Gen);
  destruct xi as [|s2|b|z2|b2|r2 i2]; try (now apply Gen);
  destruct yr as [|s3|c|z3|b3|r3 i3]; try (now apply Gen);
  destruct yi as [|s4|d|z4|b4|r4 i4]; try (now apply Gen).
  simpl in H |- *. apply orb_prop in H as [H|H].
  - now apply cmod_close_sound.
  - apply andb_prop in H as [H1 H2]. apply Qeq_bool_iff in H1, H2. now apply cmod_within_eq.
Qed.

Lemma isclose_b_sound rtol atol x y : (0 <= rtol)%Q -> (0 <= atol)%Q ->
  isclose_b rtol atol x y = true -> within rtol atol x y.
Proof.
  intros Hr Ha.
  destruct x as [|s|a|z|bx|xr xi]; destruct y as [|t|c|w|by_|yr yi];
    cbn [isclose_b within is_real andb]; try discriminate;
    try (intro H; exact (isclose_real_sound rtol atol _ _ Hr Ha H));
    try (intro H; exact (isclose_cx_sound rtol atol _ _ _ _ Hr Ha H));
    try (cbn [isclose_real]; discriminate).
Qed.

Lemma exact_eqb_sound rtol atol x y : exact_eqb x y = true -> within rtol atol x y.
Proof.
  destruct x; destruct y; simpl; try discriminate; intro H.
  - now apply Z.eqb_eq. - now apply eqb_prop.
Qed.

(* exact_eqb only relates integers with integers and booleans with booleans *)
Definition is_exact (v : xval) : bool := match v with XInt _ | XBool _ => true | _ => false end.

(* ------------------------------------------------------------------ layout normalisations *)
(* ORT value in NCHW, JAX value in NHWC: np.transpose(got, [0, 2, 3, 1]) on the row-major values *)
Definition nchw_to_nhwc_vals {A} (d : A) (N C H W : nat) (v : list A) : list A :=
  flat_map (fun n => flat_map (fun h => flat_map (fun w =>
    map (fun c => nth (((n * C + c) * H + h) * W + w)%nat v d) (seq 0 C)) (seq 0 W)) (seq 0 H)) (seq 0 N).

Definition nchw_back (g : out) : out :=
  match o_shape g with
  | [N; C; H; W] => {| o_dtype := o_dtype g; o_shape := [N; H; W; C];
                      o_vals := nchw_to_nhwc_vals XNaN N C H W (o_vals g) |}
  | _ => g                                 (* if got_arr.ndim == 4 *)
  end.

(* complex outputs are exported as real tensors with a trailing axis of size 2 *)
Fixpoint pair_up (l : list xval) : list xval :=
  match l with
  | re :: im :: r =>
      (* got[..., 0] + 1j * got[..., 1]: (0+1j)*(im+0j) has real part 0*im - 1*0, NaN for non-finite im *)
      (if is_fin im then XCx re im else XCx XNaN im) :: pair_up r
  | _ => []
  end.

Definition complex_of_float (d : dtype) : dtype :=
  match d with DT_DOUBLE => DT_COMPLEX128 | _ => DT_COMPLEX64 end.

Definition repack_applies (e g : out) : bool :=
  match o_class e, o_class g with
  | CComplex, CFloat => list_nat_eqb (o_shape g) (o_shape e ++ [2%nat])
  | _, _ => false
  end.

Definition repack (e g : out) : out :=
  if repack_applies e g
  then {| o_dtype := complex_of_float (o_dtype g); o_shape := o_shape e; o_vals := pair_up (o_vals g) |}
  else g.

(* the ORT value as it is compared: user-requested NCHW back-transpose, then complex re-packing.
   No value is changed by either step. *)
Definition normalize1 (flag : bool) (e g : out) : out :=
  repack e (if flag then nchw_back g else g).

Definition flagged (nchw : list nat) (i : nat) : bool := existsb (Nat.eqb i) nchw.

Fixpoint normalize_from (i : nat) (nchw : list nat) (expected got : list out) : list out :=
  match expected, got with
  | e :: es, g :: gs => normalize1 (flagged nchw i) e g :: normalize_from (S i) nchw es gs
  | _, _ => []
  end.
Definition normalize := normalize_from 0.

(* ------------------------------------------------------------------ the CURRENT code *)
(* inside np.isclose an integer / boolean y is converted to float64 and x follows in x - y *)
Definition to_f64 (v : xval) : xval :=
  match v with XInt z => round_fmt f64 (inject_Z z) | XBool b => XFin (b2q b) | _ => v end.

Definition compare_one (rtol atol : Q) (flag : bool) (e g : out) : bool :=
  let g' := normalize1 flag e g in
  list_nat_eqb (o_shape e) (o_shape g') &&
  (let gv := map (cast_x (o_dtype g') (o_dtype e)) (o_vals g') in      (* got.astype(expected.dtype) *)
   if is_floating (o_dtype e) || is_floating (o_dtype g')
   then forall2b (fun x y => isclose_b rtol atol (to_f64 x) (to_f64 y)) (o_vals e) gv
   else forall2b exact_eqb (o_vals e) gv).

Fixpoint compare_from (one : bool -> out -> out -> bool) (i : nat) (nchw : list nat)
                      (expected got : list out) : bool :=
  match expected, got with
  | [], [] => true
  | e :: es, g :: gs => one (flagged nchw i) e g && compare_from one (S i) nchw es gs
  | _, _ => false
  end.

Definition compare (rtol atol : Q) (nchw : list nat) (expected got : list out) : bool :=
  Nat.eqb (length expected) (length got) && compare_from (compare_one rtol atol) 0 nchw expected got.

(* ------------------------------------------------------------------ the REPAIRED code *)
Definition compare_one_fixed (rtol atol : Q) (flag : bool) (e g : out) : bool :=
  let g' := normalize1 flag e g in
  list_nat_eqb (o_shape e) (o_shape g') &&
  ckind_eqb (o_kind e) (o_kind g') &&
  match o_kind e with
  | KFloating => forall2b (isclose_b rtol atol) (o_vals e) (o_vals g')
  | _ => forall2b exact_eqb (o_vals e) (o_vals g')
  end.

Definition compare_fixed (rtol atol : Q) (nchw : list nat) (expected got : list out) : bool :=
  Nat.eqb (length expected) (length got) && compare_from (compare_one_fixed rtol atol) 0 nchw expected got.

(* ------------------------------------------------------------------ the property *)
Definition output_ok (rtol atol : Q) (e g : out) : Prop :=
  o_shape e = o_shape g /\ o_kind e = o_kind g /\ Forall2 (within rtol atol) (o_vals e) (o_vals g).

Definition sound (cmp : Q -> Q -> list nat -> list out -> list out -> bool) : Prop :=
  forall rtol atol nchw expected got, (0 <= rtol)%Q -> (0 <= atol)%Q ->
    cmp rtol atol nchw expected got = true ->
    length expected = length got /\
    Forall2 (output_ok rtol atol) expected (normalize nchw expected got).

Lemma compare_from_sound (one : bool -> out -> out -> bool) (P : out -> out -> Prop) :
  (forall flag e g, one flag e g = true -> P e (normalize1 flag e g)) ->
  forall nchw expected got i, compare_from one i nchw expected got = true ->
    Forall2 P expected (normalize_from i nchw expected got).
Proof.
  intros Hone nchw. induction expected as [|e es IH]; destruct got as [|g gs]; simpl; intros i H;
    try discriminate; [constructor|].
  apply andb_prop in H as [H1 H2]. constructor; auto.
Qed.

(* ---- FULL soundness of the repaired comparison *)
Lemma compare_one_fixed_sound rtol atol flag e g : (0 <= rtol)%Q -> (0 <= atol)%Q ->
  compare_one_fixed rtol atol flag e g = true -> output_ok rtol atol e (normalize1 flag e g).
Proof.
  intros Hr Ha. unfold compare_one_fixed. set (g' := normalize1 flag e g). intro H.
  apply andb_prop in H as [H H3]. apply andb_prop in H as [H1 H2].
  apply list_nat_eqb_eq in H1. apply ckind_eqb_eq in H2.
  split; [exact H1|]. split; [exact H2|].
  destruct (o_kind e).
  - eapply forall2b_Forall2; [|exact H3]. intros; now apply exact_eqb_sound.
  - eapply forall2b_Forall2; [|exact H3]. intros; now apply exact_eqb_sound.
  - eapply forall2b_Forall2; [|exact H3]. intros; now apply isclose_b_sound.
  - eapply forall2b_Forall2; [|exact H3]. intros; now apply exact_eqb_sound.
Qed.

Theorem allclose_sound_fixed : sound compare_fixed.
Proof.
  intros rtol atol nchw expected got Hr Ha H. unfold compare_fixed in H.
  apply andb_prop in H as [H1 H2]. apply Nat.eqb_eq in H1. split; [exact H1|].
  unfold normalize. eapply compare_from_sound; [|exact H2].
  intros flag e g. now apply compare_one_fixed_sound.
Qed.

(* read the other way round: a different output count, a different shape, a different dtype kind or
   one element beyond tolerance is always reported as a mismatch *)
Corollary fixed_reports_every_mismatch rtol atol nchw expected got : (0 <= rtol)%Q -> (0 <= atol)%Q ->
  ~ (length expected = length got /\
     Forall2 (output_ok rtol atol) expected (normalize nchw expected got)) ->
  compare_fixed rtol atol nchw expected got = false.
Proof.
  intros Hr Ha Hn. destruct (compare_fixed rtol atol nchw expected got) eqn:E; [|reflexivity].
  exfalso. apply Hn. now apply allclose_sound_fixed.
Qed.

(* ---- the CURRENT code: refuted *)
Definition mk (d : dtype) (s : list nat) (v : list xval) : out := {| o_dtype := d; o_shape := s; o_vals := v |}.

(* (i) fn returns int32 ones, the model returns float32 1.5 *)
Definition w1_expected := [mk DT_INT32 [3%nat] [XInt 1; XInt 1; XInt 1]].
Definition w1_got := [mk DT_FLOAT [3%nat] [XFin (3 # 2)%Q; XFin (3 # 2)%Q; XFin (3 # 2)%Q]].
(* (ii) fn returns int32 5, the model returns int64 2^32 + 5 *)
Definition w2_expected := [mk DT_INT32 [1%nat] [XInt 5]].
Definition w2_got := [mk DT_INT64 [1%nat] [XInt (2 ^ 32 + 5)]].

Definition default_rtol : Q := (1 # 1000)%Q.
Definition default_atol : Q := (1 # 100000)%Q.

Lemma w1_accepted : compare default_rtol default_atol [] w1_expected w1_got = true.
Proof. vm_compute. reflexivity. Qed.
Lemma w2_accepted : compare default_rtol default_atol [] w2_expected w2_got = true.
Proof. vm_compute. reflexivity. Qed.
Lemma w1_rejected_fixed : compare_fixed default_rtol default_atol [] w1_expected w1_got = false.
Proof. vm_compute. reflexivity. Qed.
Lemma w2_rejected_fixed : compare_fixed default_rtol default_atol [] w2_expected w2_got = false.
Proof. vm_compute. reflexivity. Qed.

Lemma w1_not_ok : ~ Forall2 (output_ok default_rtol default_atol) w1_expected (normalize [] w1_expected w1_got).
Proof.
  intro H. inversion H as [|? ? ? ? Hok _]; subst. destruct Hok as (_ & Hk & _). discriminate Hk.
Qed.

Lemma w2_not_ok : ~ Forall2 (output_ok default_rtol default_atol) w2_expected (normalize [] w2_expected w2_got).
Proof.
  intro H. inversion H as [|? ? ? ? Hok _]; subst. destruct Hok as (_ & _ & Hv).
  inversion Hv as [|? ? ? ? Hw _]; subst. simpl in Hw. vm_compute in Hw. discriminate Hw.
Qed.

Theorem allclose_sound_refuted :
  exists rtol atol nchw expected got, (0 <= rtol)%Q /\ (0 <= atol)%Q /\
    compare rtol atol nchw expected got = true /\
    ~ (length expected = length got /\
       Forall2 (output_ok rtol atol) expected (normalize nchw expected got)).
Proof.
  exists default_rtol, default_atol, [], w1_expected, w1_got.
  split; [vm_compute; discriminate|]. split; [vm_compute; discriminate|].
  split; [exact w1_accepted|]. intros [_ H]. exact (w1_not_ok H).
Qed.

Theorem allclose_sound_refuted_int_wrap :
  exists rtol atol nchw expected got, (0 <= rtol)%Q /\ (0 <= atol)%Q /\
    compare rtol atol nchw expected got = true /\
    Forall2 (fun e g => o_kind e = o_kind g) expected (normalize nchw expected got) /\
    ~ Forall2 (output_ok rtol atol) expected (normalize nchw expected got).
Proof.
  exists default_rtol, default_atol, [], w2_expected, w2_got.
  split; [vm_compute; discriminate|]. split; [vm_compute; discriminate|].
  split; [exact w2_accepted|]. split; [repeat constructor|exact w2_not_ok].
Qed.

Corollary compare_not_sound : ~ sound compare.
Proof.
  intro S. destruct (S default_rtol default_atol [] w1_expected w1_got) as [_ H];
    [vm_compute; discriminate | vm_compute; discriminate | exact w1_accepted | exact (w1_not_ok H)].
Qed.

(* ---- the CURRENT code: sound exactly when the cast changes nothing *)
(* the narrowing cast leaves every value of the (normalised) ORT output unchanged, and the dtype kinds agree *)
Definition cast_harmless (e g' : out) : Prop :=
  o_kind e = o_kind g' /\ map (cast_x (o_dtype g') (o_dtype e)) (o_vals g') = o_vals g'.

Lemma to_f64_real v : is_exact v = false -> to_f64 v = v.
Proof. destruct v; simpl; try reflexivity; discriminate. Qed.

Lemma kind_floating_iff (o : out) : is_floating (o_dtype o) = true <-> o_kind o = KFloating.
Proof.
  unfold is_floating, o_kind, o_class, kind_of_class. destruct (dtype_class (o_dtype o)); split; congruence.
Qed.

(* isclose on values of which one is an integer / a boolean (after to_f64, a float) is only reachable
   when the kinds differ; with equal floating kinds we need the values themselves to be floats. *)
Lemma isclose_to_f64_sound rtol atol x y : (0 <= rtol)%Q -> (0 <= atol)%Q ->
  is_exact x = false -> is_exact y = false ->
  isclose_b rtol atol (to_f64 x) (to_f64 y) = true -> within rtol atol x y.
Proof. intros Hr Ha Hx Hy. rewrite !to_f64_real by assumption. now apply isclose_b_sound. Qed.

(* well-formed floating output: no integer / boolean element *)
Definition floats_only (o : out) : Prop := Forall (fun v => is_exact v = false) (o_vals o).

Lemma forall2b_isclose_f64 rtol atol : (0 <= rtol)%Q -> (0 <= atol)%Q ->
  forall l m, Forall (fun v => is_exact v = false) l -> Forall (fun v => is_exact v = false) m ->
  forall2b (fun x y => isclose_b rtol atol (to_f64 x) (to_f64 y)) l m = true ->
  Forall2 (within rtol atol) l m.
Proof.
  intros Hr Ha. induction l as [|x l IH]; destruct m as [|y m]; simpl; intros Hl Hm H; try discriminate.
  - constructor.
  - apply andb_prop in H as [H1 H2]. inversion Hl; subst. inversion Hm; subst.
    constructor; auto. now apply isclose_to_f64_sound.
Qed.

Lemma compare_one_partial rtol atol flag e g : (0 <= rtol)%Q -> (0 <= atol)%Q ->
  cast_harmless e (normalize1 flag e g) ->
  (o_kind e = KFloating -> floats_only e /\ floats_only (normalize1 flag e g)) ->
  compare_one rtol atol flag e g = true -> output_ok rtol atol e (normalize1 flag e g).
Proof.
  intros Hr Ha [Hk Hc] Hwf. unfold compare_one. set (g' := normalize1 flag e g) in *. intro H.
  apply andb_prop in H as [H1 H2]. apply list_nat_eqb_eq in H1.
  split; [exact H1|]. split; [exact Hk|].
  rewrite Hc in H2.
  destruct (is_floating (o_dtype e) || is_floating (o_dtype g')) eqn:Ef.
  - assert (Kf : o_kind e = KFloating).
    { apply orb_prop in Ef as [Ef|Ef]; apply kind_floating_iff in Ef; congruence. }
    destruct (Hwf Kf) as [We Wg]. eapply forall2b_isclose_f64; eauto.
  - eapply forall2b_Forall2; [|exact H2]. intros; now apply exact_eqb_sound.
Qed.

Theorem allclose_sound_partial rtol atol nchw expected got : (0 <= rtol)%Q -> (0 <= atol)%Q ->
  Forall2 (fun e g' => cast_harmless e g' /\ (o_kind e = KFloating -> floats_only e /\ floats_only g'))
          expected (normalize nchw expected got) ->
  compare rtol atol nchw expected got = true ->
  length expected = length got /\ Forall2 (output_ok rtol atol) expected (normalize nchw expected got).
Proof.
  intros Hr Ha Hh H. unfold compare in H. apply andb_prop in H as [H1 H2].
  apply Nat.eqb_eq in H1. split; [exact H1|]. clear H1.
  unfold normalize in *. revert Hh H2. generalize 0%nat.
  revert got. induction expected as [|e es IH]; destruct got as [|g gs]; simpl; intros i Hh H;
    try discriminate; [constructor|].
  apply andb_prop in H as [H1 H2]. inversion Hh as [|? ? ? ? [Hc Hw] Hrest]; subst.
  constructor; [|now apply IH]. now apply compare_one_partial.
Qed.

(* concrete sufficient conditions for [cast_harmless] *)
Lemma cast_same_dtype d l : map (cast_x d d) l = l.
Proof.
  induction l as [|v l IH]; simpl; [reflexivity|]. rewrite IH. unfold cast_x.
  now rewrite (proj2 (dtype_eqb_eq d d) eq_refl).
Qed.

Lemma cast_int_fits from to sb l : int_info to = Some sb -> 0 < snd sb ->
  Forall (fun v => exists z, v = XInt z /\ in_int sb z) l -> map (cast_x from to) l = l.
Proof.
  intros Hi Hb. induction 1 as [|v l [z [-> Hz]] _ IH]; simpl; [reflexivity|]. rewrite IH. f_equal.
  unfold cast_x. destruct (dtype_eqb from to); [reflexivity|].
  assert (Hnb : to <> DT_BOOL) by (intro E; subst; discriminate).
  destruct to; try contradiction; try discriminate; rewrite Hi; simpl; now rewrite wrap_id.
Qed.

(* same dtype: the comparison of the current code is already sound *)
Corollary harmless_same_dtype e g' : o_dtype g' = o_dtype e -> cast_harmless e g'.
Proof.
  intro E. split.
  - unfold o_kind, o_class. now rewrite E.
  - rewrite E. apply cast_same_dtype.
Qed.

(* integer ORT output whose values fit the integer type fn returned (e.g. int64 from ONNX vs the
   int32 JAX yields with x64 disabled): sound as well *)
Corollary harmless_int_fits e g' sb : int_info (o_dtype e) = Some sb -> 0 < snd sb ->
  o_kind g' = KInteger ->
  Forall (fun v => exists z, v = XInt z /\ in_int sb z) (o_vals g') -> cast_harmless e g'.
Proof.
  intros Hi Hb Hk Hv. split.
  - rewrite Hk. unfold o_kind, o_class. destruct (o_dtype e); try discriminate; reflexivity.
  - eapply cast_int_fits; eauto.
Qed.

(* non-vacuity of the partial theorem: int64 7 against int32 7, float32 against float32 *)
Example partial_nonvacuous :
  let e := [mk DT_INT32 [1%nat] [XInt 7]; mk DT_FLOAT [2%nat] [XFin (1 # 2)%Q; XNaN]] in
  let g := [mk DT_INT64 [1%nat] [XInt 7]; mk DT_FLOAT [2%nat] [XFin (1 # 2)%Q; XNaN]] in
  compare default_rtol default_atol [] e g = true /\
  Forall2 (fun e g' => cast_harmless e g' /\ (o_kind e = KFloating -> floats_only e /\ floats_only g'))
          e (normalize [] e g).
Proof.
  split; [vm_compute; reflexivity|].
  constructor; [|constructor; [|constructor]].
  - split; [split; reflexivity|]. intro K; discriminate K.
  - split; [split; reflexivity|]. intros _. split; repeat constructor.
Qed.

(* ------------------------------------------------------------------ tolerance test: link to the modulus *)
(* for real operands [within] is literally |e-g| <= atol + rtol |g|; for complex operands the squared
   form implies the same inequality on the complex moduli |e-g| = sqrt D, |g| = sqrt G (over R):
     D <= (atol + rtol sqrt G)^2  <->  M <= 2 atol rtol sqrt G  <->  M <= 0 \/ M^2 <= 4 atol^2 rtol^2 G *)
Section Modulus.
Local Open Scope R_scope.
Lemma cmod_real (r a D g s : R) : 0 <= r -> 0 <= a -> 0 <= s -> s * s = g ->
  (D - a * a - r * r * g <= 0 \/
   (D - a * a - r * r * g) * (D - a * a - r * r * g) <= 4 * (a * a) * (r * r) * g) ->
  D <= (a + r * s) * (a + r * s).
Proof.
  intros Hr Ha Hs Hg [H|H]; subst g.
  - assert (0 <= a * r * s) by (repeat apply Rmult_le_pos; auto). timeout 20 nra.
  - assert (Hp : 0 <= a * r * s) by (repeat apply Rmult_le_pos; auto).
    set (M := D - a * a - r * r * (s * s)) in *.
    assert (HM : M <= 2 * (a * r * s)).
    { destruct (Rle_lt_dec M (2 * (a * r * s))) as [|Hlt]; [assumption|]. exfalso.
      assert (M * M <= (2 * (a * r * s)) * (2 * (a * r * s))) by (timeout 20 nra).
      timeout 20 nra. }
    unfold M in HM. timeout 20 nra.
Qed.

Lemma sqrt_le_of_sq (D T : R) : 0 <= T -> D <= T * T -> sqrt D <= T.
Proof.
  intros HT H. rewrite <- (sqrt_square T) by assumption. now apply sqrt_le_1_alt.
Qed.

Theorem cmod_within_modulus (rtol atol D G : Q) :
  (0 <= rtol)%Q -> (0 <= atol)%Q -> (0 <= G)%Q -> cmod_within rtol atol D G ->
  sqrt (Q2R D) <= Q2R atol + Q2R rtol * sqrt (Q2R G).
Proof.
  intros Hr Ha HG H.
  apply Qle_Rle in Hr, Ha, HG. change (Q2R 0) with (Q2R (0 # 1)) in *.
  replace (Q2R (0 # 1)) with 0 in * by (unfold Q2R; simpl; timeout 20 lra).
  pose proof (sqrt_pos (Q2R G)) as Hs. pose proof (sqrt_sqrt _ HG) as Hss.
  apply sqrt_le_of_sq.
  - assert (0 <= Q2R rtol * sqrt (Q2R G)) by (apply Rmult_le_pos; auto). timeout 20 lra.
  - apply cmod_real with (g := Q2R G); auto.
    unfold cmod_within, sq in H.
    destruct H as [H|H]; apply Qle_Rle in H; [left|right];
      repeat (rewrite ?Q2R_minus, ?Q2R_mult, ?Q2R_plus in H);
      replace (Q2R 0) with 0 in H by (unfold Q2R; simpl; timeout 20 lra);
      try replace (Q2R 4) with 4 in H by (unfold Q2R; simpl; timeout 20 lra); timeout 20 lra.
Qed.
End Modulus.

(* ------------------------------------------------------------------ _temporary_x64 *)
(* @contextmanager
   def _temporary_x64(enabled):
       prev = flag
       try:
           if enabled != prev: flag = enabled
           yield
       finally:
           if flag != prev: flag = prev                                             *)
Inductive exit_kind := ExitNormal | ExitRaise.

(* the body runs with some flag value and may leave ANY flag value behind, normally or by raising *)
Definition temporary_x64 (enabled prev : bool) (body : bool -> bool * exit_kind) : bool * exit_kind :=
  let entered := if Bool.eqb enabled prev then prev else enabled in
  let '(after_body, ex) := body entered in
  let restored := if Bool.eqb after_body prev then after_body else prev in
  (restored, ex).

Theorem x64_flag_restored enabled prev body :
  fst (temporary_x64 enabled prev body) = prev.
Proof.
  unfold temporary_x64. destruct (body _) as [a ex]. simpl.
  destruct (Bool.eqb a prev) eqn:E; [now apply eqb_prop in E|reflexivity].
Qed.

Theorem x64_body_sees_requested enabled prev body :
  exists a, body enabled = (a, snd (temporary_x64 enabled prev body)).
Proof.
  unfold temporary_x64.
  assert (E : (if Bool.eqb enabled prev then prev else enabled) = enabled).
  { destruct (Bool.eqb enabled prev) eqn:E; [symmetry; now apply eqb_prop in E|reflexivity]. }
  rewrite E. destruct (body enabled) as [a ex]. now exists a.
Qed.

(* allclose = _validation_inputs_to_arrays (does not touch the flag) ; with _temporary_x64(...): body *)
Corollary allclose_leaves_flag enabled body :
  forall prev, fst (temporary_x64 enabled prev body) = prev.
Proof. intro prev. apply x64_flag_restored. Qed.
