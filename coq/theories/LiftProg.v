(* LiftProg (C01): the program-level corollary of the exact kernels through the glue theorem
   LoweringSem.lower_jaxpr_correct.
     values      finite tensors in canonical form (shape + the elements in index order), so that equal tensors
                 are equal terms (LoweringSem relates graph values and JAX values by equality);
     kgsem       tensor-level ONNX semantics of the operator occurrences of Lift.oop (elementwise with
                 multidirectional broadcasting), keyed by operator name + attribute payload as Graph.v wants it;
     kpsem       tensor-level JAX semantics of a table of exact kernels: the elementwise kernel function over the
                 broadcast operands, defined exactly on the in-domain inputs;
     kreg        the plugin model of an exact kernel: materialise literals, emit the kernel's operator graph on fresh
                 names, bind the result;
     kreg_contract : every such registry meets LoweringSem.eqn_contract, hence
     exact_fragment_correct : EVERY jaxpr over the table (any length, any wiring, literals and drop-vars) lowers to a
                 graph that computes the JAX value of every bound variable, on all in-domain inputs. *)
From Coq Require Import String List Bool Arith Lia ZArith PeanoNat.
From J2O Require Import PyLib Dtype Tensor Batch Graph Lowering LoweringSem OnnxInt Kernels Lift.
Import ListNotations.

(* ================================================================ canonical finite tensors *)
Record cten := mkC { c_shape : list nat; c_data : list sval }.
Definition tcanon (X : tensor sval) : cten := mkC (shape X) (map (at_ X) (all_idx (shape X))).
Fixpoint assoc (idx : list nat) (l : list (list nat * sval)) : sval :=
  match l with [] => sv0 | (k, v) :: r => if nat_list_eqb k idx then v else assoc idx r end.
Definition decanon (c : cten) : tensor sval :=
  mkT (c_shape c) (fun idx => assoc idx (combine (all_idx (c_shape c)) (c_data c))).

Lemma all_idx_sound : forall s idx, In idx (all_idx s) -> in_range s idx.
Proof.
  induction s as [|d s IH]; simpl; intros idx H.
  - destruct H as [<-|[]]. constructor.
  - apply in_flat_map in H as (i & Hi & H). apply in_map_iff in H as (r & <- & Hr).
    apply in_seq in Hi. constructor; [lia | now apply IH].
Qed.
Lemma assoc_combine_map (f : list nat -> sval) : forall l k, In k l -> assoc k (combine l (map f l)) = f k.
Proof.
  induction l as [|k0 l IH]; simpl; intros k H; [contradiction|].
  destruct (nat_list_eqb k0 k) eqn:E; [apply nat_list_eqb_eq in E; now subst|].
  destruct H as [->|H]; [rewrite nat_list_eqb_refl in E; discriminate | now apply IH].
Qed.
Lemma decanon_canon X : teq (decanon (tcanon X)) X.
Proof.
  split; [reflexivity|]. intros idx Hi. simpl in *.
  apply assoc_combine_map. now apply all_idx_complete.
Qed.
Lemma canon_teq X Y : teq X Y -> tcanon X = tcanon Y.
Proof.
  intros [Hs H]. unfold tcanon. rewrite <- Hs. f_equal. apply map_ext_in. intros idx Hi. apply H. now apply all_idx_sound.
Qed.
Lemma shape_decanon c : shape (decanon c) = c_shape c. Proof. reflexivity. Qed.

(* decidable "for all in-range indices" *)
Definition tforallb (sh : list nat) (p : list nat -> bool) : bool := forallb p (all_idx sh).
Lemma tforallb_spec sh p : tforallb sh p = true -> forall idx, in_range sh idx -> p idx = true.
Proof. unfold tforallb. rewrite forallb_forall. intros H idx Hi. apply H. now apply all_idx_complete. Qed.

(* decidable broadcast order *)
Definition dsubb (a b : nat) : bool := (a =? 1) || (a =? b).
Definition bsubb (s t : list nat) : bool := (length s <=? length t) && forallb2 dsubb s (lastn (length s) t).
Lemma forallb2_Forall2 {A B} (f : A -> B -> bool) (R : A -> B -> Prop) (Hf : forall a b, f a b = true -> R a b) :
  forall l m, forallb2 f l m = true -> Forall2 R l m.
Proof.
  induction l as [|a l IH]; intros [|b m] H; simpl in H; try discriminate; constructor.
  - apply andb_prop in H as [H _]. auto.
  - apply andb_prop in H as [_ H]. auto.
Qed.
Lemma bsubb_spec s t : bsubb s t = true -> bsub s t.
Proof.
  unfold bsubb. intro H. apply andb_prop in H as [H1 H2]. apply Nat.leb_le in H1. split; [exact H1|].
  apply (forallb2_Forall2 dsubb dsub); [|exact H2].
  intros a b Hab. unfold dsubb in Hab. apply orb_prop in Hab as [E|E]; apply Nat.eqb_eq in E; [now left | now right].
Qed.
Definition commonb (shapes : list (list nat)) : bool := forallb (fun s => bsubb s (bshape_all shapes)) shapes.
Lemma commonb_spec shapes : commonb shapes = true -> bcommon shapes (bshape_all shapes).
Proof.
  unfold commonb, bcommon. rewrite forallb_forall. intro H. apply Forall_forall. intros s Hs. apply bsubb_spec. now apply H.
Qed.

(* ================================================================ operator occurrences as node payloads *)
Local Open Scope Z_scope.
Definition enc_sb (sb : ity) : list nat := [if fst sb then 1%nat else 0%nat; Z.to_nat (snd sb)].
Definition dec_sb (s b : nat) : ity := (Nat.eqb s 1, Z.of_nat b).
Definition with_sb (c : ity -> oop) : list nat -> option oop :=
  fun a => match a with [s; b] => Some (c (dec_sb s b)) | _ => None end.
Definition no_sb (o : oop) : list nat -> option oop := fun a => match a with [] => Some o | _ => None end.
Definition dec_table : list (list nat -> option oop) :=
  [with_sb ONeg; with_sb OAbs; with_sb OSign; with_sb OBitNot; no_sb ONot; with_sb OCast; no_sb OCastToBool;
   with_sb OCastOfBool; no_sb OCastFloat; no_sb ORound; no_sb OFloor; no_sb OCeil; no_sb OAbsF; no_sb OSignF; no_sb OIdentity;
   with_sb OAdd; with_sb OSub; with_sb OMul; with_sb ODiv; with_sb OPow; no_sb OMax; no_sb OMin; no_sb OAnd; no_sb OOr; no_sb OXor;
   with_sb OBitAnd; with_sb OBitOr; with_sb OBitXor; with_sb OShl; with_sb OShr;
   no_sb OEqual; no_sb OLess; no_sb OLessEq; no_sb OGreater; no_sb OGreaterEq; no_sb OEqualB;
   no_sb OSubF; no_sb OEqualF; no_sb OAddF; no_sb OMulF; no_sb OWhere; no_sb OWhereB; no_sb ORelu; no_sb OClip].
Definition enc_op (o : oop) : list nat :=
  match o with
  | ONeg sb => 0%nat :: enc_sb sb | OAbs sb => 1%nat :: enc_sb sb | OSign sb => 2%nat :: enc_sb sb | OBitNot sb => 3%nat :: enc_sb sb
  | ONot => [4%nat] | OCast t => 5%nat :: enc_sb t | OCastToBool => [6%nat] | OCastOfBool t => 7%nat :: enc_sb t
  | OCastFloat => [8%nat] | ORound => [9%nat] | OFloor => [10%nat] | OCeil => [11%nat] | OAbsF => [12%nat] | OSignF => [13%nat]
  | OIdentity => [14%nat]
  | OAdd sb => 15%nat :: enc_sb sb | OSub sb => 16%nat :: enc_sb sb | OMul sb => 17%nat :: enc_sb sb | ODiv sb => 18%nat :: enc_sb sb
  | OPow sb => 19%nat :: enc_sb sb | OMax => [20%nat] | OMin => [21%nat] | OAnd => [22%nat] | OOr => [23%nat] | OXor => [24%nat]
  | OBitAnd sb => 25%nat :: enc_sb sb | OBitOr sb => 26%nat :: enc_sb sb | OBitXor sb => 27%nat :: enc_sb sb
  | OShl sb => 28%nat :: enc_sb sb | OShr sb => 29%nat :: enc_sb sb
  | OEqual => [30%nat] | OLess => [31%nat] | OLessEq => [32%nat] | OGreater => [33%nat] | OGreaterEq => [34%nat] | OEqualB => [35%nat]
  | OSubF => [36%nat] | OEqualF => [37%nat] | OAddF => [38%nat] | OMulF => [39%nat] | OWhere => [40%nat] | OWhereB => [41%nat]
  | ORelu => [42%nat] | OClip => [43%nat]
  end.
Definition dec_op (l : list nat) : option oop :=
  match l with tag :: rest => match nth_error dec_table tag with Some f => f rest | None => None end | [] => None end.
Local Open Scope string_scope.
Definition oname (o : oop) : string :=
  match o with
  | ONeg _ => "Neg" | OAbs _ | OAbsF => "Abs" | OSign _ | OSignF => "Sign" | OBitNot _ => "BitwiseNot" | ONot => "Not"
  | OCast _ | OCastToBool | OCastOfBool _ | OCastFloat => "Cast" | ORound => "Round" | OFloor => "Floor" | OCeil => "Ceil"
  | OIdentity => "Identity" | OAdd _ | OAddF => "Add" | OSub _ | OSubF => "Sub" | OMul _ | OMulF => "Mul" | ODiv _ => "Div"
  | OPow _ => "Pow" | OMax => "Max" | OMin => "Min" | OAnd => "And" | OOr => "Or" | OXor => "Xor"
  | OBitAnd _ => "BitwiseAnd" | OBitOr _ => "BitwiseOr" | OBitXor _ => "BitwiseXor" | OShl _ | OShr _ => "BitShift"
  | OEqual | OEqualB | OEqualF => "Equal" | OLess => "Less" | OLessEq => "LessOrEqual" | OGreater => "Greater"
  | OGreaterEq => "GreaterOrEqual" | OWhere | OWhereB => "Where" | ORelu => "Relu" | OClip => "Clip"
  end.
Local Close Scope string_scope.
Definition oarity (o : oop) : nat :=
  match o with
  | ONeg _ | OAbs _ | OSign _ | OBitNot _ | ONot | OCast _ | OCastToBool | OCastOfBool _ | OCastFloat
  | ORound | OFloor | OCeil | OAbsF | OSignF | OIdentity | ORelu => 1%nat
  | OWhere | OWhereB | OClip => 3%nat
  | _ => 2%nat
  end.
(* the element type recorded with the occurrence has a non-negative width *)
Definition osb_ok (o : oop) : Prop :=
  match o with
  | ONeg sb | OAbs sb | OSign sb | OBitNot sb | OCast sb | OCastOfBool sb | OAdd sb | OSub sb | OMul sb | ODiv sb | OPow sb
  | OBitAnd sb | OBitOr sb | OBitXor sb | OShl sb | OShr sb => 0 <= snd sb
  | _ => True
  end.
Lemma dec_enc_sb (sb : ity) : 0 <= snd sb -> dec_sb (if fst sb then 1%nat else 0%nat) (Z.to_nat (snd sb)) = sb.
Proof. destruct sb as [[|] b]; simpl; intro H; unfold dec_sb; simpl; now rewrite Z2Nat.id. Qed.
Lemma dec_enc_op o : osb_ok o -> dec_op (enc_op o) = Some o.
Proof. destruct o; simpl; intro H; try reflexivity; unfold dec_op; simpl; unfold with_sb; now rewrite dec_enc_sb. Qed.

(* integers as sign + binary digits (least significant first): payloads stay small for 64-bit constants *)
Fixpoint pos_bits (p : positive) : list nat :=
  match p with xH => [1%nat] | xO q => 0%nat :: pos_bits q | xI q => 1%nat :: pos_bits q end.
Fixpoint bits_z (l : list nat) : Z := match l with [] => 0 | b :: r => Z.of_nat b + 2 * bits_z r end.
Definition enc_z (z : Z) : list nat :=
  (if z <? 0 then 1%nat else 0%nat) :: match Z.abs z with Zpos p => pos_bits p | _ => [] end.
Definition dec_z (l : list nat) : Z :=
  match l with s :: m => if Nat.eqb s 1 then - bits_z m else bits_z m | [] => 0 end.
Lemma bits_pos p : bits_z (pos_bits p) = Zpos p.
Proof. induction p as [q IH|q IH|]; simpl pos_bits; cbn [bits_z]; try rewrite IH; try reflexivity; lia. Qed.
Lemma dec_enc_z z : dec_z (enc_z z) = z.
Proof.
  unfold dec_z, enc_z. destruct z as [|p|p]; simpl Z.abs; cbn [Z.ltb Z.compare]; cbn [Nat.eqb]; try rewrite bits_pos; reflexivity.
Qed.
Definition enc_const (c : sval) : list nat :=
  match c with
  | VZ z => 0%nat :: enc_z z
  | VB b => [1%nat; if b then 1%nat else 0%nat]
  | VQ (n, d) => 2%nat :: length (enc_z n) :: enc_z n ++ enc_z d
  end.
Definition dec_const (l : list nat) : option sval :=
  match l with
  | 0%nat :: m => Some (VZ (dec_z m))
  | [1%nat; b] => Some (VB (Nat.eqb b 1))
  | 2%nat :: k :: m => Some (VQ (dec_z (firstn k m), dec_z (skipn k m)))
  | _ => None
  end.
Lemma firstn_length_app' {A} (l m : list A) : firstn (length l) (l ++ m) = l.
Proof. induction l; simpl; [reflexivity | now rewrite IHl]. Qed.
Lemma skipn_length_app' {A} (l m : list A) : skipn (length l) (l ++ m) = m.
Proof. induction l; simpl; [reflexivity | exact IHl]. Qed.
Lemma dec_enc_const c : dec_const (enc_const c) = Some c.
Proof.
  destruct c as [z|b|[n d]]; cbn [enc_const dec_const].
  - now rewrite dec_enc_z.
  - now destruct b.
  - now rewrite firstn_length_app', skipn_length_app', !dec_enc_z.
Qed.

(* ================================================================ tensor-level ONNX semantics of the nodes *)
Definition gsem_op (o : oop) (vals : list cten) : option (list cten) :=
  match oarity o, vals with
  | 1%nat, [a] => Some [tcanon (tmap (sem1 o) (decanon a))]
  | 2%nat, [a; b] => Some [tcanon (tmap2b (sem2 o) (decanon a) (decanon b))]
  | 3%nat, [a; b; c] => Some [tcanon (tmap3b (sem3 o) (decanon a) (decanon b) (decanon c))]
  | _, _ => None
  end.
(* [lit] is the value LoweringSem gives to every literal operand; "Literal" is the initializer holding it *)
Local Open Scope string_scope.
Definition kgsem (lit : cten) (op : string) (ats : list nat) (vals : list cten) : option (list cten) :=
  if String.eqb op "Literal" then match vals with [] => Some [lit] | _ => None end
  else if String.eqb op "Constant" then
    match dec_const ats, vals with Some c, [] => Some [tcanon (tscalar c)] | _, _ => None end
  else match dec_op ats with
       | Some o => if String.eqb op (oname o) then gsem_op o vals else None
       | None => None
       end.
Lemma oname_not_special o : String.eqb (oname o) "Literal" = false /\ String.eqb (oname o) "Constant" = false.
Proof. destruct o; split; reflexivity. Qed.
Lemma kgsem_op lit o vals : osb_ok o -> kgsem lit (oname o) (enc_op o) vals = gsem_op o vals.
Proof.
  intro H. unfold kgsem. destruct (oname_not_special o) as [-> ->]. rewrite dec_enc_op by exact H.
  now rewrite String.eqb_refl.
Qed.

Local Close Scope string_scope.
(* ================================================================ emitting a kernel graph as SSA nodes *)
Fixpoint emit (e : kx) (args : list vname) (next : vname) : list node * vname * vname :=
  match e with
  | KVar i => ([], nth i args 0%nat, next)
  | KConst c => ([mkNode "Constant"%string (enc_const c) [] [] [next]], next, S next)
  | KOp1 o a =>
      let '(na, ra, n1) := emit a args next in
      (na ++ [mkNode (oname o) (enc_op o) [ra] [] [n1]], n1, S n1)
  | KOp2 o a b =>
      let '(na, ra, n1) := emit a args next in
      let '(nb, rb, n2) := emit b args n1 in
      (na ++ nb ++ [mkNode (oname o) (enc_op o) [ra; rb] [] [n2]], n2, S n2)
  | KOp3 o a b c =>
      let '(na, ra, n1) := emit a args next in
      let '(nb, rb, n2) := emit b args n1 in
      let '(nc, rc, n3) := emit c args n2 in
      (na ++ nb ++ nc ++ [mkNode (oname o) (enc_op o) [ra; rb; rc] [] [n3]], n3, S n3)
  end.

(* the graph is closed over n operands and every occurrence has the arity it is used at *)
Fixpoint kok (n : nat) (e : kx) : Prop :=
  match e with
  | KVar i => (i < n)%nat
  | KConst _ => True
  | KOp1 o a => oarity o = 1%nat /\ osb_ok o /\ kok n a
  | KOp2 o a b => oarity o = 2%nat /\ osb_ok o /\ kok n a /\ kok n b
  | KOp3 o a b c => oarity o = 3%nat /\ osb_ok o /\ kok n a /\ kok n b /\ kok n c
  end.

Definition genv := Graph.env cten.
Definition fresh_from (g : genv) (n : nat) : Prop := forall m, (n <= m)%nat -> g m = None.
Definition cdummy : cten := mkC [] [].
Definition dX (Xs : list cten) : list (tensor sval) := map decanon Xs.

Lemma nth_dX Xs i : (i < length Xs)%nat -> nth i (dX Xs) (tscalar sv0) = decanon (nth i Xs cdummy).
Proof.
  intro H. unfold dX. rewrite (nth_indep _ (tscalar sv0) (decanon cdummy)) by (now rewrite map_length). apply map_nth.
Qed.
Lemma shapes_dX Xs : map (@shape sval) (dX Xs) = map c_shape Xs.
Proof. unfold dX. rewrite map_map. reflexivity. Qed.

Lemma eval_snoc sem ns n (g g1 : genv) :
  eval cten sem ns g = Some g1 -> eval cten sem (ns ++ [n]) g = step cten sem g1 n.
Proof. intro H. rewrite eval_app, H. simpl. now destruct (step cten sem g1 n). Qed.

Lemma upd_same (g : genv) x v : upd cten g x v x = Some v.
Proof. unfold upd. now rewrite Nat.eqb_refl. Qed.
Lemma upd_other (g : genv) x v m : m <> x -> upd cten g x v m = g m.
Proof. intro H. unfold upd. destruct (Nat.eqb_spec m x); [contradiction | reflexivity]. Qed.

Section Emit.
  (* any node semantics that interprets the elementwise occurrences and Constant as below (kgsem does; so does the
     extended semantics of LiftStruct) *)
  Variable sem : string -> list nat -> list cten -> option (list cten).
  Hypothesis sem_op : forall o vals, osb_ok o -> sem (oname o) (enc_op o) vals = gsem_op o vals.
  Hypothesis sem_const : forall c, sem "Constant"%string (enc_const c) [] = Some [tcanon (tscalar c)].
  Notation geval := (eval cten sem).
  Notation gstep := (step cten sem).

  Lemma step_const (g : genv) c out :
    gstep g (mkNode "Constant"%string (enc_const c) [] [] [out]) = Some (upd cten g out (tcanon (tscalar c))).
  Proof. unfold step, n_uses; simpl. rewrite sem_const. reflexivity. Qed.
  Lemma step_node1 (g : genv) o ra Ta out : osb_ok o -> oarity o = 1%nat -> g ra = Some Ta ->
    gstep g (mkNode (oname o) (enc_op o) [ra] [] [out]) = Some (upd cten g out (tcanon (tmap (sem1 o) (decanon Ta)))).
  Proof. intros H0 H1 H2. unfold step, n_uses; simpl. rewrite H2, sem_op by auto. unfold gsem_op. rewrite H1. reflexivity. Qed.
  Lemma step_node2 (g : genv) o ra rb Ta Tb out : osb_ok o -> oarity o = 2%nat -> g ra = Some Ta -> g rb = Some Tb ->
    gstep g (mkNode (oname o) (enc_op o) [ra; rb] [] [out])
    = Some (upd cten g out (tcanon (tmap2b (sem2 o) (decanon Ta) (decanon Tb)))).
  Proof. intros H0 H1 H2 H3. unfold step, n_uses; simpl. rewrite H2, H3, sem_op by auto. unfold gsem_op. rewrite H1. reflexivity. Qed.
  Lemma step_node3 (g : genv) o ra rb rc Ta Tb Tc out : osb_ok o -> oarity o = 3%nat ->
    g ra = Some Ta -> g rb = Some Tb -> g rc = Some Tc ->
    gstep g (mkNode (oname o) (enc_op o) [ra; rb; rc] [] [out])
    = Some (upd cten g out (tcanon (tmap3b (sem3 o) (decanon Ta) (decanon Tb) (decanon Tc)))).
  Proof. intros H0 H1 H2 H3 H4. unfold step, n_uses; simpl. rewrite H2, H3, H4, sem_op by auto. unfold gsem_op. rewrite H1. reflexivity. Qed.

  (* what evaluating the emitted nodes does *)
  Definition emit_post (e : kx) (Xs : list cten) (next : vname) (g : genv) (res next' : vname) (g' : genv) (T : cten) : Prop :=
    (next <= next')%nat /\ (res < next')%nat /\ (forall m, (m < next)%nat -> g' m = g m) /\ fresh_from g' next' /\
    g' res = Some T /\ teq (decanon T) (kev_t e (dX Xs)) /\
    match e with KVar _ => True | _ => T = tcanon (kev_t e (dX Xs)) end.

  Lemma emit_post_intro e Xs next g res next' g' T :
    (next <= next')%nat -> (res < next')%nat -> (forall m, (m < next)%nat -> g' m = g m) -> fresh_from g' next' ->
    g' res = Some T -> teq (decanon T) (kev_t e (dX Xs)) ->
    match e with KVar _ => True | _ => T = tcanon (kev_t e (dX Xs)) end -> emit_post e Xs next g res next' g' T.
  Proof. unfold emit_post. tauto. Qed.

  Lemma emit_correct e : forall args next nodes res next' (g : genv) Xs,
    emit e args next = (nodes, res, next') ->
    kok (length Xs) e -> kwf e (map c_shape Xs) ->
    (forall i, (i < length Xs)%nat -> (nth i args 0%nat < next)%nat /\ g (nth i args 0%nat) = Some (nth i Xs cdummy)) ->
    fresh_from g next ->
    exists g' T, geval nodes g = Some g' /\ emit_post e Xs next g res next' g' T.
  Proof.
    induction e as [i|c|o a IHa|o a IHa b IHb|o a IHa b IHb c IHc]; intros args next nodes res next' g Xs Hem Hok Hwf Hargs Hfr.
    - (* operand *)
      simpl in Hem. injection Hem as <- <- <-. simpl in Hok. destruct (Hargs i Hok) as [Hlt Hv].
      exists g, (nth i Xs cdummy). split; [reflexivity|]. apply emit_post_intro; auto.
      change (kev_t (KVar i) (dX Xs)) with (nth i (dX Xs) (tscalar sv0)). rewrite nth_dX by exact Hok. apply teq_refl.
    - (* constant *)
      simpl in Hem. injection Hem as <- <- <-.
      exists (upd cten g next (tcanon (tscalar c))), (tcanon (tscalar c)). split.
      + simpl. now rewrite step_const.
      + apply emit_post_intro.
        * lia.
        * lia.
        * intros m Hm. apply upd_other. lia.
        * intros m Hm. rewrite upd_other by lia. apply Hfr. lia.
        * apply upd_same.
        * apply decanon_canon.
        * reflexivity.
    - (* unary operator *)
      simpl in Hem. destruct (emit a args next) as [[na ra] n1] eqn:Ea. injection Hem as <- <- <-.
      destruct Hok as (Har & Hsb & Hoka).
      destruct (IHa args next na ra n1 g Xs Ea Hoka Hwf Hargs Hfr) as (g1 & Ta & Hev & Hle & Hra & Hkeep & Hfr1 & Hga & Hta & _).
      set (T := tcanon (tmap (sem1 o) (decanon Ta))).
      exists (upd cten g1 n1 T), T. split.
      + rewrite (eval_snoc sem na _ g g1 Hev). now apply step_node1.
      + apply emit_post_intro.
        * lia.
        * lia.
        * intros m Hm. rewrite upd_other by lia. apply Hkeep. exact Hm.
        * intros m Hm. rewrite upd_other by lia. apply Hfr1. lia.
        * apply upd_same.
        * eapply teq_trans; [apply decanon_canon|]. now apply tmap_teq.
        * apply canon_teq. now apply tmap_teq.
    - (* binary operator *)
      simpl in Hem. destruct (emit a args next) as [[na ra] n1] eqn:Ea. destruct (emit b args n1) as [[nb rb] n2] eqn:Eb.
      injection Hem as <- <- <-.
      destruct Hok as (Har & Hsb & Hoka & Hokb). destruct Hwf as (Hwa & Hwb & Hcab).
      destruct (IHa args next na ra n1 g Xs Ea Hoka Hwa Hargs Hfr) as (g1 & Ta & Hev1 & Hle1 & Hra & Hkeep1 & Hfr1 & Hga & Hta & _).
      assert (Hargs1 : forall i, (i < length Xs)%nat -> (nth i args 0%nat < n1)%nat /\ g1 (nth i args 0%nat) = Some (nth i Xs cdummy)).
      { intros i Hi. destruct (Hargs i Hi) as [H1 H2]. split; [lia|]. rewrite Hkeep1 by exact H1. exact H2. }
      destruct (IHb args n1 nb rb n2 g1 Xs Eb Hokb Hwb Hargs1 Hfr1) as (g2 & Tb & Hev2 & Hle2 & Hrb & Hkeep2 & Hfr2 & Hgb & Htb & _).
      assert (Hga2 : g2 ra = Some Ta) by (rewrite Hkeep2 by exact Hra; exact Hga).
      set (T := tcanon (tmap2b (sem2 o) (decanon Ta) (decanon Tb))).
      assert (Hcomp : bcompat (shape (decanon Ta)) (shape (decanon Tb))).
      { rewrite (proj1 Hta), (proj1 Htb). unfold kev_t. rewrite !keval_t_shape, shapes_dX. exact Hcab. }
      exists (upd cten g2 n2 T), T. split.
      + rewrite app_assoc. rewrite (eval_snoc sem (na ++ nb) _ g g2) by (rewrite eval_app, Hev1; exact Hev2).
        now apply step_node2.
      + apply emit_post_intro.
        * lia.
        * lia.
        * intros m Hm. rewrite upd_other by lia. rewrite Hkeep2 by lia. apply Hkeep1. exact Hm.
        * intros m Hm. rewrite upd_other by lia. apply Hfr2. lia.
        * apply upd_same.
        * eapply teq_trans; [apply decanon_canon|]. now apply tmap2b_teq.
        * apply canon_teq. now apply tmap2b_teq.
    - (* ternary operator *)
      simpl in Hem. destruct (emit a args next) as [[na ra] n1] eqn:Ea. destruct (emit b args n1) as [[nb rb] n2] eqn:Eb.
      destruct (emit c args n2) as [[nc rc] n3] eqn:Ec. injection Hem as <- <- <-.
      destruct Hok as (Har & Hsb & Hoka & Hokb & Hokc). destruct Hwf as (Hwa & Hwb & Hwc & Hcbc & Hcabc).
      destruct (IHa args next na ra n1 g Xs Ea Hoka Hwa Hargs Hfr) as (g1 & Ta & Hev1 & Hle1 & Hra & Hkeep1 & Hfr1 & Hga & Hta & _).
      assert (Hargs1 : forall i, (i < length Xs)%nat -> (nth i args 0%nat < n1)%nat /\ g1 (nth i args 0%nat) = Some (nth i Xs cdummy)).
      { intros i Hi. destruct (Hargs i Hi) as [H1 H2]. split; [lia|]. rewrite Hkeep1 by exact H1. exact H2. }
      destruct (IHb args n1 nb rb n2 g1 Xs Eb Hokb Hwb Hargs1 Hfr1) as (g2 & Tb & Hev2 & Hle2 & Hrb & Hkeep2 & Hfr2 & Hgb & Htb & _).
      assert (Hargs2 : forall i, (i < length Xs)%nat -> (nth i args 0%nat < n2)%nat /\ g2 (nth i args 0%nat) = Some (nth i Xs cdummy)).
      { intros i Hi. destruct (Hargs1 i Hi) as [H1 H2]. split; [lia|]. rewrite Hkeep2 by exact H1. exact H2. }
      destruct (IHc args n2 nc rc n3 g2 Xs Ec Hokc Hwc Hargs2 Hfr2) as (g3 & Tc & Hev3 & Hle3 & Hrc & Hkeep3 & Hfr3 & Hgc & Htc & _).
      assert (Hga3 : g3 ra = Some Ta) by (rewrite Hkeep3 by lia; rewrite Hkeep2 by exact Hra; exact Hga).
      assert (Hgb3 : g3 rb = Some Tb) by (rewrite Hkeep3 by exact Hrb; exact Hgb).
      set (T := tcanon (tmap3b (sem3 o) (decanon Ta) (decanon Tb) (decanon Tc))).
      assert (Hc1 : bcompat (shape (decanon Tb)) (shape (decanon Tc))).
      { rewrite (proj1 Htb), (proj1 Htc). unfold kev_t. rewrite !keval_t_shape, shapes_dX. exact Hcbc. }
      assert (Hc2 : bcompat (shape (decanon Ta)) (bcast_shape (shape (decanon Tb)) (shape (decanon Tc)))).
      { rewrite (proj1 Hta), (proj1 Htb), (proj1 Htc). unfold kev_t. rewrite !keval_t_shape, shapes_dX. exact Hcabc. }
      exists (upd cten g3 n3 T), T. split.
      + replace (na ++ nb ++ nc ++ [mkNode (oname o) (enc_op o) [ra; rb; rc] [] [n3]])
          with ((na ++ nb ++ nc) ++ [mkNode (oname o) (enc_op o) [ra; rb; rc] [] [n3]]) by (now rewrite <- !app_assoc).
        rewrite (eval_snoc sem (na ++ nb ++ nc) _ g g3) by (rewrite eval_app, Hev1, eval_app, Hev2; exact Hev3).
        now apply step_node3.
      + apply emit_post_intro.
        * lia.
        * lia.
        * intros m Hm. rewrite upd_other by lia. rewrite Hkeep3 by lia. rewrite Hkeep2 by lia. apply Hkeep1. exact Hm.
        * intros m Hm. rewrite upd_other by lia. apply Hfr3. lia.
        * apply upd_same.
        * eapply teq_trans; [apply decanon_canon|]. now apply tmap3b_teq.
        * apply canon_teq. now apply tmap3b_teq.
  Qed.

End Emit.

(* the names the emitted nodes define are exactly [next, next') *)
Lemma emit_defs e : forall args next nodes res next', emit e args next = (nodes, res, next') ->
  (next <= next')%nat /\ forall x, In x (defs nodes) <-> (next <= x < next')%nat.
Proof.
  induction e as [i|c|o a IHa|o a IHa b IHb|o a IHa b IHb c IHc]; intros args next nodes res next' Hem; simpl in Hem.
  - injection Hem as <- <- <-. split; [lia|]. simpl. intro x. split; [contradiction | lia].
  - injection Hem as <- <- <-. split; [lia|]. simpl. intro x. split; [intros [<-|[]]; lia | intro; left; lia].
  - destruct (emit a args next) as [[na ra] n1] eqn:Ea. injection Hem as <- <- <-.
    destruct (IHa _ _ _ _ _ Ea) as [L1 D1]. split; [lia|]. intro x. rewrite defs_app. simpl. rewrite in_app_iff, D1. simpl. lia.
  - destruct (emit a args next) as [[na ra] n1] eqn:Ea. destruct (emit b args n1) as [[nb rb] n2] eqn:Eb. injection Hem as <- <- <-.
    destruct (IHa _ _ _ _ _ Ea) as [L1 D1]. destruct (IHb _ _ _ _ _ Eb) as [L2 D2]. split; [lia|]. intro x.
    rewrite !defs_app. simpl. rewrite !in_app_iff, D1, D2. simpl. lia.
  - destruct (emit a args next) as [[na ra] n1] eqn:Ea. destruct (emit b args n1) as [[nb rb] n2] eqn:Eb.
    destruct (emit c args n2) as [[nc rc] n3] eqn:Ec. injection Hem as <- <- <-.
    destruct (IHa _ _ _ _ _ Ea) as [L1 D1]. destruct (IHb _ _ _ _ _ Eb) as [L2 D2]. destruct (IHc _ _ _ _ _ Ec) as [L3 D3].
    split; [lia|]. intro x. rewrite !defs_app. simpl. rewrite !in_app_iff, D1, D2, D3. simpl. lia.
Qed.


Lemma kgsem_const lit c : kgsem lit "Constant"%string (enc_const c) [] = Some [tcanon (tscalar c)].
Proof. unfold kgsem. simpl. rewrite dec_enc_const. reflexivity. Qed.

(* ================================================================ exact kernels as primitives: JAX side and plugin model *)
Record kern := mkK {
  k_arity : nat;
  k_expr : kx;                       (* the operator graph the plugin emits *)
  k_jax : list sval -> sval;         (* the JAX function of one element of each operand *)
  k_dom : list sval -> bool }.       (* typing + the kernel's domain side conditions *)
Definition kern_ok (k : kern) : Prop :=
  match k_expr k with KVar _ => False | _ => True end /\ kok (k_arity k) (k_expr k) /\
  (forall i, (i < k_arity k)%nat -> kuses i (k_expr k)) /\
  forall xs, length xs = k_arity k -> k_dom k xs = true -> kev_s (k_expr k) xs = k_jax k xs.
Definition ktable := string -> option kern.

(* TENSOR-LEVEL JAX SEMANTICS of a table primitive: defined when the operands have a common broadcast shape and every
   tuple of elements that meets under broadcasting is in the kernel's domain; then the elementwise kernel function *)
Definition kpsem (tab : ktable) (p : string) (vals : list cten) : option (list cten) :=
  match tab p with
  | None => None
  | Some k =>
      if Nat.eqb (length vals) (k_arity k) && commonb (map c_shape vals) &&
         tforallb (bshape_all (map c_shape vals)) (fun idx => k_dom k (map (fun X => bcast_at X idx) (dX vals)))
      then Some [tcanon (tmapN (k_jax k) (dX vals))] else None
  end.

(* operands: a bound variable is its graph value; a literal is materialised as an initializer on a fresh name *)
Fixpoint resolve (s : sctx) (ins : list invar) (next : vname) : option (list node * list vname * vname) :=
  match ins with
  | [] => Some ([], [], next)
  | IVar v :: r =>
      match bound (erase s) v, resolve s r next with
      | Some n, Some (ns, ar, nx) => Some (ns, n :: ar, nx)
      | _, _ => None
      end
  | ILit :: r =>
      match resolve s r (S next) with
      | Some (ns, ar, nx) => Some (mkNode "Literal"%string [] [] [] [next] :: ns, next :: ar, nx)
      | None => None
      end
  end.
Definition kplugin (k : kern) : splugin := fun s e =>
  if negb (Nat.eqb (length (e_ins e)) (k_arity k)) then Err EPlugin else
  match e_outs e with
  | [o] =>
      match resolve s (e_ins e) (fresh_above s) with
      | None => Err EUnboundInput
      | Some (lnodes, args, n1) =>
          let '(nodes, res, n2) := emit (k_expr k) args n1 in
          Ok (mkS (match o with Some v => (v, res) :: s_bind s | None => s_bind s end) (s_inputs s)
                  (s_nodes s ++ lnodes ++ nodes), RNone)
      end
  | _ => Err EPlugin
  end.
Definition kreg (tab : ktable) : sregistry := fun p => option_map kplugin (tab p).

Lemma connected_lt_fresh s n : connected (erase s) n = true -> (n < fresh_above s)%nat.
Proof.
  intro H. apply connected_In in H. simpl in H. unfold fresh_above.
  assert (Hin : In n (s_inputs s ++ defs (s_nodes s) ++ map snd (s_bind s))).
  { apply in_app_or in H. apply in_or_app. destruct H as [H|H]; [now left | right; apply in_or_app; now left]. }
  apply fold_max_ge in Hin. lia.
Qed.
Lemma bind_returned_RNone c e : bind_returned c e RNone = Ok c.
Proof. unfold bind_returned. now destruct (filter (needs_binding c) (non_drop e)). Qed.

Section Contract.
  Variable tab : ktable.
  Variable lit : cten.
  Hypothesis tab_ok : forall p k, tab p = Some k -> kern_ok k.
  Notation geval := (eval cten (kgsem lit)).

  Lemma resolve_correct s r g0 : related cten s r g0 ->
    forall ins next lnodes args n1 (g : genv) vals,
    resolve s ins next = Some (lnodes, args, n1) -> jreads cten r lit ins = Some vals ->
    (fresh_above s <= next)%nat -> (forall m, (m < fresh_above s)%nat -> g m = g0 m) -> fresh_from g next ->
    exists g1, geval lnodes g = Some g1 /\ (next <= n1)%nat /\ (forall m, (m < next)%nat -> g1 m = g m) /\ fresh_from g1 n1 /\
      (forall i, (i < length vals)%nat -> (nth i args 0%nat < n1)%nat /\ g1 (nth i args 0%nat) = Some (nth i vals cdummy)) /\
      (forall x, In x (defs lnodes) <-> (next <= x < n1)%nat).
  Proof.
    intros [Hr1 Hr2]. induction ins as [|[v|] ins IH]; intros next lnodes args n1 g vals Hres Hread Hn0 Hagree Hfr.
    - simpl in Hres, Hread. injection Hres as <- <- <-. injection Hread as <-.
      exists g. split; [reflexivity|]. split; [lia|]. split; [auto|]. split; [exact Hfr|]. split.
      + intros i Hi. simpl in Hi. lia.
      + intro x. simpl. split; [contradiction | lia].
    - simpl in Hres, Hread. destruct (bound (erase s) v) as [n|] eqn:Eb; [|discriminate].
      destruct (resolve s ins next) as [[[ns ar] nx]|] eqn:Er; [|discriminate]. injection Hres as <- <- <-.
      destruct (r v) as [a|] eqn:Erv; [|discriminate].
      destruct (jreads cten r lit ins) as [vs|] eqn:Ejr; [|discriminate]. injection Hread as <-.
      destruct (IH next ns ar nx g vs Er eq_refl Hn0 Hagree Hfr) as (g1 & Hev & Hle & Hkeep & Hfr1 & Hidx & Hdefs).
      destruct (Hr1 v n Eb) as (a' & Ha' & Hgn). rewrite Erv in Ha'. injection Ha' as <-.
      assert (Hlt : (n < fresh_above s)%nat) by (apply connected_lt_fresh; eapply Hr2; exact Hgn).
      exists g1. split; [exact Hev|]. split; [exact Hle|]. split; [exact Hkeep|]. split; [exact Hfr1|]. split; [|exact Hdefs].
      intros [|i] Hi; simpl in *.
      + split; [lia|]. rewrite Hkeep by lia. rewrite Hagree by exact Hlt. exact Hgn.
      + apply Hidx. lia.
    - simpl in Hres, Hread. destruct (resolve s ins (S next)) as [[[ns ar] nx]|] eqn:Er; [|discriminate]. injection Hres as <- <- <-.
      destruct (jreads cten r lit ins) as [vs|] eqn:Ejr; [|discriminate]. injection Hread as <-.
      set (g' := upd cten g next lit).
      assert (Hagree' : forall m, (m < fresh_above s)%nat -> g' m = g0 m).
      { intros m Hm. unfold g'. rewrite upd_other by lia. now apply Hagree. }
      assert (Hfr' : fresh_from g' (S next)).
      { intros m Hm. unfold g'. rewrite upd_other by lia. apply Hfr. lia. }
      destruct (IH (S next) ns ar nx g' vs Er eq_refl ltac:(lia) Hagree' Hfr') as (g1 & Hev & Hle & Hkeep & Hfr1 & Hidx & Hdefs).
      exists g1. split.
      + simpl. unfold step, n_uses. simpl. exact Hev.
      + split; [lia|]. split.
        * intros m Hm. rewrite Hkeep by lia. unfold g'. apply upd_other. lia.
        * split; [exact Hfr1|]. split.
          -- intros [|i] Hi; simpl in *.
             ++ split; [lia|]. rewrite Hkeep by lia. unfold g'. apply upd_same.
             ++ apply Hidx. lia.
          -- intro x. simpl. rewrite Hdefs. lia.
  Qed.

  Lemma jreads_length r ins vals : jreads cten r lit ins = Some vals -> length vals = length ins.
  Proof.
    revert vals. induction ins as [|i ins IH]; simpl; intros vals H; [now injection H as <-|].
    destruct (jread cten r lit i); [|discriminate]. destruct (jreads cten r lit ins) as [vs|]; [|discriminate].
    injection H as <-. simpl. f_equal. now apply IH.
  Qed.

  (* THE PLUGIN CONTRACT: every registry of exact kernels meets LoweringSem.eqn_contract *)
  Theorem kreg_contract : eqn_contract cten (kpsem tab) (kgsem lit) (kreg tab) lit.
  Proof.
    intros s e s' H. unfold slower_eqn, kreg in H.
    destruct (tab (e_prim e)) as [k|] eqn:Et; simpl in H; [|discriminate].
    destruct (negb (inputs_bound (erase s) e)); [discriminate|].
    unfold kplugin in H.
    destruct (negb (Nat.eqb (length (e_ins e)) (k_arity k))) eqn:Ear; [discriminate|].
    apply negb_false_iff, Nat.eqb_eq in Ear.
    destruct (e_outs e) as [|o [|? ?]] eqn:Eo; try discriminate.
    destruct (resolve s (e_ins e) (fresh_above s)) as [[[lnodes args] n1]|] eqn:Er; [|discriminate].
    destruct (emit (k_expr k) args n1) as [[nodes res] n2] eqn:Em.
    set (s1 := mkS (match o with Some v => (v, res) :: s_bind s | None => s_bind s end) (s_inputs s) (s_nodes s ++ lnodes ++ nodes)) in *.
    rewrite bind_returned_RNone in H.
    destruct (outputs_ok (erase s1) (non_drop e)) as [[]|x] eqn:Eout; [|discriminate].
    injection H as <-.
    destruct (tab_ok _ _ Et) as (Hroot & Hkok & Huses & Hsound).
    exists (lnodes ++ nodes). split; [reflexivity|]. split; [reflexivity|]. split.
    - (* other bindings are kept *)
      intros w Hw. unfold non_drop in Hw. rewrite Eo in Hw. unfold bound. simpl.
      destruct o as [v|]; simpl in *; [|reflexivity].
      destruct (Nat.eqb_spec v w) as [->|]; [exfalso; apply Hw; now left | reflexivity].
    - intros r g vals outs Hrel Hread Hsem Hlen.
      pose proof Hrel as [Hr1 Hr2].
      (* the JAX side is defined: arity, common broadcast shape, domain *)
      unfold kpsem in Hsem. rewrite Et in Hsem.
      destruct (Nat.eqb (length vals) (k_arity k) && commonb (map c_shape vals) &&
                tforallb (bshape_all (map c_shape vals)) (fun idx => k_dom k (map (fun X => bcast_at X idx) (dX vals)))) eqn:Econd; [|discriminate].
      injection Hsem as <-.
      apply andb_prop in Econd as [Econd Hdomb]. apply andb_prop in Econd as [Hlenb Hcomb].
      apply Nat.eqb_eq in Hlenb. apply commonb_spec in Hcomb.
      (* literals *)
      assert (Hfr0 : fresh_from g (fresh_above s)).
      { intros m Hm. destruct (g m) as [a|] eqn:E; [|reflexivity]. apply Hr2 in E. apply connected_lt_fresh in E. lia. }
      destruct (resolve_correct s r g Hrel (e_ins e) (fresh_above s) lnodes args n1 g vals Er Hread (le_n _) (fun m _ => eq_refl) Hfr0)
        as (g1 & Hev1 & Hle1 & Hkeep1 & Hfr1 & Hidx & Hdefs1).
      (* the kernel graph *)
      assert (Hkok' : kok (length vals) (k_expr k)) by (rewrite Hlenb; exact Hkok).
      assert (Hcn : forall i, bsub (nth i (map c_shape vals) []) (bshape_all (map c_shape vals))) by (apply bcommon_nth; exact Hcomb).
      destruct (kwf_of_common (k_expr k) (map c_shape vals) Hcn) as [Hwf _].
      destruct (emit_correct (kgsem lit) (kgsem_op lit) (kgsem_const lit) (k_expr k) args n1 nodes res n2 g1 vals Em Hkok' Hwf Hidx Hfr1)
        as (g2 & T & Hev2 & Hle2 & Hres & Hkeep2 & Hfr2 & Hgres & _ & HT).
      assert (HTeq : T = tcanon (tmapN (k_jax k) (dX vals))).
      { destruct (k_expr k) eqn:Eke; try contradiction; rewrite HT; apply canon_teq;
          rewrite <- Eke in *;
          (apply (@keval_t_tmapN_ext sval oop oop oop sem1 sem2 sem3 sv0 (k_expr k) (dX vals) (bshape_all (map c_shape vals)));
           [rewrite shapes_dX; exact Hcomb
           | intros i Hi; apply Huses; unfold dX in Hi; rewrite map_length in Hi; lia
           | intros idx Hi; rewrite shapes_dX in Hi; apply Hsound;
             [rewrite map_length; unfold dX; rewrite map_length; exact Hlenb | exact (tforallb_spec _ _ Hdomb idx Hi)]]). }
      exists g2. split; [rewrite eval_app, Hev1; exact Hev2|].
      assert (Hle : genv_le cten g g2).
      { intros n a Hn. assert (Hlt : (n < fresh_above s)%nat) by (apply connected_lt_fresh; eapply Hr2; exact Hn).
        rewrite Hkeep2 by lia. rewrite Hkeep1 by lia. exact Hn. }
      split; [exact Hle|]. split.
      + (* bound variables carry their JAX values *)
        intros w n Hb. unfold bound in Hb. simpl in Hb.
        destruct o as [v|]; simpl in *.
        * destruct (Nat.eqb_spec v w) as [->|Hne].
          -- injection Hb as <-. exists T. rewrite Nat.eqb_refl. split; [now rewrite HTeq | exact Hgres].
          -- destruct (Hr1 w n Hb) as (a & Hra & Hga). exists a.
             destruct (Nat.eqb_spec w v) as [->|]; [contradiction|]. split; [exact Hra | now apply Hle].
        * destruct (Hr1 w n Hb) as (a & Hra & Hga). exists a. split; [exact Hra | now apply Hle].
      + (* the graph environment lives on graph values *)
        intros n a Hn. apply connected_In. simpl. rewrite !defs_app.
        destruct (Nat.lt_ge_cases n (fresh_above s)) as [Hlt|Hge].
        * rewrite Hkeep2, Hkeep1 in Hn by lia. apply Hr2, connected_In in Hn. simpl in Hn.
          apply in_app_or in Hn as [Hn|Hn]; apply in_or_app; [now left | right; apply in_or_app; now left].
        * assert (Hn2 : (n < n2)%nat).
          { destruct (Nat.lt_ge_cases n n2) as [Hl|Hg]; [exact Hl|]. rewrite (Hfr2 n Hg) in Hn. discriminate. }
          apply in_or_app. right. apply in_or_app. right. apply in_or_app.
          destruct (Nat.lt_ge_cases n n1) as [Hl1|Hg1].
          -- left. apply Hdefs1. lia.
          -- right. apply (proj2 (emit_defs (k_expr k) args n1 nodes res n2 Em)). lia.
  Qed.

  (* FULL-STRENGTH C01 FOR THE EXACT FRAGMENT: every jaxpr whose primitives are in the table — any length, any wiring,
     literals and drop-vars included — whenever the dispatcher lowers it and the JAX program is defined on the inputs
     (operands broadcast-compatible and in the kernels' domains), the emitted nodes evaluate under the tensor-level ONNX
     semantics and every bound variable (in particular every program output) carries exactly the JAX value *)
  Theorem exact_fragment_correct :
    forall jp s s', slower_jaxpr (kreg tab) s jp = Ok s' ->
    forall r g r', related cten s r g -> jeval cten (kpsem tab) lit jp r = Some r' ->
    exists new g', s_nodes s' = s_nodes s ++ new /\ eval cten (kgsem lit) new g = Some g' /\
                   genv_le cten g g' /\ related cten s' r' g'.
  Proof. exact (lower_jaxpr_correct cten (kpsem tab) (kgsem lit) (kreg tab) lit kreg_contract). Qed.

  Corollary exact_fragment_outputs jp s s' r g r' outvars :
    slower_jaxpr (kreg tab) s jp = Ok s' -> related cten s r g -> jeval cten (kpsem tab) lit jp r = Some r' ->
    Forall (fun v => bound (erase s') v <> None) outvars ->
    exists new g', s_nodes s' = s_nodes s ++ new /\ eval cten (kgsem lit) new g = Some g' /\
      Forall (fun v => exists n a, bound (erase s') v = Some n /\ g' n = Some a /\ r' v = Some a) outvars.
  Proof. exact (lower_jaxpr_outputs cten (kpsem tab) (kgsem lit) (kreg tab) lit jp s s' r g r' outvars kreg_contract). Qed.
End Contract.

(* ================================================================ the table of exact kernels *)
Definition has_k (k : sk) (v : sval) : bool :=
  match k, v with SZ, VZ _ | SB, VB _ | SQ, VQ _ => true | _, _ => false end.
Lemma has_k_inj k v : has_k k v = true -> v = inj k (prj k v).
Proof. destruct k, v; simpl; intro H; try discriminate; reflexivity. Qed.
Definition x0 (xs : list sval) := nth 0 xs sv0.
Definition x1 (xs : list sval) := nth 1 xs sv0.
Definition x2 (xs : list sval) := nth 2 xs sv0.
Definition dom1 ka (p : sden ka -> bool) (xs : list sval) : bool :=
  match xs with [x] => has_k ka x && p (prj ka x) | _ => false end.
Definition dom2 ka kb (p : sden ka -> sden kb -> bool) (xs : list sval) : bool :=
  match xs with [x; y] => has_k ka x && has_k kb y && p (prj ka x) (prj kb y) | _ => false end.
Definition dom3 ka kb kc (p : sden ka -> sden kb -> sden kc -> bool) (xs : list sval) : bool :=
  match xs with [x; y; z] => has_k ka x && has_k kb y && has_k kc z && p (prj ka x) (prj kb y) (prj kc z) | _ => false end.
Definition K1 ka kr (e : kx) (jax : sden ka -> sden kr) (p : sden ka -> bool) : kern :=
  mkK 1 e (fun xs => lift1 ka kr jax (x0 xs)) (dom1 ka p).
Definition K2 ka kb kr (e : kx) (jax : sden ka -> sden kb -> sden kr) (p : sden ka -> sden kb -> bool) : kern :=
  mkK 2 e (fun xs => lift2 ka kb kr jax (x0 xs) (x1 xs)) (dom2 ka kb p).
Definition K3 ka kb kc kr (e : kx) (jax : sden ka -> sden kb -> sden kc -> sden kr) (p : sden ka -> sden kb -> sden kc -> bool) : kern :=
  mkK 3 e (fun xs => lift3 ka kb kc kr jax (x0 xs) (x1 xs) (x2 xs)) (dom3 ka kb kc p).

Definition is_root_op (e : kx) : Prop := match e with KVar _ => False | _ => True end.
Lemma K1_ok ka kr e (low jax : sden ka -> sden kr) p :
  is_root_op e -> kok 1 e -> kuses 0 e ->
  (forall x, kev_s e [inj ka x] = inj kr (low x)) -> (forall x, p x = true -> low x = jax x) ->
  kern_ok (K1 ka kr e jax p).
Proof.
  intros Hr Hk Hu Hs Hc. unfold kern_ok, K1; simpl. repeat split; auto.
  - intros i Hi. assert (i = 0%nat) as -> by lia. exact Hu.
  - intros xs Hl Hd. destruct xs as [|x [|? ?]]; try discriminate. unfold dom1 in Hd.
    apply andb_prop in Hd as [Hx Hp]. rewrite (has_k_inj ka x Hx), Hs. unfold lift1, x0. simpl. rewrite prj_inj. f_equal. now apply Hc.
Qed.
Lemma K2_ok ka kb kr e (low jax : sden ka -> sden kb -> sden kr) p :
  is_root_op e -> kok 2 e -> kuses 0 e -> kuses 1 e ->
  (forall x y, kev_s e [inj ka x; inj kb y] = inj kr (low x y)) -> (forall x y, p x y = true -> low x y = jax x y) ->
  kern_ok (K2 ka kb kr e jax p).
Proof.
  intros Hr Hk Hu0 Hu1 Hs Hc. unfold kern_ok, K2; simpl. repeat split; auto.
  - intros i Hi. destruct i as [|[|i]]; [exact Hu0 | exact Hu1 | lia].
  - intros xs Hl Hd. destruct xs as [|x [|y [|? ?]]]; try discriminate. unfold dom2 in Hd.
    apply andb_prop in Hd as [Hd Hp]. apply andb_prop in Hd as [Hx Hy].
    rewrite (has_k_inj ka x Hx), (has_k_inj kb y Hy), Hs. unfold lift2, x0, x1. simpl. rewrite !prj_inj. f_equal. now apply Hc.
Qed.
Lemma K3_ok ka kb kc kr e (low jax : sden ka -> sden kb -> sden kc -> sden kr) p :
  is_root_op e -> kok 3 e -> kuses 0 e -> kuses 1 e -> kuses 2 e ->
  (forall x y z, kev_s e [inj ka x; inj kb y; inj kc z] = inj kr (low x y z)) ->
  (forall x y z, p x y z = true -> low x y z = jax x y z) ->
  kern_ok (K3 ka kb kc kr e jax p).
Proof.
  intros Hr Hk Hu0 Hu1 Hu2 Hs Hc. unfold kern_ok, K3; simpl. repeat split; auto.
  - intros i Hi. destruct i as [|[|[|i]]]; [exact Hu0 | exact Hu1 | exact Hu2 | lia].
  - intros xs Hl Hd. destruct xs as [|x [|y [|z [|? ?]]]]; try discriminate. unfold dom3 in Hd.
    apply andb_prop in Hd as [Hd Hp]. apply andb_prop in Hd as [Hd Hz]. apply andb_prop in Hd as [Hx Hy].
    rewrite (has_k_inj ka x Hx), (has_k_inj kb y Hy), (has_k_inj kc z Hz), Hs. unfold lift3, x0, x1, x2. simpl. rewrite !prj_inj.
    f_equal. now apply Hc.
Qed.

(* decidable domains *)
Definition in_intb (sb : ity) (z : Z) : bool := (int_lo sb <=? z) && (z <=? int_hi sb).
Lemma in_intb_spec sb z : in_intb sb z = true -> in_int sb z.
Proof. unfold in_intb, in_int. intro H. apply andb_prop in H as [H1 H2]. lia. Qed.
Definition div_domb (sb : ity) (x y : Z) : bool := negb (y =? 0) && negb (is_signed sb && (x =? int_lo sb) && (y =? -1)).
Lemma div_domb_spec sb x y : div_domb sb x y = true -> div_dom sb x y.
Proof.
  unfold div_domb, div_dom. intro H. apply andb_prop in H as [H1 H2]. apply negb_true_iff in H1, H2. split; [lia|].
  intros (Hs & Hx & Hy). rewrite Hs, Hx, Hy, !Z.eqb_refl in H2. discriminate.
Qed.
Definition frac_okb (q : frac) : bool := 0 <? snd q.
Lemma frac_okb_spec q : frac_okb q = true -> frac_ok q.
Proof. unfold frac_okb, frac_ok. lia. Qed.
Definition tt1 {A} : A -> bool := fun _ => true.
Definition tt2 {A B} : A -> B -> bool := fun _ _ => true.
Definition tt3 {A B C} : A -> B -> C -> bool := fun _ _ _ => true.

(* the primitive-level kernels (operand order of the JAX primitive) *)
Definition ke_clamp_p : kx := KOp2 OMin (KOp2 OMax v1 v0) v2.          (* lax.clamp(lo, x, hi) *)

Section IntKernels.
  Variable sb : ity.
  Definition zin2 (x y : Z) : bool := in_intb sb x && in_intb sb y.
  Definition ki_add := K2 SZ SZ SZ (ke_add sb) (jax_add sb) zin2.
  Definition ki_sub := K2 SZ SZ SZ (ke_sub sb) (jax_sub sb) zin2.
  Definition ki_mul := K2 SZ SZ SZ (ke_mul sb) (jax_mul sb) zin2.
  Definition ki_neg := K1 SZ SZ (ke_neg sb) (jax_neg sb) (in_intb sb).
  Definition ki_sign := K1 SZ SZ (ke_sign sb) (jax_sign sb) (in_intb sb).
  Definition ki_abs := K1 SZ SZ (ke_abs sb) (jax_abs sb) (fun x => is_signed sb && in_intb sb x).
  Definition ki_div := K2 SZ SZ SZ (ke_div sb) (jax_div sb) (fun x y => zin2 x y && div_domb sb x y).
  Definition ki_rem := K2 SZ SZ SZ (ke_rem sb) (jax_rem sb) (fun x y => zin2 x y && negb (y =? 0)).
  Definition ki_floor_divide := K2 SZ SZ SZ (ke_floor_divide sb) (jax_floor_divide sb) (fun x y => zin2 x y && div_domb sb x y).
  Definition ki_fmod := K2 SZ SZ SZ (ke_rem sb) (jax_fmod sb) (fun x y => zin2 x y && negb (y =? 0)).   (* jnp.fmod's plugin: no zero guard *)
  Definition ki_clip_op := K3 SZ SZ SZ SZ ke_clip_op jax_clip tt3.
  Definition ki_relu := K1 SZ SZ (ke_relu sb) jax_relu (in_intb sb).
  Definition ki_max := K2 SZ SZ SZ ke_max jax_max zin2.
  Definition ki_min := K2 SZ SZ SZ ke_min jax_min zin2.
  Definition ki_clamp := K3 SZ SZ SZ SZ ke_clamp_p (fun lo x hi => jax_clamp x lo hi) tt3.
  Definition ki_clip := K3 SZ SZ SZ SZ ke_clamp jax_clip tt3.
  Definition ki_select_n := K3 SB SZ SZ SZ ke_select_n jax_select_n tt3.
  Definition ki_where := K3 SB SZ SZ SZ ke_where jax_where tt3.
  Definition ki_and := K2 SZ SZ SZ (ke_bitand sb) (jax_bitand sb) tt2.
  Definition ki_or := K2 SZ SZ SZ (ke_bitor sb) (jax_bitor sb) tt2.
  Definition ki_xor := K2 SZ SZ SZ (ke_bitxor sb) (jax_bitxor sb) tt2.
  Definition ki_not := K1 SZ SZ (ke_bitnot sb) (jax_bitnot sb) (in_intb sb).
  Definition shift_ok (x s : Z) : bool := zin2 x s && (0 <=? s).
  Definition ki_shl := K2 SZ SZ SZ (ke_shift_left sb) (jax_shift_left sb) shift_ok.
  Definition ki_srl := K2 SZ SZ SZ (ke_shift_right_logical sb) (jax_shift_right_logical sb) shift_ok.
  Definition ki_sra := K2 SZ SZ SZ (ke_shift_right_arithmetic sb) (jax_shift_right_arithmetic sb) shift_ok.
  Definition ki_eq := K2 SZ SZ SB ke_eq jax_eq tt2.
  Definition ki_ne := K2 SZ SZ SB ke_ne jax_ne tt2.
  Definition ki_lt := K2 SZ SZ SB ke_lt jax_lt tt2.
  Definition ki_le := K2 SZ SZ SB ke_le jax_le tt2.
  Definition ki_gt := K2 SZ SZ SB ke_gt jax_gt tt2.
  Definition ki_ge := K2 SZ SZ SB ke_ge jax_ge tt2.
  Definition ki_ipow (n : nat) := K1 SZ SZ (ke_integer_pow sb n) (fun x => jax_integer_pow sb x n) (in_intb sb).
  Definition ki_convert_to := K1 SZ SZ (ke_convert_int sb) (jax_convert_int sb) tt1.       (* any integer type -> sb *)
  Definition ki_to_bool := K1 SZ SB ke_convert_to_bool jax_convert_to_bool tt1.
  Definition ki_from_bool := K1 SB SZ (ke_convert_of_bool sb) (jax_convert_of_bool sb) tt1.

  Hypothesis Hb : 0 < snd sb.
  Ltac kok_tac := unfold ke_neg, ke_shift_left, ke_shift_right_logical, ke_shift_right_arithmetic,
                    ke_sra_signed, ke_sra_unsigned, ke_sra_mask, ke_rem, ke_rem_of, utwin;
                  repeat (cbn; try match goal with |- context [if is_signed ?s then _ else _] => destruct (is_signed s) end);
                  repeat split; auto; try lia.
  Ltac root_tac := unfold is_root_op, ke_neg, ke_shift_left, ke_shift_right_logical, ke_shift_right_arithmetic;
                   repeat (cbn; try match goal with |- context [if is_signed ?s then _ else _] => destruct (is_signed s) end); exact I.
  Ltac zin_tac H := unfold zin2 in H; apply andb_prop in H;
                    let Hx := fresh "Hx" in let Hy := fresh "Hy" in
                    destruct H as [Hx Hy]; apply in_intb_spec in Hx; apply in_intb_spec in Hy.

  Lemma ki_add_ok : kern_ok ki_add. Proof. apply (K2_ok SZ SZ SZ (ke_add sb) (lowered_add sb)); try kuses_tac; try root_tac; try solve [kok_tac]; try reflexivity. Qed.
  Lemma ki_sub_ok : kern_ok ki_sub. Proof. apply (K2_ok SZ SZ SZ (ke_sub sb) (lowered_sub sb)); try kuses_tac; try root_tac; try solve [kok_tac]; try reflexivity. Qed.
  Lemma ki_mul_ok : kern_ok ki_mul. Proof. apply (K2_ok SZ SZ SZ (ke_mul sb) (lowered_mul sb)); try kuses_tac; try root_tac; try solve [kok_tac]; try reflexivity. Qed.
  Lemma ki_neg_ok : kern_ok ki_neg.
  Proof.
    apply (K1_ok SZ SZ (ke_neg sb) (lowered_neg sb)); try kuses_tac; try root_tac; try solve [kok_tac].
    - intro x. apply ke_neg_sound. - intros x H. apply in_intb_spec in H. now apply neg_correct.
  Qed.
  Lemma ki_sign_ok : kern_ok ki_sign.
  Proof.
    apply (K1_ok SZ SZ (ke_sign sb) (lowered_sign sb)); try kuses_tac; try root_tac; try solve [kok_tac].
    intros x H. apply in_intb_spec in H. now apply sign_correct.
  Qed.
  Lemma ki_abs_ok : kern_ok ki_abs.
  Proof.
    apply (K1_ok SZ SZ (ke_abs sb) (lowered_abs sb)); try kuses_tac; try root_tac; try solve [kok_tac].
    intros x H. apply andb_prop in H as [Hs H]. apply in_intb_spec in H. now apply abs_correct.
  Qed.
  Lemma ki_div_ok : kern_ok ki_div.
  Proof.
    apply (K2_ok SZ SZ SZ (ke_div sb) (lowered_div sb)); try kuses_tac; try root_tac; try solve [kok_tac].
    intros x y H. apply andb_prop in H as [H Hd]. apply div_domb_spec in Hd. zin_tac H. now apply div_correct.
  Qed.
  Lemma ki_rem_ok : kern_ok ki_rem.
  Proof.
    apply (K2_ok SZ SZ SZ (ke_rem sb) (lowered_rem sb)); try kuses_tac; try root_tac; try solve [kok_tac].
    intros x y H. apply andb_prop in H as [H Hd]. apply negb_true_iff in Hd. zin_tac H. apply rem_correct; auto. lia.
  Qed.
  Lemma ki_floor_divide_ok : kern_ok ki_floor_divide.
  Proof.
    apply (K2_ok SZ SZ SZ (ke_floor_divide sb) (lowered_floor_divide sb)); try kuses_tac; try root_tac; try solve [kok_tac]; try reflexivity.
    intros x y H. apply andb_prop in H as [H Hd]. apply div_domb_spec in Hd. zin_tac H. now apply floor_divide_correct.
  Qed.
  Lemma ki_fmod_ok : kern_ok ki_fmod.
  Proof.
    apply (K2_ok SZ SZ SZ (ke_rem sb) (lowered_rem sb)); try kuses_tac; try root_tac; try solve [kok_tac]; try reflexivity.
    intros x y H. apply andb_prop in H as [H Hd]. apply negb_true_iff in Hd. zin_tac H. unfold jax_fmod. rewrite Hd.
    apply rem_correct; auto. lia.
  Qed.
  Lemma ki_clip_op_ok : kern_ok ki_clip_op.
  Proof. apply (K3_ok SZ SZ SZ SZ ke_clip_op lowered_clip_op); try kuses_tac; try root_tac; try solve [kok_tac]; try reflexivity; try (intros; apply clip_op_correct). Qed.
  Lemma ki_relu_ok : kern_ok ki_relu.
  Proof.
    apply (K1_ok SZ SZ (ke_relu sb) (lowered_relu sb)).
    - unfold is_root_op, ke_relu. destruct (is_signed sb); exact I.
    - unfold ke_relu. destruct (is_signed sb); cbn; repeat split; auto; lia.
    - unfold ke_relu. destruct (is_signed sb); cbn; tauto.
    - intro x. apply ke_relu_sound.
    - intros x H. apply in_intb_spec in H. now apply relu_correct.
  Qed.
  Lemma ki_max_ok : kern_ok ki_max. Proof. apply (K2_ok SZ SZ SZ ke_max lowered_max); try kuses_tac; try root_tac; try solve [kok_tac]; try reflexivity; try (intros; apply max_correct). Qed.
  Lemma ki_min_ok : kern_ok ki_min. Proof. apply (K2_ok SZ SZ SZ ke_min lowered_min); try kuses_tac; try root_tac; try solve [kok_tac]; try reflexivity; try (intros; apply min_correct). Qed.
  Lemma ki_clamp_ok : kern_ok ki_clamp.
  Proof. apply (K3_ok SZ SZ SZ SZ ke_clamp_p (fun lo x hi => lowered_clamp x lo hi)); try kuses_tac; try root_tac; try solve [kok_tac]; try reflexivity; try (intros; apply clamp_correct). Qed.
  Lemma ki_clip_ok : kern_ok ki_clip.
  Proof. apply (K3_ok SZ SZ SZ SZ ke_clamp lowered_clip); try kuses_tac; try root_tac; try solve [kok_tac]; try reflexivity; try (intros; apply clip_correct). Qed.
  Lemma ki_select_n_ok : kern_ok ki_select_n.
  Proof. apply (K3_ok SB SZ SZ SZ ke_select_n lowered_select_n); try kuses_tac; try root_tac; try solve [kok_tac]; try reflexivity. Qed.
  Lemma ki_where_ok : kern_ok ki_where.
  Proof. apply (K3_ok SB SZ SZ SZ ke_where lowered_where); try kuses_tac; try root_tac; try solve [kok_tac]; try reflexivity. Qed.
  Lemma ki_and_ok : kern_ok ki_and. Proof. apply (K2_ok SZ SZ SZ (ke_bitand sb) (lowered_bitand sb)); try kuses_tac; try root_tac; try solve [kok_tac]; try reflexivity. Qed.
  Lemma ki_or_ok : kern_ok ki_or. Proof. apply (K2_ok SZ SZ SZ (ke_bitor sb) (lowered_bitor sb)); try kuses_tac; try root_tac; try solve [kok_tac]; try reflexivity. Qed.
  Lemma ki_xor_ok : kern_ok ki_xor. Proof. apply (K2_ok SZ SZ SZ (ke_bitxor sb) (lowered_bitxor sb)); try kuses_tac; try root_tac; try solve [kok_tac]; try reflexivity. Qed.
  Lemma ki_not_ok : kern_ok ki_not.
  Proof.
    apply (K1_ok SZ SZ (ke_bitnot sb) (lowered_bitnot sb)); try kuses_tac; try root_tac; try solve [kok_tac].
    intros x H. apply in_intb_spec in H. now apply bitnot_correct.
  Qed.
  Lemma ki_shl_ok : kern_ok ki_shl.
  Proof.
    apply (K2_ok SZ SZ SZ (ke_shift_left sb) (lowered_shift_left sb)); try kuses_tac; try root_tac; try solve [kok_tac].
    - intros x y. apply ke_shift_left_sound. - intros x s H. apply andb_prop in H as [H H0]. zin_tac H. apply shift_left_correct; auto. lia.
  Qed.
  Lemma ki_srl_ok : kern_ok ki_srl.
  Proof.
    apply (K2_ok SZ SZ SZ (ke_shift_right_logical sb) (lowered_shift_right_logical sb)); try kuses_tac; try root_tac; try solve [kok_tac].
    - intros x y. apply ke_shift_right_logical_sound.
    - intros x s H. unfold shift_ok in H. apply andb_prop in H as [H H0]. zin_tac H. apply shift_right_logical_correct; auto. lia.
  Qed.
  Lemma kok_sra_mask (ub : ity) sc n : 0 <= snd ub -> kok n sc -> kok n (ke_sra_mask ub sc).
  Proof. intros H0 H. unfold ke_sra_mask, kz. cbn [kok oarity osb_ok]. repeat split; auto. Qed.
  Lemma kok_sra_signed : kok 2 (ke_sra_signed sb).
  Proof.
    assert (H0 : 0 <= snd sb) by lia.
    unfold ke_sra_signed, kz, v0, v1. cbn [kok oarity osb_ok snd].
    repeat split; auto; try lia; try (cbn [kok]; lia); apply kok_sra_mask; cbn [kok oarity osb_ok snd]; repeat split; auto; try lia; cbn [kok]; lia.
  Qed.
  Lemma kok_sra_unsigned : kok 2 (ke_sra_unsigned sb).
  Proof.
    assert (H0 : 0 <= snd sb) by lia.
    unfold ke_sra_unsigned, kz, v0, v1. cbn [kok oarity osb_ok snd].
    repeat split; auto; try lia; try (cbn [kok]; lia); apply kok_sra_mask; cbn [kok oarity osb_ok snd]; repeat split; auto; try lia; cbn [kok]; lia.
  Qed.
  Lemma ki_sra_ok : kern_ok ki_sra.
  Proof.
    apply (K2_ok SZ SZ SZ (ke_shift_right_arithmetic sb) (lowered_shift_right_arithmetic sb)).
    - unfold ke_shift_right_arithmetic. destruct (is_signed sb); exact I.
    - unfold ke_shift_right_arithmetic. destruct (is_signed sb); [apply kok_sra_signed | apply kok_sra_unsigned].
    - unfold ke_shift_right_arithmetic, ke_sra_signed, ke_sra_unsigned, v0. destruct (is_signed sb); cbn [kuses]; tauto.
    - unfold ke_shift_right_arithmetic, ke_sra_signed, ke_sra_unsigned, v1. destruct (is_signed sb); cbn [kuses]; tauto.
    - intros x y. apply ke_shift_right_arithmetic_sound.
    - intros x s H. unfold shift_ok in H. apply andb_prop in H as [H H0]. zin_tac H. apply shift_right_arithmetic_correct; auto. lia.
  Qed.
  Lemma ki_eq_ok : kern_ok ki_eq. Proof. apply (K2_ok SZ SZ SB ke_eq lowered_eq); try kuses_tac; try root_tac; try solve [kok_tac]; try reflexivity. Qed.
  Lemma ki_ne_ok : kern_ok ki_ne. Proof. apply (K2_ok SZ SZ SB ke_ne lowered_ne); try kuses_tac; try root_tac; try solve [kok_tac]; try reflexivity. Qed.
  Lemma ki_lt_ok : kern_ok ki_lt. Proof. apply (K2_ok SZ SZ SB ke_lt lowered_lt); try kuses_tac; try root_tac; try solve [kok_tac]; try reflexivity. Qed.
  Lemma ki_le_ok : kern_ok ki_le. Proof. apply (K2_ok SZ SZ SB ke_le lowered_le); try kuses_tac; try root_tac; try solve [kok_tac]; try reflexivity; try (intros; apply le_correct). Qed.
  Lemma ki_gt_ok : kern_ok ki_gt. Proof. apply (K2_ok SZ SZ SB ke_gt lowered_gt); try kuses_tac; try root_tac; try solve [kok_tac]; try reflexivity; try (intros; apply gt_correct). Qed.
  Lemma ki_ge_ok : kern_ok ki_ge. Proof. apply (K2_ok SZ SZ SB ke_ge lowered_ge); try kuses_tac; try root_tac; try solve [kok_tac]; try reflexivity; try (intros; apply ge_correct). Qed.
  Lemma ke_mul_chain_kok k : kok 1 (ke_mul_chain sb k).
  Proof. induction k as [|k IH]; cbn; [lia|]. repeat split; auto; try lia; cbn; lia. Qed.
  Lemma ke_mul_chain_uses k : kuses 0 (ke_mul_chain sb k).
  Proof. induction k as [|k IH]; cbn; auto. Qed.
  Lemma ki_ipow_ok n : kern_ok (ki_ipow n).
  Proof.
    apply (K1_ok SZ SZ (ke_integer_pow sb n) (fun x => lowered_integer_pow sb x n)).
    - destruct n as [|[|k]]; exact I.
    - destruct n as [|[|k]]; [cbn; repeat split; auto; lia | cbn; repeat split; auto | apply (ke_mul_chain_kok (S k))].
    - destruct n as [|[|k]]; [cbn; tauto | cbn; tauto | apply (ke_mul_chain_uses (S k))].
    - intro x. apply ke_integer_pow_sound.
    - intros x H. apply in_intb_spec in H. now apply integer_pow_correct.
  Qed.
  Lemma ki_convert_to_ok : kern_ok ki_convert_to.
  Proof. apply (K1_ok SZ SZ (ke_convert_int sb) (lowered_convert_int sb)); try kuses_tac; try root_tac; try solve [kok_tac]; try reflexivity. Qed.
  Lemma ki_to_bool_ok : kern_ok ki_to_bool.
  Proof. apply (K1_ok SZ SB ke_convert_to_bool lowered_convert_to_bool); try kuses_tac; try root_tac; try solve [kok_tac]; try reflexivity; try (intros; apply convert_to_bool_correct). Qed.
  Lemma ki_from_bool_ok : kern_ok ki_from_bool.
  Proof. apply (K1_ok SB SZ (ke_convert_of_bool sb) (lowered_convert_of_bool sb)); try kuses_tac; try root_tac; try solve [kok_tac]; try reflexivity. Qed.
End IntKernels.

Definition kb_and := K2 SB SB SB ke_bool_and jax_bool_and tt2.
Definition kb_or := K2 SB SB SB ke_bool_or jax_bool_or tt2.
Definition kb_xor := K2 SB SB SB ke_bool_xor jax_bool_xor tt2.
Definition kb_not := K1 SB SB ke_bool_not jax_bool_not tt1.
Definition kb_eq := K2 SB SB SB ke_eq_b jax_eq_b tt2.
Definition kb_ne := K2 SB SB SB ke_ne_b jax_ne_b tt2.
Definition kb_select_n := K3 SB SB SB SB ke_select_n_b jax_select_n_b tt3.
Definition kb_where := K3 SB SB SB SB ke_where_b jax_where_b tt3.
Definition kq_floor := K1 SQ SZ ke_floor jax_floor frac_okb.
Definition kq_ceil := K1 SQ SZ ke_ceil jax_ceil frac_okb.
Definition kq_round_even := K1 SQ SZ ke_round jax_round_even frac_okb.
Definition kq_round_away := K1 SQ SZ ke_round_away jax_round_away frac_okb.
Ltac kokb_tac := repeat (cbn; repeat split; auto; try lia).
Lemma kb_and_ok : kern_ok kb_and. Proof. apply (K2_ok SB SB SB ke_bool_and lowered_bool_and); try kuses_tac; try exact I; try solve [kokb_tac]; try reflexivity; try (intros; apply bool_and_correct). Qed.
Lemma kb_or_ok : kern_ok kb_or. Proof. apply (K2_ok SB SB SB ke_bool_or lowered_bool_or); try kuses_tac; try exact I; try solve [kokb_tac]; try reflexivity; try (intros; apply bool_or_correct). Qed.
Lemma kb_xor_ok : kern_ok kb_xor. Proof. apply (K2_ok SB SB SB ke_bool_xor lowered_bool_xor); try kuses_tac; try exact I; try solve [kokb_tac]; try reflexivity; try (intros; apply bool_xor_correct). Qed.
Lemma kb_not_ok : kern_ok kb_not. Proof. apply (K1_ok SB SB ke_bool_not lowered_bool_not); try kuses_tac; try exact I; try solve [kokb_tac]; try reflexivity; try (intros; apply bool_not_correct). Qed.
Lemma kb_eq_ok : kern_ok kb_eq. Proof. apply (K2_ok SB SB SB ke_eq_b lowered_eq_b); try kuses_tac; try exact I; try solve [kokb_tac]; try reflexivity; try (intros; apply eq_b_correct). Qed.
Lemma kb_ne_ok : kern_ok kb_ne. Proof. apply (K2_ok SB SB SB ke_ne_b lowered_ne_b); try kuses_tac; try exact I; try solve [kokb_tac]; try reflexivity; try (intros; apply ne_b_correct). Qed.
Lemma kb_select_n_ok : kern_ok kb_select_n. Proof. apply (K3_ok SB SB SB SB ke_select_n_b lowered_select_n_b); try kuses_tac; try exact I; try solve [kokb_tac]; try reflexivity. Qed.
Lemma kb_where_ok : kern_ok kb_where. Proof. apply (K3_ok SB SB SB SB ke_where_b lowered_where_b); try kuses_tac; try exact I; try solve [kokb_tac]; try reflexivity. Qed.
Lemma kq_floor_ok : kern_ok kq_floor. Proof. apply (K1_ok SQ SZ ke_floor lowered_floor); try kuses_tac; try exact I; try solve [kokb_tac]; try reflexivity. Qed.
Lemma kq_ceil_ok : kern_ok kq_ceil.
Proof. apply (K1_ok SQ SZ ke_ceil lowered_ceil); try kuses_tac; try exact I; try solve [kokb_tac]; try reflexivity. intros q H. apply ceil_correct. now apply frac_okb_spec. Qed.
Lemma kq_round_even_ok : kern_ok kq_round_even.
Proof. apply (K1_ok SQ SZ ke_round lowered_round); try kuses_tac; try exact I; try solve [kokb_tac]; try reflexivity. intros q H. apply round_even_correct. now apply frac_okb_spec. Qed.
Lemma kq_round_away_ok : kern_ok kq_round_away.
Proof. apply (K1_ok SQ SZ ke_round_away lowered_round_away); try kuses_tac; try exact I; try solve [kokb_tac]; try reflexivity. intros q H. apply round_away_correct. now apply frac_okb_spec. Qed.

(* the table: primitive name @ element type -> kernel (the element type of the operands selects the variant, as the
   plugins do from the avals; static parameters are part of the name) *)
Local Open Scope string_scope.
Definition int_entries (nm : string) (sb : ity) : list (string * kern) :=
  [("add:" ++ nm, ki_add sb); ("sub:" ++ nm, ki_sub sb); ("mul:" ++ nm, ki_mul sb); ("neg:" ++ nm, ki_neg sb);
   ("sign:" ++ nm, ki_sign sb); ("div:" ++ nm, ki_div sb); ("rem:" ++ nm, ki_rem sb); ("max:" ++ nm, ki_max sb);
   ("min:" ++ nm, ki_min sb); ("floor_divide:" ++ nm, ki_floor_divide sb); ("fmod:" ++ nm, ki_fmod sb);
   ("clip_op:" ++ nm, ki_clip_op); ("relu:" ++ nm, ki_relu sb); ("clamp:" ++ nm, ki_clamp); ("clip:" ++ nm, ki_clip); ("select_n:" ++ nm, ki_select_n);
   ("where:" ++ nm, ki_where); ("and:" ++ nm, ki_and sb); ("or:" ++ nm, ki_or sb); ("xor:" ++ nm, ki_xor sb);
   ("not:" ++ nm, ki_not sb); ("shift_left:" ++ nm, ki_shl sb); ("shift_right_logical:" ++ nm, ki_srl sb);
   ("shift_right_arithmetic:" ++ nm, ki_sra sb); ("eq:" ++ nm, ki_eq); ("ne:" ++ nm, ki_ne); ("lt:" ++ nm, ki_lt);
   ("le:" ++ nm, ki_le); ("gt:" ++ nm, ki_gt); ("ge:" ++ nm, ki_ge);
   ("integer_pow0:" ++ nm, ki_ipow sb 0); ("integer_pow1:" ++ nm, ki_ipow sb 1); ("integer_pow2:" ++ nm, ki_ipow sb 2);
   ("integer_pow3:" ++ nm, ki_ipow sb 3); ("integer_pow4:" ++ nm, ki_ipow sb 4);
   ("convert_element_type>" ++ nm, ki_convert_to sb); ("convert_element_type:" ++ nm ++ ">bool", ki_to_bool);
   ("convert_element_type:bool>" ++ nm, ki_from_bool sb)].
Definition signed_entries (nm : string) (sb : ity) : list (string * kern) := [("abs:" ++ nm, ki_abs sb)].
Definition other_entries : list (string * kern) :=
  [("and:bool", kb_and); ("or:bool", kb_or); ("xor:bool", kb_xor); ("not:bool", kb_not); ("eq:bool", kb_eq); ("ne:bool", kb_ne);
   ("select_n:bool", kb_select_n); ("where:bool", kb_where);
   ("floor:float", kq_floor); ("ceil:float", kq_ceil); ("round[TO_NEAREST_EVEN]:float", kq_round_even);
   ("round[AWAY_FROM_ZERO]:float", kq_round_away)].
Definition std_named : list (string * ity) :=
  [("int8", I8); ("int16", I16); ("int32", I32); ("int64", I64); ("uint8", U8); ("uint16", U16); ("uint32", U32); ("uint64", U64)].
Definition signed_named : list (string * ity) := [("int8", I8); ("int16", I16); ("int32", I32); ("int64", I64)].
Definition exact_entries : list (string * kern) :=
  flat_map (fun p => int_entries (fst p) (snd p)) std_named ++ flat_map (fun p => signed_entries (fst p) (snd p)) signed_named
  ++ other_entries.
Local Close Scope string_scope.
Fixpoint lookup_k (p : string) (l : list (string * kern)) : option kern :=
  match l with [] => None | (q, k) :: r => if String.eqb q p then Some k else lookup_k p r end.
Definition exact_table : ktable := fun p => lookup_k p exact_entries.

Lemma lookup_k_In p l k : lookup_k p l = Some k -> In k (map snd l).
Proof.
  induction l as [|[q k'] l IH]; simpl; intro H; [discriminate|].
  destruct (String.eqb q p); [injection H as <-; now left | right; auto].
Qed.
Lemma int_entries_ok nm sb : 0 < snd sb -> Forall kern_ok (map snd (int_entries nm sb)).
Proof.
  intro Hb. unfold int_entries. cbn [map snd].
  repeat (constructor; [first [ apply ki_add_ok | apply ki_sub_ok | apply ki_mul_ok | apply ki_neg_ok | apply ki_sign_ok
    | apply ki_div_ok | apply ki_rem_ok | apply ki_floor_divide_ok | apply ki_fmod_ok | apply ki_clip_op_ok | apply ki_relu_ok | apply ki_max_ok | apply ki_min_ok | apply ki_clamp_ok | apply ki_clip_ok
    | apply ki_select_n_ok | apply ki_where_ok | apply ki_and_ok | apply ki_or_ok | apply ki_xor_ok | apply ki_not_ok
    | apply ki_shl_ok | apply ki_srl_ok | apply ki_sra_ok | apply ki_eq_ok | apply ki_ne_ok | apply ki_lt_ok | apply ki_le_ok
    | apply ki_gt_ok | apply ki_ge_ok | apply ki_ipow_ok | apply ki_convert_to_ok | apply ki_to_bool_ok | apply ki_from_bool_ok ];
    exact Hb |]).
  constructor.
Qed.
Theorem exact_table_ok : forall p k, exact_table p = Some k -> kern_ok k.
Proof.
  intros p k H. apply lookup_k_In in H. unfold exact_entries in H. rewrite !map_app in H.
  apply in_app_or in H as [H|H]; [|apply in_app_or in H as [H|H]].
  - apply in_map_iff in H as ([q k'] & <- & H). apply in_flat_map in H as ([nm sb] & Hs & H).
    assert (Hb : 0 < snd sb) by (simpl in Hs; repeat (destruct Hs as [Hs|Hs]; [inversion Hs; simpl; lia|]); contradiction).
    pose proof (int_entries_ok nm sb Hb) as F. rewrite Forall_forall in F. apply F. apply in_map_iff. exists (q, k'). auto.
  - apply in_map_iff in H as ([q k'] & <- & H). apply in_flat_map in H as ([nm sb] & Hs & H).
    assert (Hb : 0 < snd sb) by (simpl in Hs; repeat (destruct Hs as [Hs|Hs]; [inversion Hs; simpl; lia|]); contradiction).
    simpl in H. destruct H as [H|[]]. inversion H; subst. now apply ki_abs_ok.
  - simpl in H.
    repeat (destruct H as [<-|H]; [first [apply kb_and_ok | apply kb_or_ok | apply kb_xor_ok | apply kb_not_ok | apply kb_eq_ok
      | apply kb_ne_ok | apply kb_select_n_ok | apply kb_where_ok | apply kq_floor_ok | apply kq_ceil_ok | apply kq_round_even_ok
      | apply kq_round_away_ok]|]).
    contradiction.
Qed.

(* THE PROGRAM-LEVEL THEOREM for the table of exact kernels *)
Theorem exact_table_fragment_correct lit :
  forall jp s s', slower_jaxpr (kreg exact_table) s jp = Ok s' ->
  forall r g r', related cten s r g -> jeval cten (kpsem exact_table) lit jp r = Some r' ->
  exists new g', s_nodes s' = s_nodes s ++ new /\ eval cten (kgsem lit) new g = Some g' /\
                 genv_le cten g g' /\ related cten s' r' g'.
Proof. exact (exact_fragment_correct exact_table lit exact_table_ok). Qed.

(* ---------------------------------------------------------------- non-vacuity: a broadcasting four-equation program
   where(x < y, x * 3 - y, y)  with x : int32[2,3], y : int32[3], the literal 3 *)
Local Open Scope string_scope.
Definition ex_lit3 : cten := tcanon (tscalar (VZ 3)).
Definition ex_prog : jaxpr :=
  ([mkEqn "lt:int32" [IVar 0; IVar 1] [Some 2]; mkEqn "mul:int32" [IVar 0; ILit] [Some 3];
    mkEqn "sub:int32" [IVar 3; IVar 1] [Some 4]; mkEqn "select_n:int32" [IVar 2; IVar 1; IVar 4] [Some 5]])%nat.
Definition ex_s0 : sctx := mkS [(1, 1); (0, 0)]%nat [0; 1]%nat [].
Definition ex_cx : cten := mkC [2; 3]%nat (map VZ [1; 5; -7; 2147483647; 0; 4]).
Definition ex_cy : cten := mkC [3]%nat (map VZ [2; 5; -9]).
Definition ex_g0 : env cten := fun n => match n with 0%nat => Some ex_cx | 1%nat => Some ex_cy | _ => None end.
Definition ex_r0 : jenv cten := fun v => match v with 0%nat => Some ex_cx | 1%nat => Some ex_cy | _ => None end.
Example ex_prog_lowers :
  match slower_jaxpr (kreg exact_table) ex_s0 ex_prog with
  | Ok s' => map (fun n => (n_op n, n_ins n, n_outs n)) (s_nodes s')
  | Err _ => []
  end = [("Less", [0; 1], [2]); ("Literal", [], [3]); ("Mul", [0; 3], [4]); ("Sub", [4; 1], [5]); ("Where", [2; 5; 1], [6])]%nat.
Proof. vm_compute. reflexivity. Qed.
Example ex_prog_jax : match jeval cten (kpsem exact_table) ex_lit3 ex_prog ex_r0 with Some r' => r' 5%nat | None => None end
  = Some (mkC [2; 3]%nat (map VZ [1; 5; -9; 2; -5; -9])).
Proof. vm_compute. reflexivity. Qed.
Example ex_prog_onnx :
  match slower_jaxpr (kreg exact_table) ex_s0 ex_prog with
  | Ok s' => match eval cten (kgsem ex_lit3) (s_nodes s') ex_g0 with Some g' => g' 6%nat | None => None end
  | Err _ => None
  end = Some (mkC [2; 3]%nat (map VZ [1; 5; -9; 2; -5; -9])).
Proof. vm_compute. reflexivity. Qed.
Local Close Scope string_scope.

(* ================================================================ composing kernel graphs (what a multi-equation program lowers to) *)
Fixpoint ksubst (e : kx) (args : list kx) : kx :=
  match e with
  | KVar i => nth i args (KVar i)
  | KConst c => KConst c
  | KOp1 o a => KOp1 o (ksubst a args)
  | KOp2 o a b => KOp2 o (ksubst a args) (ksubst b args)
  | KOp3 o a b c => KOp3 o (ksubst a args) (ksubst b args) (ksubst c args)
  end.
(* the scalar function of a composed graph is the composition of the scalar functions *)
Lemma kev_s_ksubst e : forall args xs, kok (length args) e ->
  kev_s (ksubst e args) xs = kev_s e (map (fun a => kev_s a xs) args).
Proof.
  induction e as [i|c|o a IHa|o a IHa b IHb|o a IHa b IHb c IHc]; intros args xs Hk; simpl in *.
  - change (kev_s (KVar i) (map (fun a => kev_s a xs) args)) with (nth i (map (fun a => kev_s a xs) args) sv0).
    rewrite (nth_indep _ sv0 ((fun a => kev_s a xs) (KVar i))) by (now rewrite map_length).
    now rewrite (map_nth (fun a => kev_s a xs) args (KVar i) i).
  - reflexivity.
  - destruct Hk as (_ & _ & Ha). unfold kev_s in *. simpl. now rewrite IHa.
  - destruct Hk as (_ & _ & Ha & Hb). unfold kev_s in *. simpl. now rewrite IHa, IHb.
  - destruct Hk as (_ & _ & Ha & Hb & Hc). unfold kev_s in *. simpl. now rewrite IHa, IHb, IHc.
Qed.
(* the graph of a table primitive (KVar 999 when the primitive is not in the exact fragment: any comparison then fails) *)
Definition kx_of (name : string) : kx := match exact_table name with Some k => k_expr k | None => KVar 999 end.
