(* TransposeRefresh (C02): the declared-shape side of the Transpose fold passes on the common graph.  After a fold has moved
   an elementwise region to the other layout, the real passes call _refresh_elementwise_output_shape(node, rewired=True) on
   the re-wired members, producers first (chain order / breadth-first order / graph order: all topological, hence the same
   result as graph order, which is what the model uses).  [ReshapePairPass.refresh] is the model of that function (applied to
   the node with its operator normalised as _op_type does). *)
From Coq Require Import ZArith String List Bool Arith Lia.
From J2O Require Import PyLib Tensor Graph Redirect ReshapePairPass TransposePairPass TransposeAddForestPass OptGraph.
Import ListNotations.

Definition copy_ann' {B} (dst src : option B) : option B := match src with Some s => Some s | None => dst end.

(* one rewired refresh: declared shape, and the declared dtype copied from the shape source when the broadcast is known *)
Definition o_refresh_rw (g : ograph) (n0 : node) : ograph :=
  (* the function reads the operator through _op_type: "ai.onnx::Op" is Op *)
  let n := mkNode (op_type (n_op n0)) (n_attrs n0) (n_ins n0) (n_caps n0) (n_outs n0) in
  let gp := refresh (projP g) n in
  let dt := if String.eqb (n_op n) "Cast" || String.eqb (n_op n) "CastLike" || String.eqb (n_op n) "Not" then o_dtype g else
            match n_outs n, shape_source (projP g) (n_ins n), mapM (o_shape g) (n_ins n) with
            | y :: _, Some src, Some cands =>
                match broadcast_dims cands with Some _ => updf (o_dtype g) y (copy_ann' (o_dtype g y) (o_dtype g src)) | None => o_dtype g end
            | _, _, _ => o_dtype g
            end in
  mkOG (o_nodes g) (o_outputs g) dt (pg_shape gp) (o_scalar g) (o_crank g) (o_const g) (o_bool g) (o_fc g).

(* refresh, in graph order, the nodes producing one of [outs] *)
Definition o_refresh_members (outs : list name) (g : ograph) : ograph :=
  fold_left (fun g1 n => if existsb (fun y => existsb (Nat.eqb y) outs) (n_outs n) then o_refresh_rw g1 n else g1) (o_nodes g) g.

(* the members each kind of fold refreshes.  [chain_rf]: whether the chain fold of phase D, case 1 refreshes its members
   (it did not — .scratch/c02p/defect_transpose_chain_stale_shape.py —; it does since the repair: chain_rf = true) *)
Definition refreshed_outs (chain_rf : bool) (act : taction) : list name :=
  match act with
  | TAddChain st => map out_of (as_chain st)
  | TForest f => map out_of (f_es f)
  | TDag d => map out_of (d_es d)
  | TChain a => if chain_rf then chain_outs a else []
  | TMulti _ _ _ => []
  end.

Definition o_step_T (chain_rf : bool) (g : ograph) : option ograph :=
  match decide_step (projT g) with
  | Some act =>
      let gx := apply_taction (projT g) act in
      Some (o_refresh_members (refreshed_outs chain_rf act)
              (mkOG (tg_nodes gx) (tg_outputs gx) (o_dtype g) (o_shape g) (tg_scalar gx) (o_crank g) (o_const g) (o_bool g) (o_fc g)))
  | None => None
  end.

Definition o_step_F (g : ograph) : option ograph :=
  match first_some (decide_addforest (projT g)) (o_nodes g) with
  | Some f =>
      let gx := apply_forest (projT g) f in
      Some (o_refresh_members (map out_of (f_es f))
              (mkOG (tg_nodes gx) (tg_outputs gx) (o_dtype g) (o_shape g) (tg_scalar gx) (o_crank g) (o_const g) (o_bool g) (o_fc g)))
  | None => None
  end.

Fixpoint o_loop (step : ograph -> option ograph) (fuel : nat) (g : ograph) : ograph :=
  match fuel with O => g | S k => match step g with Some g' => o_loop step k g' | None => g end end.
