(* C16: facts about the TRANSLATED optimizer failure policy (gen/GenPolicy.v). *)
From Coq Require Import String List Bool.
From J2O Require Import PyLib Lowering.
From J2OGen Require Import GenPolicy.
Import ListNotations.
Local Open Scope string_scope.

(* an explicit argument always wins; without it strictness is off unless the environment value, stripped
   and lower-cased, is something other than "", "0", "false", "no", "off" *)
Theorem resolve_strict_explicit b env : resolve_strict (Some b) env = Some b.
Proof. reflexivity. Qed.
Theorem resolve_strict_default_off : resolve_strict None None = Some false.
Proof. reflexivity. Qed.
Theorem resolve_strict_env v :
  resolve_strict None (Some v) = Some (negb (str_in (str_lower (str_strip v)) [""; "0"; "false"; "no"; "off"])).
Proof. reflexivity. Qed.
Theorem resolve_strict_total a env : resolve_strict a env <> None.
Proof. destruct a as [b|]; [discriminate|]. destruct env; discriminate. Qed.

Example env_on : resolve_strict None (Some " TRUE ") = Some true. Proof. reflexivity. Qed.
Example env_off : resolve_strict None (Some " Off") = Some false. Proof. reflexivity. Qed.
Example shape_checked : failure_policy_shape_checked = true. Proof. reflexivity. Qed.

(* the policy outcome in terms of the translated decision *)
Definition policy_outcome {M} (strict_arg : option bool) (env : option string) (passes : list (M -> M))
           (fail_at : option nat) (m : M) : option (outcome M) :=
  match resolve_strict strict_arg env with
  | Some s => Some (with_policy M failure_policy_restores_input s passes fail_at m)
  | None => None
  end.

Theorem default_policy_never_raises {M} (passes : list (M -> M)) k (m : M) :
  policy_outcome None None passes (Some k) m
  = Some (Returned M (if failure_policy_restores_input then m else run_prefix M passes k m)).
Proof. reflexivity. Qed.
(* for the code whose policy restores the input (a named tie obligation says whether the current code does): a
   non-fatal optimizer failure -- at a pass boundary or in the middle of a pass -- returns exactly the un-optimised model *)
Theorem default_policy_returns_input {M} (passes : list (M -> M)) k (m : M) :
  failure_policy_restores_input = true -> policy_outcome None None passes (Some k) m = Some (Returned M m).
Proof. intro H. rewrite default_policy_never_raises. rewrite H. reflexivity. Qed.
Theorem strict_policy_reraises {M} (passes : list (M -> M)) k (m : M) env :
  policy_outcome (Some true) env passes (Some k) m = Some (Reraised M).
Proof. reflexivity. Qed.
