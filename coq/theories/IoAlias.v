(* IoAlias (C05): the aliasing step of jax2onnx.user_interface._apply_custom_io_names_on_ir that runs before
   user output names are applied (model of the rest: IoNames.v).

     taken = {id(v) for v in graph.inputs};  existing = {names of the top graph}
     for idx, value in enumerate(outputs):
         if id(value) not in taken: taken.add(id(value)); continue
         alias_name = f"{value.name or 'out'}_alias_{idx}"
         while alias_name in existing: alias_name += "_"
         existing.add(alias_name)
         alias = fresh Value(alias_name); append Identity(value) -> alias; outputs[idx] = alias; taken.add(id(alias))

   Every named output then has a value of its own.  [bases] carries the formatted string
   f"{name}_alias_{idx}" per output (the f-string is glue; the harness formats it the same way), [next] is an
   identifier no value of the graph has (Python allocates a new object).  The `while` loop is [fresh_from] with
   fuel |existing|: the pigeonhole argument below shows the fuel is never exhausted with a clashing name, i.e. the
   loop terminates and its result is fresh. *)
From Coq Require Import List String Bool Arith Lia.
Import ListNotations.

Definition vid := nat.

Fixpoint fresh_from (fuel : nat) (s : string) (existing : list string) : string :=
  match fuel with
  | 0 => s
  | S f => if existsb (String.eqb s) existing then fresh_from f (s ++ "_")%string existing else s
  end.

(* outs / bases in parallel; returns the new output list and the Identity nodes added: (alias id, alias name, source) *)
Fixpoint alias_loop (outs : list vid) (bases : list string) (taken : list vid) (existing : list string)
         (next : vid) : list vid * list (vid * string * vid) :=
  match outs, bases with
  | v :: r, b :: br =>
      if existsb (Nat.eqb v) taken then
        let a := fresh_from (List.length existing) b existing in
        let '(os, al) := alias_loop r br (next :: taken) (a :: existing) (S next) in
        (next :: os, (next, a, v) :: al)
      else
        let '(os, al) := alias_loop r br (v :: taken) existing next in
        (v :: os, al)
  | _, _ => ([], [])
  end.

(* ------------------------------------------------------------------ freshness of the `while` loop *)
Lemma existsb_eqb_In x l : existsb (String.eqb x) l = true <-> In x l.
Proof.
  rewrite existsb_exists. split.
  - intros (y & Hy & E). apply String.eqb_eq in E. subst. exact Hy.
  - intros H. exists x. split; [exact H | apply String.eqb_refl].
Qed.

Lemma existsb_nat_In x l : existsb (Nat.eqb x) l = true <-> In x l.
Proof.
  rewrite existsb_exists. split.
  - intros (y & Hy & E). apply Nat.eqb_eq in E. subst. exact Hy.
  - intros H. exists x. split; [exact H | apply Nat.eqb_refl].
Qed.

Lemma slen_app s1 s2 : String.length (s1 ++ s2) = String.length s1 + String.length s2.
Proof. induction s1 as [|c s1 IH]; simpl; [reflexivity | rewrite IH; reflexivity]. Qed.

Lemma fresh_from_gen existing : forall fuel s tried,
  NoDup tried -> incl tried existing -> (forall t, In t tried -> String.length t < String.length s) ->
  List.length tried + fuel = List.length existing ->
  ~ In (fresh_from fuel s existing) existing.
Proof.
  induction fuel as [|f IH]; intros s tried ND Incl Short Len; simpl.
  - intros Hin.
    assert (NoDup (s :: tried)) as ND2.
    { constructor; [|exact ND]. intros H. apply Short in H. lia. }
    assert (incl (s :: tried) existing) as I2.
    { intros x [<-|Hx]; [exact Hin | apply Incl; exact Hx]. }
    pose proof (NoDup_incl_length ND2 I2) as L. simpl in L. lia.
  - destruct (existsb (String.eqb s) existing) eqn:E.
    + apply existsb_eqb_In in E. apply (IH _ (s :: tried)).
      * constructor; [|exact ND]. intros H. apply Short in H. lia.
      * intros x [<-|Hx]; [exact E | apply Incl; exact Hx].
      * intros t [<-|Ht]; rewrite slen_app; simpl; [lia | apply Short in Ht; lia].
      * simpl. lia.
    + intros Hin. apply existsb_eqb_In in Hin. congruence.
Qed.

(* the `while alias_name in existing_names` loop ends with a name no value carries, for every graph *)
Lemma fresh_from_fresh s existing : ~ In (fresh_from (List.length existing) s existing) existing.
Proof. apply (fresh_from_gen existing _ s []); simpl; auto using NoDup_nil, incl_nil_l. intros t []. Qed.

(* ------------------------------------------------------------------ the aliasing loop *)
Lemma alias_loop_length outs : forall bases taken existing next os al,
  List.length bases = List.length outs ->
  alias_loop outs bases taken existing next = (os, al) -> List.length os = List.length outs.
Proof.
  induction outs as [|v r IH]; intros bases taken existing next os al HL H; destruct bases as [|b br]; simpl in *; try discriminate.
  - injection H as <- <-. reflexivity.
  - destruct (existsb (Nat.eqb v) taken).
    + destruct (alias_loop r br _ _ _) as [os' al'] eqn:R. injection H as <- <-. simpl. f_equal.
      eapply IH; [|exact R]. lia.
    + destruct (alias_loop r br _ _ _) as [os' al'] eqn:R. injection H as <- <-. simpl. f_equal.
      eapply IH; [|exact R]. lia.
Qed.

(* every output afterwards is a value of its own: pairwise distinct and none of them a taken (input) value;
   [next] and everything above it is unused by the graph *)
Lemma alias_loop_distinct outs : forall bases taken existing next os al,
  List.length bases = List.length outs ->
  (forall x, In x taken -> x < next) -> (forall x, In x outs -> x < next) ->
  alias_loop outs bases taken existing next = (os, al) ->
  NoDup os /\ (forall x, In x os -> ~ In x taken).
Proof.
  induction outs as [|v r IH]; intros bases taken existing next os al HL Ht Ho H; destruct bases as [|b br]; simpl in *; try discriminate.
  - injection H as <- <-. split; [constructor | intros x []].
  - destruct (existsb (Nat.eqb v) taken) eqn:E.
    + destruct (alias_loop r br _ _ _) as [os' al'] eqn:R. injection H as <- <-.
      apply IH in R as [ND Hn]; [| lia | | ].
      * split.
        -- constructor; [|exact ND]. intros Hin. apply (Hn _ Hin). left. reflexivity.
        -- intros x [<-|Hx]; [intros Hin; apply Ht in Hin; lia | intros Hin; apply (Hn _ Hx); right; exact Hin].
      * intros x [<-|Hx]; [lia | apply Ht in Hx; lia].
      * intros x Hx. specialize (Ho x (or_intror Hx)). lia.
    + destruct (alias_loop r br _ _ _) as [os' al'] eqn:R. injection H as <- <-.
      apply IH in R as [ND Hn]; [| lia | | ].
      * split.
        -- constructor; [|exact ND]. intros Hin. apply (Hn _ Hin). left. reflexivity.
        -- intros x [<-|Hx].
           ++ intros Hin. apply existsb_nat_In in Hin. congruence.
           ++ intros Hin. apply (Hn _ Hx). right. exact Hin.
      * intros x [<-|Hx]; [apply Ho; left; reflexivity | apply Ht; exact Hx].
      * intros x Hx. apply Ho. right. exact Hx.
Qed.

Lemma F2_impl {A B} (P Q : A -> B -> Prop) l l' :
  (forall a b, P a b -> Q a b) -> Forall2 P l l' -> Forall2 Q l l'.
Proof. intros H F. induction F; constructor; auto. Qed.

(* each output position either keeps its value or becomes an Identity of it; nothing else is added *)
Lemma alias_loop_sources outs : forall bases taken existing next os al,
  List.length bases = List.length outs ->
  alias_loop outs bases taken existing next = (os, al) ->
  Forall2 (fun v o => o = v \/ exists a, In (o, a, v) al) outs os.
Proof.
  induction outs as [|v r IH]; intros bases taken existing next os al HL H; destruct bases as [|b br]; simpl in *; try discriminate.
  - injection H as <- <-. constructor.
  - destruct (existsb (Nat.eqb v) taken).
    + destruct (alias_loop r br _ _ _) as [os' al'] eqn:R. injection H as <- <-. constructor.
      * right. exists (fresh_from (List.length existing) b existing). left. reflexivity.
      * eapply F2_impl; [|eapply IH; [|exact R]; lia].
        intros a0 b0 [->|[a Ha]]; [left; reflexivity | right; exists a; right; exact Ha].
    + destruct (alias_loop r br _ _ _) as [os' al'] eqn:R. injection H as <- <-. constructor.
      * left. reflexivity.
      * eapply IH; [|exact R]. lia.
Qed.

(* the alias names are new and pairwise distinct, whatever the base strings are *)
Lemma alias_loop_names_fresh outs : forall bases taken existing next os al,
  alias_loop outs bases taken existing next = (os, al) ->
  NoDup (map (fun e => snd (fst e)) al) /\ (forall n, In n (map (fun e => snd (fst e)) al) -> ~ In n existing).
Proof.
  induction outs as [|v r IH]; intros bases taken existing next os al H; destruct bases as [|b br]; simpl in *;
    try (injection H as <- <-; split; [constructor | intros n []]).
  destruct (existsb (Nat.eqb v) taken).
  - destruct (alias_loop r br _ _ _) as [os' al'] eqn:R. injection H as <- <-.
    apply IH in R as [ND Hn]. simpl. split.
    + constructor; [|exact ND]. intros Hin. apply (Hn _ Hin). left. reflexivity.
    + intros n [<-|Hin]; [apply fresh_from_fresh | intros He; apply (Hn _ Hin); right; exact He].
  - destruct (alias_loop r br _ _ _) as [os' al'] eqn:R. injection H as <- <-. eapply IH. exact R.
Qed.

(* non-vacuity: output 0 is input 0, outputs 1 and 2 are the same value; "t_alias_2" is already used *)
Example alias_example :
  alias_loop [0; 5; 5] ["in_0_alias_0"; "t_alias_1"; "t_alias_2"]%string [0; 1] ["in_0"; "in_1"; "t"; "t_alias_2"]%string 6
  = ([6; 5; 7], [(6, "in_0_alias_0", 0); (7, "t_alias_2_", 5)]%string).
Proof. reflexivity. Qed.
