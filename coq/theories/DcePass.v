(* DcePass (C02): a model of remove_dead_nodes_ir = onnx_ir's common_passes.RemoveUnusedNodesPass on the top graph, RESTRICTED
   to the part that is plain dead-code elimination: ONE sweep over the nodes in REVERSE order; a node none of whose outputs
   is a graph output, read by a node, or captured by a nested graph (Value.uses()) is removed.
   The library pass also trims unused OPTIONAL outputs of the nodes it keeps (Dropout's mask, BatchNormalization's running
   statistics, ...), using the ONNX schemas.  That part is not modelled: the model is FAIL-CLOSED — it only acts on graphs all
   of whose nodes have exactly one output (nothing to trim), and is the identity otherwise; the pipeline theorem carries the
   same condition as a guard.  (Removal of unused initializers and of trailing absent inputs is invisible in the encoding;
   the recursion into nested graphs changes node attributes the encoding does not contain.) *)
From Coq Require Import String List Bool Arith Lia.
From J2O Require Import Graph OrphanPass.
Import ListNotations.

Definition single_out (n : node) : bool := match n_outs n with [_] => true | _ => false end.
Definition dce_guard (g : graph) : bool := forallb single_out (g_nodes g).

(* [todo_rev]: the nodes not yet visited, last first; [kept]: the visited nodes that stay *)
Fixpoint dce_go (outs : list name) (todo_rev kept : list node) : list node :=
  match todo_rev with
  | [] => kept
  | n :: r =>
      if forallb (fun o => negb (mentioned (rev r ++ kept) outs n o)) (n_outs n) then dce_go outs r kept else dce_go outs r (n :: kept)
  end.
Definition dce_pass (g : graph) : graph :=
  if dce_guard g then mkGraph (dce_go (g_outputs g) (rev (g_nodes g)) []) (g_outputs g) else g.

Example dce_chain :
  g_nodes (dce_pass (mkGraph [mkNode "Relu" [] [1] [] [2]; mkNode "Neg" [] [2] [] [3]; mkNode "Abs" [] [1] [] [4]; mkNode "Exp" [] [3] [] [5]] [4]))
  = [mkNode "Abs" [] [1] [] [4]].
Proof. vm_compute. reflexivity. Qed.
Example dce_fail_closed :
  List.length (g_nodes (dce_pass (mkGraph [mkNode "Dropout" [] [1] [] [2; 3]; mkNode "Neg" [] [1] [] [4]] [2]))) = 2.
Proof. vm_compute. reflexivity. Qed.
