(* IdReshapePass (C02): a faithful model of remove_identity_reshapes_ir (decision, one iteration of its
   while-changed loop, the loop) and its soundness for ALL annotated SSA graphs over tensors of any element
   type: a Reshape whose constant target equals the declared static shape of its data input is the identity
   (Reshape.reshape_identity), so redirecting every use of its output — node inputs, nested-graph captures,
   graph outputs — to the data input and deleting the node preserves the model's outputs (Redirect.v). *)
From Coq Require Import ZArith String List Bool Arith Lia.
From J2O Require Import PyLib Tensor Graph Redirect Preserve Reshape.
Import ListNotations.

(* graph + what the pass reads besides the topology: declared static shapes and constant int vectors *)
Record rgraph := mkRG {
  rg_nodes : list node; rg_outputs : list name;
  rg_shape : name -> option (list nat);      (* Some s: every dim declared as a concrete int *)
  rg_const : name -> option (list Z) }.       (* Some l: value is a constant integer vector *)
Definition rg_graph (g : rgraph) : graph := mkGraph (rg_nodes g) (rg_outputs g).

Definition shape_matches (s : list nat) (tgt : list Z) : bool := list_eqb Z.eqb (map Z.of_nat s) tgt.

(* the decision for node n, in the order of the Python tests *)
Definition decide (g : rgraph) (n : node) : option (name * name) :=      (* (dst, data) *)
  if negb (String.eqb (n_op n) "Reshape") then None else
  match n_ins n, n_outs n with
  | data :: shp :: _, [dst] =>       (* Reshape has exactly one output; the Python reads outs[0] *)
      match rg_const g shp with
      | None => None
      | Some tgt =>
          if match tgt with [] => true | _ => false end then None
          else if existsb (fun d => Z.eqb d (-1) || Z.eqb d 0)%Z tgt then None
          else match rg_shape g data with
               | None => None
               | Some s =>
                   if negb (shape_matches s tgt) then None
                   else if match rg_shape g dst with Some sd => negb (shape_matches sd tgt) | None => false end then None
                   (* [data <> dst] holds in every valid (acyclic) ONNX graph; the Python does not need to test it *)
                   else if Nat.eqb data dst then None
                   else Some (dst, data)
               end
      end
  | _, _ => None
  end.

Fixpoint first_action (g : rgraph) (ns : list node) : option (name * name) :=
  match ns with [] => None | n :: r => match decide g n with Some a => Some a | None => first_action g r end end.

Definition apply_action (g : rgraph) (a : name * name) : rgraph :=
  let g' := redirect_remove (fst a) (snd a) (rg_graph g) in
  mkRG (g_nodes g') (g_outputs g') (rg_shape g) (rg_const g).

Definition idreshape_step (g : rgraph) : option rgraph := option_map (apply_action g) (first_action g (rg_nodes g)).
Fixpoint idreshape_pass (fuel : nat) (g : rgraph) : rgraph :=
  match fuel with O => g | S k => match idreshape_step g with Some g' => idreshape_pass k g' | None => g end end.

Lemma list_eqb_Z_eq : forall a b, list_eqb Z.eqb a b = true -> a = b.
Proof.
  induction a as [|x a IH]; destruct b as [|y b]; simpl; try discriminate; auto.
  intro H. apply andb_prop in H as [H1 H2]. apply Z.eqb_eq in H1. subst. f_equal. auto.
Qed.

Lemma shape_matches_spec s tgt : shape_matches s tgt = true -> map Z.to_nat tgt = s /\ Forall (fun d => (0 <= d)%Z) tgt.
Proof.
  unfold shape_matches. intro H. apply list_eqb_Z_eq in H. subst tgt. split.
  - rewrite map_map. rewrite <- (map_id s) at 2. apply map_ext. intro. apply Nat2Z.id.
  - apply Forall_forall. intros d Hd. apply in_map_iff in Hd as (k & <- & _). lia.
Qed.

Section Sound.
  Variable A : Type.
  Notation V := (tensor A).
  Variable sem : string -> list nat -> list V -> option (list V).
  Hypothesis sem_proper : forall op ats vs vs' o, Forall2 teq vs vs' -> sem op ats vs = Some o ->
    exists o', sem op ats vs' = Some o' /\ Forall2 teq o o'.
  (* [denotes v l]: the run-time tensor v is the integer vector l (the element type is abstract here) *)
  Variable denotes : V -> list Z -> Prop.
  (* the one interpreted operator: ONNX Reshape with an explicit non-negative target *)
  Hypothesis sem_reshape : forall ats vs o, sem "Reshape" ats vs = Some o ->
    exists x sv, vs = [x; sv] /\
      forall tgt, denotes sv tgt -> Forall (fun d => (0 <= d)%Z) tgt -> o = [reshape (map Z.to_nat tgt) x].

  Notation evalg := (eval V sem).
  Notation refinesg := (refines V teq sem).

  (* what the theorem needs from the world: SSA and TRUE annotations (property C08) *)
  Record admissible (g : rgraph) (e : env V) : Prop := {
    adm_ssa : ssa V (rg_nodes g) e;
    adm_shape : forall ef x s a, evalg (rg_nodes g) e = Some ef -> rg_shape g x = Some s -> ef x = Some a -> shape a = s;
    adm_const : forall ef x l a, evalg (rg_nodes g) e = Some ef -> rg_const g x = Some l -> ef x = Some a -> denotes a l }.

  Lemma first_action_in g ns a : first_action g ns = Some a -> exists n, In n ns /\ decide g n = Some a.
  Proof.
    induction ns as [|n r IH]; simpl; [discriminate|]. destruct (decide g n) as [b|] eqn:E.
    - intro H. injection H as <-. exists n. split; auto.
    - intro H. destruct (IH H) as (m & Hm & Hd). exists m. split; auto.
  Qed.

  Lemma teq_refl' (a : V) : teq a a. Proof. apply teq_refl. Qed.

  (* what a positive decision says *)
  Lemma decide_spec g n dst data : decide g n = Some (dst, data) ->
    n_op n = "Reshape"%string /\ n_outs n = [dst] /\ data <> dst /\
    exists shp insr tgt s, n_ins n = data :: shp :: insr /\ rg_const g shp = Some tgt /\ rg_shape g data = Some s /\
                           shape_matches s tgt = true.
  Proof.
    unfold decide. destruct (String.eqb_spec (n_op n) "Reshape") as [Hop|]; [|discriminate]. simpl.
    destruct (n_ins n) as [|data' [|shp insr]] eqn:Hins; try discriminate.
    destruct (n_outs n) as [|dst' [|]] eqn:Houts; try discriminate.
    destruct (rg_const g shp) as [tgt|] eqn:Ec; [|discriminate].
    destruct tgt as [|t0 tr] eqn:Et; [discriminate|]. rewrite <- Et in *.
    destruct (existsb _ tgt) eqn:Ex; [discriminate|].
    destruct (rg_shape g data') as [s|] eqn:Es; [|discriminate].
    destruct (shape_matches s tgt) eqn:Em; [|discriminate]. simpl.
    destruct (match rg_shape g dst' with Some sd => negb (shape_matches sd tgt) | None => false end); [discriminate|].
    destruct (Nat.eqb data' dst') eqn:Hself; [discriminate|].
    intro H. injection H as <- <-. repeat split; auto.
    - intro E. subst. rewrite Nat.eqb_refl in Hself. discriminate.
    - exists shp, insr, tgt, s. auto.
  Qed.

  (* the value of an identity Reshape is the value of its data input *)
  Lemma reshape_value g e n dst data ef a :
    admissible g e -> In n (rg_nodes g) -> decide g n = Some (dst, data) ->
    evalg (rg_nodes g) e = Some ef -> ef dst = Some a -> exists b, ef data = Some b /\ teq a b.
  Proof.
    intros Hadm Hn Hd Hev Ha.
    destruct (decide_spec _ _ _ _ Hd) as (Hop & Houts & _ & shp & insr & tgt & s & Hins & Ec & Es & Em).
    destruct (shape_matches_spec _ _ Em) as [Hmap Hpos].
    pose proof (adm_ssa _ _ Hadm) as Hssa.
    destruct (eval_consistent V sem _ _ _ n Hssa Hev Hn) as (vs & oo & Hl & Hs & Hlo).
    rewrite Hop in Hs. destruct (sem_reshape _ _ _ Hs) as (x & sv & -> & Hre).
    unfold n_uses in Hl. rewrite Hins in Hl. simpl in Hl.
    destruct (ef data) as [vx|] eqn:Ex'; [|discriminate]. destruct (ef shp) as [vs'|] eqn:Eshp; [|discriminate].
    destruct (lookups V ef (insr ++ n_caps n)) as [rest|]; [|discriminate].
    injection Hl as Hx1 Hx2 Hx3. subst x sv.
    pose proof (adm_const _ _ Hadm ef shp tgt vs' Hev Ec Eshp) as Hden.
    specialize (Hre tgt Hden Hpos). subst oo.
    rewrite Houts in Hlo. simpl in Hlo. rewrite Ha in Hlo. injection Hlo as ->.
    exists vx. split; auto.
    rewrite Hmap. rewrite <- (adm_shape _ _ Hadm ef data s vx Hev Es Ex'). apply reshape_identity.
  Qed.

  Lemma step_inv g g' : idreshape_step g = Some g' ->
    exists n dst data, In n (rg_nodes g) /\ decide g n = Some (dst, data) /\
      g' = mkRG (g_nodes (redirect_remove dst data (rg_graph g))) (g_outputs (redirect_remove dst data (rg_graph g))) (rg_shape g) (rg_const g).
  Proof.
    unfold idreshape_step. destruct (first_action g (rg_nodes g)) as [[dst data]|] eqn:Efa; [|discriminate].
    intro H. injection H as <-. destruct (first_action_in g _ _ Efa) as (n & Hn & Hd). exists n, dst, data. auto.
  Qed.

  Theorem idreshape_step_sound g g' e :
    admissible g e -> idreshape_step g = Some g' -> refinesg (rg_graph g) (rg_graph g') e.
  Proof.
    intros Hadm Hstep. destruct (step_inv _ _ Hstep) as (n & dst & data & Hn & Hd & ->).
    destruct (decide_spec _ _ _ _ Hd) as (_ & Houts & Hne & shp & insr & tgt & s & Hins & _).
    change (rg_graph (mkRG (g_nodes (redirect_remove dst data (rg_graph g))) (g_outputs (redirect_remove dst data (rg_graph g))) (rg_shape g) (rg_const g)))
      with (redirect_remove dst data (rg_graph g)).
    eapply (redirect_remove_producer_sound V teq teq_refl' (@teq_sym A) (@teq_trans A) sem sem_proper (rg_graph g) e n dst data); eauto.
    - exact (adm_ssa _ _ Hadm).
    - unfold n_uses. rewrite Hins. now left.
    - rewrite Houts. now left.
    - intros ef a Hev Ha. eapply reshape_value; eauto.
  Qed.

  (* the annotations stay TRUE across the rewrite (values are preserved up to teq, which keeps shapes), so the
     admissibility of the INPUT graph is all the loop needs *)
  Hypothesis denotes_proper : forall a a' l, teq a a' -> denotes a l -> denotes a' l.

  Theorem idreshape_step_admissible g g' e ef :
    admissible g e -> evalg (rg_nodes g) e = Some ef -> idreshape_step g = Some g' -> admissible g' e.
  Proof.
    intros Hadm Hev Hstep. destruct (step_inv _ _ Hstep) as (n & dst & data & Hn & Hd & ->).
    destruct (decide_spec _ _ _ _ Hd) as (_ & Houts & Hne & shp & insr & tgt & s & Hins & _).
    pose proof (adm_ssa _ _ Hadm) as Hssa.
    assert (Hav : avail_before V sem (rg_nodes g) e data dst).
    { eapply (avail_from_producer V sem (rg_nodes g) e n data dst); eauto.
      - unfold n_uses. rewrite Hins. now left.
      - rewrite Houts. now left. }
    destruct (redirect_remove_env V teq teq_refl' (@teq_sym A) (@teq_trans A) sem sem_proper (rg_graph g) e dst data ef Hssa Hne
                (fun a Ha => reshape_value g e n dst data ef a Hadm Hn Hd Hev Ha) Hav Hev) as (ef' & Hev' & Hrel).
    assert (Hex : existsb (node_is dst) (rg_nodes g) = true).
    { apply existsb_exists. exists n. split; auto. unfold node_is. rewrite Houts. apply Nat.eqb_refl. }
    pose proof (redirect_remove_o_undefined V sem (rg_graph g) e dst data ef' Hssa Hex Hev') as Hundef.
    constructor; cbn [rg_nodes rg_shape rg_const].
    - exact (redirect_remove_ssa V (rg_graph g) e dst data Hssa).
    - intros ef2 x s0 a' Hev2 Hs Hx. rewrite Hev' in Hev2. injection Hev2 as <-.
      destruct (Nat.eq_dec x dst) as [->|Hxd]; [congruence|].
      destruct (Hrel x a' Hxd Hx) as (a0 & Ha0 & [Hsh _]).
      rewrite <- Hsh. eapply (adm_shape _ _ Hadm); eauto.
    - intros ef2 x l a' Hev2 Hc Hx. rewrite Hev' in Hev2. injection Hev2 as <-.
      destruct (Nat.eq_dec x dst) as [->|Hxd]; [congruence|].
      destruct (Hrel x a' Hxd Hx) as (a0 & Ha0 & Hteq).
      eapply denotes_proper; eauto. eapply (adm_const _ _ Hadm); eauto.
  Qed.

  (* THE PASS: for every graph that is admissible when the pass starts *)
  Theorem idreshape_pass_sound : forall fuel g e, admissible g e ->
    refinesg (rg_graph g) (rg_graph (idreshape_pass fuel g)) e.
  Proof.
    induction fuel as [|k IH]; simpl; intros g e Hadm.
    - apply (refines_refl V teq teq_refl' sem).
    - destruct (idreshape_step g) as [g'|] eqn:Es; [|apply (refines_refl V teq teq_refl' sem)].
      intros out Hrun.
      assert (Hev : exists ef, evalg (rg_nodes g) e = Some ef).
      { unfold run in Hrun. simpl in Hrun. destruct (evalg (rg_nodes g) e); [eauto|discriminate]. }
      destruct Hev as [ef Hev].
      pose proof (idreshape_step_admissible g g' e ef Hadm Hev Es) as Hadm'.
      revert out Hrun. eapply (refines_trans V teq (@teq_trans A) sem).
      + eapply idreshape_step_sound; eauto.
      + apply IH. exact Hadm'.
  Qed.
End Sound.

(* non-vacuity: the model removes an identity Reshape and keeps a real one *)
Definition ex_shape (n : name) : option (list nat) := match n with 0 => Some [2; 3] | _ => None end.
Definition ex_const (n : name) : option (list Z) := match n with 1 => Some [2; 3]%Z | 5 => Some [3; 2]%Z | _ => None end.
Example idreshape_removed :
  rg_nodes (idreshape_pass 5 (mkRG [mkNode "Reshape" [] [0; 1] [] [2]; mkNode "Relu" [] [2] [] [3]] [3] ex_shape ex_const))
  = [mkNode "Relu" [] [0] [] [3]].
Proof. vm_compute. reflexivity. Qed.
Example real_reshape_kept :
  List.length (rg_nodes (idreshape_pass 5 (mkRG [mkNode "Reshape" [] [0; 5] [] [2]; mkNode "Relu" [] [2] [] [3]] [3] ex_shape ex_const))) = 2.
Proof. vm_compute. reflexivity. Qed.
