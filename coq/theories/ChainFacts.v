(* ChainFacts (C02): the structure shared by the rewrites "T1 -> isolated single-output chain -> T2" of the reshape-pair
   and transpose-pair passes, independent of the annotations: the two replace_all_uses_with + the removal of T1 and T2
   are ONE renaming [rho] applied to the kept nodes ([rewire_eq]). *)
From Coq Require Import String List Bool Arith Lia.
From J2O Require Import Graph Redirect ChainSim ReshapePairPass.
Import ListNotations.

Record chain_struct (ns : list node) (outs : list name) (a : action) (T1 T2 : node) : Prop := {
  cs_T1_in : In T1 ns;
  cs_T1_outs : n_outs T1 = [ac_t1 a];
  cs_T2_in : In T2 ns;
  cs_T2_outs : n_outs T2 = [ac_t2 a];
  cs_chain_in : forall n, In n (ac_chain a) -> In n ns;
  cs_chain_outs : forall n, In n (ac_chain a) -> n_outs n = [out_of n];
  cs_unobs : forall x, In x (dirty a) -> ~ In x outs /\ forall m, In m ns -> ~ In x (n_caps m);
  cs_cons : forall x m, In x (dirty a) -> In m ns -> In x (n_ins m) -> in_members (chain_outs a ++ [ac_t2 a]) m = true;
  cs_nodup : NoDup (ac_src a :: dirty a ++ [ac_t2 a]) }.

(* replace_all_uses_with(t1_out, src) [only when the chain is not empty]; replace_all_uses_with(t2_out, new_src);
   graph.remove([T1, T2]) *)
Definition rewire (a : action) (g : graph) : graph :=
  let g1 := match ac_chain a with [] => g | _ => replace_all_uses (ac_t1 a) (ac_src a) g end in
  let g2 := replace_all_uses (ac_t2 a) (new_src a) g1 in
  mkGraph (remove_first (node_is (ac_t2 a)) (remove_first (node_is (ac_t1 a)) (g_nodes g2))) (g_outputs g2).

Section Facts.
  Variables (ns : list node) (outs : list name) (a : action) (T1 T2 : node).
  Hypothesis Hnd : NoDup (defs ns).
  Hypothesis Haf : chain_struct ns outs a T1 T2.

  Lemma src_not_dirty : ~ In (ac_src a) (dirty a ++ [ac_t2 a]).
  Proof. pose proof (cs_nodup _ _ _ _ _ Haf) as H. now apply NoDup_cons_iff in H as [H _]. Qed.
  Lemma t2_not_dirty : ~ In (ac_t2 a) (dirty a).
  Proof.
    pose proof (cs_nodup _ _ _ _ _ Haf) as H. apply NoDup_cons_iff in H as [_ H].
    intro Hin. eapply (NoDup_app_disj (dirty a) [ac_t2 a]); eauto. now left.
  Qed.
  Lemma t1_dirty : In (ac_t1 a) (dirty a). Proof. now left. Qed.
  Lemma dirty_nodup : NoDup (dirty a).
  Proof. pose proof (cs_nodup _ _ _ _ _ Haf) as H. apply NoDup_cons_iff in H as [_ H]. now apply NoDup_app_l in H. Qed.
  Lemma t1_not_chain : ~ In (ac_t1 a) (chain_outs a).
  Proof. pose proof dirty_nodup as H. unfold dirty in H. now apply NoDup_cons_iff in H as [H _]. Qed.
  Lemma t1_ne_t2 : ac_t1 a <> ac_t2 a.
  Proof. intro E. apply t2_not_dirty. rewrite <- E. apply t1_dirty. Qed.
  Lemma src_ne_t2 : ac_src a <> ac_t2 a.
  Proof. intro E. apply src_not_dirty. apply in_or_app. right. left. now symmetry. Qed.
  Lemma src_ne_t1 : ac_src a <> ac_t1 a.
  Proof. intro E. apply src_not_dirty. apply in_or_app. left. left. now symmetry. Qed.

  Lemma new_src_spec : new_src a = ac_src a /\ ac_chain a = [] \/ In (new_src a) (chain_outs a).
  Proof.
    unfold new_src, chain_outs. destruct (ac_chain a) as [|c r]; [left; auto|]. right.
    destruct (exists_last (l := map out_of (c :: r))) as (l' & x & E); [discriminate|]. rewrite E, last_last.
    apply in_or_app. right. now left.
  Qed.

  Lemma rho_chain_out y : In y (chain_outs a) -> rho a y = y.
  Proof.
    intro Hy. unfold rho.
    destruct (Nat.eqb_spec y (ac_t2 a)) as [E|_]; [exfalso; apply t2_not_dirty; rewrite <- E; now right|].
    destruct (Nat.eqb_spec y (ac_t1 a)) as [E|_]; [exfalso; apply t1_not_chain; now rewrite <- E | reflexivity].
  Qed.
  Lemma rho_t1 : rho a (ac_t1 a) = ac_src a.
  Proof.
    unfold rho. destruct (Nat.eqb_spec (ac_t1 a) (ac_t2 a)) as [E|_]; [exfalso; now apply t1_ne_t2|]. now rewrite Nat.eqb_refl.
  Qed.
  Lemma rho_t2 : rho a (ac_t2 a) = new_src a.
  Proof. unfold rho. now rewrite Nat.eqb_refl. Qed.
  Lemma rho_other x : x <> ac_t1 a -> x <> ac_t2 a -> rho a x = x.
  Proof. intros H1 H2. unfold rho. destruct (Nat.eqb_spec x (ac_t2 a)); [contradiction|]. destruct (Nat.eqb_spec x (ac_t1 a)); [contradiction | reflexivity]. Qed.

  Lemma last_dirty_eq : ac_chain a <> [] -> last (dirty a) 0 = new_src a.
  Proof.
    unfold dirty, new_src, chain_outs. destruct (ac_chain a) as [|c r]; [congruence|]. intros _.
    change (last (ac_t1 a :: map out_of (c :: r)) 0) with (last (map out_of (c :: r)) 0). apply last_indep. discriminate.
  Qed.

  Lemma last_dirty : rho a (last (dirty a) 0) = new_src a.
  Proof.
    destruct new_src_spec as [[Hn Hc]|Hin].
    - unfold dirty, chain_outs. rewrite Hc. simpl. rewrite rho_t1. now symmetry.
    - assert (Hne : ac_chain a <> []) by (intro E; unfold chain_outs in Hin; rewrite E in Hin; contradiction).
      rewrite (last_dirty_eq Hne). now apply rho_chain_out.
  Qed.

  Lemma last_dirty_in : In (last (dirty a) 0) (dirty a).
  Proof.
    unfold dirty. destruct (exists_last (l := ac_t1 a :: chain_outs a)) as (l' & x & E); [discriminate|].
    rewrite E, last_last. apply in_or_app. right. now left.
  Qed.

  (* the members of the chain are exactly the nodes whose single output is a chain output *)
  Lemma chain_member n : In n ns -> in_members (chain_outs a) n = true -> In n (ac_chain a).
  Proof.
    intros Hn Hm. apply in_members_spec in Hm as (y & Ho & Hy). unfold chain_outs in Hy.
    apply in_map_iff in Hy as (c & Hc & Hcin).
    pose proof (cs_chain_outs _ _ _ _ _ Haf c Hcin) as Hoc. rewrite Hc in Hoc.
    assert (n = c); [|now subst].
    eapply (defs_unique ns); eauto.
    - now apply (cs_chain_in _ _ _ _ _ Haf).
    - rewrite Ho. now left.
    - rewrite Hoc. now left.
  Qed.

  Lemma T1_unique n : In n ns -> In (ac_t1 a) (n_outs n) -> n = T1.
  Proof.
    intros Hn Hin. eapply (defs_unique ns); eauto; [apply (cs_T1_in _ _ _ _ _ Haf) | rewrite (cs_T1_outs _ _ _ _ _ Haf); now left].
  Qed.
  Lemma T2_unique n : In n ns -> In (ac_t2 a) (n_outs n) -> n = T2.
  Proof.
    intros Hn Hin. eapply (defs_unique ns); eauto; [apply (cs_T2_in _ _ _ _ _ Haf) | rewrite (cs_T2_outs _ _ _ _ _ Haf); now left].
  Qed.

  (* a kept node outside the chain reads no dirty name *)
  Lemma kept_clean n x : In n ns -> keep a n = true -> in_members (chain_outs a) n = false ->
    In x (dirty a) -> ~ In x (n_uses n).
  Proof.
    intros Hn Hk Hnm Hx Hin. unfold n_uses in Hin. apply in_app_or in Hin as [Hi|Hc].
    - pose proof (cs_cons _ _ _ _ _ Haf x n Hx Hn Hi) as Hm. apply in_members_spec in Hm as (y & Ho & Hy).
      apply in_app_or in Hy as [Hy|[<-|[]]].
      + assert (in_members (chain_outs a) n = true); [|congruence].
        unfold in_members. rewrite Ho. apply existsb_exists. exists y. split; auto. apply Nat.eqb_refl.
      + unfold keep in Hk. rewrite (node_is_true _ _ Ho) in Hk. now rewrite andb_false_r in Hk.
    - destruct (cs_unobs _ _ _ _ _ Haf x Hx) as [_ H]. exact (H n Hn Hc).
  Qed.

  Lemma chain_nonempty_member c : In c (ac_chain a) -> in_members (chain_outs a) c = true /\ keep a c = true.
  Proof.
    intro Hc. pose proof (cs_chain_outs _ _ _ _ _ Haf c Hc) as Ho. set (y := out_of c) in *.
    assert (Hy : In y (chain_outs a)) by (unfold chain_outs; apply in_map_iff; exists c; auto).
    split.
    - unfold in_members. rewrite Ho. apply existsb_exists. exists y. split; auto. apply Nat.eqb_refl.
    - unfold keep, node_is. rewrite Ho.
      destruct (Nat.eqb_spec y (ac_t1 a)) as [E|_].
      { exfalso. apply t1_not_chain. now rewrite <- E. }
      destruct (Nat.eqb_spec y (ac_t2 a)) as [E|_]; auto.
      exfalso. apply t2_not_dirty. rewrite <- E. now right.
  Qed.

  Theorem rewire_eq :
    rewire a (mkGraph ns outs) = mkGraph (map (subst_map (rho a)) (filter (keep a) ns)) (map (rho a) outs).
  Proof.
    unfold rewire. cbn [g_nodes g_outputs].
    set (f := fun n => subst_node (ac_t2 a) (new_src a) (match ac_chain a with [] => n | _ => subst_node (ac_t1 a) (ac_src a) n end)).
    assert (Hnodes : g_nodes (replace_all_uses (ac_t2 a) (new_src a)
               match ac_chain a with [] => mkGraph ns outs
                                | _ => replace_all_uses (ac_t1 a) (ac_src a) (mkGraph ns outs) end)
            = map f ns).
    { unfold f. destruct (ac_chain a); simpl; [reflexivity | now rewrite map_map]. }
    rewrite Hnodes.
    assert (Hk : forall o n, node_is o (f n) = node_is o n) by (intros o n; unfold f; destruct (ac_chain a); reflexivity).
    rewrite (remove_first_map _ f) by (intro; apply Hk). rewrite (remove_first_map _ f) by (intro; apply Hk).
    rewrite (remove_first_filter (ac_t1 a)) by exact Hnd.
    rewrite (remove_first_filter (ac_t2 a)).
    2:{ rewrite <- (remove_first_filter (ac_t1 a)) by exact Hnd. now apply NoDup_defs_remove_first. }
    rewrite filter_filter. fold (keep a). f_equal.
    - apply map_ext_in. intros n Hn. apply filter_In in Hn as [Hn Hkn]. unfold f.
      destruct (ac_chain a) as [|c r] eqn:Ec.
      + rewrite subst_node_map. apply subst_map_ext. intros x Hx. unfold rn, rho.
        destruct (Nat.eqb_spec x (ac_t2 a)); auto.
        destruct (Nat.eqb_spec x (ac_t1 a)) as [->|]; auto.
        exfalso. refine (kept_clean n (ac_t1 a) Hn Hkn _ t1_dirty Hx).
        unfold in_members, chain_outs. rewrite Ec. simpl. destruct (n_outs n) as [|? [|]]; reflexivity.
      + rewrite !subst_node_map, subst_map_comp. apply subst_map_ext. intros x _. unfold rn, rho.
        destruct (Nat.eqb_spec x (ac_t1 a)) as [->|Hne].
        * destruct (Nat.eqb_spec (ac_src a) (ac_t2 a)) as [E|_]; [exfalso; now apply src_ne_t2|].
          destruct (Nat.eqb_spec (ac_t1 a) (ac_t2 a)) as [E|_]; [exfalso; now apply t1_ne_t2 | reflexivity].
        * reflexivity.
    - destruct (ac_chain a) as [|c r] eqn:Ec; simpl.
      + apply map_ext_in. intros x Hx. unfold rn, rho. destruct (Nat.eqb_spec x (ac_t2 a)); auto.
        destruct (Nat.eqb_spec x (ac_t1 a)) as [->|]; auto.
        exfalso. destruct (cs_unobs _ _ _ _ _ Haf _ t1_dirty) as [H _]. contradiction.
      + rewrite map_map. apply map_ext. intro x. unfold rn, rho.
        destruct (Nat.eqb_spec x (ac_t1 a)) as [->|Hne].
        * destruct (Nat.eqb_spec (ac_src a) (ac_t2 a)) as [E|_]; [exfalso; now apply src_ne_t2|].
          destruct (Nat.eqb_spec (ac_t1 a) (ac_t2 a)) as [E|_]; [exfalso; now apply t1_ne_t2 | reflexivity].
        * reflexivity.
  Qed.
End Facts.
