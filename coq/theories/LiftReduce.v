(* LiftReduce (C01): integer reductions over axes, exact with wraparound.
     - XLA reduces in an UNSPECIFIED order (a tree of wrapped additions / multiplications / max / min over the reduced
       elements); red_any is "any such tree over any permutation".  any_order_sum / prod / max / min: every order gives the
       same value, namely wrap(exact sum) etc.  This is what makes integer reductions exact kernels.
     - ONNX ReduceSum / ReduceProd / ReduceMax / ReduceMin on integers: the sequential fold in row-major order
       (o_reduce_sum ...); reduce_sum_correct ...: the lowering equals the JAX value.
     - ReduceSum on uint8/16/32 is lowered as Cast(int64) -> ReduceSum -> Cast back: reduce_sum_via64_correct.
     - reduce_and / reduce_or on bool are lowered as Cast(int64) -> ReduceMin / ReduceSum -> Cast(bool).
     - tensor level: treduce mask f X reduces the axes selected by mask with f on the row-major list of reduced elements. *)
From Coq Require Import List Bool Arith Lia ZArith Znumtheory Zdiv Permutation.
From J2O Require Import PyLib Dtype Tensor Batch OnnxInt.
Import ListNotations.
Local Open Scope Z_scope.

(* ================================================================ scalar level: lists of reduced elements *)
Definition zsum (l : list Z) : Z := fold_right Z.add 0 l.
Definition zprod (l : list Z) : Z := fold_right Z.mul 1 l.
Definition fold1 (op : Z -> Z -> Z) (l : list Z) : option Z :=
  match l with [] => None | x :: r => Some (fold_left op r x) end.

(* ---- JAX / XLA: the mathematical value *)
Definition jax_reduce_sum (sb : ity) (l : list Z) : Z := wrap sb (zsum l).
Definition jax_reduce_prod (sb : ity) (l : list Z) : Z := wrap sb (zprod l).
Definition jax_reduce_max (l : list Z) : option Z := fold1 Z.max l.       (* of a non-empty set *)
Definition jax_reduce_min (l : list Z) : option Z := fold1 Z.min l.
Definition jax_reduce_and (l : list bool) : bool := forallb (fun b => b) l.
Definition jax_reduce_or (l : list bool) : bool := existsb (fun b => b) l.

(* ---- ONNX: sequential fold of the wrapped operator *)
Definition o_reduce_sum (sb : ity) (l : list Z) : Z := fold_left (o_add sb) l 0.
Definition o_reduce_prod (sb : ity) (l : list Z) : Z := fold_left (o_mul sb) l 1.
Definition o_reduce_max (l : list Z) : option Z := fold1 o_max l.
Definition o_reduce_min (l : list Z) : option Z := fold1 o_min l.

Lemma fold_left_add_wrap sb : 0 < snd sb -> forall l a, fold_left (o_add sb) l (wrap sb a) = wrap sb (a + zsum l).
Proof.
  intro Hb. induction l as [|x l IH]; intro a; simpl.
  - now rewrite Z.add_0_r.
  - unfold o_add at 2. rewrite wrap_add_l by exact Hb. rewrite IH. f_equal. lia.
Qed.
Theorem reduce_sum_correct sb l : 0 < snd sb -> o_reduce_sum sb l = jax_reduce_sum sb l.
Proof.
  intro Hb. unfold o_reduce_sum, jax_reduce_sum.
  replace 0 with (wrap sb 0) at 1 by (apply wrap_id; [exact Hb|]; destruct sb as [[|] b]; unfold in_int, int_lo, int_hi; simpl in *;
    assert (0 < 2 ^ (b - 1)) by (apply Z.pow_pos_nonneg; lia); assert (0 < 2 ^ b) by (apply Z.pow_pos_nonneg; lia); lia).
  now rewrite fold_left_add_wrap.
Qed.
Lemma fold_left_mul_wrap sb : 0 < snd sb -> forall l a, fold_left (o_mul sb) l (wrap sb a) = wrap sb (a * zprod l).
Proof.
  intro Hb. induction l as [|x l IH]; intro a; simpl.
  - now rewrite Z.mul_1_r.
  - unfold o_mul at 2. rewrite wrap_mul_l by exact Hb. rewrite IH. f_equal. lia.
Qed.
Lemma in_int_1 sb : 1 < snd sb -> in_int sb 1.
Proof.
  intro Hb. destruct sb as [[|] b]; unfold in_int, int_lo, int_hi; simpl in *.
  - assert (2 ^ 1 <= 2 ^ (b - 1)) by (apply Z.pow_le_mono_r; lia). change (2 ^ 1) with 2 in *. lia.
  - assert (2 ^ 1 <= 2 ^ b) by (apply Z.pow_le_mono_r; lia). change (2 ^ 1) with 2 in *. lia.
Qed.
Theorem reduce_prod_correct sb l : 1 < snd sb -> o_reduce_prod sb l = jax_reduce_prod sb l.
Proof.
  intro Hb. unfold o_reduce_prod, jax_reduce_prod.
  replace 1 with (wrap sb 1) at 1 by (apply wrap_id; [lia | now apply in_int_1]).
  rewrite fold_left_mul_wrap by lia. f_equal. lia.
Qed.
Theorem reduce_max_correct l : o_reduce_max l = jax_reduce_max l.  Proof. reflexivity. Qed.
Theorem reduce_min_correct l : o_reduce_min l = jax_reduce_min l.  Proof. reflexivity. Qed.

(* ---- XLA's order is unspecified: any reduction tree over any permutation of the elements *)
Inductive red_any (op : Z -> Z -> Z) : list Z -> Z -> Prop :=
| ra_one x : red_any op [x] x
| ra_split l1 l2 a b : red_any op l1 a -> red_any op l2 b -> red_any op (l1 ++ l2) (op a b)
| ra_perm l l' a : Permutation l l' -> red_any op l a -> red_any op l' a.

Lemma zsum_app l1 l2 : zsum (l1 ++ l2) = zsum l1 + zsum l2.
Proof. induction l1; simpl; [reflexivity|]. rewrite IHl1. lia. Qed.
Lemma zprod_app l1 l2 : zprod (l1 ++ l2) = zprod l1 * zprod l2.
Proof. induction l1; simpl; [now destruct (zprod l2)|]. rewrite IHl1. lia. Qed.
Lemma zsum_perm l l' : Permutation l l' -> zsum l = zsum l'.
Proof. induction 1; simpl; lia. Qed.
Lemma zprod_perm l l' : Permutation l l' -> zprod l = zprod l'.
Proof. induction 1; simpl; lia. Qed.

(* every order of wrapped additions gives wrap(exact sum) *)
Theorem any_order_sum sb l v : 0 < snd sb -> Forall (in_int sb) l -> red_any (o_add sb) l v -> v = jax_reduce_sum sb l.
Proof.
  intros Hb Hl H. unfold jax_reduce_sum. induction H as [x|l1 l2 a b H1 IH1 H2 IH2|l l' a Hp H IH].
  - inversion Hl; subst. simpl. rewrite Z.add_0_r. symmetry. now apply wrap_id.
  - apply Forall_app in Hl as [Hl1 Hl2]. rewrite (IH1 Hl1), (IH2 Hl2), zsum_app. unfold o_add.
    now rewrite wrap_add_l, wrap_add_r.
  - rewrite <- (zsum_perm _ _ Hp). apply IH. eapply Permutation_Forall; [apply Permutation_sym; exact Hp | exact Hl].
Qed.
Theorem any_order_prod sb l v : 0 < snd sb -> Forall (in_int sb) l -> red_any (o_mul sb) l v -> v = jax_reduce_prod sb l.
Proof.
  intros Hb Hl H. unfold jax_reduce_prod. induction H as [x|l1 l2 a b H1 IH1 H2 IH2|l l' a Hp H IH].
  - inversion Hl; subst. simpl. rewrite Z.mul_1_r. symmetry. now apply wrap_id.
  - apply Forall_app in Hl as [Hl1 Hl2]. rewrite (IH1 Hl1), (IH2 Hl2), zprod_app. unfold o_mul.
    now rewrite wrap_mul_l, wrap_mul_r.
  - rewrite <- (zprod_perm _ _ Hp). apply IH. eapply Permutation_Forall; [apply Permutation_sym; exact Hp | exact Hl].
Qed.

(* max / min: the value is a member that bounds every member; that determines it *)
Definition is_max (l : list Z) (v : Z) : Prop := In v l /\ Forall (fun y => y <= v) l.
Definition is_min (l : list Z) (v : Z) : Prop := In v l /\ Forall (fun y => v <= y) l.
Lemma is_max_unique l v w : is_max l v -> is_max l w -> v = w.
Proof. intros [H1 H2] [H3 H4]. rewrite Forall_forall in H2, H4. pose proof (H2 w H3). pose proof (H4 v H1). lia. Qed.
Lemma is_min_unique l v w : is_min l v -> is_min l w -> v = w.
Proof. intros [H1 H2] [H3 H4]. rewrite Forall_forall in H2, H4. pose proof (H2 w H3). pose proof (H4 v H1). lia. Qed.
Lemma fold_left_max_spec l : forall x, is_max (x :: l) (fold_left Z.max l x).
Proof.
  induction l as [|y l IH]; intro x; simpl.
  - split; [now left | constructor; [lia | constructor]].
  - destruct (IH (Z.max x y)) as [Hin Hall]. inversion Hall as [|? ? Hm Hl]; subst. split.
    + destruct Hin as [E|Hin]; [|right; right; exact Hin]. rewrite <- E. destruct (Z.max_spec x y) as [[_ ->]|[_ ->]]; [right; now left | now left].
    + constructor; [lia|]. constructor; [lia | exact Hl].
Qed.
Lemma fold_left_min_spec l : forall x, is_min (x :: l) (fold_left Z.min l x).
Proof.
  induction l as [|y l IH]; intro x; simpl.
  - split; [now left | constructor; [lia | constructor]].
  - destruct (IH (Z.min x y)) as [Hin Hall]. inversion Hall as [|? ? Hm Hl]; subst. split.
    + destruct Hin as [E|Hin]; [|right; right; exact Hin]. rewrite <- E. destruct (Z.min_spec x y) as [[_ ->]|[_ ->]]; [now left | right; now left].
    + constructor; [lia|]. constructor; [lia | exact Hl].
Qed.
Lemma red_any_max_spec l v : red_any Z.max l v -> is_max l v.
Proof.
  induction 1 as [x|l1 l2 a b H1 [I1 A1] H2 [I2 A2]|l l' a Hp H [I A]].
  - split; [now left | constructor; [lia | constructor]].
  - rewrite Forall_forall in A1, A2. split.
    + apply in_or_app. destruct (Z.max_spec a b) as [[_ ->]|[_ ->]]; [now right | now left].
    + apply Forall_forall. intros y Hy. apply in_app_or in Hy as [Hy|Hy]; [pose proof (A1 y Hy) | pose proof (A2 y Hy)]; lia.
  - split; [eapply Permutation_in; eassumption | eapply Permutation_Forall; eassumption].
Qed.
Lemma red_any_min_spec l v : red_any Z.min l v -> is_min l v.
Proof.
  induction 1 as [x|l1 l2 a b H1 [I1 A1] H2 [I2 A2]|l l' a Hp H [I A]].
  - split; [now left | constructor; [lia | constructor]].
  - rewrite Forall_forall in A1, A2. split.
    + apply in_or_app. destruct (Z.min_spec a b) as [[_ ->]|[_ ->]]; [now left | now right].
    + apply Forall_forall. intros y Hy. apply in_app_or in Hy as [Hy|Hy]; [pose proof (A1 y Hy) | pose proof (A2 y Hy)]; lia.
  - split; [eapply Permutation_in; eassumption | eapply Permutation_Forall; eassumption].
Qed.
Theorem any_order_max l v : red_any Z.max l v -> jax_reduce_max l = Some v.
Proof.
  intro H. pose proof (red_any_max_spec _ _ H) as Hs. destruct l as [|x l]; [destruct Hs as [[] _]|].
  unfold jax_reduce_max. simpl. f_equal. apply (is_max_unique (x :: l)); [apply fold_left_max_spec | exact Hs].
Qed.
Theorem any_order_min l v : red_any Z.min l v -> jax_reduce_min l = Some v.
Proof.
  intro H. pose proof (red_any_min_spec _ _ H) as Hs. destruct l as [|x l]; [destruct Hs as [[] _]|].
  unfold jax_reduce_min. simpl. f_equal. apply (is_min_unique (x :: l)); [apply fold_left_min_spec | exact Hs].
Qed.

(* ---- ReduceSum on uint8 / uint16 / uint32 (any type of at most 64 bits): Cast(int64) -> ReduceSum -> Cast back *)
Definition I64' : ity := (true, 64).
Definition lowered_reduce_sum_via64 (sb : ity) (l : list Z) : Z := o_cast sb (o_reduce_sum I64' (map (o_cast I64') l)).
Lemma wrap_narrow sb z : 0 < snd sb <= 64 -> wrap sb (wrap I64' z) = wrap sb z.
Proof.
  intros [Hb H64]. apply wrap_congr; [exact Hb|].
  assert (E : 2 ^ 64 = 2 ^ snd sb * 2 ^ (64 - snd sb)) by (rewrite <- Z.pow_add_r by lia; f_equal; lia).
  pose proof (wrap_mod I64' z ltac:(simpl; lia)) as Hm. simpl snd in Hm.
  assert (Hp : 0 < 2 ^ snd sb) by (apply Z.pow_pos_nonneg; lia).
  assert (Hq : 0 < 2 ^ (64 - snd sb)) by (apply Z.pow_pos_nonneg; lia).
  assert (Hd : (2 ^ snd sb | 2 ^ 64)) by (exists (2 ^ (64 - snd sb)); lia).
  rewrite (Zmod_div_mod (2 ^ snd sb) (2 ^ 64) (wrap I64' z)), (Zmod_div_mod (2 ^ snd sb) (2 ^ 64) z) by (try exact Hd; lia).
  now rewrite Hm.
Qed.
Lemma zsum_map_wrap64 sb l : 0 < snd sb <= 64 -> wrap sb (zsum (map (wrap I64') l)) = wrap sb (zsum l).
Proof.
  intros Hb. induction l as [|x l IH]; [reflexivity|].
  change (zsum (map (wrap I64') (x :: l))) with (wrap I64' x + zsum (map (wrap I64') l)).
  change (zsum (x :: l)) with (x + zsum l).
  rewrite <- wrap_add_l, wrap_narrow, wrap_add_l by lia. rewrite <- wrap_add_r, IH, wrap_add_r by lia. reflexivity.
Qed.
Theorem reduce_sum_via64_correct sb l : 0 < snd sb <= 64 -> lowered_reduce_sum_via64 sb l = jax_reduce_sum sb l.
Proof.
  intro Hb. unfold lowered_reduce_sum_via64, o_cast. rewrite reduce_sum_correct by (simpl; lia). unfold jax_reduce_sum.
  rewrite wrap_narrow by exact Hb. now apply zsum_map_wrap64.
Qed.

(* any wider work type: jnp.sum / jnp.prod promote bool and small integers to the default integer width, the plugin casts to
   that type and reduces there (Cast -> ReduceSum / ReduceProd).  No side condition: the reduction wraps in the work type on
   both sides *)
Lemma wrap_narrow_gen sb sb' z : 0 < snd sb <= snd sb' -> wrap sb (wrap sb' z) = wrap sb z.
Proof.
  intros [Hb Hle]. apply wrap_congr; [exact Hb|].
  assert (E : 2 ^ snd sb' = 2 ^ snd sb * 2 ^ (snd sb' - snd sb)) by (rewrite <- Z.pow_add_r by lia; f_equal; lia).
  pose proof (wrap_mod sb' z ltac:(lia)) as Hm.
  assert (Hp : 0 < 2 ^ snd sb) by (apply Z.pow_pos_nonneg; lia).
  assert (Hq : 0 < 2 ^ (snd sb' - snd sb)) by (apply Z.pow_pos_nonneg; lia).
  assert (Hd : (2 ^ snd sb | 2 ^ snd sb')) by (exists (2 ^ (snd sb' - snd sb)); lia).
  rewrite (Zmod_div_mod (2 ^ snd sb) (2 ^ snd sb') (wrap sb' z)), (Zmod_div_mod (2 ^ snd sb) (2 ^ snd sb') z) by (try exact Hd; lia).
  now rewrite Hm.
Qed.
Lemma zsum_map_wrap_same sb l : 0 < snd sb -> wrap sb (zsum (map (wrap sb) l)) = wrap sb (zsum l).
Proof.
  intros Hb. induction l as [|x l IH]; [reflexivity|].
  change (zsum (map (wrap sb) (x :: l))) with (wrap sb x + zsum (map (wrap sb) l)). change (zsum (x :: l)) with (x + zsum l).
  rewrite wrap_add_l by lia. rewrite <- wrap_add_r, IH, wrap_add_r by lia. reflexivity.
Qed.
Lemma zprod_map_wrap_same sb l : 0 < snd sb -> wrap sb (zprod (map (wrap sb) l)) = wrap sb (zprod l).
Proof.
  intros Hb. induction l as [|x l IH]; [reflexivity|].
  change (zprod (map (wrap sb) (x :: l))) with (wrap sb x * zprod (map (wrap sb) l)). change (zprod (x :: l)) with (x * zprod l).
  rewrite wrap_mul_l by lia. rewrite <- wrap_mul_r, IH, wrap_mul_r by lia. reflexivity.
Qed.
Theorem reduce_sum_cast_correct sbw l : 0 < snd sbw -> o_reduce_sum sbw (map (o_cast sbw) l) = jax_reduce_sum sbw l.
Proof. intro Hb. rewrite reduce_sum_correct by exact Hb. unfold jax_reduce_sum, o_cast. now apply zsum_map_wrap_same. Qed.
Theorem reduce_prod_cast_correct sbw l : 1 < snd sbw -> o_reduce_prod sbw (map (o_cast sbw) l) = jax_reduce_prod sbw l.
Proof. intro Hb. rewrite reduce_prod_correct by exact Hb. unfold jax_reduce_prod, o_cast. apply zprod_map_wrap_same. lia. Qed.

(* the same for products (proposed lowering of reduce_prod on int8 / int16 / uint8 / uint16) *)
Definition lowered_reduce_prod_via64 (sb : ity) (l : list Z) : Z := o_cast sb (o_reduce_prod I64' (map (o_cast I64') l)).
Lemma zprod_map_wrap64 sb l : 0 < snd sb <= 64 -> wrap sb (zprod (map (wrap I64') l)) = wrap sb (zprod l).
Proof.
  intros Hb. induction l as [|x l IH]; [reflexivity|].
  change (zprod (map (wrap I64') (x :: l))) with (wrap I64' x * zprod (map (wrap I64') l)).
  change (zprod (x :: l)) with (x * zprod l).
  rewrite <- wrap_mul_l, wrap_narrow, wrap_mul_l by lia. rewrite <- wrap_mul_r, IH, wrap_mul_r by lia. reflexivity.
Qed.
Theorem reduce_prod_via64_correct sb l : 0 < snd sb <= 64 -> lowered_reduce_prod_via64 sb l = jax_reduce_prod sb l.
Proof.
  intro Hb. unfold lowered_reduce_prod_via64, o_cast. rewrite reduce_prod_correct by (simpl; lia). unfold jax_reduce_prod.
  rewrite wrap_narrow by exact Hb. now apply zprod_map_wrap64.
Qed.

(* ---- reduce_and / reduce_or on bool: Cast(int64) -> ReduceMin / ReduceSum -> Cast(bool) *)
Definition lowered_reduce_and (l : list bool) : option bool :=
  match o_reduce_min (map (o_cast_of_bool I64') l) with Some m => Some (o_cast_to_bool m) | None => None end.
Definition lowered_reduce_or (l : list bool) : bool :=
  o_cast_to_bool (o_reduce_sum I64' (map (o_cast_of_bool I64') l)).
Theorem reduce_and_correct l : l <> [] -> lowered_reduce_and l = Some (jax_reduce_and l).
Proof.
  intro Hne. unfold lowered_reduce_and, o_reduce_min, jax_reduce_and. destruct l as [|b l]; [contradiction|].
  cbn [map fold1]. f_equal.
  destruct (fold_left_min_spec (map (o_cast_of_bool I64') l) (o_cast_of_bool I64' b)) as [Hin Hall].
  change o_min with Z.min. set (m := fold_left Z.min _ _) in *. clearbody m.
  change (o_cast_of_bool I64' b :: map (o_cast_of_bool I64') l) with (map (o_cast_of_bool I64') (b :: l)) in *.
  rewrite Forall_forall in Hall. apply in_map_iff in Hin as (bm & Ebm & Hbm). unfold o_cast_to_bool.
  destruct (forallb (fun b0 => b0) (b :: l)) eqn:E.
  - rewrite forallb_forall in E. rewrite (E bm Hbm) in Ebm. simpl in Ebm. now subst m.
  - assert (Hex : exists b0, In b0 (b :: l) /\ b0 = false).
    { clear - E. induction (b :: l) as [|c r IH]; [discriminate|]. simpl in E. destruct c; [|exists false; split; [now left | reflexivity]].
      destruct (IH E) as (b0 & Hi & Hf). exists b0. split; [now right | exact Hf]. }
    destruct Hex as (b0 & Hi & ->).
    assert (H0 : m <= 0) by (apply Hall; apply in_map_iff; exists false; split; [reflexivity | exact Hi]).
    destruct bm; simpl in Ebm; subst m; [lia | reflexivity].
Qed.
Lemma zsum_of_bool_bounds l : 0 <= zsum (map (o_cast_of_bool I64') l) <= Z.of_nat (length l).
Proof.
  induction l as [|b l IH]; [simpl; lia|].
  change (zsum (map (o_cast_of_bool I64') (b :: l))) with (o_cast_of_bool I64' b + zsum (map (o_cast_of_bool I64') l)).
  change (length (b :: l)) with (S (length l)). rewrite Nat2Z.inj_succ. destruct b; [change (o_cast_of_bool I64' true) with 1 | change (o_cast_of_bool I64' false) with 0]; lia.
Qed.
Lemma zsum_of_bool_zero l : zsum (map (o_cast_of_bool I64') l) = 0 <-> existsb (fun b => b) l = false.
Proof.
  induction l as [|b l IH]; [simpl; tauto|]. pose proof (zsum_of_bool_bounds l).
  change (zsum (map (o_cast_of_bool I64') (b :: l))) with (o_cast_of_bool I64' b + zsum (map (o_cast_of_bool I64') l)).
  destruct b; [change (o_cast_of_bool I64' true) with 1 | change (o_cast_of_bool I64' false) with 0]; cbn [existsb orb].
  - split; [lia | discriminate].
  - rewrite Z.add_0_l. exact IH.
Qed.
(* the count of true elements must fit int64 (always the case for a real tensor) *)
Theorem reduce_or_correct l : Z.of_nat (length l) < 2 ^ 63 -> lowered_reduce_or l = jax_reduce_or l.
Proof.
  intro Hlen. unfold lowered_reduce_or, jax_reduce_or. rewrite reduce_sum_correct by (simpl; lia). unfold jax_reduce_sum.
  pose proof (zsum_of_bool_bounds l) as Hb. change (2 ^ 63) with 9223372036854775808 in Hlen.
  assert (Hr : in_int I64' (zsum (map (o_cast_of_bool I64') l))).
  { set (z := zsum _) in *. clearbody z. unfold in_int, int_lo, int_hi, I64'. cbv beta iota zeta.
    change (2 ^ (64 - 1)) with 9223372036854775808. lia. }
  rewrite wrap_id by (try exact Hr; unfold I64'; cbn [snd]; lia).
  unfold o_cast_to_bool. destruct (existsb (fun b => b) l) eqn:E.
  - destruct (Z.eqb_spec (zsum (map (o_cast_of_bool I64') l)) 0) as [H0|]; [|reflexivity].
    apply zsum_of_bool_zero in H0. congruence.
  - apply zsum_of_bool_zero in E. now rewrite E.
Qed.

(* ================================================================ tensor level: reduction over the axes selected by a mask *)
Local Close Scope Z_scope.
Fixpoint keep_shape (mask : list bool) (s : list nat) : list nat :=
  match mask, s with m :: mr, d :: sr => if m then keep_shape mr sr else d :: keep_shape mr sr | _, _ => [] end.
Fixpoint red_shape (mask : list bool) (s : list nat) : list nat :=
  match mask, s with m :: mr, d :: sr => if m then d :: red_shape mr sr else red_shape mr sr | _, _ => [] end.
(* the operand index: kept coordinates from the output index, reduced coordinates from the enumeration *)
Fixpoint merge_idx (mask : list bool) (kept red : list nat) : list nat :=
  match mask with
  | [] => []
  | true :: mr => match red with r :: rr => r :: merge_idx mr kept rr | [] => 0 :: merge_idx mr kept [] end
  | false :: mr => match kept with k :: kk => k :: merge_idx mr kk red | [] => 0 :: merge_idx mr [] red end
  end.
(* the reduced elements of one output position, in row-major order of the reduced axes *)
Definition red_elems {A} (mask : list bool) (X : tensor A) (idx : list nat) : list A :=
  map (fun r => at_ X (merge_idx mask idx r)) (all_idx (red_shape mask (shape X))).
Definition treduce {A B} (f : list A -> B) (mask : list bool) (X : tensor A) : tensor B :=
  mkT (keep_shape mask (shape X)) (fun idx => f (red_elems mask X idx)).

Lemma merge_in_range mask : forall s k r, length mask = length s ->
  in_range (keep_shape mask s) k -> in_range (red_shape mask s) r -> in_range s (merge_idx mask k r).
Proof.
  unfold in_range. induction mask as [|m mask IH]; intros [|d s] k r Hl Hk Hr; simpl in *; try discriminate; [constructor|].
  injection Hl as Hl. destruct m.
  - inversion Hr as [|r0 ? rr ? Hlt Hrr]; subst. constructor; [exact Hlt | now apply IH].
  - inversion Hk as [|k0 ? kk ? Hlt Hkk]; subst. constructor; [exact Hlt | now apply IH].
Qed.
Lemma red_elems_tmap {A B} (g : A -> B) mask (X : tensor A) idx : red_elems mask (tmap g X) idx = map g (red_elems mask X idx).
Proof. unfold red_elems. rewrite map_map. reflexivity. Qed.
Lemma all_idx_in_range : forall s idx, In idx (all_idx s) -> in_range s idx.
Proof.
  unfold in_range. induction s as [|d s IH]; simpl; intros idx H.
  - destruct H as [<-|[]]. constructor.
  - apply in_flat_map in H as (i & Hi & H). apply in_map_iff in H as (r & <- & Hr). apply in_seq in Hi.
    constructor; [lia | now apply IH].
Qed.
Lemma red_elems_teq {A} mask (X Y : tensor A) idx : teq X Y -> length mask = length (shape X) ->
  in_range (keep_shape mask (shape X)) idx -> red_elems mask X idx = red_elems mask Y idx.
Proof.
  intros [Hs H] Hl Hi. unfold red_elems. rewrite <- Hs. apply map_ext_in. intros r Hr. apply H.
  apply merge_in_range; [exact Hl | exact Hi | now apply all_idx_in_range].
Qed.
Lemma treduce_teq {A B} (f : list A -> B) mask (X Y : tensor A) : teq X Y -> length mask = length (shape X) ->
  teq (treduce f mask X) (treduce f mask Y).
Proof.
  intros HXY Hl. split; [simpl; now rewrite (proj1 HXY)|]. intros idx Hi. simpl in *. f_equal. now apply red_elems_teq.
Qed.
(* two reducing functions that agree on the lists that occur give the same tensor *)
Lemma treduce_ext {A B} (f g : list A -> B) mask (X : tensor A) :
  (forall idx, in_range (keep_shape mask (shape X)) idx -> f (red_elems mask X idx) = g (red_elems mask X idx)) ->
  teq (treduce f mask X) (treduce g mask X).
Proof. intro H. split; [reflexivity|]. intros idx Hi. simpl in *. now apply H. Qed.

(* ================================================================ argmax / argmin with ties: the FIRST index of the extremum *)
Local Open Scope Z_scope.
(* ONNX ArgMax / ArgMin (select_last_index = 0): one scan; the best so far is replaced only by a STRICTLY better element *)
Fixpoint argscan (better : Z -> Z -> bool) (l : list Z) (i bi : nat) (bv : Z) : nat :=
  match l with [] => bi | x :: r => if better x bv then argscan better r (S i) i x else argscan better r (S i) bi bv end.
Definition o_argmax (l : list Z) : nat := match l with [] => 0%nat | x :: r => argscan Z.gtb r 1 0 x end.
Definition o_argmin (l : list Z) : nat := match l with [] => 0%nat | x :: r => argscan Z.ltb r 1 0 x end.
(* JAX argmax / argmin: the position of the first occurrence of the maximum / minimum *)
Fixpoint index_of (v : Z) (l : list Z) : nat := match l with [] => 0%nat | x :: r => if x =? v then 0%nat else S (index_of v r) end.
Definition jax_argmax (l : list Z) : nat := match jax_reduce_max l with Some m => index_of m l | None => 0%nat end.
Definition jax_argmin (l : list Z) : nat := match jax_reduce_min l with Some m => index_of m l | None => 0%nat end.

(* the specification both meet; it determines the index *)
Definition first_max (l : list Z) (i : nat) : Prop :=
  (i < length l)%nat /\ Forall (fun y => y <= nth i l 0) l /\ forall j, (j < i)%nat -> nth j l 0 < nth i l 0.
Lemma first_max_unique l i i' : first_max l i -> first_max l i' -> i = i'.
Proof.
  intros (Hi & Ha & Hf) (Hi' & Ha' & Hf'). rewrite Forall_forall in Ha, Ha'.
  destruct (Nat.lt_trichotomy i i') as [H|[H|H]]; [|exact H|].
  - pose proof (Hf' i H). pose proof (Ha (nth i' l 0) (nth_In l 0 Hi')). lia.
  - pose proof (Hf i' H). pose proof (Ha' (nth i l 0) (nth_In l 0 Hi)). lia.
Qed.
Lemma index_of_spec v : forall l, In v l ->
  (index_of v l < length l)%nat /\ nth (index_of v l) l 0 = v /\ forall j, (j < index_of v l)%nat -> nth j l 0 <> v.
Proof.
  induction l as [|x l IH]; intro H; [contradiction|]. simpl. destruct (Z.eqb_spec x v) as [->|Hne].
  - split; [lia|]. split; [reflexivity|]. intros j Hj. lia.
  - destruct H as [H|H]; [contradiction|]. destruct (IH H) as (H1 & H2 & H3). split; [lia|]. split; [exact H2|].
    intros [|j] Hj; [exact Hne | apply H3; lia].
Qed.
Lemma jax_argmax_spec l : l <> [] -> first_max l (jax_argmax l).
Proof.
  intro Hne. destruct l as [|x l]; [contradiction|]. unfold jax_argmax, jax_reduce_max. cbn [fold1].
  destruct (fold_left_max_spec l x) as [Hin Hall]. set (m := fold_left Z.max l x) in *.
  destruct (index_of_spec m (x :: l) Hin) as (H1 & H2 & H3). split; [exact H1|]. rewrite H2. split; [exact Hall|].
  intros j Hj. rewrite Forall_forall in Hall. assert (Hjl : (j < length (x :: l))%nat) by lia.
  pose proof (Hall _ (nth_In (x :: l) 0 Hjl)). pose proof (H3 j Hj). lia.
Qed.
(* the scan: invariant on the prefix already seen *)
Lemma argscan_spec : forall r p bi bv, p <> [] -> first_max p bi -> nth bi p 0 = bv ->
  first_max (p ++ r) (argscan Z.gtb r (length p) bi bv).
Proof.
  induction r as [|x r IH]; intros p bi bv Hp Hfm Hbv; simpl.
  - now rewrite app_nil_r.
  - destruct Hfm as (Hbi & Hall & Hfirst). rewrite Forall_forall in Hall.
    replace (p ++ x :: r) with ((p ++ [x]) ++ r) by (rewrite <- app_assoc; reflexivity).
    replace (S (length p)) with (length (p ++ [x])) by (rewrite app_length; simpl; lia).
    destruct (Z.gtb_spec x bv) as [Hgt|Hle].
    + apply IH; [now destruct p | | now rewrite app_nth2, Nat.sub_diag by lia].
      split; [rewrite app_length; simpl; lia|]. rewrite app_nth2, Nat.sub_diag by lia. cbn [nth]. split.
      * apply Forall_forall. intros y Hy. apply in_app_or in Hy as [Hy|[<-|[]]]; [|lia]. pose proof (Hall y Hy). lia.
      * intros j Hj. rewrite app_nth1 by lia. pose proof (Hall _ (nth_In p 0 Hj)). lia.
    + apply IH; [now destruct p | | now rewrite app_nth1 by lia].
      split; [rewrite app_length; simpl; lia|]. rewrite (app_nth1 p [x] 0 Hbi). split.
      * apply Forall_forall. intros y Hy. apply in_app_or in Hy as [Hy|[<-|[]]]; [now apply Hall | lia].
      * intros j Hj. rewrite app_nth1 by lia. now apply Hfirst.
Qed.
Lemma o_argmax_spec l : l <> [] -> first_max l (o_argmax l).
Proof.
  intro Hne. destruct l as [|x l]; [contradiction|]. unfold o_argmax.
  apply (argscan_spec l [x] 0%nat x); [discriminate | | reflexivity].
  split; [simpl; lia|]. split; [constructor; [simpl; lia | constructor] | intros j Hj; lia].
Qed.
Theorem argmax_correct l : l <> [] -> o_argmax l = jax_argmax l.
Proof. intro H. apply (first_max_unique l); [now apply o_argmax_spec | now apply jax_argmax_spec]. Qed.

(* argmin is argmax of the negated list, on both sides *)
Lemma argscan_opp : forall r i bi bv, argscan Z.ltb r i bi bv = argscan Z.gtb (map Z.opp r) i bi (- bv).
Proof.
  induction r as [|x r IH]; intros i bi bv; simpl; [reflexivity|].
  replace (- x >? - bv) with (x <? bv) by (rewrite Z.gtb_ltb; destruct (Z.ltb_spec x bv), (Z.ltb_spec (- bv) (- x)); lia || reflexivity).
  destruct (x <? bv); apply IH.
Qed.
Lemma o_argmin_opp l : o_argmin l = o_argmax (map Z.opp l).
Proof. destruct l as [|x l]; [reflexivity|]. simpl. apply argscan_opp. Qed.
Lemma fold_left_min_opp : forall l x, fold_left Z.min l x = - fold_left Z.max (map Z.opp l) (- x).
Proof. induction l as [|y l IH]; intro x; simpl; [lia|]. rewrite IH. f_equal. f_equal. lia. Qed.
Lemma index_of_opp v : forall l, index_of v l = index_of (- v) (map Z.opp l).
Proof.
  induction l as [|x l IH]; simpl; [reflexivity|].
  destruct (Z.eqb_spec x v), (Z.eqb_spec (- x) (- v)); try (exfalso; lia); [reflexivity | now rewrite IH].
Qed.
Lemma jax_argmin_opp l : jax_argmin l = jax_argmax (map Z.opp l).
Proof.
  destruct l as [|x l]; [reflexivity|]. unfold jax_argmin, jax_argmax, jax_reduce_min, jax_reduce_max. cbn [map fold1].
  rewrite fold_left_min_opp. rewrite (index_of_opp _ (x :: l)). rewrite Z.opp_involutive. reflexivity.
Qed.
Theorem argmin_correct l : l <> [] -> o_argmin l = jax_argmin l.
Proof. intro H. rewrite o_argmin_opp, jax_argmin_opp. apply argmax_correct. now destruct l. Qed.
Local Close Scope Z_scope.

(* ================================================================ cumsum: running sums with wraparound *)
Local Open Scope Z_scope.
(* ONNX CumSum (exclusive = 0, reverse = 0) in type sb: the running wrapped sum *)
Fixpoint o_cumsum (sb : ity) (acc : Z) (l : list Z) : list Z :=
  match l with [] => [] | x :: r => let a := o_add sb acc x in a :: o_cumsum sb a r end.
(* JAX: position k holds the wrapped exact sum of the first k+1 elements (any association gives it: any_order_sum) *)
Fixpoint jax_cumsum_from (sb : ity) (acc : Z) (l : list Z) : list Z :=
  match l with [] => [] | x :: r => wrap sb (acc + x) :: jax_cumsum_from sb (acc + x) r end.
Definition jax_cumsum (sb : ity) (l : list Z) : list Z := jax_cumsum_from sb 0 l.
Lemma o_cumsum_wrap sb : 0 < snd sb -> forall l a, o_cumsum sb (wrap sb a) l = jax_cumsum_from sb a l.
Proof.
  intro Hb. induction l as [|x l IH]; intro a; simpl; [reflexivity|]. unfold o_add at 1 2. rewrite wrap_add_l by exact Hb.
  f_equal. apply IH.
Qed.
Theorem cumsum_correct sb l : 0 < snd sb -> o_cumsum sb 0 l = jax_cumsum sb l.
Proof.
  intro Hb. unfold jax_cumsum. rewrite <- (o_cumsum_wrap sb Hb l 0). f_equal. symmetry. apply wrap_id; [exact Hb|].
  destruct sb as [[|] b]; unfold in_int, int_lo, int_hi; simpl in *;
    assert (0 < 2 ^ (b - 1)) by (apply Z.pow_pos_nonneg; lia); assert (0 < 2 ^ b) by (apply Z.pow_pos_nonneg; lia); lia.
Qed.
(* the lowering for 8- / 16-bit integers: Cast(int32) -> CumSum -> Cast back *)
Definition I32' : ity := (true, 32).
Definition lowered_cumsum_via32 (sb : ity) (l : list Z) : list Z := map (o_cast sb) (o_cumsum I32' 0 (map (o_cast I32') l)).
Lemma cumsum_step_congr sb a a' x : 0 < snd sb <= 32 -> wrap sb a = wrap sb a' -> wrap sb (a + wrap I32' x) = wrap sb (a' + x).
Proof.
  intros Hb H. rewrite <- wrap_add_l, H, wrap_add_l by lia.
  rewrite <- wrap_add_r, (wrap_narrow_gen sb I32'), wrap_add_r by (simpl; lia). reflexivity.
Qed.
Lemma cumsum_via32_from sb : 0 < snd sb <= 32 -> forall l a a', wrap sb a = wrap sb a' ->
  map (wrap sb) (jax_cumsum_from I32' a (map (wrap I32') l)) = jax_cumsum_from sb a' l.
Proof.
  intros Hb. induction l as [|x l IH]; intros a a' H; cbn [map jax_cumsum_from]; [reflexivity|].
  pose proof (cumsum_step_congr sb a a' x Hb H) as E. f_equal.
  - rewrite (wrap_narrow_gen sb I32') by (simpl; lia). exact E.
  - apply IH. exact E.
Qed.
Theorem cumsum_via32_correct sb l : 0 < snd sb <= 32 -> lowered_cumsum_via32 sb l = jax_cumsum sb l.
Proof.
  intro Hb. unfold lowered_cumsum_via32, o_cast. rewrite (cumsum_correct I32') by (simpl; lia). unfold jax_cumsum.
  now apply cumsum_via32_from.
Qed.
Local Close Scope Z_scope.
