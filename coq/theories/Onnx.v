(* Onnx: the abstract syntax of an exported model as produced by tools/onnx2coq.py from a ModelProto.
   Nested graphs (If/Loop/Scan bodies) are flattened into a table of graphs addressed by id
   (id 0 = main graph); a graph attribute refers to its body by id.  Tensor payloads are dropped
   except for small integer tensors. *)
From Coq Require Import ZArith String List Bool.
Import ListNotations.

Inductive dim := DInt (n : Z) | DSym (s : string) | DUnk.
Record vinfo := mkVI { vi_name : string; vi_dtype : Z (* 0 = not declared *); vi_shape : option (list dim) }.

Inductive attr :=
 | AInt (z : Z) | AInts (l : list Z) | AFloat | AFloats | AStr (s : string) | AStrs
 | ATensor (dtype : Z) (dims : list Z) (small_ints : option (list Z))
 | AGraph (id : nat) | AGraphs (ids : list nat) | AOther.

Record onode := mkON {
  on_op : string; on_domain : string; on_name : string;
  on_ins : list string;          (* "" = omitted optional input *)
  on_outs : list string;
  on_attrs : list (string * attr) }.

Record ograph := mkOG {
  og_id : nat; og_parent : option nat;
  og_inputs : list vinfo; og_inits : list vinfo; og_nodes : list onode;
  og_outputs : list vinfo; og_vinfos : list vinfo }.

Record ofunction := mkOF {
  of_name : string; of_domain : string; of_inputs : list string; of_outputs : list string;
  of_nodes : list onode; of_opsets : list (string * Z); of_attr_names : list string }.

Record omodel := mkOM {
  om_ir_version : Z; om_opsets : list (string * Z);
  om_graphs : list ograph;      (* om_graphs[i] has og_id = i; 0 is the main graph *)
  om_functions : list ofunction }.

Definition str_mem (s : string) (l : list string) : bool := existsb (String.eqb s) l.
Definition graph_by_id (m : omodel) (i : nat) : option ograph := nth_error (om_graphs m) i.
Definition node_subgraph_ids (n : onode) : list nat :=
  flat_map (fun kv => match snd kv with AGraph i => [i] | AGraphs l => l | _ => [] end) (on_attrs n).
Definition opset_of (m : list (string * Z)) (dom : string) : option Z :=
  match find (fun kv => String.eqb (fst kv) dom) m with Some kv => Some (snd kv) | None => None end.
Definition all_tensors_dtypes (g : ograph) : list Z :=
  map vi_dtype (og_inputs g ++ og_inits g ++ og_outputs g ++ og_vinfos g) ++
  flat_map (fun n => flat_map (fun kv => match snd kv with ATensor d _ _ => [d] | _ => [] end) (on_attrs n)) (og_nodes g).
