(* CastPass (C02 x C17): a faithful model of remove_redundant_casts_ir (one iteration of its
   while-changed loop, and the loop) and its soundness for ALL annotated SSA graphs: what the pass removes
   is justified by the translated decision procedure (C17) through the generic rewrite lemmas (Redirect.v).
   Admissibility (SSA, well-typed inputs, TRUE dtype annotations) of the graph the pass STARTS from is
   preserved by every iteration (Preserve.v), so the loop theorem assumes nothing about intermediate graphs. *)
From Coq Require Import ZArith String List Bool Arith Lia.
From J2O Require Import PyLib Dtype CastSem Tensor Graph Redirect Preserve C17Cast.
From J2OGen Require Import GenCast.
Import ListNotations.

(* ---------------------------------------------------------------- typed tensors *)
Record ttensor := mkTT { tt_dtype : dtype; tt_val : tensor value }.
Definition tteq (a b : ttensor) : Prop := tt_dtype a = tt_dtype b /\ teq (tt_val a) (tt_val b).
Definition wt (a : ttensor) : Prop := forall idx, in_range (shape (tt_val a)) idx -> in_dom (tt_dtype a) (at_ (tt_val a) idx).

Lemma tteq_refl a : tteq a a. Proof. split; [reflexivity | apply teq_refl]. Qed.
Lemma tteq_sym a b : tteq a b -> tteq b a. Proof. intros [H1 H2]. split; [now symmetry | now apply teq_sym]. Qed.
Lemma tteq_trans a b c : tteq a b -> tteq b c -> tteq a c.
Proof. intros [H1 H2] [H3 H4]. split; [congruence | eapply teq_trans; eauto]. Qed.

(* ONNX Cast on a typed tensor: elementwise, total (an undefined element conversion leaves the element) *)
Definition vcast (s t : dtype) (v : value) : value := match cast s t v with Some w => w | None => v end.
Definition tcast (t : dtype) (x : ttensor) : ttensor := mkTT t (tmap (vcast (tt_dtype x) t) (tt_val x)).

Lemma tcast_same x : tteq (tcast (tt_dtype x) x) x.
Proof.
  split; [reflexivity|]. split; [reflexivity|]. simpl. intros idx _.
  unfold vcast. now rewrite same_type_cast_id.
Qed.

Lemma tcast_roundtrip s t x : tt_dtype x = s -> wt x ->
  cast_roundtrip_is_value_preserving (code_of s) (code_of t) = Some true ->
  tteq (tcast s (tcast t x)) x.
Proof.
  intros Hs Hwt Hd. destruct (roundtrip_sound _ _ Hd) as (s' & t' & Es & Et & Hrt).
  rewrite dtype_of_code_of in Es, Et. injection Es as <-. injection Et as <-.
  split; [simpl; now symmetry|]. split; [reflexivity|]. simpl. intros idx Hi.
  rewrite Hs. destruct (Hrt (at_ (tt_val x) idx)) as (w & H1 & H2).
  - rewrite <- Hs. now apply Hwt.
  - unfold vcast. rewrite H1, H2. reflexivity.
Qed.

(* ---------------------------------------------------------------- the pass model *)
Record agraph := mkAG { ag_nodes : list node; ag_outputs : list name; ag_ann : name -> option Z (* declared dtype codes *) }.
Definition to_graph (g : agraph) : graph := mkGraph (ag_nodes g) (ag_outputs g).

Definition is_cast (n : node) : option (name * name * Z) :=        (* (input, output, target code) *)
  if String.eqb (n_op n) "Cast" then
    match n_ins n, n_outs n, n_attrs n, n_caps n with
    | [x], [o], [t], [] => Some (x, o, Z.of_nat t)       (* a Cast node has no nested graphs *)
    | _, _, _, _ => None
    end
  else None.

Definition consumers_of (ns : list node) (v : name) : list node := filter (fun m => existsb (Nat.eqb v) (n_ins m)) ns.
Definition observed (g : agraph) (v : name) : bool :=
  existsb (Nat.eqb v) (ag_outputs g) || existsb (fun m => existsb (Nat.eqb v) (n_caps m)) (ag_nodes g).

Definition subst_ag (old new : name) (g : agraph) : agraph :=
  mkAG (map (subst_node old new) (ag_nodes g)) (map (rn old new) (ag_outputs g)) (ag_ann g).

(* the two rewrites the pass is made of, on annotated graphs (Redirect.redirect_remove / Redirect.remove_first):
   redirect every use of [o] (node inputs, nested captures, graph outputs) to [x] and delete o's producer;
   delete the producer of [o] *)
Definition redirect_ag (o x : name) (g : agraph) : agraph :=
  let r := redirect_remove o x (to_graph g) in mkAG (g_nodes r) (g_outputs r) (ag_ann g).
Definition remove_ag (o : name) (g : agraph) : agraph :=
  mkAG (remove_first (node_is o) (ag_nodes g)) (ag_outputs g) (ag_ann g).

Inductive action :=
 | AIdentity (x o : name)                       (* Cast to the declared type of its input *)
 | ARoundtrip (x o f : name) (keep_first : bool). (* x -Cast t-> o -Cast s-> f, removable pair *)

(* decision taken for the node [n], as the Python does (known_values_fit not modelled: graphs of the tie have no Range sources) *)
Definition decide (g : agraph) (n : node) : option action :=
  match is_cast n with
  | None => None
  | Some (x, o, t) =>
      match ag_ann g x with
      | None => None
      | Some s =>
          (* [x <> o], [x <> f] hold in every valid (acyclic) ONNX graph; the Python does not need to test them *)
          if (s =? t)%Z then (if Nat.eqb x o then None else Some (AIdentity x o))
          else match consumers_of (ag_nodes g) o with
               | [m] => match is_cast m with
                        | Some (_, f, t2) =>
                            if (t2 =? s)%Z && (match cast_roundtrip_is_value_preserving s t with Some true => true | _ => false end)
                               && negb (Nat.eqb x o) && negb (Nat.eqb x f) && negb (Nat.eqb o f)
                            then Some (ARoundtrip x o f (observed g o)) else None
                        | None => None end
               | _ => None end
      end
  end.

Fixpoint first_action (g : agraph) (ns : list node) : option action :=
  match ns with [] => None | n :: r => match decide g n with Some a => Some a | None => first_action g r end end.

Definition apply_action (g : agraph) (a : action) : agraph :=
  match a with
  | AIdentity x o => redirect_ag o x g
  | ARoundtrip x o f keep => let g1 := redirect_ag f x g in if keep then g1 else remove_ag o g1
  end.

(* the same thing spelled out on the node list (the form the model had before Redirect.v existed) *)
Lemma apply_action_unfold g a : apply_action g a =
  match a with
  | AIdentity x o =>
      let g1 := subst_ag o x g in mkAG (remove_first (node_is o) (ag_nodes g1)) (ag_outputs g1) (ag_ann g1)
  | ARoundtrip x o f keep =>
      let g1 := subst_ag f x g in
      let ns1 := remove_first (node_is f) (ag_nodes g1) in
      mkAG (if keep then ns1 else remove_first (node_is o) ns1) (ag_outputs g1) (ag_ann g1)
  end.
Proof. destruct a as [x o|x o f [|]]; reflexivity. Qed.

Definition cast_step (g : agraph) : option agraph := option_map (apply_action g) (first_action g (ag_nodes g)).
Fixpoint cast_pass (fuel : nat) (g : agraph) : agraph :=
  match fuel with O => g | S k => match cast_step g with Some g' => cast_pass k g' | None => g end end.

(* ---------------------------------------------------------------- what a step is (no semantics involved) *)
Lemma first_action_in g ns a : first_action g ns = Some a -> exists n, In n ns /\ decide g n = Some a.
Proof.
  induction ns as [|n r IH]; simpl; [discriminate|]. destruct (decide g n) as [b|] eqn:E.
  - intro H. injection H as <-. exists n. split; auto.
  - intro H. destruct (IH H) as (m & Hm & Hd). exists m. split; auto.
Qed.

Lemma is_cast_spec n x o t : is_cast n = Some (x, o, t) ->
  n_op n = "Cast"%string /\ n_ins n = [x] /\ n_outs n = [o] /\ (exists k, n_attrs n = [k] /\ t = Z.of_nat k) /\ n_caps n = [].
Proof.
  unfold is_cast. destruct (String.eqb_spec (n_op n) "Cast"); [|discriminate].
  destruct (n_ins n) as [|x' [|]]; try discriminate. destruct (n_outs n) as [|o' [|]]; try discriminate.
  destruct (n_attrs n) as [|k [|]]; try discriminate. destruct (n_caps n); try discriminate.
  intro H. injection H as <- <- <-. repeat split; eauto.
Qed.

Lemma to_graph_subst old new g : to_graph (subst_ag old new g) = replace_all_uses old new (to_graph g).
Proof. reflexivity. Qed.

Lemma to_graph_redirect o x g : to_graph (redirect_ag o x g) = redirect_remove o x (to_graph g).
Proof. reflexivity. Qed.

(* consumers: a node outside [consumers_of ns o] does not read o through its inputs *)
Lemma not_consumer ns o m : In m ns -> ~ In m (consumers_of ns o) -> ~ In o (n_ins m).
Proof.
  intros Hm Hn Hin. apply Hn. unfold consumers_of. apply filter_In. split; auto.
  apply existsb_exists. exists o. split; auto. apply Nat.eqb_refl.
Qed.

Lemma observed_false g o : observed g o = false ->
  ~ In o (ag_outputs g) /\ forall m, In m (ag_nodes g) -> ~ In o (n_caps m).
Proof.
  unfold observed. intro H. apply orb_false_iff in H as [H1 H2]. split.
  - intro Hin. assert (existsb (Nat.eqb o) (ag_outputs g) = true) by (apply existsb_exists; exists o; split; auto; apply Nat.eqb_refl). congruence.
  - intros m Hm Hin.
    assert (existsb (fun m => existsb (Nat.eqb o) (n_caps m)) (ag_nodes g) = true).
    { apply existsb_exists. exists m. split; auto. apply existsb_exists. exists o. split; auto. apply Nat.eqb_refl. }
    congruence.
Qed.

Lemma remove_first_gone o ns m : NoDup (defs ns) -> node_is o m = true -> ~ In m (remove_first (node_is o) ns).
Proof.
  unfold defs. induction ns as [|n r IH]; simpl; intros Hnd Hk Hin; [contradiction|].
  destruct (node_is o n) eqn:Ekn.
  - (* n removed; m in r defines o as well: o twice in defs *)
    apply node_is_outs in Ekn. apply node_is_outs in Hk. rewrite Ekn in Hnd. simpl in Hnd.
    inversion Hnd as [|? ? Hni _]; subst. apply Hni. apply in_flat_map. exists m. split; auto. rewrite Hk. now left.
  - destruct Hin as [->|Hin]; [congruence|]. apply IH; auto. eapply NoDup_app_r; eauto.
Qed.

(* every case in which one iteration changes the graph, with everything the decision established *)
Inductive step_case (g : agraph) : agraph -> Prop :=
 | SCIdentity n x o t :
     In n (ag_nodes g) -> is_cast n = Some (x, o, t) -> ag_ann g x = Some t -> x <> o ->
     step_case g (redirect_ag o x g)
 | SCRoundtrip n m x o f s t keep :
     In n (ag_nodes g) -> In m (ag_nodes g) -> is_cast n = Some (x, o, t) -> is_cast m = Some (o, f, s) ->
     ag_ann g x = Some s -> cast_roundtrip_is_value_preserving s t = Some true ->
     x <> o -> x <> f -> o <> f -> consumers_of (ag_nodes g) o = [m] -> observed g o = keep ->
     step_case g (if keep then redirect_ag f x g else remove_ag o (redirect_ag f x g)).

Lemma cast_step_inv g g' : cast_step g = Some g' -> step_case g g'.
Proof.
  intro Hstep. unfold cast_step in Hstep.
  destruct (first_action g (ag_nodes g)) as [a|] eqn:Efa; [|discriminate]. injection Hstep as <-.
  destruct (first_action_in g _ _ Efa) as (n & Hn & Hd). unfold decide in Hd.
  destruct (is_cast n) as [[[x o] t]|] eqn:Ecn; [|discriminate].
  destruct (ag_ann g x) as [s|] eqn:Ean; [|discriminate].
  destruct (s =? t)%Z eqn:Est.
  - apply Z.eqb_eq in Est. subst t.
    destruct (Nat.eqb_spec x o) as [|Hxo]; [discriminate|]. injection Hd as <-.
    exact (SCIdentity g n x o s Hn Ecn Ean Hxo).
  - destruct (consumers_of (ag_nodes g) o) as [|m [|]] eqn:Econs; try discriminate.
    destruct (is_cast m) as [[[o' f] t2]|] eqn:Ecm; [|discriminate].
    destruct ((t2 =? s)%Z && _ && negb (Nat.eqb x o) && negb (Nat.eqb x f) && negb (Nat.eqb o f)) eqn:Econd; [|discriminate].
    injection Hd as <-.
    repeat (apply andb_prop in Econd as [Econd ?]).
    apply Z.eqb_eq in Econd. subst t2.
    assert (Hxo : x <> o) by (intro; subst; rewrite Nat.eqb_refl in *; discriminate).
    assert (Hxf : x <> f) by (intro; subst; rewrite Nat.eqb_refl in *; discriminate).
    assert (Hof : o <> f) by (intro; subst; rewrite Nat.eqb_refl in *; discriminate).
    assert (Hdec : cast_roundtrip_is_value_preserving s t = Some true).
    { destruct (cast_roundtrip_is_value_preserving s t) as [[|]|]; try discriminate; reflexivity. }
    assert (Hm : In m (ag_nodes g) /\ In o (n_ins m)).
    { assert (H' : In m (consumers_of (ag_nodes g) o)) by (rewrite Econs; now left).
      unfold consumers_of in H'. apply filter_In in H' as [Hf1 Hf2]. split; auto.
      apply existsb_exists in Hf2 as (y & Hy & E). apply Nat.eqb_eq in E. now subst. }
    destruct Hm as [Hm Hom].
    pose proof (is_cast_spec _ _ _ _ Ecm) as (_ & Hin_m & _ & _ & _).
    rewrite Hin_m in Hom. destruct Hom as [->|[]].
    exact (SCRoundtrip g n m x o f s t (observed g o) Hn Hm Ecn Ecm Ean Hdec Hxo Hxf Hof Econs eq_refl).
Qed.

(* after the second cast of a removable pair is gone (uses of f redirected to x, f's producer deleted), no node
   mentions o: its only input-consumer was the deleted node, and nobody captures it *)
Lemma roundtrip_o_unmentioned g m x o f :
  NoDup (defs (ag_nodes g)) -> consumers_of (ag_nodes g) o = [m] -> n_outs m = [f] -> x <> o ->
  (forall m0, In m0 (ag_nodes g) -> ~ In o (n_caps m0)) ->
  forall m1 y, In m1 (ag_nodes (redirect_ag f x g)) -> In y (n_uses m1) -> y <> o.
Proof.
  intros Hnd Econs Hfm Hxo Hnc m1 y Hm1 Hy Heq. subst y. simpl in Hm1.
  pose proof Hm1 as Hm1'. apply In_remove_first in Hm1. apply in_map_iff in Hm1 as (m0 & Em0 & Hm0). subst m1.
  rewrite n_uses_subst in Hy. apply in_map_iff in Hy as (y0 & Hy0 & Hy0in).
  assert (y0 = o).
  { unfold rn in Hy0. destruct (Nat.eqb_spec y0 f); [congruence | assumption]. }
  subst y0. unfold n_uses in Hy0in. apply in_app_or in Hy0in as [Hi|Hc]; [|exact (Hnc m0 Hm0 Hc)].
  (* m0 reads o through its inputs => m0 is the unique consumer m, whose image was removed *)
  assert (Hcons : In m0 (consumers_of (ag_nodes g) o)).
  { unfold consumers_of. apply filter_In. split; auto. apply existsb_exists. exists o. split; auto. apply Nat.eqb_refl. }
  rewrite Econs in Hcons. destruct Hcons as [<-|[]].
  (* but the image of m was removed by remove_first (node_is f), and f is defined only once *)
  revert Hm1'. apply remove_first_gone; [rewrite defs_subst; exact Hnd|].
  unfold node_is. simpl. rewrite Hfm. apply Nat.eqb_refl.
Qed.

Lemma roundtrip_o_not_output g x o f : x <> o -> ~ In o (ag_outputs g) ->
  forall y, In y (ag_outputs (redirect_ag f x g)) -> y <> o.
Proof.
  intros Hxo Hno y Hy Heq. subst y. simpl in Hy. apply in_map_iff in Hy as (y0 & Hy0 & Hin0).
  unfold rn in Hy0. destruct (Nat.eqb_spec y0 f); [congruence|]. subst y0. contradiction.
Qed.

(* ---------------------------------------------------------------- soundness *)
Section Sound.
  Variable sem : string -> list nat -> list ttensor -> option (list ttensor).
  Hypothesis sem_proper : forall op ats vs vs' o, Forall2 tteq vs vs' -> sem op ats vs = Some o ->
    exists o', sem op ats vs' = Some o' /\ Forall2 tteq o o'.
  Hypothesis sem_wt : forall op ats vs o, Forall wt vs -> sem op ats vs = Some o -> Forall wt o.
  (* the one interpreted operator *)
  Hypothesis sem_cast : forall t vs o, sem "Cast" [t] vs = Some o ->
    exists x d, vs = [x] /\ dtype_of_code (Z.of_nat t) = Some d /\ o = [tcast d x].

  Notation V := ttensor.
  Notation evalg := (eval V sem).
  Notation refinesg := (refines V tteq sem).

  (* what the theorem needs from the world: SSA, inputs well typed, declared dtypes true at run time *)
  Record admissible (g : agraph) (e : env V) : Prop := {
    adm_ssa : ssa V (ag_nodes g) e;
    adm_wt : forall x a, e x = Some a -> wt a;
    adm_ann : forall ef x c a, evalg (ag_nodes g) e = Some ef -> ag_ann g x = Some c -> ef x = Some a ->
                dtype_of_code c = Some (tt_dtype a) }.

  (* value of a Cast node in the final environment *)
  Lemma cast_node_value g e ef n x o t : ssa V (ag_nodes g) e -> evalg (ag_nodes g) e = Some ef -> In n (ag_nodes g) ->
    is_cast n = Some (x, o, t) -> n_caps n = [] ->
    exists vx d, ef x = Some vx /\ dtype_of_code t = Some d /\ ef o = Some (tcast d vx).
  Proof.
    intros Hssa Hev Hin Hc Hcaps. destruct (is_cast_spec _ _ _ _ Hc) as (Hop & Hi & Ho & (k & Hk & ->) & _).
    destruct (eval_consistent V sem _ _ _ n Hssa Hev Hin) as (vs & oo & Hl & Hs & Hlo).
    unfold n_uses in Hl. rewrite Hi, Hcaps in Hl. simpl in Hl.
    destruct (ef x) as [vx|] eqn:Ex; [|discriminate]. injection Hl as <-.
    rewrite Hop, Hk in Hs. destruct (sem_cast _ _ _ Hs) as (x' & d & Hx' & Hd & ->). injection Hx' as <-.
    rewrite Ho in Hlo. simpl in Hlo. destruct (ef o) as [vo|] eqn:Eo; [|discriminate]. injection Hlo as ->.
    exists vx, d. auto.
  Qed.

  Lemma final_wt g e ef : admissible g e -> evalg (ag_nodes g) e = Some ef -> forall x a, ef x = Some a -> wt a.
  Proof. intros [_ Hw _] Hev. eapply (eval_pred V sem wt); eauto. Qed.

  (* THE semantic lemmas: what the decision implies about the final environment of the original run *)
  Lemma identity_value g e ef n x o t :
    admissible g e -> evalg (ag_nodes g) e = Some ef -> In n (ag_nodes g) -> is_cast n = Some (x, o, t) ->
    ag_ann g x = Some t -> forall a, ef o = Some a -> exists b, ef x = Some b /\ tteq a b.
  Proof.
    intros Hadm Hev Hin Hc Hann a Ha. destruct (is_cast_spec _ _ _ _ Hc) as (_ & _ & _ & _ & Hcaps).
    destruct (cast_node_value g e ef n x o t (adm_ssa _ _ Hadm) Hev Hin Hc Hcaps) as (vx & d & Ex & Hd & Eo).
    rewrite Eo in Ha. injection Ha as <-. exists vx. split; auto.
    pose proof (adm_ann _ _ Hadm ef x t vx Hev Hann Ex) as Hdt. rewrite Hd in Hdt. injection Hdt as ->.
    apply tcast_same.
  Qed.

  Lemma roundtrip_value g e ef n m x o f s t :
    admissible g e -> evalg (ag_nodes g) e = Some ef -> In n (ag_nodes g) -> In m (ag_nodes g) ->
    is_cast n = Some (x, o, t) -> is_cast m = Some (o, f, s) ->
    ag_ann g x = Some s -> cast_roundtrip_is_value_preserving s t = Some true ->
    forall a, ef f = Some a -> exists b, ef x = Some b /\ tteq a b.
  Proof.
    intros Hadm Hev Hn Hm Hcn Hcm Hann Hdec a Ha.
    destruct (is_cast_spec _ _ _ _ Hcn) as (_ & _ & _ & _ & Hcapn). destruct (is_cast_spec _ _ _ _ Hcm) as (_ & _ & _ & _ & Hcapm).
    destruct (cast_node_value g e ef n x o t (adm_ssa _ _ Hadm) Hev Hn Hcn Hcapn) as (vx & dt_ & Ex & Hdt & Eo).
    destruct (cast_node_value g e ef m o f s (adm_ssa _ _ Hadm) Hev Hm Hcm Hcapm) as (vo & ds & Eo' & Hds & Ef).
    rewrite Eo in Eo'. injection Eo' as <-. rewrite Ef in Ha. injection Ha as <-.
    exists vx. split; auto.
    pose proof (adm_ann _ _ Hadm ef x s vx Hev Hann Ex) as Hsx. rewrite Hds in Hsx. injection Hsx as Hsx.
    apply tcast_roundtrip; auto.
    - eapply final_wt; eauto.
    - rewrite (code_of_dtype_of _ _ Hds), (code_of_dtype_of _ _ Hdt). exact Hdec.
  Qed.

  (* the input of a Cast is available whenever its output is *)
  Lemma cast_avail g e n x o t : admissible g e -> In n (ag_nodes g) -> is_cast n = Some (x, o, t) ->
    avail_before V sem (ag_nodes g) e x o.
  Proof.
    intros Hadm Hin Hc. destruct (is_cast_spec _ _ _ _ Hc) as (_ & Hi & Ho & _ & _).
    apply (avail_from_producer V sem (ag_nodes g) e n x o (adm_ssa _ _ Hadm) Hin).
    - unfold n_uses. rewrite Hi. now left.
    - rewrite Ho. now left.
  Qed.

  (* x is available whenever f is: f's producer reads o, o's producer reads x *)
  Lemma roundtrip_avail g e n m x o f s t : admissible g e -> In n (ag_nodes g) -> In m (ag_nodes g) ->
    is_cast n = Some (x, o, t) -> is_cast m = Some (o, f, s) -> avail_before V sem (ag_nodes g) e x f.
  Proof.
    intros Hadm Hn Hm Hcn Hcm pre post em a Hsplit Hpre Hfa.
    assert (Ho : em o <> None) by exact (cast_avail g e m o f s Hadm Hm Hcm pre post em a Hsplit Hpre Hfa).
    destruct (em o) as [vo|] eqn:Eo; [|congruence].
    exact (cast_avail g e n x o t Hadm Hn Hcn pre post em vo Hsplit Hpre Eo).
  Qed.

  (* STEP 1 of every action: redirecting the uses is sound *)
  Theorem identity_redirect_sound g e n x o t :
    admissible g e -> In n (ag_nodes g) -> is_cast n = Some (x, o, t) -> n_caps n = [] -> ag_ann g x = Some t ->
    refinesg (to_graph g) (replace_all_uses o x (to_graph g)) e.
  Proof.
    intros Hadm Hin Hc _ Hann out Hrun.
    assert (Hev : exists ef, evalg (ag_nodes g) e = Some ef).
    { unfold run in Hrun. simpl in Hrun. destruct (evalg (ag_nodes g) e); [eauto|discriminate]. }
    destruct Hev as [ef Hev].
    refine (replace_all_uses_sound V tteq tteq_refl tteq_sym tteq_trans sem sem_proper o x (to_graph g) e _ out Hrun).
    apply (prefix_inv_from_final V tteq sem o x (ag_nodes g) e ef (adm_ssa _ _ Hadm) Hev).
    - exact (identity_value g e ef n x o t Hadm Hev Hin Hc Hann).
    - exact (cast_avail g e n x o t Hadm Hin Hc).
  Qed.

  Theorem roundtrip_redirect_sound g e n m x o f s t :
    admissible g e -> In n (ag_nodes g) -> In m (ag_nodes g) ->
    is_cast n = Some (x, o, t) -> n_caps n = [] -> is_cast m = Some (o, f, s) -> n_caps m = [] ->
    ag_ann g x = Some s -> cast_roundtrip_is_value_preserving s t = Some true ->
    refinesg (to_graph g) (replace_all_uses f x (to_graph g)) e.
  Proof.
    intros Hadm Hn Hm Hcn _ Hcm _ Hann Hdec out Hrun.
    assert (Hev : exists ef, evalg (ag_nodes g) e = Some ef).
    { unfold run in Hrun. simpl in Hrun. destruct (evalg (ag_nodes g) e); [eauto|discriminate]. }
    destruct Hev as [ef Hev].
    refine (replace_all_uses_sound V tteq tteq_refl tteq_sym tteq_trans sem sem_proper f x (to_graph g) e _ out Hrun).
    apply (prefix_inv_from_final V tteq sem f x (ag_nodes g) e ef (adm_ssa _ _ Hadm) Hev).
    - exact (roundtrip_value g e ef n m x o f s t Hadm Hev Hn Hm Hcn Hcm Hann Hdec).
    - exact (roundtrip_avail g e n m x o f s t Hadm Hn Hm Hcn Hcm).
  Qed.

  (* ---------------------------------------------------------------- the whole step *)
  (* ONE ITERATION of the pass is sound for every admissible annotated graph *)
  Theorem cast_step_sound g g' e :
    admissible g e -> cast_step g = Some g' -> refinesg (to_graph g) (to_graph g') e.
  Proof.
    intros Hadm Hstep. pose proof (adm_ssa _ _ Hadm) as Hssa.
    destruct (cast_step_inv _ _ Hstep) as [n x o t Hn Hc Hann Hxo | n m x o f s t keep Hn Hm Hcn Hcm Hann Hdec Hxo Hxf Hof Hcons Hobs].
    - (* identity cast *)
      rewrite to_graph_redirect.
      apply (redirect_remove_sound V tteq tteq_refl tteq_sym tteq_trans sem sem_proper (to_graph g) e o x Hssa Hxo).
      + intros ef a Hev. exact (identity_value g e ef n x o t Hadm Hev Hn Hc Hann a).
      + exact (cast_avail g e n x o t Hadm Hn Hc).
    - (* round trip: 1. redirect f -> x and remove the second cast *)
      assert (H1 : refinesg (to_graph g) (to_graph (redirect_ag f x g)) e).
      { rewrite to_graph_redirect.
        apply (redirect_remove_sound V tteq tteq_refl tteq_sym tteq_trans sem sem_proper (to_graph g) e f x Hssa Hxf).
        - intros ef a Hev. exact (roundtrip_value g e ef n m x o f s t Hadm Hev Hn Hm Hcn Hcm Hann Hdec a).
        - exact (roundtrip_avail g e n m x o f s t Hadm Hn Hm Hcn Hcm). }
      destruct keep; [exact H1|].
      (* 2. nothing observes o: remove the first cast as well *)
      eapply (refines_trans V tteq tteq_trans sem); [exact H1|].
      apply observed_false in Hobs as [Hno Hnc].
      pose proof (is_cast_spec _ _ _ _ Hcm) as (_ & _ & Hfm & _ & _).
      apply (remove_unmentioned V tteq tteq_refl sem (ag_nodes (redirect_ag f x g)) (ag_outputs (redirect_ag f x g)) o e).
      + exact (proj1 (redirect_remove_ssa V (to_graph g) e f x Hssa)).
      + exact (roundtrip_o_unmentioned g m x o f (proj1 Hssa) Hcons Hfm Hxo Hnc).
      + exact (roundtrip_o_not_output g x o f Hxo Hno).
  Qed.

  (* ---------------------------------------------------------------- admissibility is PRESERVED by the step
     (values are preserved up to tteq, which keeps the dtype; the removed names are no longer defined), so the
     admissibility of the INPUT graph is all the loop needs *)
  Lemma redirect_admissible g e ef n o x :
    admissible g e -> evalg (ag_nodes g) e = Some ef -> x <> o -> In n (ag_nodes g) -> n_outs n = [o] ->
    (forall a, ef o = Some a -> exists b, ef x = Some b /\ tteq a b) ->
    avail_before V sem (ag_nodes g) e x o ->
    admissible (redirect_ag o x g) e /\ exists ef', evalg (ag_nodes (redirect_ag o x g)) e = Some ef'.
  Proof.
    intros Hadm Hev Hne Hn Houts Hval Hav. pose proof (adm_ssa _ _ Hadm) as Hssa.
    destruct (redirect_remove_env V tteq tteq_refl tteq_sym tteq_trans sem sem_proper (to_graph g) e o x ef Hssa Hne Hval Hav Hev)
      as (ef' & Hev' & Hrel).
    assert (Hex : existsb (node_is o) (ag_nodes g) = true).
    { apply existsb_exists. exists n. split; auto. unfold node_is. rewrite Houts. apply Nat.eqb_refl. }
    pose proof (redirect_remove_o_undefined V sem (to_graph g) e o x ef' Hssa Hex Hev') as Hundef.
    split; [|exists ef'; exact Hev'].
    constructor.
    - exact (redirect_remove_ssa V (to_graph g) e o x Hssa).
    - exact (adm_wt _ _ Hadm).
    - intros ef2 y c a' Hev2 Hc Hy.
      assert (Heq : ef2 = ef').
      { change (evalg (g_nodes (redirect_remove o x (to_graph g))) e = Some ef2) in Hev2. congruence. }
      subst ef2. destruct (Nat.eq_dec y o) as [->|Hyo]; [congruence|].
      destruct (Hrel y a' Hyo Hy) as (a0 & Ha0 & [Hdt _]).
      rewrite <- Hdt. exact (adm_ann _ _ Hadm ef y c a0 Hev Hc Ha0).
  Qed.

  Lemma remove_admissible g e ef o :
    admissible g e -> evalg (ag_nodes g) e = Some ef ->
    (forall m y, In m (ag_nodes g) -> In y (n_uses m) -> y <> o) ->
    admissible (remove_ag o g) e.
  Proof.
    intros Hadm Hev Huses. pose proof (adm_ssa _ _ Hadm) as [Hnd Hfree].
    destruct (remove_unmentioned_env V sem (ag_nodes g) o e ef Huses Hev) as (ef' & Hev' & Hag).
    constructor.
    - split; simpl.
      + apply NoDup_defs_remove_first. exact Hnd.
      + intros y Hy. apply Hfree. eapply defs_remove_first_incl; exact Hy.
    - exact (adm_wt _ _ Hadm).
    - intros ef2 y c a Hev2 Hc Hy.
      assert (Heq : ef2 = ef').
      { change (evalg (remove_first (node_is o) (ag_nodes g)) e = Some ef2) in Hev2. congruence. }
      subst ef2. change (ag_ann g y = Some c) in Hc.
      destruct (Nat.eq_dec y o) as [->|Hyo].
      + destruct (existsb (node_is o) (ag_nodes g)) eqn:Ex.
        * (* o's producer was removed: o is not defined any more *)
          exfalso. assert (Hundef : ef' o = None).
          { eapply (eval_undefined V sem); [exact Hev' | | apply defs_remove_first_notin; auto].
            apply Hfree. apply existsb_exists in Ex as (m & Hm & Hk). apply node_is_outs in Hk.
            unfold defs. apply in_flat_map. exists m. split; auto. rewrite Hk. now left. }
          congruence.
        * (* no such node: nothing was removed *)
          assert (Hnone : forall m, In m (ag_nodes g) -> node_is o m = false).
          { intros m Hm. destruct (node_is o m) eqn:E; auto.
            assert (existsb (node_is o) (ag_nodes g) = true) by (apply existsb_exists; eauto). congruence. }
          rewrite (remove_first_none _ _ Hnone) in Hev'.
          assert (ef' = ef) by congruence. subst ef'.
          exact (adm_ann _ _ Hadm ef o c a Hev Hc Hy).
      + rewrite <- (Hag y) in Hy by (intros [E|[]]; congruence).
        exact (adm_ann _ _ Hadm ef y c a Hev Hc Hy).
  Qed.

  Theorem cast_step_admissible g g' e ef :
    admissible g e -> evalg (ag_nodes g) e = Some ef -> cast_step g = Some g' -> admissible g' e.
  Proof.
    intros Hadm Hev Hstep. pose proof (adm_ssa _ _ Hadm) as Hssa.
    destruct (cast_step_inv _ _ Hstep) as [n x o t Hn Hc Hann Hxo | n m x o f s t keep Hn Hm Hcn Hcm Hann Hdec Hxo Hxf Hof Hcons Hobs].
    - pose proof (is_cast_spec _ _ _ _ Hc) as (_ & _ & Ho & _ & _).
      exact (proj1 (redirect_admissible g e ef n o x Hadm Hev Hxo Hn Ho
                      (identity_value g e ef n x o t Hadm Hev Hn Hc Hann) (cast_avail g e n x o t Hadm Hn Hc))).
    - pose proof (is_cast_spec _ _ _ _ Hcm) as (_ & _ & Hfm & _ & _).
      destruct (redirect_admissible g e ef m f x Hadm Hev Hxf Hm Hfm
                  (roundtrip_value g e ef n m x o f s t Hadm Hev Hn Hm Hcn Hcm Hann Hdec)
                  (roundtrip_avail g e n m x o f s t Hadm Hn Hm Hcn Hcm)) as [Hadm1 [ef1 Hev1]].
      destruct keep; [exact Hadm1|].
      apply observed_false in Hobs as [Hno Hnc].
      apply (remove_admissible (redirect_ag f x g) e ef1 o Hadm1 Hev1).
      exact (roundtrip_o_unmentioned g m x o f (proj1 Hssa) Hcons Hfm Hxo Hnc).
  Qed.

  (* ---------------------------------------------------------------- the whole pass (the while-changed loop) *)
  (* THE PASS: for every graph that is admissible when the pass starts *)
  Theorem cast_pass_sound_strong : forall fuel g e, admissible g e ->
    refinesg (to_graph g) (to_graph (cast_pass fuel g)) e.
  Proof.
    induction fuel as [|k IH]; simpl; intros g e Hadm.
    - apply (refines_refl V tteq tteq_refl sem).
    - destruct (cast_step g) as [g'|] eqn:Es; [|apply (refines_refl V tteq tteq_refl sem)].
      intros out Hrun.
      assert (Hev : exists ef, evalg (ag_nodes g) e = Some ef).
      { unfold run in Hrun. simpl in Hrun. destruct (evalg (ag_nodes g) e); [eauto|discriminate]. }
      destruct Hev as [ef Hev].
      pose proof (cast_step_admissible g g' e ef Hadm Hev Es) as Hadm'.
      revert out Hrun. eapply (refines_trans V tteq tteq_trans sem).
      + eapply cast_step_sound; eauto.
      + apply IH. exact Hadm'.
  Qed.

  (* the earlier, weaker form: every graph the loop passes through is ASSUMED admissible *)
  Fixpoint admissible_along (fuel : nat) (g : agraph) (e : env ttensor) : Prop :=
    admissible g e /\
    match fuel with
    | O => True
    | S k => match cast_step g with Some g' => admissible_along k g' e | None => True end
    end.

  Corollary cast_pass_sound : forall fuel g e, admissible_along fuel g e ->
    refines ttensor tteq sem (to_graph g) (to_graph (cast_pass fuel g)) e.
  Proof. intros fuel g e H. apply cast_pass_sound_strong. destruct fuel; exact (proj1 H). Qed.
End Sound.

(* non-vacuity: the pass model really removes a lossless pair and keeps a lossy one *)
Definition ex_ann (n : name) : option Z := match n with 0 => Some 1%Z | 1 => Some 11%Z | 2 => Some 1%Z | _ => None end.
Example cast_pass_removes_f32_f64_f32 :
  ag_nodes (cast_pass 5 (mkAG [mkNode "Cast" [11] [0] [] [1]; mkNode "Cast" [1] [1] [] [2]; mkNode "Relu" [] [2] [] [3]] [3] ex_ann))
  = [mkNode "Relu" [] [0] [] [3]].
Proof. vm_compute. reflexivity. Qed.
Definition ex_ann2 (n : name) : option Z := match n with 0 => Some 11%Z | 1 => Some 1%Z | 2 => Some 11%Z | _ => None end.
Example cast_pass_keeps_f64_f32_f64 :
  List.length (ag_nodes (cast_pass 5 (mkAG [mkNode "Cast" [1] [0] [] [1]; mkNode "Cast" [11] [1] [] [2]; mkNode "Relu" [] [2] [] [3]] [3] ex_ann2))) = 3.
Proof. vm_compute. reflexivity. Qed.
