(* CastPass (C02 x C17): a faithful model of remove_redundant_casts_ir (one iteration of its
   while-changed loop, and the loop) and its soundness for ALL annotated SSA graphs: what the pass removes
   is justified by the translated decision procedure (C17) through the substitution and dead-node lemmas. *)
From Coq Require Import ZArith String List Bool Arith Lia.
From J2O Require Import PyLib Dtype CastSem Tensor Graph C17Cast.
From J2OGen Require Import GenCast.
Import ListNotations.

(* ---------------------------------------------------------------- typed tensors *)
Record ttensor := mkTT { tt_dtype : dtype; tt_val : tensor value }.
Definition tteq (a b : ttensor) : Prop := tt_dtype a = tt_dtype b /\ teq (tt_val a) (tt_val b).
Definition wt (a : ttensor) : Prop := forall idx, in_range (shape (tt_val a)) idx -> in_dom (tt_dtype a) (at_ (tt_val a) idx).

Lemma tteq_refl a : tteq a a. Proof. split; [reflexivity | apply teq_refl]. Qed.
Lemma tteq_sym a b : tteq a b -> tteq b a. Proof. intros [H1 H2]. split; [now symmetry | now apply teq_sym]. Qed.
Lemma tteq_trans a b c : tteq a b -> tteq b c -> tteq a c.
Proof. intros [H1 H2] [H3 H4]. split; [congruence | eapply teq_trans; eauto]. Qed.

(* ONNX Cast on a typed tensor: elementwise, total (an undefined element conversion leaves the element) *)
Definition vcast (s t : dtype) (v : value) : value := match cast s t v with Some w => w | None => v end.
Definition tcast (t : dtype) (x : ttensor) : ttensor := mkTT t (tmap (vcast (tt_dtype x) t) (tt_val x)).

Lemma tcast_same x : tteq (tcast (tt_dtype x) x) x.
Proof.
  split; [reflexivity|]. split; [reflexivity|]. simpl. intros idx _.
  unfold vcast. now rewrite same_type_cast_id.
Qed.

Lemma tcast_roundtrip s t x : tt_dtype x = s -> wt x ->
  cast_roundtrip_is_value_preserving (code_of s) (code_of t) = Some true ->
  tteq (tcast s (tcast t x)) x.
Proof.
  intros Hs Hwt Hd. destruct (roundtrip_sound _ _ Hd) as (s' & t' & Es & Et & Hrt).
  rewrite dtype_of_code_of in Es, Et. injection Es as <-. injection Et as <-.
  split; [simpl; now symmetry|]. split; [reflexivity|]. simpl. intros idx Hi.
  rewrite Hs. destruct (Hrt (at_ (tt_val x) idx)) as (w & H1 & H2).
  - rewrite <- Hs. now apply Hwt.
  - unfold vcast. rewrite H1, H2. reflexivity.
Qed.

(* ---------------------------------------------------------------- the pass model *)
Record agraph := mkAG { ag_nodes : list node; ag_outputs : list name; ag_ann : name -> option Z (* declared dtype codes *) }.
Definition to_graph (g : agraph) : graph := mkGraph (ag_nodes g) (ag_outputs g).

Definition is_cast (n : node) : option (name * name * Z) :=        (* (input, output, target code) *)
  if String.eqb (n_op n) "Cast" then
    match n_ins n, n_outs n, n_attrs n, n_caps n with
    | [x], [o], [t], [] => Some (x, o, Z.of_nat t)       (* a Cast node has no nested graphs *)
    | _, _, _, _ => None
    end
  else None.

Definition consumers_of (ns : list node) (v : name) : list node := filter (fun m => existsb (Nat.eqb v) (n_ins m)) ns.
Definition observed (g : agraph) (v : name) : bool :=
  existsb (Nat.eqb v) (ag_outputs g) || existsb (fun m => existsb (Nat.eqb v) (n_caps m)) (ag_nodes g).

Fixpoint remove_first (k : node -> bool) (ns : list node) : list node :=
  match ns with [] => [] | n :: r => if k n then r else n :: remove_first k r end.
Definition node_is (o : name) (n : node) : bool := match n_outs n with [y] => Nat.eqb y o | _ => false end.

Definition subst_ag (old new : name) (g : agraph) : agraph :=
  mkAG (map (subst_node old new) (ag_nodes g)) (map (rn old new) (ag_outputs g)) (ag_ann g).

Inductive action :=
 | AIdentity (x o : name)                       (* Cast to the declared type of its input *)
 | ARoundtrip (x o f : name) (keep_first : bool). (* x -Cast t-> o -Cast s-> f, removable pair *)

(* decision taken for the node [n], as the Python does (known_values_fit not modelled: graphs of the tie have no Range sources) *)
Definition decide (g : agraph) (n : node) : option action :=
  match is_cast n with
  | None => None
  | Some (x, o, t) =>
      match ag_ann g x with
      | None => None
      | Some s =>
          (* [x <> o], [x <> f] hold in every valid (acyclic) ONNX graph; the Python does not need to test them *)
          if (s =? t)%Z then (if Nat.eqb x o then None else Some (AIdentity x o))
          else match consumers_of (ag_nodes g) o with
               | [m] => match is_cast m with
                        | Some (_, f, t2) =>
                            if (t2 =? s)%Z && (match cast_roundtrip_is_value_preserving s t with Some true => true | _ => false end)
                               && negb (Nat.eqb x o) && negb (Nat.eqb x f) && negb (Nat.eqb o f)
                            then Some (ARoundtrip x o f (observed g o)) else None
                        | None => None end
               | _ => None end
      end
  end.

Fixpoint first_action (g : agraph) (ns : list node) : option action :=
  match ns with [] => None | n :: r => match decide g n with Some a => Some a | None => first_action g r end end.

Definition apply_action (g : agraph) (a : action) : agraph :=
  match a with
  | AIdentity x o =>
      let g1 := subst_ag o x g in mkAG (remove_first (node_is o) (ag_nodes g1)) (ag_outputs g1) (ag_ann g1)
  | ARoundtrip x o f keep =>
      let g1 := subst_ag f x g in
      let ns1 := remove_first (node_is f) (ag_nodes g1) in
      mkAG (if keep then ns1 else remove_first (node_is o) ns1) (ag_outputs g1) (ag_ann g1)
  end.

Definition cast_step (g : agraph) : option agraph := option_map (apply_action g) (first_action g (ag_nodes g)).
Fixpoint cast_pass (fuel : nat) (g : agraph) : agraph :=
  match fuel with O => g | S k => match cast_step g with Some g' => cast_pass k g' | None => g end end.

(* ---------------------------------------------------------------- soundness *)
Section Sound.
  Variable sem : string -> list nat -> list ttensor -> option (list ttensor).
  Hypothesis sem_proper : forall op ats vs vs' o, Forall2 tteq vs vs' -> sem op ats vs = Some o ->
    exists o', sem op ats vs' = Some o' /\ Forall2 tteq o o'.
  Hypothesis sem_wt : forall op ats vs o, Forall wt vs -> sem op ats vs = Some o -> Forall wt o.
  (* the one interpreted operator *)
  Hypothesis sem_cast : forall t vs o, sem "Cast" [t] vs = Some o ->
    exists x d, vs = [x] /\ dtype_of_code (Z.of_nat t) = Some d /\ o = [tcast d x].

  Notation V := ttensor.
  Notation evalg := (eval V sem).
  Notation refinesg := (refines V tteq sem).

  (* what the theorem needs from the world: SSA, inputs well typed, declared dtypes true at run time *)
  Record admissible (g : agraph) (e : env V) : Prop := {
    adm_ssa : ssa V (ag_nodes g) e;
    adm_wt : forall x a, e x = Some a -> wt a;
    adm_ann : forall ef x c a, evalg (ag_nodes g) e = Some ef -> ag_ann g x = Some c -> ef x = Some a ->
                dtype_of_code c = Some (tt_dtype a) }.

  Lemma decide_in g n a : decide g n = Some a -> True. Proof. trivial. Qed.

  Lemma first_action_in g ns a : first_action g ns = Some a -> exists n, In n ns /\ decide g n = Some a.
  Proof.
    induction ns as [|n r IH]; simpl; [discriminate|]. destruct (decide g n) as [b|] eqn:E.
    - intro H. injection H as <-. exists n. split; auto.
    - intro H. destruct (IH H) as (m & Hm & Hd). exists m. split; auto.
  Qed.

  Lemma is_cast_spec n x o t : is_cast n = Some (x, o, t) ->
    n_op n = "Cast"%string /\ n_ins n = [x] /\ n_outs n = [o] /\ (exists k, n_attrs n = [k] /\ t = Z.of_nat k) /\ n_caps n = [].
  Proof.
    unfold is_cast. destruct (String.eqb_spec (n_op n) "Cast"); [|discriminate].
    destruct (n_ins n) as [|x' [|]]; try discriminate. destruct (n_outs n) as [|o' [|]]; try discriminate.
    destruct (n_attrs n) as [|k [|]]; try discriminate. destruct (n_caps n); try discriminate.
    intro H. injection H as <- <- <-. repeat split; eauto.
  Qed.

  (* value of a Cast node in the final environment *)
  Lemma cast_node_value g e ef n x o t : ssa V (ag_nodes g) e -> evalg (ag_nodes g) e = Some ef -> In n (ag_nodes g) ->
    is_cast n = Some (x, o, t) -> n_caps n = [] ->
    exists vx d, ef x = Some vx /\ dtype_of_code t = Some d /\ ef o = Some (tcast d vx).
  Proof.
    intros Hssa Hev Hin Hc Hcaps. destruct (is_cast_spec _ _ _ _ Hc) as (Hop & Hi & Ho & (k & Hk & ->) & _).
    destruct (eval_consistent V sem _ _ _ n Hssa Hev Hin) as (vs & oo & Hl & Hs & Hlo).
    unfold n_uses in Hl. rewrite Hi, Hcaps in Hl. simpl in Hl.
    destruct (ef x) as [vx|] eqn:Ex; [|discriminate]. injection Hl as <-.
    rewrite Hop, Hk in Hs. destruct (sem_cast _ _ _ Hs) as (x' & d & Hx' & Hd & ->). injection Hx' as <-.
    rewrite Ho in Hlo. simpl in Hlo. destruct (ef o) as [vo|] eqn:Eo; [|discriminate]. injection Hlo as ->.
    exists vx, d. auto.
  Qed.

  Lemma final_wt g e ef : admissible g e -> evalg (ag_nodes g) e = Some ef -> forall x a, ef x = Some a -> wt a.
  Proof. intros [_ Hw _] Hev. eapply (eval_pred V sem wt); eauto. Qed.

  (* STEP 1 of every action: redirecting the uses is sound *)
  Theorem identity_redirect_sound g e n x o t :
    admissible g e -> In n (ag_nodes g) -> is_cast n = Some (x, o, t) -> n_caps n = [] -> ag_ann g x = Some t ->
    refinesg (to_graph g) (replace_all_uses o x (to_graph g)) e.
  Proof.
    intros Hadm Hin Hc Hcaps Hann out Hrun.
    assert (Hev : exists ef, evalg (ag_nodes g) e = Some ef).
    { unfold run in Hrun. simpl in Hrun. destruct (evalg (ag_nodes g) e); [eauto|discriminate]. }
    destruct Hev as [ef Hev]. destruct (is_cast_spec _ _ _ _ Hc) as (_ & Hi & Ho & _ & _).
    refine (replace_all_uses_sound V tteq tteq_refl tteq_sym tteq_trans sem sem_proper o x (to_graph g) e _ out Hrun).
    apply (prefix_inv_from_final V tteq sem o x (ag_nodes g) e ef (adm_ssa _ _ Hadm) Hev).
    - intros a Ha. destruct (cast_node_value g e ef n x o t (adm_ssa _ _ Hadm) Hev Hin Hc Hcaps) as (vx & d & Ex & Hd & Eo).
      rewrite Eo in Ha. injection Ha as <-. exists vx. split; auto.
      pose proof (adm_ann _ _ Hadm ef x t vx Hev Hann Ex) as Hdt. rewrite Hd in Hdt. injection Hdt as ->.
      apply tcast_same.
    - apply (avail_from_producer V sem (ag_nodes g) e n x o (adm_ssa _ _ Hadm) Hin).
      + unfold n_uses. rewrite Hi. now left.
      + rewrite Ho. now left.
  Qed.

  Theorem roundtrip_redirect_sound g e n m x o f s t :
    admissible g e -> In n (ag_nodes g) -> In m (ag_nodes g) ->
    is_cast n = Some (x, o, t) -> n_caps n = [] -> is_cast m = Some (o, f, s) -> n_caps m = [] ->
    ag_ann g x = Some s -> cast_roundtrip_is_value_preserving s t = Some true ->
    refinesg (to_graph g) (replace_all_uses f x (to_graph g)) e.
  Proof.
    intros Hadm Hn Hm Hcn Hcapn Hcm Hcapm Hann Hdec out Hrun.
    assert (Hev : exists ef, evalg (ag_nodes g) e = Some ef).
    { unfold run in Hrun. simpl in Hrun. destruct (evalg (ag_nodes g) e); [eauto|discriminate]. }
    destruct Hev as [ef Hev].
    destruct (is_cast_spec _ _ _ _ Hcn) as (_ & Hin_ & Hon & _ & _). destruct (is_cast_spec _ _ _ _ Hcm) as (_ & Him & Hom & _ & _).
    refine (replace_all_uses_sound V tteq tteq_refl tteq_sym tteq_trans sem sem_proper f x (to_graph g) e _ out Hrun).
    apply (prefix_inv_from_final V tteq sem f x (ag_nodes g) e ef (adm_ssa _ _ Hadm) Hev).
    - intros a Ha.
      destruct (cast_node_value g e ef n x o t (adm_ssa _ _ Hadm) Hev Hn Hcn Hcapn) as (vx & dt_ & Ex & Hdt & Eo).
      destruct (cast_node_value g e ef m o f s (adm_ssa _ _ Hadm) Hev Hm Hcm Hcapm) as (vo & ds & Eo' & Hds & Ef).
      rewrite Eo in Eo'. injection Eo' as <-. rewrite Ef in Ha. injection Ha as <-.
      exists vx. split; auto.
      pose proof (adm_ann _ _ Hadm ef x s vx Hev Hann Ex) as Hsx. rewrite Hds in Hsx. injection Hsx as Hsx.
      apply tcast_roundtrip; auto.
      + eapply final_wt; eauto.
      + rewrite (code_of_dtype_of _ _ Hds), (code_of_dtype_of _ _ Hdt). exact Hdec.
    - (* x is available whenever f is: f's producer reads o, o's producer reads x *)
      intros pre post em a Hsplit Hpre Hfa.
      assert (Ho : em o <> None).
      { eapply (avail_from_producer V sem (ag_nodes g) e m o f (adm_ssa _ _ Hadm) Hm); eauto.
        - unfold n_uses. rewrite Him. now left.
        - rewrite Hom. now left. }
      destruct (em o) as [vo|] eqn:Eo; [|congruence].
      eapply (avail_from_producer V sem (ag_nodes g) e n x o (adm_ssa _ _ Hadm) Hn); eauto.
      + unfold n_uses. rewrite Hin_. now left.
      + rewrite Hon. now left.
  Qed.
End Sound.

(* ---------------------------------------------------------------- removal and the whole step *)
Lemma rn_neq old new y : new <> old -> rn old new y <> old.
Proof. intro H. unfold rn. destruct (Nat.eqb_spec y old); congruence. Qed.

Lemma remove_first_split k pre n post : k n = true -> (forall m, In m pre -> k m = false) ->
  remove_first k (pre ++ n :: post) = pre ++ post.
Proof.
  intros Hk Hp. induction pre as [|m pre IH]; simpl; [now rewrite Hk|].
  rewrite (Hp m) by now left. f_equal. apply IH. intros; apply Hp; now right.
Qed.

Lemma remove_first_none k ns : (forall m, In m ns -> k m = false) -> remove_first k ns = ns.
Proof. induction ns as [|m r IH]; simpl; intro H; auto. rewrite (H m) by now left. f_equal. apply IH. intros; apply H; now right. Qed.

Section Step.
  Variable sem : string -> list nat -> list ttensor -> option (list ttensor).
  Hypothesis sem_proper : forall op ats vs vs' o, Forall2 tteq vs vs' -> sem op ats vs = Some o ->
    exists o', sem op ats vs' = Some o' /\ Forall2 tteq o o'.
  Notation V := ttensor.
  Notation refinesg := (refines V tteq sem).

  (* removing the node that defines [o] from a graph in which nothing mentions [o] any more *)
  Lemma remove_unmentioned ns outs o e :
    NoDup (defs ns) ->
    (forall m y, In m ns -> In y (n_uses m) -> y <> o) -> (forall y, In y outs -> y <> o) ->
    refinesg (mkGraph ns outs) (mkGraph (remove_first (node_is o) ns) outs) e.
  Proof.
    intros Hnd Huses Houts.
    destruct (existsb (node_is o) ns) eqn:Ex.
    - apply existsb_exists in Ex as (n & Hin & Hk).
      (* split at the FIRST node with outs = [o]; by NoDup it is the only one *)
      assert (Hsplit : exists pre post n0, ns = pre ++ n0 :: post /\ node_is o n0 = true /\ forall m, In m pre -> node_is o m = false).
      { clear - Hin Hk. induction ns as [|m r IH]; [contradiction|].
        destruct (node_is o m) eqn:Em.
        - exists [], r, m. repeat split; auto. intros ? [].
        - destruct Hin as [->|Hin]; [congruence|]. destruct (IH Hin) as (pre & post & n0 & -> & Hn0 & Hp).
          exists (m :: pre), post, n0. repeat split; auto. intros m' [<-|H]; auto. }
      destruct Hsplit as (pre & post & n0 & -> & Hn0 & Hp).
      rewrite (remove_first_split _ _ _ _ Hn0 Hp).
      assert (Ho : n_outs n0 = [o]).
      { unfold node_is in Hn0. destruct (n_outs n0) as [|y [|]]; try discriminate. apply Nat.eqb_eq in Hn0. now subst. }
      apply (remove_node_sound V tteq tteq_refl sem pre n0 post outs e).
      + intros m y Hm Hy. rewrite Ho. intros [E|[]].
        assert (Hm' : In m (pre ++ n0 :: post)) by (apply in_or_app; right; now right).
        apply (Huses m y Hm' Hy). now symmetry.
      + intros y Hy. rewrite Ho. intros [E|[]]. apply (Houts y Hy). now symmetry.
    - assert (Hnone : forall m, In m ns -> node_is o m = false).
      { intros m Hm. destruct (node_is o m) eqn:E; auto.
        assert (existsb (node_is o) ns = true) by (apply existsb_exists; eauto). congruence. }
      rewrite (remove_first_none _ _ Hnone). intros out Hrun. exists out. split; auto.
      clear. induction out; constructor; auto. apply tteq_refl.
  Qed.
End Step.

(* ---------------------------------------------------------------- the whole step and the pass *)
Section PassSound.
  Variable sem : string -> list nat -> list ttensor -> option (list ttensor).
  Hypothesis sem_proper : forall op ats vs vs' o, Forall2 tteq vs vs' -> sem op ats vs = Some o ->
    exists o', sem op ats vs' = Some o' /\ Forall2 tteq o o'.
  Hypothesis sem_wt : forall op ats vs o, Forall wt vs -> sem op ats vs = Some o -> Forall wt o.
  Hypothesis sem_cast : forall t vs o, sem "Cast" [t] vs = Some o ->
    exists x d, vs = [x] /\ dtype_of_code (Z.of_nat t) = Some d /\ o = [tcast d x].
  Notation V := ttensor.
  Notation refinesg := (refines V tteq sem).

  Lemma defs_subst old new ns : defs (map (subst_node old new) ns) = defs ns.
  Proof. unfold defs. induction ns as [|n r IH]; simpl; auto. now rewrite IH. Qed.

  Lemma uses_subst_neq old new ns m y : new <> old -> In m (map (subst_node old new) ns) -> In y (n_uses m) -> y <> old.
  Proof.
    intros Hne Hm Hy. apply in_map_iff in Hm as (m0 & <- & _). rewrite n_uses_subst in Hy.
    apply in_map_iff in Hy as (y0 & <- & _). now apply rn_neq.
  Qed.

  Lemma outs_subst_neq old new outs y : new <> old -> In y (map (rn old new) outs) -> y <> old.
  Proof. intros Hne Hy. apply in_map_iff in Hy as (y0 & <- & _). now apply rn_neq. Qed.

  Lemma to_graph_subst old new g : to_graph (subst_ag old new g) = replace_all_uses old new (to_graph g).
  Proof. reflexivity. Qed.

  (* consumers: a node outside [consumers_of ns o] does not read o through its inputs *)
  Lemma not_consumer ns o m : In m ns -> ~ In m (consumers_of ns o) -> ~ In o (n_ins m).
  Proof.
    intros Hm Hn Hin. apply Hn. unfold consumers_of. apply filter_In. split; auto.
    apply existsb_exists. exists o. split; auto. apply Nat.eqb_refl.
  Qed.

  Lemma observed_false g o : observed g o = false ->
    ~ In o (ag_outputs g) /\ forall m, In m (ag_nodes g) -> ~ In o (n_caps m).
  Proof.
    unfold observed. intro H. apply orb_false_iff in H as [H1 H2]. split.
    - intro Hin. assert (existsb (Nat.eqb o) (ag_outputs g) = true) by (apply existsb_exists; exists o; split; auto; apply Nat.eqb_refl). congruence.
    - intros m Hm Hin.
      assert (existsb (fun m => existsb (Nat.eqb o) (n_caps m)) (ag_nodes g) = true).
      { apply existsb_exists. exists m. split; auto. apply existsb_exists. exists o. split; auto. apply Nat.eqb_refl. }
      congruence.
  Qed.

  Lemma In_remove_first k ns m : In m (remove_first k ns) -> In m ns.
  Proof. induction ns as [|n r IH]; simpl; [tauto|]. destruct (k n); [now right|]. intros [->|H]; [now left | right; auto]. Qed.

  Lemma NoDup_defs_remove_first k ns : NoDup (defs ns) -> NoDup (defs (remove_first k ns)).
  Proof.
    unfold defs. induction ns as [|n r IH]; simpl; intro H; auto.
    destruct (k n); [eapply NoDup_app_r; eauto|]. simpl.
    (* NoDup (outs n ++ defs r) -> NoDup (outs n ++ defs (remove_first r)) *)
    assert (Hincl : forall y, In y (flat_map n_outs (remove_first k r)) -> In y (flat_map n_outs r)).
    { intros y Hy. apply in_flat_map in Hy as (m & Hm & Hy). apply in_flat_map. exists m. split; auto. now apply (In_remove_first k r m). }
    revert H. generalize (n_outs n) as l. induction l as [|a l IHl]; simpl; intro H; [apply IH; exact H|].
    inversion H as [|? ? Hni Hnd]; subst. constructor; [|now apply IHl].
    intro Hin. apply Hni. apply in_app_or in Hin as [Hin|Hin]; apply in_or_app; [now left | right; now apply Hincl].
  Qed.

  Lemma node_is_outs o m : node_is o m = true -> n_outs m = [o].
  Proof. unfold node_is. destruct (n_outs m) as [|y [|]]; try discriminate. intro H. apply Nat.eqb_eq in H. now subst. Qed.

  Lemma remove_first_gone o ns m : NoDup (defs ns) -> node_is o m = true -> ~ In m (remove_first (node_is o) ns).
  Proof.
    unfold defs. induction ns as [|n r IH]; simpl; intros Hnd Hk Hin; [contradiction|].
    destruct (node_is o n) eqn:Ekn.
    - (* n removed; m in r defines o as well: o twice in defs *)
      apply node_is_outs in Ekn. apply node_is_outs in Hk. rewrite Ekn in Hnd. simpl in Hnd.
      inversion Hnd as [|? ? Hni _]; subst. apply Hni. apply in_flat_map. exists m. split; auto. rewrite Hk. now left.
    - destruct Hin as [->|Hin]; [congruence|]. apply IH; auto. eapply NoDup_app_r; eauto.
  Qed.

  (* ONE ITERATION of the pass is sound for every admissible annotated graph *)
  Theorem cast_step_sound g g' e :
    admissible sem g e -> cast_step g = Some g' -> refinesg (to_graph g) (to_graph g') e.
  Proof.
    intros Hadm Hstep. unfold cast_step in Hstep.
    destruct (first_action g (ag_nodes g)) as [a|] eqn:Efa; [|discriminate]. injection Hstep as <-.
    destruct (first_action_in g _ _ Efa) as (n & Hn & Hd). unfold decide in Hd.
    destruct (is_cast n) as [[[x o] t]|] eqn:Ecn; [|discriminate].
    destruct (ag_ann g x) as [s|] eqn:Ean; [|discriminate].
    pose proof (is_cast_spec _ _ _ _ Ecn) as (_ & Hin_n & Hon & _ & Hcapn).
    pose proof (adm_ssa _ _ _ Hadm) as [Hnd _].
    destruct (s =? t)%Z eqn:Est.
    - (* identity cast *)
      apply Z.eqb_eq in Est. subst t.
      destruct (Nat.eqb_spec x o) as [|Hxo]; [discriminate|]. injection Hd as <-.
      eapply (refines_trans V tteq tteq_trans sem).
      + eapply identity_redirect_sound; eauto.
      + simpl. apply remove_unmentioned.
        * rewrite defs_subst. exact Hnd.
        * intros m y Hm Hy. apply (uses_subst_neq o x (ag_nodes g) m y Hxo Hm Hy).
        * intros y Hy. apply (outs_subst_neq o x (ag_outputs g) y Hxo Hy).
    - (* round trip *)
      destruct (consumers_of (ag_nodes g) o) as [|m [|]] eqn:Econs; try discriminate.
      destruct (is_cast m) as [[[o' f] t2]|] eqn:Ecm; [|discriminate].
      destruct ((t2 =? s)%Z && _ && negb (Nat.eqb x o) && negb (Nat.eqb x f) && negb (Nat.eqb o f)) eqn:Econd; [|discriminate].
      injection Hd as <-.
      repeat (apply andb_prop in Econd as [Econd ?]).
      apply Z.eqb_eq in Econd. subst t2.
      assert (Hxo : x <> o) by (intro; subst; rewrite Nat.eqb_refl in *; discriminate).
      assert (Hxf : x <> f) by (intro; subst; rewrite Nat.eqb_refl in *; discriminate).
      assert (Hof : o <> f) by (intro; subst; rewrite Nat.eqb_refl in *; discriminate).
      assert (Hdec : cast_roundtrip_is_value_preserving s t = Some true).
      { destruct (cast_roundtrip_is_value_preserving s t) as [[|]|]; try discriminate; reflexivity. }
      assert (Hm : In m (ag_nodes g) /\ In o (n_ins m)).
      { assert (H' : In m (consumers_of (ag_nodes g) o)) by (rewrite Econs; now left).
        unfold consumers_of in H'. apply filter_In in H' as [Hf1 Hf2]. split; auto.
        apply existsb_exists in Hf2 as (y & Hy & E). apply Nat.eqb_eq in E. now subst. }
      destruct Hm as [Hm Hom].
      pose proof (is_cast_spec _ _ _ _ Ecm) as (_ & Hin_m & Hfm & _ & Hcapm).
      rewrite Hin_m in Hom. destruct Hom as [->|[]].
      (* 1. redirect f -> x *)
      eapply (refines_trans V tteq tteq_trans sem).
      { eapply (roundtrip_redirect_sound sem sem_proper sem_wt sem_cast g e n m x o f s t); eauto. }
      (* 2. remove the second cast (defines f; nothing mentions f any more) *)
      set (g1 := subst_ag f x g).
      eapply (refines_trans V tteq tteq_trans sem).
      { change (replace_all_uses f x (to_graph g)) with (mkGraph (ag_nodes g1) (ag_outputs g1)).
        apply (remove_unmentioned sem (ag_nodes g1) (ag_outputs g1) f e).
        - unfold g1, subst_ag. cbn [ag_nodes]. rewrite defs_subst. exact Hnd.
        - intros m0 y Hm0 Hy. unfold g1 in Hm0. simpl in Hm0. apply (uses_subst_neq f x (ag_nodes g) m0 y Hxf Hm0 Hy).
        - intros y Hy. unfold g1 in Hy. simpl in Hy. apply (outs_subst_neq f x (ag_outputs g) y Hxf Hy). }
      (* 3. optionally remove the first cast *)
      simpl. destruct (observed g o) eqn:Eobs.
      { intros out Hrun. exists out. split; auto. clear. induction out; constructor; auto. apply tteq_refl. }
      apply observed_false in Eobs as [Hno Hnc].
      apply remove_unmentioned.
      + apply NoDup_defs_remove_first. rewrite defs_subst. exact Hnd.
      + (* no remaining node mentions o: its only input-consumer was m (removed), nobody captures it *)
        intros m1 y Hm1 Hy Heq. subst y.
        pose proof Hm1 as Hm1'. apply In_remove_first in Hm1. apply in_map_iff in Hm1 as (m0 & Em0 & Hm0). subst m1.
        rewrite n_uses_subst in Hy. apply in_map_iff in Hy as (y0 & Hy0 & Hy0in).
        assert (y0 = o).
        { unfold rn in Hy0. destruct (Nat.eqb_spec y0 f); [congruence | assumption]. }
        subst y0. unfold n_uses in Hy0in. apply in_app_or in Hy0in as [Hi|Hc]; [|exact (Hnc m0 Hm0 Hc)].
        (* m0 reads o through its inputs => m0 is the unique consumer m, whose image was removed *)
        assert (Hcons : In m0 (consumers_of (ag_nodes g) o)).
        { unfold consumers_of. apply filter_In. split; auto. apply existsb_exists. exists o. split; auto. apply Nat.eqb_refl. }
        rewrite Econs in Hcons. destruct Hcons as [<-|[]].
        (* but the image of m was removed by remove_first (node_is f), and f is defined only once *)
        revert Hm1'. apply remove_first_gone; [rewrite defs_subst; exact Hnd|].
        unfold node_is. simpl. rewrite Hfm. apply Nat.eqb_refl.
      + intros y Hy Heq. subst y. apply in_map_iff in Hy as (y0 & Hy0 & Hin0).
        unfold rn in Hy0. destruct (Nat.eqb_spec y0 f); [congruence|]. subst y0. contradiction.
  Qed.
End PassSound.

(* ---------------------------------------------------------------- the whole pass (the while-changed loop) *)
Section PassLoop.
  Variable sem : string -> list nat -> list ttensor -> option (list ttensor).
  Hypothesis sem_proper : forall op ats vs vs' o, Forall2 tteq vs vs' -> sem op ats vs = Some o ->
    exists o', sem op ats vs' = Some o' /\ Forall2 tteq o o'.
  Hypothesis sem_wt : forall op ats vs o, Forall wt vs -> sem op ats vs = Some o -> Forall wt o.
  Hypothesis sem_cast : forall t vs o, sem "Cast" [t] vs = Some o ->
    exists x d, vs = [x] /\ dtype_of_code (Z.of_nat t) = Some d /\ o = [tcast d x].

  (* every graph the loop passes through is admissible (SSA, well-typed inputs, true annotations) *)
  Fixpoint admissible_along (fuel : nat) (g : agraph) (e : env ttensor) : Prop :=
    admissible sem g e /\
    match fuel with
    | O => True
    | S k => match cast_step g with Some g' => admissible_along k g' e | None => True end
    end.

  Theorem cast_pass_sound : forall fuel g e, admissible_along fuel g e ->
    refines ttensor tteq sem (to_graph g) (to_graph (cast_pass fuel g)) e.
  Proof.
    induction fuel as [|k IH]; simpl; intros g e [Hadm Hrest].
    - intros out Hrun. exists out. split; auto. clear. induction out; constructor; auto. apply tteq_refl.
    - destruct (cast_step g) as [g'|] eqn:Es.
      + eapply (refines_trans ttensor tteq tteq_trans sem).
        * eapply cast_step_sound; eauto.
        * apply IH. exact Hrest.
      + intros out Hrun. exists out. split; auto. clear. induction out; constructor; auto. apply tteq_refl.
  Qed.
End PassLoop.

(* non-vacuity: the pass model really removes a lossless pair and keeps a lossy one *)
Definition ex_ann (n : name) : option Z := match n with 0 => Some 1%Z | 1 => Some 11%Z | 2 => Some 1%Z | _ => None end.
Example cast_pass_removes_f32_f64_f32 :
  ag_nodes (cast_pass 5 (mkAG [mkNode "Cast" [11] [0] [] [1]; mkNode "Cast" [1] [1] [] [2]; mkNode "Relu" [] [2] [] [3]] [3] ex_ann))
  = [mkNode "Relu" [] [0] [] [3]].
Proof. vm_compute. reflexivity. Qed.
Definition ex_ann2 (n : name) : option Z := match n with 0 => Some 11%Z | 1 => Some 1%Z | 2 => Some 11%Z | _ => None end.
Example cast_pass_keeps_f64_f32_f64 :
  List.length (ag_nodes (cast_pass 5 (mkAG [mkNode "Cast" [1] [0] [] [1]; mkNode "Cast" [11] [1] [] [2]; mkNode "Relu" [] [2] [] [3]] [3] ex_ann2))) = 3.
Proof. vm_compute. reflexivity. Qed.
